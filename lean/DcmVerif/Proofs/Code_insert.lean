import DcmVerif.Generated.Code_insert
import DcmVerif.Proofs.Code_values
import DcmVerif.Proofs.KeyDictLemmas
/-! The per-key dictionary edits of merges (`_change_class`, `_insert_slice`, `_insert_non_slice`, `_insert_sample`) as translated
from dcmmeta.py are the per-key model's (`changeClassK`, `insertSliceK`, `insertNonSliceK`, `insertSampleK`). -/
set_option autoImplicit false
set_option linter.unusedSimpArgs false
set_option linter.unusedVariables false
open Cls

namespace Src
variable {α κ : Type}

theorem changeClassK_shape [DecidableEq α] (null : α) (sh : Shp) (ks : KeyState α) (new : Cls) :
    changeClassK null sh ks new =
      if ks.map (·.1) = some new then .ok ks
      else match getChangedK null sh ks new with
        | .error e => .error e
        | .ok v => .ok (some (new, v)) := rfl

/-- **`_change_class` as written in dcmmeta.py is the model's `changeClassK`** on the dictionaries of one key (absent, or held by
    one class valid for the shape): the values are written under the new class and the key is deleted from the old one -/
theorem change_class_eq [DecidableEq α] (null : α) (e : DExt κ α)
    (h3 : 3 ≤ e.shape.length) (h5 : e.shape.length ≤ 5) (hpos : ∀ x ∈ e.shape, 0 < x)
    (ks : KeyState α) (hks : ∀ c v, ks = some (c, v) → c ∈ validClasses e.shp ∧ mult e.shp c ≠ 0) (new : Cls)
    (hn : e.sliceDim.isSome = true ∨ perSlice new = false) :
    Py.change_class null e.shape (e.sliceDim.map fun d => e.shape.getD d 1) (toDict ks) new =
      errV ((changeClassK null (e.shp none) ks new).map toDict) := by
  have hvc := get_valid_classes_eq e none (by omega) h5
  have hgc := get_changed_class_none_eq null e h3 h5 hpos ks hks new hn
  unfold Py.change_class
  rw [hvc]
  simp only [ok_bind', changeClassK_shape]
  cases ks with
  | none =>
    simp only [toDict, valuesAndClass_nil, Option.map_none]
    simp only [valuesOf, Option.map_none] at hgc
    have : ((none : Option Cls) == some new) = false := rfl
    simp only [this, Bool.false_eq_true, if_false, hgc]
    cases hg : getChangedK null (e.shp none) none new with
    | error er => simp [errV, Except.map, bind, Except.bind]
    | ok v => simp [errV, Except.map, KeyDict.set, toDict, bind, Except.bind, pure, Except.pure]
  | some cv =>
    obtain ⟨c, v⟩ := cv
    have hc := (hks c v rfl).1
    simp only [toDict, valuesAndClass_single _ c v hc, Option.map_some]
    simp only [valuesOf, Option.map_some] at hgc
    by_cases hcn : c = new
    · subst hcn
      simp [errV, Except.map, toDict]
      rfl
    · have h1 : ((some c : Option Cls) == some new) = false := by simpa using hcn
      have h2 : ¬ (some c = some new) := by simpa using hcn
      simp only [h1, Bool.false_eq_true, if_false, h2, hgc]
      cases hg : getChangedK null (e.shp none) (some (c, v)) new with
      | error er => simp [errV, Except.map, bind, Except.bind]
      | ok v' =>
        have hnc : (c == new) = false := by simpa using hcn
        have hnc' : (new == c) = false := by simpa using (fun h => hcn h.symm)
        simp [errV, Except.map, KeyDict.set, KeyDict.del, toDict, bind, Except.bind, pure, Except.pure, hnc, hnc']

/-- **`_insert_non_slice` as written in dcmmeta.py is the model's `insertNonSliceK`**: the key stays only if `other`, widened to
    the class `self` holds it under, has the same values -/
theorem insert_non_slice_eq [DecidableEq α] (null : α) (e o : DExt κ α) (sd : Nat)
    (h3 : 3 ≤ e.shape.length) (h5 : e.shape.length ≤ 5)
    (ho3 : 3 ≤ o.shape.length) (ho5 : o.shape.length ≤ 5) (hopos : ∀ x ∈ o.shape, 0 < x) (hsd : sd < o.shape.length)
    (c : Cls) (lv : List α) (hc : c ∈ validClasses e.shp)
    (other : KeyState α) (hother : ∀ c v, other = some (c, v) → c ∈ validClasses o.shp ∧ mult o.shp c ≠ 0)
    (content : List String) :
    Py.insert_non_slice null e.shape (e.sliceDim.map fun d => e.shape.getD d 1) (toDict (some (c, lv))) (some sd) content
        o.shape (o.sliceDim.map fun d => o.shape.getD d 1) (valuesOf null other) (other.map (·.1)) =
      errV ((insertNonSliceK null (o.shp (some sd)) (some (c, lv)) other).map toDict) := by
  have hvc := get_valid_classes_eq e none (by omega) h5
  have hgc := get_changed_class_eq null o sd ho3 ho5 hopos hsd other hother c
  unfold Py.insert_non_slice insertNonSliceK
  rw [hvc]
  simp only [ok_bind', toDict, valuesAndClass_single _ c lv hc, hgc]
  cases hg : getChangedK null (o.shp (some sd)) other c with
  | error er => simp [errV, Except.map, bind, Except.bind]
  | ok ov =>
    by_cases hl : lv = ov
    · simp [errV, Except.map, toDict, hl, bind, Except.bind, pure, Except.pure]
    · have hl' : (lv != ov) = true := by simpa using hl
      simp [errV, Except.map, toDict, hl, hl', KeyDict.del, bind, Except.bind, pure, Except.pure]

/-- the base names present in `_content` -/
def contentOf' (e : DExt κ α) : List String :=
  ["global"] ++ (if e.hasTime then ["time"] else []) ++ (if e.hasVector then ["vector"] else [])

/-- **`_insert_slice` as written in dcmmeta.py is the model's `insertSliceK`** on the dictionaries of one key: constants that differ
    become per-slice values of the first base present (time, vector, global), time slices are appended, everything else goes
    through global slices with the new slice interleaved into every volume -/
theorem insert_slice_eq [DecidableEq α] (null : α) (e o : DExt κ α) (sd : Nat)
    (h3 : 3 ≤ e.shape.length) (h5 : e.shape.length ≤ 5) (hpos : ∀ x ∈ e.shape, 0 < x)
    (hsl : e.sliceDim.isSome = true) (hosl : o.sliceDim.isSome = true)
    (hbase : ∀ d, basePresent e.shp d = true → d ∈ validClasses e.shp)
    (ho3 : 3 ≤ o.shape.length) (ho5 : o.shape.length ≤ 5) (hopos : ∀ x ∈ o.shape, 0 < x) (hsd : sd < o.shape.length)
    (c : Cls) (lv : List α) (hc : c ∈ validClasses e.shp) (hcm : mult e.shp c ≠ 0)
    (other : KeyState α) (hother : ∀ c v, other = some (c, v) → c ∈ validClasses o.shp ∧ mult o.shp c ≠ 0) :
    Py.insert_slice null e.shape (e.sliceDim.map fun d => e.shape.getD d 1) (toDict (some (c, lv))) (some sd) (contentOf' e)
        o.shape (o.sliceDim.map fun d => o.shape.getD d 1) (valuesOf null other) (other.map (·.1)) =
      errV ((insertSliceK null e.shp (o.shp (some sd)) (some (c, lv)) other).map toDict) := by
  have hvc := get_valid_classes_eq e none (by omega) h5
  have hgc := fun new => get_changed_class_eq null o sd ho3 ho5 hopos hsd other hother new
  unfold Py.insert_slice insertSliceK
  rw [hvc]
  simp only [ok_bind', toDict, valuesAndClass_single _ c lv hc, hgc]
  cases hg : getChangedK null (o.shp (some sd)) other c with
  | error er => simp [errV, Except.map, bind, Except.bind]
  | ok ov =>
    simp only [errV, ok_bind']
    by_cases hc1 : c = gconst
    · subst hc1
      by_cases hl : lv = ov
      · simp [hl, Except.map, toDict, pure, Except.pure]
      · have hl' : (lv != ov) = true := by simpa using hl
        have hccf := fun dest => change_class_eq null e h3 h5 hpos (some (gconst, lv))
          (fun c' v' h => by cases h; exact ⟨hc, hcm⟩) dest (Or.inl hsl)
        simp only [toDict] at hccf
        have hct : (contentOf' e).contains "time" = e.hasTime := by
          cases h1 : e.hasTime <;> cases h2 : e.hasVector <;> simp [contentOf', h1, h2] <;> decide
        have hcv : (contentOf' e).contains "vector" = e.hasVector := by
          cases h1 : e.hasTime <;> cases h2 : e.hasVector <;> simp [contentOf', h1, h2] <;> decide
        have hcg : (contentOf' e).contains "global" = true := by
          cases h1 : e.hasTime <;> cases h2 : e.hasVector <;> simp [contentOf', h1, h2]
        have hbt : Cls.ofBaseSub "time" "slices" = tslices := by rfl
        have hbv : Cls.ofBaseSub "vector" "slices" = vslices := by rfl
        have hbg : Cls.ofBaseSub "global" "slices" = gslices := by rfl
        have hvt : e.hasTime = true → tslices ∈ validClasses e.shp := fun h => hbase tslices (by simp [basePresent, DExt.shp, h])
        have hvv : e.hasVector = true → vslices ∈ validClasses e.shp := fun h => hbase vslices (by simp [basePresent, DExt.shp, h])
        have hvg : gslices ∈ validClasses e.shp := hbase gslices (by simp [basePresent])
        have hT : (e.shp).hasTime = e.hasTime := rfl
        have hV : (e.shp).hasVector = e.hasVector := rfl
        simp only [hl, hl', if_true, if_false, List.forIn_cons, List.forIn_nil, hct, hcv, hcg, hccf, hgc, changeClassK_shape,
          Option.map_some, hbt, hbv, hbg, hT, hV]
        cases ht : e.hasTime
        · cases hv : e.hasVector
          · simp only [Bool.false_eq_true, if_false, pure_bind, hccf, changeClassK_shape, Option.map_some]
            cases hk1 : getChangedK null e.shp (some (gconst, lv)) gslices <;>
              cases hk2 : getChangedK null (o.shp (some sd)) other gslices <;>
              simp [errV, Except.map, toDict, valuesAndClass_single _ _ _ hvg, KeyDict.set, bind, Except.bind, pure, Except.pure]
          · simp only [Bool.false_eq_true, if_false, if_true, pure_bind, hccf, changeClassK_shape, Option.map_some]
            cases hk1 : getChangedK null e.shp (some (gconst, lv)) vslices <;>
              cases hk2 : getChangedK null (o.shp (some sd)) other vslices <;>
              simp [errV, Except.map, toDict, valuesAndClass_single _ _ _ (hvv hv), KeyDict.set, bind, Except.bind, pure, Except.pure]
        · simp only [if_true]
          cases hk1 : getChangedK null e.shp (some (gconst, lv)) tslices <;>
            cases hk2 : getChangedK null (o.shp (some sd)) other tslices <;>
            simp [errV, Except.map, toDict, valuesAndClass_single _ _ _ (hvt ht), KeyDict.set, bind, Except.bind, pure, Except.pure]
    · by_cases hc2 : c = tslices
      · subst hc2
        simp [errV, Except.map, toDict, KeyDict.set, bind, Except.bind, pure, Except.pure]
      · have hS : pyGet (e.sliceDim.map fun d => e.shape.getD d 1) = .ok e.shp.S := by
          obtain ⟨shape, sdim, ht, hvv, ents⟩ := e
          cases sdim <;> simp at hsl <;> simp [pyGet, DExt.shp]
        have hoS : pyGet (o.sliceDim.map fun d => o.shape.getD d 1) = .ok (o.shp (some sd)).S := by
          obtain ⟨shape, sdim, ht, hvv, ents⟩ := o
          cases sdim <;> simp at hosl <;> simp [pyGet, DExt.shp]
        by_cases hc3 : c = gslices
        · subst hc3
          simp only [hc1, hc2, if_false, hS, hoS, ok_bind', bne_self_eq_false, Bool.false_eq_true]
          rw [show (gslices == gconst) = false from rfl, show (gslices == tslices) = false from rfl]
          simp only [Bool.false_eq_true, if_false]
          rw [forIn_yield (fun dim_size r => r * dim_size), ok_bind']
          have hi := forIn_yield (σ := List α × Nat × Nat)
            (fun (_ : Nat) r => intlvStep e.shp.S (o.shp (some sd)).S lv ov r)
            (List.range ((e.shape.drop 3).foldl (· * ·) 1)) ([], 0, 0)
          have h := iter_intlvStep e.shp.S (o.shp (some sd)).S lv ov ((e.shape.drop 3).foldl (· * ·) 1) [] 0 0
          rw [← foldl_range_const] at h
          simp only [List.drop_zero, List.nil_append] at h
          simp only [intlvStep] at hi h
          rw [hi, ok_bind', h, prod_drop3 e none h3 h5]
          simp [Except.map, toDict, KeyDict.set, pure, Except.pure]
        · have hcc := change_class_eq null e h3 h5 hpos (some (c, lv))
            (fun c' v' h => by cases h; exact ⟨hc, hcm⟩) gslices (Or.inl hsl)
          simp only [toDict] at hcc
          have hb1 : (c == gconst) = false := by simpa using hc1
          have hb2 : (c == tslices) = false := by simpa using hc2
          have hb3 : (c != gslices) = true := by simpa using hc3
          have hne : ¬ (some c = some gslices) := by simpa using hc3
          simp only [hc1, hc2, hc3, hb1, hb2, hb3, if_false, if_true, Bool.false_eq_true, hcc, changeClassK_shape,
            Option.map_some, hne]
          cases hk : getChangedK null e.shp (some (c, lv)) gslices with
          | error er => simp [errV, Except.map, bind, Except.bind]
          | ok lv' =>
            simp only [errV, Except.map, toDict, ok_bind', KeyDict.get, List.find?, beq_self_eq_true]
            cases hk2 : getChangedK null (o.shp (some sd)) other gslices with
            | error er => simp [errV, Except.map, bind, Except.bind]
            | ok ov' =>
              simp only [ok_bind', hS, hoS]
              rw [forIn_yield (fun dim_size r => r * dim_size), ok_bind']
              have hi := forIn_yield (σ := List α × Nat × Nat)
                (fun (_ : Nat) r => intlvStep e.shp.S (o.shp (some sd)).S lv' ov' r)
                (List.range ((e.shape.drop 3).foldl (· * ·) 1)) ([], 0, 0)
              have h := iter_intlvStep e.shp.S (o.shp (some sd)).S lv' ov' ((e.shape.drop 3).foldl (· * ·) 1) [] 0 0
              rw [← foldl_range_const] at h
              simp only [List.drop_zero, List.nil_append] at h
              simp only [intlvStep] at hi h
              rw [hi, ok_bind', h, prod_drop3 e none h3 h5]
              simp [Except.map, toDict, KeyDict.set, pure, Except.pure]

theorem gslices_valid (sh : Shp) : gslices ∈ validClasses sh := by
  unfold validClasses; split <;> (try split) <;> (try split) <;> simp

theorem sample_tail (e o : DExt κ α) (sd : Nat) (isTime : Bool) (hoT : e.shape.length = 5 → 3 < o.shape.length)
    (lv ov : List α) (d0 : KeyDict α) :
    (if (isTime && e.shape.length == 5) = true then do
        let s ← forIn (m := Except PyErr) (List.range e.shape[4]!) (([] : List α), 0, 0) fun vec_idx s =>
            pure
              (ForInStep.yield
                (s.fst ++ List.take (s.snd.fst + e.shp.S * e.shape[3]! - s.snd.fst) (List.drop s.snd.fst lv) ++
                    List.take (s.snd.snd + e.shp.S * o.shape[3]! - s.snd.snd) (List.drop s.snd.snd ov),
                  s.snd.fst + e.shp.S * e.shape[3]!, s.snd.snd + e.shp.S * o.shape[3]!))
        pure (KeyDict.set d0 gslices s.fst)
      else pure (KeyDict.set d0 gslices (lv ++ ov))) =
    Except.ok (KeyDict.set d0 gslices
      (if (isTime && e.shp.nd == 5) = true then
        interleave (e.shp.S * e.shp.T) (e.shp.S * (o.shp (some sd)).T) e.shp.V lv ov
      else lv ++ ov)) := by
  have hnd : e.shp.nd = e.shape.length := rfl
  by_cases hcond : (isTime && e.shape.length == 5) = true
  · have h5 : e.shape.length = 5 := by
      simp at hcond; exact hcond.2
    have ho := hoT h5
    simp only [hcond, hnd, if_true]
    have hi := forIn_yield (σ := List α × Nat × Nat)
      (fun (_ : Nat) r => intlvStep (e.shp.S * e.shape[3]!) (e.shp.S * o.shape[3]!) lv ov r)
      (List.range e.shape[4]!) ([], 0, 0)
    have h := iter_intlvStep (e.shp.S * e.shape[3]!) (e.shp.S * o.shape[3]!) lv ov e.shape[4]! [] 0 0
    rw [← foldl_range_const] at h
    simp only [List.drop_zero, List.nil_append] at h
    simp only [intlvStep] at hi h
    rw [hi, ok_bind', h]
    have e3 : e.shape[3]! = e.shp.T := by
      obtain ⟨shape, sdim, ht, hvv, ents⟩ := e
      match shape, h5 with
      | [a, b, c, d, f], _ => simp [DExt.shp]
    have e4 : e.shape[4]! = e.shp.V := by
      obtain ⟨shape, sdim, ht, hvv, ents⟩ := e
      match shape, h5 with
      | [a, b, c, d, f], _ => simp [DExt.shp]
    have o3 : o.shape[3]! = (o.shp (some sd)).T := by
      obtain ⟨shape, sdim, ht, hvv, ents⟩ := o
      simp only [DExt.shp]
      simp at ho
      simp [getElem!_pos, ho, List.getElem?_eq_getElem ho]
    rw [e3, e4, o3]
    rfl
  · have hcond' : (isTime && e.shape.length == 5) = false := by simpa using hcond
    simp only [hcond', hnd, Bool.false_eq_true, if_false]
    rfl

/-- **`_insert_sample` as written in dcmmeta.py is the model's `insertSampleK`** on the dictionaries of one key: constants that
    differ become samples of the merged axis, samples are appended, everything else goes through global slices — interleaved per
    vector component in a time merge of a five-axis extension, appended otherwise -/
theorem insert_sample_eq [DecidableEq α] (null : α) (e o : DExt κ α) (sd : Nat) (isTime : Bool)
    (h3 : 3 ≤ e.shape.length) (h5 : e.shape.length ≤ 5) (hpos : ∀ x ∈ e.shape, 0 < x)
    (hsl : e.sliceDim.isSome = true)
    (ho3 : 3 ≤ o.shape.length) (ho5 : o.shape.length ≤ 5) (hopos : ∀ x ∈ o.shape, 0 < x) (hsd : sd < o.shape.length)
    (hoT : e.shape.length = 5 → 3 < o.shape.length)
    (hsamp : (if isTime then tsamples else vsamples) ∈ validClasses e.shp)
    (c : Cls) (lv : List α) (hc : c ∈ validClasses e.shp) (hcm : mult e.shp c ≠ 0)
    (other : KeyState α) (hother : ∀ c v, other = some (c, v) → c ∈ validClasses o.shp ∧ mult o.shp c ≠ 0)
    (content : List String) :
    Py.insert_sample null e.shape (e.sliceDim.map fun d => e.shape.getD d 1) (toDict (some (c, lv))) (some sd) content
        o.shape (o.sliceDim.map fun d => o.shape.getD d 1) (valuesOf null other) (other.map (·.1))
        (if isTime then "time" else "vector") =
      errV ((insertSampleK null isTime e.shp (o.shp (some sd)) (some (c, lv)) other).map toDict) := by
  have hvc := get_valid_classes_eq e none (by omega) h5
  have hgc := fun new => get_changed_class_eq null o sd ho3 ho5 hopos hsd other hother new
  have hccf := fun dest hn => change_class_eq null e h3 h5 hpos (some (c, lv))
    (fun c' v' h => by cases h; exact ⟨hc, hcm⟩) dest hn
  simp only [toDict] at hccf
  have hbs : Cls.ofBaseSub (if isTime then "time" else "vector") "samples" = (if isTime then tsamples else vsamples) := by
    cases isTime <;> rfl
  have hvg := gslices_valid e.shp
  unfold Py.insert_sample insertSampleK
  rw [hvc]
  simp only [ok_bind', toDict, valuesAndClass_single _ c lv hc, hgc, hbs]
  cases hg : getChangedK null (o.shp (some sd)) other c with
  | error er => simp [errV, Except.map, bind, Except.bind]
  | ok ov =>
    simp only [errV, ok_bind']
    by_cases hc1 : c = gconst
    · subst hc1
      by_cases hl : lv = ov
      · simp [hl, Except.map, toDict, pure, Except.pure]
      · have hl' : (lv != ov) = true := by simpa using hl
        have hns : perSlice (if isTime then tsamples else vsamples) = false := by cases isTime <;> rfl
        simp only [hl, hl', if_true, if_false, hccf _ (Or.inr hns), changeClassK_shape, Option.map_some]
        cases hk1 : getChangedK null e.shp (some (gconst, lv)) (if isTime then tsamples else vsamples) <;>
          cases hk2 : getChangedK null (o.shp (some sd)) other (if isTime then tsamples else vsamples) <;>
          cases isTime <;>
          simp_all [errV, Except.map, toDict, valuesAndClass_single, KeyDict.set, bind, Except.bind, pure, Except.pure]
    · have hb1 : (c == gconst) = false := by simpa using hc1
      have hS : pyGet (e.sliceDim.map fun d => e.shape.getD d 1) = .ok e.shp.S := by
        obtain ⟨shape, sdim, ht, hvv, ents⟩ := e
        cases sdim <;> simp at hsl <;> simp [pyGet, DExt.shp]
      have hbt : ((if isTime then "time" else "vector") == "time") = isTime := by cases isTime <;> rfl
      by_cases hc2 : c = (if isTime then tsamples else vsamples)
      · have hb2 : (c == (if isTime then tsamples else vsamples)) = true := by simpa using hc2
        simp only [hc1, hb1, hc2, hb2, if_true, if_false, Bool.false_eq_true]
        cases isTime <;> simp_all [Except.map, toDict, KeyDict.set, pure, Except.pure]
      · have hb2 : (c == (if isTime then tsamples else vsamples)) = false := by simpa using hc2
        by_cases hc3 : c = gslices
        · subst hc3
          simp only [hc1, hb1, hc2, hb2, if_true, if_false, Bool.false_eq_true, bne_self_eq_false, hbt, hS, ok_bind']
          rw [sample_tail e o sd isTime hoT lv ov]
          by_cases hcond : (isTime && e.shp.nd == 5) = true <;>
            simp [hcond, Except.map, toDict, KeyDict.set]
        · have hb3 : (c != gslices) = true := by simpa using hc3
          have hne : ¬ (some c = some gslices) := by simpa using hc3
          simp only [hc1, hb1, hc2, hb2, hc3, hb3, if_true, if_false, Bool.false_eq_true, hbt, hS,
            hccf gslices (Or.inl hsl), changeClassK_shape, Option.map_some, hne]
          cases hk : getChangedK null e.shp (some (c, lv)) gslices with
          | error er => simp [errV, Except.map, bind, Except.bind]
          | ok lv' =>
            simp only [errV, Except.map, toDict, ok_bind', valuesAndClass_single _ _ _ hvg]
            cases hk2 : getChangedK null (o.shp (some sd)) other gslices with
            | error er => simp [errV, Except.map, bind, Except.bind]
            | ok ov' =>
              simp only [ok_bind']
              rw [sample_tail e o sd isTime hoT lv' ov']
              by_cases hcond : (isTime && e.shp.nd == 5) = true <;>
                simp [hcond, Except.map, toDict, KeyDict.set]

theorem content_contains' (e : DExt κ α) (d : Cls) :
    (contentOf' e).contains d.base = basePresent e.shp d := by
  obtain ⟨shape, sd, ht, hvv, ents⟩ := e
  cases d <;> cases ht <;> cases hvv <;> simp [contentOf', Cls.base, basePresent, DExt.shp] <;> decide

/-- **the reclassification `_insert` applies to a key before inserting, as written in dcmmeta.py, is the model's `reclassifyK`** -/
theorem reclassify_eq [DecidableEq α] (null : α) (e : DExt κ α)
    (h3 : 3 ≤ e.shape.length) (h5 : e.shape.length ≤ 5) (hpos : ∀ x ∈ e.shape, 0 < x) (hsl : e.sliceDim.isSome = true)
    (ks : KeyState α) (hks : ∀ c v, ks = some (c, v) → c ∈ validClasses e.shp ∧ mult e.shp c ≠ 0) (oc : Cls) :
    Py.reclassify null e.shape (e.sliceDim.map fun d => e.shape.getD d 1) (toDict ks) (contentOf' e) oc =
      errV ((reclassifyK null e.shp ks oc).map toDict) := by
  have hvc := get_valid_classes_eq e none (by omega) h5
  have hccf := fun dest => change_class_eq null e h3 h5 hpos ks hks dest (Or.inl hsl)
  have hcc := content_contains' e
  unfold Py.reclassify reclassifyK
  rw [hvc]
  simp only [ok_bind', hccf, hcc]
  have hlc : (KeyDict.valuesAndClass (validClasses e.shp) (toDict ks)).map (·.1) = ks.map (·.1) := by
    cases ks with
    | none => simp [toDict, valuesAndClass_nil]
    | some cv => obtain ⟨c, v⟩ := cv; simp [toDict, valuesAndClass_single _ c v (hks c v rfl).1]
  simp only [hlc]
  by_cases h1 : ks.map (·.1) = some oc
  · have h1' : (ks.map (·.1) != some oc) = false := by simp [h1]
    simp [h1, h1', errV, Except.map, pure, Except.pure]
  · have h1' : (ks.map (·.1) != some oc) = true := by simpa using h1
    simp only [h1, h1', if_true, if_false]
    by_cases h2 : oc ∈ preserving (ks.map (·.1))
    · have h2' : (preserving (ks.map (·.1))).contains oc = true := by simpa using h2
      simp only [h2, h2', if_true]
      cases hk : changeClassK null e.shp ks oc <;> simp [errV, Except.map, bind, Except.bind, pure, Except.pure]
    · have h2' : (preserving (ks.map (·.1))).contains oc = false := by simpa using h2
      simp only [h2, h2', if_false, Bool.false_eq_true]
      cases ks with
      | none =>
        simp only [Option.map_none, Option.any_none, Bool.false_eq_true, if_false, Bool.not_false, if_true]
        cases hf : (preserving none).find? (fun d => basePresent e.shp d && decide (d ∈ preserving (some oc))) with
        | none =>
          simp [hf, errV, Except.map, bind, Except.bind, throw, throwThe, MonadExceptOf.throw]
        | some d =>
          cases hk : changeClassK null e.shp none d <;> simp [hf, hk, errV, Except.map, bind, Except.bind, pure, Except.pure]
      | some cv =>
        obtain ⟨c, v⟩ := cv
        simp only [Option.map_some, Option.any_some]
        by_cases h3' : c ∈ preserving (some oc)
        · have h3'' : (preserving (some oc)).contains c = true := by simpa using h3'
          simp [h3', h3'', errV, Except.map, pure, Except.pure]
        · have h3'' : (preserving (some oc)).contains c = false := by simpa using h3'
          simp only [h3', h3'', decide_false, Bool.false_eq_true, if_false, Bool.not_false, if_true]
          cases hf : (preserving (some c)).find? (fun d => basePresent e.shp d && decide (d ∈ preserving (some oc))) with
          | none =>
            simp [hf, errV, Except.map, bind, Except.bind, throw, throwThe, MonadExceptOf.throw]
          | some d =>
            cases hk : changeClassK null e.shp (some (c, v)) d <;> simp [hf, hk, errV, Except.map, bind, Except.bind, pure, Except.pure]

/-- **the insertion `_insert(dim, other)` applies to a key, as written in dcmmeta.py**: `_insert_slice` along the slice axis of
    `self`, else `_insert_non_slice` for another spatial axis, `_insert_sample` for time (3) and vector (4), nothing otherwise —
    the case distinction of the model's `mergeKey` -/
theorem insert_dispatch_eq [DecidableEq α] (null : α) (shape : List Nat) (nsl : Option Nat) (d : KeyDict α) (sd : Option Nat)
    (content : List String) (oshape : List Nat) (onsl : Option Nat) (ovals : List α) (ocls : Option Cls) (dim : Nat) :
    Py.insert_dispatch null shape nsl d sd content oshape onsl ovals ocls dim =
      if some dim = sd then Py.insert_slice null shape nsl d sd content oshape onsl ovals ocls
      else if dim < 3 then Py.insert_non_slice null shape nsl d sd content oshape onsl ovals ocls
      else if dim = 3 then Py.insert_sample null shape nsl d sd content oshape onsl ovals ocls "time"
      else if dim = 4 then Py.insert_sample null shape nsl d sd content oshape onsl ovals ocls "vector"
      else .ok d := by
  unfold Py.insert_dispatch
  by_cases h1 : some dim = sd
  · have h1' : (some dim == sd) = true := by simpa using h1
    simp [h1, h1']
  · have h1' : (some dim == sd) = false := by simpa using h1
    by_cases h2 : dim < 3
    · simp [h1, h1', h2]
    · by_cases h3 : dim = 3
      · simp [h1, h1', h2, h3]
      · by_cases h4 : dim = 4
        · simp [h1, h1', h2, h3, h4]
        · simp [h1, h1', h2, h3, h4]; rfl

/-! the translated methods compute (tests, not theorems) -/
example : Py.change_class (0 : Nat) [2, 2, 2, 2] (some 2) [(tsamples, [7, 8])] gslices = .ok [(gslices, [7, 7, 8, 8])] := by rfl
example : Py.insert_slice (0 : Nat) [2, 2, 2, 2] (some 2) [(gslices, [1, 2, 3, 4])] (some 2) ["global", "time"]
    [2, 2, 1, 2] (some 1) [9, 8] (some gslices) = .ok [(gslices, [1, 2, 9, 3, 4, 8])] := by rfl
example : Py.insert_slice (0 : Nat) [2, 2, 2, 2] (some 2) [(gconst, [5])] (some 2) ["global", "time"]
    [2, 2, 1, 2] (some 1) [6] (some gconst) = .ok [(tslices, [5, 5, 6])] := by rfl
example : Py.insert_non_slice (0 : Nat) [2, 2, 2] (some 2) [(gconst, [5])] (some 2) ["global"]
    [2, 2, 2] (some 2) [6] (some gconst) = .ok [] := by rfl
example : Py.insert_sample (0 : Nat) [2, 2, 2, 2] (some 2) [(tsamples, [5, 6])] (some 2) ["global", "time"]
    [2, 2, 2] (some 2) [7] (some gconst) "time" = .ok [(tsamples, [5, 6, 7])] := by rfl

end Src
