import DcmVerif.Model.Time
import DcmVerif.Generated.Tables
/-! TM strings to seconds (C20). -/
set_option autoImplicit false

namespace Tm
open Phx

theorem dropColons_idem (s : Str) : dropColons (dropColons s) = dropColons s := by
  unfold dropColons
  rw [List.filter_filter]
  congr 1
  funext c
  simp

/-- **colons are ignored:** a TM string and the same string with its colons removed convert alike,
    wherever the colons are -/
theorem toSec_colons (s : Str) : toSec s = toSec (dropColons s) := by
  unfold toSec
  rw [dropColons_idem]

theorem toSec_same_digits (s₁ s₂ : Str) (h : dropColons s₁ = dropColons s₂) : toSec s₁ = toSec s₂ := by
  rw [toSec_colons s₁, toSec_colons s₂, h]

/-- value of a `Dec` in microseconds when it has at most 6 fractional digits -/
def Dec.micros (d : Dec) : Option Int :=
  if 0 ≤ d.scale ∧ d.scale ≤ 6 then
    some ((if d.neg then -1 else 1) * (d.mant : Int) * (10 : Int) ^ (6 - d.scale).toNat)
  else none

/-- total microseconds of a conversion result (when representable) -/
def Out.micros : Out → Option Int
  | .valueError => none
  | .ok secs none => some (secs * 1000000)
  | .ok secs (some d) => d.micros.map (· + secs * 1000000)

/-- kernel-evaluated instances over every TM shape of the property: 2, 4, 6 digits, fraction of
    1–6 digits, with and without colons: `hh·3600 + mm·60 + ss.ffffff` -/
theorem tm_instances :
    (toSec "07".toList).micros = some (7 * 3600 * 1000000) ∧
    (toSec "0730".toList).micros = some ((7 * 3600 + 30 * 60) * 1000000) ∧
    (toSec "073015".toList).micros = some ((7 * 3600 + 30 * 60 + 15) * 1000000) ∧
    (toSec "073015.5".toList).micros = some ((7 * 3600 + 30 * 60 + 15) * 1000000 + 500000) ∧
    (toSec "235959.999999".toList).micros = some ((23 * 3600 + 59 * 60 + 59) * 1000000 + 999999) ∧
    (toSec "07:30:15.250000".toList).micros = some ((7 * 3600 + 30 * 60 + 15) * 1000000 + 250000) ∧
    (toSec "07:30".toList).micros = some ((7 * 3600 + 30 * 60) * 1000000) ∧
    (toSec "000000.000001".toList).micros = some 1 ∧
    (toSec "120000".toList).micros = some (12 * 3600 * 1000000) := by decide

/-- malformed TM strings raise ValueError -/
theorem tm_malformed :
    toSec "".toList = .valueError ∧ toSec "ab".toList = .valueError ∧
    toSec "12x4".toList = .valueError ∧ toSec "1234yy".toList = .valueError := by decide

/-- hours only: any two digits -/
theorem two_digits (a b : Nat) (ha : a < 10) (hb : b < 10) :
    toSec [Char.ofNat (48 + a), Char.ofNat (48 + b)] = .ok ((10 * a + b : Nat) * 3600) none := by
  have h : ∀ a, a < 10 → ∀ b, b < 10 →
      toSec [Char.ofNat (48 + a), Char.ofNat (48 + b)] = .ok ((10 * a + b : Nat) * 3600) none := by
    decide
  exact h a ha b hb

/-- hours and minutes: any four digits -/
theorem four_digits (a b c d : Nat) (ha : a < 10) (hb : b < 10) (hc : c < 10) (hd : d < 10) :
    toSec [Char.ofNat (48 + a), Char.ofNat (48 + b), Char.ofNat (48 + c), Char.ofNat (48 + d)] =
      .ok ((10 * a + b : Nat) * 3600 + (10 * c + d : Nat) * 60) none := by
  have h : ∀ a, a < 10 → ∀ b, b < 10 → ∀ c, c < 10 → ∀ d, d < 10 →
      toSec [Char.ofNat (48 + a), Char.ofNat (48 + b), Char.ofNat (48 + c), Char.ofNat (48 + d)] =
        .ok ((10 * a + b : Nat) * 3600 + (10 * c + d : Nat) * 60) none := by
    decide +kernel
  exact h a ha b hb c hc d hd

/-- the two Python implementations are the same function: their ASTs are equal modulo docstring
    (computed from the current source by the translator) -/
theorem time_fns_identical : Gen.timeFnBodiesIdentical = true := by decide

end Tm
