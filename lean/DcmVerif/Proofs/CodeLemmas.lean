import DcmVerif.Generated.PyPrelude
/-! Lemmas about the loops the translator emits (`for` with early `return`, raising loops, bounded `while` loops), shared by the `Proofs/Code_*.lean` files. -/
set_option autoImplicit false
set_option linter.unusedSimpArgs false
set_option linter.unusedVariables false
open Cls

namespace Src
variable {α κ : Type}

theorem ok_bind' {β γ : Type} (b : β) (f : β → Except PyErr γ) : (Except.ok b >>= f) = f b := rfl


/-- a `for` loop that returns False at the first element failing `P` and falls through otherwise -/
theorem forIn_search {β : Type} (P : β → Bool) : ∀ (l : List β),
    (forIn (m := Except PyErr) l ((none : Option Bool), ()) fun (x : β) (__s : Option Bool × Unit) =>
        if (!P x) = true then pure (ForInStep.done (some false, ())) else pure (ForInStep.yield (none, ()))) =
      .ok (if l.all P then (none, ()) else (some false, ()))
  | [] => by simp; rfl
  | x :: xs => by
    rw [List.forIn_cons]
    by_cases h : P x = true
    · simp only [h, Bool.not_true, Bool.false_eq_true, if_false, pure_bind, forIn_search P xs]
      simp [h]
    · have h' : P x = false := by simpa using h
      simp [h', bind, Except.bind, pure, Except.pure]



/-- a `for` loop over a unit state whose body either goes on or raises `e0`, decided by `P` -/
theorem forIn_guard_unit {β : Type} (e0 : PyErr) (P : β → Bool)
    (f : β → PUnit → Except PyErr (ForInStep PUnit)) : ∀ (l : List β),
    (∀ x, x ∈ l → ∀ s, f x s = if P x then .ok (ForInStep.yield PUnit.unit) else .error e0) →
    forIn l PUnit.unit f = if l.all P then .ok PUnit.unit else .error e0
  | [], _ => by simp; rfl
  | x :: xs, hf => by
    rw [List.forIn_cons, hf x (by simp)]
    by_cases hp : P x = true
    · simp only [hp, if_true, List.all_cons, Bool.true_and]
      have := forIn_guard_unit e0 P f xs (fun y hy s => hf y (by simp [hy]) s)
      simpa [bind, Except.bind] using this
    · have hp' : P x = false := by simpa using hp
      simp [hp', bind, Except.bind]



/-- `while cond: s = step(s)` run for at most `n` rounds -/
def whileFuel {σ : Type} (cond : σ → Bool) (step : σ → σ) : Nat → σ → σ
  | 0, s => s
  | n + 1, s => if cond s then whileFuel cond step n (step s) else s

/-- the `for _ in range(fuel): if not cond: break; s = step(s)` rendering of a `while` loop -/
theorem forIn_while {β σ : Type} (cond : σ → Bool) (step : σ → σ) : ∀ (l : List β) (s : σ),
    (forIn (m := Except PyErr) l s fun (_ : β) (r : σ) =>
        if (!cond r) = true then pure (ForInStep.done r) else pure (ForInStep.yield (step r))) =
      .ok (whileFuel cond step l.length s)
  | [], s => rfl
  | x :: xs, s => by
    rw [List.forIn_cons]
    by_cases h : cond s = true
    · simp only [h, Bool.not_true, Bool.false_eq_true, if_false, List.length_cons, whileFuel, if_true]
      exact forIn_while cond step xs (step s)
    · have h' : cond s = false := by simpa using h
      simp [h', whileFuel, bind, Except.bind, pure, Except.pure]


theorem whileFuel_stable {σ : Type} (cond : σ → Bool) (step : σ → σ) (n : Nat) (s : σ) (h : cond s = false) :
    whileFuel cond step n s = s := by
  cases n <;> simp [whileFuel, h]

/-- after enough rounds the loop condition is false -/

def padCond (dim : Nat) (l : List Nat) : Bool := decide (l.length ≤ dim)

theorem whileFuel_pad (dim : Nat) : ∀ (n : Nat) (l : List Nat), dim + 1 - l.length ≤ n →
    whileFuel (padCond dim) (fun l => l ++ [1]) n l = l ++ List.replicate (dim + 1 - l.length) 1
  | 0, l, h => by
    have : dim + 1 - l.length = 0 := by omega
    simp [whileFuel, this]
  | n + 1, l, h => by
    by_cases hc : l.length ≤ dim
    · have hc' : padCond dim l = true := by simp [padCond, hc]
      rw [whileFuel, if_pos hc', whileFuel_pad dim n (l ++ [1]) (by simp; omega)]
      have e : dim + 1 - l.length = (dim + 1 - (l ++ [1]).length) + 1 := by simp; omega
      rw [e, List.replicate_succ, List.append_assoc]
      rfl
    · have hc' : padCond dim l = false := by simp [padCond, hc]
      have : dim + 1 - l.length = 0 := by omega
      rw [whileFuel, if_neg (by simp [hc'])]
      simp [this]

/-- a `for` loop whose body only updates the state is a left fold -/
theorem forIn_yield {β σ : Type} (g : β → σ → σ) : ∀ (l : List β) (s : σ),
    (forIn (m := Except PyErr) l s fun (x : β) (r : σ) => pure (ForInStep.yield (g x r))) =
      .ok (l.foldl (fun r x => g x r) s)
  | [], s => rfl
  | x :: xs, s => by
    rw [List.forIn_cons]
    simp only [pure_bind, List.foldl_cons]
    exact forIn_yield g xs (g x s)

/-- `g` applied `k` times -/
def iter {σ : Type} (g : σ → σ) : Nat → σ → σ
  | 0, s => s
  | k + 1, s => iter g k (g s)

/-- folding a step that ignores the counter over `range k` iterates the step `k` times -/
theorem foldl_range_const {σ : Type} (g : σ → σ) (k : Nat) (s : σ) :
    (List.range k).foldl (fun r _ => g r) s = iter g k s := by
  have : ∀ (l : List Nat) (s : σ), l.foldl (fun r _ => g r) s = iter g l.length s := by
    intro l
    induction l with
    | nil => intro s; rfl
    | cons x xs ih => intro s; simp [List.foldl_cons, ih, iter]
  simpa using this (List.range k) s

end Src
