import DcmVerif.Generated.PyPrelude
import DcmVerif.Model.Key
/-! The per-key view of the classification dictionaries (`KeyDict`, generated prelude) against the model's `KeyState`. -/
set_option autoImplicit false
set_option linter.unusedSimpArgs false
set_option linter.unusedVariables false
open Cls

namespace Src
variable {α κ : Type}

/-- a key state as the classification dictionaries see it: no class, or exactly one, holds the key -/
def toDict : KeyState α → KeyDict α
  | none => []
  | some (c, v) => [(c, v)]

theorem valuesAndClass_nil (valid : List Cls) : KeyDict.valuesAndClass valid ([] : KeyDict α) = none := by
  induction valid with
  | nil => rfl
  | cons x xs ih => simp [KeyDict.valuesAndClass, List.findSome?_cons] at ih ⊢

theorem valuesAndClass_single (valid : List Cls) (c : Cls) (v : List α) (h : c ∈ valid) :
    KeyDict.valuesAndClass valid [(c, v)] = some (c, v) := by
  induction valid with
  | nil => simp at h
  | cons x xs ih =>
    by_cases hx : x = c
    · subst hx; simp [KeyDict.valuesAndClass, List.findSome?_cons, List.find?]
    · have hm : c ∈ xs := by
        rcases List.mem_cons.mp h with h1 | h1
        · exact absurd h1.symm hx
        · exact h1
      have hne : (c == x) = false := by simpa using (fun h' => hx h'.symm)
      simp [KeyDict.valuesAndClass, List.findSome?_cons, List.find?, hne] at ih ⊢
      exact ih hm

end Src
