import DcmVerif.Proofs.Total
/-! C07: validity is closed under chains of `get_subset` calls of any length (one key). -/
set_option autoImplicit false
set_option linter.unusedSectionVars false
open Cls

namespace Chain
variable {α : Type} [DecidableEq α]

/-- a shape the splitting theorems apply to: consistent, and a vector axis (if any) with ≥ 2
    components -/
def Good (sh : Shp) : Prop := Consistent sh ∧ (sh.nd = 5 → 2 ≤ sh.V)

theorem mkConsistent (sh : Shp) (hS : 0 < sh.S) (hT : 0 < sh.T) (hV : 0 < sh.V)
    (hnd : sh.nd = 3 ∨ sh.nd = 4 ∨ sh.nd = 5) (h3 : sh.nd = 3 → sh.T = 1 ∧ sh.V = 1)
    (h4 : sh.nd = 4 → sh.V = 1) (hsl : sh.hasSlice = true)
    (htime : sh.hasTime = true ↔ (4 ≤ sh.nd ∧ sh.T ≠ 1)) (hvec : sh.hasVector = true ↔ sh.nd = 5)
    (trimmed4 : sh.nd = 4 → sh.T ≠ 1) : Consistent sh :=
  Consistent.mk (WFnd.mk (WF.mk hS hT hV) hnd h3 h4) hsl htime hvec trimmed4

theorem good_slice (sh : Shp) (h : Good sh) : Good (sliceSubsetShp sh) := by
  obtain ⟨hc, hv⟩ := h
  exact ⟨mkConsistent (sliceSubsetShp sh) (by simp [sliceSubsetShp]) hc.hT hc.hV hc.hnd hc.h3 hc.h4
    hc.hsl hc.htime hc.hvec hc.trimmed4, hv⟩

theorem good_time (sh : Shp) (h : Good sh) (h45 : sh.nd = 4 ∨ sh.nd = 5) : Good (timeSubsetShp sh) := by
  obtain ⟨hc, hv⟩ := h
  by_cases h4 : sh.nd = 4
  · have hrs : timeSubsetShp sh = { sh with nd := 3, T := 1, hasTime := false, hasVector := false } := by
      simp [timeSubsetShp, h4]
    rw [hrs]
    have hV1 := hc.h4 h4
    refine ⟨mkConsistent _ hc.hS (by simp) hc.hV (Or.inl rfl) (fun _ => ⟨rfl, hV1⟩)
      (fun h => by cases h) hc.hsl (by simp) (by simp) (fun h => by cases h), fun h => by cases h⟩
  · have h5 : sh.nd = 5 := by
      rcases h45 with h | h
      · exact absurd h h4
      · exact h
    have hrs : timeSubsetShp sh = { sh with T := 1, hasTime := false } := by
      simp [timeSubsetShp, h4]
    rw [hrs]
    refine ⟨mkConsistent _ hc.hS (by simp) hc.hV (Or.inr (Or.inr h5))
      (fun h => by simp at h; omega) (fun h => by simp at h; omega) hc.hsl (by simp) hc.hvec
      (fun h => by simp at h; omega), hv⟩

theorem good_vec (sh : Shp) (h : Good sh) (h5 : sh.nd = 5) : Good (vecSubsetShp sh) := by
  obtain ⟨hc, _⟩ := h
  by_cases hT1 : sh.T = 1
  · have hrs : vecSubsetShp sh = { sh with nd := 3, V := 1, hasVector := false } := by
      simp [vecSubsetShp, hT1]
    rw [hrs]
    have hnt : sh.hasTime = false := by
      cases hh : sh.hasTime with
      | false => rfl
      | true => exact absurd hT1 (hc.htime.mp hh).2
    refine ⟨mkConsistent _ hc.hS hc.hT (by simp) (Or.inl rfl) (fun _ => ⟨hT1, rfl⟩)
      (fun h => by cases h) hc.hsl (by simp [hnt]) (by simp) (fun h => by cases h), fun h => by cases h⟩
  · have hrs : vecSubsetShp sh = { sh with nd := 4, V := 1, hasVector := false } := by
      simp [vecSubsetShp, hT1]
    rw [hrs]
    have hht : sh.hasTime = true := hc.htime.mpr ⟨by omega, hT1⟩
    refine ⟨mkConsistent _ hc.hS hc.hT (by simp) (Or.inr (Or.inl rfl)) (fun h => by cases h)
      (fun _ => rfl) hc.hsl (by simp [hht, hT1]) (by simp) (fun _ => hT1), fun h => by cases h⟩

/-- one split step: which axis, which index -/
inductive SubOp
  | slice (i : Nat)
  | time (i : Nat)
  | vec (i : Nat)

/-- shape after the step, `none` when the step does not apply (axis absent, index out of range) -/
def nextShp (sh : Shp) : SubOp → Option Shp
  | .slice i => if i < sh.S then some (sliceSubsetShp sh) else none
  | .time i => if (sh.nd = 4 ∨ sh.nd = 5) ∧ i < sh.T then some (timeSubsetShp sh) else none
  | .vec i => if sh.nd = 5 ∧ i < sh.V then some (vecSubsetShp sh) else none

def stepOp (null : α) (sh : Shp) (ks : KeyState α) : SubOp → Except Err (KeyState α)
  | .slice i => subsetSliceK null sh ks i
  | .time i => subsetTimeK null sh ks i
  | .vec i => subsetVecK null sh ks i

/-- a chain of `get_subset` calls on one key -/
def runOps (null : α) : Shp → KeyState α → List SubOp → Option (Shp × Except Err (KeyState α))
  | sh, ks, [] => some (sh, .ok ks)
  | sh, ks, op :: ops =>
    match nextShp sh op with
    | none => none
    | some sh' =>
      match stepOp null sh ks op with
      | .error e => some (sh', .error e)
      | .ok ks' => runOps null sh' ks' ops

/-- **any chain of splits keeps the key valid and never fails:** from a valid key of a good shape,
    every applicable sequence of slice / time / vector subsets runs through without an error and ends
    in a valid key of a good shape -/
theorem chain_valid (null : α) (ops : List SubOp) (sh : Shp) (ks : KeyState α)
    (hg : Good sh) (hv : ValidK sh ks) (sh' : Shp) (res : Except Err (KeyState α))
    (h : runOps null sh ks ops = some (sh', res)) :
    Good sh' ∧ ∃ ks', res = .ok ks' ∧ ValidK sh' ks' := by
  induction ops generalizing sh ks with
  | nil =>
    simp only [runOps, Option.some.injEq, Prod.mk.injEq] at h
    obtain ⟨rfl, rfl⟩ := h
    exact ⟨hg, ks, rfl, hv⟩
  | cons op ops ih =>
    unfold runOps at h
    cases op with
    | slice i =>
      simp only [nextShp] at h
      by_cases hi : i < sh.S
      · simp only [hi, if_true, stepOp] at h
        obtain ⟨p, hp⟩ := Total.subsetSliceK_ok null sh hg.1 ks hv i hi
        rw [hp] at h
        have hvp := (subsetSlice_spec null sh hg.1 ks hv i hi p hp).1
        exact ih (sliceSubsetShp sh) p (good_slice sh hg) hvp h
      · simp [hi] at h
    | time i =>
      simp only [nextShp] at h
      by_cases hi : (sh.nd = 4 ∨ sh.nd = 5) ∧ i < sh.T
      · simp only [hi, and_self, if_true, stepOp] at h
        obtain ⟨p, hp⟩ := Total.subsetTimeK_ok null sh hg.1 hi.1 hg.2 ks hv i hi.2
        rw [hp] at h
        have hvp : ValidK (timeSubsetShp sh) p := by
          rcases hi.1 with h4 | h5
          · exact (subsetTime_spec4 null sh hg.1 h4 ks hv i hi.2 p hp).1
          · exact (Total.subsetTime_spec5 null sh hg.1 h5 (hg.2 h5) ks hv i hi.2 p hp).1
        exact ih (timeSubsetShp sh) p (good_time sh hg hi.1) hvp h
      · simp [hi] at h
    | vec i =>
      simp only [nextShp] at h
      by_cases hi : sh.nd = 5 ∧ i < sh.V
      · simp only [hi, and_self, if_true, stepOp] at h
        obtain ⟨p, hp⟩ := Total.subsetVecK_ok null sh hg.1 hi.1 ks hv i hi.2
        rw [hp] at h
        have hvp := (subsetVec_spec null sh hg.1 hi.1 ks hv i hi.2 p hp).1
        exact ih (vecSubsetShp sh) p (good_vec sh hg hi.1) hvp h
      · simp [hi] at h

end Chain
