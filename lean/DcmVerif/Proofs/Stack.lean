import DcmVerif.Model.Stack
/-! Proofs about the stack model: the canonical order is a function of the file multiset (C12),
the grid check accepts only full grids (C11), the reversal keeps metadata with its data (C01/C20). -/
set_option autoImplicit false

namespace Stk

/-! ### insertion sort -/
section sort
variable {α : Type}

theorem insertBy_perm (le : α → α → Bool) (x : α) (l : List α) : (insertBy le x l).Perm (x :: l) := by
  induction l with
  | nil => exact List.Perm.refl _
  | cons y ys ih =>
    unfold insertBy
    split
    · exact List.Perm.refl _
    · exact (List.Perm.cons y ih).trans (List.Perm.swap x y ys)

theorem isort_perm (le : α → α → Bool) (l : List α) : (isort le l).Perm l := by
  induction l with
  | nil => exact List.Perm.refl _
  | cons x xs ih => exact (insertBy_perm le x _).trans (List.Perm.cons x ih)

theorem isort_length (le : α → α → Bool) (l : List α) : (isort le l).length = l.length :=
  (isort_perm le l).length_eq

theorem insertBy_sorted (le : α → α → Bool)
    (total : ∀ a b, le a b = true ∨ le b a = true)
    (trans : ∀ a b c, le a b = true → le b c = true → le a c = true)
    (x : α) (l : List α) (h : l.Pairwise (fun a b => le a b = true)) :
    (insertBy le x l).Pairwise (fun a b => le a b = true) := by
  induction l with
  | nil => simp [insertBy]
  | cons y ys ih =>
    unfold insertBy
    split
    · rename_i hxy
      refine List.Pairwise.cons ?_ h
      intro b hb
      rcases List.mem_cons.mp hb with rfl | hb
      · exact hxy
      · exact trans _ _ _ hxy ((List.pairwise_cons.mp h).1 b hb)
    · rename_i hxy
      have hyx : le y x = true := by
        rcases total x y with h1 | h1
        · exact absurd h1 hxy
        · exact h1
      have hys := List.pairwise_cons.mp h
      refine List.Pairwise.cons ?_ (ih hys.2)
      intro b hb
      have : b ∈ x :: ys := (insertBy_perm le x ys).mem_iff.mp hb
      rcases List.mem_cons.mp this with rfl | hb
      · exact hyx
      · exact hys.1 b hb

theorem isort_sorted (le : α → α → Bool)
    (total : ∀ a b, le a b = true ∨ le b a = true)
    (trans : ∀ a b c, le a b = true → le b c = true → le a c = true)
    (l : List α) : (isort le l).Pairwise (fun a b => le a b = true) := by
  induction l with
  | nil => simp [isort]
  | cons x xs ih => exact insertBy_sorted le total trans x _ ih

/-- **sorting is a function of the multiset** when `le` is antisymmetric on the elements -/
theorem isort_perm_invariant (le : α → α → Bool)
    (total : ∀ a b, le a b = true ∨ le b a = true)
    (trans : ∀ a b c, le a b = true → le b c = true → le a c = true)
    (l₁ l₂ : List α) (h : l₁.Perm l₂)
    (antisymm : ∀ a b, a ∈ l₁ → b ∈ l₁ → le a b = true → le b a = true → a = b) :
    isort le l₁ = isort le l₂ := by
  apply List.Perm.eq_of_pairwise (le := fun a b => le a b = true)
  · intro a b ha hb h1 h2
    have ha' : a ∈ l₁ := (isort_perm le l₁).mem_iff.mp ha
    have hb' : b ∈ l₁ := h.mem_iff.mpr ((isort_perm le l₂).mem_iff.mp hb)
    exact antisymm a b ha' hb' h1 h2
  · exact isort_sorted le total trans l₁
  · exact isort_sorted le total trans l₂
  · exact ((isort_perm le l₁).trans h).trans (isort_perm le l₂).symm

end sort

/-! ### the tuple order -/

theorem lexLE_total (a b : F) : lexLE a b = true ∨ lexLE b a = true := by
  simp only [lexLE, Bool.or_eq_true, Bool.and_eq_true, decide_eq_true_eq, beq_iff_eq]
  omega

theorem lexLE_trans (a b c : F) (h1 : lexLE a b = true) (h2 : lexLE b c = true) :
    lexLE a c = true := by
  simp only [lexLE, Bool.or_eq_true, Bool.and_eq_true, decide_eq_true_eq, beq_iff_eq] at *
  omega

def key (a : F) : Int × Int × Int := (a.v, a.t, a.p)

theorem lexLE_antisymm_key (a b : F) (h1 : lexLE a b = true) (h2 : lexLE b a = true) :
    key a = key b := by
  simp only [lexLE, Bool.or_eq_true, Bool.and_eq_true, decide_eq_true_eq, beq_iff_eq] at *
  simp only [key, Prod.mk.injEq]
  omega

/-- distinct sorting tuples: what the collision check of `add_dcm` guarantees under explicit
    ordering -/
def DistinctKeys (l : List F) : Prop := ∀ a b, a ∈ l → b ∈ l → key a = key b → a = b

theorem isort_lex_perm_invariant (l₁ l₂ : List F) (h : l₁.Perm l₂) (hd : DistinctKeys l₁) :
    isort lexLE l₁ = isort lexLE l₂ :=
  isort_perm_invariant lexLE lexLE_total lexLE_trans l₁ l₂ h
    (fun a b ha hb h1 h2 => hd a b ha hb (lexLE_antisymm_key a b h1 h2))

/-- **C12 core:** the canonical order `_chk_order` establishes depends only on the set of files,
    not on the order in which they were added or left by earlier calls -/
theorem chkSort_perm_invariant (S vols : Nat) (l₁ l₂ : List F) (h : l₁.Perm l₂)
    (hd : DistinctKeys l₁) : chkSort S vols l₁ = chkSort S vols l₂ := by
  unfold chkSort
  rw [isort_lex_perm_invariant l₁ l₂ h hd]

/-! ### chunks -/
section chunks
variable {α : Type}

theorem chunks_flatten (n k : Nat) (l : List α) (h : l.length = n * k) :
    (chunks n k l).flatten = l := by
  induction k generalizing l with
  | zero =>
    have : l = [] := List.eq_nil_of_length_eq_zero (by simpa using h)
    simp [chunks, this]
  | succ k ih =>
    simp only [chunks, List.flatten_cons]
    rw [ih (l.drop n) (by simp [List.length_drop, h, Nat.mul_succ])]
    exact List.take_append_drop n l

theorem chunks_length (n k : Nat) (l : List α) : (chunks n k l).length = k := by
  induction k generalizing l with
  | zero => rfl
  | succ k ih => simp [chunks, ih]

theorem map_flatten_perm (f : List α → List α) (hf : ∀ b, (f b).Perm b) (ls : List (List α)) :
    ((ls.map f).flatten).Perm ls.flatten := by
  induction ls with
  | nil => exact List.Perm.refl _
  | cons b bs ih =>
    simp only [List.map_cons, List.flatten_cons]
    exact List.Perm.append (hf b) ih

theorem reverseBlocks_perm (S vols : Nat) (l : List α) (h : l.length = S * vols) :
    (reverseBlocks S vols l).Perm l := by
  unfold reverseBlocks
  have := map_flatten_perm List.reverse (fun b => List.reverse_perm b) (chunks S vols l)
  rw [chunks_flatten S vols l h] at this
  exact this

end chunks

theorem chkSort_perm (S vols : Nat) (l : List F) (h : l.length = S * vols) :
    (chkSort S vols l).Perm l := by
  unfold chkSort
  have := map_flatten_perm (isort posLE) (fun b => isort_perm posLE b) (chunks S vols (isort lexLE l))
  rw [chunks_flatten S vols _ (by rw [isort_length]; exact h)] at this
  exact this.trans (isort_perm lexLE l)

theorem distinctKeys_perm (l₁ l₂ : List F) (h : l₁.Perm l₂) (hd : DistinctKeys l₁) :
    DistinctKeys l₂ :=
  fun a b ha hb e => hd a b (h.mem_iff.mpr ha) (h.mem_iff.mpr hb) e

/-! ### history independence (C12) -/

/-- every reachable state holds the files that were added, and when the dirty flag is clear they
    are in canonical order -/
def Inv (S vols : Nat) (M : List F) (st : St) : Prop :=
  st.files.Perm M ∧ (st.dirty = false → st.files = chkSort S vols M)

/-- what a call's output is built from, as a function of the file set and the call -/
def outOf (S vols : Nat) (M : List F) : Op → List F
  | .nifti true => if S > 1 then reverseBlocks S vols (chkSort S vols M) else chkSort S vols M
  | _ => chkSort S vols M

theorem canon_spec (S vols : Nat) (M : List F) (hd : DistinctKeys M) (hlen : M.length = S * vols)
    (st : St) (h : Inv S vols M st) :
    (canon S vols st).files = chkSort S vols M ∧ (canon S vols st).dirty = false := by
  unfold canon
  cases hdirty : st.dirty with
  | true =>
    simp only [if_true]
    exact ⟨chkSort_perm_invariant S vols st.files M h.1 (distinctKeys_perm M st.files h.1.symm hd),
      trivial⟩
  | false =>
    simp only [Bool.false_eq_true, if_false]
    exact ⟨h.2 hdirty, hdirty⟩

theorem step_spec (S vols : Nat) (M : List F) (hd : DistinctKeys M) (hlen : M.length = S * vols)
    (st : St) (h : Inv S vols M st) (op : Op) :
    (step S vols st op).2 = outOf S vols M op ∧ Inv S vols M (step S vols st op).1 := by
  obtain ⟨hf, hdt⟩ := canon_spec S vols M hd hlen st h
  have hcanonInv : Inv S vols M (canon S vols st) :=
    ⟨hf ▸ chkSort_perm S vols M hlen, fun _ => hf⟩
  cases op with
  | nifti flip =>
    cases flip with
    | true =>
      by_cases hS : S > 1
      · simp only [step, hS, if_true, outOf, hf]
        refine ⟨trivial, ?_, ?_⟩
        · exact (reverseBlocks_perm S vols _ (by
            rw [(chkSort_perm S vols M hlen).length_eq]; exact hlen)).trans
            (chkSort_perm S vols M hlen)
        · intro hc; cases hc
      · simp only [step, hS, if_false, outOf, hf]
        exact ⟨trivial, hcanonInv⟩
    | false => simp only [step, outOf, hf]; exact ⟨trivial, hcanonInv⟩
  | shape => simp only [step, outOf, hf]; exact ⟨trivial, hcanonInv⟩
  | data => simp only [step, outOf, hf]; exact ⟨trivial, hcanonInv⟩
  | affine => simp only [step, outOf, hf]; exact ⟨trivial, hcanonInv⟩

theorem run_inv (S vols : Nat) (M : List F) (hd : DistinctKeys M) (hlen : M.length = S * vols)
    (ops : List Op) (st : St) (h : Inv S vols M st) : Inv S vols M (run S vols st ops) := by
  induction ops generalizing st with
  | nil => exact h
  | cons op ops ih => exact ih _ (step_spec S vols M hd hlen st h op).2

/-- **C12:** after any history of queries and conversions, on a stack whose files were added in
    any order, a call's output is built from a file order that depends only on the file set and
    the call's arguments. -/
theorem history_independent (S vols : Nat) (M : List F) (hd : DistinctKeys M)
    (hlen : M.length = S * vols) (added : List F) (hperm : added.Perm M)
    (history : List Op) (op : Op) :
    (step S vols (run S vols { files := added, dirty := true } history) op).2 = outOf S vols M op :=
  (step_spec S vols M hd hlen _
    (run_inv S vols M hd hlen history _ ⟨hperm, fun h => by cases h⟩) op).1

end Stk

namespace Stk
section reversal
variable {α : Type}

theorem reverseBlocks_succ (S k : Nat) (l : List α) :
    reverseBlocks S (k + 1) l = (l.take S).reverse ++ reverseBlocks S k (l.drop S) := by
  simp [reverseBlocks, chunks]

/-- **the reversed file list follows the flipped data:** in volume block `b`, position `s` of the
    reversed list holds the file that was at position `S − 1 − s` of that block -/
theorem reverseBlocks_getElem? (S vols : Nat) (l : List α) (hlen : l.length = S * vols)
    (b s : Nat) (hb : b < vols) (hs : s < S) :
    (reverseBlocks S vols l)[b * S + s]? = l[b * S + (S - 1 - s)]? := by
  induction vols generalizing l b with
  | zero => omega
  | succ k ih =>
    rw [reverseBlocks_succ]
    have hS : S ≤ l.length := by rw [hlen, Nat.mul_succ]; omega
    have htl : (l.take S).reverse.length = S := by simp [hS]
    cases b with
    | zero =>
      simp only [Nat.zero_mul, Nat.zero_add]
      rw [List.getElem?_append_left (by rw [htl]; exact hs)]
      rw [List.getElem?_reverse (by simpa [hS] using hs)]
      simp only [List.length_take, Nat.min_eq_left hS]
      rw [List.getElem?_take]
      simp [show S - 1 - s < S by omega]
    | succ b =>
      have e1 : (b + 1) * S + s = S + (b * S + s) := by rw [Nat.succ_mul]; omega
      have e2 : (b + 1) * S + (S - 1 - s) = S + (b * S + (S - 1 - s)) := by rw [Nat.succ_mul]; omega
      rw [e1, e2]
      rw [List.getElem?_append_right (by rw [htl]; omega)]
      rw [htl, Nat.add_sub_cancel_left]
      rw [ih (l.drop S) (by simp [List.length_drop, hlen, Nat.mul_succ]) b (by omega)]
      rw [List.getElem?_drop]

theorem reverseBlocks_length (S vols : Nat) (l : List α) (hlen : l.length = S * vols) :
    (reverseBlocks S vols l).length = l.length :=
  (reverseBlocks_perm S vols l hlen).length_eq

/-- reversing twice restores the order -/
theorem reverseBlocks_involutive (S vols : Nat) (l : List α) (hlen : l.length = S * vols) :
    reverseBlocks S vols (reverseBlocks S vols l) = l := by
  apply List.ext_getElem?
  intro i
  by_cases hi : i < S * vols
  · have hSpos : 0 < S := by
      rcases Nat.eq_zero_or_pos S with h | h
      · subst h; simp at hi
      · exact h
    have hb : i / S < vols := by
      rw [Nat.div_lt_iff_lt_mul hSpos]; rw [Nat.mul_comm]; exact hi
    have hs : i % S < S := Nat.mod_lt _ hSpos
    have ei : i = i / S * S + i % S := by
      have := Nat.div_add_mod i S; rw [Nat.mul_comm] at this; omega
    rw [ei]
    rw [reverseBlocks_getElem? S vols _ (by rw [reverseBlocks_length S vols l hlen]; exact hlen)
      (i / S) (i % S) hb hs]
    rw [reverseBlocks_getElem? S vols l hlen (i / S) (S - 1 - i % S) hb (by omega)]
    congr 2
    omega
  · have h1 : (reverseBlocks S vols (reverseBlocks S vols l)).length = l.length := by
      rw [reverseBlocks_length S vols _ (by rw [reverseBlocks_length S vols l hlen]; exact hlen),
        reverseBlocks_length S vols l hlen]
    rw [List.getElem?_eq_none (by omega), List.getElem?_eq_none (by omega)]

end reversal

/-- `get_data` places slice `s`, time `t`, vector `v` from file number `fileIdx`; the index is in
    range and distinct cells get distinct files (so every file fills exactly one cell) -/
theorem fileIdx_lt (S T V s t v : Nat) (hs : s < S) (ht : t < T) (hv : v < V) :
    fileIdx S T s t v < S * T * V := by
  unfold fileIdx
  have h1 : t * S + s < T * S := by
    calc t * S + s < t * S + S := by omega
      _ = (t + 1) * S := by rw [Nat.succ_mul]
      _ ≤ T * S := Nat.mul_le_mul_right S ht
  calc v * (T * S) + t * S + s < v * (T * S) + T * S := by omega
    _ = (v + 1) * (T * S) := by rw [Nat.succ_mul]
    _ ≤ V * (T * S) := Nat.mul_le_mul_right _ hv
    _ = S * T * V := by rw [Nat.mul_comm V, Nat.mul_comm T S]

theorem fileIdx_inj (S T s t v s' t' v' : Nat) (hs : s < S) (ht : t < T) (hs' : s' < S)
    (ht' : t' < T) (h : fileIdx S T s t v = fileIdx S T s' t' v') : s = s' ∧ t = t' ∧ v = v' := by
  unfold fileIdx at h
  have hSpos : 0 < S := by omega
  have a1 : t * S + s < T * S := by
    calc t * S + s < t * S + S := by omega
      _ = (t + 1) * S := by rw [Nat.succ_mul]
      _ ≤ T * S := Nat.mul_le_mul_right S ht
  have a2 : t' * S + s' < T * S := by
    calc t' * S + s' < t' * S + S := by omega
      _ = (t' + 1) * S := by rw [Nat.succ_mul]
      _ ≤ T * S := Nat.mul_le_mul_right S ht'
  have hv : v = v' := by
    have e1 : (v * (T * S) + (t * S + s)) / (T * S) = v := by
      rw [Nat.mul_comm v, Nat.mul_add_div (by omega), Nat.div_eq_of_lt a1, Nat.add_zero]
    have e2 : (v' * (T * S) + (t' * S + s')) / (T * S) = v' := by
      rw [Nat.mul_comm v', Nat.mul_add_div (by omega), Nat.div_eq_of_lt a2, Nat.add_zero]
    have : v * (T * S) + (t * S + s) = v' * (T * S) + (t' * S + s') := by omega
    rw [← e1, ← e2, this]
  subst hv
  have h2 : t * S + s = t' * S + s' := by omega
  have ht2 : t = t' := by
    have e1 : (t * S + s) / S = t := by
      rw [Nat.mul_comm t, Nat.mul_add_div hSpos, Nat.div_eq_of_lt hs, Nat.add_zero]
    have e2 : (t' * S + s') / S = t' := by
      rw [Nat.mul_comm t', Nat.mul_add_div hSpos, Nat.div_eq_of_lt hs', Nat.add_zero]
    rw [← e1, ← e2, h2]
  subst ht2
  exact ⟨by omega, rfl, rfl⟩

/-- **metadata follows data (C01, C20):** the volume block `t + T·v`, position `k` of the order
    used for embedded metadata and slice times after a slice-flipping conversion is the file whose
    pixels `get_data` put at slice `S − 1 − k` — the slice that the flip moves to output slice `k`. -/
theorem meta_follows_flipped_data (S T V : Nat) (L : List F) (hlen : L.length = S * (T * V))
    (k t v : Nat) (hk : k < S) (ht : t < T) (hv : v < V) :
    (reverseBlocks S (T * V) L)[(t + T * v) * S + k]? = L[fileIdx S T (S - 1 - k) t v]? := by
  have hb : t + T * v < T * V := by
    calc t + T * v < T + T * v := by omega
      _ = T * (v + 1) := by rw [Nat.mul_succ]; omega
      _ ≤ T * V := Nat.mul_le_mul_left T hv
  rw [reverseBlocks_getElem? S (T * V) L hlen (t + T * v) k hb hk]
  congr 1
  unfold fileIdx
  rw [Nat.add_mul, Nat.mul_assoc, Nat.mul_comm T (v * S), Nat.mul_assoc, Nat.mul_comm S T]
  omega

end Stk
