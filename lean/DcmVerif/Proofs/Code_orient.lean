import DcmVerif.Generated.Code_orient
import DcmVerif.Proofs.CodeLemmas
/-! The `voxel_order` checks of `reorder_voxels` as translated from dcmstack.py are the model's `Orient.checkCode`. -/
set_option autoImplicit false
set_option linter.unusedSimpArgs false
set_option linter.unusedVariables false

namespace Src
open Orient

theorem delWhileIter_eq (ch : Char) : ∀ (l : List (List Char)),
    pyDelWhileIter (fun axis => decide (ch ∈ axis)) l = delWhileIter ch l
  | [] => rfl
  | [a] => by simp [pyDelWhileIter, delWhileIter]
  | a :: b :: rest => by
    simp only [pyDelWhileIter, delWhileIter, decide_eq_true_eq]
    by_cases h : ch ∈ a
    · simp [h, delWhileIter_eq ch rest]
    · simp [h, delWhileIter_eq ch (b :: rest)]

theorem check_loop (f : Char → List (List Char) → Except PyErr (ForInStep (List (List Char))))
    (hf : ∀ c r, f c r = if c ∈ ['L', 'R', 'A', 'P', 'S', 'I'] then .ok (ForInStep.yield (delWhileIter c r))
      else .error PyErr.valueError) (cs : List Char) : ∀ (acc : List (List Char)),
    forIn (m := Except PyErr) cs acc f =
      (match checkLoop cs acc with | some left => .ok left | none => .error PyErr.valueError) := by
  induction cs with
  | nil => intro acc; rfl
  | cons c rest ih =>
    intro acc
    rw [List.forIn_cons, hf]
    simp only [checkLoop]
    by_cases hc : c ∈ ['L', 'R', 'A', 'P', 'S', 'I']
    · simp only [hc, if_true, ok_bind']
      exact ih _
    · simp [hc, bind, Except.bind]

/-- **the `voxel_order` checks of `reorder_voxels` as written in dcmstack.py pass exactly when the model's `checkCode` holds**
    (ValueError otherwise), for every string -/
theorem check_voxel_order_eq (s : List Char) :
    Py.check_voxel_order s = if checkCode s then .ok () else .error PyErr.valueError := by
  unfold Py.check_voxel_order checkCode
  by_cases hl : (s.map upperC).length = 3
  · have hl' : ((s.map upperC).length != 3) = false := by simp [hl]
    simp only [hl', Bool.false_eq_true, if_false, hl, ne_eq, not_true_eq_false]
    rw [check_loop _ ?hf]
    case hf =>
      intro c r
      have hd : pyDelWhileIter (fun axis => axis.contains c) r = delWhileIter c r := by
        have := delWhileIter_eq c r
        simpa using this
      by_cases hc : c ∈ ['L', 'R', 'A', 'P', 'S', 'I']
      · have hc' : (['L', 'R', 'A', 'P', 'S', 'I'].contains c) = true := by simpa using hc
        simp only [hc', Bool.not_true, Bool.false_eq_true, if_false, hc, if_true, hd]
        rfl
      · have hc' : (['L', 'R', 'A', 'P', 'S', 'I'].contains c) = false := by simpa using hc
        simp only [hc', Bool.not_false, if_true, hc, if_false]
        rfl
    cases hk : checkLoop (s.map upperC) [['L', 'R'], ['A', 'P'], ['S', 'I']] with
    | none => simp [leftEmpty, bind, Except.bind]
    | some left =>
      cases left with
      | nil => simp [leftEmpty, bind, Except.bind, pure, Except.pure]
      | cons a t => simp [leftEmpty, bind, Except.bind, throw, throwThe, MonadExceptOf.throw]
  · have hl' : ((s.map upperC).length != 3) = true := by simpa using hl
    simp only [hl', if_true, hl, ne_eq, not_false_eq_true]
    rfl

/-! the translated checks compute (tests, not theorems) -/
example : Py.check_voxel_order ['l', 'p', 's'] = .ok () := by rfl
example : Py.check_voxel_order ['L', 'R', 'S'] = .error PyErr.valueError := by rfl
example : Py.check_voxel_order ['L', 'A'] = .error PyErr.valueError := by rfl
example : Py.check_voxel_order ['L', 'A', 'X'] = .error PyErr.valueError := by rfl

end Src
