import DcmVerif.Proofs.Code_content
import DcmVerif.Proofs.Code_filter
/-! C14 end to end, from the source text: the filter `make_key_regex_filter` builds, handed to `filter_meta`. -/
set_option autoImplicit false
set_option linter.unusedVariables false
open Cls

namespace Src
variable {α κ ρ : Type} [DecidableEq κ]

/-- **`filter_meta(make_key_regex_filter(exclude_res, force_include_res))` as written removes exactly the keys the lists say**:
    in every valid classification the entries whose key matches an exclude pattern and no include pattern (`regexFilter`) are
    removed, every other entry and every other dictionary stays — the translated inner function (which cannot raise) used as
    the filter function of the translated `filter_meta` -/
theorem filter_meta_regex_chain (mtch : ρ → κ → Bool) (excl incl : List ρ) (shape : List Nat) (valid : List Cls)
    (hv : Py.get_valid_classes shape = .ok valid) (content : Content κ α) (h : ContentOk valid content) :
    Py.filter_meta shape content
        (fun k _ => match Py.key_regex_filter mtch excl incl k with | .ok b => b | .error _ => false) =
      .ok (content.map fun p => if p.1 ∈ valid then (p.1, p.2.filter fun q => !regexFilter mtch excl incl q.1) else p) := by
  have hf : (fun (k : κ) (_ : List α) => match Py.key_regex_filter mtch excl incl k with | .ok b => b | .error _ => false) =
      fun k _ => regexFilter mtch excl incl k := by
    funext k v
    rw [key_regex_filter_eq]
  rw [hf, filter_meta_eq shape valid hv content h]
  rfl

end Src
