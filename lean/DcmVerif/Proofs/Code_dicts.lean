import DcmVerif.Generated.Code_dicts
import DcmVerif.Model.Ext
import DcmVerif.Proofs.CodeLemmas
/-! Which dictionaries a new extension gets (`make_empty`) and where a key is looked up (`get_classification`,
`get_values_and_class`), as translated from dcmmeta.py. -/
set_option autoImplicit false
set_option linter.unusedSimpArgs false
set_option linter.unusedVariables false
open Cls

namespace Src
variable {α κ : Type}

/-! ### which dictionaries exist, and where a key is looked up -/

/-- **the base dictionaries `make_empty` creates as written in dcmmeta.py are the ones the model's `makeEmpty` records** -/
theorem make_empty_bases_eq [DecidableEq κ] [DecidableEq α] (shape : List Nat) (sd : Option Nat) (r : DExt κ α)
    (h : DExt.makeEmpty shape sd = Res.ok r) :
    Py.make_empty_bases shape =
      .ok (["global"] ++ (if r.hasTime then ["time"] else []) ++ (if r.hasVector then ["vector"] else [])) := by
  unfold DExt.makeEmpty at h
  split at h
  · simp at h
  · split at h
    · simp at h
    · rename_i hlen _
      simp at h
      subst h
      simp only [Py.make_empty_bases]
      have h3 : 3 ≤ shape.length := by simp at hlen; omega
      have h6 : shape.length < 6 := by simp at hlen; omega
      match shape, h3, h6 with
      | [a, b, c], _, _ => simp; rfl
      | [a, b, c, d], _, _ => simp; rfl
      | [a, b, c, d, f], _, _ => by_cases hd : d = 1 <;> simp [hd] <;> rfl
      | [], h3, _ | [_], h3, _ | [_, _], h3, _ => simp at h3
      | _ :: _ :: _ :: _ :: _ :: _ :: _, _, h6 => simp at h6; omega

theorem classification_loop (d : KeyDict α) : ∀ (valid : List Cls),
    (forIn (m := Except PyErr) valid ((none : Option (Option Cls)), ()) fun cls_ __s =>
        if KeyDict.has d cls_ = true then pure (ForInStep.done (some (some cls_), ())) else pure (ForInStep.yield (none, ()))) =
      .ok ((valid.find? fun c => KeyDict.has d c).map some, ())
  | [] => rfl
  | x :: xs => by
    rw [List.forIn_cons]
    by_cases hx : KeyDict.has d x = true
    · simp [hx, List.find?]
      rfl
    · have hx' : KeyDict.has d x = false := by simpa using hx
      simp only [hx', Bool.false_eq_true, if_false, pure_bind, List.find?]
      exact classification_loop d xs

theorem findSome_find (d : KeyDict α) : ∀ (valid : List Cls),
    (valid.findSome? fun c => d.find? fun p => p.1 == c) =
      (valid.find? fun c => KeyDict.has d c).bind fun c => d.find? fun p => p.1 == c
  | [] => rfl
  | x :: xs => by
    simp only [List.findSome?_cons, List.find?_cons]
    cases hf : d.find? (fun p => p.1 == x) with
    | some p =>
      have : KeyDict.has d x = true := by
        simp only [KeyDict.has, List.any_eq_true]
        exact ⟨p, List.mem_of_find?_eq_some hf, List.find?_some (p := fun (q : Cls × List α) => q.1 == x) hf⟩
      simp [this, hf]
    | none =>
      have : KeyDict.has d x = false := by
        simp only [KeyDict.has, List.any_eq_false]
        intro p hp
        have := List.find?_eq_none.mp hf p hp
        simpa using this
      simp [this, findSome_find d xs]

/-- **`get_values_and_class` (with `get_classification`) as written in dcmmeta.py is the lookup `KeyDict.valuesAndClass` the
    whole-method translations use**: the first valid class, in the order of `get_valid_classes`, whose dictionary holds the key -/
theorem get_values_and_class_eq (shape : List Nat) (valid : List Cls) (hv : Py.get_valid_classes shape = .ok valid)
    (d : KeyDict α) :
    Py.get_values_and_class shape d = .ok (KeyDict.valuesAndClass valid d) := by
  simp only [Py.get_values_and_class, Py.get_classification, hv, ok_bind']
  simp only [KeyDict.valuesAndClass, findSome_find]
  rw [classification_loop d valid]
  simp only [ok_bind']
  cases hf : valid.find? (fun c => KeyDict.has d c) with
  | none => rfl
  | some c =>
    have hc : KeyDict.has d c = true := List.find?_some (p := fun c => KeyDict.has d c) hf
    simp only [Option.map_some, Option.bind_some, KeyDict.get]
    cases hp : d.find? (fun p => p.1 == c) with
    | none =>
      exfalso
      simp only [KeyDict.has, List.any_eq_true] at hc
      obtain ⟨p, hpm, hpc⟩ := hc
      have := List.find?_eq_none.mp hp p hpm
      simp [hpc] at this
    | some p =>
      have h1 : p.1 = c := by
        have := List.find?_some (p := fun (q : Cls × List α) => q.1 == c) hp
        simpa using this
      obtain ⟨pc, pv⟩ := p
      simp at h1
      subst h1
      simp only [pure_bind, hp]
      rfl

/-- **`get_values` as written in dcmmeta.py is the value half of that lookup**: the values under the first valid class, in the
    order of `get_valid_classes`, whose dictionary holds the key; None for a key no valid class holds -/
theorem get_values_eq (shape : List Nat) (valid : List Cls) (hv : Py.get_valid_classes shape = .ok valid)
    (d : KeyDict α) :
    Py.get_values shape d = .ok ((KeyDict.valuesAndClass valid d).map (·.2)) := by
  have h := get_values_and_class_eq shape valid hv d
  simp only [Py.get_values_and_class] at h
  simp only [Py.get_values]
  cases hc : Py.get_classification shape d with
  | error e => rw [hc] at h; simp [bind, Except.bind] at h
  | ok oc =>
    rw [hc] at h
    cases oc with
    | none =>
      simp only [bind, Except.bind, pure, Except.pure] at h ⊢
      injection h with h
      rw [← h]; rfl
    | some c =>
      simp only [bind, Except.bind, pure, Except.pure] at h ⊢
      cases hg : KeyDict.get d c with
      | error e => rw [hg] at h; simp at h
      | ok v =>
        rw [hg] at h
        simp only [] at h ⊢
        injection h with h
        rw [← h]; rfl

end Src
