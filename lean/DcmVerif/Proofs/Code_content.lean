import DcmVerif.Generated.Code_content
import DcmVerif.Model.Ext
import DcmVerif.Proofs.CodeLemmas
import DcmVerif.Proofs.Code_classes
/-! `get_keys`, `filter_meta` and `clear_slice_meta` as translated from dcmmeta.py — whole methods over the nested classification
dictionaries — against the model's `DExt.keys`, `DExt.filterMeta` and `DExt.clearSliceMeta`. -/
set_option autoImplicit false
set_option linter.unusedSimpArgs false
set_option linter.unusedVariables false
open Cls

namespace Src
variable {α κ : Type} [DecidableEq κ]

/-! ### association lists with unique keys -/

theorem nodup_map_inj {β γ : Type} (g : β → γ) : ∀ (l : List β), (l.map g).Nodup →
    ∀ p q, p ∈ l → q ∈ l → g p = g q → p = q
  | [], _, p, _, hp, _, _ => by simp at hp
  | a :: l, h, p, q, hp, hq, e => by
    rw [List.map_cons, List.nodup_cons] at h
    rcases List.mem_cons.mp hp with rfl | hp' <;> rcases List.mem_cons.mp hq with rfl | hq'
    · rfl
    · exact absurd (List.mem_map.mpr ⟨q, hq', e.symm⟩) h.1
    · exact absurd (List.mem_map.mpr ⟨p, hp', e⟩) h.1
    · exact nodup_map_inj g l h.2 p q hp' hq' e

/-- in a dictionary with unique keys, every entry is what a lookup of its key finds -/
theorem dictGet_mem {κ' β : Type} [DecidableEq κ'] [Inhabited β] : ∀ (d : List (κ' × β)), (d.map (·.1)).Nodup →
    ∀ p, p ∈ d → dictGet d p.1 = p.2
  | [], _, p, hp => by simp at hp
  | a :: d, h, p, hp => by
    rw [List.map_cons, List.nodup_cons] at h
    rcases List.mem_cons.mp hp with rfl | hp'
    · simp [dictGet, List.find?]
    · have hne : (a.1 == p.1) = false := by
        have : a.1 ≠ p.1 := fun e => h.1 (List.mem_map.mpr ⟨p, hp', e.symm⟩)
        simpa using this
      have := dictGet_mem d h.2 p hp'
      simp only [dictGet, List.find?, hne] at this ⊢
      exact this

/-- rewriting the dictionary stored under a present key: only that entry changes -/
theorem dictSet_get {κ' β : Type} [DecidableEq κ'] [Inhabited β] (d : List (κ' × β)) (hn : (d.map (·.1)).Nodup)
    (c : κ') (hc : dictHas d c = true) (g : β → β) :
    dictSet d c (g (dictGet d c)) = d.map fun p => if p.1 = c then (p.1, g p.2) else p := by
  unfold dictSet
  have hc' : (d.any fun p => p.1 == c) = true := hc
  rw [if_pos hc']
  apply List.map_congr_left
  intro p hp
  by_cases e : p.1 = c
  · have : dictGet d c = p.2 := e ▸ dictGet_mem d hn p hp
    simp [e, this]
  · have : (p.1 == c) = false := by simpa using e
    simp [e, this]

theorem dictHas_map {κ' β : Type} [DecidableEq κ'] (d : List (κ' × β)) (h : β → κ' → β) (c : κ') :
    dictHas (d.map fun p => (p.1, h p.2 p.1)) c = dictHas d c := by
  simp [dictHas, List.any_map, Function.comp_def]

/-! ### deleting the collected keys is filtering -/

theorem foldl_dictDel {β : Type} : ∀ (ks : List κ) (d : List (κ × β)),
    ks.foldl dictDel d = d.filter fun p => !ks.contains p.1
  | [], d => by
    have : (fun p : κ × β => !([] : List κ).contains p.1) = fun _ => true := by funext p; simp
    rw [List.foldl_nil, this]
    exact (List.filter_eq_self.mpr fun _ _ => rfl).symm
  | k :: ks, d => by
    rw [List.foldl_cons, foldl_dictDel ks, dictDel, List.filter_filter]
    apply List.filter_congr
    intro p _
    by_cases e : p.1 = k <;> by_cases m : p.1 ∈ ks <;> simp [List.contains_cons, e, m]

/-- the keys a filter accepts, collected and then deleted one by one, leave the entries the filter rejects -/
theorem del_collected {β : Type} (F : κ × β → Bool) (d : List (κ × β)) (hn : (d.map (·.1)).Nodup) :
    ((d.filter F).map (·.1)).foldl dictDel d = d.filter fun p => !F p := by
  rw [foldl_dictDel]
  apply List.filter_congr
  intro p hp
  congr 1
  cases hF : F p with
  | true =>
    have : p.1 ∈ (d.filter F).map (·.1) := List.mem_map.mpr ⟨p, List.mem_filter.mpr ⟨hp, hF⟩, rfl⟩
    simpa using this
  | false =>
    have : ¬ p.1 ∈ (d.filter F).map (·.1) := by
      intro hm
      obtain ⟨q, hq, e⟩ := List.mem_map.mp hm
      have hq' := List.mem_filter.mp hq
      have := nodup_map_inj (·.1) d hn q p hq'.1 hp e
      rw [this, hF] at hq'
      exact Bool.noConfusion hq'.2
    simpa using this

/-! ### the loops of `filter_meta` -/

/-- the entries a filter rejects -/
def filt (f : κ → List α → Bool) (d : List (κ × List α)) : List (κ × List α) := d.filter fun p => !f p.1 p.2

theorem filt_idem (f : κ → List α → Bool) (d : List (κ × List α)) : filt f (filt f d) = filt f d := by
  simp [filt, List.filter_filter]

theorem filt_keys_nodup (f : κ → List α → Bool) (d : List (κ × List α)) (h : (d.map (·.1)).Nodup) :
    ((filt f d).map (·.1)).Nodup :=
  List.Nodup.sublist ((List.filter_sublist (l := d)).map _) h

theorem collect_loop (f : κ → List α → Bool) : ∀ (d : List (κ × List α)) (acc : List κ),
    (forIn (m := Except PyErr) d acc fun (x : κ × List α) (s : List κ) =>
        if f x.fst x.snd = true then pure (ForInStep.yield (s ++ [x.fst])) else pure (ForInStep.yield s)) =
      .ok (acc ++ (d.filter fun p => f p.1 p.2).map (·.1))
  | [], acc => by simp; rfl
  | x :: d, acc => by
    rw [List.forIn_cons]
    by_cases h : f x.1 x.2 = true
    · rw [if_pos h]
      simp only [pure_bind]
      rw [collect_loop f d]
      simp [List.filter_cons, h]
    · rw [if_neg h]
      simp only [pure_bind]
      rw [collect_loop f d]
      simp [List.filter_cons, h]

theorem del_loop (c : Cls) : ∀ (ks : List κ) (content : Content κ α), (content.map (·.1)).Nodup → dictHas content c = true →
    ks.foldl (fun r k => dictSet r c (dictDel (dictGet r c) k)) content =
      content.map fun p => if p.1 = c then (p.1, ks.foldl dictDel p.2) else p
  | [], content, _, _ => by
    simp only [List.foldl_nil]
    conv => lhs; rw [← List.map_id content]
    apply List.map_congr_left
    intro p _
    by_cases e : p.1 = c
    · simp [e.symm]
    · simp [e]
  | k :: ks, content, hn, hc => by
    rw [List.foldl_cons, dictSet_get content hn c hc (fun d => dictDel d k)]
    have hmap : (content.map fun p => if p.1 = c then (p.1, dictDel p.2 k) else p).map (·.1) = content.map (·.1) := by
      rw [List.map_map]
      apply List.map_congr_left
      intro p _
      by_cases e : p.1 = c <;> simp [e]
    have hc' : dictHas (content.map fun p => if p.1 = c then (p.1, dictDel p.2 k) else p) c = true := by
      have : dictHas (content.map fun p => if p.1 = c then (p.1, dictDel p.2 k) else p) c
          = ((content.map fun p => if p.1 = c then (p.1, dictDel p.2 k) else p).map (·.1)).any (· == c) := by
        simp [dictHas, List.any_map, Function.comp_def]
      rw [this, hmap]
      simpa [dictHas, List.any_map, Function.comp_def] using hc
    rw [del_loop c ks _ (hmap ▸ hn) hc', List.map_map]
    apply List.map_congr_left
    intro p _
    by_cases e : p.1 = c <;> simp [e]

/-- what one round of the outer loop of `filter_meta` leaves: the dictionary of `c` filtered -/
def stepC (f : κ → List α → Bool) (c : Cls) (content : Content κ α) : Content κ α :=
  content.map fun p => if p.1 = c then (p.1, filt f p.2) else p

theorem stepC_keys (f : κ → List α → Bool) (c : Cls) (content : Content κ α) :
    (stepC f c content).map (·.1) = content.map (·.1) := by
  unfold stepC
  rw [List.map_map]
  apply List.map_congr_left
  intro p _
  by_cases e : p.1 = c <;> simp [e]

/-- the invariant of the outer loop: classifications unique, the valid ones present, keys unique in every dictionary -/
def ContentOk (valid : List Cls) (content : Content κ α) : Prop :=
  (content.map (·.1)).Nodup ∧ (∀ c ∈ valid, c ∈ content.map (·.1)) ∧ ∀ p ∈ content, (p.2.map (·.1)).Nodup

theorem dictHas_of_mem (content : Content κ α) (c : Cls) (h : c ∈ content.map (·.1)) : dictHas content c = true := by
  obtain ⟨p, hp, e⟩ := List.mem_map.mp h
  simp only [dictHas, List.any_eq_true]
  exact ⟨p, hp, by simp [e]⟩

theorem stepC_ok (f : κ → List α → Bool) (valid : List Cls) (c : Cls) (content : Content κ α)
    (h : ContentOk valid content) : ContentOk valid (stepC f c content) := by
  refine ⟨by rw [stepC_keys]; exact h.1, by rw [stepC_keys]; exact h.2.1, ?_⟩
  intro p hp
  obtain ⟨q, hq, e⟩ := List.mem_map.mp hp
  by_cases ec : q.1 = c
  · rw [if_pos ec] at e
    rw [← e]
    exact filt_keys_nodup f q.2 (h.2.2 q hq)
  · rw [if_neg ec] at e
    rw [← e]
    exact h.2.2 q hq

theorem body_eq (f : κ → List α → Bool) (valid : List Cls) (c : Cls) (hc : c ∈ valid) (content : Content κ α)
    (h : ContentOk valid content) :
    (do
      let __s_1 ←
        forIn (m := Except PyErr) (dictGet content c) [] fun (x : κ × List α) (__s : List κ) =>
            if f x.fst x.snd = true then pure (ForInStep.yield (__s ++ [x.fst])) else pure (ForInStep.yield __s)
      ForInStep.yield <$>
          forIn __s_1 content fun key __s =>
            pure (ForInStep.yield (dictSet __s c (dictDel (dictGet __s c) key)))) =
      .ok (ForInStep.yield (stepC f c content)) := by
  have hhas := dictHas_of_mem content c (h.2.1 c hc)
  rw [collect_loop, ok_bind', forIn_yield (fun key r => dictSet r c (dictDel (dictGet r c) key))]
  show Except.ok (ForInStep.yield _) = _
  rw [del_loop c _ content h.1 hhas]
  congr 2
  unfold stepC
  apply List.map_congr_left
  intro p hp
  by_cases e : p.1 = c
  · have hg : dictGet content c = p.2 := e ▸ dictGet_mem content h.1 p hp
    simp only [e, if_true, List.nil_append, hg]
    congr 1
    exact del_collected (fun p => f p.1 p.2) p.2 (h.2.2 p hp)
  · simp [e]

theorem outer_loop (f : κ → List α → Bool) (valid : List Cls)
    (body : Cls → Content κ α → Except PyErr (ForInStep (Content κ α)))
    (hb : ∀ c ∈ valid, ∀ content, ContentOk valid content → body c content = .ok (ForInStep.yield (stepC f c content))) :
    ∀ (l : List Cls), (∀ c ∈ l, c ∈ valid) → ∀ content, ContentOk valid content →
      forIn l content body = .ok (l.foldl (fun r c => stepC f c r) content)
  | [], _, _, _ => rfl
  | c :: l, hl, content, h => by
    rw [List.forIn_cons, hb c (hl c (List.mem_cons_self ..)) content h]
    simp only [ok_bind']
    rw [outer_loop f valid body hb l (fun c' hc' => hl c' (List.mem_cons_of_mem _ hc')) _ (stepC_ok f valid c content h)]
    rfl

theorem foldl_stepC (f : κ → List α → Bool) : ∀ (l : List Cls) (content : Content κ α),
    l.foldl (fun r c => stepC f c r) content = content.map fun p => if p.1 ∈ l then (p.1, filt f p.2) else p
  | [], content => by simp
  | c :: l, content => by
    rw [List.foldl_cons, foldl_stepC f l, stepC, List.map_map]
    apply List.map_congr_left
    intro p _
    by_cases e : p.1 = c
    · by_cases m : c ∈ l <;> simp [e, m, filt_idem]
    · by_cases m : p.1 ∈ l <;> simp [e, m]

/-- **`filter_meta` as written in dcmmeta.py filters the dictionary of every valid classification** — the entries for which
    the filter function returns true are removed, every other entry and every other dictionary is left as it was -/
theorem filter_meta_eq (shape : List Nat) (valid : List Cls) (hv : Py.get_valid_classes shape = .ok valid)
    (content : Content κ α) (h : ContentOk valid content) (f : κ → List α → Bool) :
    Py.filter_meta shape content f =
      .ok (content.map fun p => if p.1 ∈ valid then (p.1, filt f p.2) else p) := by
  unfold Py.filter_meta
  simp only [hv, ok_bind', bind_pure_comp]
  rw [outer_loop f valid _ ?hb valid (fun _ hc => hc) content h, foldl_stepC]
  · rfl
  case hb =>
    intro c hc content' h'
    exact body_eq f valid c hc content' h'

/-! ### `clear_slice_meta`, `get_keys` -/

theorem clear_loop : ∀ (l : List Cls) (content : Content κ α), (∀ c ∈ l, c ∈ content.map (·.1)) →
    (forIn (m := Except PyErr) l content fun (classes_ : Cls) (r : Content κ α) =>
        if (classes_.sub == "slices") = true then pure (ForInStep.yield (dictSet r classes_ []))
        else pure (ForInStep.yield r)) =
      .ok (content.map fun p => if p.1 ∈ l ∧ p.1.sub = "slices" then (p.1, []) else p)
  | [], content, _ => by simp; rfl
  | c :: l, content, hl => by
    rw [List.forIn_cons]
    have hc := dictHas_of_mem content c (hl c (List.mem_cons_self ..))
    by_cases hs : c.sub = "slices"
    · have hs' : (c.sub == "slices") = true := by simpa using hs
      rw [if_pos hs']
      simp only [pure_bind]
      have hset : dictSet content c ([] : List (κ × List α)) = content.map fun p => if p.1 = c then (p.1, []) else p := by
        unfold dictSet
        have hc' : (content.any fun p => p.1 == c) = true := hc
        rw [if_pos hc']
        apply List.map_congr_left
        intro p _
        by_cases e : p.1 = c <;> simp [e]
      have hkeys : (content.map fun p => if p.1 = c then (p.1, ([] : List (κ × List α))) else p).map (·.1) = content.map (·.1) := by
        rw [List.map_map]
        apply List.map_congr_left
        intro p _
        by_cases e : p.1 = c <;> simp [e]
      rw [hset, clear_loop l _ (by rw [hkeys]; exact fun c' hc' => hl c' (List.mem_cons_of_mem _ hc')), List.map_map]
      congr 1
      apply List.map_congr_left
      intro p _
      by_cases e : p.1 = c
      · by_cases m : c ∈ l <;> simp [e, m, hs]
      · by_cases m : p.1 ∈ l <;> simp [e, m]
    · have hs' : ¬ (c.sub == "slices") = true := by simpa using hs
      rw [if_neg hs']
      simp only [pure_bind]
      rw [clear_loop l content (fun c' hc' => hl c' (List.mem_cons_of_mem _ hc'))]
      congr 1
      apply List.map_congr_left
      intro p _
      by_cases e : p.1 = c
      · by_cases m : c ∈ l <;> simp [e, m, hs]
      · by_cases m : p.1 ∈ l <;> simp [e, m]

/-- **`clear_slice_meta` as written in dcmmeta.py empties the dictionaries of the valid per-slice classifications** and leaves
    every other dictionary as it was -/
theorem clear_slice_meta_eq (shape : List Nat) (valid : List Cls) (hv : Py.get_valid_classes shape = .ok valid)
    (content : Content κ α) (h : ∀ c ∈ valid, c ∈ content.map (·.1)) :
    Py.clear_slice_meta shape content =
      .ok (content.map fun p => if p.1 ∈ valid ∧ p.1.sub = "slices" then (p.1, []) else p) := by
  unfold Py.clear_slice_meta
  simp only [hv, ok_bind', bind_pure_comp]
  rw [clear_loop valid content h]
  rfl

theorem keys_loop (content : Content κ α) : ∀ (l : List Cls) (acc : List κ),
    (forIn (m := Except PyErr) l acc fun (classes_ : Cls) (r : List κ) =>
        pure (ForInStep.yield (r ++ (dictGet content classes_).map (·.1)))) =
      .ok (acc ++ l.flatMap fun c => (dictGet content c).map (·.1))
  | [], acc => by simp; rfl
  | c :: l, acc => by
    rw [List.forIn_cons]
    simp only [pure_bind]
    rw [keys_loop content l]
    simp [List.flatMap_cons, List.append_assoc]

/-- **`get_keys` as written in dcmmeta.py lists the keys of the valid classifications**, classification by classification -/
theorem get_keys_eq (shape : List Nat) (valid : List Cls) (hv : Py.get_valid_classes shape = .ok valid)
    (content : Content κ α) :
    Py.get_keys shape content = .ok (valid.flatMap fun c => (dictGet content c).map (·.1)) := by
  unfold Py.get_keys
  simp only [hv, ok_bind', bind_pure_comp]
  rw [keys_loop content valid]
  rfl

end Src

/-! ### against the model: the nested dictionaries of a `DExt` -/

namespace Src
variable {α κ : Type} [DecidableEq κ]

/-- the dictionary of one classification: its entries in insertion order -/
def entsOf (e : DExt κ α) (c : Cls) : List (κ × List α) :=
  (e.ents.filter fun x => x.2.1 == c).map fun x => (x.1, x.2.2)

/-- `_content` of an extension (the classification dictionaries): one dictionary per valid classification -/
def toContent (e : DExt κ α) : Content κ α := (validClasses e.shp).map fun c => (c, entsOf e c)

theorem validClasses_nodup (sh : Shp) : (validClasses sh).Nodup := by
  unfold validClasses
  split
  · decide
  · split
    · decide
    · split <;> decide

theorem toContent_keys (e : DExt κ α) : (toContent e).map (·.1) = validClasses e.shp := by
  simp [toContent, List.map_map, Function.comp_def]

theorem entsOf_keys_nodup (e : DExt κ α) (hn : (e.ents.map (·.1)).Nodup) (c : Cls) : ((entsOf e c).map (·.1)).Nodup := by
  have : (entsOf e c).map (·.1) = (e.ents.filter fun x => x.2.1 == c).map (·.1) := by
    simp [entsOf, List.map_map, Function.comp_def]
  rw [this]
  exact List.Nodup.sublist ((List.filter_sublist (l := e.ents)).map _) hn

theorem toContent_ok (e : DExt κ α) (hn : (e.ents.map (·.1)).Nodup) : ContentOk (validClasses e.shp) (toContent e) := by
  refine ⟨by rw [toContent_keys]; exact validClasses_nodup _, by rw [toContent_keys]; exact fun c hc => hc, ?_⟩
  intro p hp
  obtain ⟨c, _, rfl⟩ := List.mem_map.mp hp
  exact entsOf_keys_nodup e hn c

/-- **`filter_meta` as written in dcmmeta.py is the model's `filterMeta`** for a filter that looks at the key (as the regular
    expression filter of C14 does): on the classification dictionaries of any extension with 3 to 5 axes whose keys are unique,
    the method leaves the dictionaries of the model's result -/
theorem filter_meta_model (e : DExt κ α) (h3 : 3 ≤ e.shape.length) (h5 : e.shape.length ≤ 5)
    (hn : (e.ents.map (·.1)).Nodup) (drop : κ → Bool) :
    Py.filter_meta e.shape (toContent e) (fun k _ => drop k) = .ok (toContent (e.filterMeta drop)) := by
  rw [filter_meta_eq e.shape _ (get_valid_classes_eq e none h3 h5) _ (toContent_ok e hn)]
  congr 1
  show _ = (validClasses e.shp).map fun c => (c, entsOf (e.filterMeta drop) c)
  unfold toContent
  rw [List.map_map]
  apply List.map_congr_left
  intro c hc
  simp only [Function.comp, hc, if_true]
  congr 1
  simp only [filt, entsOf, DExt.filterMeta, List.filter_map, List.filter_filter, Function.comp_def]
  congr 1
  apply List.filter_congr
  intro x _
  exact Bool.and_comm _ _

theorem sub_slices (c : Cls) : (c.sub = "slices") ↔ perSlice c = true := by
  cases c <;> simp [Cls.sub, perSlice]

/-- **`clear_slice_meta` as written in dcmmeta.py is the model's `clearSliceMeta`** -/
theorem clear_slice_meta_model (e : DExt κ α) (h3 : 3 ≤ e.shape.length) (h5 : e.shape.length ≤ 5) :
    Py.clear_slice_meta e.shape (toContent e) = .ok (toContent e.clearSliceMeta) := by
  rw [clear_slice_meta_eq e.shape _ (get_valid_classes_eq e none h3 h5) _ (by rw [toContent_keys]; exact fun c hc => hc)]
  congr 1
  show _ = (validClasses e.shp).map fun c => (c, entsOf e.clearSliceMeta c)
  unfold toContent
  rw [List.map_map]
  apply List.map_congr_left
  intro c hc
  simp only [Function.comp, hc, true_and]
  by_cases hs : c.sub = "slices"
  · have hp := (sub_slices c).mp hs
    simp only [hs, if_true]
    congr 1
    simp only [entsOf, DExt.clearSliceMeta, List.filter_filter]
    have : (e.ents.filter fun x => (x.2.1 == c && !perSlice x.2.1)) = [] := by
      apply List.filter_eq_nil_iff.mpr
      intro x _
      by_cases ec : x.2.1 = c
      · simp [ec, hp]
      · simp [ec]
    rw [this]; rfl
  · have hp : perSlice c = false := by
      cases h : perSlice c with
      | false => rfl
      | true => exact absurd ((sub_slices c).mpr h) hs
    simp only [hs, if_false]
    congr 1
    simp only [entsOf, DExt.clearSliceMeta, List.filter_filter]
    congr 1
    apply List.filter_congr
    intro x _
    by_cases ec : x.2.1 = c
    · simp [ec, hp]
    · simp [ec]

theorem dictGet_toContent (e : DExt κ α) (c : Cls) (hc : c ∈ validClasses e.shp) : dictGet (toContent e) c = entsOf e c := by
  have hm : (c, entsOf e c) ∈ toContent e := List.mem_map.mpr ⟨c, hc, rfl⟩
  exact dictGet_mem (toContent e) (by rw [toContent_keys]; exact validClasses_nodup _) _ hm

/-- **`get_keys` as written in dcmmeta.py lists exactly the model's `keys`** (classification by classification) for an
    extension whose entries sit in valid classifications -/
theorem get_keys_model (e : DExt κ α) (h3 : 3 ≤ e.shape.length) (h5 : e.shape.length ≤ 5)
    (hcls : ∀ x ∈ e.ents, x.2.1 ∈ validClasses e.shp) :
    ∃ ks, Py.get_keys e.shape (toContent e) = .ok ks ∧ ∀ k, k ∈ ks ↔ k ∈ e.keys := by
  refine ⟨_, get_keys_eq e.shape _ (get_valid_classes_eq e none h3 h5) _, ?_⟩
  intro k
  simp only [List.mem_flatMap, DExt.keys, List.mem_eraseDups, List.mem_map]
  constructor
  · rintro ⟨c, hc, p, hp, rfl⟩
    rw [dictGet_toContent e c hc] at hp
    obtain ⟨x, hx, rfl⟩ := List.mem_map.mp hp
    exact ⟨x, (List.mem_filter.mp hx).1, rfl⟩
  · rintro ⟨x, hx, rfl⟩
    refine ⟨x.2.1, hcls x hx, (x.1, x.2.2), ?_, rfl⟩
    rw [dictGet_toContent e _ (hcls x hx)]
    exact List.mem_map.mpr ⟨x, List.mem_filter.mpr ⟨hx, by simp⟩, rfl⟩

/-! the translated functions compute (tests, not theorems) -/
example : Py.filter_meta [2, 2, 2] [(gconst, [("a", [1]), ("b", [2])]), (gslices, [("c", [3, 4])])] (fun k _ => k == "a" || k == "c")
    = .ok [(gconst, [("b", [2])]), (gslices, [])] := by rfl
example : Py.clear_slice_meta [2, 2, 2] [(gconst, [("a", [1])]), (gslices, [("c", [3, 4])])]
    = .ok [(gconst, [("a", [1])]), (gslices, [])] := by rfl
example : Py.get_keys [2, 2, 2] [(gconst, [("a", [1]), ("b", [2])]), (gslices, [("c", [3, 4])])] = .ok ["a", "b", "c"] := by rfl

end Src
