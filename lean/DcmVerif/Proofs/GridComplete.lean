import DcmVerif.Proofs.Grid
/-! C11, completeness direction: a complete regular grid is never rejected, whatever the order
in which its files were added. -/
set_option autoImplicit false

namespace Stk

/-! ### `sorted(set(values))` -/

theorem mem_insertDistinct (x y : Int) (l : List Int) :
    y ∈ insertDistinct x l ↔ y = x ∨ y ∈ l := by
  induction l with
  | nil => simp [insertDistinct]
  | cons z zs ih =>
    unfold insertDistinct
    by_cases h1 : x < z
    · simp [h1]
    · by_cases h2 : x = z
      · subst h2
        simp only [Int.lt_irrefl, if_false, if_true, List.mem_cons]
        constructor
        · intro h; exact Or.inr h
        · rintro (h | h)
          · exact Or.inl h
          · exact h
      · simp only [h1, h2, if_false, List.mem_cons, ih]
        constructor
        · rintro (h | h | h)
          · exact Or.inr (Or.inl h)
          · exact Or.inl h
          · exact Or.inr (Or.inr h)
        · rintro (h | h | h)
          · exact Or.inr (Or.inl h)
          · exact Or.inl h
          · exact Or.inr (Or.inr h)

theorem mem_distinctSorted (y : Int) (l : List Int) : y ∈ distinctSorted l ↔ y ∈ l := by
  induction l with
  | nil => simp [distinctSorted]
  | cons x xs ih => simp [distinctSorted, mem_insertDistinct, ih]

theorem insertDistinct_sorted (x : Int) (l : List Int) (h : l.Pairwise (· < ·)) :
    (insertDistinct x l).Pairwise (· < ·) := by
  induction l with
  | nil => simp [insertDistinct]
  | cons z zs ih =>
    have hz := List.pairwise_cons.mp h
    unfold insertDistinct
    by_cases h1 : x < z
    · simp only [h1, if_true]
      refine List.Pairwise.cons ?_ h
      intro b hb
      rcases List.mem_cons.mp hb with rfl | hb
      · exact h1
      · exact Int.lt_trans h1 (hz.1 b hb)
    · by_cases h2 : x = z
      · subst h2
        simp only [Int.lt_irrefl, if_false, if_true]; exact h
      · simp only [h1, h2, if_false]
        refine List.Pairwise.cons ?_ (ih hz.2)
        intro b hb
        rcases (mem_insertDistinct x b zs).mp hb with rfl | hb
        · omega
        · exact hz.1 b hb

theorem distinctSorted_sorted (l : List Int) : (distinctSorted l).Pairwise (· < ·) := by
  induction l with
  | nil => simp [distinctSorted]
  | cons x xs ih => exact insertDistinct_sorted x _ ih

theorem sorted_nodup {l : List Int} (h : l.Pairwise (· < ·)) : l.Nodup :=
  h.imp (fun hab => by omega)

/-- strictly sorted lists with the same members are equal -/
theorem sorted_ext (l₁ l₂ : List Int) (h₁ : l₁.Pairwise (· < ·)) (h₂ : l₂.Pairwise (· < ·))
    (hm : ∀ a, a ∈ l₁ ↔ a ∈ l₂) : l₁ = l₂ := by
  have hperm : l₁.Perm l₂ := (List.perm_ext_iff_of_nodup (sorted_nodup h₁) (sorted_nodup h₂)).mpr hm
  apply List.Perm.eq_of_pairwise (le := fun a b => a ≤ b) _ (h₁.imp (fun h => Int.le_of_lt h))
    (h₂.imp (fun h => Int.le_of_lt h)) hperm
  intro a b _ _ h1 h2
  exact Int.le_antisymm h1 h2

theorem distinctSorted_eq (l ps : List Int) (hp : ps.Pairwise (· < ·)) (hm : ∀ a, a ∈ l ↔ a ∈ ps) :
    distinctSorted l = ps :=
  sorted_ext _ _ (distinctSorted_sorted l) hp (fun a => by rw [mem_distinctSorted, hm])

/-! ### chunks of equal-length blocks -/

theorem chunks_flatten_blocks {α : Type} (n : Nat) (bs : List (List α)) (h : ∀ b ∈ bs, b.length = n) :
    chunks n bs.length bs.flatten = bs := by
  induction bs with
  | nil => rfl
  | cons b rest ih =>
    have hb : b.length = n := h b (by simp)
    simp only [List.length_cons, chunks, List.flatten_cons]
    rw [List.take_left' hb, List.drop_left' hb, ih (fun x hx => h x (by simp [hx]))]

/-! ### the grid -/

def mk (idOf : Int → Int → Int → Nat) (v t p : Int) : F := ⟨v, t, p, idOf v t p⟩

/-- one volume: every position once, in list order -/
def volBlock (idOf : Int → Int → Int → Nat) (ps : List Int) (v t : Int) : List F := ps.map (mk idOf v t)

/-- all volumes, vector-major then time -/
def gridBlocks (idOf : Int → Int → Int → Nat) (vs ts ps : List Int) : List (List F) :=
  vs.flatMap fun v => ts.map fun t => volBlock idOf ps v t

def vecBlocks (idOf : Int → Int → Int → Nat) (vs ts ps : List Int) : List (List F) :=
  vs.map fun v => (ts.map fun t => volBlock idOf ps v t).flatten

/-- the complete grid in canonical order -/
def grid (idOf : Int → Int → Int → Nat) (vs ts ps : List Int) : List F :=
  (gridBlocks idOf vs ts ps).flatten

theorem grid_eq_vecBlocks (idOf : Int → Int → Int → Nat) (vs ts ps : List Int) :
    grid idOf vs ts ps = (vecBlocks idOf vs ts ps).flatten := by
  unfold grid gridBlocks vecBlocks
  induction vs with
  | nil => rfl
  | cons v rest ih => simp [List.flatMap_cons, List.flatten_append, ih]

theorem lexLE_iff (a b : F) : lexLE a b = true ↔
    a.v < b.v ∨ (a.v = b.v ∧ (a.t < b.t ∨ (a.t = b.t ∧ a.p ≤ b.p))) := by
  simp only [lexLE, Bool.or_eq_true, Bool.and_eq_true, decide_eq_true_eq, beq_iff_eq]

theorem posLE_iff (a b : F) : posLE a b = true ↔ a.p ≤ b.p := by
  simp only [posLE, decide_eq_true_eq]

theorem mem_volBlock (idOf : Int → Int → Int → Nat) (ps : List Int) (v t : Int) (f : F) :
    f ∈ volBlock idOf ps v t ↔ ∃ p, p ∈ ps ∧ mk idOf v t p = f := by
  unfold volBlock; exact List.mem_map

theorem mem_gridBlocks (idOf : Int → Int → Int → Nat) (vs ts ps : List Int) (b : List F) :
    b ∈ gridBlocks idOf vs ts ps ↔ ∃ v, v ∈ vs ∧ ∃ t, t ∈ ts ∧ volBlock idOf ps v t = b := by
  unfold gridBlocks
  rw [List.mem_flatMap]
  constructor
  · rintro ⟨v, hv, hb⟩
    obtain ⟨t, ht, e⟩ := List.mem_map.mp hb
    exact ⟨v, hv, t, ht, e⟩
  · rintro ⟨v, hv, t, ht, e⟩
    exact ⟨v, hv, List.mem_map.mpr ⟨t, ht, e⟩⟩

theorem mem_grid (idOf : Int → Int → Int → Nat) (vs ts ps : List Int) (f : F) :
    f ∈ grid idOf vs ts ps ↔ ∃ v, v ∈ vs ∧ ∃ t, t ∈ ts ∧ ∃ p, p ∈ ps ∧ f = mk idOf v t p := by
  unfold grid
  rw [List.mem_flatten]
  constructor
  · rintro ⟨b, hb, hf⟩
    obtain ⟨v, hv, t, ht, e⟩ := (mem_gridBlocks idOf vs ts ps b).mp hb
    subst e
    obtain ⟨p, hp, e⟩ := (mem_volBlock idOf ps v t f).mp hf
    exact ⟨v, hv, t, ht, p, hp, e.symm⟩
  · rintro ⟨v, hv, t, ht, p, hp, e⟩
    exact ⟨volBlock idOf ps v t, (mem_gridBlocks idOf vs ts ps _).mpr ⟨v, hv, t, ht, rfl⟩,
      (mem_volBlock idOf ps v t f).mpr ⟨p, hp, e.symm⟩⟩

theorem gridBlocks_length (idOf : Int → Int → Int → Nat) (vs ts ps : List Int) :
    (gridBlocks idOf vs ts ps).length = vs.length * ts.length := by
  unfold gridBlocks
  induction vs with
  | nil => simp
  | cons v rest ih => simp [List.flatMap_cons, ih, Nat.succ_mul, Nat.add_comm]

theorem gridBlocks_block_length (idOf : Int → Int → Int → Nat) (vs ts ps : List Int) :
    ∀ b ∈ gridBlocks idOf vs ts ps, b.length = ps.length := by
  intro b hb
  obtain ⟨v, _, t, _, rfl⟩ := (mem_gridBlocks idOf vs ts ps b).mp hb
  simp [volBlock]

theorem length_flatten_const {α : Type} (n : Nat) (bs : List (List α)) (h : ∀ b ∈ bs, b.length = n) :
    bs.flatten.length = bs.length * n := by
  induction bs with
  | nil => simp
  | cons b rest ih =>
    simp only [List.flatten_cons, List.length_append, List.length_cons,
      ih (fun x hx => h x (by simp [hx])), h b (by simp), Nat.succ_mul]
    omega

theorem grid_length (idOf : Int → Int → Int → Nat) (vs ts ps : List Int) :
    (grid idOf vs ts ps).length = ps.length * (vs.length * ts.length) := by
  unfold grid
  rw [length_flatten_const ps.length _ (gridBlocks_block_length idOf vs ts ps), gridBlocks_length,
    Nat.mul_comm]

theorem grid_distinctKeys (idOf : Int → Int → Int → Nat) (vs ts ps : List Int) :
    DistinctKeys (grid idOf vs ts ps) := by
  intro a b ha hb hk
  obtain ⟨v, _, t, _, p, _, rfl⟩ := (mem_grid idOf vs ts ps a).mp ha
  obtain ⟨v', _, t', _, p', _, rfl⟩ := (mem_grid idOf vs ts ps b).mp hb
  simp only [key, mk, Prod.mk.injEq] at hk
  obtain ⟨rfl, rfl, rfl⟩ := hk
  rfl

theorem volBlock_sorted_pos (idOf : Int → Int → Int → Nat) (ps : List Int) (v t : Int)
    (hp : ps.Pairwise (· < ·)) : (volBlock idOf ps v t).Pairwise (fun a b => posLE a b = true) := by
  unfold volBlock
  rw [List.pairwise_map]
  exact hp.imp (fun {a b} h => by rw [posLE_iff]; show a ≤ b; omega)

/-- the grid is sorted by the sorting tuple -/
theorem grid_sorted (idOf : Int → Int → Int → Nat) (vs ts ps : List Int)
    (hv : vs.Pairwise (· < ·)) (ht : ts.Pairwise (· < ·)) (hp : ps.Pairwise (· < ·)) :
    (grid idOf vs ts ps).Pairwise (fun a b => lexLE a b = true) := by
  unfold grid gridBlocks
  rw [List.pairwise_flatten]
  constructor
  · intro b hb
    obtain ⟨v, _, t, _, rfl⟩ := (mem_gridBlocks idOf vs ts ps b).mp hb
    unfold volBlock
    rw [List.pairwise_map]
    exact hp.imp (fun {a b} h => by
      rw [lexLE_iff]
      show v < v ∨ (v = v ∧ (t < t ∨ (t = t ∧ a ≤ b)))
      omega)
  · rw [List.pairwise_flatMap]
    constructor
    · intro v _
      rw [List.pairwise_map]
      refine ht.imp ?_
      intro t t' htt x hx y hy
      obtain ⟨p, _, rfl⟩ := (mem_volBlock idOf ps v t x).mp hx
      obtain ⟨p', _, rfl⟩ := (mem_volBlock idOf ps v t' y).mp hy
      rw [lexLE_iff]
      show v < v ∨ (v = v ∧ (t < t' ∨ (t = t' ∧ p ≤ p')))
      omega
    · refine hv.imp ?_
      intro v v' hvv b hb b' hb' x hx y hy
      obtain ⟨t, _, rfl⟩ := List.mem_map.mp hb
      obtain ⟨t', _, rfl⟩ := List.mem_map.mp hb'
      obtain ⟨p, _, rfl⟩ := (mem_volBlock idOf ps v t x).mp hx
      obtain ⟨p', _, rfl⟩ := (mem_volBlock idOf ps v' t' y).mp hy
      rw [lexLE_iff]
      show v < v' ∨ (v = v' ∧ (t < t' ∨ (t = t' ∧ p ≤ p')))
      omega

theorem posLE_total (a b : F) : posLE a b = true ∨ posLE b a = true := by
  simp only [posLE, decide_eq_true_eq]; omega
theorem posLE_trans (a b c : F) (h1 : posLE a b = true) (h2 : posLE b c = true) : posLE a c = true := by
  simp only [posLE, decide_eq_true_eq] at *; omega

/-- sorting an already sorted list with distinct keys changes nothing -/
theorem isort_of_sorted {α : Type} (le : α → α → Bool)
    (total : ∀ a b, le a b = true ∨ le b a = true)
    (trans : ∀ a b c, le a b = true → le b c = true → le a c = true)
    (l : List α) (hs : l.Pairwise (fun a b => le a b = true))
    (antisymm : ∀ a b, a ∈ l → b ∈ l → le a b = true → le b a = true → a = b) :
    isort le l = l := by
  apply List.Perm.eq_of_pairwise (le := fun a b => le a b = true)
  · intro a b ha hb h1 h2
    exact antisymm a b ((isort_perm le l).mem_iff.mp ha) hb h1 h2
  · exact isort_sorted le total trans l
  · exact hs
  · exact isort_perm le l

theorem volBlock_isort (idOf : Int → Int → Int → Nat) (ps : List Int) (v t : Int)
    (hp : ps.Pairwise (· < ·)) : isort posLE (volBlock idOf ps v t) = volBlock idOf ps v t := by
  apply isort_of_sorted posLE posLE_total posLE_trans _ (volBlock_sorted_pos idOf ps v t hp)
  intro a b ha hb h1 h2
  obtain ⟨p, _, rfl⟩ := (mem_volBlock idOf ps v t a).mp ha
  obtain ⟨p', _, rfl⟩ := (mem_volBlock idOf ps v t b).mp hb
  rw [posLE_iff] at h1 h2
  have h1' : p ≤ p' := h1
  have h2' : p' ≤ p := h2
  have : p = p' := by omega
  subst this; rfl

/-- `_chk_order` leaves the canonical grid as it is -/
theorem chkSort_grid (idOf : Int → Int → Int → Nat) (vs ts ps : List Int)
    (hv : vs.Pairwise (· < ·)) (ht : ts.Pairwise (· < ·)) (hp : ps.Pairwise (· < ·)) :
    chkSort ps.length (vs.length * ts.length) (grid idOf vs ts ps) = grid idOf vs ts ps := by
  unfold chkSort
  have hsorted : isort lexLE (grid idOf vs ts ps) = grid idOf vs ts ps :=
    isort_of_sorted lexLE lexLE_total lexLE_trans _ (grid_sorted idOf vs ts ps hv ht hp)
      (fun a b ha hb h1 h2 => grid_distinctKeys idOf vs ts ps a b ha hb (lexLE_antisymm_key a b h1 h2))
  rw [hsorted]
  have hch : chunks ps.length (vs.length * ts.length) (grid idOf vs ts ps) = gridBlocks idOf vs ts ps := by
    unfold grid
    rw [← gridBlocks_length idOf vs ts ps]
    exact chunks_flatten_blocks ps.length _ (gridBlocks_block_length idOf vs ts ps)
  rw [hch]
  have : (gridBlocks idOf vs ts ps).map (isort posLE) = gridBlocks idOf vs ts ps := by
    have h : ∀ b ∈ gridBlocks idOf vs ts ps, isort posLE b = id b := by
      intro b hb
      obtain ⟨v, _, t, _, rfl⟩ := (mem_gridBlocks idOf vs ts ps b).mp hb
      exact volBlock_isort idOf ps v t hp
    rw [List.map_congr_left h, List.map_id]
  rw [this]
  rfl

theorem allSameV_vecBlock (idOf : Int → Int → Int → Nat) (ts ps : List Int) (v : Int) :
    allSameV ((ts.map fun t => volBlock idOf ps v t).flatten) = true := by
  have hall : ∀ x ∈ (ts.map fun t => volBlock idOf ps v t).flatten, x.v = v := by
    intro x hx
    obtain ⟨b, hb, hxb⟩ := List.mem_flatten.mp hx
    obtain ⟨t, _, rfl⟩ := List.mem_map.mp hb
    obtain ⟨p, _, rfl⟩ := (mem_volBlock idOf ps v t x).mp hxb
    rfl
  cases hl : (ts.map fun t => volBlock idOf ps v t).flatten with
  | nil => rfl
  | cons x xs =>
    rw [hl] at hall
    simp only [allSameV, List.all_eq_true, beq_iff_eq]
    intro y hy
    rw [hall y (by simp [hy]), hall x (by simp)]

/-- **C11, completeness:** the files of a complete regular grid — every combination of strictly
    increasing vector ordinates, time ordinates and evenly spaced slice positions exactly once —
    are accepted with shape S × T × V, in whatever order they were added. -/
theorem accept_complete (spacingOk : List Int → Bool) (idOf : Int → Int → Int → Nat)
    (vs ts ps : List Int)
    (hv : vs.Pairwise (· < ·)) (ht : ts.Pairwise (· < ·)) (hp : ps.Pairwise (· < ·))
    (hvne : vs ≠ []) (htne : ts ≠ []) (hpne : ps ≠ [])
    (hsp : ps.length > 1 → spacingOk ps = true)
    (files : List F) (hperm : files.Perm (grid idOf vs ts ps)) :
    getShape spacingOk files = .ok ps.length ts.length vs.length := by
  rw [getShape_ok_iff]
  have hlen : files.length = ps.length * (vs.length * ts.length) := by
    rw [hperm.length_eq, grid_length]
  have hposl : 0 < ps.length := List.length_pos_iff.mpr hpne
  have hvl : 0 < vs.length := List.length_pos_iff.mpr hvne
  have htl : 0 < ts.length := List.length_pos_iff.mpr htne
  obtain ⟨v0, hv0⟩ := List.exists_mem_of_ne_nil vs hvne
  obtain ⟨t0, ht0⟩ := List.exists_mem_of_ne_nil ts htne
  obtain ⟨p0, hp0⟩ := List.exists_mem_of_ne_nil ps hpne
  have hmemp : ∀ a, a ∈ files.map (·.p) ↔ a ∈ ps := by
    intro a
    simp only [List.mem_map]
    constructor
    · rintro ⟨f, hf, rfl⟩
      obtain ⟨v, _, t, _, p, hpm, rfl⟩ := (mem_grid idOf vs ts ps f).mp (hperm.mem_iff.mp hf)
      exact hpm
    · intro ha
      exact ⟨mk idOf v0 t0 a, hperm.mem_iff.mpr ((mem_grid idOf vs ts ps _).mpr ⟨v0, hv0, t0, ht0, a, ha, rfl⟩), rfl⟩
  have hmemv : ∀ a, a ∈ files.map (·.v) ↔ a ∈ vs := by
    intro a
    simp only [List.mem_map]
    constructor
    · rintro ⟨f, hf, rfl⟩
      obtain ⟨v, hvm, t, _, p, _, rfl⟩ := (mem_grid idOf vs ts ps f).mp (hperm.mem_iff.mp hf)
      exact hvm
    · intro ha
      exact ⟨mk idOf a t0 p0, hperm.mem_iff.mpr ((mem_grid idOf vs ts ps _).mpr ⟨a, ha, t0, ht0, p0, hp0, rfl⟩), rfl⟩
  have hdp : distinctSorted (files.map (·.p)) = ps := distinctSorted_eq _ ps hp hmemp
  have hdv : distinctSorted (files.map (·.v)) = vs := distinctSorted_eq _ vs hv hmemv
  have hvols : files.length / ps.length = vs.length * ts.length := by
    rw [hlen, Nat.mul_div_cancel_left _ hposl]
  have hsortf : chkSort ps.length (vs.length * ts.length) files = grid idOf vs ts ps := by
    rw [chkSort_perm_invariant ps.length (vs.length * ts.length) files (grid idOf vs ts ps) hperm
      (distinctKeys_perm _ _ hperm.symm (grid_distinctKeys idOf vs ts ps))]
    exact chkSort_grid idOf vs ts ps hv ht hp
  refine { nonempty := ?_, hS := by rw [hdp], spacing := by rw [hdp]; exact hsp, divS := ?_,
           hV := by rw [hdv], vle := ?_, divV := ?_, hT := ?_, vecOk := ?_, posOk := ?_ }
  · rw [hlen]; exact Nat.ne_of_gt (Nat.mul_pos hposl (Nat.mul_pos hvl htl))
  · rw [hlen]; exact Nat.mul_mod_right _ _
  · rw [hvols]; exact Nat.le_mul_of_pos_right _ htl
  · rw [hvols]; exact Nat.mul_mod_right _ _
  · rw [hvols, Nat.mul_div_cancel_left _ hvl]
  · rw [hvols, hsortf, grid_eq_vecBlocks]
    have hbl : ∀ b ∈ vecBlocks idOf vs ts ps, b.length = ts.length * ps.length := by
      intro b hb
      simp only [vecBlocks, List.mem_map] at hb
      obtain ⟨v, _, rfl⟩ := hb
      rw [length_flatten_const ps.length _ (by
        intro x hx; obtain ⟨t, _, rfl⟩ := List.mem_map.mp hx; simp [volBlock])]
      simp
    have hvl' : (vecBlocks idOf vs ts ps).length = vs.length := by simp [vecBlocks]
    rw [← hvl', chunks_flatten_blocks _ _ hbl, List.all_eq_true]
    intro b hb
    simp only [vecBlocks, List.mem_map] at hb
    obtain ⟨v, _, rfl⟩ := hb
    exact allSameV_vecBlock idOf ts ps v
  · rw [hvols, hsortf, hdp]
    unfold grid
    rw [← gridBlocks_length idOf vs ts ps,
      chunks_flatten_blocks ps.length _ (gridBlocks_block_length idOf vs ts ps), List.all_eq_true]
    intro b hb
    obtain ⟨v, _, t, _, rfl⟩ := (mem_gridBlocks idOf vs ts ps b).mp hb
    simp [volBlock, mk, Function.comp_def]

/-- and the order it is converted in is the canonical grid order -/
theorem accept_complete_order (idOf : Int → Int → Int → Nat) (vs ts ps : List Int)
    (hv : vs.Pairwise (· < ·)) (ht : ts.Pairwise (· < ·)) (hp : ps.Pairwise (· < ·))
    (files : List F) (hperm : files.Perm (grid idOf vs ts ps)) :
    chkSort ps.length (vs.length * ts.length) files = grid idOf vs ts ps := by
  rw [chkSort_perm_invariant ps.length (vs.length * ts.length) files (grid idOf vs ts ps) hperm
    (distinctKeys_perm _ _ hperm.symm (grid_distinctKeys idOf vs ts ps))]
  exact chkSort_grid idOf vs ts ps hv ht hp

/-- non-vacuity: a 2 × 2 × 1 grid added in a scrambled order -/
example : getShape (spacingOkInt 1 25)
    [⟨0, 1, 10, 3⟩, ⟨0, 0, 0, 0⟩, ⟨0, 1, 0, 2⟩, ⟨0, 0, 10, 1⟩] = .ok 2 2 1 := by decide

end Stk
