import DcmVerif.Model.Key
set_option autoImplicit false
set_option linter.unusedSectionVars false
set_option linter.unusedSimpArgs false
set_option linter.unusedVariables false
open Cls

/-! Scratch prototype (per-key model): shapes, multiplicity, list tests, simplify. -/
section lists
variable {α : Type} [DecidableEq α]

end lists

section simplify
variable {α : Type} [DecidableEq α]

end simplify

/-! ### specs of the two loops -/
section specs
variable {α : Type} [DecidableEq α]

theorem constLoop_spec (sh : Shp) (src : Cls) (vals : List α) (l : List Cls) (d : Cls)
    (out : List α) (h : constLoop sh src vals l = .ok (some (d, out))) :
    d ∈ l ∧ basePresent sh d = true ∧ ConstHit sh src vals d out := by
  induction l with
  | nil => simp [constLoop] at h
  | cons x xs ih =>
    unfold constLoop at h
    by_cases hb : basePresent sh x = true
    · simp only [hb, if_true] at h
      by_cases h1 : constPeriod sh src x = some 1
      · simp only [h1, if_true] at h
        simp at h
        obtain ⟨rfl, rfl⟩ := h
        exact ⟨List.mem_cons_self, hb, .one h1 rfl⟩
      · simp only [h1, if_false] at h
        cases hper : constPeriod sh src x with
        | none =>
          simp only [hper, pyIsConstant] at h
          cases hc : isConstantAll vals with
          | true =>
            simp [hc] at h
            obtain ⟨rfl, rfl⟩ := h
            exact ⟨List.mem_cons_self, hb, .all hper hc rfl⟩
          | false =>
            simp only [hc] at h
            obtain ⟨hm, hbp, hh⟩ := ih h
            exact ⟨List.mem_cons_of_mem _ hm, hbp, hh⟩
        | some p =>
          simp only [hper, pyIsConstant] at h
          by_cases hp1 : p ≤ 1
          · simp [hp1] at h
          · simp only [hp1, if_false] at h
            by_cases hdiv : vals.length % p ≠ 0
            · simp [hdiv] at h
            · simp only [hdiv, if_false] at h
              cases hc : isConstantP p vals with
              | true =>
                simp [hc] at h
                obtain ⟨rfl, rfl⟩ := h
                exact ⟨List.mem_cons_self, hb,
                  .per p hper (by omega) (by simpa using hdiv) hc rfl⟩
              | false =>
                simp only [hc] at h
                obtain ⟨hm, hbp, hh⟩ := ih h
                exact ⟨List.mem_cons_of_mem _ hm, hbp, hh⟩
    · simp only [hb] at h
      obtain ⟨hm, hbp, hh⟩ := ih h
      exact ⟨List.mem_cons_of_mem _ hm, hbp, hh⟩

theorem isRepeatingP_self (l : List α) : isRepeatingP l.length l = true := by
  unfold isRepeatingP
  rw [List.all_eq_true]
  intro b hb
  have hb' := List.mem_range.mp hb
  by_cases h0 : l.length = 0
  · simp [h0] at hb'
  · have : l.length / l.length = 1 := Nat.div_self (by omega)
    rw [this] at hb'
    have : b = 0 := by omega
    subst this
    simp

theorem repeatLoop_spec (sh : Shp) (vals : List α) (l : List Cls) (d : Cls)
    (out : List α) (h : repeatLoop sh vals l = .ok (some (d, out))) :
    d ∈ l ∧ basePresent sh d = true ∧
      (mult sh d = vals.length ∨ (1 < mult sh d ∧ mult sh d < vals.length)) ∧
      vals.length % mult sh d = 0 ∧ isRepeatingP (mult sh d) vals = true ∧
      out = vals.take (mult sh d) := by
  induction l with
  | nil => simp [repeatLoop] at h
  | cons x xs ih =>
    unfold repeatLoop at h
    by_cases hb : basePresent sh x = true
    · simp only [hb, if_true] at h
      unfold repeatHit at h
      by_cases hdeg : mult sh x = vals.length
      · simp only [hdeg, if_true] at h
        simp at h
        obtain ⟨rfl, rfl⟩ := h
        refine ⟨List.mem_cons_self, hb, Or.inl hdeg, by rw [hdeg]; exact Nat.mod_self _, ?_, by rw [hdeg]; simp⟩
        rw [hdeg]; exact isRepeatingP_self vals
      · simp only [hdeg, if_false] at h
        unfold pyIsRepeating at h
        by_cases hg : mult sh x ≤ 1 ∨ mult sh x ≥ vals.length
        · simp [hg] at h
        · simp only [hg, if_false] at h
          by_cases hdiv : vals.length % mult sh x ≠ 0
          · simp [hdiv] at h
          · simp only [hdiv, if_false] at h
            cases hc : isRepeatingP (mult sh x) vals with
            | true =>
              simp [hc] at h
              obtain ⟨rfl, rfl⟩ := h
              refine ⟨List.mem_cons_self, hb, Or.inr ⟨by omega, by omega⟩, by simpa using hdiv, hc, rfl⟩
            | false =>
              simp only [hc] at h
              obtain ⟨hm, r⟩ := ih h
              exact ⟨List.mem_cons_of_mem _ hm, r⟩
    · simp only [hb] at h
      obtain ⟨hm, r⟩ := ih h
      exact ⟨List.mem_cons_of_mem _ hm, r⟩
end specs

/-! ### list characterisations -/
section listlemmas
variable {α : Type} [DecidableEq α]

omit [DecidableEq α] in
theorem getElem?_strideAux (p : Nat) (hp : 0 < p) (l : List α) :
    ∀ k j, (strideAux p k l)[j]? = l[k + j * p]? := by
  induction l with
  | nil => intro k j; simp [strideAux]
  | cons x xs ih =>
    intro k j
    cases k with
    | zero =>
      simp only [strideAux, Nat.zero_add]
      cases j with
      | zero => simp
      | succ j =>
        rw [List.getElem?_cons_succ, ih]
        have : (j + 1) * p = (p - 1 + j * p) + 1 := by rw [Nat.succ_mul]; omega
        rw [this, List.getElem?_cons_succ]
    | succ k =>
      simp only [strideAux]
      rw [ih]
      have : k + 1 + j * p = (k + j * p) + 1 := by omega
      rw [this, List.getElem?_cons_succ]

omit [DecidableEq α] in
theorem getElem?_stride (p : Nat) (hp : 0 < p) (l : List α) (j : Nat) :
    (stride p l)[j]? = l[j * p]? := by
  unfold stride
  rw [getElem?_strideAux p hp l 0 j, Nat.zero_add]

theorem isConstantAll_spec (l : List α) (h : isConstantAll l = true) (i : Nat)
    (hi : i < l.length) : l[i]? = l[0]? := by
  cases l with
  | nil => simp at hi
  | cons x xs =>
    cases i with
    | zero => rfl
    | succ i =>
      simp only [isConstantAll, List.all_eq_true, beq_iff_eq] at h
      simp only [List.getElem?_cons_succ, List.getElem?_cons_zero]
      have hi' : i < xs.length := by simpa using hi
      rw [List.getElem?_eq_getElem hi']
      exact congrArg some (h _ (List.getElem_mem hi'))

theorem isConstantP_spec (p : Nat) (hp : 0 < p) (l : List α)
    (h : isConstantP p l = true) (i : Nat) (hi : i < l.length) (hdiv : l.length % p = 0) :
    l[i]? = l[i / p * p]? := by
  unfold isConstantP at h
  simp only [List.all_eq_true, List.mem_range, beq_iff_eq] at h
  have hb : i / p < l.length / p := by
    have : l.length = l.length / p * p := by
      have := Nat.div_add_mod l.length p
      rw [hdiv, Nat.add_zero, Nat.mul_comm] at this; exact this.symm
    apply Nat.div_lt_of_lt_mul
    rw [Nat.mul_comm]; omega
  have hoff : i = i / p * p + i % p := by
    have := Nat.div_add_mod i p; rw [Nat.mul_comm] at this; omega
  have hlt : i % p < p := Nat.mod_lt _ hp
  have hget : ((l.drop (i / p * p)).take p)[i % p]? = l[i]? := by
    rw [List.getElem?_take_of_lt hlt, List.getElem?_drop, ← hoff]
  have hi' : l[i]? = some (l[i]) := List.getElem?_eq_getElem hi
  have hmem : l[i] ∈ (l.drop (i / p * p)).take p := by
    rw [List.mem_iff_getElem?]; exact ⟨i % p, by rw [hget, hi']⟩
  rw [hi']; exact h _ hb _ hmem

theorem isRepeatingP_spec (p : Nat) (hp : 0 < p) (l : List α)
    (h : isRepeatingP p l = true) (i : Nat) (hi : i < l.length) (hdiv : l.length % p = 0) :
    l[i]? = l[i % p]? := by
  unfold isRepeatingP at h
  simp only [List.all_eq_true, List.mem_range, beq_iff_eq] at h
  have hb : i / p < l.length / p := by
    have : l.length = l.length / p * p := by
      have := Nat.div_add_mod l.length p
      rw [hdiv, Nat.add_zero, Nat.mul_comm] at this; exact this.symm
    apply Nat.div_lt_of_lt_mul
    rw [Nat.mul_comm]; omega
  have hoff : i = i / p * p + i % p := by
    have := Nat.div_add_mod i p; rw [Nat.mul_comm] at this; omega
  have hlt : i % p < p := Nat.mod_lt _ hp
  have hblock := h _ hb
  have h1 : ((l.drop (i / p * p)).take p)[i % p]? = l[i]? := by
    rw [List.getElem?_take_of_lt hlt, List.getElem?_drop, ← hoff]
  have h2 : (l.take p)[i % p]? = l[i % p]? := List.getElem?_take_of_lt hlt
  rw [← h1, ← h2, hblock]
end listlemmas

/-! ### simplify preserves lookups -/
section simp_lookup
variable {α : Type} [DecidableEq α]

theorem add_mul_mod' (a n b : Nat) (h : a < n) : (a + n * b) % n = a := by
  rw [Nat.add_mul_mod_self_left, Nat.mod_eq_of_lt h]
theorem add_mul_div' (a n b : Nat) (h : a < n) : (a + n * b) / n = b := by
  have hn : 0 < n := by omega
  rw [Nat.add_mul_div_left _ _ hn, Nat.div_eq_of_lt h, Nat.zero_add]
theorem lt_mul_of' (a b S T : Nat) (ha : a < S) (hb : b < T) : a + S * b < S * T := by
  calc a + S * b < S + S * b := by omega
    _ = S * (b + 1) := by rw [Nat.mul_add, Nat.mul_one, Nat.add_comm]
    _ ≤ S * T := Nat.mul_le_mul_left S hb

theorem stride_one_getElem? (l : List α) (i : Nat) : (stride 1 l)[i]? = l[i]? := by
  rw [getElem?_stride 1 (by omega), Nat.mul_one]

/-- The three shapes a constant-test hit can take, turned into one statement about indices:
    `out[j]? = vals[j * q]?` and `vals[i]? = vals[i / q * q]?` for the effective period `q`. -/
theorem constHit_index (sh : Shp) (src d : Cls) (vals out : List α)
    (hh : ConstHit sh src vals d out) :
    (constPeriod sh src d = none ∧ (∀ i, i < vals.length → vals[i]? = vals[0]?) ∧
        out[0]? = vals[0]?) ∨
    (∃ q, constPeriod sh src d = some q ∧ 0 < q ∧ (∀ j, out[j]? = vals[j * q]?) ∧
        (∀ i, i < vals.length → vals[i]? = vals[i / q * q]?)) := by
  cases hh with
  | all hp hc ho =>
    left
    refine ⟨hp, fun i hi => isConstantAll_spec vals hc i hi, ?_⟩
    subst ho; cases vals <;> simp
  | one hp ho =>
    right
    refine ⟨1, hp, by omega, ?_, ?_⟩
    · intro j; subst ho; rw [stride_one_getElem?, Nat.mul_one]
    · intro i _; simp
  | per p hp h1 hdiv hc ho =>
    right
    refine ⟨p, hp, by omega, ?_, ?_⟩
    · intro j; subst ho; exact getElem?_stride p (by omega) vals j
    · intro i hi; exact isConstantP_spec p (by omega) vals hc i hi hdiv

theorem simplify_lookup (null : α) (sh : Shp) (wf : WF sh) (c : Cls) (vals : List α)
    (hsl : sh.hasSlice = true) (hlen : vals.length = mult sh c) (d : Cls) (out : List α)
    (h : simplifyK null sh c vals = .ok (.moved d out))
    (hbug : ¬ (c = vslices ∧ d = tsamples ∧ 1 < sh.V))
    (s t v : Nat) (hs : s < sh.S) (ht : t < sh.T) (hv : v < sh.V) :
    lookupK sh d out s t v = lookupK sh c vals s t v := by
  obtain ⟨hS, hT, hV⟩ := wf
  have hST : 0 < sh.S * sh.T := Nat.mul_pos hS hT
  have hTV : 0 < sh.T * sh.V := Nat.mul_pos hT hV
  have lt2 : t + sh.T * v < sh.T * sh.V := lt_mul_of' _ _ _ _ ht hv
  have lt2' : s + sh.S * t < sh.S * sh.T := lt_mul_of' _ _ _ _ hs ht
  have lt3 : s + sh.S * (t + sh.T * v) < sh.S * (sh.T * sh.V) := lt_mul_of' _ _ _ _ hs lt2
  have e3 : s + sh.S * (t + sh.T * v) = (s + sh.S * t) + (sh.S * sh.T) * v := by
    rw [Nat.mul_add, Nat.mul_assoc, Nat.add_assoc]
  unfold simplifyK at h
  by_cases hc : c = gconst
  · subst hc; simp at h; split at h <;> simp at h
  · simp only [hc, if_false] at h
    cases hcl : constLoop sh c vals (constTests c) with
    | error e => simp [hcl] at h
    | ok r =>
      cases r with
      | some pr =>
        obtain ⟨d', out'⟩ := pr
        simp only [hcl] at h
        simp at h
        obtain ⟨rfl, rfl⟩ := h
        obtain ⟨hmem, _, hh⟩ := constLoop_spec sh c vals _ _ _ hcl
        rcases constHit_index sh c d' vals out' hh with ⟨hp, hall, h0⟩ | ⟨q, hp, hq, hout, hvals⟩
        · -- compared everything: destination is global const
          have hd : d' = gconst := by
            cases d' <;> cases c <;> simp [constPeriod] at hp <;> rfl
          subst hd
          simp only [lookupK, proj]
          rw [h0]
          have : proj sh s t v c < vals.length := by
            rw [hlen]; cases c <;> simp [proj, mult, hsl] <;>
              first | omega | (rw [Nat.mul_assoc]; exact lt3) | exact lt2 | exact lt2'
          exact (hall _ this).symm
        · -- periodic constant
          simp only [lookupK]
          rw [hout]
          have hi : proj sh s t v c < vals.length := by
            rw [hlen]; cases c <;> simp [proj, mult, hsl] <;>
              first | omega | (rw [Nat.mul_assoc]; exact lt3) | exact lt2 | exact lt2'
          rw [hvals _ hi]
          congr 2
          -- the per-pair index identity  proj d' = proj c / q
          cases c <;> cases d' <;> simp [constTests] at hmem <;>
            simp [constPeriod, mult, hsl] at hp <;> subst hp <;> simp only [proj]
          · -- gslices → tsamples, q = S*T*V / (T*V) = S
            have e : sh.S * sh.T * sh.V / (sh.T * sh.V) = sh.S := by
              rw [Nat.mul_assoc]; exact Nat.mul_div_cancel _ hTV
            rw [e, add_mul_div' _ _ _ hs]
          · -- gslices → vsamples, q = S*T
            have e : sh.S * sh.T * sh.V / sh.V = sh.S * sh.T := Nat.mul_div_cancel _ hV
            rw [e, e3, add_mul_div' _ _ _ lt2']
          · -- tsamples → vsamples, q = T
            rw [add_mul_div' _ _ _ ht]
          · -- vslices → tsamples, q = S : only right when v = 0
            have hv1 : sh.V = 1 := by
              rcases Nat.lt_or_ge 1 sh.V with h1 | h1
              · exact absurd ⟨rfl, rfl, h1⟩ hbug
              · omega
            have hv0 : v = 0 := by omega
            subst hv0
            rw [add_mul_div' _ _ _ hs]; simp
      | none =>
        simp only [hcl] at h
        cases hrl : repeatLoop sh vals (repeatTests c) with
        | error e => simp [hrl] at h
        | ok r =>
          cases r with
          | none => simp [hrl] at h
          | some pr =>
            obtain ⟨d', out'⟩ := pr
            simp [hrl] at h
            obtain ⟨rfl, rfl⟩ := h
            obtain ⟨hmem, _, hcase, hdiv, hrep, ho⟩ := repeatLoop_spec sh vals _ _ _ hrl
            subst ho
            have hi : proj sh s t v c < vals.length := by
              rw [hlen]; cases c <;> simp [proj, mult, hsl] <;>
                first | omega | (rw [Nat.mul_assoc]; exact lt3) | exact lt2 | exact lt2'
            have h1 : 0 < mult sh d' := by rcases hcase with h | h <;> omega
            simp only [lookupK]
            rw [isRepeatingP_spec _ h1 vals hrep _ hi hdiv]
            cases c <;> cases d' <;> simp [repeatTests] at hmem <;>
              simp only [proj, mult, hsl, if_true] at *
            · -- gslices → tslices
              rw [add_mul_mod' _ _ _ hs, List.getElem?_take_of_lt hs]
            · -- gslices → vslices
              rw [e3, add_mul_mod' _ _ _ lt2', List.getElem?_take_of_lt lt2']
            · -- vslices → tslices
              rw [add_mul_mod' _ _ _ hs, List.getElem?_take_of_lt hs]
end simp_lookup

/-! ### `_copy_slice` : subset along the slice axis for per-slice classes -/
section copy_slice
variable {α : Type} [DecidableEq α]

omit [DecidableEq α] in
theorem length_tile (k : Nat) (l : List α) : (tile k l).length = k * l.length := by
  induction k with
  | zero => simp [tile]
  | succ k ih => simp [tile, ih, Nat.succ_mul, Nat.add_comm]

omit [DecidableEq α] in
theorem getElem?_tile (k : Nat) (l : List α) (i : Nat) (h : i < k * l.length) :
    (tile k l)[i]? = l[i % l.length]? := by
  induction k generalizing i with
  | zero => simp at h
  | succ k ih =>
    simp only [tile]
    by_cases hi : i < l.length
    · rw [List.getElem?_append_left hi, Nat.mod_eq_of_lt hi]
    · have hge : l.length ≤ i := Nat.le_of_not_lt hi
      rw [List.getElem?_append_right hge]
      have h' : i - l.length < k * l.length := by rw [Nat.succ_mul] at h; omega
      rw [ih _ h']
      congr 1
      conv => rhs; rw [← Nat.sub_add_cancel hge]
      exact (Nat.add_mod_right _ _).symm

omit [DecidableEq α] in
theorem length_strideAux (p : Nat) (hp : 0 < p) (l : List α) :
    ∀ k, (strideAux p k l).length = (l.length - k + p - 1) / p := by
  induction l with
  | nil => intro k; simp [strideAux]; exact (Nat.div_eq_of_lt (by omega)).symm
  | cons x xs ih =>
    intro k
    cases k with
    | zero =>
      simp only [strideAux, List.length_cons, ih, Nat.sub_zero]
      have e1 : xs.length + 1 + p - 1 = (xs.length - (p - 1) + p - 1) + p ∨ xs.length < p - 1 := by
        omega
      rcases e1 with e1 | e1
      · rw [e1, Nat.add_div_right _ hp]
      · have e0 : xs.length - (p - 1) = 0 := by omega
        rw [e0]
        have h1 : (0 + p - 1) / p = 0 := Nat.div_eq_of_lt (by omega)
        have h2 : (xs.length + 1 + p - 1) / p = 1 := by
          have : xs.length + 1 + p - 1 = p + xs.length := by omega
          rw [this, Nat.add_div_left _ hp, Nat.div_eq_of_lt (by omega)]
        omega
    | succ k =>
      simp only [strideAux, List.length_cons, ih]
      have : xs.length + 1 - (k + 1) = xs.length - k := by omega
      rw [this]

omit [DecidableEq α] in
theorem length_stride (p : Nat) (hp : 0 < p) (l : List α) :
    (stride p l).length = (l.length + p - 1) / p := by
  unfold stride
  rw [length_strideAux p hp l 0, Nat.sub_zero]

omit [DecidableEq α] in
/-- `len(vals[idx::S]) = M` when `len vals = S*M` and `idx < S` -/
theorem length_stride_drop (S M idx : Nat) (hidx : idx < S) (vals : List α)
    (hlen : vals.length = S * M) : (stride S (vals.drop idx)).length = M := by
  have hS : 0 < S := by omega
  rw [length_stride S hS, List.length_drop, hlen]
  rcases Nat.eq_zero_or_pos M with h | h
  · subst h
    simp only [Nat.mul_zero, Nat.zero_sub, Nat.zero_add]
    exact Nat.div_eq_of_lt (by omega)
  · have hle : idx ≤ S * M := by
      calc idx ≤ S := by omega
        _ = S * 1 := (Nat.mul_one S).symm
        _ ≤ S * M := Nat.mul_le_mul_left S h
    have : S * M - idx + S - 1 = (S - 1 - idx) + S * M := by omega
    rw [this, Nat.add_mul_div_left _ _ hS, Nat.div_eq_of_lt (by omega), Nat.zero_add]

omit [DecidableEq α] in
theorem getElem?_sub (S idx j : Nat) (hS : 0 < S) (vals : List α) :
    (stride S (vals.drop idx))[j]? = vals[idx + j * S]? := by
  rw [getElem?_stride S hS, List.getElem?_drop]

end copy_slice

section copy_slice_thm
variable {α : Type} [DecidableEq α]

omit [DecidableEq α] in
theorem copySlice_lookup (sh : Shp) (wf : WFnd sh) (hsl : sh.hasSlice = true) (c : Cls)
    (hps : perSlice c = true) (hv : c ∈ validClasses sh) (vals : List α)
    (hlen : vals.length = mult sh c) (idx t v : Nat)
    (hidx : idx < sh.S) (ht : t < sh.T) (hvv : v < sh.V) :
    let rs := sliceSubsetShp sh
    let d := copySliceDest (validClasses rs) c
    lookupK rs d (copySliceVals sh.S (mult rs d) idx vals) 0 t v = lookupK sh c vals idx t v := by
  obtain ⟨⟨hS, hT, hV⟩, hnd, h3, h4⟩ := wf
  have hTV : 0 < sh.T * sh.V := Nat.mul_pos hT hV
  have lt2 : t + sh.T * v < sh.T * sh.V := lt_mul_of' _ _ _ _ ht hvv
  simp only [sliceSubsetShp, lookupK]
  cases c <;> simp [perSlice] at hps
  · -- gslices
    have hl : vals.length = sh.S * (sh.T * sh.V) := by
      rw [hlen]; simp [mult, hsl, Nat.mul_assoc]
    have hsub := length_stride_drop sh.S (sh.T * sh.V) idx hidx vals hl
    rcases hnd with h | h | h
    · -- 3-D: destination global const
      obtain ⟨hT1, hV1⟩ := h3 h
      have ht0 : t = 0 := by omega
      have hv0 : v = 0 := by omega
      subst ht0; subst hv0
      have key0 : (stride sh.S (vals.drop idx))[0]? = vals[idx]? := by
        rw [getElem?_sub _ _ _ hS]; simp
      simp only [validClasses, h, if_true, copySliceDest, copySliceVals, mult, proj, hsub, hT1, hV1,
        List.mem_cons, List.mem_nil_iff, reduceCtorEq, or_self, or_false, false_or, if_false,
        Nat.mul_one, Nat.lt_irrefl, Nat.mul_zero, Nat.add_zero]
      exact key0
    · -- 4-D: time samples
      have hV1 := h4 h
      have hv0 : v = 0 := by omega
      subst hv0
      simp [validClasses, h, copySliceDest, copySliceVals, mult, proj, hsub, hV1,
        getElem?_sub _ _ _ hS, Nat.mul_comm]
    · by_cases hT1 : sh.T = 1
      · -- 5-D, T = 1 : vector samples
        have ht0 : t = 0 := by omega
        subst ht0
        simp [validClasses, h, hT1, copySliceDest, copySliceVals, mult, proj, hsub,
          getElem?_sub _ _ _ hS, Nat.mul_comm]
      · -- 5-D : time samples
        simp [validClasses, h, hT1, copySliceDest, copySliceVals, mult, proj, hsub,
          getElem?_sub _ _ _ hS, Nat.mul_comm]
  · -- tslices → global const
    have hl : vals.length = sh.S * 1 := by rw [hlen]; simp [mult, hsl]
    have hsub := length_stride_drop sh.S 1 idx hidx vals hl
    have key0 : (stride sh.S (vals.drop idx))[0]? = vals[idx]? := by
      rw [getElem?_sub _ _ _ hS]; simp
    simp only [copySliceDest, copySliceVals, mult, proj, hsub, Nat.lt_irrefl, if_false]
    exact key0
  · -- vslices (only valid in 5-D)
    have h5 : sh.nd = 5 := by
      rcases hnd with h | h | h <;> simp [validClasses, h] at hv <;> first | exact h | omega
    have hl : vals.length = sh.S * sh.T := by rw [hlen]; simp [mult, hsl]
    have hsub := length_stride_drop sh.S sh.T idx hidx vals hl
    by_cases hT1 : sh.T = 1
    · have ht0 : t = 0 := by omega
      subst ht0
      have key0 : (stride sh.S (vals.drop idx))[0]? = vals[idx]? := by
        rw [getElem?_sub _ _ _ hS]; simp
      rw [hT1] at hsub
      simp only [validClasses, h5, hT1, copySliceDest, copySliceVals, mult, proj, hsub,
        show (5 : Nat) ≠ 3 by omega, show (5 : Nat) ≠ 4 by omega, if_false, ne_eq,
        not_true_eq_false, List.mem_cons, List.mem_nil_iff, reduceCtorEq, or_self, or_false,
        false_or, Nat.lt_irrefl, Nat.mul_zero, Nat.add_zero]
      exact key0
    · have hvc : validClasses { sh with S := 1 } =
          [gconst, gslices, tsamples, tslices, vsamples, vslices] := by
        simp [validClasses, h5, hT1]
      have hd : copySliceDest (validClasses { sh with S := 1 }) vslices = tsamples := by
        rw [hvc]; simp [copySliceDest]
      rw [hd]
      simp only [copySliceVals, mult, proj, hsub]
      by_cases hV1 : sh.V = 1
      · have hv0 : v = 0 := by omega
        subst hv0
        simp only [hV1, Nat.mul_one, Nat.lt_irrefl, if_false, Nat.mul_zero, Nat.add_zero]
        rw [getElem?_sub _ _ _ hS, Nat.mul_comm]
      · have hlt : sh.T < sh.T * sh.V := by
          have : 2 ≤ sh.V := by omega
          calc sh.T = sh.T * 1 := (Nat.mul_one _).symm
            _ < sh.T * sh.V := Nat.mul_lt_mul_of_pos_left (by omega) hT
        simp only [hlt, if_true]
        have hdiv : sh.T * sh.V / sh.T = sh.V := Nat.mul_div_cancel_left _ hT
        rw [hdiv, getElem?_tile _ _ _ (by rw [hsub, Nat.mul_comm sh.V sh.T]; exact lt2), hsub,
          add_mul_mod' _ _ _ ht, getElem?_sub _ _ _ hS, Nat.mul_comm]
end copy_slice_thm

/-! ### `_get_changed_class`, `_change_class`, `_insert` (reclassification) and `_insert_slice` -/
section insert
variable {α : Type} [DecidableEq α]

end insert


section changed_lookup
variable {α : Type} [DecidableEq α]

omit [DecidableEq α] in
theorem getElem?_repeatEach (k : Nat) (l : List α) (i : Nat) (hk : 0 < k) :
    (repeatEach k l)[i]? = l[i / k]? := by
  induction l generalizing i with
  | nil => simp [repeatEach]
  | cons a l ih =>
    simp only [repeatEach, List.flatMap_cons] at *
    by_cases hi : i < k
    · rw [List.getElem?_append_left (by simpa using hi)]
      simp [Nat.div_eq_of_lt hi, hi]
    · have hge : k ≤ i := Nat.le_of_not_lt hi
      rw [List.getElem?_append_right (by simpa using hge)]
      simp only [List.length_replicate]
      rw [ih]
      have : i / k = (i - k) / k + 1 := by
        conv => lhs; rw [← Nat.sub_add_cancel hge]
        exact Nat.add_div_right _ hk
      rw [this]; simp

omit [DecidableEq α] in
theorem length_repeatEach (k : Nat) (l : List α) : (repeatEach k l).length = l.length * k := by
  induction l with
  | nil => simp [repeatEach]
  | cons a l ih =>
    simp only [repeatEach, List.flatMap_cons, List.length_append, List.length_replicate,
      List.length_cons] at *
    rw [ih, Nat.succ_mul]; omega

omit [DecidableEq α] in
theorem rep_at (k : Nat) (l : List α) (i j : Nat) (hk : 0 < k) (h : i / k = j) :
    (repeatEach k l)[i]? = l[j]? := by
  rw [getElem?_repeatEach _ _ _ hk, h]

omit [DecidableEq α] in
theorem tile_at (k : Nat) (l : List α) (i j n : Nat) (hn : l.length = n)
    (hi : i < n * k) (h : i % n = j) : (tile k l)[i]? = l[j]? := by
  subst hn; rw [getElem?_tile _ _ _ (by rw [Nat.mul_comm]; exact hi), h]

/-- in-bounds projections stay below the multiplicity -/
theorem proj_lt_mult (sh : Shp) (wf : WF sh) (hsl : sh.hasSlice = true) (c : Cls)
    (s t v : Nat) (hs : s < sh.S) (ht : t < sh.T) (hv : v < sh.V) :
    proj sh s t v c < mult sh c := by
  obtain ⟨hS, hT, hV⟩ := wf
  have lt2 : t + sh.T * v < sh.T * sh.V := lt_mul_of' _ _ _ _ ht hv
  have lt2' : s + sh.S * t < sh.S * sh.T := lt_mul_of' _ _ _ _ hs ht
  have lt3 : s + sh.S * (t + sh.T * v) < sh.S * (sh.T * sh.V) := lt_mul_of' _ _ _ _ hs lt2
  cases c <;> simp [proj, mult, hsl] <;>
    first | omega | (rw [Nat.mul_assoc]; exact lt3) | exact lt2 | exact lt2'

/-- `_get_changed_class` never changes what a lookup returns, and yields the right count. -/
theorem getChanged_lookup (null : α) (sh : Shp) (wf : WF sh) (hsl : sh.hasSlice = true)
    (ks : KeyState α) (hval : ValidK sh ks) (new : Cls) (hnew : new ∈ validClasses sh)
    (out : List α) (h : getChangedK null sh ks new = .ok out) :
    out.length = mult sh new ∧
    ∀ s t v, s < sh.S → t < sh.T → v < sh.V →
      out[proj sh s t v new]? = lookupKS null sh ks s t v := by
  have wf' := wf
  obtain ⟨hS, hT, hV⟩ := wf
  have hST : 0 < sh.S * sh.T := Nat.mul_pos hS hT
  have hTV : 0 < sh.T * sh.V := Nat.mul_pos hT hV
  have hSTV : 0 < sh.S * sh.T * sh.V := Nat.mul_pos hST hV
  have hpos : ∀ c, 0 < mult sh c := by
    intro c; cases c <;> simp [mult, hsl] <;> assumption
  unfold getChangedK at h
  by_cases hsame : ks.map (·.1) = some new
  · -- same class: values returned as they are
    simp only [hsame, if_true] at h
    cases ks with
    | none => simp at hsame
    | some pr =>
      obtain ⟨c, vals⟩ := pr
      simp at hsame; subst hsame
      simp at h; subst h
      exact ⟨hval.2, fun s t v _ _ _ => rfl⟩
  · simp only [hsame, if_false] at h
    by_cases hpres : new ∈ preserving (ks.map (·.1))
    · simp only [hpres, not_true_eq_false, if_false, hnew, if_true] at h
      have hm0 : (if mult sh new = 0 then mult { sh with hasSlice := true } new else mult sh new) =
          mult sh new := by
        have := hpos new; split <;> omega
      rw [hm0] at h
      cases ks with
      | none =>
        -- absent key: `[None] * mult`
        simp only [Option.map_none] at h hpres
        simp only [Nat.div_one] at h
        have hrep : ∀ i, i < mult sh new → (repeatEach (mult sh new) [null])[i]? = some null := by
          intro i hi
          rw [getElem?_repeatEach _ _ _ (hpos new), Nat.div_eq_of_lt hi]; rfl
        have hlen : (repeatEach (mult sh new) [null]).length = mult sh new := by
          rw [length_repeatEach]; simp
        by_cases hg : new = gconst
        · subst hg
          simp only [if_true] at h
          injection h with h; subst h
          have h0 := hrep 0 (hpos gconst)
          refine ⟨?_, ?_⟩
          · cases hr : repeatEach (mult sh gconst) [null] with
            | nil => rw [hr] at hlen; simp [mult] at hlen
            | cons a l => simp [mult]
          · intro s t v _ _ _
            simp only [lookupKS, proj]
            cases hr : repeatEach (mult sh gconst) [null] with
            | nil => rw [hr] at hlen; simp [mult] at hlen
            | cons a l => rw [hr] at h0; simpa using h0
        · simp only [hg, if_false] at h
          injection h with h; subst h
          refine ⟨hlen, ?_⟩
          intro s t v hs ht hv
          simp only [lookupKS]
          exact hrep _ (proj_lt_mult sh wf' hsl new s t v hs ht hv)
      | some pr =>
        obtain ⟨c, vals⟩ := pr
        obtain ⟨hcv, hlenv⟩ := hval
        simp only [Option.map_some] at h hpres hsame
        have hne : c ≠ new := fun e => hsame (by rw [e])
        have lt2 : ∀ t v, t < sh.T → v < sh.V → t + sh.T * v < sh.T * sh.V :=
          fun t v ht hv => lt_mul_of' _ _ _ _ ht hv
        have lt2' : ∀ s t, s < sh.S → t < sh.T → s + sh.S * t < sh.S * sh.T :=
          fun s t hs ht => lt_mul_of' _ _ _ _ hs ht
        have lt3 : ∀ s t v, s < sh.S → t < sh.T → v < sh.V →
            s + sh.S * (t + sh.T * v) < sh.S * (sh.T * sh.V) :=
          fun s t v hs ht hv => lt_mul_of' _ _ _ _ hs (lt2 t v ht hv)
        have e3 : ∀ s t v, s + sh.S * (t + sh.T * v) = (s + sh.S * t) + (sh.S * sh.T) * v := by
          intro s t v; rw [Nat.mul_add, Nat.mul_assoc, Nat.add_assoc]
        -- no allowed change ends in global const, so the `[0]` branch is dead
        have hng : new ≠ gconst := by
          intro e; subst e; cases c <;> simp [preserving] at hpres
        simp only [hng, if_false] at h
        injection h with h; subst h
        cases c <;> cases new <;> simp [preserving] at hpres hne <;>
          simp only [mult, hsl, if_true, perSlice, Nat.div_one, Bool.false_eq_true, if_false,
            lookupKS, proj] at *
        -- gconst → gslices, tsamples, tslices, vsamples, vslices
        · refine ⟨by rw [length_repeatEach, hlenv]; omega, fun s t v hs ht hv => ?_⟩
          exact rep_at _ _ _ _ hSTV (Nat.div_eq_of_lt (by rw [Nat.mul_assoc]; exact lt3 s t v hs ht hv))
        · refine ⟨by rw [length_repeatEach, hlenv]; omega, fun s t v hs ht hv => ?_⟩
          exact rep_at _ _ _ _ hTV (Nat.div_eq_of_lt (lt2 t v ht hv))
        · refine ⟨by rw [length_repeatEach, hlenv]; omega, fun s t v hs ht hv => ?_⟩
          exact rep_at _ _ _ _ hS (Nat.div_eq_of_lt hs)
        · refine ⟨by rw [length_repeatEach, hlenv]; omega, fun s t v hs ht hv => ?_⟩
          exact rep_at _ _ _ _ hV (Nat.div_eq_of_lt hv)
        · refine ⟨by rw [length_repeatEach, hlenv]; omega, fun s t v hs ht hv => ?_⟩
          exact rep_at _ _ _ _ hST (Nat.div_eq_of_lt (lt2' s t hs ht))
        -- tsamples → gslices
        · have e : sh.S * sh.T * sh.V / (sh.T * sh.V) = sh.S := by
            rw [Nat.mul_assoc]; exact Nat.mul_div_cancel _ hTV
          rw [e]
          refine ⟨by rw [length_repeatEach, hlenv, Nat.mul_comm, Nat.mul_assoc], fun s t v hs ht hv => ?_⟩
          exact rep_at _ _ _ _ hS (add_mul_div' _ _ _ hs)
        -- tslices → gslices
        · have e : sh.S * sh.T * sh.V / sh.S = sh.T * sh.V := by
            rw [Nat.mul_assoc]; exact Nat.mul_div_cancel_left _ hS
          rw [e]
          refine ⟨by rw [length_tile, hlenv, Nat.mul_comm, Nat.mul_assoc], fun s t v hs ht hv => ?_⟩
          exact tile_at _ _ _ _ _ hlenv (lt3 s t v hs ht hv) (add_mul_mod' _ _ _ hs)
        -- tslices → vslices
        · have e : sh.S * sh.T / sh.S = sh.T := Nat.mul_div_cancel_left _ hS
          rw [e]
          refine ⟨by rw [length_tile, hlenv, Nat.mul_comm], fun s t v hs ht hv => ?_⟩
          exact tile_at _ _ _ _ _ hlenv (lt2' s t hs ht) (add_mul_mod' _ _ _ hs)
        -- vsamples → gslices
        · have e : sh.S * sh.T * sh.V / sh.V = sh.S * sh.T := Nat.mul_div_cancel _ hV
          rw [e]
          refine ⟨by rw [length_repeatEach, hlenv, Nat.mul_comm], fun s t v hs ht hv => ?_⟩
          refine rep_at _ _ _ _ hST ?_
          rw [e3]; exact add_mul_div' _ _ _ (lt2' s t hs ht)
        -- vsamples → tsamples
        · have e : sh.T * sh.V / sh.V = sh.T := Nat.mul_div_cancel _ hV
          rw [e]
          refine ⟨by rw [length_repeatEach, hlenv, Nat.mul_comm], fun s t v hs ht hv => ?_⟩
          exact rep_at _ _ _ _ hT (add_mul_div' _ _ _ ht)
        -- vslices → gslices
        · have e : sh.S * sh.T * sh.V / (sh.S * sh.T) = sh.V := Nat.mul_div_cancel_left _ hST
          rw [e]
          refine ⟨by rw [length_tile, hlenv, Nat.mul_comm], fun s t v hs ht hv => ?_⟩
          refine tile_at _ _ _ _ _ hlenv ?_ ?_
          · rw [Nat.mul_assoc]; exact lt3 s t v hs ht hv
          · rw [e3]; exact add_mul_mod' _ _ _ (lt2' s t hs ht)
    · simp [hpres] at h
end changed_lookup

section insert_slice_thm
variable {α : Type} [DecidableEq α]

omit [DecidableEq α] in
theorem getElem?_interleave (n m : Nat) :
    ∀ (vols : Nat) (a b : List α), a.length = vols * n → b.length = vols * m →
    ∀ (vol s : Nat), vol < vols → s < n + m →
      (interleave n m vols a b)[vol * (n + m) + s]? =
        if s < n then a[vol * n + s]? else b[vol * m + (s - n)]? := by
  intro vols
  induction vols with
  | zero => intro a b _ _ vol s hv; omega
  | succ vols ih =>
    intro a b ha hb vol s hv hs
    have hna : n ≤ a.length := by rw [ha, Nat.succ_mul]; omega
    have hmb : m ≤ b.length := by rw [hb, Nat.succ_mul]; omega
    have hta : (a.take n).length = n := by simp [List.length_take, Nat.min_eq_left hna]
    have htb : (b.take m).length = m := by simp [List.length_take, Nat.min_eq_left hmb]
    simp only [interleave]
    cases vol with
    | zero =>
      simp only [Nat.zero_mul, Nat.zero_add]
      by_cases h : s < n
      · simp only [h, if_true]
        rw [List.getElem?_append_left (by omega), List.getElem?_take_of_lt h]
      · simp only [h, if_false]
        rw [List.getElem?_append_right (by omega), hta,
          List.getElem?_append_left (by omega), List.getElem?_take_of_lt (by omega)]
    | succ vol =>
      have hv' : vol < vols := by omega
      have e1 : (vol + 1) * (n + m) + s = n + (m + (vol * (n + m) + s)) := by
        rw [Nat.succ_mul]; omega
      rw [e1, List.getElem?_append_right (by omega), hta]
      rw [show n + (m + (vol * (n + m) + s)) - n = m + (vol * (n + m) + s) by omega]
      rw [List.getElem?_append_right (by omega), htb]
      rw [show m + (vol * (n + m) + s) - m = vol * (n + m) + s by omega]
      have ha' : (a.drop n).length = vols * n := by
        rw [List.length_drop, ha, Nat.succ_mul]; omega
      have hb' : (b.drop m).length = vols * m := by
        rw [List.length_drop, hb, Nat.succ_mul]; omega
      rw [ih (a.drop n) (b.drop m) ha' hb' vol s hv' hs]
      simp only [List.getElem?_drop]
      have e2 : n + (vol * n + s) = (vol + 1) * n + s := by rw [Nat.succ_mul]; omega
      have e3 : m + (vol * m + (s - n)) = (vol + 1) * m + (s - n) := by rw [Nat.succ_mul]; omega
      rw [e2, e3]

omit [DecidableEq α] in
theorem length_interleave (n m : Nat) :
    ∀ (vols : Nat) (a b : List α), a.length = vols * n → b.length = vols * m →
      (interleave n m vols a b).length = vols * (n + m) := by
  intro vols
  induction vols with
  | zero => intro a b _ _; simp [interleave]
  | succ vols ih =>
    intro a b ha hb
    have hna : n ≤ a.length := by rw [ha, Nat.succ_mul]; omega
    have hmb : m ≤ b.length := by rw [hb, Nat.succ_mul]; omega
    have ha' : (a.drop n).length = vols * n := by
      rw [List.length_drop, ha, Nat.succ_mul]; omega
    have hb' : (b.drop m).length = vols * m := by
      rw [List.length_drop, hb, Nat.succ_mul]; omega
    simp only [interleave, List.length_append, List.length_take, Nat.min_eq_left hna,
      Nat.min_eq_left hmb, ih _ _ ha' hb', Nat.succ_mul]
    omega

theorem gslices_valid (sh : Shp) : gslices ∈ validClasses sh := by
  unfold validClasses
  repeat' split
  all_goals simp

theorem gconst_valid (sh : Shp) : gconst ∈ validClasses sh := by
  unfold validClasses
  repeat' split
  all_goals simp

/-- merging by appending: right for a class whose index along the merge is the slice index -/
theorem append_merge (null : α) (sh : Shp) (d : Cls) (self other : KeyState α)
    (lv' ov' : List α)
    (hdv : d ∈ validClasses sh)
    (hproj : ∀ S' s t v, t < sh.T → v < sh.V → proj { sh with S := S' } s t v d = s)
    (hmult : ∀ S', mult { sh with S := S' } d = S')
    (hl : lv'.length = mult sh d)
    (hlk : ∀ s t v, s < sh.S → t < sh.T → v < sh.V →
      lv'[proj sh s t v d]? = lookupKS null sh self s t v)
    (ho : ov'.length = mult { sh with S := 1 } d)
    (hok : ∀ s t v, s < 1 → t < sh.T → v < sh.V →
      ov'[proj { sh with S := 1 } s t v d]? = lookupKS null { sh with S := 1 } other s t v) :
    ValidK { sh with S := sh.S + 1 } (some (d, lv' ++ ov')) ∧
    (∀ s t v, s < sh.S → t < sh.T → v < sh.V →
      lookupKS null { sh with S := sh.S + 1 } (some (d, lv' ++ ov')) s t v
        = lookupKS null sh self s t v) ∧
    (∀ t v, t < sh.T → v < sh.V →
      lookupKS null { sh with S := sh.S + 1 } (some (d, lv' ++ ov')) sh.S t v =
        lookupKS null { sh with S := 1 } other 0 t v) := by
  have hl' : lv'.length = sh.S := by rw [hl]; exact hmult sh.S
  have ho' : ov'.length = 1 := by rw [ho]; exact hmult 1
  refine ⟨⟨hdv, ?_⟩, ?_, ?_⟩
  · rw [List.length_append, hl', ho', hmult]
  · intro s t v hs ht hv
    simp only [lookupKS]
    rw [hproj _ s t v ht hv, List.getElem?_append_left (by omega)]
    have := hlk s t v hs ht hv
    rw [show proj sh s t v d = s from hproj sh.S s t v ht hv] at this
    exact this
  · intro t v ht hv
    simp only [lookupKS]
    rw [hproj _ sh.S t v ht hv, List.getElem?_append_right (by omega), hl', Nat.sub_self]
    have := hok 0 t v (by omega) ht hv
    rw [hproj 1 0 t v ht hv] at this
    exact this

/-- merging global-slices lists by interleaving one new slice per volume -/
theorem interleave_merge (null : α) (sh : Shp) (wf : WF sh) (hsl : sh.hasSlice = true)
    (self other : KeyState α) (lv' ov' : List α)
    (hl : lv'.length = mult sh gslices)
    (hlk : ∀ s t v, s < sh.S → t < sh.T → v < sh.V →
      lv'[proj sh s t v gslices]? = lookupKS null sh self s t v)
    (ho : ov'.length = mult { sh with S := 1 } gslices)
    (hok : ∀ s t v, s < 1 → t < sh.T → v < sh.V →
      ov'[proj { sh with S := 1 } s t v gslices]? = lookupKS null { sh with S := 1 } other s t v) :
    let r : KeyState α := some (gslices, interleave sh.S 1 (sh.T * sh.V) lv' ov')
    ValidK { sh with S := sh.S + 1 } r ∧
    (∀ s t v, s < sh.S → t < sh.T → v < sh.V →
      lookupKS null { sh with S := sh.S + 1 } r s t v = lookupKS null sh self s t v) ∧
    (∀ t v, t < sh.T → v < sh.V →
      lookupKS null { sh with S := sh.S + 1 } r sh.S t v =
        lookupKS null { sh with S := 1 } other 0 t v) := by
  obtain ⟨hS, hT, hV⟩ := wf
  have hl' : lv'.length = (sh.T * sh.V) * sh.S := by
    rw [hl]; simp only [mult, hsl, if_true]; rw [Nat.mul_assoc, Nat.mul_comm]
  have ho' : ov'.length = (sh.T * sh.V) * 1 := by
    rw [ho]; simp only [mult, hsl, if_true]; rw [Nat.one_mul, Nat.mul_one]
  have lt2 : ∀ t v, t < sh.T → v < sh.V → t + sh.T * v < sh.T * sh.V :=
    fun t v ht hv => lt_mul_of' _ _ _ _ ht hv
  intro r
  refine ⟨⟨gslices_valid _, ?_⟩, ?_, ?_⟩
  · show (interleave sh.S 1 (sh.T * sh.V) lv' ov').length = _
    rw [length_interleave _ _ _ _ _ hl' ho']
    simp only [mult, hsl, if_true]
    rw [Nat.mul_comm (sh.T * sh.V), Nat.mul_assoc]
  · intro s t v hs ht hv
    show (interleave sh.S 1 (sh.T * sh.V) lv' ov')[proj _ s t v gslices]? = _
    simp only [proj]
    rw [show s + (sh.S + 1) * (t + sh.T * v) = (t + sh.T * v) * (sh.S + 1) + s by
      rw [Nat.mul_comm]; omega]
    rw [getElem?_interleave _ _ _ _ _ hl' ho' _ _ (lt2 t v ht hv) (by omega)]
    simp only [hs, if_true]
    have := hlk s t v hs ht hv
    simp only [proj] at this
    rw [← this]; congr 1; rw [Nat.mul_comm]; omega
  · intro t v ht hv
    show (interleave sh.S 1 (sh.T * sh.V) lv' ov')[proj _ sh.S t v gslices]? = _
    simp only [proj]
    rw [show sh.S + (sh.S + 1) * (t + sh.T * v) = (t + sh.T * v) * (sh.S + 1) + sh.S by
      rw [Nat.mul_comm]; omega]
    rw [getElem?_interleave _ _ _ _ _ hl' ho' _ _ (lt2 t v ht hv) (by omega)]
    simp only [Nat.lt_irrefl, if_false, Nat.sub_self, Nat.mul_one, Nat.add_zero]
    have := hok 0 t v (by omega) ht hv
    simp only [proj, Nat.one_mul, Nat.zero_add] at this
    exact this

theorem insertSlice_lookup (null : α) (sh : Shp) (hc : Consistent sh)
    (c : Cls) (lv : List α) (other : KeyState α)
    (hself : ValidK sh (some (c, lv)))
    (hother : ValidK { sh with S := 1 } other)
    (r : KeyState α)
    (h : insertSliceK null sh { sh with S := 1 } (some (c, lv)) other = .ok r) :
    ValidK { sh with S := sh.S + 1 } r ∧
    (∀ s t v, s < sh.S → t < sh.T → v < sh.V →
      lookupKS null { sh with S := sh.S + 1 } r s t v = lookupKS null sh (some (c, lv)) s t v) ∧
    (∀ t v, t < sh.T → v < sh.V →
      lookupKS null { sh with S := sh.S + 1 } r sh.S t v =
        lookupKS null { sh with S := 1 } other 0 t v) := by
  obtain ⟨hcv, hlv⟩ := hself
  have wf : WF sh := hc.toWFnd.toWF
  have hsl := hc.hsl
  have wfo : WF { sh with S := 1 } := ⟨by simp, wf.hT, wf.hV⟩
  -- facts about classes of the three shapes (validity depends on nd and T only)
  have hvo : ∀ d, d ∈ validClasses { sh with S := 1 } ↔ d ∈ validClasses sh := fun d => Iff.rfl
  -- turn `getChanged` results into specs
  have specS : ∀ ks d out, ValidK sh ks → d ∈ validClasses sh →
      getChangedK null sh ks d = .ok out →
      out.length = mult sh d ∧ ∀ s t v, s < sh.S → t < sh.T → v < sh.V →
        out[proj sh s t v d]? = lookupKS null sh ks s t v :=
    fun ks d out hv hd hg => getChanged_lookup null sh wf hsl ks hv d hd out hg
  have specO : ∀ d out, d ∈ validClasses sh →
      getChangedK null { sh with S := 1 } other d = .ok out →
      out.length = mult { sh with S := 1 } d ∧ ∀ s t v, s < 1 → t < sh.T → v < sh.V →
        out[proj { sh with S := 1 } s t v d]? = lookupKS null { sh with S := 1 } other s t v :=
    fun d out hd hg => getChanged_lookup null _ wfo hsl other hother d hd out hg
  have selfSpec : lv.length = mult sh c ∧ ∀ s t v, s < sh.S → t < sh.T → v < sh.V →
      lv[proj sh s t v c]? = lookupKS null sh (some (c, lv)) s t v :=
    ⟨hlv, fun _ _ _ _ _ _ => rfl⟩
  unfold insertSliceK at h
  simp only at h
  cases hgo : getChangedK null { sh with S := 1 } other c with
  | error e => simp [hgo] at h
  | ok ov =>
    simp only [hgo] at h
    obtain ⟨hovl, hovk⟩ := specO c ov hcv hgo
    by_cases hcg : c = gconst
    · subst hcg
      simp only [if_true] at h
      by_cases heq : lv = ov
      · -- equal constants: nothing changes
        simp only [heq, if_true] at h
        injection h with h; subst h
        subst heq
        refine ⟨⟨gconst_valid _, by simpa [mult] using hlv⟩, fun _ _ _ _ _ _ => rfl, ?_⟩
        intro t v ht hv
        have := hovk 0 t v (by omega) ht hv
        simpa [lookupKS, proj] using this
      · -- the constant starts to vary along slices
        simp only [heq, if_false] at h
        -- which per-slice class, and why it is the right one
        have key : ∀ d, d ∈ validClasses sh → d ≠ gconst →
            (∀ S' s t v, t < sh.T → v < sh.V → proj { sh with S := S' } s t v d = s) →
            (∀ S', mult { sh with S := S' } d = S') →
            ∀ r', (match changeClassK null sh (some (gconst, lv)) d,
                     getChangedK null { sh with S := 1 } other d with
                   | .ok (some (_, lv')), .ok ov' => (.ok (some (d, lv' ++ ov')) : Except Err (KeyState α))
                   | .error e, _ => .error e
                   | _, .error e => .error e
                   | _, _ => .error .other) = .ok r' →
            ValidK { sh with S := sh.S + 1 } r' ∧
            (∀ s t v, s < sh.S → t < sh.T → v < sh.V →
              lookupKS null { sh with S := sh.S + 1 } r' s t v
                = lookupKS null sh (some (gconst, lv)) s t v) ∧
            (∀ t v, t < sh.T → v < sh.V →
              lookupKS null { sh with S := sh.S + 1 } r' sh.S t v =
                lookupKS null { sh with S := 1 } other 0 t v) := by
          intro d hdv hdg hproj hmult r' hr
          unfold changeClassK at hr
          have hne : (some (gconst, lv) : KeyState α).map (·.1) ≠ some d := by
            simp; exact fun e => hdg e.symm
          simp only [hne, if_false] at hr
          cases hg1 : getChangedK null sh (some (gconst, lv)) d with
          | error e => simp [hg1] at hr
          | ok lv' =>
            cases hg2 : getChangedK null { sh with S := 1 } other d with
            | error e => simp [hg1, hg2] at hr
            | ok ov' =>
              simp only [hg1, hg2] at hr
              injection hr with hr; subst hr
              obtain ⟨hl1, hk1⟩ := specS (some (gconst, lv)) d lv' (And.intro hcv hlv) hdv hg1
              obtain ⟨hl2, hk2⟩ := specO d ov' hdv hg2
              exact append_merge null sh d _ other lv' ov' hdv hproj hmult hl1 hk1 hl2 hk2
        by_cases htm : sh.hasTime = true
        · simp only [htm, if_true] at h
          have h4 := (hc.htime.mp htm)
          have hdv : tslices ∈ validClasses sh := by
            unfold validClasses
            rcases hc.hnd with h3 | h4' | h5
            · omega
            · simp [h4']
            · simp [h5, h4.2]
          exact key tslices hdv (by simp) (fun _ _ _ _ _ _ => rfl)
            (fun S' => by simp [mult, hsl]) r h
        · simp only [htm, if_false] at h
          have hT1 : sh.nd = 3 ∨ sh.T = 1 := by
            rcases hc.hnd with h3 | h4 | h5
            · exact Or.inl h3
            · exact absurd (hc.htime.mpr ⟨by omega, hc.trimmed4 h4⟩) htm
            · right
              rcases Nat.lt_or_ge 1 sh.T with hgt | hle
              · exact absurd (hc.htime.mpr ⟨by omega, by omega⟩) htm
              · have := wf.hT; omega
          by_cases hvm : sh.hasVector = true
          · simp only [hvm, if_true] at h
            have h5 := hc.hvec.mp hvm
            have hT1' : sh.T = 1 := by
              rcases hT1 with h3 | h1
              · omega
              · exact h1
            have hdv : vslices ∈ validClasses sh := by
              unfold validClasses; simp [h5, hT1']
            refine key vslices hdv (by simp) ?_ (fun S' => by simp [mult, hsl, hT1']) r h
            intro S' s t v ht hv
            have : t = 0 := by omega
            subst this; simp [proj]
          · simp only [hvm, if_false] at h
            have h3 : sh.nd = 3 := by
              rcases hc.hnd with h3 | h4 | h5
              · exact h3
              · exact absurd (hc.htime.mpr ⟨by omega, hc.trimmed4 h4⟩) htm
              · exact absurd (hc.hvec.mpr h5) hvm
            obtain ⟨hT1', hV1⟩ := hc.h3 h3
            refine key gslices (gslices_valid _) (by simp) ?_
              (fun S' => by simp [mult, hsl, hT1', hV1]) r h
            intro S' s t v ht hv
            have h1 : t = 0 := by omega
            have h2 : v = 0 := by omega
            subst h1; subst h2; simp [proj]
    · simp only [hcg, if_false] at h
      by_cases hct : c = tslices
      · subst hct
        simp only [if_true] at h
        injection h with h; subst h
        exact append_merge null sh tslices _ other lv ov hcv (fun _ _ _ _ _ _ => rfl)
          (fun S' => by simp [mult, hsl]) selfSpec.1 selfSpec.2 hovl hovk
      · simp only [hct, if_false] at h
        by_cases hcgs : c = gslices
        · subst hcgs
          simp only [if_true] at h
          injection h with h; subst h
          exact interleave_merge null sh wf hsl _ other lv ov selfSpec.1 selfSpec.2 hovl hovk
        · simp only [hcgs, if_false] at h
          unfold changeClassK at h
          have hne : (some (c, lv) : KeyState α).map (·.1) ≠ some gslices := by
            simp; exact hcgs
          simp only [hne, if_false] at h
          cases hg1 : getChangedK null sh (some (c, lv)) gslices with
          | error e => simp [hg1] at h
          | ok lv' =>
            cases hg2 : getChangedK null { sh with S := 1 } other gslices with
            | error e => simp [hg1, hg2] at h
            | ok ov' =>
              simp only [hg1, hg2] at h
              injection h with h; subst h
              obtain ⟨hl1, hk1⟩ := specS (some (c, lv)) gslices lv' (And.intro hcv hlv) (gslices_valid _) hg1
              obtain ⟨hl2, hk2⟩ := specO gslices ov' (gslices_valid _) hg2
              exact interleave_merge null sh wf hsl _ other lv' ov' hl1 hk1 hl2 hk2
end insert_slice_thm

/-! ### `_insert_sample`, `_insert_non_slice`, `_copy_sample` (models only; proofs follow the slice case) -/
section rest
variable {α : Type} [DecidableEq α]

end rest

section insert_sample_thm
variable {α : Type} [DecidableEq α]

omit [DecidableEq α] in
/-- appending is right when the merged coordinate is the slowest one of the class -/
theorem append_slow (lv ov : List α) (B k : Nat) (hl : lv.length = B * k) (ho : ov.length = B)
    (b : Nat) (hb : b < B) :
    (∀ m, m < k → (lv ++ ov)[b + B * m]? = lv[b + B * m]?) ∧
    (lv ++ ov)[b + B * k]? = ov[b]? := by
  constructor
  · intro m hm
    have : b + B * m < lv.length := by rw [hl]; exact lt_mul_of' _ _ _ _ hb hm
    exact List.getElem?_append_left this
  · rw [List.getElem?_append_right (by rw [hl]; omega), hl]
    congr 1; omega

/-- what `_get_changed_class` returns when the target class is not valid for the (lower
    dimensional) input: only constants / absent keys can be widened, and they give one value -/
theorem getChanged_invalid (null : α) (osh : Shp) (other : KeyState α) (hval : ValidK osh other)
    (new : Cls) (hnew : new ∉ validClasses osh) (hng : new ≠ gconst)
    (out : List α) (h : getChangedK null osh other new = .ok out) :
    (other = none ∧ out = [null]) ∨ (∃ x, other = some (gconst, [x]) ∧ out = [x]) ∨
    (∃ c vals, other = some (c, vals) ∧ c ≠ gconst) := by
  cases other with
  | none =>
    left
    unfold getChangedK at h
    simp only [Option.map_none] at h
    have hp : new ∈ preserving none := by cases new <;> simp [preserving]
    simp [hp, hnew, hng, repeatEach] at h
    exact ⟨rfl, h.symm⟩
  | some pr =>
    obtain ⟨c, vals⟩ := pr
    by_cases hcg : c = gconst
    · right; left
      subst hcg
      obtain ⟨_, hlen⟩ := hval
      simp only [mult] at hlen
      match vals, hlen with
      | [x], _ =>
        refine ⟨x, rfl, ?_⟩
        unfold getChangedK at h
        have hne : (some gconst : Option Cls) ≠ some new := by simp; exact fun e => hng e.symm
        simp only [Option.map_some, hne, if_false] at h
        by_cases hp : new ∈ preserving (some gconst)
        · simp [hp, hnew, hng, mult, perSlice, repeatEach] at h
          exact h.symm
        · simp [hp] at h
    · right; right; exact ⟨c, vals, rfl, hcg⟩


/-- `_insert_sample(…, 'time')` for 3-D inputs merged into a 4-D result. -/
theorem insertTime_lookup (null : α) (sh osh : Shp) (hs : TimeSetup sh osh)
    (c : Cls) (lv : List α) (other : KeyState α)
    (hself : ValidK sh (some (c, lv))) (hother : ValidK osh other) (r : KeyState α)
    (h : insertSampleK null true sh osh (some (c, lv)) other = .ok r) :
    ValidK { sh with T := sh.T + 1 } r ∧
    (∀ s t, s < sh.S → t < sh.T →
      lookupKS null { sh with T := sh.T + 1 } r s t 0 = lookupKS null sh (some (c, lv)) s t 0) ∧
    (∀ s, s < sh.S →
      lookupKS null { sh with T := sh.T + 1 } r s sh.T 0 = lookupKS null osh other s 0 0) := by
  obtain ⟨wf, hsl, nd4, v1, ond, oS, oT, oV, ohsl⟩ := hs
  obtain ⟨hcv, hlv⟩ := hself
  obtain ⟨hS, hT, hV⟩ := wf
  have wf : WF sh := ⟨hS, hT, hV⟩
  have wfo : WF osh := ⟨by omega, by omega, by omega⟩
  have hvs : validClasses sh = [gconst, gslices, tsamples, tslices] := by simp [validClasses, nd4]
  have hvs' : validClasses { sh with T := sh.T + 1 } = [gconst, gslices, tsamples, tslices] := by
    simp [validClasses, nd4]
  have hvo : validClasses osh = [gconst, gslices] := by simp [validClasses, ond]
  -- specs
  have specS : ∀ d out, d ∈ validClasses sh → getChangedK null sh (some (c, lv)) d = .ok out →
      out.length = mult sh d ∧ ∀ s t v, s < sh.S → t < sh.T → v < sh.V →
        out[proj sh s t v d]? = lookupKS null sh (some (c, lv)) s t v :=
    fun d out hd hg => getChanged_lookup null sh wf hsl (some (c, lv)) (And.intro hcv hlv) d hd out hg
  have specO : ∀ d out, d ∈ validClasses osh → getChangedK null osh other d = .ok out →
      out.length = mult osh d ∧ ∀ s t v, s < osh.S → t < osh.T → v < osh.V →
        out[proj osh s t v d]? = lookupKS null osh other s t v :=
    fun d out hd hg => getChanged_lookup null osh wfo ohsl other hother d hd out hg
  -- time samples of a 3-D input: one value, the constant (or null)
  have specOT : ∀ out, getChangedK null osh other tsamples = .ok out →
      out.length = 1 ∧ ∀ s, s < sh.S → out[0]? = lookupKS null osh other s 0 0 := by
    intro out hg
    rcases getChanged_invalid null osh other hother tsamples (by simp [hvo]) (by simp) out hg
      with ⟨ho, hout⟩ | ⟨x, ho, hout⟩ | ⟨c', vals, ho, hc'⟩
    · subst ho; subst hout; exact ⟨rfl, fun _ _ => rfl⟩
    · subst ho; subst hout; exact ⟨rfl, fun _ _ => by simp [lookupKS, proj]⟩
    · -- a non-constant class of a 3-D input cannot be widened to time samples
      subst ho
      have hc'v : c' ∈ validClasses osh := hother.1
      rw [hvo] at hc'v
      unfold getChangedK at hg
      cases c' <;> simp at hc'v hc'
      simp [preserving] at hg
  -- the two append patterns
  have appT : ∀ (lv' ov' : List α),
      lv'.length = sh.T →
      (∀ s t, s < sh.S → t < sh.T → lv'[t]? = lookupKS null sh (some (c, lv)) s t 0) →
      ov'.length = 1 → (∀ s, s < sh.S → ov'[0]? = lookupKS null osh other s 0 0) →
      ValidK { sh with T := sh.T + 1 } (some (tsamples, lv' ++ ov')) ∧
      (∀ s t, s < sh.S → t < sh.T →
        lookupKS null { sh with T := sh.T + 1 } (some (tsamples, lv' ++ ov')) s t 0
          = lookupKS null sh (some (c, lv)) s t 0) ∧
      (∀ s, s < sh.S →
        lookupKS null { sh with T := sh.T + 1 } (some (tsamples, lv' ++ ov')) s sh.T 0
          = lookupKS null osh other s 0 0) := by
    intro lv' ov' hl hlk ho hok
    refine ⟨⟨by rw [hvs']; simp, by simp [mult, v1, hl, ho]⟩, ?_, ?_⟩
    · intro s t hs ht
      simp only [lookupKS, proj, Nat.mul_zero, Nat.add_zero]
      rw [List.getElem?_append_left (by omega)]
      exact hlk s t hs ht
    · intro s hs
      simp only [lookupKS, proj, Nat.mul_zero, Nat.add_zero]
      rw [List.getElem?_append_right (by omega), hl, Nat.sub_self]
      exact hok s hs
  have appG : ∀ (lv' ov' : List α),
      lv'.length = mult sh gslices →
      (∀ s t v, s < sh.S → t < sh.T → v < sh.V →
        lv'[proj sh s t v gslices]? = lookupKS null sh (some (c, lv)) s t v) →
      ov'.length = mult osh gslices →
      (∀ s t v, s < osh.S → t < osh.T → v < osh.V →
        ov'[proj osh s t v gslices]? = lookupKS null osh other s t v) →
      ValidK { sh with T := sh.T + 1 } (some (gslices, lv' ++ ov')) ∧
      (∀ s t, s < sh.S → t < sh.T →
        lookupKS null { sh with T := sh.T + 1 } (some (gslices, lv' ++ ov')) s t 0
          = lookupKS null sh (some (c, lv)) s t 0) ∧
      (∀ s, s < sh.S →
        lookupKS null { sh with T := sh.T + 1 } (some (gslices, lv' ++ ov')) s sh.T 0
          = lookupKS null osh other s 0 0) := by
    intro lv' ov' hl hlk ho hok
    have hl' : lv'.length = sh.S * sh.T := by rw [hl]; simp [mult, hsl, v1]
    have ho' : ov'.length = sh.S := by rw [ho]; simp [mult, ohsl, oS, oT, oV]
    refine ⟨⟨gslices_valid _, by simp [mult, hsl, v1, hl', ho', Nat.mul_add]⟩, ?_, ?_⟩
    · intro s t hs ht
      have := hlk s t 0 hs ht (by omega)
      simp only [proj, Nat.mul_zero, Nat.add_zero] at this
      rw [← this]
      simp only [lookupKS, proj, Nat.mul_zero, Nat.add_zero]
      exact (append_slow lv' ov' sh.S sh.T hl' ho' s hs).1 t ht
    · intro s hs
      have := hok s 0 0 (by omega) (by omega) (by omega)
      simp only [proj, Nat.mul_zero, Nat.add_zero] at this
      rw [← this]
      simp only [lookupKS, proj, Nat.mul_zero, Nat.add_zero]
      exact (append_slow lv' ov' sh.S sh.T hl' ho' s hs).2
  unfold insertSampleK at h
  simp only [if_true] at h
  cases hgo : getChangedK null osh other c with
  | error e => simp [hgo] at h
  | ok ov =>
    simp only [hgo] at h
    by_cases hcg : c = gconst
    · subst hcg
      simp only [if_true] at h
      obtain ⟨hovl, hovk⟩ := specO gconst ov (by simp [hvo]) hgo
      by_cases heq : lv = ov
      · simp only [heq, if_true] at h
        injection h with h; subst h; subst heq
        refine ⟨⟨gconst_valid _, by simpa [mult] using hlv⟩, fun _ _ _ _ => rfl, ?_⟩
        intro s hs
        have := hovk s 0 0 (by omega) (by omega) (by omega)
        simpa [lookupKS, proj] using this
      · simp only [heq, if_false] at h
        unfold changeClassK at h
        simp only [Option.map_some, Option.some.injEq, reduceCtorEq, if_false] at h
        cases hg1 : getChangedK null sh (some (gconst, lv)) tsamples with
        | error e => simp [hg1] at h
        | ok lv' =>
          cases hg2 : getChangedK null osh other tsamples with
          | error e => simp [hg1, hg2] at h
          | ok ov' =>
            simp only [hg1, hg2] at h
            injection h with h; subst h
            obtain ⟨hl1, hk1⟩ := specS tsamples lv' (by simp [hvs]) hg1
            obtain ⟨hl2, hk2⟩ := specOT ov' hg2
            refine appT lv' ov' (by simpa [mult, v1] using hl1) ?_ hl2 hk2
            intro s t hs ht
            have := hk1 s t 0 hs ht (by omega)
            simpa [proj] using this
    · simp only [hcg, if_false] at h
      by_cases hct : c = tsamples
      · subst hct
        simp only [if_true] at h
        injection h with h; subst h
        obtain ⟨hl2, hk2⟩ := specOT ov hgo
        refine appT lv ov (by simpa [mult, v1] using hlv) ?_ hl2 hk2
        intro s t _ _; simp [lookupKS, proj]
      · simp only [hct, if_false] at h
        have hnd5 : (sh.nd == 5) = false := by simp [nd4]
        simp only [hnd5, Bool.and_false, Bool.false_eq_true, if_false] at h
        by_cases hcgs : c = gslices
        · subst hcgs
          simp only [if_true] at h
          injection h with h; subst h
          obtain ⟨hl2, hk2⟩ := specO gslices ov (by simp [hvo]) hgo
          exact appG lv ov hlv (fun _ _ _ _ _ _ => rfl) hl2 hk2
        · simp only [hcgs, if_false] at h
          unfold changeClassK at h
          have hne : (some (c, lv) : KeyState α).map (·.1) ≠ some gslices := by simp; exact hcgs
          simp only [hne, if_false] at h
          cases hg1 : getChangedK null sh (some (c, lv)) gslices with
          | error e => simp [hg1] at h
          | ok lv' =>
            cases hg2 : getChangedK null osh other gslices with
            | error e => simp [hg1, hg2] at h
            | ok ov' =>
              simp only [hg1, hg2] at h
              injection h with h; subst h
              obtain ⟨hl1, hk1⟩ := specS gslices lv' (gslices_valid _) hg1
              obtain ⟨hl2, hk2⟩ := specO gslices ov' (by simp [hvo]) hg2
              exact appG lv' ov' hl1 hk1 hl2 hk2


/-- `_insert_sample(…, 'vector')` for 3-D / 4-D inputs merged into a 5-D result. -/
theorem insertVector_lookup (null : α) (sh osh : Shp) (hs : VecSetup sh osh)
    (c : Cls) (lv : List α) (other : KeyState α)
    (hself : ValidK sh (some (c, lv))) (hother : ValidK osh other) (r : KeyState α)
    (h : insertSampleK null false sh osh (some (c, lv)) other = .ok r) :
    ValidK { sh with V := sh.V + 1 } r ∧
    (∀ s t v, s < sh.S → t < sh.T → v < sh.V →
      lookupKS null { sh with V := sh.V + 1 } r s t v = lookupKS null sh (some (c, lv)) s t v) ∧
    (∀ s t, s < sh.S → t < sh.T →
      lookupKS null { sh with V := sh.V + 1 } r s t sh.V = lookupKS null osh other s t 0) := by
  obtain ⟨wf, hsl, nd5, ohsl, oS, oT, oV, ond⟩ := hs
  obtain ⟨hcv, hlv⟩ := hself
  obtain ⟨hS, hT, hV⟩ := wf
  have wf : WF sh := ⟨hS, hT, hV⟩
  have wfo : WF osh := ⟨by omega, by omega, by omega⟩
  have hST : 0 < sh.S * sh.T := Nat.mul_pos hS hT
  have hvsamp : vsamples ∈ validClasses sh := by
    unfold validClasses; simp [nd5]; split <;> simp
  have hvsamp' : vsamples ∈ validClasses { sh with V := sh.V + 1 } := hvsamp
  have hvo_sub : ∀ d, d ∈ validClasses osh → d ∈ validClasses sh := by
    intro d hd
    unfold validClasses at hd ⊢
    rcases ond with ⟨h3, hT1⟩ | ⟨h4, hT1⟩
    · simp [h3] at hd; simp [nd5, hT1]; rcases hd with rfl | rfl <;> simp
    · simp [h4] at hd; simp [nd5, hT1]; rcases hd with rfl | rfl | rfl | rfl <;> simp
  have hvo_nvs : vsamples ∉ validClasses osh := by
    unfold validClasses
    rcases ond with ⟨h3, _⟩ | ⟨h4, _⟩
    · simp [h3]
    · simp [h4]
  have hvo_g : gslices ∈ validClasses osh := gslices_valid _
  have hvo_c : gconst ∈ validClasses osh := gconst_valid _
  have lt2' : ∀ s t, s < sh.S → t < sh.T → s + sh.S * t < sh.S * sh.T :=
    fun s t hs ht => lt_mul_of' _ _ _ _ hs ht
  have e3 : ∀ s t v, s + sh.S * (t + sh.T * v) = (s + sh.S * t) + (sh.S * sh.T) * v := by
    intro s t v; rw [Nat.mul_add, Nat.mul_assoc, Nat.add_assoc]
  have specS : ∀ d out, d ∈ validClasses sh → getChangedK null sh (some (c, lv)) d = .ok out →
      out.length = mult sh d ∧ ∀ s t v, s < sh.S → t < sh.T → v < sh.V →
        out[proj sh s t v d]? = lookupKS null sh (some (c, lv)) s t v :=
    fun d out hd hg =>
      getChanged_lookup null sh wf hsl (some (c, lv)) (And.intro hcv hlv) d hd out hg
  have specO : ∀ d out, d ∈ validClasses osh → getChangedK null osh other d = .ok out →
      out.length = mult osh d ∧ ∀ s t v, s < osh.S → t < osh.T → v < osh.V →
        out[proj osh s t v d]? = lookupKS null osh other s t v :=
    fun d out hd hg => getChanged_lookup null osh wfo ohsl other hother d hd out hg
  -- vector samples of a lower-dimensional input: one value, the constant (or null)
  have specOV : ∀ out, getChangedK null osh other vsamples = .ok out →
      out.length = 1 ∧ ∀ s t, s < sh.S → t < sh.T → out[0]? = lookupKS null osh other s t 0 := by
    intro out hg
    rcases getChanged_invalid null osh other hother vsamples hvo_nvs (by simp) out hg
      with ⟨ho, hout⟩ | ⟨x, ho, hout⟩ | ⟨c', vals, ho, hc'⟩
    · subst ho; subst hout; exact ⟨rfl, fun _ _ _ _ => rfl⟩
    · subst ho; subst hout; exact ⟨rfl, fun _ _ _ _ => by simp [lookupKS, proj]⟩
    · subst ho
      have hc'v : c' ∈ validClasses osh := hother.1
      by_cases hvs : c' = vsamples
      · subst hvs; exact absurd hc'v hvo_nvs
      · unfold getChangedK at hg
        cases c' <;> simp at hc' hvs <;> simp [preserving] at hg
  have appV : ∀ (lv' ov' : List α),
      lv'.length = sh.V →
      (∀ s t v, s < sh.S → t < sh.T → v < sh.V → lv'[v]? = lookupKS null sh (some (c, lv)) s t v) →
      ov'.length = 1 →
      (∀ s t, s < sh.S → t < sh.T → ov'[0]? = lookupKS null osh other s t 0) →
      ValidK { sh with V := sh.V + 1 } (some (vsamples, lv' ++ ov')) ∧
      (∀ s t v, s < sh.S → t < sh.T → v < sh.V →
        lookupKS null { sh with V := sh.V + 1 } (some (vsamples, lv' ++ ov')) s t v
          = lookupKS null sh (some (c, lv)) s t v) ∧
      (∀ s t, s < sh.S → t < sh.T →
        lookupKS null { sh with V := sh.V + 1 } (some (vsamples, lv' ++ ov')) s t sh.V
          = lookupKS null osh other s t 0) := by
    intro lv' ov' hl hlk ho hok
    refine ⟨⟨hvsamp', by simp [mult, hl, ho]⟩, ?_, ?_⟩
    · intro s t v hs ht hv
      rw [← hlk s t v hs ht hv]
      simp only [lookupKS, proj]
      exact List.getElem?_append_left (by omega)
    · intro s t hs ht
      rw [← hok s t hs ht]
      simp only [lookupKS, proj]
      rw [List.getElem?_append_right (by omega), hl, Nat.sub_self]
  have appG : ∀ (lv' ov' : List α),
      lv'.length = mult sh gslices →
      (∀ s t v, s < sh.S → t < sh.T → v < sh.V →
        lv'[proj sh s t v gslices]? = lookupKS null sh (some (c, lv)) s t v) →
      ov'.length = mult osh gslices →
      (∀ s t v, s < osh.S → t < osh.T → v < osh.V →
        ov'[proj osh s t v gslices]? = lookupKS null osh other s t v) →
      ValidK { sh with V := sh.V + 1 } (some (gslices, lv' ++ ov')) ∧
      (∀ s t v, s < sh.S → t < sh.T → v < sh.V →
        lookupKS null { sh with V := sh.V + 1 } (some (gslices, lv' ++ ov')) s t v
          = lookupKS null sh (some (c, lv)) s t v) ∧
      (∀ s t, s < sh.S → t < sh.T →
        lookupKS null { sh with V := sh.V + 1 } (some (gslices, lv' ++ ov')) s t sh.V
          = lookupKS null osh other s t 0) := by
    intro lv' ov' hl hlk ho hok
    have hl' : lv'.length = (sh.S * sh.T) * sh.V := by rw [hl]; simp [mult, hsl]
    have ho' : ov'.length = sh.S * sh.T := by rw [ho]; simp [mult, ohsl, oS, oT, oV]
    refine ⟨⟨gslices_valid _, by simp [mult, hsl, hl', ho', Nat.mul_add]⟩, ?_, ?_⟩
    · intro s t v hs ht hv
      have := hlk s t v hs ht hv
      simp only [proj] at this
      rw [← this]
      simp only [lookupKS, proj]
      rw [e3]
      exact (append_slow lv' ov' _ _ hl' ho' _ (lt2' s t hs ht)).1 v hv
    · intro s t hs ht
      have := hok s t 0 (by omega) (by omega) (by omega)
      simp only [proj, Nat.mul_zero, Nat.add_zero, oS] at this
      rw [← this]
      simp only [lookupKS, proj]
      rw [e3]
      exact (append_slow lv' ov' _ _ hl' ho' _ (lt2' s t hs ht)).2
  unfold insertSampleK at h
  simp only [Bool.false_eq_true, if_false, Bool.false_and] at h
  cases hgo : getChangedK null osh other c with
  | error e => simp [hgo] at h
  | ok ov =>
    simp only [hgo] at h
    by_cases hcg : c = gconst
    · subst hcg
      simp only [if_true] at h
      obtain ⟨hovl, hovk⟩ := specO gconst ov hvo_c hgo
      by_cases heq : lv = ov
      · simp only [heq, if_true] at h
        injection h with h; subst h; subst heq
        refine ⟨⟨gconst_valid _, by simpa [mult] using hlv⟩, fun _ _ _ _ _ _ => rfl, ?_⟩
        intro s t hs ht
        have := hovk s t 0 (by omega) (by omega) (by omega)
        simpa [lookupKS, proj] using this
      · simp only [heq, if_false] at h
        unfold changeClassK at h
        simp only [Option.map_some, Option.some.injEq, reduceCtorEq, if_false] at h
        cases hg1 : getChangedK null sh (some (gconst, lv)) vsamples with
        | error e => simp [hg1] at h
        | ok lv' =>
          cases hg2 : getChangedK null osh other vsamples with
          | error e => simp [hg1, hg2] at h
          | ok ov' =>
            simp only [hg1, hg2] at h
            injection h with h; subst h
            obtain ⟨hl1, hk1⟩ := specS vsamples lv' hvsamp hg1
            obtain ⟨hl2, hk2⟩ := specOV ov' hg2
            exact appV lv' ov' (by simpa [mult] using hl1)
              (fun s t v hs ht hv => by simpa [proj] using hk1 s t v hs ht hv) hl2 hk2
    · simp only [hcg, if_false] at h
      by_cases hct : c = vsamples
      · subst hct
        simp only [if_true] at h
        injection h with h; subst h
        obtain ⟨hl2, hk2⟩ := specOV ov hgo
        exact appV lv ov (by simpa [mult] using hlv)
          (fun s t v _ _ _ => by simp [lookupKS, proj]) hl2 hk2
      · simp only [hct, if_false] at h
        by_cases hcgs : c = gslices
        · subst hcgs
          simp only [if_true] at h
          injection h with h; subst h
          obtain ⟨hl2, hk2⟩ := specO gslices ov hvo_g hgo
          exact appG lv ov hlv (fun _ _ _ _ _ _ => rfl) hl2 hk2
        · simp only [hcgs, if_false] at h
          unfold changeClassK at h
          have hne : (some (c, lv) : KeyState α).map (·.1) ≠ some gslices := by simp; exact hcgs
          simp only [hne, if_false] at h
          cases hg1 : getChangedK null sh (some (c, lv)) gslices with
          | error e => simp [hg1] at h
          | ok lv' =>
            cases hg2 : getChangedK null osh other gslices with
            | error e => simp [hg1, hg2] at h
            | ok ov' =>
              simp only [hg1, hg2] at h
              injection h with h; subst h
              obtain ⟨hl1, hk1⟩ := specS gslices lv' (gslices_valid _) hg1
              obtain ⟨hl2, hk2⟩ := specO gslices ov' hvo_g hg2
              exact appG lv' ov' hl1 hk1 hl2 hk2
end insert_sample_thm

section reclassify_thm
variable {α : Type} [DecidableEq α]

/-- first loop of `_insert`: the key ends up present, valid, with unchanged lookups -/
theorem reclassify_spec (null : α) (sh : Shp) (wf : WF sh) (hsl : sh.hasSlice = true)
    (hbase : ∀ d, basePresent sh d = true → d ∈ validClasses sh)
    (self : KeyState α) (hself : ValidK sh self) (oc : Cls) (hoc : oc ∈ validClasses sh)
    (self' : KeyState α) (h : reclassifyK null sh self oc = .ok self') :
    (∃ c lv, self' = some (c, lv)) ∧ ValidK sh self' ∧
    ∀ s t v, s < sh.S → t < sh.T → v < sh.V →
      lookupKS null sh self' s t v = lookupKS null sh self s t v := by
  have change : ∀ d, d ∈ validClasses sh → self.map (·.1) ≠ some d →
      ∀ r, changeClassK null sh self d = .ok r →
      (∃ c lv, r = some (c, lv)) ∧ ValidK sh r ∧
      ∀ s t v, s < sh.S → t < sh.T → v < sh.V →
        lookupKS null sh r s t v = lookupKS null sh self s t v := by
    intro d hd hne r hr
    unfold changeClassK at hr
    simp only [hne, if_false] at hr
    cases hg : getChangedK null sh self d with
    | error e => simp [hg] at hr
    | ok v =>
      simp only [hg] at hr
      injection hr with hr; subst hr
      obtain ⟨hl, hk⟩ := getChanged_lookup null sh wf hsl self hself d hd v hg
      exact ⟨⟨d, v, rfl⟩, ⟨hd, hl⟩, fun s t v' hs ht hv => hk s t v' hs ht hv⟩
  unfold reclassifyK at h
  simp only at h
  by_cases h1 : self.map (·.1) = some oc
  · simp only [h1, if_true] at h
    injection h with h; subst h
    cases self with
    | none => simp at h1
    | some pr => exact ⟨⟨pr.1, pr.2, rfl⟩, hself, fun _ _ _ _ _ _ => rfl⟩
  · simp only [h1, if_false] at h
    by_cases h2 : oc ∈ preserving (self.map (·.1))
    · simp only [h2, if_true] at h
      exact change oc hoc h1 self' h
    · simp only [h2, if_false] at h
      by_cases h3 : (self.map (·.1)).any (· ∈ preserving (some oc)) = true
      · simp only [h3, if_true] at h
        injection h with h; subst h
        cases self with
        | none => simp at h3
        | some pr => exact ⟨⟨pr.1, pr.2, rfl⟩, hself, fun _ _ _ _ _ _ => rfl⟩
      · simp only [h3] at h
        cases hf : (preserving (self.map (·.1))).find?
            (fun d => basePresent sh d && decide (d ∈ preserving (some oc))) with
        | none => simp [hf] at h
        | some d =>
          simp only [hf] at h
          have hd := List.find?_some hf
          simp only [Bool.and_eq_true, decide_eq_true_eq] at hd
          have hmem := List.mem_of_find?_eq_some hf
          have hne : self.map (·.1) ≠ some d := by
            intro e
            rw [e] at hmem
            cases d <;> simp [preserving] at hmem
          exact change d (hbase d hd.1) hne self' h
end reclassify_thm

section merge_slice
variable {α : Type} [DecidableEq α]

theorem consistent_base (sh : Shp) (hc : Consistent sh) :
    ∀ d, basePresent sh d = true → d ∈ validClasses sh := by
  intro d hd
  have htm : sh.hasTime = true → tsamples ∈ validClasses sh ∧ tslices ∈ validClasses sh := by
    intro ht
    have h := hc.htime.mp ht
    unfold validClasses
    rcases hc.hnd with h3 | h4 | h5
    · omega
    · simp [h4]
    · simp [h5, h.2]
  have hvm : sh.hasVector = true → vsamples ∈ validClasses sh ∧ vslices ∈ validClasses sh := by
    intro hv
    have h := hc.hvec.mp hv
    unfold validClasses
    by_cases hT1 : sh.T = 1
    · simp [h, hT1]
    · simp [h, hT1]
  cases d with
  | gconst => exact gconst_valid sh
  | gslices => exact gslices_valid sh
  | tsamples => exact (htm hd).1
  | tslices => exact (htm hd).2
  | vsamples => exact (hvm hd).1
  | vslices => exact (hvm hd).2

theorem stepSlice_lookup (null : α) (sh : Shp) (hc : Consistent sh)
    (self b : KeyState α) (hself : ValidK sh self) (hb : ValidK { sh with S := 1 } b)
    (r : KeyState α) (h : stepSliceK null sh self b = .ok r) :
    ValidK { sh with S := sh.S + 1 } r ∧
    (∀ s t v, s < sh.S → t < sh.T → v < sh.V →
      lookupKS null { sh with S := sh.S + 1 } r s t v = lookupKS null sh self s t v) ∧
    (∀ t v, t < sh.T → v < sh.V →
      lookupKS null { sh with S := sh.S + 1 } r sh.S t v =
        lookupKS null { sh with S := 1 } b 0 t v) := by
  unfold stepSliceK at h
  by_cases hnn : self = none ∧ b = none
  · simp only [hnn, and_self, if_true] at h
    injection h with h; subst h
    obtain ⟨rfl, rfl⟩ := hnn
    exact ⟨trivial, fun _ _ _ _ _ _ => rfl, fun _ _ _ _ => rfl⟩
  · simp only [hnn, if_false] at h
    have wf : WF sh := hc.toWFnd.toWF
    have hoc : otherClass b ∈ validClasses sh := by
      cases b with
      | none => exact gconst_valid sh
      | some pr => exact hb.1
    cases hr : reclassifyK null sh self (otherClass b) with
    | error e => simp [hr] at h
    | ok a1 =>
      simp only [hr] at h
      obtain ⟨⟨c, lv, rfl⟩, hv1, hk1⟩ :=
        reclassify_spec null sh wf hc.hsl (consistent_base sh hc) self hself _ hoc a1 hr
      obtain ⟨hv2, hk2, hk3⟩ := insertSlice_lookup null sh hc c lv b hv1 hb r h
      exact ⟨hv2, fun s t v hs ht hv => by rw [hk2 s t v hs ht hv, hk1 s t v hs ht hv], hk3⟩

/-- **Merging along the slice axis is concatenation** (per key, before the final simplify):
    after `k` inputs have been absorbed and the remaining ones are folded in, slice `i` of the
    result reads input `i`. -/
theorem foldSlice_lookup (null : α) (sh1 : Shp) (hc1 : Consistent sh1)
    (rest : List (KeyState α)) :
    ∀ (k : Nat) (done : List (KeyState α)) (acc r : KeyState α),
      0 < k → done.length = k →
      ValidK { sh1 with S := k } acc →
      (∀ i t v, i < k → t < sh1.T → v < sh1.V →
        lookupKS null { sh1 with S := k } acc i t v =
          lookupKS null { sh1 with S := 1 } (done[i]?.getD none) 0 t v) →
      (∀ b, b ∈ rest → ValidK { sh1 with S := 1 } b) →
      foldSliceK null sh1 k acc rest = .ok r →
      ValidK { sh1 with S := k + rest.length } r ∧
      ∀ i t v, i < k + rest.length → t < sh1.T → v < sh1.V →
        lookupKS null { sh1 with S := k + rest.length } r i t v =
          lookupKS null { sh1 with S := 1 } ((done ++ rest)[i]?.getD none) 0 t v := by
  induction rest with
  | nil =>
    intro k done acc r _ hlen hv hlk _ h
    simp only [foldSliceK] at h
    injection h with h; subst h
    simp only [List.length_nil, Nat.add_zero, List.append_nil]
    exact ⟨hv, hlk⟩
  | cons b rest ih =>
    intro k done acc r hk hlen hv hlk hrest h
    simp only [foldSliceK] at h
    cases hs : stepSliceK null { sh1 with S := k } acc b with
    | error e => simp [hs] at h
    | ok acc' =>
      simp only [hs] at h
      have hck : Consistent { sh1 with S := k } :=
        { hS := hk, hT := hc1.hT, hV := hc1.hV, hnd := hc1.hnd, h3 := hc1.h3, h4 := hc1.h4,
          hsl := hc1.hsl, htime := hc1.htime, hvec := hc1.hvec, trimmed4 := hc1.trimmed4 }
      obtain ⟨hv', hk2, hk3⟩ :=
        stepSlice_lookup null { sh1 with S := k } hck acc b hv
          (hrest b List.mem_cons_self) acc' hs
      have := ih (k + 1) (done ++ [b]) acc' r (by omega) (by simp [hlen]) hv'
        (by
          intro i t v hi ht hvv
          by_cases hik : i < k
          · rw [hk2 i t v hik ht hvv, hlk i t v hik ht hvv]
            rw [List.getElem?_append_left (by omega)]
          · have : i = k := by omega
            subst this
            rw [hk3 t v ht hvv]
            rw [List.getElem?_append_right (by omega), hlen, Nat.sub_self]
            rfl)
        (fun b' hb' => hrest b' (List.mem_cons_of_mem _ hb')) h
      simp only [List.length_cons, List.append_assoc, List.singleton_append] at this ⊢
      rw [show k + (rest.length + 1) = k + 1 + rest.length by omega]
      exact this
end merge_slice

section merge_slice_final
variable {α : Type} [DecidableEq α]

/-- **C03, slice axis, per key:** position `i` of the merged result reads input `i`
    (`null` where the input lacks the key) — any number of inputs, any consistent shape. -/
theorem mergeSlice_lookup (null : α) (sh1 : Shp) (hc1 : Consistent sh1)
    (inputs : List (KeyState α)) (hin : ∀ b, b ∈ inputs → ValidK { sh1 with S := 1 } b)
    (r : KeyState α) (h : mergeSliceK null sh1 inputs = .ok r) :
    ∀ i t v, i < inputs.length → t < sh1.T → v < sh1.V →
      lookupKS null { sh1 with S := inputs.length } r i t v =
        lookupKS null { sh1 with S := 1 } (inputs[i]?.getD none) 0 t v := by
  cases inputs with
  | nil => simp [mergeSliceK] at h
  | cons a rest =>
    simp only [mergeSliceK] at h
    cases hf : foldSliceK null sh1 1 a rest with
    | error e => simp [hf] at h
    | ok r0 =>
      simp only [hf] at h
      have hbase : ∀ i t v, i < 1 → t < sh1.T → v < sh1.V →
          lookupKS null { sh1 with S := 1 } a i t v =
            lookupKS null { sh1 with S := 1 } ([a][i]?.getD none) 0 t v := by
        intro i t v hi _ _
        have : i = 0 := by omega
        subst this; rfl
      obtain ⟨hv0, hk0⟩ := foldSlice_lookup null sh1 hc1 rest 1 [a] a r0 (by omega) rfl
        (hin a List.mem_cons_self) hbase
        (fun b hb => hin b (List.mem_cons_of_mem _ hb)) hf
      have hlen : (a :: rest).length = 1 + rest.length := by simp; omega
      rw [hlen]
      -- final simplification keeps every lookup
      have keep : ∀ i t v, i < 1 + rest.length → t < sh1.T → v < sh1.V →
          lookupKS null { sh1 with S := 1 + rest.length } r i t v =
            lookupKS null { sh1 with S := 1 + rest.length } r0 i t v := by
        intro i t v hi ht hv
        cases r0 with
        | none => simp at h; subst h; rfl
        | some pr =>
          obtain ⟨c, vals⟩ := pr
          by_cases hg : c = gslices
          · subst hg
            simp only [applySimplify] at h
            cases hs : simplifyK null { sh1 with S := 1 + rest.length } gslices vals with
            | error e => simp [hs] at h
            | ok o =>
              cases o with
              | unchanged => simp [hs] at h; subst h; rfl
              | deleted =>
                -- `deleted` only happens for global constants
                unfold simplifyK at hs
                simp at hs
                split at hs <;> (try split at hs) <;> simp at hs
              | moved d out =>
                simp [hs] at h; subst h
                have wfn : WF { sh1 with S := 1 + rest.length } :=
                  ⟨by simp; omega, hc1.hT, hc1.hV⟩
                exact simplify_lookup null _ wfn gslices vals hc1.hsl hv0.2 d out hs
                  (by simp) i t v hi ht hv
          · have : r = some (c, vals) := by
              cases c <;> simp at hg <;> simp at h <;> exact h.symm
            subst this; rfl
      intro i t v hi ht hv
      rw [keep i t v hi ht hv]
      exact hk0 i t v hi ht hv
end merge_slice_final


section copy_sample_thm
variable {α : Type} [DecidableEq α]

omit [DecidableEq α] in
/-- blocks of equal size laid end to end -/
theorem getElem?_flatMap_range (S : Nat) (f : Nat → List α) :
    ∀ (V : Nat), (∀ v, v < V → (f v).length = S) →
    ∀ v s, v < V → s < S → ((List.range V).flatMap f)[s + S * v]? = (f v)[s]? := by
  intro V
  induction V with
  | zero => intro _ v s hv; omega
  | succ V ih =>
    intro hlen v s hv hs
    rw [List.range_succ, List.flatMap_append]
    have hl : ((List.range V).flatMap f).length = S * V := by
      clear ih hv
      induction V with
      | zero => simp
      | succ V ih2 =>
        rw [List.range_succ, List.flatMap_append, List.length_append,
          ih2 (fun v hv => hlen v (by omega))]
        simp [hlen V (by omega), Nat.mul_succ]
    by_cases hvV : v < V
    · rw [List.getElem?_append_left (by rw [hl]; exact lt_mul_of' _ _ _ _ hs hvV)]
      exact ih (fun v hv => hlen v (by omega)) v s hvV hs
    · have : v = V := by omega
      subst this
      rw [List.getElem?_append_right (by rw [hl]; omega), hl]
      simp [show s + S * v - S * v = s by omega]

omit [DecidableEq α] in
theorem getElem?_drop_take (l : List α) (a n i : Nat) (hi : i < n) :
    ((l.drop a).take n)[i]? = l[a + i]? := by
  rw [List.getElem?_take_of_lt hi, List.getElem?_drop]

/-- `_copy_sample(…, 'time', idx)`: every non-constant class, before the `_simplify` calls -/
theorem copySampleTime_lookup (sh : Shp) (hc : Consistent sh) (h45 : sh.nd = 4 ∨ sh.nd = 5)
    (hV2 : sh.nd = 5 → 2 ≤ sh.V)
    (c : Cls) (hcg : c ≠ gconst) (vals : List α) (hv : ValidK sh (some (c, vals)))
    (idx : Nat) (hidx : idx < sh.T) :
    let rs := timeSubsetShp sh
    let out := copySampleK sh rs true idx c vals
    ValidK rs (some (out.1, out.2.1)) ∧
    ∀ s v, s < sh.S → v < sh.V →
      lookupK rs out.1 out.2.1 s 0 v = lookupK sh c vals s idx v := by
  obtain ⟨hcv, hlen⟩ := hv
  have hS := hc.hS; have hT := hc.hT; have hV := hc.hV
  have hsl := hc.hsl
  intro rs out
  rcases h45 with h4 | h5
  · -- 4-D parent: result is 3-D
    have hV1 := hc.h4 h4
    have hrs : rs = { sh with nd := 3, T := 1, hasTime := false, hasVector := false } := by
      simp [rs, timeSubsetShp, h4]
    have hvr : validClasses rs = [gconst, gslices] := by rw [hrs]; simp [validClasses]
    have hvs : validClasses sh = [gconst, gslices, tsamples, tslices] := by
      simp [validClasses, h4]
    rw [hvs] at hcv
    have hout : out = copySampleK sh rs true idx c vals := rfl
    cases c <;> simp at hcv hcg
    · -- gslices : one volume of global slices
      have : out = (gslices, (vals.drop (idx * sh.S)).take sh.S, true) := by
        rw [hout]; simp [copySampleK, globalSliceSubset, hvs]
      rw [this]
      refine ⟨⟨by rw [hvr]; simp, ?_⟩, ?_⟩
      · have hl : vals.length = sh.S * sh.T := by rw [hlen]; simp [mult, hsl, hV1]
        rw [hrs]; simp only [mult, hsl, if_true, Nat.mul_one, hV1]
        rw [List.length_take, List.length_drop, hl]
        have : sh.S ≤ sh.S * sh.T - idx * sh.S := by
          have : idx * sh.S + sh.S ≤ sh.S * sh.T := by
            calc idx * sh.S + sh.S = sh.S * (idx + 1) := by rw [Nat.mul_add, Nat.mul_one, Nat.mul_comm]
              _ ≤ sh.S * sh.T := Nat.mul_le_mul_left _ hidx
          omega
        exact Nat.min_eq_left this
      · intro s v hs hv
        have hv0 : v = 0 := by omega
        subst hv0
        simp only [lookupK, proj, hrs, Nat.mul_zero, Nat.add_zero]
        rw [getElem?_drop_take _ _ _ _ hs, Nat.mul_comm idx, Nat.add_comm]
    · -- tsamples → global const
      have : out = (gconst, (vals[idx]?).toList, false) := by
        rw [hout]; simp [copySampleK, hvr, mult]
      rw [this]
      have hl : vals.length = sh.T := by rw [hlen]; simp [mult, hV1]
      refine ⟨⟨by rw [hvr]; simp, by simp [mult, List.getElem?_eq_getElem (hl ▸ hidx)]⟩, ?_⟩
      intro s v hs hv
      have hv0 : v = 0 := by omega
      subst hv0
      simp [lookupK, proj, List.getElem?_eq_getElem (hl ▸ hidx)]
    · -- tslices → global slices of the 3-D result
      have hf : (preserving (some tslices)).find? (· ∈ validClasses rs) = some gslices := by
        rw [hvr]; simp [preserving, List.find?]
      have : out = (gslices, vals, false) := by
        rw [hout]; simp [copySampleK, hf]
      rw [this]
      refine ⟨⟨by rw [hvr]; simp, by rw [hlen, hrs]; simp [mult, hsl, hV1]⟩, ?_⟩
      intro s v hs hv
      have hv0 : v = 0 := by omega
      subst hv0
      simp [lookupK, proj, hrs]
  · -- 5-D parent: result stays 5-D with a singleton time axis
    have hV2' := hV2 h5
    have hrs : rs = { sh with T := 1, hasTime := false } := by
      simp [rs, timeSubsetShp, h5]
    have hvr : validClasses rs = [gconst, gslices, vsamples, vslices] := by
      rw [hrs]; simp [validClasses, h5]
    have hvsv : vsamples ∈ validClasses sh := by
      unfold validClasses; simp [h5]; split <;> simp
    have hout : out = copySampleK sh rs true idx c vals := rfl
    have hblock : idx * sh.S + sh.S ≤ sh.S * sh.T := by
      calc idx * sh.S + sh.S = sh.S * (idx + 1) := by rw [Nat.mul_add, Nat.mul_one, Nat.mul_comm]
        _ ≤ sh.S * sh.T := Nat.mul_le_mul_left _ hidx
    cases c <;> simp at hcg
    · -- gslices : gather the time point out of every vector component
      have hl : vals.length = (sh.S * sh.T) * sh.V := by rw [hlen]; simp [mult, hsl]
      let f : Nat → List α := fun vec =>
        (vals.drop (vec * (sh.S * sh.T) + idx * sh.S)).take sh.S
      have hfl : ∀ v, v < sh.V → (f v).length = sh.S := by
        intro v hv
        simp only [f, List.length_take, List.length_drop, hl]
        have : v * (sh.S * sh.T) + sh.S * sh.T ≤ sh.S * sh.T * sh.V := by
          calc v * (sh.S * sh.T) + sh.S * sh.T = sh.S * sh.T * (v + 1) := by
                rw [Nat.mul_add, Nat.mul_one, Nat.mul_comm]
            _ ≤ sh.S * sh.T * sh.V := Nat.mul_le_mul_left _ hv
        exact Nat.min_eq_left (by omega)
      have : out = (gslices, (List.range sh.V).flatMap f, true) := by
        rw [hout]; simp [copySampleK, globalSliceSubset, hvsv, f]
      rw [this]
      refine ⟨⟨by rw [hvr]; simp, ?_⟩, ?_⟩
      · have hfm : ∀ V, (∀ v, v < V → (f v).length = sh.S) →
            ((List.range V).flatMap f).length = sh.S * V := by
          intro V
          induction V with
          | zero => intro _; simp
          | succ V ih =>
            intro h
            rw [List.range_succ, List.flatMap_append, List.length_append,
              ih (fun v hv => h v (by omega))]
            simp [h V (by omega), Nat.mul_succ]
        rw [hfm sh.V hfl, hrs]; simp [mult, hsl]
      · intro s v hs hv
        simp only [lookupK, proj, hrs, Nat.one_mul, Nat.zero_add]
        rw [getElem?_flatMap_range sh.S f sh.V hfl v s hv hs]
        simp only [f]
        rw [getElem?_drop_take _ _ _ _ hs]
        congr 1
        have e1 : v * (sh.S * sh.T) = sh.S * (sh.T * v) := by rw [Nat.mul_comm, Nat.mul_assoc]
        have e2 : idx * sh.S = sh.S * idx := Nat.mul_comm _ _
        rw [e1, e2, Nat.mul_add]; omega
    · -- tsamples → vector samples
      have hT1 : sh.T ≠ 1 := by
        intro e; unfold validClasses at hcv; simp [h5, e] at hcv
      have hl : vals.length = sh.T * sh.V := by rw [hlen]; simp [mult]
      have hm : mult rs vsamples = sh.V := by rw [hrs]; simp [mult]
      have : out = (vsamples, stride sh.T (vals.drop idx), true) := by
        rw [hout]
        have hne : sh.V ≠ 1 := by omega
        simp [copySampleK, hvr, hm, hne]
      rw [this]
      refine ⟨⟨by rw [hvr]; simp, by rw [hm]; exact length_stride_drop sh.T sh.V idx hidx vals hl⟩, ?_⟩
      intro s v hs hv
      simp only [lookupK, proj]
      rw [getElem?_sub _ _ _ hT, Nat.mul_comm]
    · -- tslices → vector slices of the result
      have hf : (preserving (some tslices)).find? (· ∈ validClasses rs) = some vslices := by
        rw [hvr]; simp [preserving, List.find?]
      have : out = (vslices, vals, false) := by
        rw [hout]; simp [copySampleK, hf]
      rw [this]
      refine ⟨⟨by rw [hvr]; simp, by rw [hlen, hrs]; simp [mult, hsl]⟩, ?_⟩
      intro s v hs hv
      simp [lookupK, proj, hrs]
    · -- vsamples unchanged
      have : out = (vsamples, vals, false) := by
        rw [hout]; simp [copySampleK]
      rw [this]
      refine ⟨⟨by rw [hvr]; simp, by rw [hlen, hrs]; simp [mult]⟩, ?_⟩
      intro s v hs hv
      simp [lookupK, proj]
    · -- vslices : one time point of the vector slices
      have hl : vals.length = sh.S * sh.T := by rw [hlen]; simp [mult, hsl]
      have hrS : rs.S = sh.S := by rw [hrs]
      have : out = (vslices, (vals.drop (idx * sh.S)).take sh.S, true) := by
        rw [hout]; simp [copySampleK, hrS]
      rw [this]
      refine ⟨⟨by rw [hvr]; simp, ?_⟩, ?_⟩
      · rw [hrs]; simp only [mult, hsl, if_true, Nat.mul_one]
        rw [List.length_take, List.length_drop, hl]
        exact Nat.min_eq_left (by omega)
      · intro s v hs hv
        simp only [lookupK, proj, hrs, Nat.mul_zero, Nat.add_zero]
        rw [getElem?_drop_take _ _ _ _ hs, Nat.mul_comm idx, Nat.add_comm]

/-- `_copy_sample(…, 'vector', idx)`: every non-constant class, before the `_simplify` calls -/
theorem copySampleVec_lookup (sh : Shp) (hc : Consistent sh) (h5 : sh.nd = 5)
    (c : Cls) (hcg : c ≠ gconst) (vals : List α) (hv : ValidK sh (some (c, vals)))
    (idx : Nat) (hidx : idx < sh.V) :
    let rs := vecSubsetShp sh
    let out := copySampleK sh rs false idx c vals
    ValidK rs (some (out.1, out.2.1)) ∧
    ∀ s t, s < sh.S → t < sh.T →
      lookupK rs out.1 out.2.1 s t 0 = lookupK sh c vals s t idx := by
  obtain ⟨hcv, hlen⟩ := hv
  have hS := hc.hS; have hT := hc.hT; have hV := hc.hV
  have hsl := hc.hsl
  have hST : 0 < sh.S * sh.T := Nat.mul_pos hS hT
  intro rs out
  have hout : out = copySampleK sh rs false idx c vals := rfl
  have hrsS : rs.S = sh.S := by simp only [rs, vecSubsetShp]; split <;> rfl
  have hrsT : rs.T = sh.T := by simp only [rs, vecSubsetShp]; split <;> rfl
  have hrsV : rs.V = 1 := by simp only [rs, vecSubsetShp]; split <;> rfl
  have hrsl : rs.hasSlice = true := by simp only [rs, vecSubsetShp]; split <;> exact hsl
  have hgv : gslices ∈ validClasses rs := gslices_valid _
  have hcvr : gconst ∈ validClasses rs := gconst_valid _
  have lt2' : ∀ s t, s < sh.S → t < sh.T → s + sh.S * t < sh.S * sh.T :=
    fun s t hs ht => lt_mul_of' _ _ _ _ hs ht
  have hvalidT : sh.T ≠ 1 → tsamples ∈ validClasses rs ∧ tslices ∈ validClasses rs := by
    intro hT1; simp [rs, vecSubsetShp, hT1, validClasses]
  have hblk : idx * (sh.S * sh.T) + sh.S * sh.T ≤ sh.S * sh.T * sh.V := by
    calc idx * (sh.S * sh.T) + sh.S * sh.T = sh.S * sh.T * (idx + 1) := by
          rw [Nat.mul_add, Nat.mul_one, Nat.mul_comm]
      _ ≤ sh.S * sh.T * sh.V := Nat.mul_le_mul_left _ hidx
  cases c <;> simp at hcg
  · -- gslices : one vector component
    have hl : vals.length = sh.S * sh.T * sh.V := by rw [hlen]; simp [mult, hsl]
    have : out = (gslices, (vals.drop (idx * (sh.S * sh.T))).take (sh.S * sh.T), true) := by
      rw [hout]; simp [copySampleK, globalSliceSubset]
    rw [this]
    refine ⟨⟨hgv, ?_⟩, ?_⟩
    · simp only [mult, hrsl, if_true, hrsS, hrsT, hrsV, Nat.mul_one]
      rw [List.length_take, List.length_drop, hl]
      exact Nat.min_eq_left (by omega)
    · intro s t hs ht
      simp only [lookupK, proj, hrsS, hrsT, Nat.mul_zero, Nat.add_zero]
      rw [getElem?_drop_take _ _ _ _ (lt2' s t hs ht)]
      congr 1
      have e1 : idx * (sh.S * sh.T) = sh.S * (sh.T * idx) := by rw [Nat.mul_comm, Nat.mul_assoc]
      rw [e1, Nat.mul_add]; omega
  · -- tsamples : the time samples of one vector component
    have hT1 : sh.T ≠ 1 := by
      intro e; unfold validClasses at hcv; simp [h5, e] at hcv
    have hl : vals.length = sh.T * sh.V := by rw [hlen]; simp [mult]
    have hm : mult rs tsamples = sh.T := by simp [mult, hrsT, hrsV]
    have : out = (tsamples, (vals.drop (idx * sh.T)).take sh.T, true) := by
      rw [hout]; simp [copySampleK, hm]
    rw [this]
    have hb : idx * sh.T + sh.T ≤ sh.T * sh.V := by
      calc idx * sh.T + sh.T = sh.T * (idx + 1) := by rw [Nat.mul_add, Nat.mul_one, Nat.mul_comm]
        _ ≤ sh.T * sh.V := Nat.mul_le_mul_left _ hidx
    refine ⟨⟨(hvalidT hT1).1, ?_⟩, ?_⟩
    · rw [hm, List.length_take, List.length_drop, hl]
      exact Nat.min_eq_left (by omega)
    · intro s t hs ht
      simp only [lookupK, proj, hrsT, Nat.mul_zero, Nat.add_zero]
      rw [getElem?_drop_take _ _ _ _ ht, Nat.mul_comm idx, Nat.add_comm]
  · -- tslices unchanged
    have hT1 : sh.T ≠ 1 := by
      intro e; unfold validClasses at hcv; simp [h5, e] at hcv
    have : out = (tslices, vals, false) := by
      rw [hout]; simp [copySampleK]
    rw [this]
    refine ⟨⟨(hvalidT hT1).2, by rw [hlen]; simp [mult, hsl, hrsl, hrsS]⟩, ?_⟩
    intro s t hs ht
    simp [lookupK, proj]
  · -- vsamples → global const
    have hl : vals.length = sh.V := by rw [hlen]; simp [mult]
    have : out = (gconst, (vals[idx]?).toList, false) := by
      rw [hout]; simp [copySampleK, mult]
    rw [this]
    refine ⟨⟨hcvr, by simp [mult, List.getElem?_eq_getElem (hl ▸ hidx)]⟩, ?_⟩
    intro s t hs ht
    simp [lookupK, proj, List.getElem?_eq_getElem (hl ▸ hidx)]
  · -- vslices → global slices of the result
    have hf : (preserving (some vslices)).find? (· ∈ validClasses rs) = some gslices := by
      simp [preserving, List.find?, hgv]
    have : out = (gslices, vals, false) := by
      rw [hout]; simp [copySampleK, hf]
    rw [this]
    refine ⟨⟨hgv, by rw [hlen]; simp [mult, hsl, hrsl, hrsS, hrsT, hrsV]⟩, ?_⟩
    intro s t hs ht
    simp [lookupK, proj, hrsS, hrsT]
end copy_sample_thm


section generic_fold
variable {α : Type} [DecidableEq α]

/-- If every step keeps the positions already merged and puts the new input at position `k`,
    then after the loop position `i` reads input `i` — for any number of inputs. -/
theorem foldK_lookup {β : Type}
    (step : Nat → KeyState α → KeyState α → Except Err (KeyState α))
    (Valid : Nat → KeyState α → Prop) (ValidIn : KeyState α → Prop)
    (L : Nat → KeyState α → Nat → β → Option α) (LI : KeyState α → β → Option α)
    (P : β → Prop)
    (hstep : ∀ k acc b r, 0 < k → Valid k acc → ValidIn b → step k acc b = .ok r →
      Valid (k + 1) r ∧ (∀ i x, i < k → P x → L (k + 1) r i x = L k acc i x) ∧
      (∀ x, P x → L (k + 1) r k x = LI b x))
    (rest : List (KeyState α)) :
    ∀ (k : Nat) (done : List (KeyState α)) (acc r : KeyState α),
      0 < k → done.length = k → Valid k acc →
      (∀ i x, i < k → P x → L k acc i x = LI (done[i]?.getD none) x) →
      (∀ b, b ∈ rest → ValidIn b) →
      foldK step k acc rest = .ok r →
      Valid (k + rest.length) r ∧
      ∀ i x, i < k + rest.length → P x →
        L (k + rest.length) r i x = LI ((done ++ rest)[i]?.getD none) x := by
  induction rest with
  | nil =>
    intro k done acc r _ hlen hv hlk _ h
    simp only [foldK] at h
    injection h with h; subst h
    simp only [List.length_nil, Nat.add_zero, List.append_nil]
    exact ⟨hv, hlk⟩
  | cons b rest ih =>
    intro k done acc r hk hlen hv hlk hrest h
    simp only [foldK] at h
    cases hs : step k acc b with
    | error e => simp [hs] at h
    | ok acc' =>
      simp only [hs] at h
      obtain ⟨hv', hk2, hk3⟩ := hstep k acc b acc' hk hv (hrest b List.mem_cons_self) hs
      have := ih (k + 1) (done ++ [b]) acc' r (by omega) (by simp [hlen]) hv'
        (by
          intro i x hi hx
          by_cases hik : i < k
          · rw [hk2 i x hik hx, hlk i x hik hx, List.getElem?_append_left (by omega)]
          · have : i = k := by omega
            subst this
            rw [hk3 x hx, List.getElem?_append_right (by omega), hlen, Nat.sub_self]
            rfl)
        (fun b' hb' => hrest b' (List.mem_cons_of_mem _ hb')) h
      simp only [List.length_cons, List.append_assoc, List.singleton_append] at this ⊢
      rw [show k + (rest.length + 1) = k + 1 + rest.length by omega]
      exact this
end generic_fold

section merge_samples
variable {α : Type} [DecidableEq α]

theorem stepTime_lookup (null : α) (sh osh : Shp) (hs : TimeSetup sh osh)
    (hvec : sh.hasVector = false)
    (self b : KeyState α) (hself : ValidK sh self) (hb : ValidK osh b)
    (r : KeyState α) (h : stepSampleK null true sh osh self b = .ok r) :
    ValidK { sh with T := sh.T + 1 } r ∧
    (∀ s t, s < sh.S → t < sh.T →
      lookupKS null { sh with T := sh.T + 1 } r s t 0 = lookupKS null sh self s t 0) ∧
    (∀ s, s < sh.S →
      lookupKS null { sh with T := sh.T + 1 } r s sh.T 0 = lookupKS null osh b s 0 0) := by
  unfold stepSampleK at h
  by_cases hnn : self = none ∧ b = none
  · simp only [hnn, and_self, if_true] at h
    injection h with h; subst h
    obtain ⟨rfl, rfl⟩ := hnn
    exact ⟨trivial, fun _ _ _ _ => rfl, fun _ _ => rfl⟩
  · simp only [hnn, if_false] at h
    have hvs : validClasses sh = [gconst, gslices, tsamples, tslices] := by
      simp [validClasses, hs.nd4]
    have hvo : validClasses osh = [gconst, gslices] := by simp [validClasses, hs.ond]
    have hbase : ∀ d, basePresent sh d = true → d ∈ validClasses sh := by
      intro d hd; rw [hvs]
      cases d <;> simp [basePresent, hvec] at hd ⊢
    have hoc : otherClass b ∈ validClasses sh := by
      cases b with
      | none => exact gconst_valid sh
      | some pr =>
        have := hb.1; rw [hvo] at this; rw [hvs]
        simp only [otherClass]
        rcases List.mem_cons.mp this with e | e
        · rw [e]; simp
        · rcases List.mem_cons.mp e with e | e
          · rw [e]; simp
          · simp at e
    cases hr : reclassifyK null sh self (otherClass b) with
    | error e => simp [hr] at h
    | ok a1 =>
      simp only [hr] at h
      obtain ⟨⟨c, lv, rfl⟩, hv1, hk1⟩ :=
        reclassify_spec null sh hs.wf hs.hsl hbase self hself _ hoc a1 hr
      obtain ⟨hv2, hk2, hk3⟩ := insertTime_lookup null sh osh hs c lv b hv1 hb r h
      refine ⟨hv2, fun s t hs' ht => ?_, hk3⟩
      rw [hk2 s t hs' ht, hk1 s t 0 hs' ht (by rw [hs.v1]; omega)]

theorem stepVector_lookup (null : α) (sh osh : Shp) (hs : VecSetup sh osh)
    (hvec : sh.hasVector = true) (htime : sh.hasTime = true → sh.T ≠ 1)
    (self b : KeyState α) (hself : ValidK sh self) (hb : ValidK osh b)
    (r : KeyState α) (h : stepSampleK null false sh osh self b = .ok r) :
    ValidK { sh with V := sh.V + 1 } r ∧
    (∀ s t v, s < sh.S → t < sh.T → v < sh.V →
      lookupKS null { sh with V := sh.V + 1 } r s t v = lookupKS null sh self s t v) ∧
    (∀ s t, s < sh.S → t < sh.T →
      lookupKS null { sh with V := sh.V + 1 } r s t sh.V = lookupKS null osh b s t 0) := by
  unfold stepSampleK at h
  by_cases hnn : self = none ∧ b = none
  · simp only [hnn, and_self, if_true] at h
    injection h with h; subst h
    obtain ⟨rfl, rfl⟩ := hnn
    exact ⟨trivial, fun _ _ _ _ _ _ => rfl, fun _ _ _ _ => rfl⟩
  · simp only [hnn, if_false] at h
    have hbase : ∀ d, basePresent sh d = true → d ∈ validClasses sh := by
      intro d hd
      unfold validClasses
      by_cases hT1 : sh.T = 1
      · cases d <;> simp [basePresent] at hd <;> simp [hs.nd5, hT1]
        all_goals exact absurd hT1 (htime hd)
      · cases d <;> simp [hs.nd5, hT1]
    have hoc : otherClass b ∈ validClasses sh := by
      cases b with
      | none => exact gconst_valid sh
      | some pr =>
        have hm := hb.1
        simp only [otherClass]
        unfold validClasses at hm ⊢
        rcases hs.ond with ⟨h3, hT1⟩ | ⟨h4, hT1⟩
        · simp [h3] at hm; simp [hs.nd5, hT1]; rcases hm with e | e <;> rw [e] <;> simp
        · simp [h4] at hm; simp [hs.nd5, hT1]
          rcases hm with e | e | e | e <;> rw [e] <;> simp
    cases hr : reclassifyK null sh self (otherClass b) with
    | error e => simp [hr] at h
    | ok a1 =>
      simp only [hr] at h
      obtain ⟨⟨c, lv, rfl⟩, hv1, hk1⟩ :=
        reclassify_spec null sh hs.wf hs.hsl hbase self hself _ hoc a1 hr
      obtain ⟨hv2, hk2, hk3⟩ := insertVector_lookup null sh osh hs c lv b hv1 hb r h
      refine ⟨hv2, fun s t v hs' ht hv => ?_, hk3⟩
      rw [hk2 s t v hs' ht hv, hk1 s t v hs' ht hv]
end merge_samples

section merge_samples_final
variable {α : Type} [DecidableEq α]

/-- the final `_simplify` of a key that ended in global slices keeps every lookup -/
theorem finalSimplify_lookup (null : α) (sh : Shp) (wf : WF sh) (hsl : sh.hasSlice = true)
    (r0 r : KeyState α) (hv0 : ValidK sh r0)
    (h : (match r0 with
          | some (gslices, _) => applySimplify null sh r0
          | _ => .ok r0) = .ok r) :
    ∀ s t v, s < sh.S → t < sh.T → v < sh.V →
      lookupKS null sh r s t v = lookupKS null sh r0 s t v := by
  intro s t v hs ht hv
  cases r0 with
  | none => simp at h; subst h; rfl
  | some pr =>
    obtain ⟨c, vals⟩ := pr
    by_cases hg : c = gslices
    · subst hg
      simp only [applySimplify] at h
      cases hsm : simplifyK null sh gslices vals with
      | error e => simp [hsm] at h
      | ok o =>
        cases o with
        | unchanged => simp [hsm] at h; subst h; rfl
        | deleted =>
          unfold simplifyK at hsm
          simp at hsm
          split at hsm <;> (try split at hsm) <;> simp at hsm
        | moved d out =>
          simp [hsm] at h; subst h
          exact simplify_lookup null sh wf gslices vals hsl hv0.2 d out hsm (by simp) s t v hs ht hv
    · have : r = some (c, vals) := by
        cases c <;> simp at hg <;> simp at h <;> exact h.symm
      subst this; rfl

/-- **C03, time axis (3-D inputs → 4-D), per key:** time point `i` of the result reads input `i`. -/
theorem mergeTime_lookup (null : α) (sh1 osh : Shp)
    (hS : 0 < sh1.S) (hsl : sh1.hasSlice = true) (nd4 : sh1.nd = 4) (v1 : sh1.V = 1)
    (hvec : sh1.hasVector = false)
    (ond : osh.nd = 3) (oS : osh.S = sh1.S) (oT : osh.T = 1) (oV : osh.V = 1)
    (ohsl : osh.hasSlice = true)
    (inputs : List (KeyState α)) (hin : ∀ b, b ∈ inputs → ValidK osh b)
    (r : KeyState α) (h : mergeTimeK null sh1 osh inputs = .ok r) :
    ∀ i s, i < inputs.length → s < sh1.S →
      lookupKS null { sh1 with T := inputs.length } r s i 0 =
        lookupKS null osh (inputs[i]?.getD none) s 0 0 := by
  have setup : ∀ k, 0 < k → TimeSetup { sh1 with T := k } osh := fun k hk =>
    { wf := ⟨hS, hk, by rw [v1]; omega⟩, hsl := hsl, nd4 := nd4, v1 := v1, ond := ond, oS := oS,
      oT := oT, oV := oV, ohsl := ohsl }
  cases inputs with
  | nil => simp [mergeTimeK] at h
  | cons a rest =>
    simp only [mergeTimeK] at h
    cases hf : foldK (fun k acc b => stepSampleK null true { sh1 with T := k } osh acc b) 1 a rest with
    | error e => simp [hf] at h
    | ok r0 =>
      simp only [hf] at h
      -- the first input, re-read in the 4-D shape with one time point
      have hva : ValidK { sh1 with T := 1 } a := by
        have := hin a List.mem_cons_self
        cases a with
        | none => trivial
        | some pr =>
          obtain ⟨c, vals⟩ := pr
          obtain ⟨hc, hl⟩ := this
          have hvo : validClasses osh = [gconst, gslices] := by simp [validClasses, ond]
          rw [hvo] at hc
          refine ⟨?_, ?_⟩
          · simp [validClasses, nd4]
            rcases List.mem_cons.mp hc with e | e
            · exact Or.inl e
            · rcases List.mem_cons.mp e with e | e
              · exact Or.inr (Or.inl e)
              · simp at e
          · rw [hl]
            rcases List.mem_cons.mp hc with e | e
            · rw [e]; rfl
            · rcases List.mem_cons.mp e with e | e
              · rw [e]; simp [mult, hsl, ohsl, oS, oT, oV, v1]
              · simp at e
      have hla : ∀ i s, i < 1 → s < sh1.S →
          lookupKS null { sh1 with T := 1 } a s i 0 =
            lookupKS null osh ([a][i]?.getD none) s 0 0 := by
        intro i s hi _
        have : i = 0 := by omega
        subst this
        cases a with
        | none => rfl
        | some pr =>
          obtain ⟨c, vals⟩ := pr
          simp only [lookupKS, List.getElem?_cons_zero, Option.getD_some]
          cases c <;> simp [proj, oS, oT]
      obtain ⟨hv0, hk0⟩ := foldK_lookup
        (fun k acc b => stepSampleK null true { sh1 with T := k } osh acc b)
        (fun k ks => ValidK { sh1 with T := k } ks) (ValidK osh)
        (fun k ks i s => lookupKS null { sh1 with T := k } ks s i 0)
        (fun b s => lookupKS null osh b s 0 0) (fun s => s < sh1.S)
        (by
          intro k acc b r' hk hv hb hs
          obtain ⟨h1, h2, h3⟩ := stepTime_lookup null { sh1 with T := k } osh (setup k hk) hvec
            acc b hv hb r' hs
          exact ⟨h1, fun i s hi hs' => h2 s i hs' hi, fun s hs' => h3 s hs'⟩)
        rest 1 [a] a r0 (by omega) rfl hva hla
        (fun b hb => hin b (List.mem_cons_of_mem _ hb)) hf
      have hlen : (a :: rest).length = 1 + rest.length := by simp; omega
      rw [hlen]
      intro i s hi hs
      have wfn : WF { sh1 with T := 1 + rest.length } := ⟨hS, by simp; omega, by rw [v1]; omega⟩
      rw [finalSimplify_lookup null _ wfn hsl r0 r hv0 h s i 0 hs hi (by rw [v1]; omega)]
      exact hk0 i s hi hs


/-- **C03, vector axis (3-D / 4-D inputs → 5-D), per key:** component `i` of the result reads
    input `i`. -/
theorem mergeVec_lookup (null : α) (sh1 osh : Shp)
    (hS : 0 < sh1.S) (hT : 0 < sh1.T) (hsl : sh1.hasSlice = true) (nd5 : sh1.nd = 5)
    (hvec : sh1.hasVector = true) (htime : sh1.hasTime = true → sh1.T ≠ 1)
    (ohsl : osh.hasSlice = true) (oS : osh.S = sh1.S) (oT : osh.T = sh1.T) (oV : osh.V = 1)
    (ond : (osh.nd = 3 ∧ sh1.T = 1) ∨ (osh.nd = 4 ∧ sh1.T ≠ 1))
    (inputs : List (KeyState α)) (hin : ∀ b, b ∈ inputs → ValidK osh b)
    (r : KeyState α) (h : mergeVecK null sh1 osh inputs = .ok r) :
    ∀ i s t, i < inputs.length → s < sh1.S → t < sh1.T →
      lookupKS null { sh1 with V := inputs.length } r s t i =
        lookupKS null osh (inputs[i]?.getD none) s t 0 := by
  have setup : ∀ k, 0 < k → VecSetup { sh1 with V := k } osh := fun k hk =>
    { wf := ⟨hS, hT, hk⟩, hsl := hsl, nd5 := nd5, ohsl := ohsl, oS := oS, oT := oT, oV := oV,
      ond := ond }
  cases inputs with
  | nil => simp [mergeVecK] at h
  | cons a rest =>
    simp only [mergeVecK] at h
    cases hf : foldK (fun k acc b => stepSampleK null false { sh1 with V := k } osh acc b) 1 a rest with
    | error e => simp [hf] at h
    | ok r0 =>
      simp only [hf] at h
      have hva : ValidK { sh1 with V := 1 } a := by
        have := hin a List.mem_cons_self
        cases a with
        | none => trivial
        | some pr =>
          obtain ⟨c, vals⟩ := pr
          obtain ⟨hc, hl⟩ := this
          refine ⟨?_, ?_⟩
          · unfold validClasses at hc ⊢
            rcases ond with ⟨h3, hT1⟩ | ⟨h4, hT1⟩
            · simp [h3] at hc; simp [nd5, hT1]; rcases hc with e | e <;> rw [e] <;> simp
            · simp [h4] at hc; simp [nd5, hT1]
              rcases hc with e | e | e | e <;> rw [e] <;> simp
          · rw [hl]; cases c <;> simp [mult, hsl, ohsl, oS, oT, oV]
      have hla : ∀ i (x : Nat × Nat), i < 1 → (x.1 < sh1.S ∧ x.2 < sh1.T) →
          lookupKS null { sh1 with V := 1 } a x.1 x.2 i =
            lookupKS null osh ([a][i]?.getD none) x.1 x.2 0 := by
        intro i x hi _
        have : i = 0 := by omega
        subst this
        cases a with
        | none => rfl
        | some pr =>
          obtain ⟨c, vals⟩ := pr
          simp only [lookupKS, List.getElem?_cons_zero, Option.getD_some]
          cases c <;> simp [proj, oS, oT]
      obtain ⟨hv0, hk0⟩ := foldK_lookup
        (fun k acc b => stepSampleK null false { sh1 with V := k } osh acc b)
        (fun k ks => ValidK { sh1 with V := k } ks) (ValidK osh)
        (fun k ks i (x : Nat × Nat) => lookupKS null { sh1 with V := k } ks x.1 x.2 i)
        (fun b x => lookupKS null osh b x.1 x.2 0) (fun x => x.1 < sh1.S ∧ x.2 < sh1.T)
        (by
          intro k acc b r' hk hv hb hs
          obtain ⟨h1, h2, h3⟩ := stepVector_lookup null { sh1 with V := k } osh (setup k hk)
            hvec htime acc b hv hb r' hs
          exact ⟨h1, fun i x hi hx => h2 x.1 x.2 i hx.1 hx.2 hi, fun x hx => h3 x.1 x.2 hx.1 hx.2⟩)
        rest 1 [a] a r0 (by omega) rfl hva hla
        (fun b hb => hin b (List.mem_cons_of_mem _ hb)) hf
      have hlen : (a :: rest).length = 1 + rest.length := by simp; omega
      rw [hlen]
      intro i s t hi hs ht
      have wfn : WF { sh1 with V := 1 + rest.length } := ⟨hS, hT, by simp; omega⟩
      rw [finalSimplify_lookup null _ wfn hsl r0 r hv0 h s t i hs ht hi]
      exact hk0 i (s, t) hi ⟨hs, ht⟩
end merge_samples_final

section simplify_valid
variable {α : Type} [DecidableEq α]

omit [DecidableEq α] in
theorem length_stride_exact (p M : Nat) (hp : 0 < p) (l : List α) (hl : l.length = p * M) :
    (stride p l).length = M := by
  have := length_stride_drop p M 0 hp l hl
  simpa using this

/-- `_simplify` stores the right number of values under a class that is valid for the shape -/
theorem simplify_valid (null : α) (sh : Shp) (wf : WF sh) (hsl : sh.hasSlice = true)
    (hbase : ∀ d, basePresent sh d = true → d ∈ validClasses sh)
    (c : Cls) (vals : List α) (hlen : vals.length = mult sh c) (d : Cls) (out : List α)
    (h : simplifyK null sh c vals = .ok (.moved d out))
    (hbug : ¬ (c = vslices ∧ d = tsamples ∧ 1 < sh.V)) :
    d ∈ validClasses sh ∧ out.length = mult sh d := by
  obtain ⟨hS, hT, hV⟩ := wf
  have hST : 0 < sh.S * sh.T := Nat.mul_pos hS hT
  have hTV : 0 < sh.T * sh.V := Nat.mul_pos hT hV
  unfold simplifyK at h
  by_cases hc : c = gconst
  · subst hc; simp at h; split at h <;> simp at h
  · simp only [hc, if_false] at h
    have hpos : 0 < vals.length := by
      rw [hlen]; cases c <;> simp [mult, hsl] <;> first | omega | exact Nat.mul_pos hST hV | exact hTV | exact hST
    cases hcl : constLoop sh c vals (constTests c) with
    | error e => simp [hcl] at h
    | ok r =>
      cases r with
      | some pr =>
        obtain ⟨d', out'⟩ := pr
        simp only [hcl] at h
        simp at h
        obtain ⟨rfl, rfl⟩ := h
        obtain ⟨hmem, hbp, hh⟩ := constLoop_spec sh c vals _ _ _ hcl
        refine ⟨hbase _ hbp, ?_⟩
        cases hh with
        | all hp hca ho =>
          have hd : d' = gconst := by
            cases d' <;> cases c <;> simp [constPeriod] at hp <;> rfl
          subst hd; subst ho
          cases vals with
          | nil => simp at hpos
          | cons x xs => simp [mult]
        | one hp ho =>
          subst ho
          rw [length_stride_exact 1 vals.length (by omega) vals (by omega), hlen]
          cases c <;> cases d' <;> simp [constTests] at hmem <;>
            simp [constPeriod, mult, hsl] at hp ⊢
          · -- gslices → tsamples with S*T*V/(T*V) = 1
            have e : sh.S * sh.T * sh.V / (sh.T * sh.V) = sh.S := by
              rw [Nat.mul_assoc]; exact Nat.mul_div_cancel _ hTV
            rw [e] at hp; rw [hp, Nat.one_mul]
          · -- gslices → vsamples with S*T = 1
            have e : sh.S * sh.T * sh.V / sh.V = sh.S * sh.T := Nat.mul_div_cancel _ hV
            rw [e] at hp; rw [hp, Nat.one_mul]
          · -- tsamples → vsamples with T = 1
            rw [hp, Nat.one_mul]
          · -- vslices → tsamples with S = 1 : only right when V = 1
            have hv1 : sh.V = 1 := by
              rcases Nat.lt_or_ge 1 sh.V with h1 | h1
              · exact absurd ⟨rfl, rfl, h1⟩ hbug
              · omega
            rw [hp, hv1]; simp
        | per p hp h1 hdiv hca ho =>
          subst ho
          cases c <;> cases d' <;> simp [constTests] at hmem <;>
            simp [constPeriod, mult, hsl] at hp <;> subst hp <;> simp only [mult, hsl, if_true] at hlen ⊢
          · have e : sh.S * sh.T * sh.V / (sh.T * sh.V) = sh.S := by
              rw [Nat.mul_assoc]; exact Nat.mul_div_cancel _ hTV
            rw [e]
            exact length_stride_exact _ _ hS vals (by rw [hlen, Nat.mul_assoc])
          · have e : sh.S * sh.T * sh.V / sh.V = sh.S * sh.T := Nat.mul_div_cancel _ hV
            rw [e]
            exact length_stride_exact _ _ hST vals hlen
          · exact length_stride_exact _ _ hT vals hlen
          · have hv1 : sh.V = 1 := by
              rcases Nat.lt_or_ge 1 sh.V with h1' | h1'
              · exact absurd ⟨rfl, rfl, h1'⟩ hbug
              · omega
            rw [hv1, Nat.mul_one]
            exact length_stride_exact _ _ hS vals hlen
      | none =>
        simp only [hcl] at h
        cases hrl : repeatLoop sh vals (repeatTests c) with
        | error e => simp [hrl] at h
        | ok r =>
          cases r with
          | none => simp [hrl] at h
          | some pr =>
            obtain ⟨d', out'⟩ := pr
            simp [hrl] at h
            obtain ⟨rfl, rfl⟩ := h
            obtain ⟨_, hbp, hcase, _, _, ho⟩ := repeatLoop_spec sh vals _ _ _ hrl
            subst ho
            exact ⟨hbase _ hbp, by
              rw [List.length_take]; exact Nat.min_eq_left (by rcases hcase with h | h <;> omega)⟩
end simplify_valid

/-! ### converses of the list tests (needed for minimality, C06) -/
section converses
variable {α : Type} [DecidableEq α]

theorem isConstantAll_false (l : List α) (h : isConstantAll l = false) :
    ∃ i, i < l.length ∧ l[i]? ≠ l[0]? := by
  cases l with
  | nil => simp [isConstantAll] at h
  | cons x xs =>
    simp only [isConstantAll] at h
    have : ¬ (xs.all (· == x)) = true := by simp [h]
    rw [List.all_eq_true] at this
    have : ∃ y, y ∈ xs ∧ ¬ ((y == x) = true) := by
      apply Decidable.byContradiction
      intro hne
      apply this
      intro y hy
      apply Decidable.byContradiction
      intro hyx
      exact hne ⟨y, hy, hyx⟩
    obtain ⟨y, hy, hyx⟩ := this
    obtain ⟨i, hi, hget⟩ := List.getElem_of_mem hy
    refine ⟨i + 1, by simp; omega, ?_⟩
    simp only [List.getElem?_cons_succ, List.getElem?_cons_zero, List.getElem?_eq_getElem hi, hget]
    intro e; injection e with e; exact hyx (by simp [e])

theorem all_false_exists {β : Type} (l : List β) (p : β → Bool) (h : l.all p = false) :
    ∃ y, y ∈ l ∧ p y = false := by
  induction l with
  | nil => simp at h
  | cons x xs ih =>
    simp only [List.all_cons, Bool.and_eq_false_iff] at h
    rcases h with h | h
    · exact ⟨x, by simp, h⟩
    · obtain ⟨y, hy, hp⟩ := ih h
      exact ⟨y, by simp [hy], hp⟩

theorem isConstantP_false (p : Nat) (hp : 0 < p) (l : List α) (hdiv : l.length % p = 0)
    (h : isConstantP p l = false) :
    ∃ i, i < l.length ∧ l[i]? ≠ l[i / p * p]? := by
  unfold isConstantP at h
  obtain ⟨b, hb, hbf⟩ := all_false_exists _ _ h
  simp only [List.mem_range] at hb
  obtain ⟨x, hx, hxf⟩ := all_false_exists _ _ hbf
  rw [List.mem_iff_getElem?] at hx
  obtain ⟨k, hk⟩ := hx
  have hkp : k < p := by
    have hk' := (List.getElem?_eq_some_iff.mp hk).1
    rw [List.length_take] at hk'; omega
  rw [List.getElem?_take_of_lt hkp, List.getElem?_drop] at hk
  have hlen : b * p + k < l.length := (List.getElem?_eq_some_iff.mp hk).1
  refine ⟨b * p + k, hlen, ?_⟩
  have hd : (b * p + k) / p = b := by
    rw [Nat.mul_comm, Nat.mul_add_div hp, Nat.div_eq_of_lt hkp, Nat.add_zero]
  rw [hd, hk]
  intro e
  simp [← e] at hxf

theorem isRepeatingP_false (p : Nat) (hp : 0 < p) (l : List α) (hdiv : l.length % p = 0)
    (h : isRepeatingP p l = false) :
    ∃ i, i < l.length ∧ l[i]? ≠ l[i % p]? := by
  unfold isRepeatingP at h
  obtain ⟨b, hb, hbf⟩ := all_false_exists _ _ h
  simp only [List.mem_range] at hb
  have hne : (l.drop (b * p)).take p ≠ l.take p := by
    intro e; simp [e] at hbf
  have hlb : b * p + p ≤ l.length := by
    have : l.length = l.length / p * p := by
      have := Nat.div_add_mod l.length p
      rw [hdiv, Nat.add_zero, Nat.mul_comm] at this; exact this.symm
    rw [this]
    calc b * p + p = (b + 1) * p := by rw [Nat.succ_mul]
      _ ≤ l.length / p * p := Nat.mul_le_mul_right _ hb
  -- two lists of the same length that differ, differ at some index
  have hl1 : ((l.drop (b * p)).take p).length = p := by
    rw [List.length_take, List.length_drop]; exact Nat.min_eq_left (by omega)
  have hl2 : (l.take p).length = p := by
    rw [List.length_take]; exact Nat.min_eq_left (by omega)
  have : ∃ k, k < p ∧ ((l.drop (b * p)).take p)[k]? ≠ (l.take p)[k]? := by
    apply Decidable.byContradiction
    intro hno
    apply hne
    apply List.ext_getElem? 
    intro k
    by_cases hk : k < p
    · apply Decidable.byContradiction
      intro hk2
      exact hno ⟨k, hk, hk2⟩
    · rw [List.getElem?_eq_none (by omega), List.getElem?_eq_none (by omega)]
  obtain ⟨k, hk, hkne⟩ := this
  rw [List.getElem?_take_of_lt hk, List.getElem?_drop, List.getElem?_take_of_lt hk] at hkne
  refine ⟨b * p + k, by omega, ?_⟩
  have : (b * p + k) % p = k := by
    rw [Nat.add_comm, Nat.add_mul_mod_self_right, Nat.mod_eq_of_lt hk]
  rw [this]; exact hkne
end converses

section loop_misses
variable {α : Type} [DecidableEq α]

theorem constLoop_prefix (sh : Shp) (src : Cls) (vals : List α) (l : List Cls)
    (res : Option (Cls × List α)) (h : constLoop sh src vals l = .ok res) :
    match res with
    | none => ∀ e, e ∈ l → ConstMiss sh src vals e
    | some (d, _) => ∃ l1 l2, l = l1 ++ d :: l2 ∧ ∀ e, e ∈ l1 → ConstMiss sh src vals e := by
  induction l with
  | nil =>
    simp [constLoop] at h; subst h; intro e he; simp at he
  | cons x xs ih =>
    unfold constLoop at h
    by_cases hb : basePresent sh x = true
    · simp only [hb, if_true] at h
      by_cases h1 : constPeriod sh src x = some 1
      · simp only [h1, if_true] at h
        simp at h; subst h
        exact ⟨[], xs, rfl, fun e he => by simp at he⟩
      · simp only [h1, if_false] at h
        cases hpc : pyIsConstant vals (constPeriod sh src x) with
        | error e => simp [hpc] at h
        | ok b =>
          cases b with
          | true =>
            simp only [hpc] at h
            cases hper : constPeriod sh src x with
            | none => simp [hper] at h; subst h; exact ⟨[], xs, rfl, fun e he => by simp at he⟩
            | some p => simp [hper] at h; subst h; exact ⟨[], xs, rfl, fun e he => by simp at he⟩
          | false =>
            simp only [hpc] at h
            have hx : ConstMiss sh src vals x := fun _ => ⟨h1, hpc⟩
            have := ih h
            cases res with
            | none =>
              intro e he
              rcases List.mem_cons.mp he with rfl | he
              · exact hx
              · exact this e he
            | some pr =>
              obtain ⟨d, o⟩ := pr
              obtain ⟨l1, l2, hl, hm⟩ := this
              refine ⟨x :: l1, l2, by rw [hl]; rfl, ?_⟩
              intro e he
              rcases List.mem_cons.mp he with rfl | he
              · exact hx
              · exact hm e he
    · simp only [hb] at h
      have hx : ConstMiss sh src vals x := fun hbx => absurd hbx hb
      have := ih h
      cases res with
      | none =>
        intro e he
        rcases List.mem_cons.mp he with rfl | he
        · exact hx
        · exact this e he
      | some pr =>
        obtain ⟨d, o⟩ := pr
        obtain ⟨l1, l2, hl, hm⟩ := this
        refine ⟨x :: l1, l2, by rw [hl]; rfl, ?_⟩
        intro e he
        rcases List.mem_cons.mp he with rfl | he
        · exact hx
        · exact hm e he

theorem repeatLoop_prefix (sh : Shp) (vals : List α) (l : List Cls)
    (res : Option (Cls × List α)) (h : repeatLoop sh vals l = .ok res) :
    match res with
    | none => ∀ e, e ∈ l → RepeatMiss sh vals e
    | some (d, _) => ∃ l1 l2, l = l1 ++ d :: l2 ∧ ∀ e, e ∈ l1 → RepeatMiss sh vals e := by
  induction l with
  | nil =>
    simp [repeatLoop] at h; subst h; intro e he; simp at he
  | cons x xs ih =>
    unfold repeatLoop at h
    by_cases hb : basePresent sh x = true
    · simp only [hb, if_true] at h
      cases hpc : repeatHit vals (mult sh x) with
      | error e => simp [hpc] at h
      | ok b =>
        cases b with
        | true =>
          simp [hpc] at h; subst h
          exact ⟨[], xs, rfl, fun e he => by simp at he⟩
        | false =>
          simp only [hpc] at h
          have hx : RepeatMiss sh vals x := fun _ => hpc
          have := ih h
          cases res with
          | none =>
            intro e he
            rcases List.mem_cons.mp he with rfl | he
            · exact hx
            · exact this e he
          | some pr =>
            obtain ⟨d, o⟩ := pr
            obtain ⟨l1, l2, hl, hm⟩ := this
            refine ⟨x :: l1, l2, by rw [hl]; rfl, ?_⟩
            intro e he
            rcases List.mem_cons.mp he with rfl | he
            · exact hx
            · exact hm e he
    · simp only [hb] at h
      have hx : RepeatMiss sh vals x := fun hbx => absurd hbx hb
      have := ih h
      cases res with
      | none =>
        intro e he
        rcases List.mem_cons.mp he with rfl | he
        · exact hx
        · exact this e he
      | some pr =>
        obtain ⟨d, o⟩ := pr
        obtain ⟨l1, l2, hl, hm⟩ := this
        refine ⟨x :: l1, l2, by rw [hl]; rfl, ?_⟩
        intro e he
        rcases List.mem_cons.mp he with rfl | he
        · exact hx
        · exact hm e he
end loop_misses

section minimality
variable {α : Type} [DecidableEq α]

theorem decomp (S T V i : Nat) (hS : 0 < S) (hT : 0 < T) (hi : i < S * (T * V)) :
    ∃ s t v, s < S ∧ t < T ∧ v < V ∧ i = s + S * (t + T * v) := by
  refine ⟨i % S, (i / S) % T, (i / S) / T, Nat.mod_lt _ hS, Nat.mod_lt _ hT, ?_, ?_⟩
  · apply Nat.div_lt_of_lt_mul
    apply Nat.div_lt_of_lt_mul
    exact hi
  · have h1 := Nat.div_add_mod i S
    have h2 := Nat.div_add_mod (i / S) T
    rw [Nat.add_comm ((i / S) % T), h2]; omega

/-- **Minimality of `_simplify` from global slices (C06):** whatever class the key ends in, no
    class that comes earlier in the preference order (and whose dictionary exists) can represent
    the key's values. -/
theorem simplify_gslices_minimal (null : α) (sh : Shp) (wf : WF sh) (hsl : sh.hasSlice = true)
    (vals : List α) (hlen : vals.length = mult sh gslices) (o : SimpOut α)
    (h : simplifyK null sh gslices vals = .ok o) :
    ∀ e, basePresent sh e = true → rank e < rank (resultClass o) →
      ¬ RepOK sh (fun s t v => vals[proj sh s t v gslices]?) e := by
  obtain ⟨hS, hT, hV⟩ := wf
  have hST : 0 < sh.S * sh.T := Nat.mul_pos hS hT
  have hTV : 0 < sh.T * sh.V := Nat.mul_pos hT hV
  have hl : vals.length = sh.S * (sh.T * sh.V) := by
    rw [hlen]; simp [mult, hsl, Nat.mul_assoc]
  have e3 : ∀ s t v, s + sh.S * (t + sh.T * v) = (s + sh.S * t) + (sh.S * sh.T) * v := by
    intro s t v; rw [Nat.mul_add, Nat.mul_assoc, Nat.add_assoc]
  -- a witness index where the list differs from its "canonical" representative refutes RepOK
  have refute : ∀ (e : Cls) (g : Nat → Nat),
      (∀ s t v, s < sh.S → t < sh.T → v < sh.V →
        ∃ s' t' v', s' < sh.S ∧ t' < sh.T ∧ v' < sh.V ∧
          g (s + sh.S * (t + sh.T * v)) = s' + sh.S * (t' + sh.T * v') ∧
          proj sh s t v e = proj sh s' t' v' e) →
      (∃ i, i < vals.length ∧ vals[i]? ≠ vals[g i]?) →
      ¬ RepOK sh (fun s t v => vals[proj sh s t v gslices]?) e := by
    intro e g hg ⟨i, hi, hne⟩ hrep
    rw [hl] at hi
    obtain ⟨s, t, v, hs, ht, hv, rfl⟩ := decomp _ _ _ i hS hT hi
    obtain ⟨s', t', v', hs', ht', hv', hgi, hp⟩ := hg s t v hs ht hv
    have := hrep s t v s' t' v' hs ht hv hs' ht' hv' hp
    simp only [proj] at this
    rw [hgi] at hne
    exact hne this
  -- the five ways a test can miss
  have missConst : ConstMiss sh gslices vals gconst → basePresent sh gconst = true →
      ¬ RepOK sh (fun s t v => vals[proj sh s t v gslices]?) gconst := by
    intro hm hb
    obtain ⟨_, hpc⟩ := hm hb
    simp only [constPeriod, pyIsConstant] at hpc
    injection hpc with hpc
    refine refute gconst (fun _ => 0) ?_ (isConstantAll_false vals hpc)
    intro s t v _ _ _
    exact ⟨0, 0, 0, hS, hT, hV, by simp, rfl⟩
  have missPer : ∀ (e : Cls) (p : Nat), constPeriod sh gslices e = some p → 0 < p →
      (∀ s t v, s < sh.S → t < sh.T → v < sh.V →
        ∃ s' t' v', s' < sh.S ∧ t' < sh.T ∧ v' < sh.V ∧
          (s + sh.S * (t + sh.T * v)) / p * p = s' + sh.S * (t' + sh.T * v') ∧
          proj sh s t v e = proj sh s' t' v' e) →
      ConstMiss sh gslices vals e → basePresent sh e = true →
      ¬ RepOK sh (fun s t v => vals[proj sh s t v gslices]?) e := by
    intro e p hper hp0 hg hm hb
    obtain ⟨_, hpc⟩ := hm hb
    rw [hper] at hpc
    simp only [pyIsConstant] at hpc
    by_cases h1 : p ≤ 1
    · simp [h1] at hpc
    · simp only [h1, if_false] at hpc
      by_cases hdiv : vals.length % p ≠ 0
      · simp [hdiv] at hpc
      · simp only [hdiv, if_false] at hpc
        injection hpc with hpc
        exact refute e (fun i => i / p * p) hg
          (isConstantP_false p hp0 vals (by simpa using hdiv) hpc)
  have missRep : ∀ (e : Cls) (p : Nat), mult sh e = p → 0 < p →
      (∀ s t v, s < sh.S → t < sh.T → v < sh.V →
        ∃ s' t' v', s' < sh.S ∧ t' < sh.T ∧ v' < sh.V ∧
          (s + sh.S * (t + sh.T * v)) % p = s' + sh.S * (t' + sh.T * v') ∧
          proj sh s t v e = proj sh s' t' v' e) →
      RepeatMiss sh vals e → basePresent sh e = true →
      ¬ RepOK sh (fun s t v => vals[proj sh s t v gslices]?) e := by
    intro e p hm hp0 hg hmiss hb
    have hpc := hmiss hb
    rw [hm] at hpc
    unfold repeatHit at hpc
    by_cases hdeg : p = vals.length
    · simp [hdeg] at hpc
    simp only [hdeg, if_false] at hpc
    unfold pyIsRepeating at hpc
    by_cases hgd : p ≤ 1 ∨ p ≥ vals.length
    · simp [hgd] at hpc
    · simp only [hgd, if_false] at hpc
      by_cases hdiv : vals.length % p ≠ 0
      · simp [hdiv] at hpc
      · simp only [hdiv, if_false] at hpc
        injection hpc with hpc
        exact refute e (fun i => i % p) hg
          (isRepeatingP_false p hp0 vals (by simpa using hdiv) hpc)
  -- instances
  have mVS := missPer vsamples (sh.S * sh.T)
    (by simp [constPeriod, mult, hsl]; exact Nat.mul_div_cancel _ hV) hST
    (by
      intro s t v hs ht hv
      refine ⟨0, 0, v, hS, hT, hv, ?_, rfl⟩
      rw [e3, add_mul_div' _ _ _ (lt_mul_of' _ _ _ _ hs ht)]
      simp [Nat.mul_comm, Nat.mul_assoc, Nat.mul_left_comm])
  have mTS := missPer tsamples sh.S
    (by simp [constPeriod, mult, hsl]; rw [Nat.mul_assoc]; exact Nat.mul_div_cancel _ hTV) hS
    (by
      intro s t v hs ht hv
      refine ⟨0, t, v, hS, ht, hv, ?_, rfl⟩
      rw [add_mul_div' _ _ _ hs]; simp [Nat.mul_comm])
  have mTL := missRep tslices sh.S (by simp [mult, hsl]) hS
    (by
      intro s t v hs ht hv
      refine ⟨s, 0, 0, hs, hT, hV, ?_, rfl⟩
      rw [add_mul_mod' _ _ _ hs]; simp)
  have mVL := missRep vslices (sh.S * sh.T) (by simp [mult, hsl]) hST
    (by
      intro s t v hs ht hv
      refine ⟨s, t, 0, hs, ht, hV, ?_, rfl⟩
      rw [e3, add_mul_mod' _ _ _ (lt_mul_of' _ _ _ _ hs ht)]; simp)
  -- run through `_simplify`
  unfold simplifyK at h
  simp only [reduceCtorEq, if_false] at h
  intro e hbe hrank
  cases hcl : constLoop sh gslices vals (constTests gslices) with
  | error er => simp [hcl] at h
  | ok res =>
    have hpre := constLoop_prefix sh gslices vals _ res hcl
    cases res with
    | some pr =>
      obtain ⟨d', out'⟩ := pr
      simp [hcl] at h; subst h
      obtain ⟨l1, l2, hl12, hm⟩ := hpre
      simp only [constTests] at hl12
      simp only [resultClass] at hrank
      match l1, hl12, hm with
      | [], hl12, _ =>
        simp at hl12; obtain ⟨rfl, _⟩ := hl12
        simp [rank] at hrank
      | [a], hl12, hm =>
        simp at hl12; obtain ⟨rfl, rfl, _⟩ := hl12
        cases e with
        | gconst => exact missConst (hm gconst (by simp)) hbe
        | _ => simp [rank] at hrank
      | [a, b], hl12, hm =>
        simp at hl12; obtain ⟨rfl, rfl, rfl, _⟩ := hl12
        cases e with
        | gconst => exact missConst (hm gconst (by simp)) hbe
        | vsamples => exact mVS (hm vsamples (by simp)) hbe
        | _ => simp [rank] at hrank
      | a :: b :: c :: rest, hl12, _ =>
        simp at hl12
    | none =>
      simp only [hcl] at h
      have hmc : ∀ x, x ∈ constTests gslices → ConstMiss sh gslices vals x := hpre
      simp only [constTests] at hmc
      cases hrl : repeatLoop sh vals (repeatTests gslices) with
      | error er => simp [hrl] at h
      | ok res2 =>
        have hpre2 := repeatLoop_prefix sh vals _ res2 hrl
        cases res2 with
        | none =>
          simp [hrl] at h; subst h
          have hmr : ∀ x, x ∈ repeatTests gslices → RepeatMiss sh vals x := hpre2
          simp only [repeatTests] at hmr
          cases e with
          | gconst => exact missConst (hmc gconst (by simp)) hbe
          | vsamples => exact mVS (hmc vsamples (by simp)) hbe
          | tsamples => exact mTS (hmc tsamples (by simp)) hbe
          | tslices => exact mTL (hmr tslices (by simp)) hbe
          | vslices => exact mVL (hmr vslices (by simp)) hbe
          | gslices => simp [rank, resultClass] at hrank
        | some pr =>
          obtain ⟨d', out'⟩ := pr
          simp [hrl] at h; subst h
          obtain ⟨l1, l2, hl12, hm⟩ := hpre2
          simp only [repeatTests] at hl12
          simp only [resultClass] at hrank
          match l1, hl12, hm with
          | [], hl12, _ =>
            simp at hl12; obtain ⟨rfl, _⟩ := hl12
            cases e with
            | gconst => exact missConst (hmc gconst (by simp)) hbe
            | vsamples => exact mVS (hmc vsamples (by simp)) hbe
            | tsamples => exact mTS (hmc tsamples (by simp)) hbe
            | _ => simp [rank] at hrank
          | [a], hl12, hm =>
            simp at hl12; obtain ⟨rfl, rfl, _⟩ := hl12
            cases e with
            | gconst => exact missConst (hmc gconst (by simp)) hbe
            | vsamples => exact mVS (hmc vsamples (by simp)) hbe
            | tsamples => exact mTS (hmc tsamples (by simp)) hbe
            | tslices => exact mTL (hm tslices (by simp)) hbe
            | _ => simp [rank] at hrank
          | a :: b :: rest, hl12, _ =>
            simp at hl12
end minimality


/-! ### validity of merged results -/
section merge_valid
variable {α : Type} [DecidableEq α]

theorem finalSimplify_valid (null : α) (sh : Shp) (wf : WF sh) (hsl : sh.hasSlice = true)
    (hbase : ∀ d, basePresent sh d = true → d ∈ validClasses sh)
    (r0 r : KeyState α) (hv0 : ValidK sh r0)
    (h : (match r0 with
          | some (gslices, _) => applySimplify null sh r0
          | _ => .ok r0) = .ok r) : ValidK sh r := by
  cases r0 with
  | none => simp at h; subst h; trivial
  | some pr =>
    obtain ⟨c, vals⟩ := pr
    by_cases hg : c = gslices
    · subst hg
      simp only [applySimplify] at h
      cases hsm : simplifyK null sh gslices vals with
      | error e => simp [hsm] at h
      | ok o =>
        cases o with
        | unchanged => simp [hsm] at h; subst h; exact hv0
        | deleted => simp [hsm] at h; subst h; trivial
        | moved d out =>
          simp [hsm] at h; subst h
          exact simplify_valid null sh wf hsl hbase gslices vals hv0.2 d out hsm (by simp)
    · have : r = some (c, vals) := by
        cases c <;> simp at hg <;> simp at h <;> exact h.symm
      subst this; exact hv0

theorem mergeSlice_valid (null : α) (sh1 : Shp) (hc1 : Consistent sh1)
    (inputs : List (KeyState α)) (hin : ∀ b, b ∈ inputs → ValidK { sh1 with S := 1 } b)
    (r : KeyState α) (h : mergeSliceK null sh1 inputs = .ok r) :
    ValidK { sh1 with S := inputs.length } r := by
  cases inputs with
  | nil => simp [mergeSliceK] at h
  | cons a rest =>
    simp only [mergeSliceK] at h
    cases hf : foldSliceK null sh1 1 a rest with
    | error e => simp [hf] at h
    | ok r0 =>
      simp only [hf] at h
      have hbase0 : ∀ i t v, i < 1 → t < sh1.T → v < sh1.V →
          lookupKS null { sh1 with S := 1 } a i t v =
            lookupKS null { sh1 with S := 1 } ([a][i]?.getD none) 0 t v := by
        intro i t v hi _ _
        have : i = 0 := by omega
        subst this; rfl
      obtain ⟨hv0, _⟩ := foldSlice_lookup null sh1 hc1 rest 1 [a] a r0 (by omega) rfl
        (hin a List.mem_cons_self) hbase0
        (fun b hb => hin b (List.mem_cons_of_mem _ hb)) hf
      have hlen : (a :: rest).length = 1 + rest.length := by simp; omega
      rw [hlen]
      have hcn : Consistent { sh1 with S := 1 + rest.length } :=
        { hS := by simp; omega, hT := hc1.hT, hV := hc1.hV, hnd := hc1.hnd, h3 := hc1.h3,
          h4 := hc1.h4, hsl := hc1.hsl, htime := hc1.htime, hvec := hc1.hvec,
          trimmed4 := hc1.trimmed4 }
      exact finalSimplify_valid null _ hcn.toWFnd.toWF hc1.hsl (consistent_base _ hcn) r0 r hv0 h


theorem mergeTime_valid (null : α) (sh1 osh : Shp)
    (hS : 0 < sh1.S) (hsl : sh1.hasSlice = true) (nd4 : sh1.nd = 4) (v1 : sh1.V = 1)
    (hvec : sh1.hasVector = false)
    (ond : osh.nd = 3) (oS : osh.S = sh1.S) (oT : osh.T = 1) (oV : osh.V = 1)
    (ohsl : osh.hasSlice = true)
    (inputs : List (KeyState α)) (hin : ∀ b, b ∈ inputs → ValidK osh b)
    (r : KeyState α) (h : mergeTimeK null sh1 osh inputs = .ok r) :
    ValidK { sh1 with T := inputs.length } r := by
  have setup : ∀ k, 0 < k → TimeSetup { sh1 with T := k } osh := fun k hk =>
    { wf := ⟨hS, hk, by rw [v1]; omega⟩, hsl := hsl, nd4 := nd4, v1 := v1, ond := ond, oS := oS,
      oT := oT, oV := oV, ohsl := ohsl }
  cases inputs with
  | nil => simp [mergeTimeK] at h
  | cons a rest =>
    simp only [mergeTimeK] at h
    cases hf : foldK (fun k acc b => stepSampleK null true { sh1 with T := k } osh acc b) 1 a rest with
    | error e => simp [hf] at h
    | ok r0 =>
      simp only [hf] at h
      have hva : ValidK { sh1 with T := 1 } a := by
        have := hin a List.mem_cons_self
        cases a with
        | none => trivial
        | some pr =>
          obtain ⟨c, vals⟩ := pr
          obtain ⟨hc, hl⟩ := this
          have hvo : validClasses osh = [gconst, gslices] := by simp [validClasses, ond]
          rw [hvo] at hc
          refine ⟨?_, ?_⟩
          · simp [validClasses, nd4]
            rcases List.mem_cons.mp hc with e | e
            · exact Or.inl e
            · rcases List.mem_cons.mp e with e | e
              · exact Or.inr (Or.inl e)
              · simp at e
          · rw [hl]
            rcases List.mem_cons.mp hc with e | e
            · rw [e]; rfl
            · rcases List.mem_cons.mp e with e | e
              · rw [e]; simp [mult, hsl, ohsl, oS, oT, oV, v1]
              · simp at e
      obtain ⟨hv0, _⟩ := foldK_lookup
        (fun k acc b => stepSampleK null true { sh1 with T := k } osh acc b)
        (fun k ks => ValidK { sh1 with T := k } ks) (ValidK osh)
        (fun _ _ _ (_ : Nat) => (none : Option α))
        (fun _ _ => none) (fun _ => True)
        (by
          intro k acc b r' hk hv hb hs
          obtain ⟨h1, _, _⟩ := stepTime_lookup null { sh1 with T := k } osh (setup k hk) hvec
            acc b hv hb r' hs
          exact ⟨h1, fun _ _ _ _ => rfl, fun _ _ => rfl⟩)
        rest 1 [a] a r0 (by omega) rfl hva (fun _ _ _ _ => rfl)
        (fun b hb => hin b (List.mem_cons_of_mem _ hb)) hf
      have hlen : (a :: rest).length = 1 + rest.length := by simp; omega
      rw [hlen]
      have wfn : WF { sh1 with T := 1 + rest.length } := ⟨hS, by simp; omega, by rw [v1]; omega⟩
      have hbase : ∀ d, basePresent { sh1 with T := 1 + rest.length } d = true →
          d ∈ validClasses { sh1 with T := 1 + rest.length } := by
        intro d hd
        have hvs : validClasses { sh1 with T := 1 + rest.length }
            = [gconst, gslices, tsamples, tslices] := by simp [validClasses, nd4]
        rw [hvs]
        cases d <;> simp [basePresent, hvec] at hd ⊢
      exact finalSimplify_valid null _ wfn hsl hbase r0 r hv0 h
end merge_valid

/-! ### C01, per key: the three-level merge of `to_nifti(embed_meta=True)` is lossless -/
section convert
variable {α : Type} [DecidableEq α]

/-- **C01 (metadata, one key, 5-D result):** if the per-volume, per-vector and final merges of
    `to_nifti` succeed, then looking the key up at slice `s`, time `t`, vector `v` returns exactly
    what file `(s,t,v)` carried — `null` if that file lacked the key. -/
theorem convert_lookup_key (null : α) (S T V : Nat) (hS : 0 < S) (hT : 2 ≤ T) (hV : 0 < V)
    (val : Nat → Nat → Nat → Option α)
    (vol : Nat → Nat → KeyState α) (vec : Nat → KeyState α) (r : KeyState α)
    (hvol : ∀ t v, t < T → v < V →
      mergeSliceK null ⟨3, 1, 1, 1, true, false, false⟩
        ((List.range S).map fun s => fileKS (val s t v)) = .ok (vol t v))
    (hvec : ∀ v, v < V →
      mergeTimeK null ⟨4, S, 1, 1, true, true, false⟩ ⟨3, S, 1, 1, true, false, false⟩
        ((List.range T).map fun t => vol t v) = .ok (vec v))
    (hfin : mergeVecK null ⟨5, S, T, 1, true, true, true⟩ ⟨4, S, T, 1, true, true, false⟩
        ((List.range V).map vec) = .ok r) :
    ∀ s t v, s < S → t < T → v < V →
      lookupKS null ⟨5, S, T, V, true, true, true⟩ r s t v = some ((val s t v).getD null) := by
  let sh3 : Shp := ⟨3, 1, 1, 1, true, false, false⟩
  have hc3 : Consistent sh3 :=
    { hS := by decide, hT := by decide, hV := by decide, hnd := by decide, h3 := by decide,
      h4 := by decide, hsl := rfl, htime := by decide, hvec := by decide, trimmed4 := by decide }
  have hfile : ∀ x : Option α, ValidK sh3 (fileKS x) := by
    intro x; cases x with
    | none => trivial
    | some a => exact ⟨by decide, rfl⟩
  have hfilesIn : ∀ t v b, b ∈ (List.range S).map (fun s => fileKS (val s t v)) →
      ValidK { sh3 with S := 1 } b := by
    intro t v b hb
    obtain ⟨s, _, rfl⟩ := List.mem_map.mp hb
    exact hfile _
  -- stage 1 : volumes
  have volValid : ∀ t v, t < T → v < V → ValidK ⟨3, S, 1, 1, true, false, false⟩ (vol t v) := by
    intro t v ht hv
    have := mergeSlice_valid null sh3 hc3 _ (hfilesIn t v) (vol t v) (hvol t v ht hv)
    simpa [sh3] using this
  have volLook : ∀ s t v, s < S → t < T → v < V →
      lookupKS null ⟨3, S, 1, 1, true, false, false⟩ (vol t v) s 0 0
        = some ((val s t v).getD null) := by
    intro s t v hs ht hv
    have := mergeSlice_lookup null sh3 hc3 _ (hfilesIn t v) (vol t v) (hvol t v ht hv)
      s 0 0 (by simpa using hs) (by decide) (by decide)
    simp only [List.length_map, List.length_range, sh3] at this
    rw [this]
    simp only [List.getElem?_map, List.getElem?_range hs, Option.map_some, Option.getD_some]
    cases val s t v <;> simp [fileKS, lookupKS, proj]
  -- stage 2 : vector components
  have hvolsIn : ∀ v, v < V → ∀ b, b ∈ (List.range T).map (fun t => vol t v) →
      ValidK ⟨3, S, 1, 1, true, false, false⟩ b := by
    intro v hv b hb
    obtain ⟨t, ht, rfl⟩ := List.mem_map.mp hb
    exact volValid t v (List.mem_range.mp ht) hv
  have vecValid : ∀ v, v < V → ValidK ⟨4, S, T, 1, true, true, false⟩ (vec v) := by
    intro v hv
    have := mergeTime_valid null ⟨4, S, 1, 1, true, true, false⟩ ⟨3, S, 1, 1, true, false, false⟩
      hS rfl rfl rfl rfl rfl rfl rfl rfl rfl _ (hvolsIn v hv) (vec v) (hvec v hv)
    simpa using this
  have vecLook : ∀ s t v, s < S → t < T → v < V →
      lookupKS null ⟨4, S, T, 1, true, true, false⟩ (vec v) s t 0
        = some ((val s t v).getD null) := by
    intro s t v hs ht hv
    have := mergeTime_lookup null ⟨4, S, 1, 1, true, true, false⟩ ⟨3, S, 1, 1, true, false, false⟩
      hS rfl rfl rfl rfl rfl rfl rfl rfl rfl _ (hvolsIn v hv) (vec v) (hvec v hv)
      t s (by simpa using ht) hs
    simp only [List.length_map, List.length_range] at this
    rw [this]
    simp only [List.getElem?_map, List.getElem?_range ht, Option.map_some, Option.getD_some]
    exact volLook s t v hs ht hv
  -- stage 3 : the 5-D result
  have hvecsIn : ∀ b, b ∈ (List.range V).map vec → ValidK ⟨4, S, T, 1, true, true, false⟩ b := by
    intro b hb
    obtain ⟨v, hv, rfl⟩ := List.mem_map.mp hb
    exact vecValid v (List.mem_range.mp hv)
  intro s t v hs ht hv
  have := mergeVec_lookup null ⟨5, S, T, 1, true, true, true⟩ ⟨4, S, T, 1, true, true, false⟩
    hS (show 0 < T by omega) rfl rfl rfl (fun _ => show T ≠ 1 by omega) rfl rfl rfl rfl
    (Or.inr ⟨rfl, show T ≠ 1 by omega⟩) _ hvecsIn r hfin v s t (by simpa using hv) hs ht
  simp only [List.length_map, List.length_range] at this
  rw [this]
  simp only [List.getElem?_map, List.getElem?_range hv, Option.map_some, Option.getD_some]
  exact vecLook s t v hs ht hv
end convert


/-! ### `NiftiWrapper.get_meta` / `meta_valid` (C08), with the F2 and F16 repairs -/
section get_meta
variable {α : Type} [DecidableEq α]

theorem metaValid_matched (e : ExtGeom) (img : Img) (sh : Shp) (sd : Nat)
    (hm : Matched e img sh sd) (c : Cls) : metaValid e img c = true := by
  obtain ⟨hshape, hsd, hesd, hal, _, _, _, _, _⟩ := hm
  cases c <;> simp [metaValid, hshape, hsd, hesd, hal]

/-- **C08, matching image, in-bounds index:** `get_meta` returns the value at the asked position
    under the documented layout. -/
theorem getMeta_matched (e : ExtGeom) (img : Img) (sh : Shp) (sd : Nat)
    (hm : Matched e img sh sd) (c : Cls) (hcg : c ≠ gconst) (vals : List α)
    (idx : List Nat) (hil : idx.length = img.shape.length)
    (hib : (List.zip idx img.shape).all (fun p => decide (p.1 < p.2)) = true) :
    getMeta e img (some (c, vals)) (some idx) =
      GetOut.ofIdx (lookupK sh c vals (idx.getD sd 0) (idx.getD 3 0) (idx.getD 4 0)) := by
  have hv := metaValid_matched e img sh sd hm
  obtain ⟨_, hsd, _, _, _, _, hS, hT, hV⟩ := hm
  unfold getMeta
  simp only [hcg, if_false, hv c, Bool.not_true, Bool.false_eq_true, hil, ne_eq,
    not_true_eq_false, hib]
  simp only [hsd, hS, hT, lookupK]
  cases c <;> simp at hcg <;> simp [proj]


/-- **C08, mismatch:** when the image no longer matches the extension for the key's class, the
    default is returned — whatever the index (never a value from another position, never an
    exception). -/
theorem getMeta_mismatch (e : ExtGeom) (img : Img) (c : Cls) (hcg : c ≠ gconst) (vals : List α)
    (h : metaValid e img c = false) (index : Option (List Nat)) :
    getMeta e img (some (c, vals)) index = .dflt := by
  unfold getMeta; simp [hcg, h]

/-- **C08, no index:** only global constants are returned without an index. -/
theorem getMeta_noindex (e : ExtGeom) (img : Img) (c : Cls) (hcg : c ≠ gconst) (vals : List α) :
    getMeta e img (some (c, vals)) none = .dflt := by
  unfold getMeta; simp [hcg]

/-- **C08, bounds:** on a matching image a wrong-length or out-of-range index raises. -/
theorem getMeta_bounds (e : ExtGeom) (img : Img) (c : Cls) (hcg : c ≠ gconst) (vals : List α)
    (hv : metaValid e img c = true) (idx : List Nat)
    (hbad : idx.length ≠ img.shape.length ∨
      (List.zip idx img.shape).all (fun p => decide (p.1 < p.2)) = false) :
    getMeta e img (some (c, vals)) (some idx) = .indexError := by
  unfold getMeta
  simp only [hcg, if_false, hv, Bool.not_true, Bool.false_eq_true]
  rcases hbad with h | h
  · simp [h]
  · by_cases hl : idx.length ≠ img.shape.length
    · simp [hl]
    · simp [hl, h]
end get_meta

/-! ### uniqueness of the canonical form (C05) -/
section canon_unique
variable {α : Type} [DecidableEq α]

/-- every index below the multiplicity is the projection of some in-bounds position -/
theorem proj_surj (sh : Shp) (wf : WF sh) (hsl : sh.hasSlice = true) (c : Cls) (i : Nat)
    (hi : i < mult sh c) :
    ∃ s t v, s < sh.S ∧ t < sh.T ∧ v < sh.V ∧ proj sh s t v c = i := by
  obtain ⟨hS, hT, hV⟩ := wf
  cases c <;> simp only [mult, hsl, if_true] at hi <;> simp only [proj]
  · exact ⟨0, 0, 0, hS, hT, hV, by omega⟩
  · obtain ⟨s, t, v, hs, ht, hv, rfl⟩ := decomp sh.S sh.T sh.V i hS hT (by rw [← Nat.mul_assoc]; exact hi)
    exact ⟨s, t, v, hs, ht, hv, rfl⟩
  · refine ⟨0, i % sh.T, i / sh.T, hS, Nat.mod_lt _ hT, ?_, ?_⟩
    · exact Nat.div_lt_of_lt_mul hi
    · have := Nat.div_add_mod i sh.T; omega
  · exact ⟨i, 0, 0, hi, hT, hV, rfl⟩
  · exact ⟨0, 0, i, hS, hT, hi, rfl⟩
  · refine ⟨i % sh.S, i / sh.S, 0, Nat.mod_lt _ hS, ?_, hV, ?_⟩
    · exact Nat.div_lt_of_lt_mul hi
    · have := Nat.div_add_mod i sh.S; omega

/-- Two valid key states in the same class that read the same everywhere hold the same list. -/
theorem same_class_unique (sh : Shp) (wf : WF sh) (hsl : sh.hasSlice = true) (c : Cls)
    (v1 v2 : List α) (h1 : v1.length = mult sh c) (h2 : v2.length = mult sh c)
    (heq : ∀ s t v, s < sh.S → t < sh.T → v < sh.V →
      lookupK sh c v1 s t v = lookupK sh c v2 s t v) : v1 = v2 := by
  apply List.ext_getElem?
  intro i
  by_cases hi : i < mult sh c
  · obtain ⟨s, t, v, hs, ht, hv, rfl⟩ := proj_surj sh wf hsl c i hi
    exact heq s t v hs ht hv
  · rw [List.getElem?_eq_none (by omega), List.getElem?_eq_none (by omega)]
end canon_unique


section convert_low
variable {α : Type} [DecidableEq α]

/-- **C01 (metadata, one key, 3-D result):** a single volume. -/
theorem convert_lookup_key_3d (null : α) (S : Nat) (hS : 0 < S) (val : Nat → Option α)
    (r : KeyState α)
    (h : mergeSliceK null ⟨3, 1, 1, 1, true, false, false⟩
        ((List.range S).map fun s => fileKS (val s)) = .ok r) :
    ∀ s, s < S →
      lookupKS null ⟨3, S, 1, 1, true, false, false⟩ r s 0 0 = some ((val s).getD null) := by
  let sh3 : Shp := ⟨3, 1, 1, 1, true, false, false⟩
  have hc3 : Consistent sh3 :=
    { hS := by decide, hT := by decide, hV := by decide, hnd := by decide, h3 := by decide,
      h4 := by decide, hsl := rfl, htime := by decide, hvec := by decide, trimmed4 := by decide }
  have hin : ∀ b, b ∈ (List.range S).map (fun s => fileKS (val s)) →
      ValidK { sh3 with S := 1 } b := by
    intro b hb
    obtain ⟨s, _, rfl⟩ := List.mem_map.mp hb
    cases val s with
    | none => trivial
    | some a => exact ⟨by decide, rfl⟩
  intro s hs
  have := mergeSlice_lookup null sh3 hc3 _ hin r h s 0 0 (by simpa using hs) (by decide) (by decide)
  simp only [List.length_map, List.length_range, sh3] at this
  rw [this]
  simp only [List.getElem?_map, List.getElem?_range hs, Option.map_some, Option.getD_some]
  cases val s <;> simp [fileKS, lookupKS, proj]

/-- **C01 (metadata, one key, 4-D result):** volumes merged along time. -/
theorem convert_lookup_key_4d (null : α) (S T : Nat) (hS : 0 < S) (hT : 0 < T)
    (val : Nat → Nat → Option α) (vol : Nat → KeyState α) (r : KeyState α)
    (hvol : ∀ t, t < T →
      mergeSliceK null ⟨3, 1, 1, 1, true, false, false⟩
        ((List.range S).map fun s => fileKS (val s t)) = .ok (vol t))
    (hfin : mergeTimeK null ⟨4, S, 1, 1, true, true, false⟩ ⟨3, S, 1, 1, true, false, false⟩
        ((List.range T).map vol) = .ok r) :
    ∀ s t, s < S → t < T →
      lookupKS null ⟨4, S, T, 1, true, true, false⟩ r s t 0 = some ((val s t).getD null) := by
  let sh3 : Shp := ⟨3, 1, 1, 1, true, false, false⟩
  have hc3 : Consistent sh3 :=
    { hS := by decide, hT := by decide, hV := by decide, hnd := by decide, h3 := by decide,
      h4 := by decide, hsl := rfl, htime := by decide, hvec := by decide, trimmed4 := by decide }
  have hfilesIn : ∀ t b, b ∈ (List.range S).map (fun s => fileKS (val s t)) →
      ValidK { sh3 with S := 1 } b := by
    intro t b hb
    obtain ⟨s, _, rfl⟩ := List.mem_map.mp hb
    cases val s t with
    | none => trivial
    | some a => exact ⟨by decide, rfl⟩
  have volValid : ∀ t, t < T → ValidK ⟨3, S, 1, 1, true, false, false⟩ (vol t) := by
    intro t ht
    have := mergeSlice_valid null sh3 hc3 _ (hfilesIn t) (vol t) (hvol t ht)
    simpa [sh3] using this
  have hvolsIn : ∀ b, b ∈ (List.range T).map vol → ValidK ⟨3, S, 1, 1, true, false, false⟩ b := by
    intro b hb
    obtain ⟨t, ht, rfl⟩ := List.mem_map.mp hb
    exact volValid t (List.mem_range.mp ht)
  intro s t hs ht
  have := mergeTime_lookup null ⟨4, S, 1, 1, true, true, false⟩ ⟨3, S, 1, 1, true, false, false⟩
    hS rfl rfl rfl rfl rfl rfl rfl rfl rfl _ hvolsIn r hfin t s (by simpa using ht) hs
  simp only [List.length_map, List.length_range] at this
  rw [this]
  simp only [List.getElem?_map, List.getElem?_range ht, Option.map_some, Option.getD_some]
  exact convert_lookup_key_3d null S hS (fun s => val s t) (vol t) (hvol t ht) s hs
end convert_low


/-! ### dictionary level: six ordered dictionaries, and the read-out of one key -/
section dict
variable {α : Type} [DecidableEq α] {κ : Type} [DecidableEq κ]

omit [DecidableEq α] in
theorem Dict.get?_set_self (d : Dict κ α) (k : κ) (v : List α) : (d.set k v).get? k = some v := by
  induction d with
  | nil => simp [Dict.set, Dict.get?]
  | cons p ps ih =>
    obtain ⟨k', v'⟩ := p
    by_cases h : k' = k
    · simp [Dict.set, Dict.get?, h]
    · simp [Dict.set, Dict.get?, h, ih]

omit [DecidableEq α] in
theorem Dict.get?_set_other (d : Dict κ α) (k k' : κ) (v : List α) (hne : k' ≠ k) :
    (d.set k v).get? k' = d.get? k' := by
  induction d with
  | nil => simp [Dict.set, Dict.get?]; exact fun e => absurd e.symm hne
  | cons p ps ih =>
    obtain ⟨k0, v0⟩ := p
    by_cases h : k0 = k
    · subst h
      have : ¬ k0 = k' := fun e => hne e.symm
      simp [Dict.set, Dict.get?, this]
    · by_cases h2 : k0 = k'
      · subst h2; simp [Dict.set, Dict.get?, h]
      · simp [Dict.set, Dict.get?, h, h2, ih]

omit [DecidableEq α] in
theorem Dict.get?_del_self (d : Dict κ α) (k : κ) : (d.del k).get? k = none := by
  induction d with
  | nil => rfl
  | cons p ps ih =>
    obtain ⟨k0, v0⟩ := p
    by_cases h : k0 = k
    · simp [Dict.del, h, ih]
    · simp [Dict.del, Dict.get?, h, ih]

omit [DecidableEq α] in
theorem Dict.get?_del_other (d : Dict κ α) (k k' : κ) (hne : k' ≠ k) :
    (d.del k).get? k' = d.get? k' := by
  induction d with
  | nil => rfl
  | cons p ps ih =>
    obtain ⟨k0, v0⟩ := p
    by_cases h : k0 = k
    · subst h
      have : ¬ k0 = k' := fun e => hne e.symm
      simp [Dict.del, Dict.get?, this, ih]
    · by_cases h2 : k0 = k'
      · subst h2; simp [Dict.del, Dict.get?, h]
      · simp [Dict.del, Dict.get?, h, h2, ih]

omit [DecidableEq α] in
/-- frame: writing key `k` does not change what any other key reads -/
theorem Ext.key_putKey_other (e : Ext κ α) (k k' : κ) (ks : KeyState α) (hne : k' ≠ k) :
    (e.putKey k ks).key k' = e.key k' := by
  unfold Ext.key Ext.putKey
  simp only
  congr 1
  funext c
  cases ks with
  | none => simp [Dict.get?_del_other _ _ _ hne]
  | some pr =>
    obtain ⟨c', v⟩ := pr
    by_cases hc : c = c'
    · simp [hc, Dict.get?_set_other _ _ _ _ hne, Dict.get?_del_other _ _ _ hne]
    · simp [hc, Dict.get?_del_other _ _ _ hne]

omit [DecidableEq α] in
/-- writing a key state in a valid class and reading it back -/
theorem Ext.key_putKey_self (e : Ext κ α) (k : κ) (ks : KeyState α)
    (hv : ∀ c v, ks = some (c, v) → c ∈ validClasses e.sh) :
    (e.putKey k ks).key k = ks := by
  unfold Ext.key Ext.putKey
  simp only
  cases ks with
  | none =>
    simp only [Dict.get?_del_self, Option.map_none]
    induction validClasses e.sh with
    | nil => rfl
    | cons c cs ih => simp [List.findSome?, ih]
  | some pr =>
    obtain ⟨c', v⟩ := pr
    have hmem := hv c' v rfl
    have hf : ∀ c, (((if c = c' then ((e.dict c).del k).set k v else (e.dict c).del k).get? k).map
        fun v => (c, v)) = if c = c' then some (c', v) else none := by
      intro c
      by_cases hc : c = c'
      · simp [hc, Dict.get?_set_self]
      · simp [hc, Dict.get?_del_self]
    simp only [hf]
    have gen : ∀ l : List Cls, c' ∈ l →
        l.findSome? (fun c => if c = c' then some (c', v) else none) = some (c', v) := by
      intro l
      induction l with
      | nil => intro h; simp at h
      | cons c cs ih =>
        intro hm
        by_cases hc : c = c'
        · simp [List.findSome?, hc]
        · have : c' ∈ cs := by
            rcases List.mem_cons.mp hm with h | h
            · exact absurd h.symm hc
            · exact h
          simp [List.findSome?, hc, ih this]
    exact gen _ hmem


omit [DecidableEq α] in
/-- **Keys are independent (C13):** running a per-key update over a duplicate-free list of keys
    changes exactly those keys, each by its own update applied to its own old state. -/
theorem Ext.foldl_putKey_key (f : κ → KeyState α → KeyState α) (ks : List κ) (hnd : ks.Nodup) :
    ∀ (e : Ext κ α),
      (∀ k st c v, f k st = some (c, v) → c ∈ validClasses e.sh) →
      ∀ k, ((ks.foldl (fun e k => e.putKey k (f k (e.key k))) e).key k)
        = if k ∈ ks then f k (e.key k) else e.key k := by
  induction ks with
  | nil => intro e _ k; simp
  | cons k0 rest ih =>
    intro e hv k
    have hnd' : rest.Nodup := (List.nodup_cons.mp hnd).2
    have hk0 : k0 ∉ rest := (List.nodup_cons.mp hnd).1
    simp only [List.foldl_cons]
    have hsh : (e.putKey k0 (f k0 (e.key k0))).sh = e.sh := rfl
    rw [ih hnd' (e.putKey k0 (f k0 (e.key k0))) (by rw [hsh]; exact hv) k]
    by_cases hk : k = k0
    · subst hk
      simp only [hk0, if_false, List.mem_cons, true_or, if_true]
      exact Ext.key_putKey_self e k _ (fun c v h => hv k _ c v h)
    · have hother := Ext.key_putKey_other e k0 k (f k0 (e.key k0)) hk
      by_cases hkr : k ∈ rest
      · simp [hkr, hother]
      · simp [hkr, hk, hother]
end dict


/-! ### canonicity of slice merges (C06): classes that bypass the final simplify are minimal too -/
section merge_canonical
variable {α : Type} [DecidableEq α]

/-- the class `_insert_slice` leaves the key in, and why -/
theorem insertSlice_class (null : α) (sh : Shp) (c : Cls) (lv : List α) (other : KeyState α)
    (r : KeyState α)
    (h : insertSliceK null sh { sh with S := 1 } (some (c, lv)) other = .ok r) :
    (r = some (c, lv) ∧ c = gconst) ∨
    (∃ vals, r = some (gslices, vals)) ∨
    (∃ vals, r = some (tslices, vals) ∧ c = tslices) ∨
    (c = gconst ∧ ∃ ov lv' ov', getChangedK null { sh with S := 1 } other gconst = .ok ov ∧
        lv ≠ ov ∧
        ((sh.hasTime = true ∧ r = some (tslices, lv' ++ ov')) ∨
         (sh.hasTime = false ∧ sh.hasVector = true ∧ r = some (vslices, lv' ++ ov')))) := by
  unfold insertSliceK at h
  simp only at h
  cases hgo : getChangedK null { sh with S := 1 } other c with
  | error e => simp [hgo] at h
  | ok ov =>
    simp only [hgo] at h
    by_cases hcg : c = gconst
    · subst hcg
      simp only [if_true] at h
      by_cases heq : lv = ov
      · simp only [heq, if_true] at h
        injection h with h; subst h
        exact Or.inl ⟨by rw [heq], rfl⟩
      · simp only [heq, if_false] at h
        by_cases htm : sh.hasTime = true
        · rw [if_pos htm] at h
          cases h1 : changeClassK null sh (some (gconst, lv)) tslices with
          | error e => simp [h1] at h
          | ok x =>
            cases x with
            | none =>
              cases h2 : getChangedK null { sh with S := 1 } other tslices <;> simp [h1, h2] at h
            | some pr =>
              cases h2 : getChangedK null { sh with S := 1 } other tslices with
              | error e => simp [h1, h2] at h
              | ok ov' =>
                simp [h1, h2] at h; subst h
                exact Or.inr (Or.inr (Or.inr ⟨rfl, ov, pr.2, ov', hgo, heq, Or.inl ⟨htm, rfl⟩⟩))
        · have htm' : sh.hasTime = false := by simpa using htm
          rw [if_neg htm] at h
          by_cases hvm : sh.hasVector = true
          · rw [if_pos hvm] at h
            cases h1 : changeClassK null sh (some (gconst, lv)) vslices with
            | error e => simp [h1] at h
            | ok x =>
              cases x with
              | none =>
                cases h2 : getChangedK null { sh with S := 1 } other vslices <;> simp [h1, h2] at h
              | some pr =>
                cases h2 : getChangedK null { sh with S := 1 } other vslices with
                | error e => simp [h1, h2] at h
                | ok ov' =>
                  simp [h1, h2] at h; subst h
                  exact Or.inr (Or.inr (Or.inr
                    ⟨rfl, ov, pr.2, ov', hgo, heq, Or.inr ⟨htm', hvm, rfl⟩⟩))
          · have hvm' : sh.hasVector = false := by simpa using hvm
            rw [if_neg hvm] at h
            cases h1 : changeClassK null sh (some (gconst, lv)) gslices with
            | error e => simp [h1] at h
            | ok x =>
              cases x with
              | none =>
                cases h2 : getChangedK null { sh with S := 1 } other gslices <;> simp [h1, h2] at h
              | some pr =>
                cases h2 : getChangedK null { sh with S := 1 } other gslices with
                | error e => simp [h1, h2] at h
                | ok ov' =>
                  simp [h1, h2] at h; subst h
                  exact Or.inr (Or.inl ⟨_, rfl⟩)
    · simp only [hcg, if_false] at h
      by_cases hct : c = tslices
      · subst hct
        simp only [if_true] at h
        injection h with h; subst h
        exact Or.inr (Or.inr (Or.inl ⟨_, rfl, rfl⟩))
      · simp only [hct, if_false] at h
        by_cases hcgs : c = gslices
        · subst hcgs
          simp only [if_true] at h
          injection h with h; subst h
          exact Or.inr (Or.inl ⟨_, rfl⟩)
        · simp only [hcgs, if_false] at h
          cases h1 : changeClassK null sh (some (c, lv)) gslices with
          | error e => simp [h1] at h
          | ok x =>
            cases x with
            | none =>
              cases h2 : getChangedK null { sh with S := 1 } other gslices <;> simp [h1, h2] at h
            | some pr =>
              cases h2 : getChangedK null { sh with S := 1 } other gslices with
              | error e => simp [h1, h2] at h
              | ok ov' =>
                simp [h1, h2] at h; subst h
                exact Or.inr (Or.inl ⟨_, rfl⟩)


/-- the first loop of `_insert` never moves a key *into* a per-slice class unless the other input
    has it there -/
theorem reclassify_keeps_perslice (null : α) (sh : Shp) (self : KeyState α) (oc : Cls)
    (hoc : oc = gconst ∨ oc = tsamples ∨ oc = vsamples)
    (a1 : KeyState α) (h : reclassifyK null sh self oc = .ok a1)
    (c : Cls) (lv : List α) (ha : a1 = some (c, lv)) (hc : c = tslices ∨ c = vslices) :
    a1 = self := by
  unfold reclassifyK at h
  simp only at h
  by_cases h1 : self.map (·.1) = some oc
  · simp only [h1, if_true] at h; injection h with h; exact h.symm
  · simp only [h1, if_false] at h
    by_cases h2 : oc ∈ preserving (self.map (·.1))
    · simp only [h2, if_true] at h
      unfold changeClassK at h
      simp only [h1, if_false] at h
      cases hg : getChangedK null sh self oc with
      | error e => simp [hg] at h
      | ok v =>
        simp [hg] at h; subst h
        injection ha with ha; injection ha with ha1 _
        rcases hoc with e | e | e <;> rcases hc with e' | e' <;> rw [e, e'] at ha1 <;> simp at ha1
    · simp only [h2, if_false] at h
      by_cases h3 : (self.map (·.1)).any (· ∈ preserving (some oc)) = true
      · simp only [h3, if_true] at h; injection h with h; exact h.symm
      · simp only [h3] at h
        -- the search for a common class never lands in tslices / vslices
        exfalso
        cases hf : (preserving (self.map (·.1))).find?
            (fun d => basePresent sh d && decide (d ∈ preserving (some oc))) with
        | none => simp [hf] at h
        | some d =>
          simp only [hf] at h
          have hd := List.find?_some hf
          simp only [Bool.and_eq_true, decide_eq_true_eq] at hd
          have hdo : d ∈ preserving (some oc) := hd.2
          -- class of the result is `d`
          have hcls : c = d := by
            unfold changeClassK at h
            by_cases hsame : self.map (·.1) = some d
            · simp only [hsame, if_true] at h
              injection h with h; subst h
              rw [ha] at hsame; simp at hsame; exact hsame
            · simp only [hsame, if_false] at h
              cases hg : getChangedK null sh self d with
              | error e => simp [hg] at h
              | ok v =>
                simp [hg] at h; subst h
                injection ha with ha; injection ha with ha1 _; exact ha1.symm
          subst hcls
          rcases hoc with e | e | e
          · -- oc = gconst : then `self` would already be widenable, contradiction with h3
            subst e
            cases self with
            | none => simp [preserving] at h2
            | some pr =>
              obtain ⟨c0, v0⟩ := pr
              simp only [Option.map_some, Option.any_some, decide_eq_true_eq] at h1 h3
              cases c0 <;> simp [preserving] at h1 h3
          · subst e; rcases hc with e' | e' <;> subst e' <;> simp [preserving] at hdo
          · subst e; rcases hc with e' | e' <;> subst e' <;> simp [preserving] at hdo


omit [DecidableEq α] in
theorem singleton_ne_head (l1 l2 : List α) (h1 : l1.length = 1) (h2 : l2.length = 1)
    (hne : l1 ≠ l2) : l1[0]? ≠ l2[0]? := by
  match l1, l2, h1, h2 with
  | [a], [b], _, _ =>
    intro e; simp at e; exact hne (by rw [e])

theorem stepSlice_inv (null : α) (sh : Shp) (hc : Consistent sh)
    (self b : KeyState α) (hself : ValidK sh self) (hb : ValidK { sh with S := 1 } b)
    (hbn : nonSliceClass b)
    (hpre : nonSliceClass self ∨ SliceInv null sh self)
    (r : KeyState α) (h : stepSliceK null sh self b = .ok r) :
    SliceInv null { sh with S := sh.S + 1 } r := by
  have hstep := stepSlice_lookup null sh hc self b hself hb r h
  obtain ⟨_, hk2, hk3⟩ := hstep
  unfold stepSliceK at h
  by_cases hnn : self = none ∧ b = none
  · simp only [hnn, and_self, if_true] at h
    injection h with h; subst h; trivial
  · simp only [hnn, if_false] at h
    have wf : WF sh := hc.toWFnd.toWF
    have hoc : otherClass b ∈ validClasses sh := by
      cases b with
      | none => exact gconst_valid sh
      | some pr => exact hb.1
    have hocn : otherClass b = gconst ∨ otherClass b = tsamples ∨ otherClass b = vsamples := by
      cases b with
      | none => exact Or.inl rfl
      | some pr => exact hbn
    cases hr : reclassifyK null sh self (otherClass b) with
    | error e => simp [hr] at h
    | ok a1 =>
      simp only [hr] at h
      obtain ⟨⟨c, lv, rfl⟩, hv1, hk1⟩ :=
        reclassify_spec null sh wf hc.hsl (consistent_base sh hc) self hself _ hoc _ hr
      rcases insertSlice_class null sh c lv b r h with
        ⟨hr1, hcg⟩ | ⟨vals, hr1⟩ | ⟨vals, hr1, hct⟩ | ⟨hcg, ov, lv', ov', hgo, hne, hcase⟩
      · subst hr1; subst hcg; exact Or.inl rfl
      · subst hr1; exact Or.inr (Or.inl rfl)
      · -- stays in time slices: `self` was already there and varies
        subst hr1; subst hct
        have hself' := reclassify_keeps_perslice null sh self _ hocn _ hr tslices lv rfl (Or.inl rfl)
        rw [← hself'] at hpre
        rcases hpre with hp | hp
        · rcases hp with e | e | e <;> simp at e
        · rcases hp with e | e | ⟨_, s, s', t, v, hs, hs', ht, hv, hne⟩
          · simp at e
          · simp at e
          · refine Or.inr (Or.inr ⟨Or.inl rfl, s, s', t, v, by simp; omega, by simp; omega, ht, hv, ?_⟩)
            rw [hk2 s t v hs ht hv, hk2 s' t v hs' ht hv, ← hself']
            exact hne
      · -- a constant started to vary: slice 0 and the new slice differ
        subst hcg
        have wfo : WF { sh with S := 1 } := ⟨by simp, wf.hT, wf.hV⟩
        obtain ⟨hovl, hovk⟩ := getChanged_lookup null _ wfo hc.hsl b hb gconst (gconst_valid _) ov hgo
        have hlv1 : lv.length = 1 := by simpa [mult] using hv1.2
        have hov1 : ov.length = 1 := by simpa [mult] using hovl
        have hdiff : lookupKS null { sh with S := sh.S + 1 } r 0 0 0 ≠
            lookupKS null { sh with S := sh.S + 1 } r sh.S 0 0 := by
          rw [hk2 0 0 0 wf.hS wf.hT wf.hV, hk3 0 0 wf.hT wf.hV, ← hk1 0 0 0 wf.hS wf.hT wf.hV]
          have := hovk 0 0 0 (by simp) wf.hT wf.hV
          simp only [proj] at this
          rw [← this]
          simp only [lookupKS, proj]
          exact singleton_ne_head lv ov hlv1 hov1 hne
        have hvar : SliceVaries null { sh with S := sh.S + 1 } r :=
          ⟨0, sh.S, 0, 0, by simp, by simp, wf.hT, wf.hV, hdiff⟩
        rcases hcase with ⟨_, hr1⟩ | ⟨htm, _, hr1⟩
        · subst hr1; exact Or.inr (Or.inr ⟨Or.inl rfl, hvar⟩)
        · subst hr1; exact Or.inr (Or.inr ⟨Or.inr ⟨rfl, htm⟩, hvar⟩)


theorem foldSlice_inv (null : α) (sh1 : Shp) (hc1 : Consistent sh1)
    (rest : List (KeyState α)) :
    ∀ (k : Nat) (acc r : KeyState α), 0 < k →
      ValidK { sh1 with S := k } acc →
      (nonSliceClass acc ∨ SliceInv null { sh1 with S := k } acc) →
      (∀ b, b ∈ rest → ValidK { sh1 with S := 1 } b ∧ nonSliceClass b) →
      foldSliceK null sh1 k acc rest = .ok r →
      (rest ≠ [] → SliceInv null { sh1 with S := k + rest.length } r) ∧
      (rest = [] → r = acc) := by
  induction rest with
  | nil =>
    intro k acc r _ _ _ _ h
    simp only [foldSliceK] at h
    injection h with h
    exact ⟨fun hne => absurd rfl hne, fun _ => h.symm⟩
  | cons b rest ih =>
    intro k acc r hk hv hpre hrest h
    simp only [foldSliceK] at h
    cases hs : stepSliceK null { sh1 with S := k } acc b with
    | error e => simp [hs] at h
    | ok acc' =>
      simp only [hs] at h
      have hck : Consistent { sh1 with S := k } :=
        { hS := hk, hT := hc1.hT, hV := hc1.hV, hnd := hc1.hnd, h3 := hc1.h3, h4 := hc1.h4,
          hsl := hc1.hsl, htime := hc1.htime, hvec := hc1.hvec, trimmed4 := hc1.trimmed4 }
      obtain ⟨hb1, hb2⟩ := hrest b List.mem_cons_self
      have hinv' := stepSlice_inv null { sh1 with S := k } hck acc b hv hb1 hb2 hpre acc' hs
      obtain ⟨hv', _, _⟩ := stepSlice_lookup null { sh1 with S := k } hck acc b hv hb1 acc' hs
      obtain ⟨ih1, ih2⟩ := ih (k + 1) acc' r (by omega) hv' (Or.inr hinv')
        (fun b' hb' => hrest b' (List.mem_cons_of_mem _ hb')) h
      refine ⟨fun _ => ?_, fun hne => by simp at hne⟩
      simp only [List.length_cons]
      rw [show k + (rest.length + 1) = k + 1 + rest.length by omega]
      by_cases hr : rest = []
      · subst hr
        have := ih2 rfl
        subst this
        simpa using hinv'
      · exact ih1 hr

/-- **C06 for slice merges:** with at least two inputs, none of which stores the key per slice
    (true of every canonical single-slice input), the merged key sits in a class that no class
    earlier in the preference order (with an existing dictionary) can replace. -/
theorem mergeSlice_minimal (null : α) (sh1 : Shp) (hc1 : Consistent sh1)
    (inputs : List (KeyState α)) (h2 : 2 ≤ inputs.length)
    (hin : ∀ b, b ∈ inputs → ValidK { sh1 with S := 1 } b ∧ nonSliceClass b)
    (r : KeyState α) (h : mergeSliceK null sh1 inputs = .ok r) :
    ∀ c vals, r = some (c, vals) →
      ∀ e, basePresent { sh1 with S := inputs.length } e = true → rank e < rank c →
        ¬ RepOK { sh1 with S := inputs.length }
            (fun s t v => lookupKS null { sh1 with S := inputs.length } r s t v) e := by
  cases inputs with
  | nil => simp at h2
  | cons a rest =>
    have hrne : rest ≠ [] := by
      intro e; subst e; simp at h2
    simp only [mergeSliceK] at h
    cases hf : foldSliceK null sh1 1 a rest with
    | error e => simp [hf] at h
    | ok r0 =>
      simp only [hf] at h
      obtain ⟨ha1, ha2⟩ := hin a List.mem_cons_self
      obtain ⟨hinv, _⟩ := foldSlice_inv null sh1 hc1 rest 1 a r0 (by omega) ha1 (Or.inl ha2)
        (fun b hb => hin b (List.mem_cons_of_mem _ hb)) hf
      have hinv := hinv hrne
      have hv0 : ValidK { sh1 with S := 1 + rest.length } r0 := by
        have hbase0 : ∀ i t v, i < 1 → t < sh1.T → v < sh1.V →
            lookupKS null { sh1 with S := 1 } a i t v =
              lookupKS null { sh1 with S := 1 } ([a][i]?.getD none) 0 t v := by
          intro i t v hi _ _
          have : i = 0 := by omega
          subst this; rfl
        exact (foldSlice_lookup null sh1 hc1 rest 1 [a] a r0 (by omega) rfl ha1 hbase0
          (fun b hb => (hin b (List.mem_cons_of_mem _ hb)).1) hf).1
      have hlen : (a :: rest).length = 1 + rest.length := by simp; omega
      rw [hlen]
      have wfn : WF { sh1 with S := 1 + rest.length } := ⟨by simp; omega, hc1.hT, hc1.hV⟩
      intro c vals hr e hbe hrank
      cases r0 with
      | none => simp at h; subst h; simp at hr
      | some pr =>
        obtain ⟨c0, vals0⟩ := pr
        by_cases hg : c0 = gslices
        · -- went through the final `_simplify`
          subst hg
          simp only [applySimplify] at h
          cases hsm : simplifyK null { sh1 with S := 1 + rest.length } gslices vals0 with
          | error er => simp [hsm] at h
          | ok o =>
            have hmin := simplify_gslices_minimal null _ wfn hc1.hsl vals0 hv0.2 o hsm e hbe
            have hlk : ∀ s t v, s < 1 + rest.length → t < sh1.T → v < sh1.V →
                lookupKS null { sh1 with S := 1 + rest.length } r s t v =
                  vals0[proj { sh1 with S := 1 + rest.length } s t v gslices]? := by
              intro s t v hs ht hv
              have := finalSimplify_lookup null { sh1 with S := 1 + rest.length } wfn hc1.hsl
                (some (gslices, vals0)) r hv0 (by simpa [applySimplify, hsm] using h) s t v hs ht hv
              exact this
            have hrk : rank e < rank (resultClass o) := by
              cases o with
              | unchanged => simp [hsm] at h; subst h; injection hr with hr; injection hr with hr1 _
                             simp only [resultClass]; rw [hr1]; exact hrank
              | deleted => simp [hsm] at h; subst h; simp at hr
              | moved d out => simp [hsm] at h; subst h; injection hr with hr; injection hr with hr1 _
                               simp only [resultClass]; rw [hr1]; exact hrank
            intro hrep
            apply hmin hrk
            intro s t v s' t' v' hs ht hv hs' ht' hv' hp
            have := hrep s t v s' t' v' hs ht hv hs' ht' hv' hp
            simp only at this
            rw [hlk s t v hs ht hv, hlk s' t' v' hs' ht' hv'] at this
            exact this
        · -- bypassed the final simplify: `r = r0`
          have hrr : r = some (c0, vals0) := by
            cases c0 <;> simp at hg <;> simp at h <;> exact h.symm
          subst hrr
          injection hr with hr; injection hr with hr1 _
          subst hr1
          rcases hinv with e1 | e1 | ⟨hcls, s, s', t, v, hs, hs', ht, hv, hne⟩
          · subst e1; simp [rank] at hrank
          · exact absurd e1 hg
          · -- per-slice class that really varies along the slice axis
            intro hrep
            have hproj : proj { sh1 with S := 1 + rest.length } s t v e =
                proj { sh1 with S := 1 + rest.length } s' t v e := by
              rcases hcls with e2 | ⟨e2, htm⟩
              · subst e2
                cases e <;> simp [rank] at hrank <;> simp [proj]
              · subst e2
                have htm' : sh1.hasTime = false := htm
                cases e with
                | gconst => simp [proj]
                | vsamples => simp [proj]
                | tsamples => simp [basePresent, htm'] at hbe
                | tslices => simp [basePresent, htm'] at hbe
                | vslices => simp [rank] at hrank
                | gslices => simp [rank] at hrank
            exact hne (hrep s t v s' t v hs ht hv hs' ht hv hproj)
end merge_canonical


/-! ### canonicity of time / vector merges (C06) -/
section sample_canonical
variable {α : Type} [DecidableEq α]

/-- the class `_insert_sample` leaves the key in, and why -/
theorem insertSample_class (null : α) (isTime : Bool) (sh osh : Shp) (c : Cls) (lv : List α)
    (other : KeyState α) (r : KeyState α)
    (h : insertSampleK null isTime sh osh (some (c, lv)) other = .ok r) :
    let samp := if isTime then tsamples else vsamples
    (r = some (c, lv) ∧ c = gconst) ∨
    (∃ vals, r = some (gslices, vals)) ∨
    (∃ vals, r = some (samp, vals) ∧ c = samp) ∨
    (c = gconst ∧ ∃ ov lv' ov', getChangedK null osh other gconst = .ok ov ∧ lv ≠ ov ∧
        r = some (samp, lv' ++ ov')) := by
  intro samp
  unfold insertSampleK at h
  simp only at h
  cases hgo : getChangedK null osh other c with
  | error e => simp [hgo] at h
  | ok ov =>
    simp only [hgo] at h
    by_cases hcg : c = gconst
    · subst hcg
      simp only [if_true] at h
      by_cases heq : lv = ov
      · simp only [heq, if_true] at h
        injection h with h; subst h
        exact Or.inl ⟨by rw [heq], rfl⟩
      · simp only [heq, if_false] at h
        cases h1 : changeClassK null sh (some (gconst, lv)) (if isTime = true then tsamples else vsamples) with
        | error e => simp [h1] at h
        | ok x =>
          cases x with
          | none =>
            cases h2 : getChangedK null osh other (if isTime = true then tsamples else vsamples) <;>
              simp [h1, h2] at h
          | some pr =>
            cases h2 : getChangedK null osh other (if isTime = true then tsamples else vsamples) with
            | error e => simp [h1, h2] at h
            | ok ov' =>
              simp [h1, h2] at h; subst h
              exact Or.inr (Or.inr (Or.inr ⟨rfl, ov, pr.2, ov', hgo, heq, rfl⟩))
    · simp only [hcg, if_false] at h
      by_cases hct : c = (if isTime = true then tsamples else vsamples)
      · simp only [hct, if_true] at h
        injection h with h; subst h
        exact Or.inr (Or.inr (Or.inl ⟨_, rfl, hct⟩))
      · simp only [hct, if_false] at h
        by_cases hcgs : c = gslices
        · subst hcgs
          simp only [if_true] at h
          injection h with h; subst h
          split <;> exact Or.inr (Or.inl ⟨_, rfl⟩)
        · simp only [hcgs, if_false] at h
          cases h1 : changeClassK null sh (some (c, lv)) gslices with
          | error e => simp [h1] at h
          | ok x =>
            cases x with
            | none =>
              cases h2 : getChangedK null osh other gslices <;> simp [h1, h2] at h
            | some pr =>
              cases h2 : getChangedK null osh other gslices with
              | error e => simp [h1, h2] at h
              | ok ov' =>
                simp [h1, h2] at h; subst h
                split <;> exact Or.inr (Or.inl ⟨_, rfl⟩)


/-- general form of `reclassify_keeps_perslice`: the first loop of `_insert` moves a key into
    class `X` only if the other input has it there or (from a constant) could widen to it -/
theorem reclassify_keeps (null : α) (sh : Shp) (self : KeyState α) (oc X : Cls)
    (hne : oc ≠ X) (hX : X ∈ preserving (some oc) → oc = gconst)
    (a1 : KeyState α) (h : reclassifyK null sh self oc = .ok a1)
    (lv : List α) (ha : a1 = some (X, lv)) : a1 = self := by
  unfold reclassifyK at h
  simp only at h
  by_cases h1 : self.map (·.1) = some oc
  · simp only [h1, if_true] at h; injection h with h; exact h.symm
  · simp only [h1, if_false] at h
    by_cases h2 : oc ∈ preserving (self.map (·.1))
    · simp only [h2, if_true] at h
      unfold changeClassK at h
      simp only [h1, if_false] at h
      cases hg : getChangedK null sh self oc with
      | error e => simp [hg] at h
      | ok v =>
        simp [hg] at h; subst h
        injection ha with ha; injection ha with ha1 _
        exact absurd ha1 hne
    · simp only [h2, if_false] at h
      by_cases h3 : (self.map (·.1)).any (· ∈ preserving (some oc)) = true
      · simp only [h3, if_true] at h; injection h with h; exact h.symm
      · simp only [h3] at h
        exfalso
        cases hf : (preserving (self.map (·.1))).find?
            (fun d => basePresent sh d && decide (d ∈ preserving (some oc))) with
        | none => simp [hf] at h
        | some d =>
          simp only [hf] at h
          have hd := List.find?_some hf
          simp only [Bool.and_eq_true, decide_eq_true_eq] at hd
          have hcls : X = d := by
            unfold changeClassK at h
            by_cases hsame : self.map (·.1) = some d
            · simp only [hsame, if_true] at h
              injection h with h; subst h
              rw [ha] at hsame; simp at hsame; exact hsame
            · simp only [hsame, if_false] at h
              cases hg : getChangedK null sh self d with
              | error e => simp [hg] at h
              | ok v =>
                simp [hg] at h; subst h
                injection ha with ha; injection ha with ha1 _; exact ha1.symm
          subst hcls
          have hocg := hX hd.2
          subst hocg
          cases self with
          | none => simp [preserving] at h2
          | some pr =>
            obtain ⟨c0, v0⟩ := pr
            simp only [Option.map_some, Option.any_some, decide_eq_true_eq] at h1 h3
            cases c0 <;> simp [preserving] at h1 h3

theorem stepTime_inv (null : α) (sh osh : Shp) (hs : TimeSetup sh osh)
    (hvec : sh.hasVector = false)
    (self b : KeyState α) (hself : ValidK sh self) (hb : ValidK osh b)
    (hpre : TimeInv null sh self)
    (r : KeyState α) (h : stepSampleK null true sh osh self b = .ok r) :
    TimeInv null { sh with T := sh.T + 1 } r := by
  obtain ⟨_, hk2, hk3⟩ := stepTime_lookup null sh osh hs hvec self b hself hb r h
  unfold stepSampleK at h
  by_cases hnn : self = none ∧ b = none
  · simp only [hnn, and_self, if_true] at h
    injection h with h; subst h; trivial
  · simp only [hnn, if_false] at h
    have hvs : validClasses sh = [gconst, gslices, tsamples, tslices] := by
      simp [validClasses, hs.nd4]
    have hvo : validClasses osh = [gconst, gslices] := by simp [validClasses, hs.ond]
    have hbase : ∀ d, basePresent sh d = true → d ∈ validClasses sh := by
      intro d hd; rw [hvs]
      cases d <;> simp [basePresent, hvec] at hd ⊢
    have hocc : otherClass b = gconst ∨ otherClass b = gslices := by
      cases b with
      | none => exact Or.inl rfl
      | some pr =>
        have := hb.1; rw [hvo] at this
        simp only [otherClass]
        rcases List.mem_cons.mp this with e | e
        · exact Or.inl e
        · rcases List.mem_cons.mp e with e | e
          · exact Or.inr e
          · simp at e
    have hoc : otherClass b ∈ validClasses sh := by
      rw [hvs]; rcases hocc with e | e <;> rw [e] <;> simp
    cases hr : reclassifyK null sh self (otherClass b) with
    | error e => simp [hr] at h
    | ok a1 =>
      simp only [hr] at h
      obtain ⟨⟨c, lv, rfl⟩, hv1, hk1⟩ :=
        reclassify_spec null sh hs.wf hs.hsl hbase self hself _ hoc _ hr
      have hcl := insertSample_class null true sh osh c lv b r h
      simp only [if_true] at hcl
      rcases hcl with ⟨hr1, hcg⟩ | ⟨vals, hr1⟩ | ⟨vals, hr1, hct⟩ | ⟨hcg, ov, lv', ov', hgo, hne, hr1⟩
      · subst hr1; subst hcg; exact Or.inl rfl
      · subst hr1; exact Or.inr (Or.inl rfl)
      · -- stays in time samples: `self` was already there and varies
        subst hr1; subst hct
        have hself' := reclassify_keeps null sh self _ tsamples
          (by rcases hocc with e | e <;> rw [e] <;> simp)
          (by rcases hocc with e | e <;> rw [e] <;> simp [preserving]) _ hr lv rfl
        rw [← hself'] at hpre
        rcases hpre with e | e | ⟨_, s, t, t', hs', ht, ht', hne⟩
        · simp at e
        · simp at e
        · refine Or.inr (Or.inr ⟨rfl, s, t, t', hs', by simp; omega, by simp; omega, ?_⟩)
          rw [hk2 s t hs' ht, hk2 s t' hs' ht', ← hself']
          exact hne
      · -- a constant started to vary along time
        subst hcg; subst hr1
        have wfo : WF osh := ⟨by rw [hs.oS]; exact hs.wf.hS, by rw [hs.oT]; omega, by rw [hs.oV]; omega⟩
        obtain ⟨hovl, hovk⟩ := getChanged_lookup null osh wfo hs.ohsl b hb gconst
          (by rw [hvo]; simp) ov hgo
        have hlv1 : lv.length = 1 := by simpa [mult] using hv1.2
        have hov1 : ov.length = 1 := by simpa [mult] using hovl
        have hV0 : (0 : Nat) < sh.V := hs.wf.hV
        refine Or.inr (Or.inr ⟨rfl, 0, 0, sh.T, hs.wf.hS, by simp, by simp, ?_⟩)
        rw [hk2 0 0 hs.wf.hS hs.wf.hT, hk3 0 hs.wf.hS, ← hk1 0 0 0 hs.wf.hS hs.wf.hT hV0]
        have := hovk 0 0 0 (by rw [hs.oS]; exact hs.wf.hS) (by rw [hs.oT]; omega) (by rw [hs.oV]; omega)
        simp only [proj] at this
        rw [← this]
        simp only [lookupKS, proj]
        exact singleton_ne_head lv ov hlv1 hov1 hne


/-- **C06 for time merges (3-D inputs → 4-D):** the merged key sits in a class that no earlier
    class with an existing dictionary can replace — for *any* valid inputs. -/
theorem mergeTime_minimal (null : α) (sh1 osh : Shp)
    (hS : 0 < sh1.S) (hsl : sh1.hasSlice = true) (nd4 : sh1.nd = 4) (v1 : sh1.V = 1)
    (hvec : sh1.hasVector = false)
    (ond : osh.nd = 3) (oS : osh.S = sh1.S) (oT : osh.T = 1) (oV : osh.V = 1)
    (ohsl : osh.hasSlice = true)
    (inputs : List (KeyState α)) (hin : ∀ b, b ∈ inputs → ValidK osh b)
    (r : KeyState α) (h : mergeTimeK null sh1 osh inputs = .ok r) :
    ∀ c vals, r = some (c, vals) →
      ∀ e, basePresent { sh1 with T := inputs.length } e = true → rank e < rank c →
        ¬ RepOK { sh1 with T := inputs.length }
            (fun s t v => lookupKS null { sh1 with T := inputs.length } r s t v) e := by
  have setup : ∀ k, 0 < k → TimeSetup { sh1 with T := k } osh := fun k hk =>
    { wf := ⟨hS, hk, by rw [v1]; omega⟩, hsl := hsl, nd4 := nd4, v1 := v1, ond := ond, oS := oS,
      oT := oT, oV := oV, ohsl := ohsl }
  cases inputs with
  | nil => simp [mergeTimeK] at h
  | cons a rest =>
    simp only [mergeTimeK] at h
    cases hf : foldK (fun k acc b => stepSampleK null true { sh1 with T := k } osh acc b) 1 a rest with
    | error e => simp [hf] at h
    | ok r0 =>
      simp only [hf] at h
      have hvo : validClasses osh = [gconst, gslices] := by simp [validClasses, ond]
      have haval := hin a List.mem_cons_self
      have hacls : ∀ c vals, a = some (c, vals) → c = gconst ∨ c = gslices := by
        intro c vals ha; subst ha
        have := haval.1; rw [hvo] at this
        rcases List.mem_cons.mp this with e | e
        · exact Or.inl e
        · rcases List.mem_cons.mp e with e | e
          · exact Or.inr e
          · simp at e
      have hva : ValidK { sh1 with T := 1 } a := by
        cases a with
        | none => trivial
        | some pr =>
          obtain ⟨c, vals⟩ := pr
          obtain ⟨_, hl⟩ := haval
          refine ⟨?_, ?_⟩
          · simp [validClasses, nd4]
            rcases hacls c vals rfl with e | e
            · exact Or.inl e
            · exact Or.inr (Or.inl e)
          · rw [hl]
            rcases hacls c vals rfl with e | e
            · rw [e]; rfl
            · rw [e]; simp [mult, hsl, ohsl, oS, oT, oV, v1]
      have hia : TimeInv null { sh1 with T := 1 } a := by
        cases a with
        | none => trivial
        | some pr =>
          rcases hacls pr.1 pr.2 rfl with e | e
          · exact Or.inl e
          · exact Or.inr (Or.inl e)
      obtain ⟨⟨hv0, hinv⟩, _⟩ := foldK_lookup
        (fun k acc b => stepSampleK null true { sh1 with T := k } osh acc b)
        (fun k ks => ValidK { sh1 with T := k } ks ∧ TimeInv null { sh1 with T := k } ks)
        (ValidK osh)
        (fun _ _ _ (_ : Nat) => (none : Option α))
        (fun _ _ => none) (fun _ => True)
        (by
          intro k acc b r' hk hv hb hs
          obtain ⟨h1, _, _⟩ := stepTime_lookup null { sh1 with T := k } osh (setup k hk) hvec
            acc b hv.1 hb r' hs
          have h2 := stepTime_inv null { sh1 with T := k } osh (setup k hk) hvec acc b hv.1 hb
            hv.2 r' hs
          exact ⟨⟨h1, h2⟩, fun _ _ _ _ => rfl, fun _ _ => rfl⟩)
        rest 1 [a] a r0 (by omega) rfl ⟨hva, hia⟩ (fun _ _ _ _ => rfl)
        (fun b hb => hin b (List.mem_cons_of_mem _ hb)) hf
      have hlen : (a :: rest).length = 1 + rest.length := by simp; omega
      rw [hlen]
      have wfn : WF { sh1 with T := 1 + rest.length } := ⟨hS, by simp; omega, by rw [v1]; omega⟩
      intro c vals hr e hbe hrank
      cases r0 with
      | none => simp at h; subst h; simp at hr
      | some pr =>
        obtain ⟨c0, vals0⟩ := pr
        by_cases hg : c0 = gslices
        · subst hg
          simp only [applySimplify] at h
          cases hsm : simplifyK null { sh1 with T := 1 + rest.length } gslices vals0 with
          | error er => simp [hsm] at h
          | ok o =>
            have hmin := simplify_gslices_minimal null _ wfn hsl vals0 hv0.2 o hsm e hbe
            have hlk : ∀ s t v, s < sh1.S → t < 1 + rest.length → v < sh1.V →
                lookupKS null { sh1 with T := 1 + rest.length } r s t v =
                  vals0[proj { sh1 with T := 1 + rest.length } s t v gslices]? := by
              intro s t v hs ht hv
              exact finalSimplify_lookup null { sh1 with T := 1 + rest.length } wfn hsl
                (some (gslices, vals0)) r hv0 (by simpa [applySimplify, hsm] using h) s t v hs ht hv
            have hrk : rank e < rank (resultClass o) := by
              cases o with
              | unchanged => simp [hsm] at h; subst h; injection hr with hr; injection hr with hr1 _
                             simp only [resultClass]; rw [hr1]; exact hrank
              | deleted => simp [hsm] at h; subst h; simp at hr
              | moved d out => simp [hsm] at h; subst h; injection hr with hr; injection hr with hr1 _
                               simp only [resultClass]; rw [hr1]; exact hrank
            intro hrep
            apply hmin hrk
            intro s t v s' t' v' hs ht hv hs' ht' hv' hp
            have := hrep s t v s' t' v' hs ht hv hs' ht' hv' hp
            simp only at this
            rw [hlk s t v hs ht hv, hlk s' t' v' hs' ht' hv'] at this
            exact this
        · have hrr : r = some (c0, vals0) := by
            cases c0 <;> simp at hg <;> simp at h <;> exact h.symm
          subst hrr
          injection hr with hr; injection hr with hr1 _
          subst hr1
          rcases hinv with e1 | e1 | ⟨hcls, s, t, t', hs, ht, ht', hne⟩
          · subst e1; simp [rank] at hrank
          · exact absurd e1 hg
          · subst hcls
            intro hrep
            have hV0 : (0 : Nat) < sh1.V := by rw [v1]; omega
            have hproj : proj { sh1 with T := 1 + rest.length } s t 0 e =
                proj { sh1 with T := 1 + rest.length } s t' 0 e := by
              cases e with
              | gconst => simp [proj]
              | vsamples => simp [basePresent, hvec] at hbe
              | _ => simp [rank] at hrank
            exact hne (hrep s t 0 s t' 0 hs ht hV0 hs ht' hV0 hproj)
end sample_canonical


section vector_canonical
variable {α : Type} [DecidableEq α]

theorem stepVector_inv (null : α) (sh osh : Shp) (hs : VecSetup sh osh)
    (hvec : sh.hasVector = true) (htime : sh.hasTime = true → sh.T ≠ 1)
    (self b : KeyState α) (hself : ValidK sh self) (hb : ValidK osh b)
    (hpre : nonVectorClass self ∨ VecInv null sh self)
    (r : KeyState α) (h : stepSampleK null false sh osh self b = .ok r) :
    VecInv null { sh with V := sh.V + 1 } r := by
  obtain ⟨_, hk2, hk3⟩ := stepVector_lookup null sh osh hs hvec htime self b hself hb r h
  unfold stepSampleK at h
  by_cases hnn : self = none ∧ b = none
  · simp only [hnn, and_self, if_true] at h
    injection h with h; subst h; trivial
  · simp only [hnn, if_false] at h
    have hbase : ∀ d, basePresent sh d = true → d ∈ validClasses sh := by
      intro d hd
      unfold validClasses
      by_cases hT1 : sh.T = 1
      · cases d <;> simp [basePresent] at hd <;> simp [hs.nd5, hT1]
        all_goals exact absurd hT1 (htime hd)
      · cases d <;> simp [hs.nd5, hT1]
    have hocosh : otherClass b ∈ validClasses osh := by
      cases b with
      | none => exact gconst_valid osh
      | some pr => exact hb.1
    have hocnv : otherClass b ≠ vsamples := by
      intro e
      rw [e] at hocosh
      unfold validClasses at hocosh
      rcases hs.ond with ⟨h3, _⟩ | ⟨h4, _⟩
      · simp [h3] at hocosh
      · simp [h4] at hocosh
    have hocX : vsamples ∈ preserving (some (otherClass b)) → otherClass b = gconst := by
      intro hm
      cases hob : otherClass b <;> rw [hob] at hm <;> simp [preserving] at hm
    have hoc : otherClass b ∈ validClasses sh := by
      unfold validClasses at hocosh ⊢
      rcases hs.ond with ⟨h3, hT1⟩ | ⟨h4, hT1⟩
      · simp [h3] at hocosh; simp [hs.nd5, hT1]; rcases hocosh with e | e <;> rw [e] <;> simp
      · simp [h4] at hocosh; simp [hs.nd5, hT1]
        rcases hocosh with e | e | e | e <;> rw [e] <;> simp
    cases hr : reclassifyK null sh self (otherClass b) with
    | error e => simp [hr] at h
    | ok a1 =>
      simp only [hr] at h
      obtain ⟨⟨c, lv, rfl⟩, hv1, hk1⟩ :=
        reclassify_spec null sh hs.wf hs.hsl hbase self hself _ hoc _ hr
      have hcl := insertSample_class null false sh osh c lv b r h
      simp only [Bool.false_eq_true, if_false] at hcl
      rcases hcl with ⟨hr1, hcg⟩ | ⟨vals, hr1⟩ | ⟨vals, hr1, hct⟩ | ⟨hcg, ov, lv', ov', hgo, hne, hr1⟩
      · subst hr1; subst hcg; exact Or.inl rfl
      · subst hr1; exact Or.inr (Or.inl rfl)
      · subst hr1; subst hct
        have hself' := reclassify_keeps null sh self _ vsamples hocnv hocX _ hr lv rfl
        rw [← hself'] at hpre
        rcases hpre with hp | hp
        · exact absurd rfl hp.1
        · rcases hp with e | e | ⟨_, s, t, v, v', hs', ht, hv, hv', hne⟩
          · simp at e
          · simp at e
          · refine Or.inr (Or.inr ⟨rfl, s, t, v, v', hs', ht, by simp; omega, by simp; omega, ?_⟩)
            rw [hk2 s t v hs' ht hv, hk2 s t v' hs' ht hv', ← hself']
            exact hne
      · subst hcg; subst hr1
        have wfo : WF osh :=
          ⟨by rw [hs.oS]; exact hs.wf.hS, by rw [hs.oT]; exact hs.wf.hT, by rw [hs.oV]; omega⟩
        obtain ⟨hovl, hovk⟩ := getChanged_lookup null osh wfo hs.ohsl b hb gconst
          (gconst_valid _) ov hgo
        have hlv1 : lv.length = 1 := by simpa [mult] using hv1.2
        have hov1 : ov.length = 1 := by simpa [mult] using hovl
        refine Or.inr (Or.inr ⟨rfl, 0, 0, 0, sh.V, hs.wf.hS, hs.wf.hT, by simp, by simp, ?_⟩)
        rw [hk2 0 0 0 hs.wf.hS hs.wf.hT hs.wf.hV, hk3 0 0 hs.wf.hS hs.wf.hT,
          ← hk1 0 0 0 hs.wf.hS hs.wf.hT hs.wf.hV]
        have := hovk 0 0 0 (by rw [hs.oS]; exact hs.wf.hS) (by rw [hs.oT]; exact hs.wf.hT)
          (by rw [hs.oV]; omega)
        simp only [proj] at this
        rw [← this]
        simp only [lookupKS, proj]
        exact singleton_ne_head lv ov hlv1 hov1 hne


/-- **C06 for vector merges (3-D / 4-D inputs → 5-D):** with at least two inputs the merged key
    sits in a class that no earlier class with an existing dictionary can replace. -/
theorem mergeVec_minimal (null : α) (sh1 osh : Shp)
    (hS : 0 < sh1.S) (hT : 0 < sh1.T) (hsl : sh1.hasSlice = true) (nd5 : sh1.nd = 5)
    (hvec : sh1.hasVector = true) (htime : sh1.hasTime = true → sh1.T ≠ 1)
    (ohsl : osh.hasSlice = true) (oS : osh.S = sh1.S) (oT : osh.T = sh1.T) (oV : osh.V = 1)
    (ond : (osh.nd = 3 ∧ sh1.T = 1) ∨ (osh.nd = 4 ∧ sh1.T ≠ 1))
    (inputs : List (KeyState α)) (h2 : 2 ≤ inputs.length) (hin : ∀ b, b ∈ inputs → ValidK osh b)
    (r : KeyState α) (h : mergeVecK null sh1 osh inputs = .ok r) :
    ∀ c vals, r = some (c, vals) →
      ∀ e, basePresent { sh1 with V := inputs.length } e = true → rank e < rank c →
        ¬ RepOK { sh1 with V := inputs.length }
            (fun s t v => lookupKS null { sh1 with V := inputs.length } r s t v) e := by
  have setup : ∀ k, 0 < k → VecSetup { sh1 with V := k } osh := fun k hk =>
    { wf := ⟨hS, hT, hk⟩, hsl := hsl, nd5 := nd5, ohsl := ohsl, oS := oS, oT := oT, oV := oV,
      ond := ond }
  cases inputs with
  | nil => simp at h2
  | cons a rest =>
    have hrpos : 0 < rest.length := by simp at h2; omega
    simp only [mergeVecK] at h
    cases hf : foldK (fun k acc b => stepSampleK null false { sh1 with V := k } osh acc b) 1 a rest with
    | error e => simp [hf] at h
    | ok r0 =>
      simp only [hf] at h
      have haval := hin a List.mem_cons_self
      have hanv : nonVectorClass a := by
        cases a with
        | none => trivial
        | some pr =>
          have hc := haval.1
          unfold validClasses at hc
          rcases ond with ⟨h3, _⟩ | ⟨h4, _⟩
          · simp [h3] at hc; rcases hc with e | e <;> simp [nonVectorClass, e]
          · simp [h4] at hc; rcases hc with e | e | e | e <;> simp [nonVectorClass, e]
      have hva : ValidK { sh1 with V := 1 } a := by
        cases a with
        | none => trivial
        | some pr =>
          obtain ⟨c, vals⟩ := pr
          obtain ⟨hc, hl⟩ := haval
          refine ⟨?_, ?_⟩
          · unfold validClasses at hc ⊢
            rcases ond with ⟨h3, hT1⟩ | ⟨h4, hT1⟩
            · simp [h3] at hc; simp [nd5, hT1]; rcases hc with e | e <;> rw [e] <;> simp
            · simp [h4] at hc; simp [nd5, hT1]
              rcases hc with e | e | e | e <;> rw [e] <;> simp
          · rw [hl]; cases c <;> simp [mult, hsl, ohsl, oS, oT, oV]
      obtain ⟨⟨hv0, hinv⟩, _⟩ := foldK_lookup
        (fun k acc b => stepSampleK null false { sh1 with V := k } osh acc b)
        (fun k ks => ValidK { sh1 with V := k } ks ∧
          (if k = 1 then nonVectorClass ks ∨ VecInv null { sh1 with V := k } ks
           else VecInv null { sh1 with V := k } ks))
        (ValidK osh)
        (fun _ _ _ (_ : Nat) => (none : Option α))
        (fun _ _ => none) (fun _ => True)
        (by
          intro k acc b r' hk hv hb hs
          obtain ⟨h1, _, _⟩ := stepVector_lookup null { sh1 with V := k } osh (setup k hk) hvec htime
            acc b hv.1 hb r' hs
          have hpre : nonVectorClass acc ∨ VecInv null { sh1 with V := k } acc := by
            have := hv.2
            by_cases hk1 : k = 1
            · simpa [hk1] using this
            · simp only [hk1, if_false] at this; exact Or.inr this
          have h2' := stepVector_inv null { sh1 with V := k } osh (setup k hk) hvec htime acc b
            hv.1 hb hpre r' hs
          refine ⟨⟨h1, ?_⟩, fun _ _ _ _ => rfl, fun _ _ => rfl⟩
          have : k + 1 ≠ 1 := by omega
          simp only [this, if_false]
          exact h2')
        rest 1 [a] a r0 (by omega) rfl ⟨hva, by simp; exact Or.inl hanv⟩ (fun _ _ _ _ => rfl)
        (fun b hb => hin b (List.mem_cons_of_mem _ hb)) hf
      have hne1 : 1 + rest.length ≠ 1 := by omega
      simp only [hne1, if_false] at hinv
      have hlen : (a :: rest).length = 1 + rest.length := by simp; omega
      rw [hlen]
      have wfn : WF { sh1 with V := 1 + rest.length } := ⟨hS, hT, by simp; omega⟩
      intro c vals hr e hbe hrank
      cases r0 with
      | none => simp at h; subst h; simp at hr
      | some pr =>
        obtain ⟨c0, vals0⟩ := pr
        by_cases hg : c0 = gslices
        · subst hg
          simp only [applySimplify] at h
          cases hsm : simplifyK null { sh1 with V := 1 + rest.length } gslices vals0 with
          | error er => simp [hsm] at h
          | ok o =>
            have hmin := simplify_gslices_minimal null _ wfn hsl vals0 hv0.2 o hsm e hbe
            have hlk : ∀ s t v, s < sh1.S → t < sh1.T → v < 1 + rest.length →
                lookupKS null { sh1 with V := 1 + rest.length } r s t v =
                  vals0[proj { sh1 with V := 1 + rest.length } s t v gslices]? := by
              intro s t v hs ht hv
              exact finalSimplify_lookup null { sh1 with V := 1 + rest.length } wfn hsl
                (some (gslices, vals0)) r hv0 (by simpa [applySimplify, hsm] using h) s t v hs ht hv
            have hrk : rank e < rank (resultClass o) := by
              cases o with
              | unchanged => simp [hsm] at h; subst h; injection hr with hr; injection hr with hr1 _
                             simp only [resultClass]; rw [hr1]; exact hrank
              | deleted => simp [hsm] at h; subst h; simp at hr
              | moved d out => simp [hsm] at h; subst h; injection hr with hr; injection hr with hr1 _
                               simp only [resultClass]; rw [hr1]; exact hrank
            intro hrep
            apply hmin hrk
            intro s t v s' t' v' hs ht hv hs' ht' hv' hp
            have := hrep s t v s' t' v' hs ht hv hs' ht' hv' hp
            simp only at this
            rw [hlk s t v hs ht hv, hlk s' t' v' hs' ht' hv'] at this
            exact this
        · have hrr : r = some (c0, vals0) := by
            cases c0 <;> simp at hg <;> simp at h <;> exact h.symm
          subst hrr
          injection hr with hr; injection hr with hr1 _
          subst hr1
          rcases hinv with e1 | e1 | ⟨hcls, s, t, v, v', hs, ht, hv, hv', hne⟩
          · subst e1; simp [rank] at hrank
          · exact absurd e1 hg
          · subst hcls
            intro hrep
            have hproj : proj { sh1 with V := 1 + rest.length } s t v e =
                proj { sh1 with V := 1 + rest.length } s t v' e := by
              cases e with
              | gconst => simp [proj]
              | _ => simp [rank] at hrank
            exact hne (hrep s t v s t v' hs ht hv hs ht hv' hproj)
end vector_canonical

section convert_canonical
variable {α : Type} [DecidableEq α]

/-- **C06 for conversion (5-D result):** every key of the embedded extension sits at its simplest
    classification. -/
theorem convert_canonical_key (null : α) (S T V : Nat) (hS : 0 < S) (hT : 2 ≤ T) (hV : 2 ≤ V)
    (val : Nat → Nat → Nat → Option α)
    (vol : Nat → Nat → KeyState α) (vec : Nat → KeyState α) (r : KeyState α)
    (hvol : ∀ t v, t < T → v < V →
      mergeSliceK null ⟨3, 1, 1, 1, true, false, false⟩
        ((List.range S).map fun s => fileKS (val s t v)) = .ok (vol t v))
    (hvec : ∀ v, v < V →
      mergeTimeK null ⟨4, S, 1, 1, true, true, false⟩ ⟨3, S, 1, 1, true, false, false⟩
        ((List.range T).map fun t => vol t v) = .ok (vec v))
    (hfin : mergeVecK null ⟨5, S, T, 1, true, true, true⟩ ⟨4, S, T, 1, true, true, false⟩
        ((List.range V).map vec) = .ok r) :
    ∀ c vals, r = some (c, vals) →
      ∀ e, basePresent ⟨5, S, T, V, true, true, true⟩ e = true → rank e < rank c →
        ¬ RepOK ⟨5, S, T, V, true, true, true⟩
            (fun s t v => lookupKS null ⟨5, S, T, V, true, true, true⟩ r s t v) e := by
  let sh3 : Shp := ⟨3, 1, 1, 1, true, false, false⟩
  have hc3 : Consistent sh3 :=
    { hS := by decide, hT := by decide, hV := by decide, hnd := by decide, h3 := by decide,
      h4 := by decide, hsl := rfl, htime := by decide, hvec := by decide, trimmed4 := by decide }
  have hfilesIn : ∀ t v b, b ∈ (List.range S).map (fun s => fileKS (val s t v)) →
      ValidK { sh3 with S := 1 } b := by
    intro t v b hb
    obtain ⟨s, _, rfl⟩ := List.mem_map.mp hb
    cases val s t v with
    | none => trivial
    | some a => exact ⟨by decide, rfl⟩
  have volValid : ∀ t v, t < T → v < V → ValidK ⟨3, S, 1, 1, true, false, false⟩ (vol t v) := by
    intro t v ht hv
    have := mergeSlice_valid null sh3 hc3 _ (hfilesIn t v) (vol t v) (hvol t v ht hv)
    simpa [sh3] using this
  have hvolsIn : ∀ v, v < V → ∀ b, b ∈ (List.range T).map (fun t => vol t v) →
      ValidK ⟨3, S, 1, 1, true, false, false⟩ b := by
    intro v hv b hb
    obtain ⟨t, ht, rfl⟩ := List.mem_map.mp hb
    exact volValid t v (List.mem_range.mp ht) hv
  have vecValid : ∀ v, v < V → ValidK ⟨4, S, T, 1, true, true, false⟩ (vec v) := by
    intro v hv
    have := mergeTime_valid null ⟨4, S, 1, 1, true, true, false⟩ ⟨3, S, 1, 1, true, false, false⟩
      hS rfl rfl rfl rfl rfl rfl rfl rfl rfl _ (hvolsIn v hv) (vec v) (hvec v hv)
    simpa using this
  have hvecsIn : ∀ b, b ∈ (List.range V).map vec → ValidK ⟨4, S, T, 1, true, true, false⟩ b := by
    intro b hb
    obtain ⟨v, hv, rfl⟩ := List.mem_map.mp hb
    exact vecValid v (List.mem_range.mp hv)
  have := mergeVec_minimal null ⟨5, S, T, 1, true, true, true⟩ ⟨4, S, T, 1, true, true, false⟩
    hS (show 0 < T by omega) rfl rfl rfl (fun _ => show T ≠ 1 by omega) rfl rfl rfl rfl
    (Or.inr ⟨rfl, show T ≠ 1 by omega⟩) _ (by simpa using hV) hvecsIn r hfin
  simpa using this
end convert_canonical


/-! ### C05 (slice axis, per key): split then merge is the identity on canonical keys -/
section roundtrip
variable {α : Type} [DecidableEq α]

omit [DecidableEq α] in
/-- the list `_copy_slice` stores has the multiplicity of its destination class -/
theorem copySlice_valid (sh : Shp) (wf : WFnd sh) (hsl : sh.hasSlice = true) (c : Cls)
    (hps : perSlice c = true) (hv : c ∈ validClasses sh) (vals : List α)
    (hlen : vals.length = mult sh c) (idx : Nat) (hidx : idx < sh.S) :
    let rs := sliceSubsetShp sh
    let d := copySliceDest (validClasses rs) c
    d ∈ validClasses rs ∧ (copySliceVals sh.S (mult rs d) idx vals).length = mult rs d ∧
      (d = gconst ∨ d = tsamples ∨ d = vsamples) := by
  obtain ⟨⟨hS, hT, hV⟩, hnd, h3, h4⟩ := wf
  simp only [sliceSubsetShp]
  have hvr : validClasses { sh with S := 1 } = validClasses sh := rfl
  cases c <;> simp [perSlice] at hps
  · -- gslices
    have hl : vals.length = sh.S * (sh.T * sh.V) := by
      rw [hlen]; simp [mult, hsl, Nat.mul_assoc]
    have hsub := length_stride_drop sh.S (sh.T * sh.V) idx hidx vals hl
    rcases hnd with h | h | h
    · obtain ⟨hT1, hV1⟩ := h3 h
      simp [validClasses, h, copySliceDest, copySliceVals, mult, hsub, hT1, hV1]
    · have hV1 := h4 h
      simp [validClasses, h, copySliceDest, copySliceVals, mult, hsub, hV1]
    · by_cases hT1 : sh.T = 1
      · simp [validClasses, h, hT1, copySliceDest, copySliceVals, mult, hsub]
      · simp [validClasses, h, hT1, copySliceDest, copySliceVals, mult, hsub]
  · -- tslices
    have hl : vals.length = sh.S * 1 := by rw [hlen]; simp [mult, hsl]
    have hsub := length_stride_drop sh.S 1 idx hidx vals hl
    refine ⟨gconst_valid _, ?_, Or.inl rfl⟩
    simp [copySliceDest, copySliceVals, mult, hsub]
  · -- vslices
    have h5 : sh.nd = 5 := by
      rcases hnd with h | h | h <;> simp [validClasses, h] at hv <;> first | exact h | omega
    have hl : vals.length = sh.S * sh.T := by rw [hlen]; simp [mult, hsl]
    have hsub := length_stride_drop sh.S sh.T idx hidx vals hl
    by_cases hT1 : sh.T = 1
    · rw [hT1] at hsub
      simp [validClasses, h5, hT1, copySliceDest, copySliceVals, mult, hsub]
    · have hvc : validClasses { sh with S := 1 } =
          [gconst, gslices, tsamples, tslices, vsamples, vslices] := by
        simp [validClasses, h5, hT1]
      have hd : copySliceDest (validClasses { sh with S := 1 }) vslices = tsamples := by
        rw [hvc]; simp [copySliceDest]
      rw [hd]
      refine ⟨by rw [hvc]; simp, ?_, Or.inr (Or.inl rfl)⟩
      simp only [copySliceVals, mult, hsub]
      by_cases hV1 : sh.V = 1
      · simp [hV1, hsub]
      · have hlt : sh.T < sh.T * sh.V := by
          have : 2 ≤ sh.V := by omega
          calc sh.T = sh.T * 1 := (Nat.mul_one _).symm
            _ < sh.T * sh.V := Nat.mul_lt_mul_of_pos_left (by omega) hT
        simp only [hlt, if_true]
        rw [length_tile, hsub, Nat.mul_div_cancel_left _ hT, Nat.mul_comm]


/-- what `_simplify` can do to a key stored per sample or as a constant -/
theorem simplify_sample_class (null : α) (sh : Shp) (c : Cls) (vals : List α)
    (hc : c = gconst ∨ c = tsamples ∨ c = vsamples) (o : SimpOut α)
    (h : simplifyK null sh c vals = .ok o) :
    match o with
    | .moved d _ => d = gconst ∨ d = vsamples
    | _ => True := by
  cases o with
  | unchanged => trivial
  | deleted => trivial
  | moved d out =>
    unfold simplifyK at h
    by_cases hcg : c = gconst
    · subst hcg; simp at h; split at h <;> simp at h
    · simp only [hcg, if_false] at h
      cases hcl : constLoop sh c vals (constTests c) with
      | error e => simp [hcl] at h
      | ok res =>
        cases res with
        | some pr =>
          obtain ⟨d', out'⟩ := pr
          simp [hcl] at h
          obtain ⟨rfl, rfl⟩ := h
          obtain ⟨hmem, _, _⟩ := constLoop_spec sh c vals _ _ _ hcl
          rcases hc with e | e | e <;> subst e <;> simp [constTests] at hmem
          · exact hmem
          · exact Or.inl hmem
        | none =>
          simp only [hcl] at h
          rcases hc with e | e | e <;> subst e <;> simp [repeatTests, repeatLoop] at h

/-- **C04 (slice axis, per key):** the piece is valid for the one-slice shape, reads the parent at
    the fixed slice, and never stores the key per slice. -/
theorem subsetSlice_spec (null : α) (sh : Shp) (hc : Consistent sh)
    (ks : KeyState α) (hv : ValidK sh ks) (idx : Nat) (hidx : idx < sh.S)
    (p : KeyState α) (h : subsetSliceK null sh ks idx = .ok p) :
    ValidK { sh with S := 1 } p ∧ nonSliceClass p ∧
    ∀ t v, t < sh.T → v < sh.V →
      lookupKS null { sh with S := 1 } p 0 t v = lookupKS null sh ks idx t v := by
  cases ks with
  | none =>
    simp [subsetSliceK] at h; subst h
    exact ⟨trivial, trivial, fun _ _ _ _ => rfl⟩
  | some pr =>
    obtain ⟨c, vals⟩ := pr
    obtain ⟨hcv, hlen⟩ := hv
    unfold subsetSliceK at h
    by_cases hps : perSlice c = true
    · simp only [hps, if_true] at h
      have hvalid := copySlice_valid sh hc.toWFnd hc.hsl c hps hcv vals hlen idx hidx
      have hlook := copySlice_lookup sh hc.toWFnd hc.hsl c hps hcv vals hlen idx
      simp only [sliceSubsetShp] at hvalid hlook h
      obtain ⟨hdv, hdl, hdcls⟩ := hvalid
      have wfr : WF { sh with S := 1 } := ⟨by simp, hc.hT, hc.hV⟩
      have hcr : Consistent { sh with S := 1 } :=
        { hS := by simp, hT := hc.hT, hV := hc.hV, hnd := hc.hnd, h3 := hc.h3, h4 := hc.h4,
          hsl := hc.hsl, htime := hc.htime, hvec := hc.hvec, trimmed4 := hc.trimmed4 }
      simp only [applySimplify] at h
      cases hsm : simplifyK null { sh with S := 1 }
          (copySliceDest (validClasses { sh with S := 1 }) c)
          (copySliceVals sh.S (mult { sh with S := 1 }
            (copySliceDest (validClasses { sh with S := 1 }) c)) idx vals) with
      | error e => simp [hsm] at h
      | ok o =>
        have hcls := simplify_sample_class null _ _ _ hdcls o hsm
        cases o with
        | unchanged =>
          simp [hsm] at h; subst h
          refine ⟨⟨hdv, hdl⟩, hdcls, ?_⟩
          intro t v ht hv
          exact hlook t v hidx ht hv
        | deleted =>
          simp [hsm] at h; subst h
          -- only a constant `null` is deleted: the parent reads `null` at this slice
          refine ⟨trivial, trivial, ?_⟩
          intro t v ht hv
          unfold simplifyK at hsm
          by_cases hg : copySliceDest (validClasses { sh with S := 1 }) c = gconst
          · rw [hg] at hsm hlook
            simp only [if_true] at hsm
            split at hsm
            · rename_i hnull
              have := hlook t v hidx ht hv
              rw [hnull] at this
              show some null = lookupK sh c vals idx t v
              rw [← this]; rfl
            · simp at hsm
          · simp only [hg, if_false] at hsm
            split at hsm <;> (try split at hsm) <;> simp at hsm
        | moved d out =>
          simp [hsm] at h; subst h
          have hnb : ¬ (copySliceDest (validClasses { sh with S := 1 }) c = vslices ∧
              d = tsamples ∧ 1 < sh.V) := by
            intro ⟨e, _, _⟩; rcases hdcls with e' | e' | e' <;> rw [e'] at e <;> simp at e
          refine ⟨simplify_valid null _ wfr hc.hsl (consistent_base _ hcr) _ _ hdl d out hsm hnb,
            ?_, ?_⟩
          · rcases hcls with e | e
            · exact Or.inl e
            · exact Or.inr (Or.inr e)
          · intro t v ht hv
            have := simplify_lookup null _ wfr _ _ hc.hsl hdl d out hsm hnb 0 t v (by simp) ht hv
            show lookupK { sh with S := 1 } d out 0 t v = lookupK sh c vals idx t v
            rw [this]
            exact hlook t v hidx ht hv
    · have hps' : perSlice c = false := by simpa using hps
      simp only [hps', Bool.false_eq_true, if_false] at h
      injection h with h; subst h
      have hcn : c = gconst ∨ c = tsamples ∨ c = vsamples := by
        cases c <;> simp [perSlice] at hps' <;> simp
      refine ⟨⟨hcv, ?_⟩, hcn, ?_⟩
      · rw [hlen]; rcases hcn with e | e | e <;> rw [e] <;> simp [mult]
      · intro t v _ _
        rcases hcn with e | e | e <;> subst e <;> simp [lookupKS, proj]


theorem valid_base (sh : Shp) (hc : Consistent sh) (c : Cls) (h : c ∈ validClasses sh) :
    basePresent sh c = true := by
  unfold validClasses at h
  rcases hc.hnd with h3 | h4 | h5
  · simp [h3] at h; rcases h with e | e <;> subst e <;> rfl
  · have htm : sh.hasTime = true := hc.htime.mpr ⟨by omega, hc.trimmed4 h4⟩
    simp [h4] at h; rcases h with e | e | e | e <;> subst e <;> simp [basePresent, htm]
  · have hvm : sh.hasVector = true := hc.hvec.mpr h5
    by_cases hT1 : sh.T = 1
    · simp [h5, hT1] at h; rcases h with e | e | e | e <;> subst e <;> simp [basePresent, hvm]
    · have htm : sh.hasTime = true := hc.htime.mpr ⟨by omega, hT1⟩
      simp [h5, hT1] at h
      rcases h with e | e | e | e | e | e <;> subst e <;> simp [basePresent, hvm, htm]

theorem rank_inj (a b : Cls) (h : rank a = rank b) : a = b := by
  cases a <;> cases b <;> simp [rank] at h <;> rfl

theorem foldSlice_allnone (null : α) (sh1 : Shp) (rest : List (KeyState α))
    (hall : ∀ b, b ∈ rest → b = none) :
    ∀ k, foldSliceK null sh1 k none rest = .ok none := by
  induction rest with
  | nil => intro k; rfl
  | cons b rest ih =>
    intro k
    have hb : b = none := hall b List.mem_cons_self
    subst hb
    simp only [foldSliceK, stepSliceK, and_self, if_true]
    exact ih (fun b hb => hall b (List.mem_cons_of_mem _ hb)) (k + 1)

/-- **C05 (slice axis, per key):** splitting a canonical key along the slice axis and merging the
    pieces back in order reproduces it exactly — same class, same values. -/
theorem split_merge_slice_id (null : α) (sh : Shp) (hc : Consistent sh) (hS2 : 2 ≤ sh.S)
    (ks : KeyState α) (hv : ValidK sh ks) (hcan : Canonical null sh ks)
    (pieces : Nat → KeyState α)
    (hp : ∀ i, i < sh.S → subsetSliceK null sh ks i = .ok (pieces i))
    (r : KeyState α)
    (hm : mergeSliceK null sh ((List.range sh.S).map pieces) = .ok r) : r = ks := by
  have hlen : ((List.range sh.S).map pieces).length = sh.S := by simp
  have hsheq : ({ sh with S := ((List.range sh.S).map pieces).length } : Shp) = sh := by
    rw [hlen]
  have hspec : ∀ i, i < sh.S → ValidK { sh with S := 1 } (pieces i) ∧ nonSliceClass (pieces i) ∧
      ∀ t v, t < sh.T → v < sh.V →
        lookupKS null { sh with S := 1 } (pieces i) 0 t v = lookupKS null sh ks i t v :=
    fun i hi => subsetSlice_spec null sh hc ks hv i hi (pieces i) (hp i hi)
  have hin : ∀ b, b ∈ (List.range sh.S).map pieces →
      ValidK { sh with S := 1 } b ∧ nonSliceClass b := by
    intro b hb
    obtain ⟨i, hi, rfl⟩ := List.mem_map.mp hb
    exact ⟨(hspec i (List.mem_range.mp hi)).1, (hspec i (List.mem_range.mp hi)).2.1⟩
  -- lookups of the merged result
  have hlook : ∀ s t v, s < sh.S → t < sh.T → v < sh.V →
      lookupKS null sh r s t v = lookupKS null sh ks s t v := by
    intro s t v hs ht hvv
    have := mergeSlice_lookup null sh hc _ (fun b hb => (hin b hb).1) r hm s t v
      (by rw [hlen]; exact hs) ht hvv
    rw [hsheq] at this
    rw [this]
    simp only [List.getElem?_map, List.getElem?_range hs, Option.map_some, Option.getD_some]
    exact (hspec s hs).2.2 t v ht hvv
  have hvalid : ValidK sh r := by
    have := mergeSlice_valid null sh hc _ (fun b hb => (hin b hb).1) r hm
    rw [hsheq] at this; exact this
  have hmin := mergeSlice_minimal null sh hc _ (by rw [hlen]; exact hS2) hin r hm
  rw [hsheq] at hmin
  have wf : WF sh := hc.toWFnd.toWF
  cases ks with
  | none =>
    -- every piece is absent, so the merge never creates the key
    have hall : ∀ b, b ∈ (List.range sh.S).map pieces → b = none := by
      intro b hb
      obtain ⟨i, hi, rfl⟩ := List.mem_map.mp hb
      have := hp i (List.mem_range.mp hi)
      simp [subsetSliceK] at this
      exact this.symm
    cases hl : (List.range sh.S).map pieces with
    | nil => rw [hl] at hm; simp [mergeSliceK] at hm
    | cons a rest =>
      rw [hl] at hm hall
      have ha : a = none := hall a List.mem_cons_self
      subst ha
      simp only [mergeSliceK] at hm
      rw [foldSlice_allnone null sh rest (fun b hb => hall b (List.mem_cons_of_mem _ hb)) 1] at hm
      simp at hm
      exact hm.symm
  | some pr =>
    obtain ⟨c, vals⟩ := pr
    obtain ⟨hcv, hcl⟩ := hv
    obtain ⟨hcmin, hnn⟩ := hcan
    -- both sides denote the same function
    have hRep : ∀ (c' : Cls) (vals' : List α) (ks' : KeyState α), ks' = some (c', vals') →
        RepOK sh (fun s t v => lookupKS null sh ks' s t v) c' := by
      intro c' vals' ks' hk s t v s' t' v' _ _ _ _ _ _ hp'
      subst hk
      simp only [lookupKS]
      rw [hp']
    have hRepEq : ∀ e, RepOK sh (fun s t v => lookupKS null sh r s t v) e ↔
        RepOK sh (fun s t v => lookupKS null sh (some (c, vals)) s t v) e := by
      intro e
      constructor
      · intro h s t v s' t' v' hs ht hv' hs' ht' hv'' hp'
        have := h s t v s' t' v' hs ht hv' hs' ht' hv'' hp'
        simp only at this
        rw [hlook s t v hs ht hv', hlook s' t' v' hs' ht' hv''] at this
        exact this
      · intro h s t v s' t' v' hs ht hv' hs' ht' hv'' hp'
        have := h s t v s' t' v' hs ht hv' hs' ht' hv'' hp'
        simp only
        rw [hlook s t v hs ht hv', hlook s' t' v' hs' ht' hv'']
        exact this
    cases r with
    | none =>
      -- then the key reads null everywhere, so it would be a null constant
      exfalso
      have hnull : ∀ s t v, s < sh.S → t < sh.T → v < sh.V →
          lookupKS null sh (some (c, vals)) s t v = some null := by
        intro s t v hs ht hv'
        rw [← hlook s t v hs ht hv']; rfl
      have hrepg : RepOK sh (fun s t v => lookupKS null sh (some (c, vals)) s t v) gconst := by
        intro s t v s' t' v' hs ht hv' hs' ht' hv'' _
        simp only
        rw [hnull s t v hs ht hv', hnull s' t' v' hs' ht' hv'']
      have hcg : c = gconst := by
        apply Decidable.byContradiction
        intro hne
        have : rank gconst < rank c := by cases c <;> simp [rank] at hne ⊢
        exact hcmin gconst rfl this hrepg
      subst hcg
      have hl1 : vals.length = 1 := by simpa [mult] using hcl
      match vals, hl1 with
      | [x], _ =>
        have := hnull 0 0 0 wf.hS wf.hT wf.hV
        simp [lookupKS, proj] at this
        exact hnn ⟨rfl, by rw [this]⟩
    | some pr' =>
      obtain ⟨c', vals'⟩ := pr'
      obtain ⟨hcv', hcl'⟩ := hvalid
      have hmin' := hmin c' vals' rfl
      -- same class
      have hcc : c' = c := by
        apply rank_inj
        apply Nat.le_antisymm
        · apply Nat.le_of_not_lt
          intro hlt
          exact hmin' c (valid_base sh hc c hcv) hlt ((hRepEq c).mpr (hRep c vals _ rfl))
        · apply Nat.le_of_not_lt
          intro hlt
          exact hcmin c' (valid_base sh hc c' hcv') hlt ((hRepEq c').mp (hRep c' vals' _ rfl))
      subst hcc
      have : vals' = vals := same_class_unique sh wf hc.hsl c' vals' vals hcl' hcl
        (fun s t v hs ht hv' => hlook s t v hs ht hv')
      subst this; rfl
end roundtrip


/-! ### dictionary level of `_insert` / `from_sequence` and its factorisation (C13) -/
section dict_insert
variable {α : Type} [DecidableEq α] {κ : Type} [DecidableEq κ]

omit [DecidableEq α] in
theorem eraseDups_nodup (l : List κ) : l.eraseDups.Nodup := by
  induction h : l.length using Nat.strongRecOn generalizing l with
  | _ n ih =>
    cases l with
    | nil => simp [List.eraseDups]
    | cons a as =>
      rw [List.eraseDups_cons]
      refine List.nodup_cons.mpr ⟨?_, ?_⟩
      · intro hm
        have := (List.mem_eraseDups.mp hm)
        simp [List.mem_filter] at this
      · subst h
        exact ih _ (by simp; exact Nat.lt_succ_of_le (List.length_filter_le _ _)) _ rfl

omit [DecidableEq α] in
/-- **C13 for merges:** what the result says about a key depends only on that key's entries in
    the two inputs (and on the shape), not on any other key. -/
theorem Ext.insertWith_key (step : KeyState α → KeyState α → KeyState α) (self other : Ext κ α)
    (hstep : ∀ a b c v, step a b = some (c, v) → c ∈ validClasses self.sh) (k : κ) :
    (Ext.insertWith step self other).key k =
      if k ∈ (other.keys ++ self.keys).eraseDups then step (self.key k) (other.key k)
      else self.key k := by
  unfold Ext.insertWith
  exact Ext.foldl_putKey_key (fun k st => step st (other.key k)) _ (eraseDups_nodup _) self
    (fun k st c v h => hstep st (other.key k) c v h) k
end dict_insert

/-! ### merging along a non-slice spatial axis keeps exactly the agreeing keys (C03) -/
section merge_nonslice
variable {α : Type} [DecidableEq α]

theorem stepNonSlice_spec (null : α) (sh : Shp) (hc : Consistent sh)
    (self b : KeyState α) (hself : ValidK sh self) (hb : ValidK sh b)
    (r : KeyState α) (h : stepNonSliceK null sh self b = .ok r) :
    ValidK sh r ∧
    (Agree null sh self b → Agree null sh r self) ∧
    (¬ Agree null sh self b → r = none) := by
  unfold stepNonSliceK at h
  by_cases hnn : self = none ∧ b = none
  · simp only [hnn, and_self, if_true] at h
    injection h with h; subst h
    obtain ⟨rfl, rfl⟩ := hnn
    exact ⟨trivial, fun _ _ _ _ _ _ _ => rfl, fun _ => rfl⟩
  · simp only [hnn, if_false] at h
    have wf : WF sh := hc.toWFnd.toWF
    have hoc : otherClass b ∈ validClasses sh := by
      cases b with
      | none => exact gconst_valid sh
      | some pr => exact hb.1
    cases hr : reclassifyK null sh self (otherClass b) with
    | error e => simp [hr] at h
    | ok a1 =>
      simp only [hr] at h
      obtain ⟨⟨c, lv, rfl⟩, hv1, hk1⟩ :=
        reclassify_spec null sh wf hc.hsl (consistent_base sh hc) self hself _ hoc _ hr
      unfold insertNonSliceK at h
      simp only at h
      cases hg : getChangedK null sh b c with
      | error e => simp [hg] at h
      | ok ov =>
        simp only [hg] at h
        injection h with h
        obtain ⟨hovl, hovk⟩ := getChanged_lookup null sh wf hc.hsl b hb c hv1.1 ov hg
        by_cases heq : lv = ov
        · simp only [heq, if_true] at h; subst h
          subst heq
          exact ⟨hv1, fun _ s t v hs ht hv => hk1 s t v hs ht hv,
            fun hna => absurd (fun s t v hs ht hv => by
              rw [← hk1 s t v hs ht hv, ← hovk s t v hs ht hv]; rfl) hna⟩
        · simp only [heq, if_false] at h; subst h
          refine ⟨trivial, fun hag => ?_, fun _ => rfl⟩
          exfalso
          apply heq
          apply same_class_unique sh wf hc.hsl c lv ov hv1.2 hovl
          intro s t v hs ht hv
          show lookupKS null sh (some (c, lv)) s t v = ov[proj sh s t v c]?
          rw [hk1 s t v hs ht hv, hovk s t v hs ht hv]
          exact hag s t v hs ht hv

/-- **C03, non-slice spatial axis, per key:** if every input agrees with the first one at every
    position the key is kept with those values; as soon as one disagrees the key reads `null`
    everywhere (it is dropped, or survives only as a `null` constant). -/
theorem mergeNonSlice_spec (null : α) (sh : Shp) (hc : Consistent sh) (rest : List (KeyState α)) :
    ∀ (a acc r : KeyState α), ValidK sh acc → (∀ b, b ∈ rest → ValidK sh b) →
      (Agree null sh acc a ∨ Agree null sh acc none) →
      foldNonSliceK null sh acc rest = .ok r →
      ValidK sh r ∧
      ((Agree null sh acc a ∧ ∀ b, b ∈ rest → Agree null sh a b) → Agree null sh r a) ∧
      ((Agree null sh acc none ∨ ∃ b, b ∈ rest ∧ ¬ Agree null sh a b) → Agree null sh r none ∨
        Agree null sh r a ∧ Agree null sh a none) := by
  induction rest with
  | nil =>
    intro a acc r hv _ hpre h
    simp only [foldNonSliceK] at h; injection h with h; subst h
    refine ⟨hv, fun hh => hh.1, fun hh => ?_⟩
    rcases hh with h1 | ⟨b, hb, _⟩
    · exact Or.inl h1
    · simp at hb
  | cons b rest ih =>
    intro a acc r hv hrest hpre h
    simp only [foldNonSliceK] at h
    cases hs : stepNonSliceK null sh acc b with
    | error e => simp [hs] at h
    | ok acc' =>
      simp only [hs] at h
      obtain ⟨hv', hag, hdis⟩ := stepNonSlice_spec null sh hc acc b hv (hrest b List.mem_cons_self) acc' hs
      have hrest' : ∀ b', b' ∈ rest → ValidK sh b' := fun b' hb' => hrest b' (List.mem_cons_of_mem _ hb')
      -- what we know about acc'
      have hacc' : Agree null sh acc' a ∨ Agree null sh acc' none := by
        by_cases hab : Agree null sh acc b
        · have h1 := hag hab
          rcases hpre with hp | hp
          · exact Or.inl (fun s t v hs' ht hv'' => by rw [h1 s t v hs' ht hv'', hp s t v hs' ht hv''])
          · exact Or.inr (fun s t v hs' ht hv'' => by rw [h1 s t v hs' ht hv'', hp s t v hs' ht hv''])
        · rw [hdis hab]; exact Or.inr (fun _ _ _ _ _ _ => rfl)
      obtain ⟨ihv, ih1, ih2⟩ := ih a acc' r hv' hrest' hacc' h
      refine ⟨ihv, ?_, ?_⟩
      · intro ⟨hacca, hall⟩
        have hab : Agree null sh acc b := fun s t v hs' ht hv'' => by
          rw [hacca s t v hs' ht hv'']; exact hall b List.mem_cons_self s t v hs' ht hv''
        have h1 := hag hab
        exact ih1 ⟨fun s t v hs' ht hv'' => by rw [h1 s t v hs' ht hv'', hacca s t v hs' ht hv''],
          fun b' hb' => hall b' (List.mem_cons_of_mem _ hb')⟩
      · intro hh
        by_cases hab : Agree null sh acc b
        · have h1 := hag hab
          rcases hh with hn | ⟨b', hb', hnb'⟩
          · exact ih2 (Or.inl (fun s t v hs' ht hv'' => by rw [h1 s t v hs' ht hv'', hn s t v hs' ht hv'']))
          · rcases List.mem_cons.mp hb' with e | e
            · subst e
              -- acc agrees with b' but a does not: then acc was not a, i.e. acc reads null
              rcases hpre with hp | hp
              · exfalso; apply hnb'
                intro s t v hs' ht hv''
                rw [← hp s t v hs' ht hv'']; exact hab s t v hs' ht hv''
              · exact ih2 (Or.inl (fun s t v hs' ht hv'' => by
                  rw [h1 s t v hs' ht hv'', hp s t v hs' ht hv'']))
            · exact ih2 (Or.inr ⟨b', e, hnb'⟩)
        · have : acc' = none := hdis hab
          subst this
          exact ih2 (Or.inl (fun _ _ _ _ _ _ => rfl))
end merge_nonslice


/-! ### C04 / C05 (time axis of a 4-D extension, per key) -/
section roundtrip_time
variable {α : Type} [DecidableEq α]

/-- **C04 (time axis, 4-D parent, per key):** the piece is a valid 3-D key state that reads the
    parent at the fixed time point. -/
theorem subsetTime_spec4 (null : α) (sh : Shp) (hc : Consistent sh) (h4 : sh.nd = 4)
    (ks : KeyState α) (hv : ValidK sh ks) (idx : Nat) (hidx : idx < sh.T)
    (p : KeyState α) (h : subsetTimeK null sh ks idx = .ok p) :
    ValidK (timeSubsetShp sh) p ∧
    ∀ s, s < sh.S → lookupKS null (timeSubsetShp sh) p s 0 0 = lookupKS null sh ks s idx 0 := by
  have hV1 := hc.h4 h4
  have hrs : timeSubsetShp sh = { sh with nd := 3, T := 1, hasTime := false, hasVector := false } := by
    simp [timeSubsetShp, h4]
  cases ks with
  | none =>
    simp [subsetTimeK] at h; subst h
    exact ⟨trivial, fun _ _ => rfl⟩
  | some pr =>
    obtain ⟨c, vals⟩ := pr
    unfold subsetTimeK at h
    by_cases hcg : c = gconst
    · subst hcg
      simp only [if_true] at h
      injection h with h; subst h
      exact ⟨⟨gconst_valid _, by simpa [mult] using hv.2⟩, fun _ _ => rfl⟩
    · simp only [hcg, if_false] at h
      have hcs := copySampleTime_lookup sh hc (Or.inl h4) (fun h5 => by omega) c hcg vals hv idx hidx
      simp only at hcs
      obtain ⟨hval, hlk⟩ := hcs
      have hV0 : (0 : Nat) < sh.V := hc.hV
      by_cases hsimp : (copySampleK sh (timeSubsetShp sh) true idx c vals).2.2 = true
      · simp only [hsimp, if_true] at h
        have wfr : WF (timeSubsetShp sh) := by rw [hrs]; exact ⟨hc.hS, by simp, hc.hV⟩
        have hslr : (timeSubsetShp sh).hasSlice = true := by rw [hrs]; exact hc.hsl
        have hbase : ∀ d, basePresent (timeSubsetShp sh) d = true →
            d ∈ validClasses (timeSubsetShp sh) := by
          intro d hd; rw [hrs] at hd ⊢
          cases d <;> simp [basePresent] at hd <;> simp [validClasses]
        simp only [applySimplify] at h
        cases hsm : simplifyK null (timeSubsetShp sh)
            (copySampleK sh (timeSubsetShp sh) true idx c vals).1
            (copySampleK sh (timeSubsetShp sh) true idx c vals).2.1 with
        | error e => simp [hsm] at h
        | ok o =>
          -- in a 3-D result no vector / time dictionary exists: the latent reduction cannot fire
          have hnb : ∀ d, ¬ ((copySampleK sh (timeSubsetShp sh) true idx c vals).1 = vslices ∧
              d = tsamples ∧ 1 < (timeSubsetShp sh).V) := by
            intro d ⟨_, _, h1⟩; rw [hrs] at h1; simp [hV1] at h1
          cases o with
          | unchanged =>
            simp [hsm] at h; subst h
            exact ⟨hval, fun s hs => hlk s 0 hs hV0⟩
          | deleted =>
            simp [hsm] at h; subst h
            refine ⟨trivial, fun s hs => ?_⟩
            unfold simplifyK at hsm
            by_cases hg : (copySampleK sh (timeSubsetShp sh) true idx c vals).1 = gconst
            · rw [hg] at hsm
              simp only [if_true] at hsm
              split at hsm
              · rename_i hnull
                have := hlk s 0 hs hV0
                rw [hg, hnull] at this
                show some null = lookupK sh c vals s idx 0
                rw [← this]; rfl
              · simp at hsm
            · simp only [hg, if_false] at hsm
              split at hsm <;> (try split at hsm) <;> simp at hsm
          | moved d out =>
            simp [hsm] at h; subst h
            refine ⟨simplify_valid null _ wfr hslr hbase _ _ hval.2 d out hsm (hnb d), fun s hs => ?_⟩
            have := simplify_lookup null _ wfr _ _ hslr hval.2 d out hsm (hnb d) s 0 0
              (by rw [hrs]; exact hs) (by rw [hrs]; simp) (by rw [hrs]; exact hV0)
            show lookupK (timeSubsetShp sh) d out s 0 0 = lookupK sh c vals s idx 0
            rw [this]
            exact hlk s 0 hs hV0
      · have hsimp' : (copySampleK sh (timeSubsetShp sh) true idx c vals).2.2 = false := by
          simpa using hsimp
        simp only [hsimp', Bool.false_eq_true, if_false] at h
        injection h with h; subst h
        exact ⟨hval, fun s hs => hlk s 0 hs hV0⟩


theorem foldSample_allnone (null : α) (isTime : Bool) (shK : Nat → Shp) (osh : Shp)
    (rest : List (KeyState α)) (hall : ∀ b, b ∈ rest → b = none) :
    ∀ k, foldK (fun k acc b => stepSampleK null isTime (shK k) osh acc b) k none rest = .ok none := by
  induction rest with
  | nil => intro k; rfl
  | cons b rest ih =>
    intro k
    have hb : b = none := hall b List.mem_cons_self
    subst hb
    simp only [foldK, stepSampleK, and_self, if_true]
    exact ih (fun b hb => hall b (List.mem_cons_of_mem _ hb)) (k + 1)

/-- **C05 (time axis of a 4-D extension, per key):** splitting a canonical key along time and
    merging the 3-D pieces back in order reproduces it exactly. -/
theorem split_merge_time_id (null : α) (sh : Shp) (hc : Consistent sh) (h4 : sh.nd = 4)
    (ks : KeyState α) (hv : ValidK sh ks) (hcan : Canonical null sh ks)
    (pieces : Nat → KeyState α)
    (hp : ∀ i, i < sh.T → subsetTimeK null sh ks i = .ok (pieces i))
    (r : KeyState α)
    (hm : mergeTimeK null sh (timeSubsetShp sh) ((List.range sh.T).map pieces) = .ok r) :
    r = ks := by
  have hV1 := hc.h4 h4
  have hvecf : sh.hasVector = false := by
    cases hh : sh.hasVector with
    | false => rfl
    | true => have := hc.hvec.mp hh; omega
  have hrs : timeSubsetShp sh = { sh with nd := 3, T := 1, hasTime := false, hasVector := false } := by
    simp [timeSubsetShp, h4]
  have hlen : ((List.range sh.T).map pieces).length = sh.T := by simp
  have hsheq : ({ sh with T := ((List.range sh.T).map pieces).length } : Shp) = sh := by rw [hlen]
  have hspec := fun i hi => subsetTime_spec4 null sh hc h4 ks hv i hi (pieces i) (hp i hi)
  have hin : ∀ b, b ∈ (List.range sh.T).map pieces → ValidK (timeSubsetShp sh) b := by
    intro b hb
    obtain ⟨i, hi, rfl⟩ := List.mem_map.mp hb
    exact (hspec i (List.mem_range.mp hi)).1
  have wf : WF sh := hc.toWFnd.toWF
  have hV0 : (0 : Nat) < sh.V := wf.hV
  -- the hypotheses of the time-merge theorems
  have ond : (timeSubsetShp sh).nd = 3 := by rw [hrs]
  have oS : (timeSubsetShp sh).S = sh.S := by rw [hrs]
  have oT : (timeSubsetShp sh).T = 1 := by rw [hrs]
  have oV : (timeSubsetShp sh).V = 1 := by rw [hrs]; exact hV1
  have ohsl : (timeSubsetShp sh).hasSlice = true := by rw [hrs]; exact hc.hsl
  have hlook : ∀ s t, s < sh.S → t < sh.T →
      lookupKS null sh r s t 0 = lookupKS null sh ks s t 0 := by
    intro s t hs ht
    have := mergeTime_lookup null sh (timeSubsetShp sh) wf.hS hc.hsl h4 hV1 hvecf ond oS oT oV ohsl
      _ hin r hm t s (by rw [hlen]; exact ht) hs
    rw [hsheq] at this
    rw [this]
    simp only [List.getElem?_map, List.getElem?_range ht, Option.map_some, Option.getD_some]
    exact (hspec t ht).2 s hs
  have hlook3 : ∀ s t v, s < sh.S → t < sh.T → v < sh.V →
      lookupKS null sh r s t v = lookupKS null sh ks s t v := by
    intro s t v hs ht hv'
    have : v = 0 := by omega
    subst this; exact hlook s t hs ht
  have hvalid : ValidK sh r := by
    have := mergeTime_valid null sh (timeSubsetShp sh) wf.hS hc.hsl h4 hV1 hvecf ond oS oT oV ohsl
      _ hin r hm
    rw [hsheq] at this; exact this
  have hmin := mergeTime_minimal null sh (timeSubsetShp sh) wf.hS hc.hsl h4 hV1 hvecf ond oS oT oV ohsl
    _ hin r hm
  rw [hsheq] at hmin
  cases ks with
  | none =>
    have hall : ∀ b, b ∈ (List.range sh.T).map pieces → b = none := by
      intro b hb
      obtain ⟨i, hi, rfl⟩ := List.mem_map.mp hb
      have := hp i (List.mem_range.mp hi)
      simp [subsetTimeK] at this
      exact this.symm
    cases hl : (List.range sh.T).map pieces with
    | nil => rw [hl] at hm; simp [mergeTimeK] at hm
    | cons a rest =>
      rw [hl] at hm hall
      have ha : a = none := hall a List.mem_cons_self
      subst ha
      simp only [mergeTimeK] at hm
      rw [foldSample_allnone null true (fun k => { sh with T := k }) _ rest
        (fun b hb => hall b (List.mem_cons_of_mem _ hb)) 1] at hm
      simp at hm
      exact hm.symm
  | some pr =>
    obtain ⟨c, vals⟩ := pr
    obtain ⟨hcv, hcl⟩ := hv
    obtain ⟨hcmin, hnn⟩ := hcan
    have hRep : ∀ (c' : Cls) (vals' : List α) (ks' : KeyState α), ks' = some (c', vals') →
        RepOK sh (fun s t v => lookupKS null sh ks' s t v) c' := by
      intro c' vals' ks' hk s t v s' t' v' _ _ _ _ _ _ hp'
      subst hk
      simp only [lookupKS]
      rw [hp']
    have hRepEq : ∀ e, RepOK sh (fun s t v => lookupKS null sh r s t v) e ↔
        RepOK sh (fun s t v => lookupKS null sh (some (c, vals)) s t v) e := by
      intro e
      constructor
      · intro h s t v s' t' v' hs ht hv' hs' ht' hv'' hp'
        have := h s t v s' t' v' hs ht hv' hs' ht' hv'' hp'
        simp only at this
        rw [hlook3 s t v hs ht hv', hlook3 s' t' v' hs' ht' hv''] at this
        exact this
      · intro h s t v s' t' v' hs ht hv' hs' ht' hv'' hp'
        have := h s t v s' t' v' hs ht hv' hs' ht' hv'' hp'
        simp only
        rw [hlook3 s t v hs ht hv', hlook3 s' t' v' hs' ht' hv'']
        exact this
    cases r with
    | none =>
      exfalso
      have hnull : ∀ s t v, s < sh.S → t < sh.T → v < sh.V →
          lookupKS null sh (some (c, vals)) s t v = some null := by
        intro s t v hs ht hv'
        rw [← hlook3 s t v hs ht hv']; rfl
      have hrepg : RepOK sh (fun s t v => lookupKS null sh (some (c, vals)) s t v) gconst := by
        intro s t v s' t' v' hs ht hv' hs' ht' hv'' _
        simp only
        rw [hnull s t v hs ht hv', hnull s' t' v' hs' ht' hv'']
      have hcg : c = gconst := by
        apply Decidable.byContradiction
        intro hne
        have : rank gconst < rank c := by cases c <;> simp [rank] at hne ⊢
        exact hcmin gconst rfl this hrepg
      subst hcg
      have hl1 : vals.length = 1 := by simpa [mult] using hcl
      match vals, hl1 with
      | [x], _ =>
        have := hnull 0 0 0 wf.hS wf.hT wf.hV
        simp [lookupKS, proj] at this
        exact hnn ⟨rfl, by rw [this]⟩
    | some pr' =>
      obtain ⟨c', vals'⟩ := pr'
      obtain ⟨hcv', hcl'⟩ := hvalid
      have hmin' := hmin c' vals' rfl
      have hcc : c' = c := by
        apply rank_inj
        apply Nat.le_antisymm
        · apply Nat.le_of_not_lt
          intro hlt
          exact hmin' c (valid_base sh hc c hcv) hlt ((hRepEq c).mpr (hRep c vals _ rfl))
        · apply Nat.le_of_not_lt
          intro hlt
          exact hcmin c' (valid_base sh hc c' hcv') hlt ((hRepEq c').mp (hRep c' vals' _ rfl))
      subst hcc
      have : vals' = vals := same_class_unique sh wf hc.hsl c' vals' vals hcl' hcl
        (fun s t v hs ht hv' => hlook3 s t v hs ht hv')
      subst this; rfl
end roundtrip_time


/-! ### C04 / C05 (vector axis of a 5-D extension, per key) -/
section roundtrip_vec
variable {α : Type} [DecidableEq α]

theorem vecSubsetShp_facts (sh : Shp) (hc : Consistent sh) (h5 : sh.nd = 5) :
    let rs := vecSubsetShp sh
    rs.S = sh.S ∧ rs.T = sh.T ∧ rs.V = 1 ∧ rs.hasSlice = true ∧
    ((rs.nd = 3 ∧ sh.T = 1) ∨ (rs.nd = 4 ∧ sh.T ≠ 1)) ∧
    (∀ d, basePresent rs d = true → d ∈ validClasses rs) := by
  intro rs
  by_cases hT1 : sh.T = 1
  · have htm : sh.hasTime = false := by
      cases hh : sh.hasTime with
      | false => rfl
      | true => exact absurd hT1 (hc.htime.mp hh).2
    have hrs : rs = { sh with nd := 3, V := 1, hasVector := false } := by
      simp [rs, vecSubsetShp, hT1]
    rw [hrs]
    refine ⟨rfl, rfl, rfl, hc.hsl, Or.inl ⟨rfl, hT1⟩, ?_⟩
    intro d hd
    cases d <;> simp [basePresent, htm] at hd <;> simp [validClasses]
  · have hrs : rs = { sh with nd := 4, V := 1, hasVector := false } := by
      simp [rs, vecSubsetShp, hT1]
    rw [hrs]
    refine ⟨rfl, rfl, rfl, hc.hsl, Or.inr ⟨rfl, hT1⟩, ?_⟩
    intro d hd
    cases d <;> simp [basePresent] at hd <;> simp [validClasses]

/-- **C04 (vector axis, 5-D parent, per key)** -/
theorem subsetVec_spec (null : α) (sh : Shp) (hc : Consistent sh) (h5 : sh.nd = 5)
    (ks : KeyState α) (hv : ValidK sh ks) (idx : Nat) (hidx : idx < sh.V)
    (p : KeyState α) (h : subsetVecK null sh ks idx = .ok p) :
    ValidK (vecSubsetShp sh) p ∧
    ∀ s t, s < sh.S → t < sh.T →
      lookupKS null (vecSubsetShp sh) p s t 0 = lookupKS null sh ks s t idx := by
  obtain ⟨hrS, hrT, hrV, hrsl, _, hbase⟩ := vecSubsetShp_facts sh hc h5
  cases ks with
  | none =>
    simp [subsetVecK] at h; subst h
    exact ⟨trivial, fun _ _ _ _ => rfl⟩
  | some pr =>
    obtain ⟨c, vals⟩ := pr
    unfold subsetVecK at h
    by_cases hcg : c = gconst
    · subst hcg
      simp only [if_true] at h
      injection h with h; subst h
      exact ⟨⟨gconst_valid _, by simpa [mult] using hv.2⟩, fun _ _ _ _ => rfl⟩
    · simp only [hcg, if_false] at h
      have hcs := copySampleVec_lookup sh hc h5 c hcg vals hv idx hidx
      simp only at hcs
      obtain ⟨hval, hlk⟩ := hcs
      by_cases hsimp : (copySampleK sh (vecSubsetShp sh) false idx c vals).2.2 = true
      · simp only [hsimp, if_true] at h
        have wfr : WF (vecSubsetShp sh) := ⟨by rw [hrS]; exact hc.hS, by rw [hrT]; exact hc.hT,
          by rw [hrV]; omega⟩
        simp only [applySimplify] at h
        cases hsm : simplifyK null (vecSubsetShp sh)
            (copySampleK sh (vecSubsetShp sh) false idx c vals).1
            (copySampleK sh (vecSubsetShp sh) false idx c vals).2.1 with
        | error e => simp [hsm] at h
        | ok o =>
          have hnb : ∀ d, ¬ ((copySampleK sh (vecSubsetShp sh) false idx c vals).1 = vslices ∧
              d = tsamples ∧ 1 < (vecSubsetShp sh).V) := by
            intro d ⟨_, _, h1⟩; rw [hrV] at h1; omega
          cases o with
          | unchanged =>
            simp [hsm] at h; subst h
            exact ⟨hval, fun s t hs ht => hlk s t hs ht⟩
          | deleted =>
            simp [hsm] at h; subst h
            refine ⟨trivial, fun s t hs ht => ?_⟩
            unfold simplifyK at hsm
            by_cases hg : (copySampleK sh (vecSubsetShp sh) false idx c vals).1 = gconst
            · rw [hg] at hsm
              simp only [if_true] at hsm
              split at hsm
              · rename_i hnull
                have := hlk s t hs ht
                rw [hg, hnull] at this
                show some null = lookupK sh c vals s t idx
                rw [← this]; rfl
              · simp at hsm
            · simp only [hg, if_false] at hsm
              split at hsm <;> (try split at hsm) <;> simp at hsm
          | moved d out =>
            simp [hsm] at h; subst h
            refine ⟨simplify_valid null _ wfr hrsl hbase _ _ hval.2 d out hsm (hnb d),
              fun s t hs ht => ?_⟩
            have := simplify_lookup null _ wfr _ _ hrsl hval.2 d out hsm (hnb d) s t 0
              (by rw [hrS]; exact hs) (by rw [hrT]; exact ht) (by rw [hrV]; omega)
            show lookupK (vecSubsetShp sh) d out s t 0 = lookupK sh c vals s t idx
            rw [this]
            exact hlk s t hs ht
      · have hsimp' : (copySampleK sh (vecSubsetShp sh) false idx c vals).2.2 = false := by
          simpa using hsimp
        simp only [hsimp', Bool.false_eq_true, if_false] at h
        injection h with h; subst h
        exact ⟨hval, fun s t hs ht => hlk s t hs ht⟩


/-- **C05 (vector axis of a 5-D extension, per key):** splitting a canonical key along the vector
    axis and merging the pieces back in order reproduces it exactly. -/
theorem split_merge_vec_id (null : α) (sh : Shp) (hc : Consistent sh) (h5 : sh.nd = 5)
    (hV2 : 2 ≤ sh.V)
    (ks : KeyState α) (hv : ValidK sh ks) (hcan : Canonical null sh ks)
    (pieces : Nat → KeyState α)
    (hp : ∀ i, i < sh.V → subsetVecK null sh ks i = .ok (pieces i))
    (r : KeyState α)
    (hm : mergeVecK null sh (vecSubsetShp sh) ((List.range sh.V).map pieces) = .ok r) :
    r = ks := by
  obtain ⟨oS, oT, oV, ohsl, ond, _⟩ := vecSubsetShp_facts sh hc h5
  have hvect : sh.hasVector = true := hc.hvec.mpr h5
  have htime : sh.hasTime = true → sh.T ≠ 1 := fun hh => (hc.htime.mp hh).2
  have hlen : ((List.range sh.V).map pieces).length = sh.V := by simp
  have hsheq : ({ sh with V := ((List.range sh.V).map pieces).length } : Shp) = sh := by rw [hlen]
  have hspec := fun i hi => subsetVec_spec null sh hc h5 ks hv i hi (pieces i) (hp i hi)
  have hin : ∀ b, b ∈ (List.range sh.V).map pieces → ValidK (vecSubsetShp sh) b := by
    intro b hb
    obtain ⟨i, hi, rfl⟩ := List.mem_map.mp hb
    exact (hspec i (List.mem_range.mp hi)).1
  have wf : WF sh := hc.toWFnd.toWF
  have hlook : ∀ s t v, s < sh.S → t < sh.T → v < sh.V →
      lookupKS null sh r s t v = lookupKS null sh ks s t v := by
    intro s t v hs ht hv'
    have := mergeVec_lookup null sh (vecSubsetShp sh) wf.hS wf.hT hc.hsl h5 hvect htime ohsl oS oT oV
      ond _ hin r hm v s t (by rw [hlen]; exact hv') hs ht
    rw [hsheq] at this
    rw [this]
    simp only [List.getElem?_map, List.getElem?_range hv', Option.map_some, Option.getD_some]
    exact (hspec v hv').2 s t hs ht
  have hmin := mergeVec_minimal null sh (vecSubsetShp sh) wf.hS wf.hT hc.hsl h5 hvect htime ohsl oS oT
    oV ond _ (by rw [hlen]; exact hV2) hin r hm
  rw [hsheq] at hmin
  -- validity of the merged result: from the fold (before simplify) and `finalSimplify_valid`
  have hvalid : ValidK sh r := by
    have setup : ∀ k, 0 < k → VecSetup { sh with V := k } (vecSubsetShp sh) := fun k hk =>
      { wf := ⟨wf.hS, wf.hT, hk⟩, hsl := hc.hsl, nd5 := h5, ohsl := ohsl, oS := oS, oT := oT,
        oV := oV, ond := ond }
    cases hl : (List.range sh.V).map pieces with
    | nil => rw [hl] at hm; simp [mergeVecK] at hm
    | cons a rest =>
      rw [hl] at hm hin hlen
      simp only [mergeVecK] at hm
      cases hf : foldK (fun k acc b => stepSampleK null false { sh with V := k } (vecSubsetShp sh) acc b)
          1 a rest with
      | error e => simp [hf] at hm
      | ok r0 =>
        simp only [hf] at hm
        have haval := hin a List.mem_cons_self
        have hva : ValidK { sh with V := 1 } a := by
          cases a with
          | none => trivial
          | some pr =>
            obtain ⟨c, vals⟩ := pr
            obtain ⟨hcc, hl'⟩ := haval
            refine ⟨?_, ?_⟩
            · unfold validClasses at hcc ⊢
              rcases ond with ⟨h3, hT1⟩ | ⟨h4, hT1⟩
              · simp [h3] at hcc; simp [h5, hT1]; rcases hcc with e | e <;> rw [e] <;> simp
              · simp [h4] at hcc; simp [h5, hT1]
                rcases hcc with e | e | e | e <;> rw [e] <;> simp
            · rw [hl']; cases c <;> simp [mult, hc.hsl, ohsl, oS, oT, oV]
        obtain ⟨hv0, _⟩ := foldK_lookup
          (fun k acc b => stepSampleK null false { sh with V := k } (vecSubsetShp sh) acc b)
          (fun k ks => ValidK { sh with V := k } ks) (ValidK (vecSubsetShp sh))
          (fun _ _ _ (_ : Nat) => (none : Option α))
          (fun _ _ => none) (fun _ => True)
          (by
            intro k acc b r' hk hv'' hb hs
            obtain ⟨h1, _, _⟩ := stepVector_lookup null { sh with V := k } (vecSubsetShp sh)
              (setup k hk) hvect htime acc b hv'' hb r' hs
            exact ⟨h1, fun _ _ _ _ => rfl, fun _ _ => rfl⟩)
          rest 1 [a] a r0 (by omega) rfl hva (fun _ _ _ _ => rfl)
          (fun b hb => hin b (List.mem_cons_of_mem _ hb)) hf
        have hlen' : 1 + rest.length = sh.V := by simp at hlen; omega
        have hcn : Consistent { sh with V := 1 + rest.length } := by rw [hlen']; exact hc
        have := finalSimplify_valid null _ hcn.toWFnd.toWF hc.hsl (consistent_base _ hcn) r0 r hv0 hm
        rw [hlen'] at this; exact this
  cases ks with
  | none =>
    have hall : ∀ b, b ∈ (List.range sh.V).map pieces → b = none := by
      intro b hb
      obtain ⟨i, hi, rfl⟩ := List.mem_map.mp hb
      have := hp i (List.mem_range.mp hi)
      simp [subsetVecK] at this
      exact this.symm
    cases hl : (List.range sh.V).map pieces with
    | nil => rw [hl] at hm; simp [mergeVecK] at hm
    | cons a rest =>
      rw [hl] at hm hall
      have ha : a = none := hall a List.mem_cons_self
      subst ha
      simp only [mergeVecK] at hm
      rw [foldSample_allnone null false (fun k => { sh with V := k }) _ rest
        (fun b hb => hall b (List.mem_cons_of_mem _ hb)) 1] at hm
      simp at hm
      exact hm.symm
  | some pr =>
    obtain ⟨c, vals⟩ := pr
    obtain ⟨hcv, hcl⟩ := hv
    obtain ⟨hcmin, hnn⟩ := hcan
    have hRep : ∀ (c' : Cls) (vals' : List α) (ks' : KeyState α), ks' = some (c', vals') →
        RepOK sh (fun s t v => lookupKS null sh ks' s t v) c' := by
      intro c' vals' ks' hk s t v s' t' v' _ _ _ _ _ _ hp'
      subst hk
      simp only [lookupKS]
      rw [hp']
    have hRepEq : ∀ e, RepOK sh (fun s t v => lookupKS null sh r s t v) e ↔
        RepOK sh (fun s t v => lookupKS null sh (some (c, vals)) s t v) e := by
      intro e
      constructor
      · intro h s t v s' t' v' hs ht hv' hs' ht' hv'' hp'
        have := h s t v s' t' v' hs ht hv' hs' ht' hv'' hp'
        simp only at this
        rw [hlook s t v hs ht hv', hlook s' t' v' hs' ht' hv''] at this
        exact this
      · intro h s t v s' t' v' hs ht hv' hs' ht' hv'' hp'
        have := h s t v s' t' v' hs ht hv' hs' ht' hv'' hp'
        simp only
        rw [hlook s t v hs ht hv', hlook s' t' v' hs' ht' hv'']
        exact this
    cases r with
    | none =>
      exfalso
      have hnull : ∀ s t v, s < sh.S → t < sh.T → v < sh.V →
          lookupKS null sh (some (c, vals)) s t v = some null := by
        intro s t v hs ht hv'
        rw [← hlook s t v hs ht hv']; rfl
      have hrepg : RepOK sh (fun s t v => lookupKS null sh (some (c, vals)) s t v) gconst := by
        intro s t v s' t' v' hs ht hv' hs' ht' hv'' _
        simp only
        rw [hnull s t v hs ht hv', hnull s' t' v' hs' ht' hv'']
      have hcg : c = gconst := by
        apply Decidable.byContradiction
        intro hne
        have : rank gconst < rank c := by cases c <;> simp [rank] at hne ⊢
        exact hcmin gconst rfl this hrepg
      subst hcg
      have hl1 : vals.length = 1 := by simpa [mult] using hcl
      match vals, hl1 with
      | [x], _ =>
        have := hnull 0 0 0 wf.hS wf.hT wf.hV
        simp [lookupKS, proj] at this
        exact hnn ⟨rfl, by rw [this]⟩
    | some pr' =>
      obtain ⟨c', vals'⟩ := pr'
      obtain ⟨hcv', hcl'⟩ := hvalid
      have hmin' := hmin c' vals' rfl
      have hcc : c' = c := by
        apply rank_inj
        apply Nat.le_antisymm
        · apply Nat.le_of_not_lt
          intro hlt
          exact hmin' c (valid_base sh hc c hcv) hlt ((hRepEq c).mpr (hRep c vals _ rfl))
        · apply Nat.le_of_not_lt
          intro hlt
          exact hcmin c' (valid_base sh hc c' hcv') hlt ((hRepEq c').mp (hRep c' vals' _ rfl))
      subst hcc
      have : vals' = vals := same_class_unique sh wf hc.hsl c' vals' vals hcl' hcl
        (fun s t v hs ht hv' => hlook s t v hs ht hv')
      subst this; rfl
end roundtrip_vec


/-! ### `filter_meta` (C14) at dictionary level -/
section filter_meta
variable {α : Type} [DecidableEq α] {κ : Type} [DecidableEq κ]

omit [DecidableEq α] in
theorem Dict.get?_filterKeys (d : Dict κ α) (drop : κ → Bool) (k : κ) :
    (d.filterKeys drop).get? k = if drop k then none else d.get? k := by
  induction d with
  | nil => simp [Dict.filterKeys, Dict.get?]
  | cons p ps ih =>
    obtain ⟨k0, v0⟩ := p
    unfold Dict.filterKeys at ih ⊢
    by_cases hd : drop k0 = true
    · simp only [List.filter_cons, hd, Bool.not_true, Bool.false_eq_true, if_false]
      rw [ih]
      by_cases hk : k0 = k
      · subst hk; simp [hd]
      · simp [Dict.get?, hk]
    · have hd' : drop k0 = false := by simpa using hd
      simp only [List.filter_cons, hd', Bool.not_false, if_true]
      by_cases hk : k0 = k
      · subst hk; simp [Dict.get?, hd']
      · simp only [Dict.get?, hk, if_false]
        exact ih

omit [DecidableEq α] in
/-- **C14:** the filter removes exactly the keys it is told to — whatever their classification —
    and leaves every other key as it was. -/
theorem Ext.key_filterMeta (e : Ext κ α) (drop : κ → Bool) (k : κ) :
    (e.filterMeta drop).key k = if drop k then none else e.key k := by
  unfold Ext.key Ext.filterMeta
  simp only [Dict.get?_filterKeys]
  by_cases hd : drop k = true
  · simp only [hd, if_true, Option.map_none]
    induction validClasses e.sh with
    | nil => rfl
    | cons c cs ih => simp [List.findSome?, ih]
  · simp [hd]

theorem regexFilter_iff {ρ : Type} (mtch : ρ → κ → Bool) (excl incl : List ρ) (k : κ) :
    regexFilter mtch excl incl k = true ↔
      (∃ e, e ∈ excl ∧ mtch e k = true) ∧ ¬ (∃ i, i ∈ incl ∧ mtch i k = true) := by
  simp [regexFilter, List.any_eq_true]

/-- extra lists compose by append -/
theorem regexFilter_append {ρ : Type} (mtch : ρ → κ → Bool) (e1 e2 i1 i2 : List ρ) (k : κ) :
    regexFilter mtch (e1 ++ e2) (i1 ++ i2) k =
      ((regexFilter mtch e1 [] k || regexFilter mtch e2 [] k) &&
        !(i1.any (mtch · k) || i2.any (mtch · k))) := by
  simp [regexFilter, List.any_append]
end filter_meta

/-! ### non-vacuity: concrete runs of the model (the hypotheses of the theorems are met) -/
example : (mergeSliceK (α := Nat) 0 ⟨4, 1, 2, 1, true, true, false⟩
    [some (gconst, [1]), some (gconst, [2]), none]).toOption = some (some (tslices, [1, 2, 0])) := by decide
example : (mergeSliceK (α := Nat) 0 ⟨4, 1, 2, 1, true, true, false⟩
    [some (tsamples, [1, 2]), some (tsamples, [1, 2])]).toOption = some (some (tsamples, [1, 2])) := by decide
example : (mergeSliceK (α := Nat) 0 ⟨5, 1, 2, 2, true, true, true⟩
    [some (tsamples, [1, 2, 3, 4]), some (gconst, [7])]
      ).toOption = some (some (gslices, [1, 7, 2, 7, 3, 7, 4, 7])) := by decide
example : (mergeTimeK (α := Nat) 0 ⟨4, 2, 1, 1, true, true, false⟩ ⟨3, 2, 1, 1, true, false, false⟩
    [some (gconst, [1]), some (gconst, [2]), some (gslices, [3, 4])]).toOption
      = some (some (gslices, [1, 1, 2, 2, 3, 4])) := by decide
example : (mergeVecK (α := Nat) 0 ⟨5, 1, 2, 1, true, true, true⟩ ⟨4, 1, 2, 1, true, true, false⟩
    [some (tsamples, [1, 2]), some (tsamples, [1, 2]), none]).toOption
      = some (some (tsamples, [1, 2, 1, 2, 0, 0])) := by decide
example : Consistent ⟨5, 1, 2, 2, true, true, true⟩ :=
  { hS := by decide, hT := by decide, hV := by decide, hnd := by decide, h3 := by decide,
    h4 := by decide, hsl := rfl, htime := by decide, hvec := by decide, trimmed4 := by decide }


