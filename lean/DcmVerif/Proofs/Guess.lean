import DcmVerif.Proofs.Grid
/-! C11, guessed ordering (`get_shape` when neither `time_order` nor `vector_order` is given). -/
set_option autoImplicit false
namespace Stk

theorem retime_p (files : List GF) (k : Nat) : (retime files k).map (·.p) = (files.map (·.f)).map (·.p) := by
  simp [retime, List.map_map, Function.comp_def]

theorem retime_v (files : List GF) (k : Nat) : (retime files k).map (·.v) = (files.map (·.f)).map (·.v) := by
  simp [retime, List.map_map, Function.comp_def]

theorem retime_length (files : List GF) (k : Nat) : (retime files k).length = (files.map (·.f)).length := by
  simp [retime]

theorem retime_dims (files : List GF) (k : Nat) :
    dimS (retime files k) = dimS (files.map (·.f)) ∧ dimV (retime files k) = dimV (files.map (·.f)) ∧
    dimT (retime files k) = dimT (files.map (·.f)) := by
  have hS : dimS (retime files k) = dimS (files.map (·.f)) := by unfold dimS; rw [retime_p]
  have hV : dimV (retime files k) = dimV (files.map (·.f)) := by unfold dimV; rw [retime_v]
  refine ⟨hS, hV, ?_⟩
  unfold dimT; rw [hS, hV, retime_length]

/-- **a guessed ordering is a real one:** when `get_shape` succeeds by guessing, the chosen key is
    present in every file, has as many distinct values as there are volumes or files, and with it
    as time ordinate the files pass every check of the explicit-ordering case (hence all the
    `accept_*` consequences: full grid, sorted positions in every volume, …) -/
theorem guess_ok_accepts (spacingOk : List Int → Bool) (nCands : Nat) (files : List GF)
    (S T V k : Nat) (h : guessShape spacingOk nCands files = (.ok S T V, some k)) :
    k ∈ possibleOrders files nCands ((files.map (·.f)).length / dimS (files.map (·.f))) ∧
    getShape spacingOk (retime files k) = .ok S T V := by
  unfold guessShape at h
  simp only at h
  split at h
  · -- single volume: no key is chosen
    have := congrArg Prod.snd h
    simp at this
  · split at h
    · rename_i k' hk
      have hfst := congrArg Prod.fst h
      have hsnd := congrArg Prod.snd h
      simp only at hfst hsnd
      injection hsnd with hsnd
      subst hsnd
      have hmem := List.mem_of_find?_eq_some hk
      have hacc := List.find?_some hk
      refine ⟨hmem, ?_⟩
      obtain ⟨hS, hV, hT⟩ := retime_dims files k'
      unfold getShape
      rw [if_pos hacc, hS, hT, hV]
      exact hfst
    · have := congrArg Prod.fst h
      simp at this

/-- the key is the first of `sort_guesses` (among those that qualify by their value counts) under
    which the stack is complete -/
theorem guess_first (spacingOk : List Int → Bool) (nCands : Nat) (files : List GF)
    (S T V k : Nat) (h : guessShape spacingOk nCands files = (.ok S T V, some k)) :
    ∃ pre post, possibleOrders files nCands ((files.map (·.f)).length / dimS (files.map (·.f))) =
        pre ++ k :: post ∧
      ∀ k' ∈ pre, acceptB spacingOk (retime files k') = false := by
  unfold guessShape at h
  simp only at h
  split at h
  · have := congrArg Prod.snd h
    simp at this
  · split at h
    · rename_i k' hk
      have hsnd := congrArg Prod.snd h
      simp only at hsnd
      injection hsnd with hsnd
      subst hsnd
      obtain ⟨_, pre, post, hl, hpre⟩ := List.find?_eq_some_iff_append.mp hk
      refine ⟨pre, post, hl, ?_⟩
      intro x hx
      have := hpre x hx
      simpa using this
    · have := congrArg Prod.fst h
      simp at this

/-- more than one volume and no key works: refused -/
theorem guess_refuses (spacingOk : List Int → Bool) (nCands : Nat) (files : List GF)
    (hn : (files.map (·.f)).length ≠ 0) (hs : dimS (files.map (·.f)) ≠ 0)
    (hv : 1 < (files.map (·.f)).length / dimS (files.map (·.f)))
    (hnone : ∀ k ∈ possibleOrders files nCands ((files.map (·.f)).length / dimS (files.map (·.f))),
      acceptB spacingOk (retime files k) = false) :
    guessShape spacingOk nCands files = (.invalid, none) := by
  unfold guessShape
  simp only
  have hc : ¬ ((files.map (·.f)).length = 0 ∨ dimS (files.map (·.f)) = 0 ∨
      (files.map (·.f)).length / dimS (files.map (·.f)) ≤ 1) := by omega
  rw [if_neg hc]
  have : (possibleOrders files nCands ((files.map (·.f)).length / dimS (files.map (·.f)))).find?
      (fun k => acceptB spacingOk (retime files k)) = none := by
    rw [List.find?_eq_none]
    intro k hk
    simp [hnone k hk]
  rw [this]

/-- a single volume needs no key -/
theorem guess_single_volume (spacingOk : List Int → Bool) (nCands : Nat) (files : List GF)
    (h : (files.map (·.f)).length / dimS (files.map (·.f)) ≤ 1) :
    guessShape spacingOk nCands files = (getShape spacingOk (files.map (·.f)), none) := by
  unfold guessShape
  simp only
  rw [if_pos (Or.inr (Or.inr h))]

/-- kernel-evaluated instance: two volumes of two slices; `EchoTime` (candidate 0) is the same in
    all files, `InstanceNumber`-like candidate 1 is unique per file: candidate 1 is chosen -/
example :
    guessShape (fun _ => true) 2
      [⟨⟨0, 0, 0, 0⟩, [some 10, some 1]⟩, ⟨⟨0, 0, 5, 1⟩, [some 10, some 2]⟩,
       ⟨⟨0, 0, 0, 2⟩, [some 10, some 3]⟩, ⟨⟨0, 0, 5, 3⟩, [some 10, some 4]⟩] =
      (.ok 2 2 1, some 1) := by decide

end Stk
