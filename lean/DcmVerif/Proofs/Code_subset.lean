import DcmVerif.Generated.Code_subset
import DcmVerif.Proofs.Code_values
import DcmVerif.Proofs.Code_simplify
import DcmVerif.Proofs.KeyDictLemmas
/-! `_copy_slice` and `_copy_sample` for one key, as translated from dcmmeta.py, are the per-key model of `get_subset`. -/
set_option autoImplicit false
set_option linter.unusedSimpArgs false
set_option linter.unusedVariables false
open Cls

namespace Src
variable {α κ : Type}

section
variable [DecidableEq α]

theorem constLoop_dest_mem (sh : Shp) (c : Cls) (vals : List α) : ∀ (l : List Cls) (d : Cls) (v : List α),
    constLoop sh c vals l = .ok (some (d, v)) → d ∈ l
  | [], d, v, h => by simp [constLoop] at h
  | x :: xs, d, v, h => by
    unfold constLoop at h
    by_cases hb : basePresent sh x = true
    · simp only [hb, if_true] at h
      split at h
      · simp at h
      · split at h <;> (simp at h; simp [h.1])
      · exact List.mem_cons_of_mem _ (constLoop_dest_mem sh c vals xs d v h)
    · simp only [hb] at h
      exact List.mem_cons_of_mem _ (constLoop_dest_mem sh c vals xs d v h)

theorem repeatLoop_dest_mem (sh : Shp) (vals : List α) : ∀ (l : List Cls) (d : Cls) (v : List α),
    repeatLoop sh vals l = .ok (some (d, v)) → d ∈ l
  | [], d, v, h => by simp [repeatLoop] at h
  | x :: xs, d, v, h => by
    unfold repeatLoop at h
    by_cases hb : basePresent sh x = true
    · simp only [hb, if_true] at h
      split at h
      · simp at h
      · simp at h; simp [h.1]
      · exact List.mem_cons_of_mem _ (repeatLoop_dest_mem sh vals xs d v h)
    · simp only [hb] at h
      exact List.mem_cons_of_mem _ (repeatLoop_dest_mem sh vals xs d v h)

/-- `_simplify` never "moves" a key to the class it already has -/
theorem simplifyK_moved_ne (null : α) (sh : Shp) (c : Cls) (vals : List α) (d : Cls) (v : List α)
    (h : simplifyK null sh c vals = .ok (.moved d v)) : d ≠ c := by
  unfold simplifyK at h
  by_cases hg : c = gconst
  · simp only [hg, if_true] at h
    split at h <;> simp at h
  · simp only [hg, if_false] at h
    split at h
    · simp at h
    · rename_i d' v' hcl
      simp at h
      have := constLoop_dest_mem sh c vals _ _ _ hcl
      rw [h.1] at this
      intro hdc; subst hdc
      cases d <;> simp [constTests] at this
    · split at h
      · simp at h
      · rename_i d' v' hrl
        simp at h
        have := repeatLoop_dest_mem sh vals _ _ _ hrl
        rw [h.1] at this
        intro hdc; subst hdc
        cases d <;> simp [repeatTests] at this
      · simp at h

/-- replaying the recorded edits of `_simplify` on the dictionaries of a key held by one class gives the model's `applySimplify` -/
theorem applyFx_simplify (null : α) (sh : Shp) (c : Cls) (vals : List α) (o : SimpOut α)
    (h : simplifyK null sh c vals = .ok o) :
    KeyDict.applyFx [(c, vals)] (fxOf c o).2 =
      .ok (toDict (match o with | .unchanged => some (c, vals) | .deleted => none | .moved d v => some (d, v))) := by
  cases o with
  | unchanged => simp [fxOf, KeyDict.applyFx, toDict]
  | deleted => simp [fxOf, KeyDict.applyFx, KeyDict.del, toDict]
  | moved d v =>
    have hne := simplifyK_moved_ne null sh c vals d v h
    have h1 : (c == d) = false := by simpa using (fun h' => hne h'.symm)
    have h2 : (d == c) = false := by simpa using hne
    simp [fxOf, KeyDict.applyFx, KeyDict.set, KeyDict.del, toDict, h1, h2]

/-- `_simplify` applied to the dictionaries of a key held by one valid class -/
theorem simplify_apply (null : α) (r : DExt κ α) (h3 : 3 ≤ r.shape.length) (h5 : r.shape.length ≤ 5)
    (hsl : r.sliceDim.isSome = true) (hbase : ∀ d, basePresent r.shp d = true → d ∈ validClasses r.shp)
    (c : Cls) (hc : c ∈ validClasses r.shp) (v : List α) :
    (Py.simplify null r.shape (r.sliceDim.map fun d => r.shape.getD d 1) (contentOf r) v c >>= fun p =>
        KeyDict.applyFx [(c, v)] p.2) =
      errOf ((applySimplify null r.shp (some (c, v))).map toDict) := by
  rw [simplify_eq null r h3 h5 hsl hbase c hc v]
  unfold applySimplify
  cases hs : simplifyK null r.shp c v with
  | error er => simp [hs, errOf, Except.map, bind, Except.bind]
  | ok o =>
    have := applyFx_simplify null r.shp c v o hs
    cases o <;> simp_all [errOf, Except.map, bind, Except.bind]

theorem gslices_valid' (sh : Shp) : gslices ∈ validClasses sh := by
  unfold validClasses; split <;> (try split) <;> (try split) <;> simp

theorem set_nil (c : Cls) (v : List α) : KeyDict.set ([] : KeyDict α) c v = [(c, v)] := rfl

/-- the part of `_copy_slice` after the destination class is known -/
theorem copy_slice_tail (null : α) (r : DExt κ α) (h3 : 3 ≤ r.shape.length) (h5 : r.shape.length ≤ 5)
    (hsl : r.sliceDim.isSome = true) (hbase : ∀ d, basePresent r.shp d = true → d ∈ validClasses r.shp)
    (eS : Nat) (dest : Cls) (hdv : dest ∈ validClasses r.shp) (vals : List α) (idx : Nat)
    (hne : (stride eS (vals.drop idx)).length ≠ 0 ∨ mult r.shp dest = 0) :
    (if decide ((stride eS (List.drop idx vals)).length < mult r.shp dest) = true then do
      let __do_lift ← pyFloorDiv (mult r.shp dest) (stride eS (List.drop idx vals)).length
      let __s ←
        forIn (List.range __do_lift) [] fun val_idx __s =>
            pure (ForInStep.yield (__s ++ stride eS (List.drop idx vals)))
      match KeyDict.valuesAndClass (validClasses r.shp) (KeyDict.set [] dest __s) with
        | some (c_, v_) => do
          let __do_lift ←
            Py.simplify null r.shape (Option.map (fun d => r.shape.getD d 1) r.sliceDim) (contentOf r) v_ c_
          let __do_lift ← (KeyDict.set [] dest __s).applyFx __do_lift.snd
          pure __do_lift
        | x => throw PyErr.keyError
    else
      match KeyDict.valuesAndClass (validClasses r.shp) (KeyDict.set [] dest (stride eS (List.drop idx vals))) with
      | some (c_, v_) => do
        let __do_lift ← Py.simplify null r.shape (Option.map (fun d => r.shape.getD d 1) r.sliceDim) (contentOf r) v_ c_
        let __do_lift ← (KeyDict.set [] dest (stride eS (List.drop idx vals))).applyFx __do_lift.snd
        pure __do_lift
      | x => throw PyErr.keyError) =
    errOf (Except.map toDict (applySimplify null r.shp (some (dest, copySliceVals eS (mult r.shp dest) idx vals)))) := by
  have hsa := fun v => simplify_apply null r h3 h5 hsl hbase dest hdv v
  unfold copySliceVals
  by_cases hlt : (stride eS (vals.drop idx)).length < mult r.shp dest
  · have hnz : (stride eS (vals.drop idx)).length ≠ 0 := by omega
    have hb : ((stride eS (vals.drop idx)).length == 0) = false := by simpa using hnz
    simp only [hlt, decide_true, if_true, pyFloorDiv, hb, Bool.false_eq_true, if_false, ok_bind']
    rw [forIn_yield (fun (_ : Nat) r => r ++ stride eS (vals.drop idx)), ok_bind',
      foldl_range_const (· ++ stride eS (vals.drop idx)), iter_append_tile]
    simp only [List.nil_append, set_nil, valuesAndClass_single _ _ _ hdv]
    rw [← hsa]
  · simp only [hlt, decide_false, Bool.false_eq_true, if_false, set_nil, valuesAndClass_single _ _ _ hdv]
    rw [← hsa]

/-- **`_copy_slice` for one key, as written in dcmmeta.py, is the per-key model of a subset along the slice axis** (`subsetSliceK`):
    destination class `copySliceDest`, values `copySliceVals`, then `_simplify` — whenever the strided subset is not empty (or
    the destination holds no values), as for `copy_slice_vals_is_model` -/
theorem copy_slice_eq (null : α) (r : DExt κ α) (h3 : 3 ≤ r.shape.length) (h5 : r.shape.length ≤ 5)
    (hsl : r.sliceDim.isSome = true) (hbase : ∀ d, basePresent r.shp d = true → d ∈ validClasses r.shp)
    (eS : Nat) (c : Cls) (hc : perSlice c = true) (vals : List α) (idx : Nat)
    (hne : (stride eS (vals.drop idx)).length ≠ 0 ∨ mult r.shp (copySliceDest (validClasses r.shp) c) = 0) :
    Py.copy_slice null r.shape (r.sliceDim.map fun d => r.shape.getD d 1) (contentOf r) [] (some eS) c vals idx =
      errOf ((applySimplify null r.shp
        (some (copySliceDest (validClasses r.shp) c,
          copySliceVals eS (mult r.shp (copySliceDest (validClasses r.shp) c)) idx vals))).map toDict) := by
  have hvc := get_valid_classes_eq r none (by omega) h5
  have hg : gconst ∈ validClasses r.shp := by
    unfold validClasses; split <;> (try split) <;> (try split) <;> simp
  have cg : (validClasses r.shp).contains gconst = true := by simpa using hg
  unfold Py.copy_slice
  rw [hvc]
  simp only [ok_bind']
  cases c <;> simp [perSlice] at hc
  · -- global slices: time samples, else vector samples, else the global constant
    have hb1 : (gslices.base == "global") = true := by rfl
    by_cases h1 : tsamples ∈ validClasses r.shp <;>
      (have c1 : (validClasses r.shp).contains tsamples = decide (tsamples ∈ validClasses r.shp) := by simp) <;>
      simp only [h1, decide_true, decide_false] at c1
    · have hd : copySliceDest (validClasses r.shp) gslices = tsamples := by simp [copySliceDest, h1]
      simp only [hb1, if_true, hd, List.find?, c1] at hne ⊢
      rw [get_multiplicity_eq r h3 h5 tsamples h1]
      simp only [ok_bind', pyGet, pyStep_eq, bind_pure]
      exact copy_slice_tail null r h3 h5 hsl hbase eS tsamples h1 vals idx hne
    · by_cases h2 : vsamples ∈ validClasses r.shp <;>
        (have c2 : (validClasses r.shp).contains vsamples = decide (vsamples ∈ validClasses r.shp) := by simp) <;>
        simp only [h2, decide_true, decide_false] at c2
      · have hd : copySliceDest (validClasses r.shp) gslices = vsamples := by simp [copySliceDest, h1, h2]
        simp only [hb1, if_true, hd, List.find?, c1, c2] at hne ⊢
        rw [get_multiplicity_eq r h3 h5 vsamples h2]
        simp only [ok_bind', pyGet, pyStep_eq, bind_pure]
        exact copy_slice_tail null r h3 h5 hsl hbase eS vsamples h2 vals idx hne
      · have hd : copySliceDest (validClasses r.shp) gslices = gconst := by simp [copySliceDest, h1, h2]
        simp only [hb1, if_true, hd, List.find?, c1, c2, cg] at hne ⊢
        rw [get_multiplicity_eq r h3 h5 gconst hg]
        simp only [ok_bind', pyGet, pyStep_eq, bind_pure]
        exact copy_slice_tail null r h3 h5 hsl hbase eS gconst hg vals idx hne
  · -- time slices: the destination is the global constant
    have hdv : gconst ∈ validClasses r.shp := hg
    have hb1 : (tslices.base == "global") = false := by rfl
    have hb2 : (tslices.base == "vector") = false := by rfl
    have hd : copySliceDest (validClasses r.shp) tslices = gconst := rfl
    simp only [hb1, hb2, Bool.false_eq_true, if_false, hd] at hne ⊢
    rw [get_multiplicity_eq r h3 h5 gconst hdv]
    simp only [ok_bind', pyGet, pyStep_eq, bind_pure]
    exact copy_slice_tail null r h3 h5 hsl hbase eS gconst hdv vals idx hne
  · -- vector slices: time samples when the result has them, else the global constant
    have hb1 : (vslices.base == "global") = false := by rfl
    have hb2 : (vslices.base == "vector") = true := by rfl
    by_cases h1 : tsamples ∈ validClasses r.shp <;>
      (have c1 : (validClasses r.shp).contains tsamples = decide (tsamples ∈ validClasses r.shp) := by simp) <;>
      simp only [h1, decide_true, decide_false] at c1
    · have hd : copySliceDest (validClasses r.shp) vslices = tsamples := by simp [copySliceDest, h1]
      simp only [hb1, hb2, Bool.false_eq_true, if_false, if_true, hd, List.find?, c1] at hne ⊢
      rw [get_multiplicity_eq r h3 h5 tsamples h1]
      simp only [ok_bind', pyGet, pyStep_eq, bind_pure]
      exact copy_slice_tail null r h3 h5 hsl hbase eS tsamples h1 vals idx hne
    · have hd : copySliceDest (validClasses r.shp) vslices = gconst := by simp [copySliceDest, h1]
      simp only [hb1, hb2, Bool.false_eq_true, if_false, if_true, hd, List.find?, c1, cg] at hne ⊢
      rw [get_multiplicity_eq r h3 h5 gconst hg]
      simp only [ok_bind', pyGet, pyStep_eq, bind_pure]
      exact copy_slice_tail null r h3 h5 hsl hbase eS gconst hg vals idx hne

/-- what `get_subset` along the time / vector axis stores for one key (`_copy_sample`, then `_simplify` where the code calls it) -/
def sampleSubsetK (null : α) (sh rs : Shp) (isTime : Bool) (idx : Nat) (c : Cls) (vals : List α) : Except Err (KeyState α) :=
  let out := copySampleK sh rs isTime idx c vals
  if out.2.2 then applySimplify null rs (some (out.1, out.2.1)) else .ok (some (out.1, out.2.1))

/-- **`_copy_sample` for one key, as written in dcmmeta.py, is the per-key model of a subset along the time / vector axis**
    (`copySampleK`, followed by `_simplify` exactly where the model says so), for an index inside the values and a destination
    class the result extension has -/
theorem copy_sample_eq (null : α) (e r : DExt κ α) (isTime : Bool)
    (he4 : 4 ≤ e.shape.length) (he5 : e.shape.length ≤ 5) (hev : isTime = false → e.shape.length = 5)
    (hesl : e.sliceDim.isSome = true)
    (h3 : 3 ≤ r.shape.length) (h5 : r.shape.length ≤ 5)
    (hsl : r.sliceDim.isSome = true) (hbase : ∀ d, basePresent r.shp d = true → d ∈ validClasses r.shp)
    (c : Cls) (hcne : c ≠ gconst) (vals : List α) (idx : Nat) (hidx : idx < vals.length)
    (hdest : (copySampleK e.shp r.shp isTime idx c vals).1 ∈ validClasses r.shp) :
    Py.copy_sample null r.shape (r.sliceDim.map fun d => r.shape.getD d 1) (contentOf r) [] e.shape
        (e.sliceDim.map fun d => e.shape.getD d 1) c vals (if isTime then "time" else "vector") idx =
      errOf ((sampleSubsetK null e.shp r.shp isTime idx c vals).map toDict) := by
  have hvc := get_valid_classes_eq r none (by omega) h5
  have hg : gconst ∈ validClasses r.shp := by
    unfold validClasses; split <;> (try split) <;> (try split) <;> simp
  have hgs := gslices_valid' r.shp
  have hsa := fun d hd v => simplify_apply null r h3 h5 hsl hbase d hd v
  have heS : pyGet (e.sliceDim.map fun d => e.shape.getD d 1) = .ok e.shp.S := by
    obtain ⟨shape, sdim, ht, hvv, ents⟩ := e
    cases sdim <;> simp at hesl <;> simp [pyGet, DExt.shp]
  have hrS : pyGet (r.sliceDim.map fun d => r.shape.getD d 1) = .ok r.shp.S := by
    obtain ⟨shape, sdim, ht, hvv, ents⟩ := r
    cases sdim <;> simp at hsl <;> simp [pyGet, DExt.shp]
  have heT : e.shape[3]! = e.shp.T := by
    obtain ⟨shape, sdim, ht, hvv, ents⟩ := e
    match shape, he4, he5 with
    | [a, b, c, d], _, _ => simp [DExt.shp]
    | [a, b, c, d, f], _, _ => simp [DExt.shp]
    | [], h, _ | [_], h, _ | [_, _], h, _ | [_, _, _], h, _ => simp at h
    | _ :: _ :: _ :: _ :: _ :: _ :: _, _, h => simp at h
  have hgss := global_slice_subset_eq e isTime he4 he5 hev idx vals
  unfold Py.copy_sample sampleSubsetK
  rw [hvc]
  simp only [ok_bind']
  cases c
  · exact absurd rfl hcne
  · -- global slices: the sample's block(s) of the parent's values, then `_simplify`
    have hb0 : (gslices != gconst) = true := by rfl
    have hb1 : (gslices.sub == "samples") = false := by rfl
    have hb2 : (gslices.base == (if isTime then "time" else "vector")) = false := by cases isTime <;> rfl
    have hb3 : (gslices.base != "global") = false := by rfl
    have hb3' : (gslices.base == "global") = true := by rfl
    have hk : copySampleK e.shp r.shp isTime idx gslices vals = (gslices, globalSliceSubset e.shp isTime idx vals, true) := by
      cases isTime <;> simp [copySampleK]
    simp only [hb0, hb1, hb2, hb3, hb3', Bool.not_true, Bool.false_eq_true, if_false, if_true, heS, ok_bind', hgss, set_nil,
      valuesAndClass_single _ _ _ hgs, bind_pure, hk, if_true]
    exact hsa gslices hgs _
  · -- time samples
    have hb0 : (tsamples != gconst) = true := by rfl
    have hb1 : (tsamples.sub == "samples") = true := by rfl
    cases isTime
    · -- vector split: the block of the vector component, then `_simplify`
      have hb2 : (tsamples.base == "vector") = false := by rfl
      have hb3 : (tsamples == tsamples) = true := by rfl
      have hk : copySampleK e.shp r.shp false idx tsamples vals =
          (tsamples, (vals.drop (idx * mult r.shp tsamples)).take (mult r.shp tsamples), true) := by simp [copySampleK]
      have hts : tsamples ∈ validClasses r.shp := by simpa [hk] using hdest
      simp only [hb0, hb1, hb2, hb3, Bool.not_true, Bool.false_eq_true, if_false, if_true, get_multiplicity_eq r h3 h5 tsamples hts,
        ok_bind', set_nil, valuesAndClass_single _ _ _ hts, bind_pure, hk, Nat.add_sub_cancel_left]
      exact hsa tsamples hts _
    · -- time split: one value per vector component (vector samples) or a single value (constant)
      have hb2 : (tsamples.base == "time") = true := by rfl
      have hn1 : (vsamples != tsamples) = true := by rfl
      have hn2 : (gconst != tsamples) = true := by rfl
      have cg : (validClasses r.shp).contains gconst = true := by simpa using hg
      have hpi : pyIndex vals idx = .ok vals[idx] := by simp [pyIndex, hidx]
      simp only [hb0, hb1, hb2, Bool.not_true, Bool.false_eq_true, if_false, if_true, List.find?, hn1, hn2, Bool.true_and, cg]
      by_cases hv : vsamples ∈ validClasses r.shp
      · have cv : (validClasses r.shp).contains vsamples = true := by simpa using hv
        simp only [cv, get_multiplicity_eq r h3 h5 vsamples hv, ok_bind']
        by_cases hm : mult r.shp vsamples = 1
        · have hk : copySampleK e.shp r.shp true idx tsamples vals = (vsamples, (vals[idx]?).toList, false) := by
            simp [copySampleK, hv, hm]
          simp [hm, hpi, hk, set_nil, errOf, Except.map, toDict, List.getElem?_eq_getElem hidx, bind, Except.bind, pure, Except.pure]
        · have hm' : (mult r.shp vsamples == 1) = false := by simpa using hm
          have hk : copySampleK e.shp r.shp true idx tsamples vals = (vsamples, stride e.shp.T (vals.drop idx), true) := by
            simp [copySampleK, hv, hm]
          simp only [hm', Bool.false_eq_true, if_false, set_nil, valuesAndClass_single _ _ _ hv, bind_pure, hk, if_true, heT,
            pyStep_eq]
          exact hsa vsamples hv _
      · have cv : (validClasses r.shp).contains vsamples = false := by simpa using hv
        simp only [cv, get_multiplicity_eq r h3 h5 gconst hg, ok_bind']
        have hm : mult r.shp gconst = 1 := rfl
        have hk : copySampleK e.shp r.shp true idx tsamples vals = (gconst, (vals[idx]?).toList, false) := by
          simp [copySampleK, hv, hm]
        simp [hm, hpi, hk, set_nil, errOf, Except.map, toDict, List.getElem?_eq_getElem hidx, bind, Except.bind, pure, Except.pure]
  · -- time slices
    have hb0 : (tslices != gconst) = true := by rfl
    have hb1 : (tslices.sub == "samples") = false := by rfl
    have cgs : (validClasses r.shp).contains gslices = true := by simpa using hgs
    cases isTime
    · -- vector split: unchanged
      have hb2 : (tslices.base == "vector") = false := by rfl
      have hb3 : (tslices.base != "global") = true := by rfl
      have hb3' : (tslices.base == "global") = false := by rfl
      have hb4 : ("vector" == "time") = false := by decide
      have hk : copySampleK e.shp r.shp false idx tslices vals = (tslices, vals, false) := by simp [copySampleK]
      simp [hb0, hb1, hb2, hb3, hb3', hb4, hk, set_nil, errOf, Except.map, toDict, pure, Except.pure]
    · -- time split: the per-slice values of the one remaining volume, under the first wider class the result has
      have hb2 : (tslices.base == "time") = true := by rfl
      simp only [hb0, hb1, hb2, Bool.not_true, Bool.false_eq_true, if_false, if_true, preserving, List.find?, cgs]
      by_cases hv : vslices ∈ validClasses r.shp
      · have cv : (validClasses r.shp).contains vslices = true := by simpa using hv
        have hk : copySampleK e.shp r.shp true idx tslices vals = (vslices, vals, false) := by
          simp [copySampleK, preserving, List.find?, hv]
        simp [cv, hv, hk, set_nil, errOf, Except.map, toDict, pure, Except.pure]
      · have cv : (validClasses r.shp).contains vslices = false := by simpa using hv
        have hk : copySampleK e.shp r.shp true idx tslices vals = (gslices, vals, false) := by
          simp [copySampleK, preserving, List.find?, hv, hgs]
        simp [cv, hv, hgs, hk, set_nil, errOf, Except.map, toDict, pure, Except.pure]
  · -- vector samples
    have hb0 : (vsamples != gconst) = true := by rfl
    have hb1 : (vsamples.sub == "samples") = true := by rfl
    cases isTime
    · -- vector split: the value of the component, a constant of the piece
      have hb2 : (vsamples.base == "vector") = true := by rfl
      have hn1 : (vsamples != vsamples) = false := by rfl
      have hn2 : (gconst != vsamples) = true := by rfl
      have cg : (validClasses r.shp).contains gconst = true := by simpa using hg
      have hpi : pyIndex vals idx = .ok vals[idx] := by simp [pyIndex, hidx]
      have hm : mult r.shp gconst = 1 := rfl
      have hk : copySampleK e.shp r.shp false idx vsamples vals = (gconst, (vals[idx]?).toList, false) := by
        simp [copySampleK, hm]
      simp only [hb0, hb1, hb2, hn1, hn2, Bool.not_true, Bool.false_eq_true, if_false, if_true, List.find?, Bool.false_and,
        Bool.true_and, cg, get_multiplicity_eq r h3 h5 gconst hg, ok_bind', hm]
      simp [hpi, hk, set_nil, errOf, Except.map, toDict, List.getElem?_eq_getElem hidx, bind, Except.bind, pure, Except.pure]
    · -- time split: unchanged
      have hb2 : (vsamples.base == "time") = false := by rfl
      have hb3 : (vsamples == tsamples) = false := by rfl
      have hk : copySampleK e.shp r.shp true idx vsamples vals = (vsamples, vals, false) := by simp [copySampleK]
      simp [hb0, hb1, hb2, hb3, hk, set_nil, errOf, Except.map, toDict, pure, Except.pure]
  · -- vector slices
    have hb0 : (vslices != gconst) = true := by rfl
    have hb1 : (vslices.sub == "samples") = false := by rfl
    have cgs : (validClasses r.shp).contains gslices = true := by simpa using hgs
    cases isTime
    · -- vector split: the values of the one remaining component are per-slice values of the whole piece
      have hb2 : (vslices.base == "vector") = true := by rfl
      have hk : copySampleK e.shp r.shp false idx vslices vals = (gslices, vals, false) := by
        simp [copySampleK, preserving, List.find?, hgs]
      simp [hb0, hb1, hb2, preserving, List.find?, cgs, hgs, hk, set_nil, errOf, Except.map, toDict, pure, Except.pure]
    · -- time split: the slices of the time point, then `_simplify`
      have hb2 : (vslices.base == "time") = false := by rfl
      have hb3 : (vslices.base != "global") = true := by rfl
      have hb3' : (vslices.base == "global") = false := by rfl
      have hb4 : ("time" == "time") = true := by decide
      have hk : copySampleK e.shp r.shp true idx vslices vals = (vslices, (vals.drop (idx * r.shp.S)).take r.shp.S, true) := by
        simp [copySampleK]
      have hvs : vslices ∈ validClasses r.shp := by simpa [hk] using hdest
      simp only [hb0, hb1, hb2, hb3, hb3', hb4, Bool.not_true, Bool.false_eq_true, if_false, if_true, hrS, ok_bind', set_nil,
        valuesAndClass_single _ _ _ hvs, bind_pure, hk, Nat.add_sub_cancel_left]
      exact hsa vslices hvs _

/-! ### `get_subset` for one key of the parent -/

/-- **a subset along the slice axis, as written in dcmmeta.py, is the model's `subsetSliceK`** for one key: non-slice classes are
    copied, per-slice classes go through `_copy_slice` -/
theorem get_subset_key_slice_eq (null : α) (e r : DExt κ α) (dim : Nat) (hed : e.sliceDim = some dim)
    (h3 : 3 ≤ r.shape.length) (h5 : r.shape.length ≤ 5)
    (hsl : r.sliceDim.isSome = true) (hbase : ∀ d, basePresent r.shp d = true → d ∈ validClasses r.shp)
    (hrs : r.shp = sliceSubsetShp e.shp)
    (c : Cls) (vals : List α) (idx : Nat)
    (hne : perSlice c = true → (stride e.shp.S (vals.drop idx)).length ≠ 0 ∨ mult r.shp (copySliceDest (validClasses r.shp) c) = 0) :
    Py.get_subset_key null e.shape (e.sliceDim.map fun d => e.shape.getD d 1) e.sliceDim r.shape
        (r.sliceDim.map fun d => r.shape.getD d 1) (contentOf r) [] c vals dim idx =
      errOf ((subsetSliceK null e.shp (some (c, vals)) idx).map toDict) := by
  have heS : (e.sliceDim.map fun d => e.shape.getD d 1) = some e.shp.S := by
    obtain ⟨shape, sdim, ht, hvv, ents⟩ := e
    simp at hed; subst hed; simp [DExt.shp]
  unfold Py.get_subset_key subsetSliceK
  by_cases hc : c = gconst
  · subst hc; simp [perSlice, set_nil, errOf, Except.map, toDict, pure, Except.pure]
  · have hcb : (c == gconst) = false := by simpa using hc
    have hd : (some dim == e.sliceDim) = true := by simp [hed]
    simp only [hcb, Bool.false_eq_true, if_false, hd, if_true]
    by_cases hp : perSlice c = true
    · have hsub : (c.sub != "slices") = false := by cases c <;> simp [perSlice] at hp <;> rfl
      have hsub' : (c.sub == "slices") = true := by cases c <;> simp [perSlice] at hp <;> rfl
      simp only [hsub, hsub', Bool.false_eq_true, if_false, hp, if_true, heS, ← hrs]
      rw [copy_slice_eq null r h3 h5 hsl hbase e.shp.S c hp vals idx (hne hp)]
      cases applySimplify null r.shp (some (copySliceDest (validClasses r.shp) c,
          copySliceVals e.shp.S (mult r.shp (copySliceDest (validClasses r.shp) c)) idx vals)) <;>
        simp [errOf, Except.map, bind, Except.bind, pure, Except.pure]
    · have hp' : perSlice c = false := by simpa using hp
      have hsub : (c.sub != "slices") = true := by cases c <;> simp [perSlice] at hp' <;> rfl
      have hsub' : (c.sub == "slices") = false := by cases c <;> simp [perSlice] at hp' <;> rfl
      simp [hsub, hsub', hp', set_nil, errOf, Except.map, toDict, pure, Except.pure]

/-- **a subset along a spatial axis other than the slice axis copies every key** -/
theorem get_subset_key_spatial_eq (null : α) (e r : DExt κ α) (dim : Nat) (hed : e.sliceDim ≠ some dim) (hd3 : dim < 3)
    (c : Cls) (vals : List α) (idx : Nat) :
    Py.get_subset_key null e.shape (e.sliceDim.map fun d => e.shape.getD d 1) e.sliceDim r.shape
        (r.sliceDim.map fun d => r.shape.getD d 1) (contentOf r) [] c vals dim idx = .ok [(c, vals)] := by
  have hd : (some dim == e.sliceDim) = false := by
    cases hs : e.sliceDim with
    | none => rfl
    | some d => simp [hs] at hed ⊢; exact fun h => hed h.symm
  unfold Py.get_subset_key
  by_cases hc : (c == gconst) = true
  · simp [hc, set_nil, pure, Except.pure]
  · simp [hc, hd, hd3, set_nil, pure, Except.pure]

/-- **a subset along the time (`dim = 3`) or vector (`dim = 4`) axis, as written in dcmmeta.py, is the model's `subsetTimeK` /
    `subsetVecK`** for one key: constants are copied, everything else goes through `_copy_sample` -/
theorem get_subset_key_sample_eq (null : α) (e r : DExt κ α) (isTime : Bool) (dim : Nat)
    (hdim : dim = if isTime then 3 else 4) (hed : e.sliceDim ≠ some dim)
    (he4 : 4 ≤ e.shape.length) (he5 : e.shape.length ≤ 5) (hev : isTime = false → e.shape.length = 5)
    (hesl : e.sliceDim.isSome = true)
    (h3 : 3 ≤ r.shape.length) (h5 : r.shape.length ≤ 5)
    (hsl : r.sliceDim.isSome = true) (hbase : ∀ d, basePresent r.shp d = true → d ∈ validClasses r.shp)
    (hrs : r.shp = if isTime then timeSubsetShp e.shp else vecSubsetShp e.shp)
    (c : Cls) (vals : List α) (idx : Nat) (hidx : idx < vals.length)
    (hdest : c ≠ gconst → (copySampleK e.shp r.shp isTime idx c vals).1 ∈ validClasses r.shp) :
    Py.get_subset_key null e.shape (e.sliceDim.map fun d => e.shape.getD d 1) e.sliceDim r.shape
        (r.sliceDim.map fun d => r.shape.getD d 1) (contentOf r) [] c vals dim idx =
      errOf (((if isTime then subsetTimeK null e.shp (some (c, vals)) idx else subsetVecK null e.shp (some (c, vals)) idx)).map toDict) := by
  have hd : (some dim == e.sliceDim) = false := by
    cases hs : e.sliceDim with
    | none => rfl
    | some d => simp [hs] at hed ⊢; exact fun h => hed h.symm
  unfold Py.get_subset_key
  by_cases hc : c = gconst
  · subst hc
    cases isTime <;> simp [subsetTimeK, subsetVecK, set_nil, errOf, Except.map, toDict, pure, Except.pure]
  · have hcb : (c == gconst) = false := by simpa using hc
    have hcs := copy_sample_eq null e r isTime he4 he5 hev hesl h3 h5 hsl hbase c hc vals idx hidx (hdest hc)
    cases isTime
    · have hdim' : dim = 4 := by simpa using hdim
      subst hdim'
      have h1 : decide (4 < 3) = false := by decide
      have h2 : ((4 : Nat) == 3) = false := by decide
      simp only [hcb, Bool.false_eq_true, if_false, hd, h1, h2, subsetVecK, hc]
      simp only [if_false, Bool.false_eq_true] at hcs hrs
      rw [hcs, ← hrs]
      simp only [sampleSubsetK]
      cases (if (copySampleK e.shp r.shp false idx c vals).2.2 = true then
          applySimplify null r.shp (some ((copySampleK e.shp r.shp false idx c vals).1, (copySampleK e.shp r.shp false idx c vals).2.1))
        else Except.ok (some ((copySampleK e.shp r.shp false idx c vals).1, (copySampleK e.shp r.shp false idx c vals).2.1))) <;>
        simp [errOf, Except.map, bind, Except.bind, pure, Except.pure]
    · have hdim' : dim = 3 := by simpa using hdim
      subst hdim'
      have h1 : decide (3 < 3) = false := by decide
      have h2 : ((3 : Nat) == 3) = true := by decide
      simp only [hcb, Bool.false_eq_true, if_false, hd, h1, h2, if_true, subsetTimeK, hc]
      simp only [if_true] at hcs hrs
      rw [hcs, ← hrs]
      simp only [sampleSubsetK]
      cases (if (copySampleK e.shp r.shp true idx c vals).2.2 = true then
          applySimplify null r.shp (some ((copySampleK e.shp r.shp true idx c vals).1, (copySampleK e.shp r.shp true idx c vals).2.1))
        else Except.ok (some ((copySampleK e.shp r.shp true idx c vals).1, (copySampleK e.shp r.shp true idx c vals).2.1))) <;>
        simp [errOf, Except.map, bind, Except.bind, pure, Except.pure]

/-! the translated methods compute (tests, not theorems) -/
example : Py.copy_slice (0 : Nat) [2, 2, 1, 2] (some 1) ["global", "time"] [] (some 2) gslices [1, 2, 3, 4] 1 =
    .ok [(tsamples, [2, 4])] := by rfl
example : Py.copy_slice (0 : Nat) [2, 2, 1, 2] (some 1) ["global", "time"] [] (some 2) gslices [1, 5, 3, 5] 1 =
    .ok [(gconst, [5])] := by rfl
example : Py.copy_sample (0 : Nat) [2, 2, 2] (some 2) ["global"] [] [2, 2, 2, 2] (some 2) gslices [1, 2, 3, 4] "time" 1 =
    .ok [(gslices, [3, 4])] := by rfl
example : Py.copy_sample (0 : Nat) [2, 2, 2] (some 2) ["global"] [] [2, 2, 2, 2] (some 2) tsamples [7, 8] "time" 1 =
    .ok [(gconst, [8])] := by rfl

end

end Src
