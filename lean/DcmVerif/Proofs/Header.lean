import DcmVerif.Model.Header
import DcmVerif.Proofs.StackAdd
/-! Proofs about the header fields `to_nifti` derives from the files (`Model/Header.lean`). -/
set_option autoImplicit false

namespace Stk

/-! ### slice timing -/

theorem consistentFrom_iff (n : Nat) (first acq : List Int) : ∀ (k v0 : Nat),
    consistentFrom n first acq v0 k = true ↔
      ∀ j, j < k → relTimes (volTimes n (v0 + j) acq) = first
  | 0, v0 => by simp [consistentFrom]
  | k + 1, v0 => by
    simp only [consistentFrom, Bool.and_eq_true, beq_iff_eq, consistentFrom_iff n first acq k (v0 + 1)]
    constructor
    · rintro ⟨h0, hr⟩ j hj
      cases j with
      | zero => simpa using h0
      | succ j' =>
        have := hr j' (by omega)
        rwa [show v0 + 1 + j' = v0 + (j' + 1) by omega] at this
    · intro h
      refine ⟨by simpa using h 0 (by omega), ?_⟩
      intro j hj
      have := h (j + 1) (by omega)
      rwa [show v0 + (j + 1) = v0 + 1 + j by omega] at this

/-- **when slice timing is recorded it is right for every volume**: the recorded time of slice `k`
    is the acquisition time of the file at position `k` of volume `vol` (in the file order the
    conversion uses, i.e. after the per-volume reversal) minus the earliest time of that volume —
    for every volume, not only the first -/
theorem sliceTimes_every_volume (filesPerVol nVols n : Nat) (acq : List (Option Int))
    (ts : List Int) (h : sliceTimesOf filesPerVol nVols n acq = some ts) (vol : Nat)
    (hvol : vol < nVols) :
    relTimes (volTimes n vol (acq.map fun x => x.getD 0)) = ts := by
  unfold sliceTimesOf at h
  by_cases hc : 1 < filesPerVol ∧ acq.all Option.isSome = true
  · rw [if_pos hc] at h
    by_cases hcons : consistentFrom n (relTimes (volTimes n 0 (acq.map fun x => x.getD 0)))
        (acq.map fun x => x.getD 0) 1 (nVols - 1) = true ∧
        (relTimes (volTimes n 0 (acq.map fun x => x.getD 0))).any (· ≠ 0) = true
    · simp only [hcons, and_self, if_true, Option.some.injEq] at h
      subst h
      cases vol with
      | zero => rfl
      | succ v =>
        have := (consistentFrom_iff n _ _ (nVols - 1) 1).1 hcons.1 v (by omega)
        rwa [show 1 + v = v + 1 by omega] at this
    · simp only [hcons, if_false] at h
      cases h
  · rw [if_neg hc] at h
    cases h

/-- slice timing is recorded only if every file says when it was acquired and a volume has more
    than one file -/
theorem sliceTimes_needs_all (filesPerVol nVols n : Nat) (acq : List (Option Int)) (ts : List Int)
    (h : sliceTimesOf filesPerVol nVols n acq = some ts) :
    1 < filesPerVol ∧ ∀ a, a ∈ acq → a.isSome = true := by
  unfold sliceTimesOf at h
  by_cases hc : 1 < filesPerVol ∧ acq.all Option.isSome = true
  · exact ⟨hc.1, fun a ha => List.all_eq_true.1 hc.2 a ha⟩
  · rw [if_neg hc] at h
    cases h

/-- a volume whose relative times differ from the first volume's prevents the recording -/
theorem sliceTimes_inconsistent_none (filesPerVol nVols n : Nat) (acq : List (Option Int))
    (vol : Nat) (hvol : vol < nVols)
    (hdiff : relTimes (volTimes n vol (acq.map fun x => x.getD 0)) ≠
      relTimes (volTimes n 0 (acq.map fun x => x.getD 0))) :
    sliceTimesOf filesPerVol nVols n acq = none := by
  cases h : sliceTimesOf filesPerVol nVols n acq with
  | none => rfl
  | some ts =>
    have h1 := sliceTimes_every_volume filesPerVol nVols n acq ts h vol hvol
    have h0 := sliceTimes_every_volume filesPerVol nVols n acq ts h 0 (by omega)
    exact absurd (h1.trans h0.symm) hdiff

/-! ### repetition time -/

theorem trOf_eq_some (trs : List (Option Int)) (x : Int) : trOf trs = some x ↔ trs = [some x] := by
  match trs with
  | [] => simp [trOf]
  | [none] => simp [trOf]
  | [some y] => simp [trOf]
  | _ :: _ :: _ => simp [trOf]

theorem nodup_setInsert {β : Type} [DecidableEq β] (x : β) (l : List β) (h : l.Nodup) :
    (setInsert x l).Nodup := by
  unfold setInsert
  by_cases hx : x ∈ l
  · rwa [if_pos hx]
  · rw [if_neg hx, List.nodup_append]
    exact ⟨h, by simp, fun a ha b hb => by simp at hb; subst hb; exact fun e => hx (e ▸ ha)⟩

theorem addAll_trs (explicit : Bool) : ∀ (cs : List Cand) (st : AddSt), st.trs.Nodup →
    (addAll explicit st cs).1.trs.Nodup ∧
    ∀ y, y ∈ (addAll explicit st cs).1.trs ↔ y ∈ st.trs ∨ ∃ c, c ∈ acceptedOf explicit st cs ∧ c.tr = y
  | [], st, h => by simp [addAll, acceptedOf, h]
  | c :: cs, st, h => by
    simp only [addAll, acceptedOf]
    by_cases hok : (addDcm explicit st c).2 = .ok
    · have hst := addDcm_ok_state explicit st c hok
      have htrs : (addDcm explicit st c).1.trs = setInsert c.tr st.trs := by rw [hst]
      have ih := addAll_trs explicit cs (addDcm explicit st c).1
        (by rw [htrs]; exact nodup_setInsert c.tr st.trs h)
      refine ⟨ih.1, fun y => ?_⟩
      rw [ih.2 y, htrs]
      simp only [mem_setInsert, hok, if_true, List.mem_cons]
      constructor
      · rintro ((rfl | hy) | ⟨d, hd, rfl⟩)
        · exact Or.inr ⟨c, Or.inl rfl, rfl⟩
        · exact Or.inl hy
        · exact Or.inr ⟨d, Or.inr hd, rfl⟩
      · rintro (hy | ⟨d, rfl | hd, rfl⟩)
        · exact Or.inl (Or.inr hy)
        · exact Or.inl (Or.inl rfl)
        · exact Or.inr ⟨d, hd, rfl⟩
    · rw [addDcm_refused_unchanged explicit st c hok]
      simp only [hok, if_false]
      exact addAll_trs explicit cs st h

theorem eq_singleton_iff {β : Type} (l : List β) (a : β) (h : l.Nodup) :
    l = [a] ↔ l ≠ [] ∧ ∀ y, y ∈ l → y = a := by
  constructor
  · rintro rfl; simp
  · rintro ⟨hne, hall⟩
    match l, hne, hall, h with
    | [x], _, hall, _ => simp [hall x (by simp)]
    | x :: y :: rest, _, hall, hnd =>
      have hx := hall x (by simp)
      have hy := hall y (by simp)
      simp only [List.nodup_cons, List.mem_cons, not_or] at hnd
      exact absurd (hx.trans hy.symm) hnd.1.1

theorem singleton_of_members {β γ : Type} (T : List β) (A : List γ) (g : γ → β) (a : β)
    (hnd : T.Nodup) (hmem : ∀ y, y ∈ T ↔ ∃ c, c ∈ A ∧ g c = y) :
    T = [a] ↔ A ≠ [] ∧ ∀ c, c ∈ A → g c = a := by
  rw [eq_singleton_iff T a hnd]
  constructor
  · rintro ⟨hne, hall⟩
    refine ⟨?_, fun c hc => hall (g c) ((hmem (g c)).2 ⟨c, hc, rfl⟩)⟩
    intro hnil
    apply hne
    cases T with
    | nil => rfl
    | cons y rest =>
      obtain ⟨c, hc, _⟩ := (hmem y).1 (by simp)
      simp [hnil] at hc
  · rintro ⟨hne, hall⟩
    refine ⟨?_, fun y hy => ?_⟩
    · intro hnil
      cases A with
      | nil => exact hne rfl
      | cons c rest =>
        have : g c ∈ T := (hmem (g c)).2 ⟨c, by simp, rfl⟩
        simp [hnil] at this
    · obtain ⟨c, hc, rfl⟩ := (hmem y).1 hy
      exact hall c hc

/-- **the repetition time is recorded only when it is the same in all files**: `pixdim[4]` is set
    to `x` iff the stack holds at least one file and every file it holds carries repetition time `x` -/
theorem tr_recorded_iff (explicit : Bool) (cs : List Cand) (x : Int) :
    trOf (addAll explicit AddSt.init cs).1.trs = some x ↔
      acceptedOf explicit AddSt.init cs ≠ [] ∧
      ∀ c, c ∈ acceptedOf explicit AddSt.init cs → c.tr = some x := by
  have h := addAll_trs explicit cs AddSt.init (by simp [AddSt.init])
  rw [trOf_eq_some]
  have hinit : AddSt.init.trs = [] := rfl
  exact singleton_of_members _ _ Cand.tr (some x) h.1
    (fun y => by rw [h.2 y, hinit]; simp)

/-! ### frequency / phase / slice axes -/

/-- the slice axis recorded is `permutation[2]`; phase and frequency are recorded only for a unique,
    known phase-encoding direction, and then they are the images of the in-plane axes -/
theorem dimInfo_spec (pes : List (Option Nat)) (p0 p1 p2 : Nat) :
    (dimInfoOf pes [p0, p1, p2]).2.2 = some p2 ∧
    (∀ d, pes = [some d] →
      dimInfoOf pes [p0, p1, p2] = (if d = 0 then (some p0, some p1, some p2) else (some p1, some p0, some p2))) ∧
    ((∀ d, pes ≠ [some d]) → (dimInfoOf pes [p0, p1, p2]).1 = none ∧ (dimInfoOf pes [p0, p1, p2]).2.1 = none) := by
  refine ⟨?_, ?_, ?_⟩
  · unfold dimInfoOf
    split
    · split <;> rfl
    · rfl
  · rintro d rfl
    simp only [dimInfoOf]
    split <;> simp
  · intro h
    unfold dimInfoOf
    split
    · rename_i d
      exact absurd rfl (h d)
    · exact ⟨rfl, rfl⟩

end Stk
