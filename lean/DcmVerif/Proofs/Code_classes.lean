import DcmVerif.Generated.Code_classes
import DcmVerif.Model.Ext
import DcmVerif.Proofs.CodeLemmas
/-! `get_valid_classes` and `get_multiplicity` as translated from dcmmeta.py are the model's `validClasses` and `mult`. -/
set_option autoImplicit false
set_option linter.unusedSimpArgs false
set_option linter.unusedVariables false
open Cls

namespace Src
variable {α κ : Type}

/-! ### `get_valid_classes`, `get_multiplicity` -/

/-- **`get_valid_classes` as written in dcmmeta.py is the model's `validClasses`** (3 to 5 axes) … -/
theorem get_valid_classes_eq (e : DExt κ α) (sdArg : Option Nat) (h3 : 3 ≤ e.shape.length)
    (h5 : e.shape.length ≤ 5) :
    Py.get_valid_classes e.shape = .ok (validClasses (e.shp sdArg)) := by
  obtain ⟨shape, sd, ht, hv, ents⟩ := e
  match shape, h3, h5 with
  | [a, b, c], _, _ => simp [Py.get_valid_classes, validClasses, DExt.shp, Gen.classifications]; rfl
  | [a, b, c, d], _, _ => simp [Py.get_valid_classes, validClasses, DExt.shp, Gen.classifications]; rfl
  | [a, b, c, d, f], _, _ =>
    by_cases hd : d = 1 <;>
      simp [Py.get_valid_classes, validClasses, DExt.shp, Gen.classifications, hd] <;> rfl
  | [], h3, _ | [_], h3, _ | [_, _], h3, _ => simp at h3
  | _ :: _ :: _ :: _ :: _ :: _ :: _, _, h5 => simp at h5

/-- … and raises ValueError for any other number of axes -/
theorem get_valid_classes_refuses (shape : List Nat) (h : ¬ (3 ≤ shape.length ∧ shape.length ≤ 5)) :
    Py.get_valid_classes shape = .error PyErr.valueError := by
  have h3 : (shape.length == 3) = false := by simp; omega
  have h4 : (shape.length == 4) = false := by simp; omega
  have h5 : (shape.length == 5) = false := by simp; omega
  simp [Py.get_valid_classes, h3, h4, h5]
  rfl

/-- **`get_multiplicity` as written in dcmmeta.py is the model's `mult`** for every classification
    valid for the shape (`n_slices` is `shape[slice_dim]`, or None without slice dimension) … -/
theorem get_multiplicity_eq (e : DExt κ α) (h3 : 3 ≤ e.shape.length) (h5 : e.shape.length ≤ 5)
    (c : Cls) (hv : c ∈ validClasses e.shp) :
    Py.get_multiplicity e.shape (e.sliceDim.map fun d => e.shape.getD d 1) c = .ok (mult e.shp c) := by
  obtain ⟨shape, sd, ht, hvv, ents⟩ := e
  match shape, h3, h5 with
  | [a, b, c'], _, _ =>
    cases sd <;> cases c <;> simp [validClasses, DExt.shp] at hv <;>
      simp [Py.get_multiplicity, Py.get_valid_classes, Gen.classifications, Cls.base, Cls.sub, mult, DExt.shp,
        bind, Except.bind, pure, Except.pure, Nat.mul_assoc]
  | [a, b, c', d], _, _ =>
    cases sd <;> cases c <;> simp [validClasses, DExt.shp] at hv <;>
      simp [Py.get_multiplicity, Py.get_valid_classes, Gen.classifications, Cls.base, Cls.sub, mult, DExt.shp,
        bind, Except.bind, pure, Except.pure, Nat.mul_assoc]
  | [a, b, c', d, f], _, _ =>
    by_cases hd : d = 1 <;> cases sd <;> cases c <;> simp [validClasses, DExt.shp, hd] at hv <;>
      simp [Py.get_multiplicity, Py.get_valid_classes, Gen.classifications, Cls.base, Cls.sub, mult, DExt.shp, hd,
        bind, Except.bind, pure, Except.pure, Nat.mul_assoc]
  | [], h3, _ | [_], h3, _ | [_, _], h3, _ => simp at h3
  | _ :: _ :: _ :: _ :: _ :: _ :: _, _, h5 => simp at h5

end Src
