import DcmVerif.Model.Orient
/-! Proofs about the orientation model (C17): the 48 × 48 table, the voxel-order validation for
every string, the index / affine identity for every shape. -/
set_option autoImplicit false

namespace Orient

theorem all48_length : all48.length = 48 := by decide
theorem codes48_length : codes48.length = 48 := by decide +kernel

/-- the 48 × 48 table: for every start and every requested orientation `ornt_transform` succeeds and
    the reordered array has the requested orientation -/
theorem transform_table :
    all48.all (fun s => all48.all fun e =>
      match orntTransform s e with
      | some t => applyTo s t == e
      | none => false) = true := by decide +kernel

theorem transform_reaches_code (s e : Ornt) (hs : s ∈ all48) (he : e ∈ all48) :
    ∃ t, orntTransform s e = some t ∧ applyTo s t = e := by
  have h := transform_table
  rw [List.all_eq_true] at h
  have h1 := h s hs
  rw [List.all_eq_true] at h1
  have h2 := h1 e he
  cases ht : orntTransform s e with
  | none => rw [ht] at h2; cases h2
  | some t =>
    rw [ht] at h2
    exact ⟨t, rfl, by simpa using h2⟩

/-! ### the voxel_order check, for every string -/

def letters : List Char := ['L', 'R', 'A', 'P', 'S', 'I']
def triples : List (List Char) :=
  letters.flatMap fun a => letters.flatMap fun b => letters.map fun c => [a, b, c]

/-- on the 216 letter triples the loop of `reorder_voxels` accepts exactly the 48 codes -/
theorem check_table :
    triples.all (fun u =>
      leftEmpty (checkLoop u [['L', 'R'], ['A', 'P'], ['S', 'I']]) == decide (u ∈ codes48)) = true := by
  decide +kernel

theorem mem_triples (a b c : Char) (ha : a ∈ letters) (hb : b ∈ letters) (hc : c ∈ letters) :
    [a, b, c] ∈ triples := by
  unfold triples
  simp only [List.mem_flatMap, List.mem_map]
  exact ⟨a, ha, b, hb, c, hc, rfl⟩

theorem codes48_letters (u : List Char) (h : u ∈ codes48) : ∀ c ∈ u, c ∈ letters := by
  have key : codes48.all (fun u => u.all fun c => decide (c ∈ letters)) = true := by decide +kernel
  rw [List.all_eq_true] at key
  have := key u h
  rw [List.all_eq_true] at this
  intro c hc
  simpa using this c hc

theorem codes48_len (u : List Char) (h : u ∈ codes48) : u.length = 3 := by
  have key : codes48.all (fun u => u.length == 3) = true := by decide +kernel
  rw [List.all_eq_true] at key
  simpa using key u h

theorem checkLoop_bad (a : Char) (ha : a ∉ letters) (pre rest : List Char) (acc : List (List Char))
    (hpre : ∀ c ∈ pre, c ∈ letters) :
    checkLoop (pre ++ a :: rest) acc = none := by
  induction pre generalizing acc with
  | nil =>
    simp only [List.nil_append, checkLoop]
    have : ¬ a ∈ ['L', 'R', 'A', 'P', 'S', 'I'] := ha
    simp [this]
  | cons x xs ih =>
    have hx : x ∈ ['L', 'R', 'A', 'P', 'S', 'I'] := hpre x (by simp)
    simp only [List.cons_append, checkLoop, hx, if_true]
    exact ih _ (fun c hc => hpre c (by simp [hc]))

/-- **C17, code validity, for every string:** the voxel_order check passes iff the upper-cased
    string is one of the 48 codes (a permutation of one letter per anatomical axis) -/
theorem checkCode_iff (s : List Char) : checkCode s = true ↔ s.map upperC ∈ codes48 := by
  unfold checkCode
  by_cases hlen : (s.map upperC).length = 3
  · simp only [hlen, ne_eq, not_true_eq_false, if_false]
    match hs : s.map upperC, hlen with
    | [a, b, c], _ =>
      by_cases hall : a ∈ letters ∧ b ∈ letters ∧ c ∈ letters
      · have hm := mem_triples a b c hall.1 hall.2.1 hall.2.2
        have ht := check_table
        rw [List.all_eq_true] at ht
        have := ht _ hm
        simp only [beq_iff_eq] at this
        rw [this]; simp
      · constructor
        · intro h
          exfalso
          have hnone : checkLoop [a, b, c] [['L', 'R'], ['A', 'P'], ['S', 'I']] = none := by
            by_cases ha : a ∈ letters
            · by_cases hb : b ∈ letters
              · have hc : c ∉ letters := fun hc => hall ⟨ha, hb, hc⟩
                exact checkLoop_bad c hc [a, b] [] _ (by
                  intro x hx; simp at hx; rcases hx with rfl | rfl <;> assumption)
              · exact checkLoop_bad b hb [a] [c] _ (by intro x hx; simp at hx; subst hx; exact ha)
            · exact checkLoop_bad a ha [] [b, c] _ (by intro x hx; cases hx)
          rw [hnone] at h; simp [leftEmpty] at h
        · intro h
          exfalso
          have hl := codes48_letters _ h
          exact hall ⟨hl a (by simp), hl b (by simp), hl c (by simp)⟩
  · simp only [hlen, ne_eq, not_false_eq_true, if_true]
    constructor
    · intro h; cases h
    · intro h; exact absurd (codes48_len _ h) hlen

/-- every accepted code converts to a signed permutation of the three axes -/
theorem codes48_ornt : codes48.all (fun u =>
    match axcodes2ornt u with
    | some o => decide (o ∈ all48)
    | none => false) = true := by decide +kernel

/-! ### index and affine identity, for every shape -/

def allPerm : List (List Nat) := [[0,1,2],[0,2,1],[1,0,2],[1,2,0],[2,0,1],[2,1,0]]
def allFlips : List (List Bool) :=
  [true, false].flatMap fun a => [true, false].flatMap fun b => [true, false].map fun c => [a, b, c]
def allT : List (List (Nat × Bool)) :=
  allPerm.flatMap fun p => allFlips.map fun f => p.zip f

theorem allT_length : allT.length = 48 := by decide

/-- every transform `ornt_transform` can return between two of the 48 orientations is one of the 48
    signed permutations -/
theorem transform_in_allT :
    all48.all (fun s => all48.all fun e =>
      match orntTransform s e with
      | some t => decide (t ∈ allT)
      | none => false) = true := by decide +kernel

/-- **C17, voxel / transform identity:** for each of the 48 transforms, every shape and every output
    index in range, the returned matrix maps the output index to the input index whose voxel
    `apply_orientation` put there, and that index is in range. -/
theorem matVec_eq_srcIndex (t : List (Nat × Bool)) (ht : t ∈ allT) (a b c x y z : Nat)
    (hx : x < (outShape t [a, b, c]).getD 0 0) (hy : y < (outShape t [a, b, c]).getD 1 0)
    (hz : z < (outShape t [a, b, c]).getD 2 0) :
    matVec (invOrntAff t [a, b, c]) [x, y, z] = (srcIndex t [a, b, c] [x, y, z]).map Int.ofNat ∧
    (srcIndex t [a, b, c] [x, y, z]).getD 0 0 < a ∧
    (srcIndex t [a, b, c] [x, y, z]).getD 1 0 < b ∧
    (srcIndex t [a, b, c] [x, y, z]).getD 2 0 < c := by
  simp only [allT, allPerm, allFlips, List.flatMap_cons, List.flatMap_nil, List.map_cons,
    List.map_nil, List.zip_cons_cons, List.zip_nil_right, List.append_nil, List.cons_append,
    List.nil_append, List.mem_cons, List.mem_nil_iff, or_false] at ht
  rcases ht with h | h | h | h | h | h | h | h | h | h | h | h | h | h | h | h | h | h | h | h | h |
    h | h | h | h | h | h | h | h | h | h | h | h | h | h | h | h | h | h | h | h | h | h | h | h |
    h | h | h <;> subst h <;>
  simp [outShape, List.range, List.range.loop] at hx hy hz <;>
  simp [matVec, invOrntAff, invOrntAffRow, srcIndex, dot, List.range, List.range.loop] <;>
  omega

/-- the output shape is the permuted input shape -/
theorem outShape_perm (t : List (Nat × Bool)) (ht : t ∈ allT) (a b c : Nat) :
    (outShape t [a, b, c]).Perm [a, b, c] := by
  simp only [allT, allPerm, allFlips, List.flatMap_cons, List.flatMap_nil, List.map_cons,
    List.map_nil, List.zip_cons_cons, List.zip_nil_right, List.append_nil, List.cons_append,
    List.nil_append, List.mem_cons, List.mem_nil_iff, or_false] at ht
  rcases ht with h | h | h | h | h | h | h | h | h | h | h | h | h | h | h | h | h | h | h | h | h |
    h | h | h | h | h | h | h | h | h | h | h | h | h | h | h | h | h | h | h | h | h | h | h | h |
    h | h | h <;> subst h <;>
  simp [outShape, List.range, List.range.loop] <;>
  first
    | exact List.Perm.refl _
    | (apply List.perm_iff_count.mpr; intro x; simp [List.count_cons]; omega)

/-! ### the affine after reordering spells the requested code -/

theorem find_zip_map {β γ δ : Type} (f : β → γ) (p : δ → Bool) (l : List β) (m : List δ) :
    ((l.map f).zip m).find? (fun q => p q.2) =
      ((l.zip m).find? (fun q => p q.2)).map (fun q => (f q.1, q.2)) := by
  induction l generalizing m with
  | nil => simp
  | cons x xs ih =>
    cases m with
    | nil => simp
    | cons y ys =>
      simp only [List.map_cons, List.zip_cons_cons, List.find?_cons]
      cases hp : p y <;> simp [ih]

/-- the orientation `io_orientation` reads from `affine · T` is the start orientation pushed
    through the transform -/
theorem ioOrientation_mulCols (cols : List Col) (t : List (Nat × Bool)) :
    ioOrientation (mulCols cols t) = applyTo (ioOrientation cols) t := by
  unfold ioOrientation mulCols applyTo
  rw [List.map_map]
  apply List.map_congr_left
  intro j _
  have := find_zip_map (fun c : Col => (c.axis, c.pos)) (fun q : Nat × Bool => q.1 == j) cols t
  simp only [Function.comp]
  rw [this]
  cases (cols.zip t).find? (fun q => q.2.1 == j) with
  | none => rfl
  | some q =>
    obtain ⟨c, p, keep⟩ := q
    cases keep <;> rfl

/-- **C20 / C02: the permutation returned by the reordering tells where every source axis went:**
    output axis `t[i].1` carries the affine column of input axis `i` (negated when flipped), so
    `permutation[2]` is the axis along which the source slices are stacked and `permutation[0/1]`
    keep pointing along the source row / column directions -/
theorem mulCols_axis (t : List (Nat × Bool)) (ht : t ∈ allT) (c0 c1 c2 : Col) (i : Nat) (hi : i < 3) :
    (mulCols [c0, c1, c2] t)[(t.getD i (0, true)).1]? =
      ([c0, c1, c2][i]?).map fun c => { c with pos := if (t.getD i (0, true)).2 then c.pos else !c.pos } := by
  simp only [allT, allPerm, allFlips, List.flatMap_cons, List.flatMap_nil, List.map_cons,
    List.map_nil, List.zip_cons_cons, List.zip_nil_right, List.append_nil, List.cons_append,
    List.nil_append, List.mem_cons, List.mem_nil_iff, or_false] at ht
  have hi' : i = 0 ∨ i = 1 ∨ i = 2 := by omega
  rcases ht with h | h | h | h | h | h | h | h | h | h | h | h | h | h | h | h | h | h | h | h | h |
    h | h | h | h | h | h | h | h | h | h | h | h | h | h | h | h | h | h | h | h | h | h | h | h |
    h | h | h <;> subst h <;> rcases hi' with rfl | rfl | rfl <;>
  simp [mulCols, List.range, List.range.loop]

/-- **C17, decision logic:** a valid code, an array of ≥ 3 dimensions, a 4×4 axis-aligned affine ⇒
    `reorder_voxels` succeeds, and the closest anatomical directions of the output axes spell the
    requested code -/
theorem reorder_spells_code (nd : Nat) (cols : List Col) (code : List Char)
    (hnd : 3 ≤ nd) (hcols : ioOrientation cols ∈ all48) (hcode : checkCode code = true) :
    ∃ t newO, reorder nd true cols code = .ok t ∧
      axcodes2ornt (code.map upperC) = some newO ∧
      ioOrientation (mulCols cols t) = newO := by
  have hmem := (checkCode_iff code).mp hcode
  have htab := codes48_ornt
  rw [List.all_eq_true] at htab
  have h1 := htab _ hmem
  cases hax : axcodes2ornt (code.map upperC) with
  | none => rw [hax] at h1; cases h1
  | some newO =>
    rw [hax] at h1
    have hnew : newO ∈ all48 := by simpa using h1
    obtain ⟨t, ht, happ⟩ := transform_reaches_code _ _ hcols hnew
    refine ⟨t, newO, ?_, rfl, ?_⟩
    · unfold reorder
      simp [hcode, hax, ht, show ¬ nd < 3 by omega]
    · rw [ioOrientation_mulCols, happ]

/-- **C17, refusals:** an invalid code, an array under 3-D or a non-4×4 affine raise ValueError -/
theorem reorder_refuses (nd : Nat) (affOk : Bool) (cols : List Col) (code : List Char)
    (h : code.map upperC ∉ codes48 ∨ nd < 3 ∨ affOk = false) :
    reorder nd affOk cols code = .valueError := by
  unfold reorder
  by_cases hc : checkCode code = true
  · rcases h with h | h | h
    · exact absurd ((checkCode_iff code).mp hc) h
    · simp [hc, h]
    · by_cases hn : nd < 3
      · simp [hc, hn]
      · simp [hc, hn, h]
  · simp [hc]

end Orient
