import DcmVerif.Proofs.Key
/-! Totality: in the regions where the lookups of a merge are proved, the merge cannot fail.
The loops of `from_sequence` (`_insert`: reclassification, `_insert_slice`, `_insert_sample`) never
raise, whatever classes meet; the final `_simplify` of a global-slices key cannot raise when the key
is valid and a present time / vector axis has at least two entries (the excluded case is finding
F22).  Hence the three-level merge of `DicomStack.to_nifti` succeeds for every complete stack, and
the C01 lookup theorem holds without the "if the merges succeed" premise. -/
set_option autoImplicit false
set_option linter.unusedSectionVars false
open Cls

namespace Total
variable {α : Type} [DecidableEq α]

def Reach (cb : Option Cls) (c : Cls) : Prop := cb = some c ∨ c ∈ preserving cb
instance (cb : Option Cls) (c : Cls) : Decidable (Reach cb c) := by unfold Reach; infer_instance

theorem getChangedK_ok (null : α) (sh : Shp) (ks : KeyState α) (new : Cls)
    (h : Reach (ks.map (·.1)) new) : ∃ v, getChangedK null sh ks new = .ok v := by
  unfold getChangedK
  simp only
  by_cases h1 : ks.map (·.1) = some new
  · simp [h1]
  · rcases h with h | h
    · exact absurd h h1
    · simp [h1, h]

theorem changeClassK_ok (null : α) (sh : Shp) (ks : KeyState α) (new : Cls)
    (h : Reach (ks.map (·.1)) new) :
    ∃ v, changeClassK null sh ks new = .ok (some (new, v)) := by
  unfold changeClassK
  by_cases h1 : ks.map (·.1) = some new
  · simp only [h1, if_true]
    cases ks with
    | none => simp at h1
    | some p => obtain ⟨c, v⟩ := p; simp at h1; subst h1; exact ⟨v, rfl⟩
  · simp only [h1, if_false]
    obtain ⟨v, hv⟩ := getChangedK_ok null sh ks new h
    exact ⟨v, by rw [hv]⟩

/-- class-level content of `reclassifyK`: the class the key ends in, or `none` for the error -/
def reclassC (hasTime hasVector : Bool) (lc : Option Cls) (oc : Cls) : Option (Option Cls) :=
  if lc = some oc then some lc
  else if oc ∈ preserving lc then some (some oc)
  else if lc.any (· ∈ preserving (some oc)) then some lc
  else
    match (preserving lc).find? (fun d =>
        (match d with
          | gconst | gslices => true
          | tsamples | tslices => hasTime
          | vsamples | vslices => hasVector) && decide (d ∈ preserving (some oc))) with
    | none => none
    | some d => some (some d)

def reclassGood (ht hv : Bool) (lc cb : Option Cls) : Bool :=
  match reclassC ht hv lc (cb.getD gconst) with
  | some (some c) => decide (Reach cb c) && (decide (lc = some c) || decide (Reach lc c))
  | _ => false

theorem reclassGood_all (ht hv : Bool) (lc cb : Option Cls) : reclassGood ht hv lc cb = true := by
  cases ht <;> cases hv <;> cases lc <;> cases cb <;> (try rename_i a; cases a) <;>
    (try rename_i b; cases b) <;> decide

/-- whatever classes meet, the first loop of `_insert` finds a common class: it ends in `some c`
    with `c` reachable from the other side's class -/
theorem reclassC_total (ht hv : Bool) (lc cb : Option Cls) :
    ∃ c, reclassC ht hv lc (cb.getD gconst) = some (some c) ∧ Reach cb c ∧
      (lc = some c ∨ Reach lc c) := by
  have h := reclassGood_all ht hv lc cb
  unfold reclassGood at h
  split at h
  · rename_i c hc
    simp only [Bool.and_eq_true, Bool.or_eq_true, decide_eq_true_eq] at h
    exact ⟨c, hc, h.1, h.2⟩
  · cases h


theorem otherClass_eq (b : KeyState α) : otherClass b = (b.map (·.1)).getD gconst := by
  cases b with
  | none => rfl
  | some p => rfl

/-- **the first loop of `_insert` never fails**, whatever the two classes are, and leaves the key in
    a class the other side can be widened to -/
theorem reclassifyK_ok (null : α) (sh : Shp) (self b : KeyState α) :
    ∃ c lv, reclassifyK null sh self (otherClass b) = .ok (some (c, lv)) ∧
      Reach (b.map (·.1)) c := by
  obtain ⟨c, hc, hr, _⟩ := reclassC_total sh.hasTime sh.hasVector (self.map (·.1)) (b.map (·.1))
  rw [← otherClass_eq] at hc
  unfold reclassifyK
  unfold reclassC at hc
  simp only
  by_cases h1 : self.map (·.1) = some (otherClass b)
  · rw [if_pos h1] at hc ⊢
    injection hc with hc
    cases self with
    | none => simp at h1
    | some p =>
      obtain ⟨c0, lv⟩ := p
      simp only [Option.map_some, Option.some.injEq] at hc
      exact ⟨c0, lv, rfl, by rw [hc]; exact hr⟩
  · rw [if_neg h1] at hc ⊢
    by_cases h2 : otherClass b ∈ preserving (self.map (·.1))
    · rw [if_pos h2] at hc ⊢
      injection hc with hc; injection hc with hc
      obtain ⟨v, hv⟩ := changeClassK_ok null sh self (otherClass b) (Or.inr h2)
      exact ⟨otherClass b, v, hv, by rw [hc]; exact hr⟩
    · rw [if_neg h2] at hc ⊢
      by_cases h3 : (self.map (·.1)).any (· ∈ preserving (some (otherClass b))) = true
      · rw [if_pos h3] at hc ⊢
        injection hc with hc
        cases self with
        | none => simp at hc
        | some p =>
          obtain ⟨c0, lv⟩ := p
          simp only [Option.map_some, Option.some.injEq] at hc
          exact ⟨c0, lv, rfl, by rw [hc]; exact hr⟩
      · rw [if_neg h3] at hc ⊢
        have hfun : (fun d => basePresent sh d && decide (d ∈ preserving (some (otherClass b)))) =
            (fun d => (match d with
              | gconst | gslices => true
              | tsamples | tslices => sh.hasTime
              | vsamples | vslices => sh.hasVector) && decide (d ∈ preserving (some (otherClass b)))) := by
          funext d; cases d <;> rfl
        rw [hfun]
        split at hc
        · cases hc
        · rename_i d hd
          injection hc with hc; injection hc with hc
          rw [hd]
          simp only
          have hmem : d ∈ preserving (self.map (·.1)) := List.mem_of_find?_eq_some hd
          obtain ⟨v, hv⟩ := changeClassK_ok null sh self d (Or.inr hmem)
          exact ⟨d, v, hv, by rw [hc]; exact hr⟩


theorem gslices_reach (cb : Option Cls) : Reach cb gslices := by
  cases cb with
  | none => decide
  | some c => cases c <;> decide

theorem reach_of_gconst (cb : Option Cls) (h : Reach cb gconst) (d : Cls) (hd : d ≠ gconst) :
    Reach cb d := by
  cases cb with
  | none => cases d <;> first | exact absurd rfl hd | decide
  | some c =>
    cases c
    · cases d <;> first | exact absurd rfl hd | decide
    all_goals (exfalso; revert h; decide)

/-- **`_insert_slice` never fails** once the key sits in a class the other side can be widened to -/
theorem insertSliceK_ok (null : α) (sh osh : Shp) (c : Cls) (lv : List α) (b : KeyState α)
    (hr : Reach (b.map (·.1)) c) :
    ∃ r, insertSliceK null sh osh (some (c, lv)) b = .ok r := by
  unfold insertSliceK
  obtain ⟨ov, hov⟩ := getChangedK_ok null osh b c hr
  simp only [hov]
  by_cases hg : c = gconst
  · subst hg
    simp only [if_true]
    by_cases he : lv = ov
    · simp [he]
    · simp only [he, if_false]
      have hd : ∀ d, d ≠ gconst → (∃ lv', changeClassK null sh (some (gconst, lv)) d = .ok (some (d, lv'))) ∧
          ∃ ov', getChangedK null osh b d = .ok ov' := by
        intro d hdne
        refine ⟨changeClassK_ok null sh _ d (reach_of_gconst _ (Or.inl rfl) d hdne),
          getChangedK_ok null osh b d (reach_of_gconst _ hr d hdne)⟩
      by_cases ht : sh.hasTime = true
      · obtain ⟨⟨lv', h1⟩, ⟨ov', h2⟩⟩ := hd tslices (by decide)
        simp [ht, h1, h2]
      · by_cases hv : sh.hasVector = true
        · obtain ⟨⟨lv', h1⟩, ⟨ov', h2⟩⟩ := hd vslices (by decide)
          simp [ht, hv, h1, h2]
        · obtain ⟨⟨lv', h1⟩, ⟨ov', h2⟩⟩ := hd gslices (by decide)
          simp [ht, hv, h1, h2]
  · simp only [hg, if_false]
    by_cases hts : c = tslices
    · simp [hts]
    · simp only [hts, if_false]
      by_cases hgs : c = gslices
      · simp [hgs]
      · simp only [hgs, if_false]
        obtain ⟨lv', h1⟩ := changeClassK_ok null sh (some (c, lv)) gslices (gslices_reach _)
        obtain ⟨ov', h2⟩ := getChangedK_ok null osh b gslices (gslices_reach _)
        simp [h1, h2]

/-- **`_insert_sample` never fails** either -/
theorem insertSampleK_ok (null : α) (isTime : Bool) (sh osh : Shp) (c : Cls) (lv : List α)
    (b : KeyState α) (hr : Reach (b.map (·.1)) c) :
    ∃ r, insertSampleK null isTime sh osh (some (c, lv)) b = .ok r := by
  unfold insertSampleK
  obtain ⟨ov, hov⟩ := getChangedK_ok null osh b c hr
  simp only [hov]
  by_cases hg : c = gconst
  · subst hg
    simp only [if_true]
    by_cases he : lv = ov
    · simp [he]
    · simp only [he, if_false]
      have hne : (if isTime = true then tsamples else vsamples) ≠ gconst := by
        cases isTime <;> decide
      obtain ⟨lv', h1⟩ := changeClassK_ok null sh (some (gconst, lv)) _
        (reach_of_gconst _ (Or.inl rfl) _ hne)
      obtain ⟨ov', h2⟩ := getChangedK_ok null osh b _ (reach_of_gconst _ hr _ hne)
      simp [h1, h2]
  · simp only [hg, if_false]
    by_cases hs : c = (if isTime = true then tsamples else vsamples)
    · simp [hs]
    · simp only [hs, if_false]
      by_cases hgs : c = gslices
      · simp [hgs]
      · simp only [hgs, if_false]
        obtain ⟨lv', h1⟩ := changeClassK_ok null sh (some (c, lv)) gslices (gslices_reach _)
        obtain ⟨ov', h2⟩ := getChangedK_ok null osh b gslices (gslices_reach _)
        simp [h1, h2]

theorem stepSliceK_ok (null : α) (sh : Shp) (self b : KeyState α) :
    ∃ r, stepSliceK null sh self b = .ok r := by
  unfold stepSliceK
  by_cases hnn : self = none ∧ b = none
  · simp [hnn]
  · simp only [hnn, if_false]
    obtain ⟨c, lv, h1, hr⟩ := reclassifyK_ok null sh self b
    rw [h1]
    exact insertSliceK_ok null sh _ c lv b hr

theorem stepSampleK_ok (null : α) (isTime : Bool) (sh osh : Shp) (self b : KeyState α) :
    ∃ r, stepSampleK null isTime sh osh self b = .ok r := by
  unfold stepSampleK
  by_cases hnn : self = none ∧ b = none
  · simp [hnn]
  · simp only [hnn, if_false]
    obtain ⟨c, lv, h1, hr⟩ := reclassifyK_ok null sh self b
    rw [h1]
    exact insertSampleK_ok null isTime sh osh c lv b hr

/-- **the accumulation loops of `from_sequence` never fail** (slice axis) -/
theorem foldSliceK_ok (null : α) (sh1 : Shp) (rest : List (KeyState α)) (k : Nat) (acc : KeyState α) :
    ∃ r, foldSliceK null sh1 k acc rest = .ok r := by
  induction rest generalizing k acc with
  | nil => exact ⟨acc, rfl⟩
  | cons b rest ih =>
    obtain ⟨a', h⟩ := stepSliceK_ok null { sh1 with S := k } acc b
    simp only [foldSliceK, h]
    exact ih (k + 1) a'

/-- … and along the time / vector axes -/
theorem foldK_ok (step : Nat → KeyState α → KeyState α → Except Err (KeyState α))
    (hstep : ∀ k a b, ∃ r, step k a b = .ok r) (rest : List (KeyState α)) (k : Nat)
    (acc : KeyState α) : ∃ r, foldK step k acc rest = .ok r := by
  induction rest generalizing k acc with
  | nil => exact ⟨acc, rfl⟩
  | cons b rest ih =>
    obtain ⟨a', h⟩ := hstep k acc b
    simp only [foldK, h]
    exact ih (k + 1) a'


theorem constLoop_ok_of (sh : Shp) (src : Cls) (vals : List α) (l : List Cls)
    (h : ∀ d ∈ l, basePresent sh d = true →
      constPeriod sh src d = none ∨ constPeriod sh src d = some 1 ∨
        ∃ p, constPeriod sh src d = some p ∧ 2 ≤ p ∧ vals.length % p = 0) :
    ∃ res, constLoop sh src vals l = .ok res := by
  induction l with
  | nil => exact ⟨none, rfl⟩
  | cons x xs ih =>
    have ih' := ih (fun d hd => h d (List.mem_cons_of_mem _ hd))
    unfold constLoop
    by_cases hb : basePresent sh x = true
    · simp only [hb, if_true]
      rcases h x List.mem_cons_self hb with hp | hp | ⟨p, hp, h2, hdiv⟩
      · simp only [hp, pyIsConstant]
        have : ¬ ((none : Option Nat) = some 1) := by simp
        simp only [this, if_false]
        cases isConstantAll vals with
        | true => exact ⟨_, rfl⟩
        | false => exact ih'
      · simp only [hp, if_true]
        exact ⟨_, rfl⟩
      · have hne : ¬ (some p = some 1) := by simp; omega
        simp only [hp, hne, if_false, pyIsConstant]
        have h1 : ¬ p ≤ 1 := by omega
        have h3 : ¬ (vals.length % p ≠ 0) := by simp [hdiv]
        simp only [h1, h3, if_false]
        cases isConstantP p vals with
        | true => exact ⟨_, rfl⟩
        | false => exact ih'
    · simp only [hb]
      exact ih'

theorem repeatLoop_ok_of (sh : Shp) (vals : List α) (l : List Cls)
    (h : ∀ d ∈ l, basePresent sh d = true →
      mult sh d = vals.length ∨
        (1 < mult sh d ∧ mult sh d < vals.length ∧ vals.length % mult sh d = 0)) :
    ∃ res, repeatLoop sh vals l = .ok res := by
  induction l with
  | nil => exact ⟨none, rfl⟩
  | cons x xs ih =>
    have ih' := ih (fun d hd => h d (List.mem_cons_of_mem _ hd))
    unfold repeatLoop
    by_cases hb : basePresent sh x = true
    · simp only [hb, if_true]
      rcases h x List.mem_cons_self hb with hdeg | ⟨h1, h2, h3⟩
      · simp only [repeatHit, hdeg, if_true]
        exact ⟨_, rfl⟩
      · have e0 : ¬ (mult sh x = vals.length) := by omega
        have e1 : ¬ (mult sh x ≤ 1 ∨ mult sh x ≥ vals.length) := by omega
        have e2 : ¬ (vals.length % mult sh x ≠ 0) := by simp [h3]
        simp only [repeatHit, e0, pyIsRepeating, e1, e2, if_false]
        cases isRepeatingP (mult sh x) vals with
        | true => exact ⟨_, rfl⟩
        | false => exact ih'
    · simp only [hb]
      exact ih'



/-- **the final `_simplify` of a merge never fails** on a valid global-slices key (with the F22
    repair also when a present time / vector axis is singular) -/
theorem simplify_gslices_ok (null : α) (sh : Shp) (wf : WF sh) (hsl : sh.hasSlice = true)
    (vals : List α) (hl : vals.length = sh.S * sh.T * sh.V) :
    ∃ o, simplifyK null sh gslices vals = .ok o := by
  obtain ⟨hS, hT, hV⟩ := wf
  have hmg : mult sh gslices = sh.S * sh.T * sh.V := by simp [mult, hsl]
  have hpv : constPeriod sh gslices vsamples = some (sh.S * sh.T) := by
    simp only [constPeriod, mult, hsl, if_true]
    rw [Nat.mul_div_cancel _ hV]
  have hpt : constPeriod sh gslices tsamples = some sh.S := by
    simp only [constPeriod, mult, hsl, if_true]
    rw [Nat.mul_assoc, Nat.mul_div_cancel _ (Nat.mul_pos hT hV)]
  have hconst : ∃ res, constLoop sh gslices vals (constTests gslices) = .ok res := by
    apply constLoop_ok_of
    intro d hd hb
    have hd' : d = gconst ∨ d = vsamples ∨ d = tsamples := by simpa [constTests] using hd
    rcases hd' with rfl | rfl | rfl
    · exact Or.inl rfl
    · rw [hpv]
      by_cases h1 : sh.S * sh.T = 1
      · exact Or.inr (Or.inl (by rw [h1]))
      · refine Or.inr (Or.inr ⟨_, rfl, ?_, ?_⟩)
        · have : 0 < sh.S * sh.T := Nat.mul_pos hS hT
          omega
        · rw [hl]; exact Nat.mul_mod_right _ _
    · rw [hpt]
      by_cases h1 : sh.S = 1
      · exact Or.inr (Or.inl (by rw [h1]))
      · refine Or.inr (Or.inr ⟨_, rfl, by omega, ?_⟩)
        rw [hl, Nat.mul_assoc]; exact Nat.mul_mod_right _ _
  obtain ⟨res, hres⟩ := hconst
  unfold simplifyK
  have hne : ¬ (gslices = gconst) := by decide
  simp only [hne, if_false, hres]
  cases res with
  | some p => obtain ⟨d, v⟩ := p; exact ⟨_, rfl⟩
  | none =>
    simp only
    have hmiss := constLoop_prefix sh gslices vals (constTests gslices) none hres
    simp only at hmiss
    have hrep : ∃ res, repeatLoop sh vals (repeatTests gslices) = .ok res := by
      apply repeatLoop_ok_of
      intro d hd hb
      have hd' : d = tslices ∨ d = vslices := by simpa [repeatTests] using hd
      rcases hd' with rfl | rfl
      · -- time slices: period S
        have hbt : sh.hasTime = true := by simpa [basePresent] using hb
        have hm := hmiss tsamples (by simp [constTests]) (by simpa [basePresent] using hbt)
        have hS1 : sh.S ≠ 1 := by
          intro e; apply hm.1; rw [hpt, e]
        have hmt : mult sh tslices = sh.S := by simp [mult, hsl]
        rw [hmt, hl, Nat.mul_assoc]
        by_cases hTV : sh.T * sh.V = 1
        · exact Or.inl (by rw [hTV, Nat.mul_one])
        · refine Or.inr ⟨by omega, ?_, Nat.mul_mod_right _ _⟩
          have hTVpos : 0 < sh.T * sh.V := Nat.mul_pos hT hV
          have h2 : sh.S * 2 ≤ sh.S * (sh.T * sh.V) := Nat.mul_le_mul_left _ (by omega)
          omega
      · -- vector slices: period S·T
        have hbv : sh.hasVector = true := by simpa [basePresent] using hb
        have hm := hmiss vsamples (by simp [constTests]) (by simpa [basePresent] using hbv)
        have hST1 : sh.S * sh.T ≠ 1 := by
          intro e; apply hm.1; rw [hpv, e]
        have hmt : mult sh vslices = sh.S * sh.T := by simp [mult, hsl]
        rw [hmt, hl]
        have hpos : 0 < sh.S * sh.T := Nat.mul_pos hS hT
        by_cases hV1 : sh.V = 1
        · exact Or.inl (by rw [hV1, Nat.mul_one])
        · refine Or.inr ⟨by omega, ?_, Nat.mul_mod_right _ _⟩
          have h2 : (sh.S * sh.T) * 2 ≤ (sh.S * sh.T) * sh.V := Nat.mul_le_mul_left _ (by omega)
          omega
    obtain ⟨r2, hr2⟩ := hrep
    rw [hr2]
    cases r2 with
    | some p => obtain ⟨d, v⟩ := p; exact ⟨_, rfl⟩
    | none => exact ⟨_, rfl⟩


/-! ### the merges as a whole -/

theorem applySimplify_ok (null : α) (sh : Shp) (wf : WF sh) (hsl : sh.hasSlice = true)
    (r0 : KeyState α) (hv0 : ValidK sh r0) :
    ∃ r, (match r0 with
          | some (gslices, _) => applySimplify null sh r0
          | _ => .ok r0) = .ok r := by
  cases r0 with
  | none => exact ⟨none, rfl⟩
  | some pr =>
    obtain ⟨c, vals⟩ := pr
    by_cases hg : c = gslices
    · subst hg
      have hl : vals.length = sh.S * sh.T * sh.V := by
        have := hv0.2; simpa [mult, hsl] using this
      obtain ⟨o, ho⟩ := simplify_gslices_ok null sh wf hsl vals hl
      simp only [applySimplify, ho]
      cases o with
      | unchanged => exact ⟨_, rfl⟩
      | deleted => exact ⟨_, rfl⟩
      | moved d out => exact ⟨_, rfl⟩
    · cases c <;> first | exact absurd rfl hg | exact ⟨_, rfl⟩

/-- **merging along the slice axis cannot fail** for valid inputs of a consistent shape -/
theorem mergeSliceK_ok (null : α) (sh1 : Shp) (hc1 : Consistent sh1)
    (a : KeyState α) (rest : List (KeyState α))
    (hin : ∀ b, b ∈ a :: rest → ValidK { sh1 with S := 1 } b) :
    ∃ r, mergeSliceK null sh1 (a :: rest) = .ok r := by
  obtain ⟨r0, hf⟩ := foldSliceK_ok null sh1 rest 1 a
  simp only [mergeSliceK, hf]
  have hbase0 : ∀ i t v, i < 1 → t < sh1.T → v < sh1.V →
      lookupKS null { sh1 with S := 1 } a i t v =
        lookupKS null { sh1 with S := 1 } ([a][i]?.getD none) 0 t v := by
    intro i t v hi _ _
    have : i = 0 := by omega
    subst this; rfl
  obtain ⟨hv0, _⟩ := foldSlice_lookup null sh1 hc1 rest 1 [a] a r0 (by omega) rfl
    (hin a List.mem_cons_self) hbase0
    (fun b hb => hin b (List.mem_cons_of_mem _ hb)) hf
  have wfn : WF { sh1 with S := 1 + rest.length } :=
    ⟨by simp; omega, hc1.hT, hc1.hV⟩
  exact applySimplify_ok null _ wfn hc1.hsl r0 hv0

/-- **merging 3-D volumes along time cannot fail** -/
theorem mergeTimeK_ok (null : α) (sh1 osh : Shp)
    (hS : 0 < sh1.S) (hsl : sh1.hasSlice = true) (nd4 : sh1.nd = 4) (v1 : sh1.V = 1)
    (hvec : sh1.hasVector = false)
    (ond : osh.nd = 3) (oS : osh.S = sh1.S) (oT : osh.T = 1) (oV : osh.V = 1)
    (ohsl : osh.hasSlice = true)
    (a : KeyState α) (rest : List (KeyState α))
    (hin : ∀ b, b ∈ a :: rest → ValidK osh b) :
    ∃ r, mergeTimeK null sh1 osh (a :: rest) = .ok r := by
  have setup : ∀ k, 0 < k → TimeSetup { sh1 with T := k } osh := fun k hk =>
    { wf := ⟨hS, hk, by rw [v1]; omega⟩, hsl := hsl, nd4 := nd4, v1 := v1, ond := ond, oS := oS,
      oT := oT, oV := oV, ohsl := ohsl }
  obtain ⟨r0, hf⟩ := foldK_ok (fun k acc b => stepSampleK null true { sh1 with T := k } osh acc b)
    (fun k a b => stepSampleK_ok null true _ osh a b) rest 1 a
  simp only [mergeTimeK, hf]
  have hva : ValidK { sh1 with T := 1 } a := by
    have := hin a List.mem_cons_self
    cases a with
    | none => trivial
    | some pr =>
      obtain ⟨c, vals⟩ := pr
      obtain ⟨hc, hl⟩ := this
      have hvo : validClasses osh = [gconst, gslices] := by simp [validClasses, ond]
      rw [hvo] at hc
      refine ⟨?_, ?_⟩
      · simp [validClasses, nd4]
        rcases List.mem_cons.mp hc with e | e
        · exact Or.inl e
        · rcases List.mem_cons.mp e with e | e
          · exact Or.inr (Or.inl e)
          · simp at e
      · rw [hl]
        rcases List.mem_cons.mp hc with e | e
        · rw [e]; rfl
        · rcases List.mem_cons.mp e with e | e
          · rw [e]; simp [mult, hsl, ohsl, oS, oT, oV, v1]
          · simp at e
  obtain ⟨hv0, _⟩ := foldK_lookup
    (fun k acc b => stepSampleK null true { sh1 with T := k } osh acc b)
    (fun k ks => ValidK { sh1 with T := k } ks) (ValidK osh)
    (fun _ _ _ (_ : Nat) => (none : Option α))
    (fun _ _ => none) (fun _ => True)
    (by
      intro k acc b r' hk hv hb hs
      obtain ⟨h1, _, _⟩ := stepTime_lookup null { sh1 with T := k } osh (setup k hk) hvec
        acc b hv hb r' hs
      exact ⟨h1, fun _ _ _ _ => rfl, fun _ _ => rfl⟩)
    rest 1 [a] a r0 (by omega) rfl hva (fun _ _ _ _ => rfl)
    (fun b hb => hin b (List.mem_cons_of_mem _ hb)) hf
  have wfn : WF { sh1 with T := 1 + rest.length } := ⟨hS, by simp; omega, by rw [v1]; omega⟩
  exact applySimplify_ok null _ wfn hsl r0 hv0

/-- **merging volumes along the vector axis cannot fail** -/
theorem mergeVecK_ok (null : α) (sh1 osh : Shp)
    (hS : 0 < sh1.S) (hT : 0 < sh1.T) (hsl : sh1.hasSlice = true) (nd5 : sh1.nd = 5)
    (hvec : sh1.hasVector = true) (htime : sh1.hasTime = true → sh1.T ≠ 1)
    (ohsl : osh.hasSlice = true) (oS : osh.S = sh1.S) (oT : osh.T = sh1.T) (oV : osh.V = 1)
    (ond : (osh.nd = 3 ∧ sh1.T = 1) ∨ (osh.nd = 4 ∧ sh1.T ≠ 1))
    (a : KeyState α) (rest : List (KeyState α))
    (hin : ∀ b, b ∈ a :: rest → ValidK osh b) :
    ∃ r, mergeVecK null sh1 osh (a :: rest) = .ok r := by
  have setup : ∀ k, 0 < k → VecSetup { sh1 with V := k } osh := fun k hk =>
    { wf := ⟨hS, hT, hk⟩, hsl := hsl, nd5 := nd5, ohsl := ohsl, oS := oS, oT := oT, oV := oV,
      ond := ond }
  obtain ⟨r0, hf⟩ := foldK_ok (fun k acc b => stepSampleK null false { sh1 with V := k } osh acc b)
    (fun k a b => stepSampleK_ok null false _ osh a b) rest 1 a
  simp only [mergeVecK, hf]
  have hva : ValidK { sh1 with V := 1 } a := by
    have := hin a List.mem_cons_self
    cases a with
    | none => trivial
    | some pr =>
      obtain ⟨c, vals⟩ := pr
      obtain ⟨hc, hl⟩ := this
      refine ⟨?_, ?_⟩
      · unfold validClasses at hc ⊢
        rcases ond with ⟨h3, hT1⟩ | ⟨h4, hT1⟩
        · simp [h3] at hc; simp [nd5, hT1]; rcases hc with e | e <;> rw [e] <;> simp
        · simp [h4] at hc; simp [nd5, hT1]
          rcases hc with e | e | e | e <;> rw [e] <;> simp
      · rw [hl]; cases c <;> simp [mult, hsl, ohsl, oS, oT, oV]
  obtain ⟨hv0, _⟩ := foldK_lookup
    (fun k acc b => stepSampleK null false { sh1 with V := k } osh acc b)
    (fun k ks => ValidK { sh1 with V := k } ks) (ValidK osh)
    (fun _ _ _ (_ : Nat) => (none : Option α))
    (fun _ _ => none) (fun _ => True)
    (by
      intro k acc b r' hk hv hb hs
      obtain ⟨h1, _, _⟩ := stepVector_lookup null { sh1 with V := k } osh (setup k hk)
        hvec htime acc b hv hb r' hs
      exact ⟨h1, fun _ _ _ _ => rfl, fun _ _ => rfl⟩)
    rest 1 [a] a r0 (by omega) rfl hva (fun _ _ _ _ => rfl)
    (fun b hb => hin b (List.mem_cons_of_mem _ hb)) hf
  have wfn : WF { sh1 with V := 1 + rest.length } := ⟨hS, hT, by simp; omega⟩
  exact applySimplify_ok null _ wfn hsl r0 hv0

/-- the result of a vector merge is a valid key state of the merged shape -/
theorem mergeVec_valid (null : α) (sh1 osh : Shp)
    (hS : 0 < sh1.S) (hT : 0 < sh1.T) (hsl : sh1.hasSlice = true) (nd5 : sh1.nd = 5)
    (hvec : sh1.hasVector = true) (htime : sh1.hasTime = true ↔ sh1.T ≠ 1)
    (ohsl : osh.hasSlice = true) (oS : osh.S = sh1.S) (oT : osh.T = sh1.T) (oV : osh.V = 1)
    (ond : (osh.nd = 3 ∧ sh1.T = 1) ∨ (osh.nd = 4 ∧ sh1.T ≠ 1))
    (inputs : List (KeyState α)) (hin : ∀ b, b ∈ inputs → ValidK osh b)
    (r : KeyState α) (h : mergeVecK null sh1 osh inputs = .ok r) :
    ValidK { sh1 with V := inputs.length } r := by
  have setup : ∀ k, 0 < k → VecSetup { sh1 with V := k } osh := fun k hk =>
    { wf := ⟨hS, hT, hk⟩, hsl := hsl, nd5 := nd5, ohsl := ohsl, oS := oS, oT := oT, oV := oV,
      ond := ond }
  cases inputs with
  | nil => simp [mergeVecK] at h
  | cons a rest =>
    simp only [mergeVecK] at h
    cases hf : foldK (fun k acc b => stepSampleK null false { sh1 with V := k } osh acc b) 1 a rest with
    | error e => simp [hf] at h
    | ok r0 =>
      simp only [hf] at h
      have hva : ValidK { sh1 with V := 1 } a := by
        have := hin a List.mem_cons_self
        cases a with
        | none => trivial
        | some pr =>
          obtain ⟨c, vals⟩ := pr
          obtain ⟨hc, hl⟩ := this
          refine ⟨?_, ?_⟩
          · unfold validClasses at hc ⊢
            rcases ond with ⟨h3, hT1⟩ | ⟨h4, hT1⟩
            · simp [h3] at hc; simp [nd5, hT1]; rcases hc with e | e <;> rw [e] <;> simp
            · simp [h4] at hc; simp [nd5, hT1]
              rcases hc with e | e | e | e <;> rw [e] <;> simp
          · rw [hl]; cases c <;> simp [mult, hsl, ohsl, oS, oT, oV]
      obtain ⟨hv0, _⟩ := foldK_lookup
        (fun k acc b => stepSampleK null false { sh1 with V := k } osh acc b)
        (fun k ks => ValidK { sh1 with V := k } ks) (ValidK osh)
        (fun _ _ _ (_ : Nat) => (none : Option α))
        (fun _ _ => none) (fun _ => True)
        (by
          intro k acc b r' hk hv hb hs
          obtain ⟨h1, _, _⟩ := stepVector_lookup null { sh1 with V := k } osh (setup k hk)
            hvec (fun ht => htime.mp ht) acc b hv hb r' hs
          exact ⟨h1, fun _ _ _ _ => rfl, fun _ _ => rfl⟩)
        rest 1 [a] a r0 (by omega) rfl hva (fun _ _ _ _ => rfl)
        (fun b hb => hin b (List.mem_cons_of_mem _ hb)) hf
      have hlen : (a :: rest).length = 1 + rest.length := by simp; omega
      rw [hlen]
      have wfn : WF { sh1 with V := 1 + rest.length } := ⟨hS, hT, by simp; omega⟩
      have hbase : ∀ d, basePresent { sh1 with V := 1 + rest.length } d = true →
          d ∈ validClasses { sh1 with V := 1 + rest.length } := by
        intro d hd
        by_cases hT1 : sh1.T = 1
        · have hnt : sh1.hasTime = false := by
            cases hh : sh1.hasTime with
            | false => rfl
            | true => exact absurd hT1 (htime.mp hh)
          cases d <;> simp [basePresent, hvec, hnt, validClasses, nd5, hT1] at hd ⊢
        · cases d <;> simp [validClasses, nd5, hT1]
      exact finalSimplify_valid null _ wfn hsl hbase r0 r hv0 h

/-! ### C01 without the premise -/

def okOr {β : Type} (d : β) : Except Err β → β
  | .ok b => b
  | .error _ => d

theorem eq_ok_okOr {β : Type} (d : β) (e : Except Err β) (h : ∃ r, e = .ok r) : e = .ok (okOr d e) := by
  obtain ⟨r, hr⟩ := h; rw [hr]; rfl

theorem range_map_cons {β : Type} (n : Nat) (hn : 0 < n) (f : Nat → β) :
    ∃ a rest, (List.range n).map f = a :: rest ∧ rest.length = n - 1 := by
  cases h : (List.range n).map f with
  | nil =>
    have := congrArg List.length h
    simp at this; omega
  | cons a rest =>
    refine ⟨a, rest, rfl, ?_⟩
    have := congrArg List.length h
    simp at this; omega

theorem fileKS_valid (x : Option α) : ValidK (⟨3, 1, 1, 1, true, false, false⟩ : Shp) (fileKS x) := by
  cases x with
  | none => trivial
  | some a => exact ⟨by simp [validClasses], rfl⟩

theorem consistent3 : Consistent (⟨3, 1, 1, 1, true, false, false⟩ : Shp) :=
  { hS := by decide, hT := by decide, hV := by decide, hnd := Or.inl rfl,
    h3 := fun _ => ⟨rfl, rfl⟩, h4 := fun h => (by cases h), hsl := rfl,
    htime := (by simp), hvec := (by simp), trimmed4 := fun h => (by cases h) }

/-- **C01, unconditionally (5-D result):** for every assignment of values (or absence) to the files
    of a complete S × T × V stack (T, V ≥ 2) the three levels of merging of `to_nifti` all succeed,
    and the resulting summary returns at every slice / time / vector position exactly what that file
    carried -/
theorem convert_total (null : α) (S T V : Nat) (hS : 0 < S) (hT : 2 ≤ T) (hV : 2 ≤ V)
    (val : Nat → Nat → Nat → Option α) :
    ∃ (vol : Nat → Nat → KeyState α) (vec : Nat → KeyState α) (r : KeyState α),
      (∀ t v, t < T → v < V →
        mergeSliceK null ⟨3, 1, 1, 1, true, false, false⟩
          ((List.range S).map fun s => fileKS (val s t v)) = .ok (vol t v)) ∧
      (∀ v, v < V →
        mergeTimeK null ⟨4, S, 1, 1, true, true, false⟩ ⟨3, S, 1, 1, true, false, false⟩
          ((List.range T).map fun t => vol t v) = .ok (vec v)) ∧
      mergeVecK null ⟨5, S, T, 1, true, true, true⟩ ⟨4, S, T, 1, true, true, false⟩
          ((List.range V).map vec) = .ok r ∧
      ∀ s t v, s < S → t < T → v < V →
        lookupKS null ⟨5, S, T, V, true, true, true⟩ r s t v = some ((val s t v).getD null) := by
  -- level 1
  let volE := fun t v => mergeSliceK null ⟨3, 1, 1, 1, true, false, false⟩
      ((List.range S).map fun s => fileKS (val s t v))
  have hvolE : ∀ t v, ∃ r, volE t v = .ok r := by
    intro t v
    obtain ⟨a, rest, hl, _⟩ := range_map_cons S hS (fun s => fileKS (val s t v))
    show ∃ r, mergeSliceK null _ ((List.range S).map fun s => fileKS (val s t v)) = .ok r
    rw [hl]
    apply mergeSliceK_ok null _ consistent3
    intro b hb
    rw [← hl] at hb
    obtain ⟨s, _, rfl⟩ := List.mem_map.mp hb
    exact fileKS_valid _
  let vol := fun t v => okOr (none : KeyState α) (volE t v)
  have hvol : ∀ t v, volE t v = .ok (vol t v) := fun t v => eq_ok_okOr _ _ (hvolE t v)
  have hvolValid : ∀ t v, ValidK (⟨3, S, 1, 1, true, false, false⟩ : Shp) (vol t v) := by
    intro t v
    have := mergeSlice_valid null ⟨3, 1, 1, 1, true, false, false⟩ consistent3
      ((List.range S).map fun s => fileKS (val s t v))
      (by intro b hb; obtain ⟨s, _, rfl⟩ := List.mem_map.mp hb; exact fileKS_valid _)
      (vol t v) (hvol t v)
    simpa using this
  -- level 2
  let vecE := fun v => mergeTimeK null ⟨4, S, 1, 1, true, true, false⟩ ⟨3, S, 1, 1, true, false, false⟩
      ((List.range T).map fun t => vol t v)
  have hvecE : ∀ v, ∃ r, vecE v = .ok r := by
    intro v
    obtain ⟨a, rest, hl, hlen⟩ := range_map_cons T (by omega) (fun t => vol t v)
    show ∃ r, mergeTimeK null _ _ ((List.range T).map fun t => vol t v) = .ok r
    rw [hl]
    apply mergeTimeK_ok null ⟨4, S, 1, 1, true, true, false⟩ ⟨3, S, 1, 1, true, false, false⟩
      hS rfl rfl rfl rfl rfl rfl rfl rfl rfl a rest
    · intro b hb
      rw [← hl] at hb
      obtain ⟨t, _, rfl⟩ := List.mem_map.mp hb
      exact hvolValid t v
  let vec := fun v => okOr (none : KeyState α) (vecE v)
  have hvec : ∀ v, vecE v = .ok (vec v) := fun v => eq_ok_okOr _ _ (hvecE v)
  have hvecValid : ∀ v, ValidK (⟨4, S, T, 1, true, true, false⟩ : Shp) (vec v) := by
    intro v
    have := mergeTime_valid null ⟨4, S, 1, 1, true, true, false⟩ ⟨3, S, 1, 1, true, false, false⟩
      hS rfl rfl rfl rfl rfl rfl rfl rfl rfl
      ((List.range T).map fun t => vol t v)
      (by intro b hb; obtain ⟨t, _, rfl⟩ := List.mem_map.mp hb; exact hvolValid t v)
      (vec v) (hvec v)
    simpa using this
  -- level 3
  have hfinE : ∃ r, mergeVecK null ⟨5, S, T, 1, true, true, true⟩ ⟨4, S, T, 1, true, true, false⟩
      ((List.range V).map vec) = .ok r := by
    obtain ⟨a, rest, hl, hlen⟩ := range_map_cons V (by omega) vec
    rw [hl]
    apply mergeVecK_ok null ⟨5, S, T, 1, true, true, true⟩ ⟨4, S, T, 1, true, true, false⟩
      hS (by show 0 < T; omega) rfl rfl rfl
      (fun _ => by show T ≠ 1; omega) rfl rfl rfl rfl
      (Or.inr ⟨rfl, by show T ≠ 1; omega⟩) a rest
    · intro b hb
      rw [← hl] at hb
      obtain ⟨v, _, rfl⟩ := List.mem_map.mp hb
      exact hvecValid v
  obtain ⟨r, hr⟩ := hfinE
  refine ⟨vol, vec, r, fun t v _ _ => hvol t v, fun v _ => hvec v, hr, ?_⟩
  exact convert_lookup_key null S T V hS hT (by omega) val vol vec r
    (fun t v _ _ => hvol t v) (fun v _ => hvec v) hr

/-- **C01, unconditionally (4-D result)** -/
theorem convert_total_4d (null : α) (S T : Nat) (hS : 0 < S) (hT : 2 ≤ T)
    (val : Nat → Nat → Option α) :
    ∃ (vol : Nat → KeyState α) (r : KeyState α),
      (∀ t, t < T →
        mergeSliceK null ⟨3, 1, 1, 1, true, false, false⟩
          ((List.range S).map fun s => fileKS (val s t)) = .ok (vol t)) ∧
      mergeTimeK null ⟨4, S, 1, 1, true, true, false⟩ ⟨3, S, 1, 1, true, false, false⟩
          ((List.range T).map vol) = .ok r ∧
      ∀ s t, s < S → t < T →
        lookupKS null ⟨4, S, T, 1, true, true, false⟩ r s t 0 = some ((val s t).getD null) := by
  let volE := fun t => mergeSliceK null ⟨3, 1, 1, 1, true, false, false⟩
      ((List.range S).map fun s => fileKS (val s t))
  have hvolE : ∀ t, ∃ r, volE t = .ok r := by
    intro t
    obtain ⟨a, rest, hl, _⟩ := range_map_cons S hS (fun s => fileKS (val s t))
    show ∃ r, mergeSliceK null _ ((List.range S).map fun s => fileKS (val s t)) = .ok r
    rw [hl]
    apply mergeSliceK_ok null _ consistent3
    intro b hb
    rw [← hl] at hb
    obtain ⟨s, _, rfl⟩ := List.mem_map.mp hb
    exact fileKS_valid _
  let vol := fun t => okOr (none : KeyState α) (volE t)
  have hvol : ∀ t, volE t = .ok (vol t) := fun t => eq_ok_okOr _ _ (hvolE t)
  have hvolValid : ∀ t, ValidK (⟨3, S, 1, 1, true, false, false⟩ : Shp) (vol t) := by
    intro t
    have := mergeSlice_valid null ⟨3, 1, 1, 1, true, false, false⟩ consistent3
      ((List.range S).map fun s => fileKS (val s t))
      (by intro b hb; obtain ⟨s, _, rfl⟩ := List.mem_map.mp hb; exact fileKS_valid _)
      (vol t) (hvol t)
    simpa using this
  have hfinE : ∃ r, mergeTimeK null ⟨4, S, 1, 1, true, true, false⟩ ⟨3, S, 1, 1, true, false, false⟩
      ((List.range T).map vol) = .ok r := by
    obtain ⟨a, rest, hl, hlen⟩ := range_map_cons T (by omega) vol
    rw [hl]
    apply mergeTimeK_ok null ⟨4, S, 1, 1, true, true, false⟩ ⟨3, S, 1, 1, true, false, false⟩
      hS rfl rfl rfl rfl rfl rfl rfl rfl rfl a rest
    · intro b hb
      rw [← hl] at hb
      obtain ⟨t, _, rfl⟩ := List.mem_map.mp hb
      exact hvolValid t
  obtain ⟨r, hr⟩ := hfinE
  refine ⟨vol, r, fun t _ => hvol t, hr, ?_⟩
  exact convert_lookup_key_4d null S T hS (by omega) val vol r (fun t _ => hvol t) hr

/-- **C01, unconditionally (3-D result)** -/
theorem convert_total_3d (null : α) (S : Nat) (hS : 0 < S) (val : Nat → Option α) :
    ∃ r : KeyState α,
      mergeSliceK null ⟨3, 1, 1, 1, true, false, false⟩
        ((List.range S).map fun s => fileKS (val s)) = .ok r ∧
      ∀ s, s < S →
        lookupKS null ⟨3, S, 1, 1, true, false, false⟩ r s 0 0 = some ((val s).getD null) := by
  have hE : ∃ r, mergeSliceK null ⟨3, 1, 1, 1, true, false, false⟩
      ((List.range S).map fun s => fileKS (val s)) = .ok r := by
    obtain ⟨a, rest, hl, _⟩ := range_map_cons S hS (fun s => fileKS (val s))
    rw [hl]
    apply mergeSliceK_ok null _ consistent3
    intro b hb
    rw [← hl] at hb
    obtain ⟨s, _, rfl⟩ := List.mem_map.mp hb
    exact fileKS_valid _
  obtain ⟨r, hr⟩ := hE
  exact ⟨r, hr, convert_lookup_key_3d null S hS val r hr⟩

/-- **C07 for conversion:** the key state embedded by `to_nifti` for a complete S × T × V stack is
    valid for the shape of the image -/
theorem convert_valid (null : α) (S T V : Nat) (hS : 0 < S) (hT : 2 ≤ T)
    (val : Nat → Nat → Nat → Option α)
    (vol : Nat → Nat → KeyState α) (vec : Nat → KeyState α) (r : KeyState α)
    (hvol : ∀ t v, t < T → v < V →
      mergeSliceK null ⟨3, 1, 1, 1, true, false, false⟩
        ((List.range S).map fun s => fileKS (val s t v)) = .ok (vol t v))
    (hvec : ∀ v, v < V →
      mergeTimeK null ⟨4, S, 1, 1, true, true, false⟩ ⟨3, S, 1, 1, true, false, false⟩
        ((List.range T).map fun t => vol t v) = .ok (vec v))
    (hfin : mergeVecK null ⟨5, S, T, 1, true, true, true⟩ ⟨4, S, T, 1, true, true, false⟩
        ((List.range V).map vec) = .ok r) :
    ValidK ⟨5, S, T, V, true, true, true⟩ r := by
  have hvolValid : ∀ t v, t < T → v < V →
      ValidK (⟨3, S, 1, 1, true, false, false⟩ : Shp) (vol t v) := by
    intro t v ht hv
    have := mergeSlice_valid null ⟨3, 1, 1, 1, true, false, false⟩ consistent3
      ((List.range S).map fun s => fileKS (val s t v))
      (by intro b hb; obtain ⟨s, _, rfl⟩ := List.mem_map.mp hb; exact fileKS_valid _)
      (vol t v) (hvol t v ht hv)
    simpa using this
  have hvecValid : ∀ v, v < V → ValidK (⟨4, S, T, 1, true, true, false⟩ : Shp) (vec v) := by
    intro v hv
    have := mergeTime_valid null ⟨4, S, 1, 1, true, true, false⟩ ⟨3, S, 1, 1, true, false, false⟩
      hS rfl rfl rfl rfl rfl rfl rfl rfl rfl
      ((List.range T).map fun t => vol t v)
      (by
        intro b hb
        obtain ⟨t, ht, rfl⟩ := List.mem_map.mp hb
        exact hvolValid t v (List.mem_range.mp ht) hv)
      (vec v) (hvec v hv)
    simpa using this
  have := mergeVec_valid null ⟨5, S, T, 1, true, true, true⟩ ⟨4, S, T, 1, true, true, false⟩
    hS (by show 0 < T; omega) rfl rfl rfl
    (by constructor
        · intro _; show T ≠ 1; omega
        · intro _; rfl)
    rfl rfl rfl rfl
    (Or.inr ⟨rfl, by show T ≠ 1; omega⟩)
    ((List.range V).map vec)
    (by
      intro b hb
      obtain ⟨v, hv, rfl⟩ := List.mem_map.mp hb
      exact hvecValid v (List.mem_range.mp hv))
    r hfin
  simpa using this

end Total

/-! ### `_simplify` and `get_subset` cannot fail either; C05 without premises -/

namespace Total
variable {α : Type} [DecidableEq α]

/-- **`_simplify` never fails on a valid key**, whatever its class -/
theorem simplifyK_ok (null : α) (sh : Shp) (wf : WF sh) (hsl : sh.hasSlice = true)
    (c : Cls) (vals : List α) (hl : vals.length = mult sh c) :
    ∃ o, simplifyK null sh c vals = .ok o := by
  obtain ⟨hS, hT, hV⟩ := wf
  cases c with
  | gconst => unfold simplifyK; simp
  | gslices =>
    exact simplify_gslices_ok null sh ⟨hS, hT, hV⟩ hsl vals (by simpa [mult, hsl] using hl)
  | tslices =>
    have hconst : ∃ res, constLoop sh tslices vals (constTests tslices) = .ok res := by
      apply constLoop_ok_of
      intro d hd _
      have : d = gconst := by simpa [constTests] using hd
      subst this; exact Or.inl rfl
    obtain ⟨res, hres⟩ := hconst
    unfold simplifyK
    simp only [show ¬ (tslices = gconst) by decide, if_false, hres]
    cases res with
    | some p => exact ⟨_, rfl⟩
    | none => simp [repeatTests, repeatLoop]
  | vsamples =>
    have hconst : ∃ res, constLoop sh vsamples vals (constTests vsamples) = .ok res := by
      apply constLoop_ok_of
      intro d hd _
      have : d = gconst := by simpa [constTests] using hd
      subst this; exact Or.inl rfl
    obtain ⟨res, hres⟩ := hconst
    unfold simplifyK
    simp only [show ¬ (vsamples = gconst) by decide, if_false, hres]
    cases res with
    | some p => exact ⟨_, rfl⟩
    | none => simp [repeatTests, repeatLoop]
  | tsamples =>
    have hlen : vals.length = sh.T * sh.V := by simpa [mult] using hl
    have hconst : ∃ res, constLoop sh tsamples vals (constTests tsamples) = .ok res := by
      apply constLoop_ok_of
      intro d hd _
      have hd' : d = gconst ∨ d = vsamples := by simpa [constTests] using hd
      rcases hd' with rfl | rfl
      · exact Or.inl rfl
      · have hp : constPeriod sh tsamples vsamples = some sh.T := rfl
        rw [hp]
        by_cases h1 : sh.T = 1
        · exact Or.inr (Or.inl (by rw [h1]))
        · exact Or.inr (Or.inr ⟨_, rfl, by omega, by rw [hlen]; exact Nat.mul_mod_right _ _⟩)
    obtain ⟨res, hres⟩ := hconst
    unfold simplifyK
    simp only [show ¬ (tsamples = gconst) by decide, if_false, hres]
    cases res with
    | some p => exact ⟨_, rfl⟩
    | none => simp [repeatTests, repeatLoop]
  | vslices =>
    have hlen : vals.length = sh.S * sh.T := by simpa [mult, hsl] using hl
    have hpt : constPeriod sh vslices tsamples = some sh.S := rfl
    have hconst : ∃ res, constLoop sh vslices vals (constTests vslices) = .ok res := by
      apply constLoop_ok_of
      intro d hd _
      have hd' : d = gconst ∨ d = tsamples := by simpa [constTests] using hd
      rcases hd' with rfl | rfl
      · exact Or.inl rfl
      · rw [hpt]
        by_cases h1 : sh.S = 1
        · exact Or.inr (Or.inl (by rw [h1]))
        · exact Or.inr (Or.inr ⟨_, rfl, by omega, by rw [hlen]; exact Nat.mul_mod_right _ _⟩)
    obtain ⟨res, hres⟩ := hconst
    unfold simplifyK
    simp only [show ¬ (vslices = gconst) by decide, if_false, hres]
    cases res with
    | some p => exact ⟨_, rfl⟩
    | none =>
      simp only
      have hmiss := constLoop_prefix sh vslices vals (constTests vslices) none hres
      simp only at hmiss
      have hrep : ∃ res, repeatLoop sh vals (repeatTests vslices) = .ok res := by
        apply repeatLoop_ok_of
        intro d hd hb
        have hd' : d = tslices := by simpa [repeatTests] using hd
        subst hd'
        have hbt : sh.hasTime = true := by simpa [basePresent] using hb
        have hm := hmiss tsamples (by simp [constTests]) (by simpa [basePresent] using hbt)
        have hS1 : sh.S ≠ 1 := by
          intro e; apply hm.1; rw [hpt, e]
        have hmt : mult sh tslices = sh.S := by simp [mult, hsl]
        rw [hmt, hlen]
        by_cases hT1 : sh.T = 1
        · exact Or.inl (by rw [hT1, Nat.mul_one])
        · refine Or.inr ⟨by omega, ?_, Nat.mul_mod_right _ _⟩
          have : sh.S * 2 ≤ sh.S * sh.T := Nat.mul_le_mul_left _ (by omega)
          omega
      obtain ⟨r2, hr2⟩ := hrep
      rw [hr2]
      cases r2 with
      | some p => exact ⟨_, rfl⟩
      | none => exact ⟨_, rfl⟩

theorem applySimplify_total (null : α) (sh : Shp) (wf : WF sh) (hsl : sh.hasSlice = true)
    (ks : KeyState α) (hval : ValidK sh ks) : ∃ r, applySimplify null sh ks = .ok r := by
  cases ks with
  | none => exact ⟨none, rfl⟩
  | some pr =>
    obtain ⟨c, vals⟩ := pr
    obtain ⟨o, ho⟩ := simplifyK_ok null sh wf hsl c vals hval.2
    simp only [applySimplify, ho]
    cases o <;> exact ⟨_, rfl⟩

end Total

namespace Total
variable {α : Type} [DecidableEq α]

theorem consistent_ht (sh : Shp) (hc : Consistent sh) : sh.hasTime = true → 2 ≤ sh.T := by
  intro h
  have := (hc.htime.mp h).2
  have := hc.hT
  omega

/-- **`get_subset` along the slice axis cannot fail** on a valid key -/
theorem subsetSliceK_ok (null : α) (sh : Shp) (hc : Consistent sh)
    (ks : KeyState α) (hv : ValidK sh ks) (idx : Nat) (hidx : idx < sh.S) :
    ∃ p, subsetSliceK null sh ks idx = .ok p := by
  cases ks with
  | none => exact ⟨none, rfl⟩
  | some pr =>
    obtain ⟨c, vals⟩ := pr
    unfold subsetSliceK
    by_cases hps : perSlice c = true
    · simp only [hps, if_true]
      obtain ⟨h1, h2, _⟩ := copySlice_valid sh hc.toWFnd hc.hsl c hps hv.1 vals hv.2 idx hidx
      apply applySimplify_total null (sliceSubsetShp sh) ⟨by simp [sliceSubsetShp], hc.hT, hc.hV⟩
        hc.hsl
      exact ⟨h1, h2⟩
    · simp [hps]

/-- **`get_subset` along the time axis cannot fail** on a valid key (4-D, or 5-D with ≥ 2 vector
    components) -/
theorem subsetTimeK_ok (null : α) (sh : Shp) (hc : Consistent sh) (h45 : sh.nd = 4 ∨ sh.nd = 5)
    (hV2 : sh.nd = 5 → 2 ≤ sh.V)
    (ks : KeyState α) (hv : ValidK sh ks) (idx : Nat) (hidx : idx < sh.T) :
    ∃ p, subsetTimeK null sh ks idx = .ok p := by
  cases ks with
  | none => exact ⟨none, rfl⟩
  | some pr =>
    obtain ⟨c, vals⟩ := pr
    unfold subsetTimeK
    by_cases hcg : c = gconst
    · simp [hcg]
    · simp only [hcg, if_false]
      obtain ⟨hval, _⟩ := copySampleTime_lookup sh hc h45 hV2 c hcg vals hv idx hidx
      by_cases hsimp : (copySampleK sh (timeSubsetShp sh) true idx c vals).2.2 = true
      · simp only [hsimp, if_true]
        have hrs : (timeSubsetShp sh).S = sh.S ∧ (timeSubsetShp sh).T = 1 ∧ (timeSubsetShp sh).V = sh.V ∧
            (timeSubsetShp sh).hasSlice = sh.hasSlice ∧ (timeSubsetShp sh).hasTime = false ∧
            ((timeSubsetShp sh).hasVector = true → sh.nd = 5) := by
          unfold timeSubsetShp
          by_cases h4 : sh.nd = 4
          · simp [h4]
          · simp only [h4, if_false, true_and]
            intro _
            rcases h45 with h | h
            · exact absurd h h4
            · exact h
        obtain ⟨r1, r2, r3, r4, r5, r6⟩ := hrs
        apply applySimplify_total null (timeSubsetShp sh)
          ⟨by rw [r1]; exact hc.hS, by rw [r2]; decide, by rw [r3]; exact hc.hV⟩
          (by rw [r4]; exact hc.hsl)
        exact hval
      · simp [hsimp]

/-- **`get_subset` along the vector axis cannot fail** on a valid key of a 5-D extension -/
theorem subsetVecK_ok (null : α) (sh : Shp) (hc : Consistent sh) (h5 : sh.nd = 5)
    (ks : KeyState α) (hv : ValidK sh ks) (idx : Nat) (hidx : idx < sh.V) :
    ∃ p, subsetVecK null sh ks idx = .ok p := by
  cases ks with
  | none => exact ⟨none, rfl⟩
  | some pr =>
    obtain ⟨c, vals⟩ := pr
    unfold subsetVecK
    by_cases hcg : c = gconst
    · simp [hcg]
    · simp only [hcg, if_false]
      obtain ⟨hval, _⟩ := copySampleVec_lookup sh hc h5 c hcg vals hv idx hidx
      by_cases hsimp : (copySampleK sh (vecSubsetShp sh) false idx c vals).2.2 = true
      · simp only [hsimp, if_true]
        obtain ⟨rS, rT, rV, rsl, _, _⟩ := vecSubsetShp_facts sh hc h5
        have rht : (vecSubsetShp sh).hasTime = sh.hasTime := by
          unfold vecSubsetShp; split <;> rfl
        have rhv : (vecSubsetShp sh).hasVector = false := by
          unfold vecSubsetShp; split <;> rfl
        apply applySimplify_total null (vecSubsetShp sh)
          ⟨by rw [rS]; exact hc.hS, by rw [rT]; exact hc.hT, by rw [rV]; decide⟩
          rsl
        exact hval
      · simp [hsimp]

end Total

namespace Total
variable {α : Type} [DecidableEq α]

/-- **C05 without premises (slice axis):** splitting a canonical key and merging the pieces back
    both succeed and reproduce the key -/
theorem split_merge_slice_total (null : α) (sh : Shp) (hc : Consistent sh) (hS2 : 2 ≤ sh.S)
    (ks : KeyState α) (hv : ValidK sh ks) (hcan : Canonical null sh ks) :
    ∃ (pieces : Nat → KeyState α) (r : KeyState α),
      (∀ i, i < sh.S → subsetSliceK null sh ks i = .ok (pieces i)) ∧
      mergeSliceK null sh ((List.range sh.S).map pieces) = .ok r ∧ r = ks := by
  let pieces := fun i => okOr (none : KeyState α) (subsetSliceK null sh ks i)
  have hp : ∀ i, i < sh.S → subsetSliceK null sh ks i = .ok (pieces i) := fun i hi =>
    eq_ok_okOr _ _ (subsetSliceK_ok null sh hc ks hv i hi)
  have hpv : ∀ i, i < sh.S → ValidK { sh with S := 1 } (pieces i) := fun i hi =>
    (subsetSlice_spec null sh hc ks hv i hi (pieces i) (hp i hi)).1
  have hm : ∃ r, mergeSliceK null sh ((List.range sh.S).map pieces) = .ok r := by
    obtain ⟨a, rest, hl, _⟩ := range_map_cons sh.S (by omega) pieces
    rw [hl]
    apply mergeSliceK_ok null sh hc
    intro b hb
    rw [← hl] at hb
    obtain ⟨i, hi, rfl⟩ := List.mem_map.mp hb
    exact hpv i (List.mem_range.mp hi)
  obtain ⟨r, hr⟩ := hm
  exact ⟨pieces, r, hp, hr, split_merge_slice_id null sh hc hS2 ks hv hcan pieces hp r hr⟩

/-- **C05 without premises (time axis of a 4-D extension)** -/
theorem split_merge_time_total (null : α) (sh : Shp) (hc : Consistent sh) (h4 : sh.nd = 4)
    (ks : KeyState α) (hv : ValidK sh ks) (hcan : Canonical null sh ks) :
    ∃ (pieces : Nat → KeyState α) (r : KeyState α),
      (∀ i, i < sh.T → subsetTimeK null sh ks i = .ok (pieces i)) ∧
      mergeTimeK null sh (timeSubsetShp sh) ((List.range sh.T).map pieces) = .ok r ∧ r = ks := by
  let pieces := fun i => okOr (none : KeyState α) (subsetTimeK null sh ks i)
  have hp : ∀ i, i < sh.T → subsetTimeK null sh ks i = .ok (pieces i) := fun i hi =>
    eq_ok_okOr _ _ (subsetTimeK_ok null sh hc (Or.inl h4) (by intro h; omega) ks hv i hi)
  have hpv : ∀ i, i < sh.T → ValidK (timeSubsetShp sh) (pieces i) := fun i hi =>
    (subsetTime_spec4 null sh hc h4 ks hv i hi (pieces i) (hp i hi)).1
  have hT2 : 2 ≤ sh.T := by
    have := hc.trimmed4 h4
    have := hc.hT
    omega
  have hV1 := hc.h4 h4
  have hvec : sh.hasVector = false := by
    cases hh : sh.hasVector with
    | false => rfl
    | true => have := hc.hvec.mp hh; omega
  have hrs : timeSubsetShp sh = { sh with nd := 3, T := 1, hasTime := false, hasVector := false } := by
    simp [timeSubsetShp, h4]
  have hm : ∃ r, mergeTimeK null sh (timeSubsetShp sh) ((List.range sh.T).map pieces) = .ok r := by
    obtain ⟨a, rest, hl, hlen⟩ := range_map_cons sh.T (by omega) pieces
    rw [hl]
    apply mergeTimeK_ok null sh (timeSubsetShp sh) hc.hS hc.hsl h4 hV1 hvec
      (by rw [hrs]) (by rw [hrs]) (by rw [hrs]) (by rw [hrs]; exact hV1) (by rw [hrs]; exact hc.hsl)
      a rest
    · intro b hb
      rw [← hl] at hb
      obtain ⟨i, hi, rfl⟩ := List.mem_map.mp hb
      exact hpv i (List.mem_range.mp hi)
  obtain ⟨r, hr⟩ := hm
  exact ⟨pieces, r, hp, hr, split_merge_time_id null sh hc h4 ks hv hcan pieces hp r hr⟩

/-- **C05 without premises (vector axis of a 5-D extension)** -/
theorem split_merge_vec_total (null : α) (sh : Shp) (hc : Consistent sh) (h5 : sh.nd = 5)
    (hV2 : 2 ≤ sh.V)
    (ks : KeyState α) (hv : ValidK sh ks) (hcan : Canonical null sh ks) :
    ∃ (pieces : Nat → KeyState α) (r : KeyState α),
      (∀ i, i < sh.V → subsetVecK null sh ks i = .ok (pieces i)) ∧
      mergeVecK null sh (vecSubsetShp sh) ((List.range sh.V).map pieces) = .ok r ∧ r = ks := by
  let pieces := fun i => okOr (none : KeyState α) (subsetVecK null sh ks i)
  have hp : ∀ i, i < sh.V → subsetVecK null sh ks i = .ok (pieces i) := fun i hi =>
    eq_ok_okOr _ _ (subsetVecK_ok null sh hc h5 ks hv i hi)
  have hpv : ∀ i, i < sh.V → ValidK (vecSubsetShp sh) (pieces i) := fun i hi =>
    (subsetVec_spec null sh hc h5 ks hv i hi (pieces i) (hp i hi)).1
  obtain ⟨rS, rT, rV, rsl, rnd, _⟩ := vecSubsetShp_facts sh hc h5
  have hm : ∃ r, mergeVecK null sh (vecSubsetShp sh) ((List.range sh.V).map pieces) = .ok r := by
    obtain ⟨a, rest, hl, hlen⟩ := range_map_cons sh.V (by omega) pieces
    rw [hl]
    apply mergeVecK_ok null sh (vecSubsetShp sh) hc.hS hc.hT hc.hsl h5 (hc.hvec.mpr h5)
      (fun h => (hc.htime.mp h).2) rsl rS rT rV rnd a rest
    · intro b hb
      rw [← hl] at hb
      obtain ⟨i, hi, rfl⟩ := List.mem_map.mp hb
      exact hpv i (List.mem_range.mp hi)
  obtain ⟨r, hr⟩ := hm
  exact ⟨pieces, r, hp, hr, split_merge_vec_id null sh hc h5 hV2 ks hv hcan pieces hp r hr⟩

end Total

/-! ### C04 for the time axis of a 5-D extension, after the final `_simplify` -/

namespace Total
variable {α : Type} [DecidableEq α]

/-- `_simplify` only ever moves a key to a classification whose dictionary exists -/
theorem simplify_moved_base (null : α) (sh : Shp) (c : Cls) (vals : List α) (d : Cls) (out : List α)
    (h : simplifyK null sh c vals = .ok (.moved d out)) : basePresent sh d = true := by
  unfold simplifyK at h
  by_cases hc : c = gconst
  · subst hc; simp at h; split at h <;> simp at h
  · simp only [hc, if_false] at h
    cases hcl : constLoop sh c vals (constTests c) with
    | error e => simp [hcl] at h
    | ok res =>
      cases res with
      | some pr =>
        obtain ⟨d', o'⟩ := pr
        simp [hcl] at h
        obtain ⟨rfl, rfl⟩ := h
        exact (constLoop_spec sh c vals _ d' o' hcl).2.1
      | none =>
        simp only [hcl] at h
        cases hrl : repeatLoop sh vals (repeatTests c) with
        | error e => simp [hrl] at h
        | ok res2 =>
          cases res2 with
          | some pr =>
            obtain ⟨d', o'⟩ := pr
            simp [hrl] at h
            obtain ⟨rfl, rfl⟩ := h
            exact (repeatLoop_spec sh vals _ d' o' hrl).2.1
          | none => simp [hrl] at h

/-- **C04 (time axis, 5-D parent, per key):** the piece for time point `idx` is valid for the
    `(x,y,z,1,V)` shape and reads, at every slice and vector position, what the parent reads at
    that time point -/
theorem subsetTime_spec5 (null : α) (sh : Shp) (hc : Consistent sh) (h5 : sh.nd = 5)
    (hV2 : 2 ≤ sh.V)
    (ks : KeyState α) (hv : ValidK sh ks) (idx : Nat) (hidx : idx < sh.T)
    (p : KeyState α) (h : subsetTimeK null sh ks idx = .ok p) :
    ValidK (timeSubsetShp sh) p ∧
    ∀ s v, s < sh.S → v < sh.V →
      lookupKS null (timeSubsetShp sh) p s 0 v = lookupKS null sh ks s idx v := by
  have hrs : timeSubsetShp sh = { sh with T := 1, hasTime := false } := by
    have : ¬ sh.nd = 4 := by omega
    simp [timeSubsetShp, this]
  have hvecT : sh.hasVector = true := hc.hvec.mpr h5
  cases ks with
  | none =>
    simp [subsetTimeK] at h; subst h
    exact ⟨trivial, fun _ _ _ _ => rfl⟩
  | some pr =>
    obtain ⟨c, vals⟩ := pr
    unfold subsetTimeK at h
    by_cases hcg : c = gconst
    · subst hcg
      simp only [if_true] at h
      injection h with h; subst h
      exact ⟨⟨gconst_valid _, by simpa [mult] using hv.2⟩, fun _ _ _ _ => rfl⟩
    · simp only [hcg, if_false] at h
      have hcs := copySampleTime_lookup sh hc (Or.inr h5) (fun _ => hV2) c hcg vals hv idx hidx
      simp only at hcs
      obtain ⟨hval, hlk⟩ := hcs
      by_cases hsimp : (copySampleK sh (timeSubsetShp sh) true idx c vals).2.2 = true
      · simp only [hsimp, if_true] at h
        have wfr : WF (timeSubsetShp sh) := by rw [hrs]; exact ⟨hc.hS, by simp, hc.hV⟩
        have hslr : (timeSubsetShp sh).hasSlice = true := by rw [hrs]; exact hc.hsl
        have hbase : ∀ d, basePresent (timeSubsetShp sh) d = true →
            d ∈ validClasses (timeSubsetShp sh) := by
          intro d hd; rw [hrs] at hd ⊢
          cases d <;> simp [basePresent] at hd <;> simp [validClasses, h5]
        simp only [applySimplify] at h
        cases hsm : simplifyK null (timeSubsetShp sh)
            (copySampleK sh (timeSubsetShp sh) true idx c vals).1
            (copySampleK sh (timeSubsetShp sh) true idx c vals).2.1 with
        | error e => simp [hsm] at h
        | ok o =>
          cases o with
          | unchanged =>
            simp [hsm] at h; subst h
            exact ⟨hval, fun s v hs hv' => hlk s v hs hv'⟩
          | deleted =>
            simp [hsm] at h; subst h
            refine ⟨trivial, fun s v hs hv' => ?_⟩
            unfold simplifyK at hsm
            by_cases hg : (copySampleK sh (timeSubsetShp sh) true idx c vals).1 = gconst
            · rw [hg] at hsm
              simp only [if_true] at hsm
              split at hsm
              · rename_i hnull
                have := hlk s v hs hv'
                rw [hg, hnull] at this
                show some null = lookupK sh c vals s idx v
                rw [← this]; rfl
              · simp at hsm
            · simp only [hg, if_false] at hsm
              split at hsm <;> (try split at hsm) <;> simp at hsm
          | moved d out =>
            simp [hsm] at h; subst h
            -- the time dictionary does not exist in the result: the latent reduction cannot fire
            have hnb : ¬ ((copySampleK sh (timeSubsetShp sh) true idx c vals).1 = vslices ∧
                d = tsamples ∧ 1 < (timeSubsetShp sh).V) := by
              intro ⟨_, hd, _⟩
              have hb := simplify_moved_base null _ _ _ d out hsm
              rw [hd, hrs] at hb
              simp [basePresent] at hb
            refine ⟨simplify_valid null _ wfr hslr hbase _ _ hval.2 d out hsm hnb, fun s v hs hv' => ?_⟩
            have := simplify_lookup null _ wfr _ _ hslr hval.2 d out hsm hnb s 0 v
              (by rw [hrs]; exact hs) (by rw [hrs]; simp) (by rw [hrs]; exact hv')
            show lookupK (timeSubsetShp sh) d out s 0 v = lookupK sh c vals s idx v
            rw [this]
            exact hlk s v hs hv'
      · have hsimp' : (copySampleK sh (timeSubsetShp sh) true idx c vals).2.2 = false := by
          simpa using hsimp
        simp only [hsimp', Bool.false_eq_true, if_false] at h
        injection h with h; subst h
        exact ⟨hval, fun s v hs hv' => hlk s v hs hv'⟩

end Total

/-! ### the remaining conversion shape: 5-D with a single time point -/

namespace Total
variable {α : Type} [DecidableEq α]

/-- **C01, unconditionally (5-D result with a single time point, shape (x,y,z,1,V)):** the volumes
    are merged directly along the vector axis -/
theorem convert_total_5d_t1 (null : α) (S V : Nat) (hS : 0 < S) (hV : 0 < V)
    (val : Nat → Nat → Option α) :
    ∃ (vol : Nat → KeyState α) (r : KeyState α),
      (∀ v, v < V →
        mergeSliceK null ⟨3, 1, 1, 1, true, false, false⟩
          ((List.range S).map fun s => fileKS (val s v)) = .ok (vol v)) ∧
      mergeVecK null ⟨5, S, 1, 1, true, false, true⟩ ⟨3, S, 1, 1, true, false, false⟩
          ((List.range V).map vol) = .ok r ∧
      ∀ s v, s < S → v < V →
        lookupKS null ⟨5, S, 1, V, true, false, true⟩ r s 0 v = some ((val s v).getD null) := by
  let volE := fun v => mergeSliceK null ⟨3, 1, 1, 1, true, false, false⟩
      ((List.range S).map fun s => fileKS (val s v))
  have hvolE : ∀ v, ∃ r, volE v = .ok r := by
    intro v
    obtain ⟨a, rest, hl, _⟩ := range_map_cons S hS (fun s => fileKS (val s v))
    show ∃ r, mergeSliceK null _ ((List.range S).map fun s => fileKS (val s v)) = .ok r
    rw [hl]
    apply mergeSliceK_ok null _ consistent3
    intro b hb
    rw [← hl] at hb
    obtain ⟨s, _, rfl⟩ := List.mem_map.mp hb
    exact fileKS_valid _
  let vol := fun v => okOr (none : KeyState α) (volE v)
  have hvol : ∀ v, volE v = .ok (vol v) := fun v => eq_ok_okOr _ _ (hvolE v)
  have hvolValid : ∀ v, ValidK (⟨3, S, 1, 1, true, false, false⟩ : Shp) (vol v) := by
    intro v
    have := mergeSlice_valid null ⟨3, 1, 1, 1, true, false, false⟩ consistent3
      ((List.range S).map fun s => fileKS (val s v))
      (by intro b hb; obtain ⟨s, _, rfl⟩ := List.mem_map.mp hb; exact fileKS_valid _)
      (vol v) (hvol v)
    simpa using this
  have hin : ∀ b, b ∈ (List.range V).map vol → ValidK (⟨3, S, 1, 1, true, false, false⟩ : Shp) b := by
    intro b hb
    obtain ⟨v, _, rfl⟩ := List.mem_map.mp hb
    exact hvolValid v
  have hfinE : ∃ r, mergeVecK null ⟨5, S, 1, 1, true, false, true⟩ ⟨3, S, 1, 1, true, false, false⟩
      ((List.range V).map vol) = .ok r := by
    obtain ⟨a, rest, hl, _⟩ := range_map_cons V hV vol
    rw [hl]
    apply mergeVecK_ok null ⟨5, S, 1, 1, true, false, true⟩ ⟨3, S, 1, 1, true, false, false⟩
      hS (Nat.lt_succ_self 0) rfl rfl rfl (fun h => by cases h) rfl rfl rfl rfl
      (Or.inl ⟨rfl, rfl⟩) a rest
    intro b hb
    rw [← hl] at hb
    exact hin b hb
  obtain ⟨r, hr⟩ := hfinE
  refine ⟨vol, r, fun v _ => hvol v, hr, ?_⟩
  intro s v hs hv
  have := mergeVec_lookup null ⟨5, S, 1, 1, true, false, true⟩ ⟨3, S, 1, 1, true, false, false⟩
    hS (Nat.lt_succ_self 0) rfl rfl rfl (fun h => by cases h) rfl rfl rfl rfl (Or.inl ⟨rfl, rfl⟩)
    _ hin r hr v s 0 (by simpa using hv) hs (Nat.lt_succ_self 0)
  simp only [List.length_map, List.length_range] at this
  rw [this]
  simp only [List.getElem?_map, List.getElem?_range hv, Option.map_some, Option.getD_some]
  exact convert_lookup_key_3d null S hS (fun s => val s v) (vol v) (hvol v) s hs

end Total
