import DcmVerif.Generated.Code_stackadd
import DcmVerif.Proofs.CodeLemmas
/-! `DicomStack.add_dcm` and the congruence checks as translated from dcmstack.py are the model's `Stk.addDcm`. -/
set_option autoImplicit false
set_option linter.unusedSimpArgs false
set_option linter.unusedVariables false

namespace Src
open Stk

theorem closeList_split (n : Nat) : ∀ (a b : List Int),
    (closeList (a.take n) (b.take n) && closeList (a.drop n) (b.drop n)) = closeList a b := by
  induction n with
  | zero => intro a b; simp [closeList]
  | succ k ih =>
    intro a b
    cases a with
    | nil => cases b <;> simp [closeList]
    | cons x xs =>
      cases b with
      | nil => simp [closeList]
      | cons y ys => simp [closeList, ← ih xs ys, Bool.and_assoc]

theorem closeMeta_ps (c : Cand) : c.closeMeta "PixelSpacing" = c.geom.take 2 := by rfl
theorem closeMeta_iop (c : Cand) : c.closeMeta "ImageOrientationPatient" = c.geom.drop 2 := by rfl
theorem eqMeta_rows (c : Cand) : c.eqMeta "Rows" = c.rows := by rfl
theorem eqMeta_cols (c : Cand) : c.eqMeta "Columns" = c.cols := by rfl

/-- **`_chk_congruent` as written in dcmstack.py raises `IncongruentImageError` exactly when the model's `incongruentWith` says so** -/
theorem chk_congruent_eq (ref : Option Cand) (c : Cand) :
    Py.chk_congruent ref c = if incongruentWith ref c then .error PyErr.incongruentImage else .ok () := by
  cases ref with
  | none => rfl
  | some r =>
    have hsplit := closeList_split 2 c.geom r.geom
    have hR : incongruentWith (some r) c = !(closeList c.geom r.geom && c.rows == r.rows && c.cols == r.cols) := rfl
    rw [hR, ← hsplit]
    simp only [Py.chk_congruent, Py.chk_close, Py.chk_equal, List.forIn_cons, List.forIn_nil,
      closeMeta_ps, closeMeta_iop, eqMeta_rows, eqMeta_cols]
    cases h1 : closeList (c.geom.take 2) (r.geom.take 2) <;> cases h2 : closeList (c.geom.drop 2) (r.geom.drop 2) <;>
      by_cases h3 : c.rows = r.rows <;> by_cases h4 : c.cols = r.cols <;>
      simp [h1, h2, h3, h4, bind, Except.bind, pure, Except.pure, throw, throwThe, MonadExceptOf.throw] <;> rfl

/-- how the model's outcome of one `add_dcm` call shows in Python: the attributes afterwards, and the exception raised if any -/
def addResult : AddSt × AddOut → AddSt × Option PyErr
  | (st, .ok) => (st, none)
  | (st, .nonImage) => (st, some PyErr.nonImageDataSet)
  | (st, .incongruent) => (st, some PyErr.incongruentImage)
  | (st, .collision) => (st, some PyErr.imageCollision)

/-- **`add_dcm` as written in dcmstack.py is the model's `addDcm`**: same refusals (in the same order of precedence), the
    attributes untouched by a refused dataset, the same recorded state for an accepted one — for a candidate whose sorting tuple
    holds the ordinates the orderings compute (None without an ordering) -/
theorem add_dcm_eq (tO vO : Bool) (noneCode tOrd vOrd : Int) (st : AddSt) (c : Cand)
    (ht : c.f.t = if tO then tOrd else noneCode) (hv : c.f.v = if vO then vOrd else noneCode) :
    Py.add_dcm tO vO noneCode tOrd vOrd st c = addResult (addDcm (tO || vO) st c) := by
  unfold Py.add_dcm addDcm
  cases hi : c.isImage
  · simp [addResult, Id.run]; rfl
  · simp only [Bool.not_true, Bool.false_eq_true, if_false, chk_congruent_eq]
    cases hc : incongruentWith st.ref c
    · have htup : ((if vO then vOrd else noneCode), (if tO then tOrd else noneCode), c.f.p) = tupleOf c.f := by
        simp [tupleOf, ← ht, ← hv]
      cases tO <;> cases vO <;> simp only [Bool.false_eq_true, if_false, if_true, Bool.or_false, Bool.or_true, Bool.false_and,
        Bool.true_and, Bool.or_self] at htup ⊢ <;>
        cases hr : st.ref <;>
        (first
          | (by_cases hm : tupleOf c.f ∈ st.tuples <;>
              simp [htup, hm, hr, addResult, refAfter, Id.run, bind, pure])
          | simp [htup, hr, addResult, refAfter, Id.run, bind, pure])
    · simp [addResult, Id.run]; rfl

/-! the translated `add_dcm` computes (tests, not theorems): a first dataset becomes the reference input; a second one for the same
    cell collides under an explicit ordering; a dataset of another matrix size is incongruent -/
def exCand (p : Int) (rows : Nat) : Cand :=
  { isImage := true, rows := rows, cols := 4, geom := [1000000, 1000000, 1000000, 0, 0, 0, 1000000, 0],
    f := { v := 0, t := 7, p := p, id := 1 }, tr := some 2000, pe := some 1 }

example : (Py.add_dcm true false 0 7 0 AddSt.init (exCand 3 4)).1.ref = some (exCand 3 4) := by rfl
example : (Py.add_dcm true false 0 7 0 (Py.add_dcm true false 0 7 0 AddSt.init (exCand 3 4)).1 (exCand 3 4)).2 =
    some PyErr.imageCollision := by rfl
example : (Py.add_dcm true false 0 7 0 (Py.add_dcm true false 0 7 0 AddSt.init (exCand 3 4)).1 (exCand 4 5)).2 =
    some PyErr.incongruentImage := by rfl

end Src
