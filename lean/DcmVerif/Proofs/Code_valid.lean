import DcmVerif.Generated.Code_valid
import DcmVerif.Proofs.Code_classes
/-! `check_valid` as translated from dcmmeta.py is the model's `checkValid`. -/
set_option autoImplicit false
set_option linter.unusedSimpArgs false
set_option linter.unusedVariables false
open Cls

namespace Src
variable {α κ : Type}

/-! ### `check_valid` -/

theorem cv_valid_classes (c : CV.Content) (h3 : 3 ≤ c.shape.length) (h6 : c.shape.length < 6) :
    Py.get_valid_classes c.shape = .ok (validClasses c.shp) := by
  obtain ⟨tk, ver, ar, sd, shape, dict⟩ := c
  match shape, h3, h6 with
  | [a, b, c'], _, _ => simp [Py.get_valid_classes, validClasses, CV.Content.shp, Gen.classifications]; rfl
  | [a, b, c', d], _, _ => simp [Py.get_valid_classes, validClasses, CV.Content.shp, Gen.classifications]; rfl
  | [a, b, c', d, f], _, _ =>
    by_cases hd : d = 1 <;>
      simp [Py.get_valid_classes, validClasses, CV.Content.shp, Gen.classifications, hd] <;> rfl
  | [], h3, _ | [_], h3, _ | [_, _], h3, _ => simp at h3
  | _ :: _ :: _ :: _ :: _ :: _ :: _, _, h6 => simp at h6; omega

theorem cv_multiplicity (c : CV.Content) (h3 : 3 ≤ c.shape.length) (h6 : c.shape.length < 6)
    (cl : Cls) (hv : cl ∈ validClasses c.shp) :
    Py.get_multiplicity c.shape (c.sliceDim.map fun d => c.shape.getD d.toNat 0) cl = .ok (mult c.shp cl) := by
  obtain ⟨tk, ver, ar, sd, shape, dict⟩ := c
  match shape, h3, h6 with
  | [a, b, c'], _, _ =>
    cases sd <;> cases cl <;> simp [validClasses, CV.Content.shp] at hv <;>
      simp [Py.get_multiplicity, Py.get_valid_classes, Gen.classifications, Cls.base, Cls.sub, mult, CV.Content.shp,
        bind, Except.bind, pure, Except.pure, Nat.mul_assoc]
  | [a, b, c', d], _, _ =>
    cases sd <;> cases cl <;> simp [validClasses, CV.Content.shp] at hv <;>
      simp [Py.get_multiplicity, Py.get_valid_classes, Gen.classifications, Cls.base, Cls.sub, mult, CV.Content.shp,
        bind, Except.bind, pure, Except.pure, Nat.mul_assoc]
  | [a, b, c', d, f], _, _ =>
    by_cases hd : d = 1 <;> cases sd <;> cases cl <;> simp [validClasses, CV.Content.shp, hd] at hv <;>
      simp [Py.get_multiplicity, Py.get_valid_classes, Gen.classifications, Cls.base, Cls.sub, mult, CV.Content.shp, hd,
        bind, Except.bind, pure, Except.pure, Nat.mul_assoc]
  | [], h3, _ | [_], h3, _ | [_, _], h3, _ => simp at h3
  | _ :: _ :: _ :: _ :: _ :: _ :: _, _, h6 => simp at h6; omega

theorem cv_inner (m : Nat) (d : List (String × CV.EShape)) :
    (forIn (m := Except PyErr) d PUnit.unit fun (x : String × CV.EShape) (__s : PUnit) =>
        match x with
        | (key, vals) =>
          if (vals != CV.EShape.sized m) = true then do
            throw PyErr.invalidExtension
            pure (ForInStep.yield PUnit.unit)
          else pure (ForInStep.yield PUnit.unit)) =
      if d.all (fun p => p.2 == CV.EShape.sized m) then .ok PUnit.unit else .error PyErr.invalidExtension := by
  apply forIn_guard_unit PyErr.invalidExtension (fun (p : String × CV.EShape) => p.2 == CV.EShape.sized m)
  intro x _ s
  obtain ⟨k, v⟩ := x
  by_cases h : v = CV.EShape.sized m <;>
    simp [h, bind, Except.bind, throw, throwThe, MonadExceptOf.throw, pure, Except.pure]

/-- the body of the first loop of `check_valid` (per classification) -/
def cvBody1 (c : CV.Content) (classes : Cls) (_s : PUnit) : Except PyErr (ForInStep PUnit) := do
  if (!(c.dict classes).isSome) then
    throw PyErr.invalidExtension
  if (!(c.dict classes).isSome) then
    throw PyErr.invalidExtension
  let cls_meta := ((c.dict classes).getD [])
  let cls_mult ← Py.get_multiplicity c.shape (c.sliceDim.map fun d => c.shape.getD d.toNat 0) classes
  if ((cls_mult == 0) && ((cls_meta).length != 0)) then
    throw PyErr.invalidExtension
  else if (decide (cls_mult > 1)) then
    for (key, vals) in cls_meta do
      if (vals != CV.EShape.sized cls_mult) then
        throw PyErr.invalidExtension
  pure (ForInStep.yield PUnit.unit)

/-- the body of the inner loop of the uniqueness test -/
def cvBody2 (c : CV.Content) (classes other_classes : Cls) (_s : PUnit) : Except PyErr (ForInStep PUnit) := do
  if (classes != other_classes) then
    let intersect := ((CV.keysOf c classes).filter fun k => (CV.keysOf c other_classes).contains k)
    if ((intersect).length != 0) then
      throw PyErr.invalidExtension
  pure (ForInStep.yield PUnit.unit)

theorem cvBody1_eq (c : CV.Content) (h3 : 3 ≤ c.shape.length) (h6 : c.shape.length < 6) (cl : Cls)
    (hv : cl ∈ validClasses c.shp) (s : PUnit) :
    cvBody1 c cl s = if CV.classOk c cl then .ok (ForInStep.yield PUnit.unit) else .error PyErr.invalidExtension := by
  unfold cvBody1 CV.classOk
  simp only [cv_inner]
  rw [cv_multiplicity c h3 h6 cl hv]
  cases hd : c.dict cl with
  | none => simp [bind, Except.bind, throw, throwThe, MonadExceptOf.throw]
  | some d =>
    by_cases hm0 : mult c.shp cl = 0
    · cases d with
      | nil => simp [hm0, bind, Except.bind, pure, Except.pure]
      | cons x xs => simp [hm0, bind, Except.bind, throw, throwThe, MonadExceptOf.throw]
    · by_cases hm1 : mult c.shp cl > 1
      · cases hall : d.all (fun p => p.2 == CV.EShape.sized (mult c.shp cl)) <;>
          simp [hall, hm0, hm1, bind, Except.bind, pure, Except.pure]
        all_goals (first | omega | trace_state)
      · simp [hm0, hm1, bind, Except.bind, pure, Except.pure]

theorem filter_nil_iff_all (A B : List String) :
    (A.filter fun k => B.contains k) = [] ↔ (A.all fun k => !(B.contains k)) = true := by
  rw [List.filter_eq_nil_iff, List.all_eq_true]
  constructor
  · intro h k hk; simpa using h k hk
  · intro h k hk; simpa using h k hk

theorem cvBody2_eq (c : CV.Content) (a b : Cls) (s : PUnit) :
    cvBody2 c a b s =
      if (a == b || (CV.keysOf c a).all fun k => !((CV.keysOf c b).contains k))
      then .ok (ForInStep.yield PUnit.unit) else .error PyErr.invalidExtension := by
  unfold cvBody2
  by_cases hab : a = b
  · simp [hab, pure, Except.pure]
  · have hne : (a == b) = false := by simp [hab]
    have hnb : (a != b) = true := by simp [bne, hne]
    by_cases hf : ((CV.keysOf c a).filter fun k => (CV.keysOf c b).contains k) = []
    · have hall := (filter_nil_iff_all _ _).1 hf
      rw [hall]
      simp only [hne, hnb, Bool.false_eq_true, if_false, hf, List.length_nil, bne_self_eq_false, Bool.or_true, if_true]
      rfl
    · have hall : ((CV.keysOf c a).all fun k => !((CV.keysOf c b).contains k)) = false := by
        cases h : (CV.keysOf c a).all (fun k => !((CV.keysOf c b).contains k)) with
        | false => rfl
        | true => exact absurd ((filter_nil_iff_all _ _).2 h) hf
      have hl : (((CV.keysOf c a).filter fun k => (CV.keysOf c b).contains k).length != 0) = true := by
        cases hfl : (CV.keysOf c a).filter (fun k => (CV.keysOf c b).contains k) with
        | nil => exact absurd hfl hf
        | cons x xs => rfl
      rw [hall]
      simp only [hne, hnb, Bool.false_eq_true, if_false, hl, if_true, Bool.or_false]
      rfl

theorem check_valid_unfold (c : CV.Content) : Py.check_valid c = (do
    if (!(CV.requiredOk c)) then
      throw PyErr.invalidExtension
    if (c.affineRows != [4, 4, 4, 4]) then
      throw PyErr.invalidExtension
    let slice_dim := c.sliceDim
    if let some slice_dim := slice_dim then
      if (!((decide (0 ≤ slice_dim)) && (decide (slice_dim < 3)))) then
        throw PyErr.invalidExtension
    if (!((decide (3 ≤ (c.shape).length)) && (decide ((c.shape).length < 6)))) then
      throw PyErr.invalidExtension
    let valid_classes ← Py.get_valid_classes c.shape
    forIn valid_classes PUnit.unit (cvBody1 c)
    forIn valid_classes PUnit.unit (fun classes _ => do
      forIn valid_classes PUnit.unit (cvBody2 c classes)
      pure (ForInStep.yield PUnit.unit))
    return ()) := rfl

theorem cv_loop2 (c : CV.Content) (vc : List Cls) :
    (forIn (m := Except PyErr) vc PUnit.unit (fun classes (_ : PUnit) => do
        forIn vc PUnit.unit (cvBody2 c classes)
        pure (ForInStep.yield PUnit.unit))) =
      if vc.all (fun a => vc.all fun b => a == b || (CV.keysOf c a).all fun k => !((CV.keysOf c b).contains k))
      then .ok PUnit.unit else .error PyErr.invalidExtension := by
  apply forIn_guard_unit PyErr.invalidExtension
    (fun a => vc.all fun b => a == b || (CV.keysOf c a).all fun k => !((CV.keysOf c b).contains k))
  intro a _ s
  rw [forIn_guard_unit PyErr.invalidExtension
    (fun b => a == b || (CV.keysOf c a).all fun k => !((CV.keysOf c b).contains k)) (cvBody2 c a) vc
    (fun b _ s' => cvBody2_eq c a b s')]
  cases vc.all (fun b => a == b || (CV.keysOf c a).all fun k => !((CV.keysOf c b).contains k)) <;> rfl

/-- **`check_valid` as written in dcmmeta.py is the model's `checkValid`** over the abstraction
    `CV.Content` of the content dictionary: it returns iff the model accepts and raises
    InvalidExtensionError otherwise -/
theorem check_valid_eq (c : CV.Content) :
    Py.check_valid c = if CV.checkValid c then .ok () else .error PyErr.invalidExtension := by
  rw [check_valid_unfold]
  unfold CV.checkValid CV.geometryOk CV.uniqueOk
  cases hr : CV.requiredOk c with
  | false => simp [bind, Except.bind, throw, throwThe, MonadExceptOf.throw]
  | true =>
    have hvcall := fun (hl : 3 ≤ c.shape.length ∧ c.shape.length < 6) => cv_valid_classes c hl.1 hl.2
    have h2 := cv_loop2 c (validClasses c.shp)
    by_cases ha : c.affineRows = [4, 4, 4, 4]
    · by_cases hl : 3 ≤ c.shape.length ∧ c.shape.length < 6
      · have hvc := hvcall hl
        have h1 := forIn_guard_unit PyErr.invalidExtension (CV.classOk c) (cvBody1 c) (validClasses c.shp)
          (fun x hx s => cvBody1_eq c hl.1 hl.2 x hx s)
        cases hsd : c.sliceDim with
        | none =>
          simp only [ha, hl, hsd, hvc, bne_self_eq_false, Bool.false_eq_true, if_false, Bool.not_true,
            decide_true, Bool.and_self, ok_bind', Bool.true_and, beq_self_eq_true, Bool.and_true, and_self]
          rw [h1]
          cases (validClasses c.shp).all (CV.classOk c)
          · rfl
          · simp only [if_true, ok_bind', Bool.true_and]
            rw [h2]
            cases (validClasses c.shp).all (fun a => (validClasses c.shp).all fun b =>
              a == b || (CV.keysOf c a).all fun k => !((CV.keysOf c b).contains k)) <;> rfl
        | some d =>
          by_cases hd : 0 ≤ d ∧ d < 3
          · simp only [ha, hl, hsd, hd, hvc, bne_self_eq_false, Bool.false_eq_true, if_false, Bool.not_true,
              decide_true, Bool.and_self, ok_bind', Bool.true_and, beq_self_eq_true, Bool.and_true, and_self]
            rw [h1]
            cases (validClasses c.shp).all (CV.classOk c)
            · rfl
            · simp only [if_true, ok_bind', Bool.true_and]
              rw [h2]
              cases (validClasses c.shp).all (fun a => (validClasses c.shp).all fun b =>
                a == b || (CV.keysOf c a).all fun k => !((CV.keysOf c b).contains k)) <;> rfl
          · have hd' : (decide (0 ≤ d) && decide (d < 3)) = false := by
              simp at hd ⊢; omega
            simp [ha, hsd, hd, hd', bind, Except.bind, throw, throwThe, MonadExceptOf.throw]
      · have hl' : (decide (3 ≤ c.shape.length) && decide (c.shape.length < 6)) = false := by
          simp at hl ⊢; omega
        cases hsd : c.sliceDim with
        | none => simp [ha, hl, hl', hsd, bind, Except.bind, throw, throwThe, MonadExceptOf.throw]
        | some d =>
          by_cases hd : 0 ≤ d ∧ d < 3
          · have hd' : (decide (0 ≤ d) && decide (d < 3)) = true := by simp [hd]
            simp [ha, hl, hl', hsd, hd, hd', bind, Except.bind, throw, throwThe, MonadExceptOf.throw]
          · have hd' : (decide (0 ≤ d) && decide (d < 3)) = false := by
              simp at hd ⊢; omega
            simp [ha, hsd, hd, hd', bind, Except.bind, throw, throwThe, MonadExceptOf.throw]
    · simp [ha, bind, Except.bind, throw, throwThe, MonadExceptOf.throw]


end Src
