import DcmVerif.Generated.Code_wrapmerge
import DcmVerif.Model.Wrap
import DcmVerif.Proofs.CodeLemmas
/-! the result shape and the fill index expression of `NiftiWrapper.from_sequence` as translated from dcmmeta.py are the wrapper model's `mergeShape` and `fillSpecs`. -/
set_option autoImplicit false
set_option linter.unusedSimpArgs false
namespace Src
open Wrap
variable {α : Type}

/-! ### `NiftiWrapper.from_sequence`: result shape -/

theorem mergeShape_eq_pad : ∀ (s : List Nat) (d n : Nat),
    mergeShape s d n = (s ++ List.replicate (d + 1 - s.length) 1).set d n
  | [], 0, n => by simp [mergeShape]
  | [], d + 1, n => by
    have := mergeShape_eq_pad [] d n
    simp only [mergeShape, this, List.length_nil, Nat.sub_zero, List.nil_append]
    rw [show d + 1 + 1 = (d + 1) + 1 from rfl, List.replicate_succ (n := d + 1), List.set_cons_succ]
  | a :: s, 0, n => by simp [mergeShape]
  | a :: s, d + 1, n => by
    have := mergeShape_eq_pad s d n
    simp only [mergeShape, this, List.length_cons, List.cons_append, List.set_cons_succ]
    have e : d + 1 + 1 - (s.length + 1) = d + 1 - s.length := by omega
    rw [e]

theorem wrap_merge_shape_eq (shape : List Nat) (dim n : Nat) :
    Py.wrap_merge_shape shape dim n = .ok (mergeShape shape dim n) := by
  unfold Py.wrap_merge_shape
  simp only [forIn_while, List.length_range, ok_bind']
  have hc : (fun (r : List Nat) => decide (dim ≥ r.length)) = padCond dim := by
    funext r; simp [padCond]
  rw [hc, whileFuel_pad dim (dim + 1) shape (by omega)]
  have hlen : ¬ dim ≥ (shape ++ List.replicate (dim + 1 - shape.length) 1).length := by
    simp; omega
  rw [if_neg (by simp only [decide_eq_true_eq]; exact hlen), mergeShape_eq_pad]
  rfl

/-! ### `NiftiWrapper.from_sequence`: index expression of the fill -/

def sizeSpec (n : Nat) : Spec := if n = 1 then Spec.int 0 else Spec.full

/-- the `for dim_idx, dim_size in enumerate(result_shape)` loop, from axis `k` on: the axes seen get
    their spec, the others keep what they had -/
theorem fill_loop : ∀ (s : List Nat) (k : Nat) (acc : List Spec),
    (forIn (m := Except PyErr) (s.zipIdx k) acc fun (x : Nat × Nat) (__s : List Spec) =>
        match x with
        | (dim_size, dim_idx) =>
          if (dim_size == 1) = true then pure (ForInStep.yield (__s.set dim_idx (Spec.int 0)))
          else pure (ForInStep.yield __s)) =
      .ok ((List.range acc.length).map fun j =>
        if k ≤ j ∧ j < k + s.length ∧ s[j - k]! = 1 then Spec.int 0 else (acc[j]?).getD Spec.full)
  | [], k, acc => by
    simp only [List.zipIdx_nil, List.forIn_nil, List.length_nil]
    congr 1
    apply List.ext_getElem?
    intro j
    by_cases hj : j < acc.length
    · have : ¬ (k ≤ j ∧ j < k + 0 ∧ ([] : List Nat)[j - k]! = 1) := by omega
      simp [hj, List.getElem?_eq_getElem hj, this]
    · simp [hj]
  | n :: ns, k, acc => by
    rw [List.zipIdx_cons, List.forIn_cons]
    have ih := fun acc' => fill_loop ns (k + 1) acc'
    have hstep : ∀ (acc' : List Spec) (hlen : acc'.length = acc.length)
        (hk : acc'[k]? = if n = 1 then (acc[k]?).map (fun _ => Spec.int 0) else acc[k]?)
        (ho : ∀ j, j ≠ k → acc'[j]? = acc[j]?),
        ((List.range acc'.length).map fun j =>
          if k + 1 ≤ j ∧ j < k + 1 + ns.length ∧ ns[j - (k + 1)]! = 1 then Spec.int 0 else (acc'[j]?).getD Spec.full) =
        ((List.range acc.length).map fun j =>
          if k ≤ j ∧ j < k + (n :: ns).length ∧ (n :: ns)[j - k]! = 1 then Spec.int 0 else (acc[j]?).getD Spec.full) := by
      intro acc' hlen hk ho
      rw [hlen]
      apply List.map_congr_left
      intro j hj
      simp only [List.mem_range] at hj
      by_cases hjk : j = k
      · subst hjk
        have h1 : ¬ (j + 1 ≤ j ∧ j < j + 1 + ns.length ∧ ns[j - (j + 1)]! = 1) := by omega
        rw [if_neg h1, hk]
        by_cases hn : n = 1
        · have h2 : j ≤ j ∧ j < j + (n :: ns).length ∧ (n :: ns)[j - j]! = 1 := by
            refine ⟨Nat.le_refl _, by simp, by simp [hn]⟩
          rw [if_pos h2, if_pos hn, List.getElem?_eq_getElem hj]; rfl
        · have h2 : ¬ (j ≤ j ∧ j < j + (n :: ns).length ∧ (n :: ns)[j - j]! = 1) := by
            simp [hn]
          rw [if_neg h2, if_neg hn]
      · rw [ho j hjk]
        by_cases hlt : k + 1 ≤ j
        · have e : j - k = (j - (k + 1)) + 1 := by omega
          have hc : (k + 1 ≤ j ∧ j < k + 1 + ns.length ∧ ns[j - (k + 1)]! = 1) ↔
              (k ≤ j ∧ j < k + (n :: ns).length ∧ (n :: ns)[j - k]! = 1) := by
            rw [e]; simp; omega
          by_cases hh : k + 1 ≤ j ∧ j < k + 1 + ns.length ∧ ns[j - (k + 1)]! = 1
          · rw [if_pos hh, if_pos (hc.1 hh)]
          · rw [if_neg hh, if_neg (fun h => hh (hc.2 h))]
        · have h1 : ¬ (k + 1 ≤ j ∧ j < k + 1 + ns.length ∧ ns[j - (k + 1)]! = 1) := by omega
          have h2 : ¬ (k ≤ j ∧ j < k + (n :: ns).length ∧ (n :: ns)[j - k]! = 1) := by omega
          rw [if_neg h1, if_neg h2]
    by_cases hn : n = 1
    · have hb : (n == 1) = true := by simp [hn]
      simp only [hb, if_true, pure_bind, ih]
      congr 1
      apply hstep
      · simp
      · simp only [hn, if_true]
        by_cases hk : k < acc.length
        · simp [List.getElem?_set, hk, List.getElem?_eq_getElem hk]
        · simp [List.getElem?_set, hk]
      · intro j hj
        simp [List.getElem?_set, Ne.symm hj]
    · have hb : (n == 1) = false := by simp [hn]
      simp only [hb, Bool.false_eq_true, if_false, pure_bind, ih]
      congr 1
      apply hstep
      · rfl
      · simp [hn]
      · intro j _; rfl

theorem fillSpecs'_eq_map : ∀ (s : List Nat), fillSpecs.fillSpecs' s = s.map sizeSpec
  | [] => rfl
  | n :: ns => by simp [fillSpecs.fillSpecs', sizeSpec, fillSpecs'_eq_map ns]

theorem fillSpecs_eq_set : ∀ (s : List Nat) (d i : Nat),
    fillSpecs s d i = (s.map sizeSpec).set d (Spec.int i)
  | [], d, i => by simp [fillSpecs]
  | n :: ns, 0, i => by simp [fillSpecs, fillSpecs'_eq_map]
  | n :: ns, d + 1, i => by simp [fillSpecs, sizeSpec, fillSpecs_eq_set ns d i]

/-- **the index expression the inputs of `from_sequence` are written through, as written in
    dcmmeta.py, is the model's `fillSpecs`** -/
theorem fill_specs_eq (rshape : List Nat) (dim i : Nat) :
    Py.fill_specs rshape dim i = .ok (fillSpecs rshape dim i) := by
  unfold Py.fill_specs
  have h := fill_loop rshape 0 (List.replicate rshape.length Spec.full)
  have hz : rshape.zipIdx = rshape.zipIdx 0 := rfl
  simp only [hz, h, ok_bind', List.length_replicate]
  rw [fillSpecs_eq_set]
  have : ((List.range rshape.length).map fun j =>
      if 0 ≤ j ∧ j < 0 + rshape.length ∧ rshape[j - 0]! = 1 then Spec.int 0
      else ((List.replicate rshape.length Spec.full)[j]?).getD Spec.full) = rshape.map sizeSpec := by
    apply List.ext_getElem?
    intro j
    by_cases hj : j < rshape.length
    · simp [hj, sizeSpec, List.getElem?_eq_getElem hj, List.getElem?_replicate]
    · simp [hj]
  rw [this]
  rfl
end Src
