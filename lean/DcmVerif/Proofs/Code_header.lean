import DcmVerif.Generated.Code_header
import DcmVerif.Model.Header
import DcmVerif.Proofs.CodeLemmas
/-! The slice-timing block of `DicomStack.to_nifti` as translated from dcmstack.py is the model's `Stk.sliceTimesOf`. -/
set_option autoImplicit false
set_option linter.unusedSimpArgs false
set_option linter.unusedVariables false

namespace Src
open Stk

theorem mapM_pyGetKey : ∀ (l : List (Option Int)), l.all Option.isSome = true →
    l.mapM pyGetKey = (.ok (l.map fun x => x.getD 0) : Except PyErr (List Int))
  | [], _ => rfl
  | x :: xs, h => by
    simp only [List.all_cons, Bool.and_eq_true] at h
    cases x with
    | none => simp at h
    | some a =>
      simp only [List.mapM_cons, pyGetKey, mapM_pyGetKey xs h.2, List.map_cons, Option.getD_some]
      rfl

theorem npMin_eq (l : List Int) (h : l ≠ []) : npMin l = .ok (minOf l) := by
  cases l with
  | nil => exact absurd rfl h
  | cons x xs => rfl

theorem all_take (l : List (Option Int)) (h : l.all Option.isSome = true) (k : Nat) : (l.take k).all Option.isSome = true := by
  simp only [List.all_eq_true] at h ⊢
  exact fun x hx => h x (List.mem_of_mem_take hx)

theorem all_drop (l : List (Option Int)) (h : l.all Option.isSome = true) (k : Nat) : (l.drop k).all Option.isSome = true := by
  simp only [List.all_eq_true] at h ⊢
  exact fun x hx => h x (List.mem_of_mem_drop hx)

theorem vol_eq (n : Nat) (files : List (Option Int)) (v : Nat) :
    List.map (fun x : Option Int => x.getD 0) (List.take n (List.drop (v * n) files)) =
      volTimes n v (files.map fun x => x.getD 0) := by
  simp [volTimes, List.map_take, List.map_drop]

theorem vol_ne (n : Nat) (files : List (Option Int)) (hn : 0 < n) (v : Nat) (hlen : (v + 1) * n ≤ files.length) :
    volTimes n v (files.map fun x => x.getD 0) ≠ [] := by
  intro h
  have := congrArg List.length h
  simp [volTimes] at this
  have h2 : (v + 1) * n = v * n + n := by rw [Nat.add_mul, Nat.one_mul]
  omega

theorem consistent_loop (n : Nat) (files : List (Option Int)) (hall : files.all Option.isSome = true) (hn : 0 < n)
    (first : List Int) : ∀ (k v : Nat) (s : Bool), (v + k) * n ≤ files.length →
    (forIn (m := Except PyErr) (List.range' v k) s fun vol_idx __s => do
        let __do_lift_2 ←
          List.mapM pyGetKey (List.take (vol_idx * n + n - vol_idx * n) (List.drop (vol_idx * n) files))
        let __do_lift_3 ← npMin __do_lift_2
        if (!first == List.map (fun x_ => x_ - __do_lift_3) __do_lift_2) = true then pure (ForInStep.done false)
          else pure (ForInStep.yield __s)) =
      .ok (consistentFrom n first (files.map fun x => x.getD 0) v k && s)
  | 0, v, s, _ => by simp [consistentFrom]; rfl
  | k + 1, v, s, h => by
    have hv : (v + 1) * n ≤ files.length := by
      have : (v + 1) * n ≤ (v + (k + 1)) * n := Nat.mul_le_mul_right _ (by omega)
      omega
    have hk : v * n + n - v * n = n := by omega
    have hm := mapM_pyGetKey _ (all_take _ (all_drop _ hall (v * n)) n)
    rw [List.range'_succ, List.forIn_cons, hk, hm, vol_eq]
    simp only [ok_bind', npMin_eq _ (vol_ne n files hn v hv)]
    have hr : List.map (fun x_ => x_ - minOf (volTimes n v (files.map fun x => x.getD 0))) (volTimes n v (files.map fun x => x.getD 0)) =
        relTimes (volTimes n v (files.map fun x => x.getD 0)) := rfl
    rw [hr]
    by_cases he : first = relTimes (volTimes n v (files.map fun x => x.getD 0))
    · have he' : (first == relTimes (volTimes n v (files.map fun x => x.getD 0))) = true := by simpa using he
      simp only [he', Bool.not_true, Bool.false_eq_true, if_false, pure_bind]
      rw [consistent_loop n files hall hn first k (v + 1) s (by rw [show v + 1 + k = v + (k + 1) by omega]; exact h)]
      simp [consistentFrom, he, eq_comm]
    · have he' : (first == relTimes (volTimes n v (files.map fun x => x.getD 0))) = false := by simpa using he
      simp only [he', Bool.not_false, if_true, pure_bind]
      have : (relTimes (volTimes n v (files.map fun x => x.getD 0)) == first) = false := by
        simpa using (fun h => he h.symm)
      simp [consistentFrom, this]
      rfl

theorem any_ne_zero_eq : ∀ (l : List Int), (l.any fun x => decide (x ≠ 0)) = !(l.all fun x => x == 0)
  | [] => rfl
  | x :: xs => by
    simp only [List.any_cons, List.all_cons, any_ne_zero_eq xs, Bool.not_and]
    by_cases h : x = 0 <;> simp [h]

/-- **the slice-timing block of `to_nifti` as written in dcmstack.py is the model's `sliceTimesOf`**, for a file list that holds
    `nVols` volumes of `n > 0` slices -/
theorem header_slice_times_eq (fpv nVols n : Nat) (files : List (Option Int))
    (hn : 0 < n) (hv : 0 < nVols) (hlen : files.length = nVols * n) :
    Py.header_slice_times fpv nVols n files = .ok (sliceTimesOf fpv nVols n files) := by
  unfold Py.header_slice_times sliceTimesOf
  by_cases hc : 1 < fpv ∧ files.all Option.isSome = true
  · obtain ⟨h1, hall⟩ := hc
    have hc' : (decide (fpv > 1) && files.all fun x_ => x_.isSome) = true := by simp [h1]; simpa using hall
    simp only [hc', if_true, h1, hall, and_self]
    have h0 : (0 + 1) * n ≤ files.length := by
      rw [hlen]; exact Nat.mul_le_mul_right _ (by omega)
    have hm := mapM_pyGetKey _ (all_take _ hall n)
    have hve := vol_eq n files 0
    simp only [Nat.zero_mul, List.drop_zero] at hve
    rw [hm, hve]
    simp only [ok_bind', npMin_eq _ (vol_ne n files hn 0 h0)]
    have hr : List.map (fun x_ => x_ - minOf (volTimes n 0 (files.map fun x => x.getD 0))) (volTimes n 0 (files.map fun x => x.getD 0)) =
        relTimes (volTimes n 0 (files.map fun x => x.getD 0)) := rfl
    rw [hr, consistent_loop n files hall hn _ (nVols - 1) 1 true (by rw [hlen]; exact Nat.mul_le_mul_right _ (by omega))]
    simp only [ok_bind', Bool.and_true]
    cases hcf : consistentFrom n (relTimes (volTimes n 0 (files.map fun x => x.getD 0))) (files.map fun x => x.getD 0) 1 (nVols - 1)
    · simp
      rfl
    · rw [any_ne_zero_eq]
      cases hz : (relTimes (volTimes n 0 (files.map fun x => x.getD 0))).all (fun x_ => x_ == 0) <;> simp <;> rfl
  · have hc' : (decide (fpv > 1) && files.all fun x_ => x_.isSome) = false := by
      by_cases h1 : 1 < fpv
      · have : files.all Option.isSome = false := by simpa [h1] using hc
        simp [h1]; simpa using this
      · simp [h1]
    have hc2 : ¬ (1 < fpv ∧ files.all Option.isSome = true) := hc
    simp only [hc', Bool.false_eq_true, if_false, hc2]
    rfl

/-- **the repetition time and `dim_info` that `to_nifti` writes, as in dcmstack.py, are the model's `trOf` / `dimInfoOf`** (for a
    permutation of the three spatial axes; the slice axis is `permutation[2]`) -/
theorem header_dim_info_eq (trs : List (Option Int)) (pes : List (Option Nat)) (a b c : Nat) :
    Py.header_dim_info trs pes [a, b, c] c =
      .ok (trOf trs, (dimInfoOf pes [a, b, c]).1, (dimInfoOf pes [a, b, c]).2.1, (dimInfoOf pes [a, b, c]).2.2) := by
  unfold Py.header_dim_info
  have htr : (if ((trs.length == 1) && !(trs.contains none)) = true then (trs[0]!) else none) = trOf trs := by
    match trs with
    | [] => rfl
    | [none] => rfl
    | [some x] => rfl
    | _ :: _ :: _ => simp [trOf]
  match trs, pes with
  | [some x], [some d] => by_cases hd : d = 0 <;> simp [trOf, dimInfoOf, pyGet, hd, bind, Except.bind, pure, Except.pure]
  | [some x], [] | [some x], [none] => simp [trOf, dimInfoOf, pyGet, bind, Except.bind, pure, Except.pure]
  | [some x], _ :: _ :: _ => simp [trOf, dimInfoOf, pyGet, bind, Except.bind, pure, Except.pure]
  | [], [some d] | [none], [some d] => by_cases hd : d = 0 <;> simp [trOf, dimInfoOf, pyGet, hd, bind, Except.bind, pure, Except.pure]
  | _ :: _ :: _, [some d] => by_cases hd : d = 0 <;> simp [trOf, dimInfoOf, pyGet, hd, bind, Except.bind, pure, Except.pure]
  | [], [] | [], [none] | [none], [] | [none], [none] => simp [trOf, dimInfoOf, pyGet, bind, Except.bind, pure, Except.pure]
  | [], _ :: _ :: _ | [none], _ :: _ :: _ => simp [trOf, dimInfoOf, pyGet, bind, Except.bind, pure, Except.pure]
  | _ :: _ :: _, [] | _ :: _ :: _, [none] => simp [trOf, dimInfoOf, pyGet, bind, Except.bind, pure, Except.pure]
  | _ :: _ :: _, _ :: _ :: _ => simp [trOf, dimInfoOf, pyGet, bind, Except.bind, pure, Except.pure]

/-! the translated block computes (tests, not theorems): consistent interleaved timing, a deviating middle volume, a file
    without a time -/
example : Py.header_slice_times 2 3 2 [some 10, some 30, some 110, some 130, some 210, some 230] = .ok (some [0, 20]) := by rfl
example : Py.header_slice_times 2 3 2 [some 10, some 30, some 130, some 110, some 210, some 230] = .ok none := by rfl
example : Py.header_slice_times 2 3 2 [some 10, none, some 110, some 130, some 210, some 230] = .ok none := by rfl

end Src
