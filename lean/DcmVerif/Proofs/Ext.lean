import DcmVerif.Model.Ext
import DcmVerif.Proofs.Key
/-! Extension-level lemmas: the decidable shape predicate is `Consistent`; `make_empty` yields a
valid extension whose base dictionaries are exactly those its valid classes need. -/
set_option autoImplicit false
open Cls

theorem Shp.okB_iff (sh : Shp) : sh.okB = true ↔ Consistent sh := by
  constructor
  · intro h
    simp only [Shp.okB, Bool.and_eq_true, decide_eq_true_eq, Bool.or_eq_true, beq_iff_eq,
      bne_iff_ne, ne_eq] at h
    obtain ⟨⟨⟨⟨⟨⟨⟨⟨⟨hS, hT⟩, hV⟩, hnd⟩, h3⟩, h4⟩, hsl⟩, htime⟩, hvec⟩, htr⟩ := h
    refine { hS := hS, hT := hT, hV := hV, hnd := ?_, h3 := ?_, h4 := ?_, hsl := hsl,
             htime := ?_, hvec := ?_, trimmed4 := ?_ }
    · rcases hnd with (h | h) | h
      · exact Or.inl h
      · exact Or.inr (Or.inl h)
      · exact Or.inr (Or.inr h)
    · intro e; rcases h3 with h | h
      · exact absurd e h
      · exact h
    · intro e; rcases h4 with h | h
      · exact absurd e h
      · exact h
    · rw [htime]; simp
    · rw [hvec]; simp
    · intro e; rcases htr with h | h
      · exact absurd e h
      · exact h
  · intro hc
    have hnd := hc.hnd
    simp only [Shp.okB, Bool.and_eq_true, decide_eq_true_eq, Bool.or_eq_true, beq_iff_eq,
      bne_iff_ne, ne_eq]
    refine ⟨⟨⟨⟨⟨⟨⟨⟨⟨hc.hS, hc.hT⟩, hc.hV⟩, ?_⟩, ?_⟩, ?_⟩, hc.hsl⟩, ?_⟩, ?_⟩, ?_⟩
    · rcases hnd with h | h | h
      · exact Or.inl (Or.inl h)
      · exact Or.inl (Or.inr h)
      · exact Or.inr h
    · by_cases e : sh.nd = 3
      · exact Or.inr (hc.h3 e)
      · exact Or.inl e
    · by_cases e : sh.nd = 4
      · exact Or.inr (hc.h4 e)
      · exact Or.inl e
    · cases hT : sh.hasTime
      · have := hc.htime
        rw [hT] at this
        simp at this
        by_cases h4 : 4 ≤ sh.nd
        · simp [h4, this h4]
        · simp [h4]
      · have := hc.htime.mp hT
        simp [this.1, this.2]
    · cases hV : sh.hasVector
      · have := hc.hvec
        rw [hV] at this
        simp at this
        simp [this]
      · have := hc.hvec.mp hV
        simp [this]
    · by_cases e : sh.nd = 4
      · exact Or.inr (hc.trimmed4 e)
      · exact Or.inl e

namespace DExt
variable {κ α : Type} [DecidableEq κ] [DecidableEq α]

/-- the bases `make_empty` creates are exactly those the valid classes of the shape need
    (this is what `check_valid` demands; it failed for 4-D shapes with T = 1 before the F1 fix) -/
theorem makeEmpty_bases (shape : List Nat) (sd : Option Nat) (e : DExt κ α)
    (h : makeEmpty shape sd = .ok e) :
    ∀ c, c ∈ validClasses e.shp → basePresent e.shp c = true := by
  unfold makeEmpty at h
  split at h
  · cases h
  · split at h
    · cases h
    · rename_i hlen _
      injection h with h
      subst h
      intro c hc
      simp only [shp, validClasses] at hc
      simp only [shp, basePresent]
      have hl : 3 ≤ shape.length ∧ shape.length < 6 := by
        simpa using hlen
      by_cases e3 : shape.length = 3
      · simp [e3] at hc
        rcases hc with rfl | rfl <;> simp
      · by_cases e4 : shape.length = 4
        · simp [e4] at hc
          rcases hc with rfl | rfl | rfl | rfl <;> simp [e4]
        · have e5 : shape.length = 5 := by omega
          simp only [e5, List.getD_eq_getElem?_getD] at hc ⊢
          by_cases hT : shape[3]?.getD 1 = 1
          · simp [hT] at hc
            rcases hc with rfl | rfl | rfl | rfl <;> simp
          · simp [hT] at hc
            rcases hc with rfl | rfl | rfl | rfl | rfl | rfl <;> simp [hT]

/-- an empty extension is valid -/
theorem makeEmpty_validB (shape : List Nat) (sd : Option Nat) (e : DExt κ α)
    (h : makeEmpty shape sd = .ok e) : e.validB = true := by
  unfold makeEmpty at h
  split at h
  · cases h
  · split at h
    · cases h
    · injection h with h
      subst h
      simp [validB]

/-- `make_empty` refuses shapes that are not 3-, 4- or 5-dimensional and slice dims outside 0..2 -/
theorem makeEmpty_refuses (shape : List Nat) (sd : Option Nat)
    (h : ¬ (3 ≤ shape.length ∧ shape.length < 6) ∨ ∃ d, sd = some d ∧ 3 ≤ d) :
    makeEmpty (κ := κ) (α := α) shape sd = .valueError := by
  unfold makeEmpty
  rcases h with h | ⟨d, rfl, hd⟩
  · simp [h]
  · by_cases hl : (3 ≤ shape.length ∧ shape.length < 6)
    · simp [hl, hd]
    · simp [hl]

/-- **C14, `filter_keys`:** after filtering the entries are exactly the old entries whose key the
    filter does not remove — in every classification, values untouched -/
theorem filterMeta_ents (e : DExt κ α) (drop : κ → Bool) (x : κ × Cls × List α) :
    x ∈ (e.filterMeta drop).ents ↔ x ∈ e.ents ∧ drop x.1 = false := by
  simp [filterMeta, List.mem_filter]

theorem filterMeta_keys (e : DExt κ α) (drop : κ → Bool) (k : κ) :
    k ∈ (e.filterMeta drop).ents.map (·.1) ↔ k ∈ e.ents.map (·.1) ∧ drop k = false := by
  simp only [List.mem_map, filterMeta_ents]
  constructor
  · rintro ⟨x, ⟨hx, hd⟩, rfl⟩; exact ⟨⟨x, hx, rfl⟩, hd⟩
  · rintro ⟨⟨x, hx, rfl⟩, hd⟩; exact ⟨x, ⟨hx, hd⟩, rfl⟩

theorem filterMeta_geometry (e : DExt κ α) (drop : κ → Bool) :
    (e.filterMeta drop).shape = e.shape ∧ (e.filterMeta drop).sliceDim = e.sliceDim ∧
    (e.filterMeta drop).hasTime = e.hasTime ∧ (e.filterMeta drop).hasVector = e.hasVector :=
  ⟨rfl, rfl, rfl, rfl⟩

/-- filtering keeps a valid extension valid -/
theorem filterMeta_validB (e : DExt κ α) (drop : κ → Bool) (h : e.validB = true) :
    (e.filterMeta drop).validB = true := by
  simp only [validB, Bool.and_eq_true, List.all_eq_true, decide_eq_true_eq] at h ⊢
  obtain ⟨h1, h2⟩ := h
  refine ⟨?_, ?_⟩
  · intro x hx
    have hx' : x ∈ e.ents := ((filterMeta_ents e drop x).mp hx).1
    have := h1 x hx'
    simpa [filterMeta, shp] using this
  · have hsub : ((e.filterMeta drop).ents.map (·.1)).Sublist (e.ents.map (·.1)) := by
      simp only [filterMeta]
      exact List.Sublist.map _ List.filter_sublist
    exact List.Nodup.sublist hsub h2

end DExt
