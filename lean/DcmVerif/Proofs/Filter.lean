import DcmVerif.Model.Filter
import DcmVerif.Proofs.Key
/-! C14: the filter removes exactly what it is told to. -/
set_option autoImplicit false

namespace Flt

/-- the extracted default pattern lists contain no regular-expression metacharacter, so
    `re.search` on them is substring search -/
theorem default_lists_literal : (Gen.defaultExcl ++ Gen.defaultIncl).all isLiteral = true := by
  decide +kernel

theorem infixB_iff (sub l : List Char) : infixB sub l = true ↔ ∃ pre post, l = pre ++ sub ++ post := by
  induction l with
  | nil =>
    simp only [infixB, List.isEmpty_iff]
    constructor
    · intro h; exact ⟨[], [], by simp [h]⟩
    · rintro ⟨pre, post, h⟩
      have := congrArg List.length h
      simp at this
      exact List.eq_nil_of_length_eq_zero (by omega)
  | cons c cs ih =>
    simp only [infixB, Bool.or_eq_true, ih]
    constructor
    · rintro (h | ⟨pre, post, h⟩)
      · obtain ⟨t, ht⟩ := List.isPrefixOf_iff_prefix.mp h
        exact ⟨[], t, by simp [ht]⟩
      · exact ⟨c :: pre, post, by simp [h]⟩
    · rintro ⟨pre, post, h⟩
      cases pre with
      | nil =>
        left
        exact List.isPrefixOf_iff_prefix.mpr ⟨post, by simpa using h.symm⟩
      | cons x xs =>
        right
        simp only [List.cons_append, List.cons.injEq] at h
        exact ⟨xs, post, h.2⟩

/-- **exclude unless included, for the default lists:** a key is removed iff it contains one of
    the exclude words and none of the include words -/
theorem defaultFilter_iff (k : String) :
    defaultFilter k = true ↔
      (∃ e ∈ Gen.defaultExcl, matchLit e k = true) ∧ ¬ ∃ i ∈ Gen.defaultIncl, matchLit i k = true :=
  regexFilter_iff matchLit Gen.defaultExcl Gen.defaultIncl k

/-- no key matching an exclude pattern survives unless it also matches an include pattern -/
theorem default_excluded (k : String) (e : String) (he : e ∈ Gen.defaultExcl)
    (hm : matchLit e k = true) (hi : ∀ i ∈ Gen.defaultIncl, matchLit i k = false) :
    defaultFilter k = true := by
  rw [defaultFilter_iff]
  refine ⟨⟨e, he, hm⟩, ?_⟩
  rintro ⟨i, hi', hmi⟩
  rw [hi i hi'] at hmi; cases hmi

/-- image position and orientation are always kept -/
theorem default_keeps_included (k : String) (i : String) (hi : i ∈ Gen.defaultIncl)
    (hm : matchLit i k = true) : defaultFilter k = false := by
  cases h : defaultFilter k with
  | false => rfl
  | true => exact absurd ⟨i, hi, hm⟩ ((defaultFilter_iff k).mp h).2

/-- a key matching no exclude pattern is kept -/
theorem default_keeps_unmatched (k : String) (h : ∀ e ∈ Gen.defaultExcl, matchLit e k = false) :
    defaultFilter k = false := by
  cases hf : defaultFilter k with
  | false => rfl
  | true =>
    obtain ⟨⟨e, he, hm⟩, _⟩ := (defaultFilter_iff k).mp hf
    rw [h e he] at hm; cases hm

/-- concrete keys under the extracted default lists -/
theorem default_examples :
    defaultFilter "PatientName" = true ∧ defaultFilter "StudyDate" = true ∧
    defaultFilter "SeriesInstanceUID" = true ∧ defaultFilter "InstitutionName" = true ∧
    defaultFilter "ImagePositionPatient" = false ∧ defaultFilter "ImageOrientationPatient" = false ∧
    defaultFilter "EchoTime" = false ∧ defaultFilter "CsaImage.ImaPATModeText" = false ∧
    defaultFilter "ReferringPhysicianName" = true := by decide +kernel

/-- extra exclude / include patterns compose as exclude-unless-included -/
theorem cliFilter_iff (extraExcl extraIncl : List String) (k : String) :
    cliFilter extraExcl extraIncl k = true ↔
      (∃ e ∈ Gen.defaultExcl ++ extraExcl, matchLit e k = true) ∧
        ¬ ∃ i ∈ Gen.defaultIncl ++ extraIncl, matchLit i k = true :=
  regexFilter_iff matchLit _ _ k

end Flt
