import DcmVerif.Generated.Code_shapes
import DcmVerif.Model.Ext
import DcmVerif.Proofs.CodeLemmas
/-! the result shapes computed by `get_subset` and `from_sequence` (their `while` loops) as translated from dcmmeta.py are the model's `subsetShape` and `outShapeOf`. -/
set_option autoImplicit false
set_option linter.unusedSimpArgs false
set_option linter.unusedVariables false
open Cls

namespace Src
variable {α κ : Type}

def trimCond (l : List Nat) : Bool := (l[l.length - 1]! == 1) && decide (l.length > 3)

theorem whileFuel_trim : ∀ (n : Nat) (r : List Nat), r.length ≤ n →
    whileFuel trimCond List.dropLast n r.reverse = (trimRev r).reverse
  | 0, r, h => by
    have : r = [] := List.eq_nil_of_length_eq_zero (by omega)
    subst this; rfl
  | n + 1, [], _ => by simp [whileFuel, trimCond, trimRev]
  | n + 1, x :: rest, h => by
    have hrev : (x :: rest).reverse = rest.reverse ++ [x] := by simp
    rw [hrev]
    have hlast : (rest.reverse ++ [x])[(rest.reverse ++ [x]).length - 1]! = x := by simp
    have hlen : (rest.reverse ++ [x]).length = rest.length + 1 := by simp
    have hd : (rest.reverse ++ [x]).dropLast = rest.reverse := by simp
    by_cases hx : x = 1
    · subst hx
      by_cases h3 : 3 ≤ rest.length
      · have hc : trimCond (rest.reverse ++ [1]) = true := by
          unfold trimCond; rw [hlast, hlen]; simp; omega
        rw [whileFuel, if_pos hc, hd]
        have : trimRev (1 :: rest) = trimRev rest := by simp [trimRev, h3]
        rw [this]
        exact whileFuel_trim n rest (by simp at h; omega)
      · have hc : trimCond (rest.reverse ++ [1]) = false := by
          unfold trimCond; rw [hlast, hlen]; simp; omega
        rw [whileFuel, if_neg (by simp [hc])]
        have : trimRev (1 :: rest) = 1 :: rest := by simp [trimRev, h3]
        rw [this, hrev]
    · have hc : trimCond (rest.reverse ++ [x]) = false := by
        unfold trimCond; rw [hlast]; simp [hx]
      have ht : trimRev (x :: rest) = x :: rest := by
        unfold trimRev
        split
        · rename_i heq; simp at heq; exact absurd heq.1 hx
        · rfl
      rw [whileFuel, if_neg (by simp [hc]), ht, hrev]

theorem trimCond_after : ∀ (n : Nat) (r : List Nat), r.length ≤ n →
    trimCond (whileFuel trimCond List.dropLast n r) = false
  | 0, r, h => by
    have : r = [] := List.eq_nil_of_length_eq_zero (by omega)
    subst this; simp [whileFuel, trimCond]
  | n + 1, r, h => by
    by_cases hc : trimCond r = true
    · rw [whileFuel, if_pos hc]
      apply trimCond_after n r.dropLast
      have : 3 < r.length := by
        unfold trimCond at hc; simp at hc; exact hc.2
      simp; omega
    · have hc' : trimCond r = false := by simpa using hc
      rw [whileFuel_stable _ _ _ _ hc']; exact hc'

/-- **the result shape computed by `get_subset` as written in dcmmeta.py is the model's `subsetShape`**
    (split axis singular, trailing singular axes beyond the third removed) for every shape and axis; the
    bounded rendering of the `while` loop never runs out of rounds -/
theorem subset_shape_eq (shape : List Nat) (dim : Nat) :
    Py.subset_shape shape dim = .ok (DExt.subsetShape shape dim) := by
  unfold Py.subset_shape DExt.subsetShape trimTrailing
  have hfin := trimCond_after shape.length (shape.set dim 1) (by simp)
  have hres := whileFuel_trim shape.length (shape.set dim 1).reverse (by simp)
  rw [List.reverse_reverse] at hres
  simp only [forIn_while, List.length_range, ok_bind']
  have hc : (fun (r : List Nat) => r[r.length - 1]! == 1 && decide (r.length > 3)) = trimCond := rfl
  rw [hc]
  have hfin' : ((whileFuel trimCond List.dropLast shape.length (shape.set dim 1))[
      (whileFuel trimCond List.dropLast shape.length (shape.set dim 1)).length - 1]! == 1 &&
      decide ((whileFuel trimCond List.dropLast shape.length (shape.set dim 1)).length > 3)) = false := hfin
  rw [if_neg (by rw [hfin']; simp), hres]
  rfl

theorem merge_shape_eq {κ α : Type} (first : DExt κ α) (dim n : Nat) :
    Py.merge_shape first.shape dim n = .ok (DExt.outShapeOf first dim n) := by
  unfold Py.merge_shape DExt.outShapeOf
  simp only [forIn_while, List.length_range, ok_bind']
  have hc : (fun (r : List Nat) => decide (r.length ≤ dim)) = padCond dim := rfl
  rw [hc, whileFuel_pad dim (dim + 1) first.shape (by omega)]
  have hlen : ¬ (first.shape ++ List.replicate (dim + 1 - first.shape.length) 1).length ≤ dim := by
    simp; omega
  rw [if_neg (by simp only [decide_eq_true_eq]; exact hlen)]
  rfl

end Src
