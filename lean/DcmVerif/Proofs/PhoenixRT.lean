import DcmVerif.Proofs.Phoenix
/-! C16, unbounded round trip: a rendered assignment line — any whitespace, any well-formed key,
a number or a quoted string in either dialect (with `#` / `=` inside the quotes), an optional trailing
comment — parses back to exactly that key and value. -/
set_option autoImplicit false

namespace Phx

/-- the two quoting dialects -/
def Dialect (d : Str) : Prop := d = ['"'] ∨ d = ['"', '"']

theorem Dialect.ne_nil {d : Str} (h : Dialect d) : d ≠ [] := by
  rcases h with rfl | rfl <;> simp

theorem Dialect.noPrefix {d : Str} (h : Dialect d) (c : Char) (l : Str) (hc : c ≠ '"') :
    d.isPrefixOf (c :: l) = false := by
  rcases h with rfl | rfl <;> simp [List.isPrefixOf, Ne.symm hc]

theorem Dialect.prefix_self {d : Str} (_h : Dialect d) (l : Str) : d.isPrefixOf (d ++ l) = true := by
  rw [List.isPrefixOf_iff_prefix]; exact List.prefix_append d l

theorem Dialect.cons {d : Str} (h : Dialect d) : ∃ t, d = '"' :: t := by
  rcases h with rfl | rfl <;> simp

/-! ### searching and counting the delimiter in text without quote characters -/

theorem findSub_delim {d : Str} (hd : Dialect d) (A B : Str) (hA : '"' ∉ A) :
    findSub d (A ++ d ++ B) = some A.length := by
  induction A with
  | nil =>
    obtain ⟨t, ht⟩ := hd.cons
    have hp := hd.prefix_self B
    simp only [List.nil_append]
    rw [ht] at hp ⊢
    simp only [List.cons_append] at hp ⊢
    simp [findSub, hp]
  | cons x xs ih =>
    have hx : x ≠ '"' := fun e => hA (by simp [e])
    have hxs : '"' ∉ xs := fun e => hA (by simp [e])
    simp only [List.cons_append, List.append_assoc]
    have := hd.noPrefix x (xs ++ (d ++ B)) hx
    simp only [findSub, this]
    have ih' := ih hxs
    simp only [List.append_assoc] at ih'
    simp [ih']

theorem countGo_noQ {d : Str} (hd : Dialect d) (fuel : Nat) (A : Str) (hA : '"' ∉ A) :
    countGo d fuel A = 0 := by
  induction fuel generalizing A with
  | zero => simp [countGo]
  | succ n ih =>
    cases A with
    | nil => simp [countGo]
    | cons x xs =>
      have hx : x ≠ '"' := fun e => hA (by simp [e])
      have hxs : '"' ∉ xs := fun e => hA (by simp [e])
      simp only [countGo, hd.noPrefix x xs hx]
      exact ih xs hxs

theorem countGo_fuel (d : Str) (hd : d ≠ []) (f g : Nat) (l : Str) (hf : l.length ≤ f) (hg : l.length ≤ g) :
    countGo d f l = countGo d g l := by
  induction f generalizing g l with
  | zero =>
    have : l = [] := by cases l with | nil => rfl | cons _ _ => simp at hf
    subst this
    cases g <;> simp [countGo]
  | succ n ih =>
    cases l with
    | nil => cases g <;> simp [countGo]
    | cons c cs =>
      cases g with
      | zero => simp at hg
      | succ m =>
        simp only [List.length_cons] at hf hg
        simp only [countGo]
        by_cases hp : d.isPrefixOf (c :: cs) = true
        · simp only [hp, if_true]
          have hl : ((c :: cs).drop d.length).length ≤ cs.length := by
            have hdl : 1 ≤ d.length := by
              cases d with
              | nil => exact absurd rfl hd
              | cons _ _ => simp
            simp only [List.length_drop, List.length_cons]; omega
          rw [ih m _ (by omega) (by omega)]
        · simp only [hp]
          exact ih m cs (by omega) (by omega)

theorem countGo_skip {d : Str} (hd : Dialect d) (A R : Str) (hA : '"' ∉ A) (fuel : Nat)
    (hf : (A ++ d ++ R).length ≤ fuel) :
    countGo d fuel (A ++ d ++ R) = 1 + countGo d R.length R := by
  induction A generalizing fuel with
  | nil =>
    obtain ⟨t, ht⟩ := hd.cons
    cases fuel with
    | zero => simp [ht] at hf
    | succ n =>
      have hp := hd.prefix_self R
      simp only [List.nil_append] at hf ⊢
      have hcons : d ++ R = '"' :: (t ++ R) := by rw [ht]; rfl
      rw [hcons] at hp
      rw [hcons, countGo]
      simp only [hp, if_true]
      rw [← hcons, List.drop_left]
      rw [countGo_fuel d hd.ne_nil n R.length R (by simp [ht] at hf; omega) (Nat.le_refl _)]
  | cons x xs ih =>
    have hx : x ≠ '"' := fun e => hA (by simp [e])
    have hxs : '"' ∉ xs := fun e => hA (by simp [e])
    cases fuel with
    | zero => simp at hf
    | succ n =>
      simp only [List.cons_append, List.append_assoc] at hf ⊢
      rw [countGo]
      simp only [hd.noPrefix x _ hx]
      have := ih hxs n (by simp only [List.append_assoc, List.length_cons] at hf ⊢; omega)
      simpa [List.append_assoc] using this

theorem countSub_noQ {d : Str} (hd : Dialect d) (A : Str) (hA : '"' ∉ A) : countSub d A = 0 :=
  countGo_noQ hd _ A hA

theorem countSub_one {d : Str} (hd : Dialect d) (A B : Str) (hA : '"' ∉ A) (hB : '"' ∉ B) :
    countSub d (A ++ d ++ B) = 1 := by
  unfold countSub
  rw [countGo_skip hd A B hA _ (Nat.le_refl _), countGo_noQ hd _ B hB]

theorem countSub_two {d : Str} (hd : Dialect d) (A B C : Str) (hA : '"' ∉ A) (hB : '"' ∉ B)
    (hC : '"' ∉ C) : countSub d (A ++ d ++ (B ++ d ++ C)) = 2 := by
  unfold countSub
  rw [countGo_skip hd A _ hA _ (Nat.le_refl _), countGo_skip hd B C hB _ (Nat.le_refl _),
    countGo_noQ hd _ C hC]

/-! ### whitespace -/

theorem isWs_ne {c : Char} (h : isWs c = true) : c ≠ '=' ∧ c ≠ '#' ∧ c ≠ '"' := by
  refine ⟨?_, ?_, ?_⟩ <;> (intro e; subst e; simp [isWs] at h)

theorem ws_not_mem {l : Str} (h : ∀ c ∈ l, isWs c = true) : '=' ∉ l ∧ '#' ∉ l ∧ '"' ∉ l := by
  refine ⟨?_, ?_, ?_⟩ <;> (intro hm; have := h _ hm; simp [isWs] at this)

theorem dropWhile_append_of_ne {β : Type} (p : β → Bool) (A B : List β) (h : A.dropWhile p ≠ []) :
    (A ++ B).dropWhile p = A.dropWhile p ++ B := by
  induction A with
  | nil => simp at h
  | cons a as ih =>
    by_cases hp : p a = true
    · simp only [List.cons_append, List.dropWhile_cons, hp, if_true] at h ⊢
      exact ih h
    · simp [hp]

theorem dropWhile_nil_all {β : Type} (p : β → Bool) (l : List β) (h : l.dropWhile p = []) :
    ∀ x ∈ l, p x = true := by
  induction l with
  | nil => simp
  | cons a as ih =>
    by_cases hp : p a = true
    · simp only [List.dropWhile_cons, hp, if_true] at h
      intro x hx
      rcases List.mem_cons.mp hx with rfl | hx
      · exact hp
      · exact ih h x hx
    · simp [hp] at h

theorem rstrip_append_of_ne (A B : Str) (h : rstrip B ≠ []) : rstrip (A ++ B) = A ++ rstrip B := by
  unfold rstrip at h ⊢
  rw [List.reverse_append, dropWhile_append_of_ne _ _ _ (by simpa using h)]
  simp

theorem rstrip_cons_nonws (a : Char) (l : Str) (ha : isWs a = false) :
    rstrip (a :: l) = a :: rstrip l := by
  by_cases h : rstrip l = []
  · unfold rstrip at h ⊢
    have h' : l.reverse.dropWhile isWs = [] := by simpa using h
    rw [List.reverse_cons]
    have hall : ∀ c ∈ l.reverse, isWs c = true := by
      intro c hc
      exact dropWhile_nil_all _ _ h' c hc
    rw [dropWhile_ws_append _ _ hall, h']
    simp [ha]
  · have := rstrip_append_of_ne [a] l h
    simpa using this

theorem strip_ne_nil (l : Str) (c : Char) (hc : c ∈ l) (hw : isWs c = false) : strip l ≠ [] := by
  intro h
  unfold strip rstrip lstrip at h
  have h1 : (l.dropWhile isWs).reverse.dropWhile isWs = [] := by simpa using h
  have hall : ∀ x ∈ l.dropWhile isWs, isWs x = true := by
    intro x hx
    exact dropWhile_nil_all _ _ h1 x (by simpa using hx)
  -- every element of l is then whitespace
  have : ∀ x ∈ l, isWs x = true := by
    clear h h1 hc
    induction l with
    | nil => simp
    | cons a as ih =>
      by_cases hp : isWs a = true
      · simp only [List.dropWhile_cons, hp, if_true] at hall
        intro x hx
        rcases List.mem_cons.mp hx with rfl | hx
        · exact hp
        · exact ih hall x hx
      · simp only [List.dropWhile_cons, hp] at hall
        exact fun x hx => hall x (by simpa using hx)
  have := this c hc
  rw [hw] at this; cases this

/-- a token that neither starts nor ends with whitespace -/
def NoWsEnds (t : Str) : Prop :=
  (∀ x xs, t = x :: xs → isWs x = false) ∧ (∀ x xs, t.reverse = x :: xs → isWs x = false)

theorem strip_token (ws1 t ws2 : Str) (h1 : ∀ c ∈ ws1, isWs c = true)
    (h2 : ∀ c ∈ ws2, isWs c = true) (ht : NoWsEnds t) : strip (ws1 ++ t ++ ws2) = t :=
  strip_sandwich ws1 t ws2 h1 h2 ht.1 ht.2

/-! ### comment handling -/

theorem stripComment_noHash (d L : Str) (h : '#' ∉ L) : stripComment d L = some L := by
  unfold stripComment
  rw [findSub_single_none '#' L h]

theorem stripComment_cut (d P x : Str) (h : '#' ∉ P) (hc : countSub d P ≠ 1) :
    stripComment d (P ++ '#' :: x) = some P := by
  unfold stripComment
  rw [findSub_single_append '#' P x h]
  simp [hc]

theorem stripComment_keep (d P x : Str) (h : '#' ∉ P) (hc : countSub d P = 1)
    (hf : findSub d ('#' :: x) ≠ none) :
    stripComment d (P ++ '#' :: x) = some (P ++ '#' :: x) := by
  unfold stripComment
  rw [findSub_single_append '#' P x h]
  simp only [List.take_left', hc, if_true, List.drop_left']
  cases hfs : findSub d ('#' :: x) with
  | none => exact absurd hfs hf
  | some i => simp

/-- once the comment is dealt with: split at the first `=` -/
theorem parseLine_of_kept (d L pre rest key : Str)
    (hs : stripComment d L = some (pre ++ '=' :: rest)) (he : '=' ∉ pre) (hk : strip pre = key) :
    parseLine d L =
      if d.isPrefixOf (strip rest) then parseString d key (strip rest)
      else parseNumber key (strip rest) := by
  unfold parseLine
  rw [hs]
  simp only
  have hne : strip (pre ++ '=' :: rest) ≠ [] :=
    strip_ne_nil _ '=' (by simp) (by simp [isWs])
  rw [if_neg hne, findSub_single_append '=' pre rest he]
  simp only [List.take_left', hk]
  have : (pre ++ '=' :: rest).drop (pre.length + 1) = rest := by
    rw [show pre ++ '=' :: rest = (pre ++ ['=']) ++ rest by simp]
    rw [show pre.length + 1 = (pre ++ ['=']).length by simp]
    exact List.drop_left' rfl
  rw [this]

theorem Dialect.noPrefix_of_noQ {d : Str} (hd : Dialect d) (v : Str) (hv : '"' ∉ v) :
    d.isPrefixOf v = false := by
  cases v with
  | nil => rcases hd with rfl | rfl <;> rfl
  | cons x xs => exact hd.noPrefix x xs (fun e => hv (by simp [e]))

/-- **numbers round-trip at line level**: any whitespace around key, `=` and value, an optional
    trailing comment; the value token is handed to the numeric conversions unchanged -/
theorem parse_render_number (d : Str) (hd : Dialect d) (ws1 key ws2 ws3 val ws4 cmt : Str)
    (h1 : ∀ c ∈ ws1, isWs c = true) (h2 : ∀ c ∈ ws2, isWs c = true)
    (h3 : ∀ c ∈ ws3, isWs c = true) (h4 : ∀ c ∈ ws4, isWs c = true)
    (hkey : NoWsEnds key) (hk1 : '=' ∉ key) (hk2 : '#' ∉ key) (hk3 : '"' ∉ key)
    (hval : NoWsEnds val) (hv2 : '#' ∉ val) (hv3 : '"' ∉ val)
    (hc : cmt = [] ∨ ∃ x, cmt = '#' :: x) :
    parseLine d (ws1 ++ key ++ ws2 ++ '=' :: (ws3 ++ val ++ ws4 ++ cmt)) = parseNumber key val := by
  obtain ⟨e1, s1, q1⟩ := ws_not_mem h1
  obtain ⟨e2, s2, q2⟩ := ws_not_mem h2
  obtain ⟨_, s3, q3⟩ := ws_not_mem h3
  obtain ⟨_, s4, q4⟩ := ws_not_mem h4
  have he : '=' ∉ ws1 ++ key ++ ws2 := by simp [e1, e2, hk1]
  have hk : strip (ws1 ++ key ++ ws2) = key := strip_token ws1 key ws2 h1 h2 hkey
  have hv : strip (ws3 ++ val ++ ws4) = val := strip_token ws3 val ws4 h3 h4 hval
  have hkept : stripComment d (ws1 ++ key ++ ws2 ++ '=' :: (ws3 ++ val ++ ws4 ++ cmt)) =
      some (ws1 ++ key ++ ws2 ++ '=' :: (ws3 ++ val ++ ws4)) := by
    rcases hc with rfl | ⟨x, rfl⟩
    · rw [List.append_nil]
      apply stripComment_noHash
      simp [s1, s2, s3, s4, hk2, hv2]
    · have hre : ws1 ++ key ++ ws2 ++ '=' :: (ws3 ++ val ++ ws4 ++ '#' :: x) =
          (ws1 ++ key ++ ws2 ++ '=' :: (ws3 ++ val ++ ws4)) ++ '#' :: x := by simp
      rw [hre]
      apply stripComment_cut
      · simp [s1, s2, s3, s4, hk2, hv2]
      · rw [countSub_noQ hd _ (by simp [q1, q2, q3, q4, hk3, hv3])]
        decide
  rw [parseLine_of_kept d _ _ _ key hkept he hk, hv, hd.noPrefix_of_noQ val hv3]
  simp

/-- the quoted-string branch on `delim content delim tail`, where the tail is empty or (after
    whitespace) a comment -/
theorem parseString_ok (d : Str) (hd : Dialect d) (key content T : Str) (hq : '"' ∉ content)
    (hT : T = [] ∨ ['#'].isPrefixOf (strip T) = true) :
    parseString d key (d ++ content ++ d ++ T) = .pair key (.str content) := by
  unfold parseString
  have hdrop : (d ++ content ++ d ++ T).drop d.length = content ++ d ++ T := by
    rw [show d ++ content ++ d ++ T = d ++ (content ++ d ++ T) by simp]
    exact List.drop_left
  have hfind : findSub d (content ++ d ++ T) = some content.length := findSub_delim hd content T hq
  simp only [hdrop, hfind]
  have h1 : ¬ ((content.length : Int) + (d.length : Int) = -1) := by omega
  rw [if_neg h1]
  have hlen : (d ++ content ++ d ++ T).length = d.length + content.length + d.length + T.length := by
    simp; omega
  have htoNat : ((content.length : Int) + (d.length : Int) + (d.length : Int)).toNat =
      content.length + d.length + d.length := by omega
  have hdropT : (d ++ content ++ d ++ T).drop (content.length + d.length + d.length) = T := by
    rw [show content.length + d.length + d.length = (d ++ content ++ d).length by simp; omega]
    exact List.drop_left
  have hbad : (if (content.length : Int) + (d.length : Int) =
        ((d ++ content ++ d ++ T).length : Int) - (d.length : Int) then false
      else !(['#'].isPrefixOf (strip ((d ++ content ++ d ++ T).drop
        ((content.length : Int) + (d.length : Int) + (d.length : Int)).toNat)))) = false := by
    rw [htoNat, hdropT]
    rcases hT with rfl | hT
    · have : (content.length : Int) + (d.length : Int) =
          ((d ++ content ++ d ++ []).length : Int) - (d.length : Int) := by
        simp; omega
      rw [if_pos this]
    · simp [hT]
  rw [hbad]
  simp only [Bool.false_eq_true, if_false]
  have hpos : ¬ ((content.length : Int) + (d.length : Int) < 0) := by omega
  rw [if_neg hpos]
  have hstop : ((content.length : Int) + (d.length : Int)).toNat = content.length + d.length := by omega
  rw [hstop]
  have htake : (d ++ content ++ d ++ T).take (content.length + d.length) = d ++ content := by
    rw [show d ++ content ++ d ++ T = (d ++ content) ++ (d ++ T) by simp]
    rw [show content.length + d.length = (d ++ content).length by simp; omega]
    exact List.take_left
  rw [htake, List.drop_left]

theorem exists_first {β : Type} [DecidableEq β] (a : β) (l : List β) (h : a ∈ l) :
    ∃ s t, l = s ++ a :: t ∧ a ∉ s := by
  induction l with
  | nil => simp at h
  | cons x xs ih =>
    by_cases hx : x = a
    · exact ⟨[], xs, by simp [hx], by simp⟩
    · have : a ∈ xs := by
        rcases List.mem_cons.mp h with e | e
        · exact absurd e.symm hx
        · exact e
      obtain ⟨s, t, hl, hs⟩ := ih this
      exact ⟨x :: s, t, by simp [hl], by simp [hs, Ne.symm hx]⟩

theorem Dialect.noHash {d : Str} (hd : Dialect d) : '#' ∉ d := by
  rcases hd with rfl | rfl <;> decide

theorem Dialect.noEq {d : Str} (hd : Dialect d) : '=' ∉ d := by
  rcases hd with rfl | rfl <;> decide

theorem Dialect.quoted_noWsEnds {d : Str} (hd : Dialect d) (content : Str) :
    NoWsEnds (d ++ content ++ d) := by
  rcases hd with rfl | rfl
  · refine ⟨?_, ?_⟩
    · intro x xs h; simp at h; rw [← h.1]; decide
    · intro x xs h; simp at h; rw [← h.1]; decide
  · refine ⟨?_, ?_⟩
    · intro x xs h; simp at h; rw [← h.1]; decide
    · intro x xs h; simp at h; rw [← h.1]; decide

/-- `strip` of `ws  delim content delim  ws  # comment` -/
theorem strip_quoted_comment {d : Str} (hd : Dialect d) (ws3 content ws4 x : Str)
    (h3 : ∀ c ∈ ws3, isWs c = true) :
    strip (ws3 ++ d ++ content ++ d ++ ws4 ++ '#' :: x) =
      d ++ content ++ d ++ (ws4 ++ '#' :: rstrip x) := by
  obtain ⟨t, ht⟩ := hd.cons
  unfold strip lstrip
  have hre : ws3 ++ d ++ content ++ d ++ ws4 ++ '#' :: x =
      ws3 ++ ('"' :: (t ++ content ++ d ++ ws4 ++ '#' :: x)) := by
    rw [ht]; simp
  rw [hre, dropWhile_ws_append ws3 _ h3]
  have hq : isWs '"' = false := by decide
  simp only [List.dropWhile_cons, hq]
  have hre2 : '"' :: (t ++ content ++ d ++ ws4 ++ '#' :: x) =
      (d ++ content ++ d ++ ws4) ++ '#' :: x := by
    rw [show (d ++ content ++ d ++ ws4) = '"' :: (t ++ content ++ d ++ ws4) by rw [ht]; simp]
    simp
  have hh : isWs '#' = false := by decide
  have hne : rstrip ('#' :: x) ≠ [] := by rw [rstrip_cons_nonws '#' x hh]; simp
  simp only [Bool.false_eq_true, if_false]
  rw [hre2, rstrip_append_of_ne _ _ hne, rstrip_cons_nonws '#' x hh]
  simp

theorem strip_comment_tail (ws4 y : Str) (h4 : ∀ c ∈ ws4, isWs c = true) :
    ['#'].isPrefixOf (strip (ws4 ++ '#' :: y)) = true := by
  unfold strip lstrip
  rw [dropWhile_ws_append ws4 _ h4]
  have hh : isWs '#' = false := by decide
  simp only [List.dropWhile_cons, hh, Bool.false_eq_true, if_false]
  rw [rstrip_cons_nonws '#' y hh]
  simp [List.isPrefixOf]

/-- **quoted strings round-trip at line level, both dialects**: any whitespace, `#` and `=` allowed
    inside the quotes, optional trailing comment (which may itself contain anything) -/
theorem parse_render_string (d : Str) (hd : Dialect d) (ws1 key ws2 ws3 content ws4 cmt : Str)
    (h1 : ∀ c ∈ ws1, isWs c = true) (h2 : ∀ c ∈ ws2, isWs c = true)
    (h3 : ∀ c ∈ ws3, isWs c = true) (h4 : ∀ c ∈ ws4, isWs c = true)
    (hkey : NoWsEnds key) (hk1 : '=' ∉ key) (hk2 : '#' ∉ key) (hk3 : '"' ∉ key)
    (hq : '"' ∉ content)
    (hc : cmt = [] ∨ ∃ x, cmt = '#' :: x) :
    parseLine d (ws1 ++ key ++ ws2 ++ '=' :: (ws3 ++ d ++ content ++ d ++ ws4 ++ cmt)) =
      .pair key (.str content) := by
  obtain ⟨e1, s1, q1⟩ := ws_not_mem h1
  obtain ⟨e2, s2, q2⟩ := ws_not_mem h2
  obtain ⟨_, s3, q3⟩ := ws_not_mem h3
  obtain ⟨_, s4, q4⟩ := ws_not_mem h4
  have sd := hd.noHash
  have he : '=' ∉ ws1 ++ key ++ ws2 := by simp [e1, e2, hk1]
  have hk : strip (ws1 ++ key ++ ws2) = key := strip_token ws1 key ws2 h1 h2 hkey
  -- what the comment handling keeps
  have hkept : ∃ cmt', (cmt' = [] ∨ ∃ x, cmt' = '#' :: x) ∧
      stripComment d (ws1 ++ key ++ ws2 ++ '=' :: (ws3 ++ d ++ content ++ d ++ ws4 ++ cmt)) =
        some (ws1 ++ key ++ ws2 ++ '=' :: (ws3 ++ d ++ content ++ d ++ ws4 ++ cmt')) := by
    by_cases hin : '#' ∈ content
    · obtain ⟨c1, c2, hcont, hc1⟩ := exists_first '#' content hin
      refine ⟨cmt, hc, ?_⟩
      have hq1 : '"' ∉ c1 := fun h => hq (by rw [hcont]; simp [h])
      have hq2 : '"' ∉ c2 := fun h => hq (by rw [hcont]; simp [h])
      have hre : ws1 ++ key ++ ws2 ++ '=' :: (ws3 ++ d ++ content ++ d ++ ws4 ++ cmt) =
          ((ws1 ++ key ++ ws2 ++ '=' :: ws3) ++ d ++ c1) ++ '#' :: (c2 ++ d ++ (ws4 ++ cmt)) := by
        rw [hcont]; simp
      rw [hre]
      apply stripComment_keep
      · simp [s1, s2, s3, hk2, sd, hc1]
      · exact countSub_one hd _ c1 (by simp [q1, q2, q3, hk3]) hq1
      · have := findSub_delim hd ('#' :: c2) (ws4 ++ cmt) (by simp [hq2])
        simp only [List.cons_append] at this
        rw [this]; simp
    · refine ⟨[], Or.inl rfl, ?_⟩
      rcases hc with rfl | ⟨x, rfl⟩
      · apply stripComment_noHash
        simp [s1, s2, s3, s4, hk2, sd, hin]
      · have hre : ws1 ++ key ++ ws2 ++ '=' :: (ws3 ++ d ++ content ++ d ++ ws4 ++ '#' :: x) =
            ((ws1 ++ key ++ ws2 ++ '=' :: ws3) ++ d ++ (content ++ d ++ ws4)) ++ '#' :: x := by simp
        have hre2 : ws1 ++ key ++ ws2 ++ '=' :: (ws3 ++ d ++ content ++ d ++ ws4 ++ []) =
            ((ws1 ++ key ++ ws2 ++ '=' :: ws3) ++ d ++ (content ++ d ++ ws4)) := by simp
        rw [hre, hre2]
        apply stripComment_cut
        · simp [s1, s2, s3, s4, hk2, sd, hin]
        · rw [countSub_two hd _ content ws4 (by simp [q1, q2, q3, hk3]) hq q4]
          decide
  obtain ⟨cmt', hc', hkept⟩ := hkept
  rw [parseLine_of_kept d _ _ _ key hkept he hk]
  -- the value token
  have hv : ∃ T, (T = [] ∨ ['#'].isPrefixOf (strip T) = true) ∧
      strip (ws3 ++ d ++ content ++ d ++ ws4 ++ cmt') = d ++ content ++ d ++ T := by
    rcases hc' with rfl | ⟨x, rfl⟩
    · refine ⟨[], Or.inl rfl, ?_⟩
      have := strip_token ws3 (d ++ content ++ d) ws4 h3 h4 (hd.quoted_noWsEnds content)
      simpa using this
    · exact ⟨ws4 ++ '#' :: rstrip x, Or.inr (strip_comment_tail ws4 _ h4),
        strip_quoted_comment hd ws3 content ws4 x h3⟩
  obtain ⟨T, hT, hv⟩ := hv
  rw [hv]
  have hp : d.isPrefixOf (d ++ content ++ d ++ T) = true := by
    rw [show d ++ content ++ d ++ T = d ++ (content ++ d ++ T) by simp]
    exact hd.prefix_self _
  rw [if_pos hp]
  exact parseString_ok d hd key content T hq hT

/-! ### the numeric conversions -/

theorem digitsGo_cons (b : Nat) (dg : Char → Option Nat) (acc : Nat) (c : Char) (cs : Str)
    (hc : c ≠ '_') :
    digitsGo b dg acc (c :: cs) =
      match dg c with
      | some d => digitsGo b dg (acc * b + d) cs
      | none => none := by
  rw [digitsGo.eq_def]
  split
  · rename_i h; cases h
  · rename_i h; injection h with h1 h2; exact absurd h1 hc
  · rename_i _ h; injection h with h1 h2; subst h1; subst h2; rfl

theorem digitsGo_under_nil (b : Nat) (dg : Char → Option Nat) (acc : Nat) (h : dg '_' = none) :
    digitsGo b dg acc ['_'] = none := by
  rw [digitsGo.eq_def]
  simp [h]

/-- a string of digit characters is read as its value (leading zeros allowed) -/
theorem digitsGo_all (b : Nat) (dg : Char → Option Nat) (cs : Str) (acc : Nat)
    (h : ∀ c ∈ cs, (dg c).isSome = true) (hu : dg '_' = none) :
    digitsGo b dg acc cs = some (cs.foldl (fun a c => a * b + (dg c).getD 0) acc) := by
  induction cs generalizing acc with
  | nil => simp [digitsGo]
  | cons c cs ih =>
    have hc : (dg c).isSome = true := h c (by simp)
    have hne : c ≠ '_' := by
      intro e; subst e; rw [hu] at hc; cases hc
    rw [digitsGo_cons b dg acc c cs hne]
    cases hd : dg c with
    | none => rw [hd] at hc; cases hc
    | some v =>
      simp only [List.foldl_cons, hd, Option.getD_some]
      exact ih _ (fun x hx => h x (by simp [hx]))

/-- a character that is no digit (and not `_`) anywhere makes the conversion fail -/
theorem digitsGo_bad (b : Nat) (dg : Char → Option Nat) (cs : Str) (acc : Nat) (c : Char)
    (hc : c ∈ cs) (hd : dg c = none) (hne : c ≠ '_') (hu : dg '_' = none) :
    digitsGo b dg acc cs = none := by
  induction cs using List.rec generalizing acc with
  | nil => simp at hc
  | cons x xs ih =>
    by_cases hx : x = '_'
    · subst hx
      -- an underscore must be followed by a digit
      have hcx : c ∈ xs := by
        rcases List.mem_cons.mp hc with e | e
        · exact absurd e hne
        · exact e
      cases xs with
      | nil => simp at hcx
      | cons y ys =>
        rw [digitsGo.eq_def]
        simp only
        cases hy : dg y with
        | none => rfl
        | some v =>
          simp only
          by_cases hyc : y = c
          · subst hyc; rw [hd] at hy; cases hy
          · have hcy : c ∈ ys := by
              rcases List.mem_cons.mp hcx with e | e
              · exact absurd e.symm hyc
              · exact e
            -- skip two characters: use the induction hypothesis on `y :: ys` unfolded once
            by_cases hyu : y = '_'
            · subst hyu; rw [hu] at hy; cases hy
            · have h2 := ih (acc := acc) hcx
              rw [digitsGo_cons b dg acc y ys hyu, hy] at h2
              -- h2 : digitsGo … (acc * b + v) ys = none, for this acc
              exact h2
    · rw [digitsGo_cons b dg acc x xs hx]
      by_cases hxc : x = c
      · subst hxc; rw [hd]
      · have hcx : c ∈ xs := by
          rcases List.mem_cons.mp hc with e | e
          · exact absurd e.symm hxc
          · exact e
        cases dg x with
        | none => rfl
        | some v => exact ih _ hcx

theorem decDigit_under : decDigit '_' = none := by decide
theorem hexVal_under : hexVal '_' = none := by decide

theorem decDigit_some_of_isDigit {c : Char} (h : isDigit c = true) : (decDigit c).isSome = true := by
  simp [decDigit, h]

def signStr (neg : Bool) : Str := if neg then ['-'] else []

/-- value of a digit string in base `b` -/
def valOf (b : Nat) (dg : Char → Option Nat) (cs : Str) : Nat :=
  cs.foldl (fun a c => a * b + (dg c).getD 0) 0

theorem parseDigits_all (b : Nat) (dg : Char → Option Nat) (cs : Str) (hne : cs ≠ [])
    (h : ∀ c ∈ cs, (dg c).isSome = true) (hu : dg '_' = none) :
    parseDigits b dg cs = some (valOf b dg cs) := by
  cases cs with
  | nil => exact absurd rfl hne
  | cons c cs =>
    have hc : (dg c).isSome = true := h c (by simp)
    unfold parseDigits valOf
    cases hd : dg c with
    | none => rw [hd] at hc; cases hc
    | some v =>
      simp only [List.foldl_cons, hd, Option.getD_some]
      rw [digitsGo_all b dg cs v (fun x hx => h x (by simp [hx])) hu]
      simp

theorem parseDigits_bad (b : Nat) (dg : Char → Option Nat) (cs : Str) (c : Char)
    (hc : c ∈ cs) (hd : dg c = none) (hne : c ≠ '_') (hu : dg '_' = none) :
    parseDigits b dg cs = none := by
  cases cs with
  | nil => rfl
  | cons x xs =>
    simp only [parseDigits]
    by_cases hxc : x = c
    · subst hxc; rw [hd]
    · have hcx : c ∈ xs := by
        rcases List.mem_cons.mp hc with e | e
        · exact absurd e.symm hxc
        · exact e
      cases hdx : dg x with
      | none => rfl
      | some v => exact digitsGo_bad b dg xs v c hcx hd hne hu

theorem splitSign_signStr (neg : Bool) (cs : Str)
    (h : ∀ x xs, cs = x :: xs → x ≠ '-' ∧ x ≠ '+') :
    splitSign (signStr neg ++ cs) = (neg, cs) := by
  cases neg with
  | true => simp [signStr, splitSign]
  | false =>
    simp only [signStr, Bool.false_eq_true, if_false, List.nil_append]
    cases cs with
    | nil => rfl
    | cons x xs =>
      obtain ⟨h1, h2⟩ := h x xs rfl
      unfold splitSign
      split
      · rename_i heq; injection heq with e _; exact absurd e h1
      · rename_i heq; injection heq with e _; exact absurd e h2
      · rfl

theorem isDigit_not_sign {c : Char} (h : isDigit c = true) : c ≠ '-' ∧ c ≠ '+' := by
  constructor <;> (intro e; subst e; simp [isDigit] at h)

/-- **decimal integers**: optional `-`, one or more digits (leading zeros allowed) -/
theorem parseNumber_dec (key : Str) (neg : Bool) (cs : Str) (hne : cs ≠ [])
    (h : ∀ c ∈ cs, isDigit c = true) :
    parseNumber key (signStr neg ++ cs) = .pair key (.int (applySign neg (valOf 10 decDigit cs))) := by
  unfold parseNumber pyInt
  rw [splitSign_signStr neg cs (fun x xs e => isDigit_not_sign (h x (by simp [e])))]
  simp only
  rw [parseDigits_all 10 decDigit cs hne (fun c hc => decDigit_some_of_isDigit (h c hc)) decDigit_under]
  simp

/-- **`0x` hexadecimal integers**: optional `-`, `0x` or `0X`, one or more hex digits of either case -/
theorem parseNumber_hex (key : Str) (neg : Bool) (x : Char) (cs : Str) (hx : x = 'x' ∨ x = 'X')
    (hne : cs ≠ []) (h : ∀ c ∈ cs, (hexVal c).isSome = true) :
    parseNumber key (signStr neg ++ '0' :: x :: cs) =
      .pair key (.int (applySign neg (valOf 16 hexVal cs))) := by
  have hsplit : splitSign (signStr neg ++ '0' :: x :: cs) = (neg, '0' :: x :: cs) :=
    splitSign_signStr neg _ (fun y ys e => by
      injection e with e1 _; subst e1; exact ⟨by decide, by decide⟩)
  have hxd : decDigit x = none := by rcases hx with rfl | rfl <;> decide
  have hxu : x ≠ '_' := by rcases hx with rfl | rfl <;> decide
  have hint : pyInt (signStr neg ++ '0' :: x :: cs) = none := by
    unfold pyInt
    rw [hsplit]
    simp only
    rw [parseDigits_bad 10 decDigit ('0' :: x :: cs) x (by simp) hxd hxu decDigit_under]
    rfl
  have hdrop : dropHexPrefix ('0' :: x :: cs) = cs := by
    cases cs with
    | nil => exact absurd rfl hne
    | cons c cs' =>
      have hc : c ≠ '_' := by
        intro e; subst e
        have := h '_' (by simp)
        rw [hexVal_under] at this; cases this
      rcases hx with rfl | rfl
      · unfold dropHexPrefix
        split
        · rename_i heq; injection heq with _ heq; injection heq with _ heq; injection heq with e _
          exact absurd e hc
        · rename_i heq; injection heq with _ heq; injection heq with e _; cases e
        · rename_i heq; injection heq with _ heq; injection heq with _ heq; exact heq.symm
        · rename_i heq; injection heq with _ heq; injection heq with e _; cases e
        · rename_i h1 h2 h3 h4; exact absurd rfl (h3 (c :: cs'))
      · unfold dropHexPrefix
        split
        · rename_i heq; injection heq with _ heq; injection heq with e _; cases e
        · rename_i heq; injection heq with _ heq; injection heq with _ heq; injection heq with e _
          exact absurd e hc
        · rename_i heq; injection heq with _ heq; injection heq with e _; cases e
        · rename_i heq; injection heq with _ heq; injection heq with _ heq; exact heq.symm
        · rename_i h1 h2 h3 h4; exact absurd rfl (h4 (c :: cs'))
  unfold parseNumber
  rw [hint]
  simp only
  unfold pyIntHex
  rw [hsplit]
  simp only
  rw [hdrop, parseDigits_all 16 hexVal cs hne h hexVal_under]
  simp

theorem mem_dropHexPrefix (r : Str) (c : Char) (hc : c ∈ r) (h0 : c ≠ '0') (h1 : c ≠ 'x')
    (h2 : c ≠ 'X') (h3 : c ≠ '_') : c ∈ dropHexPrefix r := by
  unfold dropHexPrefix
  split
  all_goals first
    | exact hc
    | (simp only [List.mem_cons] at hc
       rcases hc with e | e | e | e
       · exact absurd e h0
       · first | exact absurd e h1 | exact absurd e h2
       · exact absurd e h3
       · exact e)
    | (simp only [List.mem_cons] at hc
       rcases hc with e | e | e
       · exact absurd e h0
       · first | exact absurd e h1 | exact absurd e h2
       · exact e)

/-- **floats**: a token with a character no integer syntax admits (`.`, or the sign of an exponent)
    that CPython's `float()` accepts is returned as that float lexeme; one that `float()` rejects
    raises the parse error -/
theorem parseNumber_float (key v : Str) (c : Char) (hc : c ∈ (splitSign v).2)
    (hx : hexVal c = none) (h1 : c ≠ '_') (h2 : c ≠ 'x') (h3 : c ≠ 'X') :
    parseNumber key v = if pyFloatOk v then .pair key (.floatLex v) else .parseError := by
  have hdig : isDigit c = false := by
    cases hd : isDigit c with
    | false => rfl
    | true => simp [hexVal, hd] at hx
  have hdec : decDigit c = none := by simp [decDigit, hdig]
  have h0 : c ≠ '0' := by intro e; subst e; simp [isDigit] at hdig
  have hint : pyInt v = none := by
    unfold pyInt
    rw [parseDigits_bad 10 decDigit _ c hc hdec h1 decDigit_under]; rfl
  have hhex : pyIntHex v = none := by
    unfold pyIntHex
    rw [parseDigits_bad 16 hexVal _ c (mem_dropHexPrefix _ c hc h0 h2 h3 h1) hx h1 hexVal_under]; rfl
  unfold parseNumber
  rw [hint]; simp only
  rw [hhex]

theorem mem_splitSign (v : Str) (c : Char) (hc : c ∈ v) (h1 : c ≠ '-') (h2 : c ≠ '+') :
    c ∈ (splitSign v).2 := by
  unfold splitSign
  split
  · simp only [List.mem_cons] at hc
    rcases hc with e | e
    · exact absurd e h1
    · exact e
  · simp only [List.mem_cons] at hc
    rcases hc with e | e
    · exact absurd e h2
    · exact e
  · exact hc

/-- a token containing a decimal point is never taken for an integer -/
theorem parseNumber_point (key v : Str) (hp : '.' ∈ v) :
    parseNumber key v = if pyFloatOk v then .pair key (.floatLex v) else .parseError :=
  parseNumber_float key v '.' (mem_splitSign v '.' hp (by decide) (by decide)) (by decide)
    (by decide) (by decide) (by decide)

/-- non-vacuity: concrete tokens meeting the hypotheses -/
example : pyFloatOk "-1.5e-3".toList = true ∧ '.' ∈ "-1.5e-3".toList := by decide
example : NoWsEnds "sSliceArray.asSlice[0].dThickness".toList := by
  refine ⟨?_, ?_⟩ <;> (intro x xs h; simp at h; rw [← h.1]; decide)

/-! ### the whole protocol -/

/-- what one line contributes to the dictionary -/
def applyLine (d : Str) (acc : List (Str × PVal)) (l : Str) : List (Str × PVal) :=
  match parseLine d l with
  | .pair k v => setKey acc k v
  | _ => acc

/-- **every assignment is recovered, in order, later duplicates overwriting earlier ones; blank and
    comment lines contribute nothing** -/
theorem protLoop_ok (d : Str) (ls : List Str) (acc : List (Str × PVal))
    (h : ∀ l ∈ ls, parseLine d l ≠ .parseError) :
    protLoop d ls acc = .ok (ls.foldl (applyLine d) acc) := by
  induction ls generalizing acc with
  | nil => rfl
  | cons l ls ih =>
    have hl := h l (by simp)
    have hls : ∀ x ∈ ls, parseLine d x ≠ .parseError := fun x hx => h x (by simp [hx])
    simp only [protLoop, List.foldl_cons, applyLine]
    cases hp : parseLine d l with
    | parseError => exact absurd hp hl
    | none => exact ih _ hls
    | pair k v => exact ih _ hls

/-- lines joined with a newline after each -/
def joinNl : List Str → Str
  | [] => []
  | l :: ls => l ++ '\n' :: joinNl ls

theorem splitLines_noNl (l : Str) (h : '\n' ∉ l) : splitLines l = [l] := by
  induction l with
  | nil => rfl
  | cons c cs ih =>
    have hc : c ≠ '\n' := fun e => h (by simp [e])
    have hcs : '\n' ∉ cs := fun e => h (by simp [e])
    simp [splitLines, ih hcs, hc]

theorem splitLines_append (l rest : Str) (h : '\n' ∉ l) :
    splitLines (l ++ '\n' :: rest) = l :: splitLines rest := by
  induction l with
  | nil =>
    simp only [List.nil_append, splitLines]
    cases hr : splitLines rest with
    | nil =>
      -- splitLines never returns the empty list
      exfalso
      cases rest with
      | nil => simp [splitLines] at hr
      | cons c cs =>
        simp only [splitLines] at hr
        split at hr <;> (try split at hr) <;> simp at hr
    | cons a as => simp
  | cons c cs ih =>
    have hc : c ≠ '\n' := fun e => h (by simp [e])
    have hcs : '\n' ∉ cs := fun e => h (by simp [e])
    simp only [List.cons_append, splitLines, ih hcs, hc, if_false]

theorem splitLines_joinNl (ls : List Str) (h : ∀ l ∈ ls, '\n' ∉ l) :
    splitLines (joinNl ls) = ls ++ [[]] := by
  induction ls with
  | nil => rfl
  | cons l ls ih =>
    simp only [joinNl]
    rw [splitLines_append l _ (h l (by simp)), ih (fun x hx => h x (by simp [hx]))]
    rfl

/-! ### locating the markers -/

theorem findSub_skip_head (c : Char) (t H X : Str) (hH : c ∉ H) :
    findSub (c :: t) (H ++ X) = (findSub (c :: t) X).map (· + H.length) := by
  induction H with
  | nil => simp
  | cons x xs ih =>
    have hx : x ≠ c := fun e => hH (by simp [e])
    have hxs : c ∉ xs := fun e => hH (by simp [e])
    have hp : (c :: t).isPrefixOf (x :: (xs ++ X)) = false := by
      simp [List.isPrefixOf, Ne.symm hx]
    simp only [List.cons_append, findSub, hp, ih hxs]
    cases findSub (c :: t) X with
    | none => rfl
    | some i => simp; omega

theorem findSub_prefix_self (c : Char) (t X : Str) : findSub (c :: t) ((c :: t) ++ X) = some 0 := by
  have : (c :: t).isPrefixOf ((c :: t) ++ X) = true := by
    rw [List.isPrefixOf_iff_prefix]; exact List.prefix_append _ _
  simp only [List.cons_append] at this ⊢
  simp [findSub, this]

theorem findSub_none_cons (sub : Str) (x : Char) (xs : Str) (h : findSub sub (x :: xs) = none) :
    sub.isPrefixOf (x :: xs) = false ∧ findSub sub xs = none := by
  simp only [findSub] at h
  by_cases hp : sub.isPrefixOf (x :: xs) = true
  · simp [hp] at h
  · simp only [hp] at h
    refine ⟨by cases hq : sub.isPrefixOf (x :: xs) with
      | false => rfl
      | true => exact absurd hq hp, ?_⟩
    cases hf : findSub sub xs with
    | none => rfl
    | some i => rw [hf] at h; simp at h

/-- the first occurrence of `sub` in `A ++ sub ++ B` is at `|A|` when `sub` does not occur in `A`
    and `A` ends with a character `sub` does not contain -/
theorem findSub_after (c : Char) (t A B : Str) (hA : findSub (c :: t) A = none)
    (hlast : ∀ z, A.getLast? = some z → z ∉ c :: t) :
    findSub (c :: t) (A ++ (c :: t) ++ B) = some A.length := by
  induction A with
  | nil => simpa using findSub_prefix_self c t B
  | cons x xs ih =>
    obtain ⟨hp, hxs⟩ := findSub_none_cons _ x xs hA
    have hnp : (c :: t).isPrefixOf (x :: xs ++ (c :: t) ++ B) = false := by
      cases hq : (c :: t).isPrefixOf (x :: xs ++ (c :: t) ++ B) with
      | false => rfl
      | true =>
        exfalso
        have h1 : (c :: t) <+: (x :: xs) ++ ((c :: t) ++ B) := by
          have := List.isPrefixOf_iff_prefix.mp hq
          simpa [List.append_assoc] using this
        have h2 : (x :: xs) <+: (x :: xs) ++ ((c :: t) ++ B) := List.prefix_append _ _
        by_cases hle : (c :: t).length ≤ (x :: xs).length
        · have := List.prefix_of_prefix_length_le h1 h2 hle
          rw [← List.isPrefixOf_iff_prefix] at this
          rw [this] at hp; cases hp
        · have h3 : (x :: xs) <+: (c :: t) :=
            List.prefix_of_prefix_length_le h2 h1 (by omega)
          -- the last character of x :: xs then occurs in c :: t
          have hne : (x :: xs) ≠ [] := by simp
          have hl := hlast ((x :: xs).getLast hne) (List.getLast?_eq_some_getLast hne)
          exact hl (h3.subset (List.getLast_mem hne))
    simp only [List.cons_append, List.append_assoc] at hnp ⊢
    simp only [findSub, hnp]
    have hlast' : ∀ z, xs.getLast? = some z → z ∉ c :: t := by
      intro z hz
      apply hlast z
      cases xs with
      | nil => simp at hz
      | cons y ys => simpa [List.getLast?_cons_cons] using hz
    have := ih hxs hlast'
    simp only [List.append_assoc, List.cons_append] at this
    simp [this]

def BEGIN : Str := "### ASCCONV BEGIN ".toList
def END : Str := "### ASCCONV END ###".toList

theorem joinNl_last (x : Str) (ls : List Str) : (x ++ '\n' :: joinNl ls).getLast? = some '\n' := by
  induction ls generalizing x with
  | nil => simp [joinNl]
  | cons l ls ih =>
    have := ih (x ++ '\n' :: l)
    simpa [joinNl, List.append_assoc] using this

theorem dropLast_append_singleton {β : Type} (l : List β) (a : β) : dropLast (l ++ [a]) = l := by
  unfold dropLast
  simp

/-- the lines `parse_phoenix_prot` hands to the line parser for a protocol text laid out as
    `head  ### ASCCONV BEGIN <rest of line>\n  line\n … line\n  ### ASCCONV END ###  trailer` -/
theorem parseProt_layout (key : Str) (d : Str)
    (hkey : (key = "MrPhoenixProtocol".toList ∧ d = ['"', '"']) ∨
            (key = "MrProtocol".toList ∧ d = ['"']))
    (head br trailer : Str) (lines : List Str)
    (hh : '#' ∉ head) (hbr : '\n' ∉ br) (hl : ∀ l ∈ lines, '\n' ∉ l)
    (hend : findSub END (BEGIN ++ br ++ '\n' :: joinNl lines) = none) :
    parseProt key (head ++ (BEGIN ++ br ++ '\n' :: joinNl lines) ++ END ++ trailer) =
      protLoop d lines [] := by
  have hEND : END = '#' :: "## ASCCONV END ###".toList := rfl
  have hBEGIN : BEGIN = '#' :: "## ASCCONV BEGIN ".toList := rfl
  -- position of the BEGIN marker
  have hs : findSub BEGIN (head ++ (BEGIN ++ br ++ '\n' :: joinNl lines) ++ END ++ trailer) =
      some head.length := by
    rw [show head ++ (BEGIN ++ br ++ '\n' :: joinNl lines) ++ END ++ trailer =
        head ++ (BEGIN ++ (br ++ '\n' :: joinNl lines ++ END ++ trailer)) by simp]
    rw [hBEGIN, findSub_skip_head '#' _ head _ hh, findSub_prefix_self]
    simp
  -- position of the END marker
  have he : findSub END (head ++ (BEGIN ++ br ++ '\n' :: joinNl lines) ++ END ++ trailer) =
      some (head.length + (BEGIN ++ br ++ '\n' :: joinNl lines).length) := by
    rw [show head ++ (BEGIN ++ br ++ '\n' :: joinNl lines) ++ END ++ trailer =
        head ++ ((BEGIN ++ br ++ '\n' :: joinNl lines) ++ END ++ trailer) by simp]
    rw [hEND, findSub_skip_head '#' _ head _ hh]
    rw [← hEND]
    have hlast : ∀ z, (BEGIN ++ br ++ '\n' :: joinNl lines).getLast? = some z → z ∉ END := by
      intro z hz
      rw [joinNl_last (BEGIN ++ br) lines] at hz
      injection hz with hz; subst hz
      decide
    have := findSub_after '#' "## ASCCONV END ###".toList (BEGIN ++ br ++ '\n' :: joinNl lines) trailer
      (by rw [← hEND]; exact hend) (by rw [← hEND]; exact hlast)
    rw [← hEND] at this
    rw [this]; simp; omega
  -- the slice between the markers
  have hslice : pySlice (head.length : Int)
      ((head.length + (BEGIN ++ br ++ '\n' :: joinNl lines).length : Nat) : Int)
      (head ++ (BEGIN ++ br ++ '\n' :: joinNl lines) ++ END ++ trailer) =
      BEGIN ++ br ++ '\n' :: joinNl lines := by
    unfold pySlice pyBound
    have h1 : ¬ ((head.length : Int) < 0) := by omega
    have h2 : ¬ (((head.length + (BEGIN ++ br ++ '\n' :: joinNl lines).length : Nat) : Int) < 0) := by omega
    simp only [h1, h2, if_false, Int.toNat_natCast]
    have hlen : (head ++ (BEGIN ++ br ++ '\n' :: joinNl lines) ++ END ++ trailer).length =
        head.length + (BEGIN ++ br ++ '\n' :: joinNl lines).length + END.length + trailer.length := by
      simp only [List.length_append]
    rw [Nat.min_eq_left (by rw [hlen]; omega), Nat.min_eq_left (by rw [hlen]; omega)]
    rw [show head ++ (BEGIN ++ br ++ '\n' :: joinNl lines) ++ END ++ trailer =
        (head ++ (BEGIN ++ br ++ '\n' :: joinNl lines)) ++ (END ++ trailer) by simp]
    rw [show head.length + (BEGIN ++ br ++ '\n' :: joinNl lines).length =
        (head ++ (BEGIN ++ br ++ '\n' :: joinNl lines)).length by simp]
    rw [List.take_left, List.drop_left]
  have hsplit : splitLines (BEGIN ++ br ++ '\n' :: joinNl lines) = (BEGIN ++ br) :: (lines ++ [[]]) := by
    rw [splitLines_append (BEGIN ++ br) _ (by
      intro hm
      rcases List.mem_append.mp hm with h | h
      · revert h; decide
      · exact hbr h), splitLines_joinNl lines hl]
  unfold parseProt
  have hd : (if key = "MrPhoenixProtocol".toList then some ['"', '"']
      else if key = "MrProtocol".toList then some ['"'] else none) = some d := by
    rcases hkey with ⟨rfl, rfl⟩ | ⟨rfl, rfl⟩
    · simp
    · simp
  simp only [hd]
  unfold findI
  rw [show "### ASCCONV BEGIN ".toList = BEGIN from rfl, show "### ASCCONV END ###".toList = END from rfl]
  rw [hs, he]
  simp only
  rw [hslice, hsplit]
  simp only [List.drop_succ_cons, List.drop_zero]
  rw [dropLast_append_singleton]

/-- **the whole protocol**: every line between the markers is parsed, in order; the result is the
    dictionary built from the assignments (or the parse error of the first malformed line, by
    `protLoop_error`) -/
theorem parseProt_render (key : Str) (d : Str)
    (hkey : (key = "MrPhoenixProtocol".toList ∧ d = ['"', '"']) ∨
            (key = "MrProtocol".toList ∧ d = ['"']))
    (head br trailer : Str) (lines : List Str)
    (hh : '#' ∉ head) (hbr : '\n' ∉ br) (hl : ∀ l ∈ lines, '\n' ∉ l)
    (hend : findSub END (BEGIN ++ br ++ '\n' :: joinNl lines) = none)
    (hok : ∀ l ∈ lines, parseLine d l ≠ .parseError) :
    parseProt key (head ++ (BEGIN ++ br ++ '\n' :: joinNl lines) ++ END ++ trailer) =
      .ok (lines.foldl (applyLine d) []) := by
  rw [parseProt_layout key d hkey head br trailer lines hh hbr hl hend, protLoop_ok d lines [] hok]

/-- non-vacuity: a concrete protocol meeting every hypothesis -/
example :
    let lines := ["a = 1".toList, "# c".toList, "b = \"\"x#y\"\" # d".toList]
    '#' ∉ "<XProtocol>\n".toList ∧ '\n' ∉ "###".toList ∧ (∀ l ∈ lines, '\n' ∉ l) ∧
    findSub END (BEGIN ++ "###".toList ++ '\n' :: joinNl lines) = none ∧
    (∀ l ∈ lines, parseLine ['"', '"'] l ≠ .parseError) ∧
    lines.foldl (applyLine ['"', '"']) [] =
      [("a".toList, .int 1), ("b".toList, .str "x#y".toList)] := by
  decide

end Phx
