import DcmVerif.Generated.Code_insertall
import DcmVerif.Proofs.Code_content
import DcmVerif.Proofs.Code_insert
import DcmVerif.Proofs.Total
/-! `DcmMetaExtension._insert` as a whole (translated from dcmmeta.py): what it does to `other` (nothing, whatever happens in
between) and what it does to `self`, key by key. -/
set_option autoImplicit false
set_option linter.unusedSimpArgs false
set_option linter.unusedVariables false
open Cls

namespace Src
variable {α κ : Type} [DecidableEq κ]

/-! ### lookups after writes in an association-list dictionary -/

theorem dictGet_dictSet_self {κ' β : Type} [DecidableEq κ'] [Inhabited β] : ∀ (d : List (κ' × β)) (k : κ') (v : β),
    dictGet (dictSet d k v) k = v
  | [], k, v => by simp [dictSet, dictGet, List.find?]
  | a :: d, k, v => by
    have ih := dictGet_dictSet_self d k v
    unfold dictSet at ih ⊢
    by_cases ha : a.1 = k
    · simp [dictGet, List.find?, ha]
    · have ha' : (a.1 == k) = false := by simpa using ha
      by_cases hany : (d.any fun p => p.1 == k) = true
      · simp only [List.any_cons, ha', Bool.false_or, hany, if_true, List.map_cons, Bool.false_eq_true, if_false] at ih ⊢
        simpa [dictGet, List.find?, ha'] using ih
      · simp only [List.any_cons, ha', Bool.false_or, hany, if_false, List.cons_append] at ih ⊢
        simpa [dictGet, List.find?, ha'] using ih

theorem dictGet_dictSet_other {κ' β : Type} [DecidableEq κ'] [Inhabited β] : ∀ (d : List (κ' × β)) (k k' : κ') (v : β), k' ≠ k →
    dictGet (dictSet d k v) k' = dictGet d k'
  | [], k, k', v, hne => by
    have : (k == k') = false := by simpa using fun e => hne e.symm
    simp [dictSet, dictGet, List.find?, this]
  | a :: d, k, k', v, hne => by
    have ih := dictGet_dictSet_other d k k' v hne
    unfold dictSet at ih ⊢
    have hk : (k == k') = false := by simpa using fun e => hne e.symm
    by_cases ha : a.1 = k
    · have ha' : (a.1 == k) = true := by simpa using ha
      have hak' : (a.1 == k') = false := by rw [ha]; exact hk
      by_cases hany : (d.any fun p => p.1 == k) = true
      · simp only [List.any_cons, ha', Bool.true_or, if_true, List.map_cons, hany] at ih ⊢
        simpa [dictGet, List.find?, hk, hak'] using ih
      · simp only [List.any_cons, ha', Bool.true_or, if_true, List.map_cons, hany, Bool.false_eq_true, if_false] at ih ⊢
        have hmap : (d.map fun p => if (p.1 == k) = true then (k, v) else p) = d := by
          conv => rhs; rw [← List.map_id d]
          apply List.map_congr_left
          intro p hp
          have : (p.1 == k) = false := by
            cases h : (p.1 == k) with
            | false => rfl
            | true => exact absurd (List.any_eq_true.mpr ⟨p, hp, h⟩) hany
          simp [this]
        rw [hmap]
        simp [dictGet, List.find?, hk, hak']
    · have ha' : (a.1 == k) = false := by simpa using ha
      by_cases hany : (d.any fun p => p.1 == k) = true
      · simp only [List.any_cons, ha', Bool.false_or, hany, if_true, List.map_cons, Bool.false_eq_true, if_false] at ih ⊢
        by_cases hak' : (a.1 == k') = true
        · simp [dictGet, List.find?, hak']
        · have hak'' : (a.1 == k') = false := by simpa using hak'
          simpa [dictGet, List.find?, hak''] using ih
      · simp only [List.any_cons, ha', Bool.false_or, hany, if_false, List.cons_append] at ih ⊢
        by_cases hak' : (a.1 == k') = true
        · simp [dictGet, List.find?, hak']
        · have hak'' : (a.1 == k') = false := by simpa using hak'
          simpa [dictGet, List.find?, hak''] using ih

/-! ### putting the per-slice dictionaries of `other` aside and back -/

/-- the dictionaries of the per-slice classifications among `l` replaced by what `g` says -/
def setSlices (l : List Cls) (g : Cls → List (κ × List α)) (content : Content κ α) : Content κ α :=
  content.map fun p => if p.1 ∈ l ∧ p.1.sub = "slices" then (p.1, g p.1) else p

theorem setSlices_keys (l : List Cls) (g : Cls → List (κ × List α)) (content : Content κ α) :
    (setSlices l g content).map (·.1) = content.map (·.1) := by
  unfold setSlices
  rw [List.map_map]
  apply List.map_congr_left
  intro p _
  by_cases e : p.1 ∈ l ∧ p.1.sub = "slices" <;> simp [e]

theorem dictSet_present (content : Content κ α) (c : Cls) (hc : c ∈ content.map (·.1)) (v : List (κ × List α)) :
    dictSet content c v = content.map fun p => if p.1 = c then (p.1, v) else p := by
  unfold dictSet
  have hc' : (content.any fun p => p.1 == c) = true := dictHas_of_mem content c hc
  rw [if_pos hc']
  apply List.map_congr_left
  intro p _
  by_cases e : p.1 = c <;> simp [e]

theorem set_loop (g : Cls → List (κ × List α)) : ∀ (l : List Cls) (content : Content κ α), (∀ c ∈ l, c ∈ content.map (·.1)) →
    (forIn (m := Except PyErr) l content fun (classes : Cls) (r : Content κ α) =>
        if (classes.sub == "slices") = true then pure (ForInStep.yield (dictSet r classes (g classes)))
        else pure (ForInStep.yield r)) =
      .ok (setSlices l g content)
  | [], content, _ => by
    simp only [List.forIn_nil, setSlices]
    show Except.ok content = _
    congr 1
    conv => lhs; rw [← List.map_id content]
    apply List.map_congr_left
    intro p _
    simp
  | c :: l, content, hl => by
    rw [List.forIn_cons]
    have hc := hl c (List.mem_cons_self ..)
    by_cases hs : c.sub = "slices"
    · have hs' : (c.sub == "slices") = true := by simpa using hs
      rw [if_pos hs']
      simp only [pure_bind]
      rw [dictSet_present content c hc]
      have hkeys : (content.map fun p => if p.1 = c then (p.1, g c) else p).map (·.1) = content.map (·.1) := by
        rw [List.map_map]
        apply List.map_congr_left
        intro p _
        by_cases e : p.1 = c <;> simp [e]
      rw [set_loop g l _ (by rw [hkeys]; exact fun c' hc' => hl c' (List.mem_cons_of_mem _ hc'))]
      unfold setSlices
      rw [List.map_map]
      congr 1
      apply List.map_congr_left
      intro p _
      by_cases e : p.1 = c
      · by_cases m : c ∈ l <;> simp [e, m, hs]
      · by_cases m : p.1 ∈ l <;> simp [e, m]
    · have hs' : ¬ (c.sub == "slices") = true := by simpa using hs
      rw [if_neg hs']
      simp only [pure_bind]
      rw [set_loop g l content (fun c' hc' => hl c' (List.mem_cons_of_mem _ hc'))]
      unfold setSlices
      congr 1
      apply List.map_congr_left
      intro p _
      by_cases e : p.1 = c
      · by_cases m : c ∈ l <;> simp [e, m, hs]
      · by_cases m : p.1 ∈ l <;> simp [e, m]

/-- the loop that puts the per-slice dictionaries aside: the content with those dictionaries emptied, and a store that holds,
    for every per-slice classification among `l`, the dictionary the content had -/
theorem aside_loop : ∀ (l : List Cls) (content saved : Content κ α), l.Nodup → (∀ c ∈ l, c ∈ content.map (·.1)) →
    ∃ saved' : Content κ α,
      (forIn (m := Except PyErr) l (content, saved) fun (classes : Cls) (__s : Content κ α × Content κ α) =>
          if (classes.sub == "slices") = true then
            pure (ForInStep.yield (dictSet __s.fst classes [], dictSet __s.snd classes (dictGet __s.fst classes)))
          else pure (ForInStep.yield (__s.fst, __s.snd))) =
        .ok (setSlices l (fun _ => []) content, saved') ∧
      (∀ c, c ∈ l → c.sub = "slices" → dictGet saved' c = dictGet content c) ∧
      (∀ c, c ∉ l → dictGet saved' c = dictGet saved c)
  | [], content, saved, _, _ => by
    refine ⟨saved, ?_, by simp, fun _ _ => rfl⟩
    simp only [List.forIn_nil, setSlices]
    show Except.ok (content, saved) = _
    congr 2
    conv => lhs; rw [← List.map_id content]
    apply List.map_congr_left
    intro p _
    simp
  | c :: l, content, saved, hnd, hl => by
    rw [List.nodup_cons] at hnd
    have hc := hl c (List.mem_cons_self ..)
    by_cases hs : c.sub = "slices"
    · have hs' : (c.sub == "slices") = true := by simpa using hs
      have hkeys : (dictSet content c ([] : List (κ × List α))).map (·.1) = content.map (·.1) := by
        rw [dictSet_present content c hc, List.map_map]
        apply List.map_congr_left
        intro p _
        by_cases e : p.1 = c <;> simp [e]
      obtain ⟨s', h1, h2, h3⟩ := aside_loop l (dictSet content c []) (dictSet saved c (dictGet content c)) hnd.2
        (by rw [hkeys]; exact fun c' hc' => hl c' (List.mem_cons_of_mem _ hc'))
      refine ⟨s', ?_, ?_, ?_⟩
      · rw [List.forIn_cons, if_pos hs']
        simp only [pure_bind]
        rw [h1, dictSet_present content c hc]
        unfold setSlices
        rw [List.map_map]
        congr 2
        apply List.map_congr_left
        intro p _
        by_cases e : p.1 = c
        · by_cases m : c ∈ l <;> simp [e, m, hs]
        · by_cases m : p.1 ∈ l <;> simp [e, m]
      · intro c' hc' hs''
        rcases List.mem_cons.mp hc' with rfl | hm
        · rw [h3 _ hnd.1, dictGet_dictSet_self]
        · have hne : c' ≠ c := fun e => hnd.1 (e ▸ hm)
          rw [h2 c' hm hs'', dictGet_dictSet_other _ _ _ _ hne]
      · intro c' hc'
        have hne : c' ≠ c := fun e => hc' (e ▸ List.mem_cons_self ..)
        rw [h3 c' (fun hm => hc' (List.mem_cons_of_mem _ hm)), dictGet_dictSet_other _ _ _ _ hne]
    · have hs' : ¬ (c.sub == "slices") = true := by simpa using hs
      obtain ⟨s', h1, h2, h3⟩ := aside_loop l content saved hnd.2 (fun c' hc' => hl c' (List.mem_cons_of_mem _ hc'))
      refine ⟨s', ?_, ?_, ?_⟩
      · rw [List.forIn_cons, if_neg hs']
        simp only [pure_bind]
        rw [h1]
        unfold setSlices
        congr 2
        apply List.map_congr_left
        intro p _
        by_cases e : p.1 = c
        · by_cases m : c ∈ l <;> simp [e, m, hs]
        · by_cases m : p.1 ∈ l <;> simp [e, m]
      · intro c' hc' hs''
        rcases List.mem_cons.mp hc' with rfl | hm
        · exact absurd hs'' hs
        · exact h2 c' hm hs''
      · intro c' hc'
        exact h3 c' (fun hm => hc' (List.mem_cons_of_mem _ hm))

/-- putting back what was put aside gives the content there was -/
theorem back_after_aside (l : List Cls) (content saved' : Content κ α) (hn : (content.map (·.1)).Nodup)
    (h2 : ∀ c, c ∈ l → c.sub = "slices" → dictGet saved' c = dictGet content c) :
    setSlices l (fun c => dictGet saved' c) (setSlices l (fun _ => []) content) = content := by
  unfold setSlices
  rw [List.map_map]
  conv => rhs; rw [← List.map_id content]
  apply List.map_congr_left
  intro p hp
  by_cases e : p.1 ∈ l ∧ p.1.sub = "slices"
  · have : dictGet saved' p.1 = p.2 := by rw [h2 p.1 e.1 e.2]; exact dictGet_mem content hn p hp
    simp [e, this]
  · simp [e]

/-- **`_insert` as written in dcmmeta.py leaves `other` as it found it** — whether the slice meta data is used or put aside,
    and whether the `try` block ends normally or with an exception; what it does to `self` is the `try` block run against `other`
    with its per-slice dictionaries emptied when the slice normals differ -/
theorem insert_whole_eq [DecidableEq α] (null : α) (ss : List Nat) (sn sd : Option Nat) (bases : List String) (kc0 : KContent κ α)
    (os : List Nat) (on : Option Nat) (other0 : Content κ α) (use : Bool) (dim : Nat) (valid : List Cls)
    (hv : Py.get_valid_classes os = .ok valid) (hnd : valid.Nodup) (hn : (other0.map (·.1)).Nodup)
    (hp : ∀ c ∈ valid, c ∈ other0.map (·.1)) :
    Py.insert_whole null ss sn sd bases kc0 os on other0 use dim =
      .ok (Py.insert_try null ss sn sd bases kc0 os on
            (if use then other0 else setSlices valid (fun _ => []) other0) dim, other0) := by
  unfold Py.insert_whole
  cases use with
  | true =>
    simp only [Bool.not_true, Bool.false_eq_true, if_false, if_true]
    rfl
  | false =>
    simp only [hv, ok_bind', bind_pure_comp, Bool.not_false, if_true, Bool.false_eq_true, if_false]
    obtain ⟨s', h1, h2, _⟩ := aside_loop valid other0 [] hnd hp
    rw [h1]
    simp only [ok_bind']
    rw [set_loop (fun c => dictGet s' c) valid _ (by rw [setSlices_keys]; exact hp), back_after_aside valid other0 s' hn h2]
    rfl

theorem setSlices_toContent (o : DExt κ α) (h3 : 3 ≤ o.shape.length) (h5 : o.shape.length ≤ 5) :
    setSlices (validClasses o.shp) (fun _ => []) (toContent o) = toContent o.clearSliceMeta := by
  have h1 := clear_slice_meta_eq o.shape _ (get_valid_classes_eq o none h3 h5) (toContent o)
    (by rw [toContent_keys]; exact fun c hc => hc)
  have h2 := clear_slice_meta_model o h3 h5
  rw [h1] at h2
  exact Except.ok.inj h2

/-- **`_insert` on the dictionaries of a model extension**: `other` is left as it was, and `self` sees `other` without its
    per-slice entries (`clearSliceMeta`) when the slice normals differ — the `effKey` of the model's `mergeKey` -/
theorem insert_whole_on_ext [DecidableEq α] (null : α) (ss : List Nat) (sn sd : Option Nat) (bases : List String) (kc0 : KContent κ α)
    (o : DExt κ α) (h3 : 3 ≤ o.shape.length) (h5 : o.shape.length ≤ 5) (on : Option Nat) (use : Bool) (dim : Nat) :
    Py.insert_whole null ss sn sd bases kc0 o.shape on (toContent o) use dim =
      .ok (Py.insert_try null ss sn sd bases kc0 o.shape on (toContent (if use then o else o.clearSliceMeta)) dim,
           toContent o) := by
  rw [insert_whole_eq null ss sn sd bases kc0 o.shape on (toContent o) use dim _ (get_valid_classes_eq o none h3 h5)
    (validClasses_nodup _) (by rw [toContent_keys]; exact validClasses_nodup _) (by rw [toContent_keys]; exact fun c hc => hc)]
  cases use with
  | true => rfl
  | false => simp only [Bool.false_eq_true, if_false]; rw [setSlices_toContent o h3 h5]

/-! ### the `try` block, key by key -/

section perkey
variable [DecidableEq α]

/-- one pass `for key in keys: self.<edit>(key)` over the per-key view: every listed key gets its own edit applied to its own
    entry, no other key moves -/
theorem pass_keys (f : κ → KeyDict α → Except PyErr (KeyDict α)) : ∀ (keys : List κ) (kc kc' : KContent κ α), keys.Nodup →
    (forIn (m := Except PyErr) keys kc fun (key : κ) (r : KContent κ α) =>
        (fun a => ForInStep.yield (r.set key a)) <$> f key (r.get key)) = .ok kc' →
    (∀ k, k ∈ keys → f k (kc.get k) = .ok (kc'.get k)) ∧ (∀ k, k ∉ keys → kc'.get k = kc.get k)
  | [], kc, kc', _, h => by
    have : kc' = kc := by
      have h' : (Except.ok kc : Except PyErr _) = .ok kc' := h
      exact (Except.ok.inj h').symm
    subst this
    exact ⟨by simp, fun _ _ => rfl⟩
  | key :: keys, kc, kc', hnd, h => by
    rw [List.nodup_cons] at hnd
    rw [List.forIn_cons] at h
    cases hf : f key (kc.get key) with
    | error e =>
      rw [hf] at h
      simp [Functor.map, Except.map, bind, Except.bind] at h
    | ok a =>
      rw [hf] at h
      have h' : (forIn (m := Except PyErr) keys (kc.set key a) fun (key : κ) (r : KContent κ α) =>
          (fun a => ForInStep.yield (r.set key a)) <$> f key (r.get key)) = .ok kc' := h
      obtain ⟨ih1, ih2⟩ := pass_keys f keys (kc.set key a) kc' hnd.2 h'
      constructor
      · intro k hk
        rcases List.mem_cons.mp hk with rfl | hm
        · rw [hf, ih2 _ hnd.1]
          show Except.ok a = Except.ok (dictGet (dictSet kc k a) k)
          rw [dictGet_dictSet_self]
        · have hne : k ≠ key := fun e => hnd.1 (e ▸ hm)
          have := ih1 k hm
          have hg : (kc.set key a).get k = kc.get k := dictGet_dictSet_other kc key k a hne
          rw [hg] at this
          exact this
      · intro k hk
        have hne : k ≠ key := fun e => hk (e ▸ List.mem_cons_self ..)
        rw [ih2 k (fun hm => hk (List.mem_cons_of_mem _ hm))]
        exact dictGet_dictSet_other kc key k a hne

/-- the two passes of one round of `_insert` over the same keys: each listed key gets the second edit applied to the result
    of the first -/
theorem two_passes (f g : κ → KeyDict α → Except PyErr (KeyDict α)) (keys : List κ) (kc kc' : KContent κ α) (hnd : keys.Nodup)
    (h : (do
      let r1 ← forIn (m := Except PyErr) keys kc fun (key : κ) (r : KContent κ α) =>
          (fun a => ForInStep.yield (r.set key a)) <$> f key (r.get key)
      forIn keys r1 fun (key : κ) (r : KContent κ α) =>
          (fun a => ForInStep.yield (r.set key a)) <$> g key (r.get key)) = .ok kc') :
    (∀ k, k ∈ keys → (f k (kc.get k) >>= g k) = .ok (kc'.get k)) ∧ (∀ k, k ∉ keys → kc'.get k = kc.get k) := by
  cases h1 : (forIn (m := Except PyErr) keys kc fun (key : κ) (r : KContent κ α) =>
          (fun a => ForInStep.yield (r.set key a)) <$> f key (r.get key)) with
  | error e =>
    rw [h1] at h
    simp [bind, Except.bind] at h
  | ok r1 =>
    rw [h1] at h
    have h2 : (forIn (m := Except PyErr) keys r1 fun (key : κ) (r : KContent κ α) =>
          (fun a => ForInStep.yield (r.set key a)) <$> g key (r.get key)) = .ok kc' := h
    obtain ⟨a1, a2⟩ := pass_keys f keys kc r1 hnd h1
    obtain ⟨b1, b2⟩ := pass_keys g keys r1 kc' hnd h2
    constructor
    · intro k hk
      rw [a1 k hk]
      exact b1 k hk
    · intro k hk
      rw [b2 k hk, a2 k hk]

/-- rounds over the classifications of `other`, with the keys each round visits: when no key is visited twice, every visited
    key gets the two edits of its round applied to the entry it had at the start, and no other key moves -/
theorem rounds (f g : Cls → κ → KeyDict α → Except PyErr (KeyDict α)) (keysOf : Cls → List κ)
    (body : Cls → KContent κ α → Except PyErr (ForInStep (KContent κ α)))
    (hb : ∀ c kc, body c kc = ForInStep.yield <$> (do
      let r1 ← forIn (m := Except PyErr) (keysOf c) kc fun (key : κ) (r : KContent κ α) =>
          (fun a => ForInStep.yield (r.set key a)) <$> f c key (r.get key)
      forIn (keysOf c) r1 fun (key : κ) (r : KContent κ α) =>
          (fun a => ForInStep.yield (r.set key a)) <$> g c key (r.get key))) :
    ∀ (l : List Cls) (kc kc' : KContent κ α), (l.flatMap keysOf).Nodup → forIn l kc body = .ok kc' →
      (∀ c k, c ∈ l → k ∈ keysOf c → (f c k (kc.get k) >>= g c k) = .ok (kc'.get k)) ∧
      (∀ k, (∀ c ∈ l, k ∉ keysOf c) → kc'.get k = kc.get k)
  | [], kc, kc', _, h => by
    have h' : (Except.ok kc : Except PyErr _) = .ok kc' := h
    have := Except.ok.inj h'
    subst this
    exact ⟨by simp, fun _ _ => rfl⟩
  | c :: l, kc, kc', hnd, h => by
    rw [List.flatMap_cons, List.nodup_append] at hnd
    obtain ⟨hn1, hn2, hdis⟩ := hnd
    rw [List.forIn_cons, hb] at h
    cases h1 : (do
      let r1 ← forIn (m := Except PyErr) (keysOf c) kc fun (key : κ) (r : KContent κ α) =>
          (fun a => ForInStep.yield (r.set key a)) <$> f c key (r.get key)
      forIn (keysOf c) r1 fun (key : κ) (r : KContent κ α) =>
          (fun a => ForInStep.yield (r.set key a)) <$> g c key (r.get key)) with
    | error e =>
      rw [h1] at h
      simp [Functor.map, Except.map, bind, Except.bind] at h
    | ok kc1 =>
      rw [h1] at h
      have h2 : forIn l kc1 body = .ok kc' := h
      obtain ⟨a1, a2⟩ := two_passes (f c) (g c) (keysOf c) kc kc1 hn1 h1
      obtain ⟨b1, b2⟩ := rounds f g keysOf body hb l kc1 kc' hn2 h2
      constructor
      · intro c' k hc' hk
        rcases List.mem_cons.mp hc' with rfl | hm
        · have hnot : ∀ c'' ∈ l, k ∉ keysOf c'' := fun c'' hc'' hk'' =>
            hdis k hk k (List.mem_flatMap.mpr ⟨c'', hc'', hk''⟩) rfl
          rw [b2 k hnot]
          exact a1 k hk
        · have hnot : k ∉ keysOf c := fun hk' => hdis k hk' k (List.mem_flatMap.mpr ⟨c', hm, hk⟩) rfl
          have := b1 c' k hm hk
          rw [a2 k hnot] at this
          exact this
      · intro k hk
        rw [b2 k (fun c' hc' => hk c' (List.mem_cons_of_mem _ hc')), a2 k (hk c (List.mem_cons_self ..))]

/-- one pass succeeds when the edit of every listed key succeeds on the entry the key has at the start -/
theorem pass_keys_ok (f : κ → KeyDict α → Except PyErr (KeyDict α)) : ∀ (keys : List κ) (kc : KContent κ α), keys.Nodup →
    (∀ k, k ∈ keys → ∃ a, f k (kc.get k) = .ok a) →
    ∃ kc', (forIn (m := Except PyErr) keys kc fun (key : κ) (r : KContent κ α) =>
        (fun a => ForInStep.yield (r.set key a)) <$> f key (r.get key)) = .ok kc'
  | [], kc, _, _ => ⟨kc, rfl⟩
  | key :: keys, kc, hnd, h => by
    rw [List.nodup_cons] at hnd
    obtain ⟨a, ha⟩ := h key (List.mem_cons_self ..)
    have hrest : ∀ k, k ∈ keys → ∃ b, f k ((kc.set key a).get k) = .ok b := by
      intro k hk
      have hne : k ≠ key := fun e => hnd.1 (e ▸ hk)
      have hg : (kc.set key a).get k = kc.get k := dictGet_dictSet_other kc key k a hne
      rw [hg]
      exact h k (List.mem_cons_of_mem _ hk)
    obtain ⟨kc', hk'⟩ := pass_keys_ok f keys (kc.set key a) hnd.2 hrest
    refine ⟨kc', ?_⟩
    rw [List.forIn_cons, ha]
    exact hk'

/-- the two passes of a round succeed when reclassification followed by insertion succeeds for every listed key -/
theorem two_passes_ok (f g : κ → KeyDict α → Except PyErr (KeyDict α)) (keys : List κ) (kc : KContent κ α) (hnd : keys.Nodup)
    (h : ∀ k, k ∈ keys → ∃ a, (f k (kc.get k) >>= g k) = .ok a) :
    ∃ kc', (do
      let r1 ← forIn (m := Except PyErr) keys kc fun (key : κ) (r : KContent κ α) =>
          (fun a => ForInStep.yield (r.set key a)) <$> f key (r.get key)
      forIn keys r1 fun (key : κ) (r : KContent κ α) =>
          (fun a => ForInStep.yield (r.set key a)) <$> g key (r.get key)) = .ok kc' := by
  have hf : ∀ k, k ∈ keys → ∃ a, f k (kc.get k) = .ok a := by
    intro k hk
    obtain ⟨a, ha⟩ := h k hk
    cases hfk : f k (kc.get k) with
    | error e => rw [hfk] at ha; simp [bind, Except.bind] at ha
    | ok b => exact ⟨b, rfl⟩
  obtain ⟨r1, h1⟩ := pass_keys_ok f keys kc hnd hf
  obtain ⟨a1, _⟩ := pass_keys f keys kc r1 hnd h1
  have hg : ∀ k, k ∈ keys → ∃ a, g k (r1.get k) = .ok a := by
    intro k hk
    obtain ⟨a, ha⟩ := h k hk
    rw [a1 k hk] at ha
    exact ⟨a, ha⟩
  obtain ⟨kc', h2⟩ := pass_keys_ok g keys r1 hnd hg
  refine ⟨kc', ?_⟩
  rw [h1]
  exact h2

/-- all rounds succeed when the two edits succeed for every visited key on the entry it has at the start -/
theorem rounds_ok (f g : Cls → κ → KeyDict α → Except PyErr (KeyDict α)) (keysOf : Cls → List κ)
    (body : Cls → KContent κ α → Except PyErr (ForInStep (KContent κ α)))
    (hb : ∀ c kc, body c kc = ForInStep.yield <$> (do
      let r1 ← forIn (m := Except PyErr) (keysOf c) kc fun (key : κ) (r : KContent κ α) =>
          (fun a => ForInStep.yield (r.set key a)) <$> f c key (r.get key)
      forIn (keysOf c) r1 fun (key : κ) (r : KContent κ α) =>
          (fun a => ForInStep.yield (r.set key a)) <$> g c key (r.get key))) :
    ∀ (l : List Cls) (kc : KContent κ α), (l.flatMap keysOf).Nodup →
      (∀ c k, c ∈ l → k ∈ keysOf c → ∃ a, (f c k (kc.get k) >>= g c k) = .ok a) →
      ∃ kc', forIn l kc body = .ok kc'
  | [], kc, _, _ => ⟨kc, rfl⟩
  | c :: l, kc, hnd, h => by
    rw [List.flatMap_cons, List.nodup_append] at hnd
    obtain ⟨hn1, hn2, hdis⟩ := hnd
    obtain ⟨kc1, h1⟩ := two_passes_ok (f c) (g c) (keysOf c) kc hn1 (fun k hk => h c k (List.mem_cons_self ..) hk)
    obtain ⟨_, a2⟩ := two_passes (f c) (g c) (keysOf c) kc kc1 hn1 h1
    have hrest : ∀ c' k, c' ∈ l → k ∈ keysOf c' → ∃ a, (f c' k (kc1.get k) >>= g c' k) = .ok a := by
      intro c' k hc' hk
      have hnot : k ∉ keysOf c := fun hk' => hdis k hk' k (List.mem_flatMap.mpr ⟨c', hc', hk⟩) rfl
      rw [a2 k hnot]
      exact h c' k (List.mem_cons_of_mem _ hc') hk
    obtain ⟨kc', h2⟩ := rounds_ok f g keysOf body hb l kc1 hn2 hrest
    refine ⟨kc', ?_⟩
    rw [List.forIn_cons, hb, h1]
    exact h2

/-- the keys one round of `_insert` visits: those of the classification dictionary of `other`, and in the round of the global
    constants also the keys only `self` has -/
def roundKeys (oc : Content κ α) (missing : List κ) (c : Cls) : List κ :=
  (dictGet oc c).map (·.1) ++ (if c = gconst then missing else [])

/-- the reclassification of one key towards the classification `c` of the round -/
def keyRecl (null : α) (ss : List Nat) (sn : Option Nat) (bases : List String) (c : Cls) (k : κ) (d : KeyDict α) :
    Except PyErr (KeyDict α) := Py.reclassify null ss sn d bases c

/-- the insertion for the axis, with what `other` holds for the key -/
def keyIns (null : α) (ss : List Nat) (sn sd : Option Nat) (bases : List String) (os : List Nat) (on : Option Nat)
    (valid : List Cls) (oc : Content κ α) (dim : Nat) (c : Cls) (k : κ) (d : KeyDict α) : Except PyErr (KeyDict α) :=
  Py.insert_dispatch null ss sn d sd bases os on
    (match Content.valuesAndClass valid oc k with | some p_ => p_.2 | none => [null])
    ((Content.valuesAndClass valid oc k).map (·.1)) dim

/-- what `_insert` does to one key in the round of classification `c`: the reclassification towards `c`, then the insertion
    for the axis, with what `other` holds for the key -/
def keyStep (null : α) (ss : List Nat) (sn sd : Option Nat) (bases : List String) (os : List Nat) (on : Option Nat)
    (valid : List Cls) (oc : Content κ α) (dim : Nat) (c : Cls) (k : κ) (d : KeyDict α) : Except PyErr (KeyDict α) :=
  keyRecl null ss sn bases c k d >>= keyIns null ss sn sd bases os on valid oc dim c k

/-- **the `try` block of `_insert` as written in dcmmeta.py treats keys independently**: when it ends normally, every key of a
    classification dictionary of `other` — and, in the round of the global constants, every key only `self` has — holds what
    the reclassification followed by the insertion make of *its own* entry in `self` and *its own* values in `other`, and every
    other key of `self` holds what it held; provided no key is listed twice (keys are unique in `other` and in `self`) -/
theorem insert_try_per_key (null : α) (ss : List Nat) (sn sd : Option Nat) (bases : List String) (kc0 kc' : KContent κ α)
    (os : List Nat) (on : Option Nat) (oc : Content κ α) (dim : Nat) (valid sv : List Cls) (oks : List κ)
    (hv : Py.get_valid_classes os = .ok valid) (hsv : Py.get_valid_classes ss = .ok sv) (hk : Py.get_keys os oc = .ok oks)
    (hnd : (valid.flatMap (roundKeys oc ((KContent.keys sv kc0).filter fun key => !oks.contains key))).Nodup)
    (h : Py.insert_try null ss sn sd bases kc0 os on oc dim = .ok kc') :
    (∀ c k, c ∈ valid → k ∈ roundKeys oc ((KContent.keys sv kc0).filter fun key => !oks.contains key) c →
        keyStep null ss sn sd bases os on valid oc dim c k (kc0.get k) = .ok (kc'.get k)) ∧
    (∀ k, (∀ c ∈ valid, k ∉ roundKeys oc ((KContent.keys sv kc0).filter fun key => !oks.contains key) c) →
        kc'.get k = kc0.get k) := by
  unfold Py.insert_try at h
  simp only [hv, hsv, hk, ok_bind', bind_pure_comp] at h
  have h' := h
  rw [bind_pure] at h'
  generalize hbd : (fun (other_classes : Cls) (__s : KContent κ α) => _) = body at h'
  have hb : ∀ c kc, body c kc = ForInStep.yield <$> (do
      let r1 ← forIn (m := Except PyErr) (roundKeys oc ((KContent.keys sv kc0).filter fun key => !oks.contains key) c) kc
        fun (key : κ) (r : KContent κ α) =>
          (fun a => ForInStep.yield (r.set key a)) <$> keyRecl null ss sn bases c key (r.get key)
      forIn (roundKeys oc ((KContent.keys sv kc0).filter fun key => !oks.contains key) c) r1 fun (key : κ) (r : KContent κ α) =>
          (fun a => ForInStep.yield (r.set key a)) <$> keyIns null ss sn sd bases os on valid oc dim c key (r.get key)) := by
    intro c kc
    rw [← hbd]
    unfold keyRecl keyIns
    by_cases hc : c = gconst
    · subst hc
      have hgg : (gconst == gconst) = true := rfl
      simp only [roundKeys, if_true, hgg, map_bind]
      rfl
    · have hc' : (c == gconst) = false := by simpa using hc
      simp only [roundKeys, hc, hc', if_false, List.append_nil, Bool.false_eq_true, map_bind]
      rfl
  unfold keyStep
  exact rounds (keyRecl null ss sn bases) (keyIns null ss sn sd bases os on valid oc dim)
    (roundKeys oc ((KContent.keys sv kc0).filter fun key => !oks.contains key)) body hb valid kc0 kc' hnd h'

/-- **the `try` block of `_insert` ends normally when every visited key can be reclassified and inserted** — it raises only if
    `keyStep` raises for some visited key on the entry that key has at the start -/
theorem insert_try_ok (null : α) (ss : List Nat) (sn sd : Option Nat) (bases : List String) (kc0 : KContent κ α)
    (os : List Nat) (on : Option Nat) (oc : Content κ α) (dim : Nat) (valid sv : List Cls) (oks : List κ)
    (hv : Py.get_valid_classes os = .ok valid) (hsv : Py.get_valid_classes ss = .ok sv) (hk : Py.get_keys os oc = .ok oks)
    (hnd : (valid.flatMap (roundKeys oc ((KContent.keys sv kc0).filter fun key => !oks.contains key))).Nodup)
    (hstep : ∀ c k, c ∈ valid → k ∈ roundKeys oc ((KContent.keys sv kc0).filter fun key => !oks.contains key) c →
        ∃ a, keyStep null ss sn sd bases os on valid oc dim c k (kc0.get k) = .ok a) :
    ∃ kc', Py.insert_try null ss sn sd bases kc0 os on oc dim = .ok kc' := by
  unfold Py.insert_try
  simp only [hv, hsv, hk, ok_bind', bind_pure_comp]
  rw [bind_pure]
  generalize hbd : (fun (other_classes : Cls) (__s : KContent κ α) => _) = body
  have hb : ∀ c kc, body c kc = ForInStep.yield <$> (do
      let r1 ← forIn (m := Except PyErr) (roundKeys oc ((KContent.keys sv kc0).filter fun key => !oks.contains key) c) kc
        fun (key : κ) (r : KContent κ α) =>
          (fun a => ForInStep.yield (r.set key a)) <$> keyRecl null ss sn bases c key (r.get key)
      forIn (roundKeys oc ((KContent.keys sv kc0).filter fun key => !oks.contains key) c) r1 fun (key : κ) (r : KContent κ α) =>
          (fun a => ForInStep.yield (r.set key a)) <$> keyIns null ss sn sd bases os on valid oc dim c key (r.get key)) := by
    intro c kc
    rw [← hbd]
    unfold keyRecl keyIns
    by_cases hc : c = gconst
    · subst hc
      have hgg : (gconst == gconst) = true := rfl
      simp only [roundKeys, if_true, hgg, map_bind]
      rfl
    · have hc' : (c == gconst) = false := by simpa using hc
      simp only [roundKeys, hc, hc', if_false, List.append_nil, Bool.false_eq_true, map_bind]
      rfl
  unfold keyStep at hstep
  exact rounds_ok (keyRecl null ss sn bases) (keyIns null ss sn sd bases os on valid oc dim)
    (roundKeys oc ((KContent.keys sv kc0).filter fun key => !oks.contains key)) body hb valid kc0 hnd hstep

end perkey

/-! the translated method computes (tests, not theorems): a slice merge of two 3-D extensions — `a` constant and equal, `b`
    constant and different (becomes per slice), `m` only in `self` (other reads None) — and the hypotheses of the theorems above
    hold for this input -/
section tests
def tSelf : KContent String Nat := [("a", [(gconst, [1])]), ("b", [(gconst, [2])]), ("m", [(gconst, [3])])]
def tOther : Content String Nat := [(gconst, [("a", [1]), ("b", [5])]), (gslices, [("s", [7])])]

example : Py.insert_whole (0 : Nat) [2, 2, 1] (some 1) (some 2) ["global"] tSelf [2, 2, 1] (some 1) tOther true 2
    = .ok (.ok [("a", [(gconst, [1])]), ("b", [(gslices, [2, 5])]), ("m", [(gslices, [3, 0])]), ("s", [(gslices, [0, 7])])], tOther) := by rfl
example : Py.insert_whole (0 : Nat) [2, 2, 1] (some 1) (some 2) ["global"] tSelf [2, 2, 1] (some 1) tOther false 2
    = .ok (.ok [("a", [(gconst, [1])]), ("b", [(gslices, [2, 5])]), ("m", [(gslices, [3, 0])])], tOther) := by rfl
example : (([gconst, gslices] : List Cls).flatMap (roundKeys tOther ["m"])).Nodup := by decide
end tests

/-! ### the premise "no key is listed twice" on the dictionaries of a model extension -/

theorem nodup_flatMap_of {β γ : Type} (f : β → List γ) : ∀ (l : List β), (∀ x ∈ l, (f x).Nodup) →
    l.Pairwise (fun a b => ∀ y, y ∈ f a → y ∉ f b) → (l.flatMap f).Nodup
  | [], _, _ => by simp
  | a :: l, h1, h2 => by
    rw [List.pairwise_cons] at h2
    rw [List.flatMap_cons, List.nodup_append]
    refine ⟨h1 a (List.mem_cons_self ..), nodup_flatMap_of f l (fun x hx => h1 x (List.mem_cons_of_mem _ hx)) h2.2, ?_⟩
    intro y hy z hz e
    obtain ⟨b, hb, hzb⟩ := List.mem_flatMap.mp hz
    exact h2.1 b hb y hy (e ▸ hzb)

theorem mem_entsOf_keys (o : DExt κ α) (c : Cls) (y : κ) (h : y ∈ (entsOf o c).map (·.1)) :
    ∃ x ∈ o.ents, x.1 = y ∧ x.2.1 = c := by
  obtain ⟨p, hp, rfl⟩ := List.mem_map.mp h
  obtain ⟨x, hx, rfl⟩ := List.mem_map.mp hp
  have := List.mem_filter.mp hx
  exact ⟨x, this.1, rfl, by simpa using this.2⟩

/-- on the dictionaries of a model extension whose keys are unique, against a `self` whose keys are unique, the rounds of
    `_insert` list no key twice -/
theorem roundKeys_nodup (o : DExt κ α) (hn : (o.ents.map (·.1)).Nodup) (kc0 : KContent κ α) (hk : (kc0.map (·.1)).Nodup)
    (sv : List Cls) :
    ((validClasses o.shp).flatMap (roundKeys (toContent o) ((KContent.keys sv kc0).filter fun key =>
      !((validClasses o.shp).flatMap fun c => (dictGet (toContent o) c).map (·.1)).contains key))).Nodup := by
  have hmiss_nd : ((KContent.keys sv kc0).filter fun key =>
      !((validClasses o.shp).flatMap fun c => (dictGet (toContent o) c).map (·.1)).contains key).Nodup := by
    apply List.Nodup.sublist List.filter_sublist
    unfold KContent.keys
    exact List.Nodup.sublist ((List.filter_sublist (l := kc0)).map _) hk
  have hmiss_not : ∀ y c, c ∈ validClasses o.shp → y ∈ (entsOf o c).map (·.1) →
      y ∉ (KContent.keys sv kc0).filter fun key =>
        !((validClasses o.shp).flatMap fun c => (dictGet (toContent o) c).map (·.1)).contains key := by
    intro y c hc hy hm
    have h2 := (List.mem_filter.mp hm).2
    have : y ∈ (validClasses o.shp).flatMap fun c => (dictGet (toContent o) c).map (·.1) :=
      List.mem_flatMap.mpr ⟨c, hc, by rw [dictGet_toContent o c hc]; exact hy⟩
    simp [this] at h2
  apply nodup_flatMap_of
  · intro c hc
    unfold roundKeys
    rw [dictGet_toContent o c hc, List.nodup_append]
    refine ⟨entsOf_keys_nodup o hn c, ?_, ?_⟩
    · by_cases e : c = gconst
      · rw [if_pos e]; exact hmiss_nd
      · rw [if_neg e]; simp
    · intro y hy z hz e
      by_cases ec : c = gconst
      · rw [if_pos ec] at hz
        exact hmiss_not y c hc hy (e ▸ hz)
      · rw [if_neg ec] at hz
        simp at hz
  · have hp := List.nodup_iff_pairwise_ne.mp (validClasses_nodup o.shp)
    -- membership is needed for `dictGet_toContent`: carry it through the pairwise relation
    have hp' : (validClasses o.shp).Pairwise (fun a b => a ∈ validClasses o.shp ∧ b ∈ validClasses o.shp ∧ a ≠ b) := by
      have hmem : ∀ a ∈ validClasses o.shp, a ∈ validClasses o.shp := fun _ h => h
      exact List.Pairwise.imp_of_mem (fun ha hb hne => ⟨ha, hb, hne⟩) hp
    refine List.Pairwise.imp ?_ hp'
    intro a b ⟨ha, hb, hne⟩ y hya hyb
    unfold roundKeys at hya hyb
    rw [dictGet_toContent o a ha] at hya
    rw [dictGet_toContent o b hb] at hyb
    rcases List.mem_append.mp hya with h1 | h1 <;> rcases List.mem_append.mp hyb with h2 | h2
    · obtain ⟨x, hx, ex, cx⟩ := mem_entsOf_keys o a y h1
      obtain ⟨x', hx', ex', cx'⟩ := mem_entsOf_keys o b y h2
      have := nodup_map_inj (·.1) o.ents hn x x' hx hx' (ex.trans ex'.symm)
      exact hne (cx ▸ cx' ▸ this ▸ rfl)
    · by_cases eb : b = gconst
      · rw [if_pos eb] at h2; exact hmiss_not y a ha h1 h2
      · rw [if_neg eb] at h2; simp at h2
    · by_cases ea : a = gconst
      · rw [if_pos ea] at h1; exact hmiss_not y b hb h2 h1
      · rw [if_neg ea] at h1; simp at h1
    · by_cases ea : a = gconst
      · by_cases eb : b = gconst
        · exact hne (ea.trans eb.symm)
        · rw [if_neg eb] at h2; simp at h2
      · rw [if_neg ea] at h1; simp at h1

/-- the keys only `self` has, against the dictionaries of a model extension -/
def missingOn (sv : List Cls) (kc0 : KContent κ α) (o : DExt κ α) : List κ :=
  (KContent.keys sv kc0).filter fun key =>
    !((validClasses o.shp).flatMap fun c => (dictGet (toContent o) c).map (·.1)).contains key

/-- **the `try` block of `_insert` on the dictionaries of a model extension treats keys independently** — `insert_try_per_key`
    with its premises discharged: `other` any model extension with 3 to 5 axes and unique keys, `self` any per-key view with
    unique keys -/
theorem insert_try_per_key_on_ext [DecidableEq α] (null : α) (ss : List Nat) (sn sd : Option Nat) (bases : List String)
    (kc0 kc' : KContent κ α) (hk : (kc0.map (·.1)).Nodup) (sv : List Cls) (hsv : Py.get_valid_classes ss = .ok sv)
    (o : DExt κ α) (h3 : 3 ≤ o.shape.length) (h5 : o.shape.length ≤ 5) (hn : (o.ents.map (·.1)).Nodup)
    (on : Option Nat) (dim : Nat)
    (h : Py.insert_try null ss sn sd bases kc0 o.shape on (toContent o) dim = .ok kc') :
    (∀ c k, c ∈ validClasses o.shp → k ∈ roundKeys (toContent o) (missingOn sv kc0 o) c →
        keyStep null ss sn sd bases o.shape on (validClasses o.shp) (toContent o) dim c k (kc0.get k) = .ok (kc'.get k)) ∧
    (∀ k, (∀ c ∈ validClasses o.shp, k ∉ roundKeys (toContent o) (missingOn sv kc0 o) c) → kc'.get k = kc0.get k) :=
  insert_try_per_key null ss sn sd bases kc0 kc' o.shape on (toContent o) dim (validClasses o.shp) sv _
    (get_valid_classes_eq o none h3 h5) hsv (get_keys_eq o.shape _ (get_valid_classes_eq o none h3 h5) (toContent o))
    (roundKeys_nodup o hn kc0 hk sv) h

end Src

/-! ### what `_insert` does to one key is the step function of the model's per-key merges -/

namespace Src
variable {α κ : Type} [DecidableEq κ] [DecidableEq α]

/-- the class a reclassified key ends in is valid for the shape -/
theorem reclassifyK_class_valid (null : α) (sh : Shp) (ks : KeyState α) (oc c1 : Cls) (lv1 : List α)
    (hks : ∀ c v, ks = some (c, v) → c ∈ validClasses sh) (hoc : oc ∈ validClasses sh)
    (hbase : ∀ d, basePresent sh d = true → d ∈ validClasses sh)
    (h : reclassifyK null sh ks oc = .ok (some (c1, lv1))) : c1 ∈ validClasses sh := by
  have hcc : ∀ new, changeClassK null sh ks new = .ok (some (c1, lv1)) → new ∈ validClasses sh → c1 ∈ validClasses sh := by
    intro new hcc hnew
    rw [changeClassK_shape] at hcc
    by_cases e : ks.map (·.1) = some new
    · rw [if_pos e] at hcc
      have : ks = some (c1, lv1) := Except.ok.inj hcc
      exact hks c1 lv1 this
    · rw [if_neg e] at hcc
      cases hg : getChangedK null sh ks new with
      | error x => rw [hg] at hcc; simp at hcc
      | ok v =>
        rw [hg] at hcc
        have := Except.ok.inj hcc
        injection this with this
        injection this with this _
        rw [← this]; exact hnew
  unfold reclassifyK at h
  simp only at h
  by_cases h1 : ks.map (·.1) = some oc
  · rw [if_pos h1] at h
    exact hks c1 lv1 (Except.ok.inj h)
  · rw [if_neg h1] at h
    by_cases h2 : oc ∈ preserving (ks.map (·.1))
    · rw [if_pos h2] at h
      exact hcc oc h hoc
    · rw [if_neg h2] at h
      by_cases h3 : (ks.map (·.1)).any (· ∈ preserving (some oc)) = true
      · rw [if_pos h3] at h
        exact hks c1 lv1 (Except.ok.inj h)
      · rw [if_neg h3] at h
        cases hf : (preserving (ks.map (·.1))).find? (fun d => basePresent sh d && decide (d ∈ preserving (some oc))) with
        | none => rw [hf] at h; simp at h
        | some d =>
          rw [hf] at h
          have hd := List.find?_some hf
          simp only [Bool.and_eq_true] at hd
          exact hcc d h (hbase d hd.1)

/-- **what `_insert` does to one key along a spatial axis that is not the slice axis is the model's `stepNonSliceK`**: the
    translated reclassification followed by the translated insertion, on the dictionaries of a key held as the model holds it,
    give the dictionaries of the model's result (or `ValueError` where the model has its error) — for a key at least one side
    has, when `self` and `other` have the same slices, time points and vector components (a merge along a non-slice spatial
    axis changes none of them) -/
theorem keyStep_non_slice_eq (null : α) (e o : DExt κ α) (sd dim : Nat)
    (h3 : 3 ≤ e.shape.length) (h5 : e.shape.length ≤ 5) (hpos : ∀ x ∈ e.shape, 0 < x) (hsl : e.sliceDim = some sd)
    (ho3 : 3 ≤ o.shape.length) (ho5 : o.shape.length ≤ 5) (hopos : ∀ x ∈ o.shape, 0 < x) (hsd : sd < o.shape.length)
    (hsh : o.shp (some sd) = e.shp) (hvo : validClasses o.shp = validClasses e.shp)
    (hbase : ∀ d, basePresent e.shp d = true → d ∈ validClasses e.shp)
    (hdim : dim < 3) (hds : dim ≠ sd)
    (ks other : KeyState α) (hks : ∀ c v, ks = some (c, v) → c ∈ validClasses e.shp ∧ mult e.shp c ≠ 0)
    (hother : ∀ c v, other = some (c, v) → c ∈ validClasses o.shp ∧ mult o.shp c ≠ 0)
    (hnn : ¬ (ks = none ∧ other = none))
    (valid : List Cls) (oc : Content κ α) (k : κ) (hov : Content.valuesAndClass valid oc k = other) :
    keyStep null e.shape (e.sliceDim.map fun d => e.shape.getD d 1) (some sd) (contentOf' e) o.shape
        (o.sliceDim.map fun d => o.shape.getD d 1) valid oc dim (otherClass other) k (toDict ks) =
      errV ((stepNonSliceK null e.shp ks other).map toDict) := by
  have hslS : e.sliceDim.isSome = true := by rw [hsl]; rfl
  have hocv : otherClass other ∈ validClasses e.shp := by
    cases other with
    | none =>
      show gconst ∈ validClasses e.shp
      unfold validClasses; split
      · simp
      · split
        · simp
        · split <;> simp
    | some p => obtain ⟨c, v⟩ := p; rw [← hvo]; exact (hother c v rfl).1
  obtain ⟨c1, lv1, hr, _⟩ := Total.reclassifyK_ok null e.shp ks other
  have hc1 := reclassifyK_class_valid null e.shp ks (otherClass other) c1 lv1 (fun c v h => (hks c v h).1) hocv hbase hr
  unfold keyStep keyRecl keyIns stepNonSliceK
  rw [if_neg hnn, reclassify_eq null e h3 h5 hpos hslS ks hks (otherClass other), hr]
  simp only [Except.map, errV, ok_bind']
  rw [insert_dispatch_eq]
  have hne : ¬ (some dim = some sd) := fun h => hds (Option.some.inj h)
  rw [if_neg hne, if_pos hdim, hov]
  have key := insert_non_slice_eq null e o sd h3 h5 ho3 ho5 hopos hsd c1 lv1 hc1 other hother (contentOf' e)
  rw [hsh] at key
  cases other <;> exact key

theorem shape_getD_pos (l : List Nat) (hpos : ∀ x ∈ l, 0 < x) (i : Nat) : 0 < l.getD i 1 := by
  rw [List.getD_eq_getElem?_getD]
  cases h : l[i]? with
  | none => simp
  | some x => exact hpos x (List.mem_of_getElem? h)

/-- with a slice dimension and positive axis lengths every classification has at least one value -/
theorem mult_ne_zero (e : DExt κ α) (hpos : ∀ x ∈ e.shape, 0 < x) (hsl : e.sliceDim.isSome = true) (c : Cls) :
    mult e.shp c ≠ 0 := by
  have hS : 0 < e.shp.S := by
    unfold DExt.shp
    cases hd : e.sliceDim with
    | none => rw [hd] at hsl; cases hsl
    | some d => exact shape_getD_pos e.shape hpos d
  have hT : 0 < e.shp.T := shape_getD_pos e.shape hpos 3
  have hV : 0 < e.shp.V := shape_getD_pos e.shape hpos 4
  have hh : e.shp.hasSlice = true := hsl
  cases c <;> simp only [mult, hh, if_true] <;>
    first | exact Nat.one_ne_zero | exact Nat.ne_of_gt (Nat.mul_pos (Nat.mul_pos hS hT) hV)
          | exact Nat.ne_of_gt (Nat.mul_pos hT hV) | exact Nat.ne_of_gt hS | exact Nat.ne_of_gt hV
          | exact Nat.ne_of_gt (Nat.mul_pos hS hT)

theorem gconst_valid (sh : Shp) : gconst ∈ validClasses sh := by
  unfold validClasses; split
  · simp
  · split
    · simp
    · split <;> simp

/-- **what `_insert` does to one key along the slice axis is the model's `stepSliceK`** -/
theorem keyStep_slice_eq (null : α) (e o : DExt κ α) (sd : Nat)
    (h3 : 3 ≤ e.shape.length) (h5 : e.shape.length ≤ 5) (hpos : ∀ x ∈ e.shape, 0 < x) (hsl : e.sliceDim = some sd)
    (hosl : o.sliceDim.isSome = true)
    (ho3 : 3 ≤ o.shape.length) (ho5 : o.shape.length ≤ 5) (hopos : ∀ x ∈ o.shape, 0 < x) (hsd : sd < o.shape.length)
    (hsh : o.shp (some sd) = { e.shp with S := 1 }) (hvo : ∀ c ∈ validClasses o.shp, c ∈ validClasses e.shp)
    (hbase : ∀ d, basePresent e.shp d = true → d ∈ validClasses e.shp)
    (ks other : KeyState α) (hks : ∀ c v, ks = some (c, v) → c ∈ validClasses e.shp ∧ mult e.shp c ≠ 0)
    (hother : ∀ c v, other = some (c, v) → c ∈ validClasses o.shp ∧ mult o.shp c ≠ 0)
    (hnn : ¬ (ks = none ∧ other = none))
    (valid : List Cls) (oc : Content κ α) (k : κ) (hov : Content.valuesAndClass valid oc k = other) :
    keyStep null e.shape (e.sliceDim.map fun d => e.shape.getD d 1) (some sd) (contentOf' e) o.shape
        (o.sliceDim.map fun d => o.shape.getD d 1) valid oc sd (otherClass other) k (toDict ks) =
      errV ((stepSliceK null e.shp ks other).map toDict) := by
  have hslS : e.sliceDim.isSome = true := by rw [hsl]; rfl
  have hocv : otherClass other ∈ validClasses e.shp := by
    cases other with
    | none => exact gconst_valid _
    | some p => obtain ⟨c, v⟩ := p; exact hvo c (hother c v rfl).1
  obtain ⟨c1, lv1, hr, _⟩ := Total.reclassifyK_ok null e.shp ks other
  have hc1 := reclassifyK_class_valid null e.shp ks (otherClass other) c1 lv1 (fun c v h => (hks c v h).1) hocv hbase hr
  unfold keyStep keyRecl keyIns stepSliceK
  rw [if_neg hnn, reclassify_eq null e h3 h5 hpos hslS ks hks (otherClass other), hr]
  simp only [Except.map, errV, ok_bind']
  rw [insert_dispatch_eq, if_pos rfl, hov]
  have key := insert_slice_eq null e o sd h3 h5 hpos hslS hosl hbase ho3 ho5 hopos hsd c1 lv1 hc1
    (mult_ne_zero e hpos hslS c1) other hother
  rw [hsh] at key
  cases other <;> exact key

/-- **what `_insert` does to one key along the time (3) or vector (4) axis is the model's `stepSampleK`** -/
theorem keyStep_sample_eq (null : α) (e o : DExt κ α) (sd : Nat) (isTime : Bool)
    (h3 : 3 ≤ e.shape.length) (h5 : e.shape.length ≤ 5) (hpos : ∀ x ∈ e.shape, 0 < x) (hsl : e.sliceDim = some sd) (hsd3 : sd < 3)
    (ho3 : 3 ≤ o.shape.length) (ho5 : o.shape.length ≤ 5) (hopos : ∀ x ∈ o.shape, 0 < x) (hsd : sd < o.shape.length)
    (hoT : e.shape.length = 5 → 3 < o.shape.length)
    (hsamp : (if isTime then tsamples else vsamples) ∈ validClasses e.shp)
    (hvo : ∀ c ∈ validClasses o.shp, c ∈ validClasses e.shp)
    (hbase : ∀ d, basePresent e.shp d = true → d ∈ validClasses e.shp)
    (ks other : KeyState α) (hks : ∀ c v, ks = some (c, v) → c ∈ validClasses e.shp ∧ mult e.shp c ≠ 0)
    (hother : ∀ c v, other = some (c, v) → c ∈ validClasses o.shp ∧ mult o.shp c ≠ 0)
    (hnn : ¬ (ks = none ∧ other = none))
    (valid : List Cls) (oc : Content κ α) (k : κ) (hov : Content.valuesAndClass valid oc k = other) :
    keyStep null e.shape (e.sliceDim.map fun d => e.shape.getD d 1) (some sd) (contentOf' e) o.shape
        (o.sliceDim.map fun d => o.shape.getD d 1) valid oc (if isTime then 3 else 4) (otherClass other) k (toDict ks) =
      errV ((stepSampleK null isTime e.shp (o.shp (some sd)) ks other).map toDict) := by
  have hslS : e.sliceDim.isSome = true := by rw [hsl]; rfl
  have hocv : otherClass other ∈ validClasses e.shp := by
    cases other with
    | none => exact gconst_valid _
    | some p => obtain ⟨c, v⟩ := p; exact hvo c (hother c v rfl).1
  obtain ⟨c1, lv1, hr, _⟩ := Total.reclassifyK_ok null e.shp ks other
  have hc1 := reclassifyK_class_valid null e.shp ks (otherClass other) c1 lv1 (fun c v h => (hks c v h).1) hocv hbase hr
  unfold keyStep keyRecl keyIns stepSampleK
  rw [if_neg hnn, reclassify_eq null e h3 h5 hpos hslS ks hks (otherClass other), hr]
  simp only [Except.map, errV, ok_bind']
  rw [insert_dispatch_eq, hov]
  have key := insert_sample_eq null e o sd isTime h3 h5 hpos hslS ho3 ho5 hopos hsd hoT hsamp c1 lv1 hc1
    (mult_ne_zero e hpos hslS c1) other hother (contentOf' e)
  cases isTime with
  | true =>
    have hne : ¬ (some 3 = some sd) := fun h => by have := Option.some.inj h; omega
    simp only [if_true] at key ⊢
    rw [if_neg hne, if_neg (by omega : ¬ (3 < 3))]
    cases other <;> exact key
  | false =>
    have hne : ¬ (some 4 = some sd) := fun h => by have := Option.some.inj h; omega
    simp only [Bool.false_eq_true, if_false] at key ⊢
    rw [if_neg hne, if_neg (by omega : ¬ (4 < 3)), if_neg (by omega : ¬ (4 = 3)), if_pos trivial]
    cases other <;> exact key

end Src
