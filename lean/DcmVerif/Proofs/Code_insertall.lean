import DcmVerif.Generated.Code_insertall
import DcmVerif.Proofs.Code_content
import DcmVerif.Proofs.Code_insert
/-! `DcmMetaExtension._insert` as a whole (translated from dcmmeta.py): what it does to `other` (nothing, whatever happens in
between) and what it does to `self`, key by key. -/
set_option autoImplicit false
set_option linter.unusedSimpArgs false
set_option linter.unusedVariables false
open Cls

namespace Src
variable {α κ : Type} [DecidableEq κ]

/-! ### lookups after writes in an association-list dictionary -/

theorem dictGet_dictSet_self {κ' β : Type} [DecidableEq κ'] [Inhabited β] : ∀ (d : List (κ' × β)) (k : κ') (v : β),
    dictGet (dictSet d k v) k = v
  | [], k, v => by simp [dictSet, dictGet, List.find?]
  | a :: d, k, v => by
    have ih := dictGet_dictSet_self d k v
    unfold dictSet at ih ⊢
    by_cases ha : a.1 = k
    · simp [dictGet, List.find?, ha]
    · have ha' : (a.1 == k) = false := by simpa using ha
      by_cases hany : (d.any fun p => p.1 == k) = true
      · simp only [List.any_cons, ha', Bool.false_or, hany, if_true, List.map_cons, Bool.false_eq_true, if_false] at ih ⊢
        simpa [dictGet, List.find?, ha'] using ih
      · simp only [List.any_cons, ha', Bool.false_or, hany, if_false, List.cons_append] at ih ⊢
        simpa [dictGet, List.find?, ha'] using ih

theorem dictGet_dictSet_other {κ' β : Type} [DecidableEq κ'] [Inhabited β] : ∀ (d : List (κ' × β)) (k k' : κ') (v : β), k' ≠ k →
    dictGet (dictSet d k v) k' = dictGet d k'
  | [], k, k', v, hne => by
    have : (k == k') = false := by simpa using fun e => hne e.symm
    simp [dictSet, dictGet, List.find?, this]
  | a :: d, k, k', v, hne => by
    have ih := dictGet_dictSet_other d k k' v hne
    unfold dictSet at ih ⊢
    have hk : (k == k') = false := by simpa using fun e => hne e.symm
    by_cases ha : a.1 = k
    · have ha' : (a.1 == k) = true := by simpa using ha
      have hak' : (a.1 == k') = false := by rw [ha]; exact hk
      by_cases hany : (d.any fun p => p.1 == k) = true
      · simp only [List.any_cons, ha', Bool.true_or, if_true, List.map_cons, hany] at ih ⊢
        simpa [dictGet, List.find?, hk, hak'] using ih
      · simp only [List.any_cons, ha', Bool.true_or, if_true, List.map_cons, hany, Bool.false_eq_true, if_false] at ih ⊢
        have hmap : (d.map fun p => if (p.1 == k) = true then (k, v) else p) = d := by
          conv => rhs; rw [← List.map_id d]
          apply List.map_congr_left
          intro p hp
          have : (p.1 == k) = false := by
            cases h : (p.1 == k) with
            | false => rfl
            | true => exact absurd (List.any_eq_true.mpr ⟨p, hp, h⟩) hany
          simp [this]
        rw [hmap]
        simp [dictGet, List.find?, hk, hak']
    · have ha' : (a.1 == k) = false := by simpa using ha
      by_cases hany : (d.any fun p => p.1 == k) = true
      · simp only [List.any_cons, ha', Bool.false_or, hany, if_true, List.map_cons, Bool.false_eq_true, if_false] at ih ⊢
        by_cases hak' : (a.1 == k') = true
        · simp [dictGet, List.find?, hak']
        · have hak'' : (a.1 == k') = false := by simpa using hak'
          simpa [dictGet, List.find?, hak''] using ih
      · simp only [List.any_cons, ha', Bool.false_or, hany, if_false, List.cons_append] at ih ⊢
        by_cases hak' : (a.1 == k') = true
        · simp [dictGet, List.find?, hak']
        · have hak'' : (a.1 == k') = false := by simpa using hak'
          simpa [dictGet, List.find?, hak''] using ih

/-! ### putting the per-slice dictionaries of `other` aside and back -/

/-- the dictionaries of the per-slice classifications among `l` replaced by what `g` says -/
def setSlices (l : List Cls) (g : Cls → List (κ × List α)) (content : Content κ α) : Content κ α :=
  content.map fun p => if p.1 ∈ l ∧ p.1.sub = "slices" then (p.1, g p.1) else p

theorem setSlices_keys (l : List Cls) (g : Cls → List (κ × List α)) (content : Content κ α) :
    (setSlices l g content).map (·.1) = content.map (·.1) := by
  unfold setSlices
  rw [List.map_map]
  apply List.map_congr_left
  intro p _
  by_cases e : p.1 ∈ l ∧ p.1.sub = "slices" <;> simp [e]

theorem dictSet_present (content : Content κ α) (c : Cls) (hc : c ∈ content.map (·.1)) (v : List (κ × List α)) :
    dictSet content c v = content.map fun p => if p.1 = c then (p.1, v) else p := by
  unfold dictSet
  have hc' : (content.any fun p => p.1 == c) = true := dictHas_of_mem content c hc
  rw [if_pos hc']
  apply List.map_congr_left
  intro p _
  by_cases e : p.1 = c <;> simp [e]

theorem set_loop (g : Cls → List (κ × List α)) : ∀ (l : List Cls) (content : Content κ α), (∀ c ∈ l, c ∈ content.map (·.1)) →
    (forIn (m := Except PyErr) l content fun (classes : Cls) (r : Content κ α) =>
        if (classes.sub == "slices") = true then pure (ForInStep.yield (dictSet r classes (g classes)))
        else pure (ForInStep.yield r)) =
      .ok (setSlices l g content)
  | [], content, _ => by
    simp only [List.forIn_nil, setSlices]
    show Except.ok content = _
    congr 1
    conv => lhs; rw [← List.map_id content]
    apply List.map_congr_left
    intro p _
    simp
  | c :: l, content, hl => by
    rw [List.forIn_cons]
    have hc := hl c (List.mem_cons_self ..)
    by_cases hs : c.sub = "slices"
    · have hs' : (c.sub == "slices") = true := by simpa using hs
      rw [if_pos hs']
      simp only [pure_bind]
      rw [dictSet_present content c hc]
      have hkeys : (content.map fun p => if p.1 = c then (p.1, g c) else p).map (·.1) = content.map (·.1) := by
        rw [List.map_map]
        apply List.map_congr_left
        intro p _
        by_cases e : p.1 = c <;> simp [e]
      rw [set_loop g l _ (by rw [hkeys]; exact fun c' hc' => hl c' (List.mem_cons_of_mem _ hc'))]
      unfold setSlices
      rw [List.map_map]
      congr 1
      apply List.map_congr_left
      intro p _
      by_cases e : p.1 = c
      · by_cases m : c ∈ l <;> simp [e, m, hs]
      · by_cases m : p.1 ∈ l <;> simp [e, m]
    · have hs' : ¬ (c.sub == "slices") = true := by simpa using hs
      rw [if_neg hs']
      simp only [pure_bind]
      rw [set_loop g l content (fun c' hc' => hl c' (List.mem_cons_of_mem _ hc'))]
      unfold setSlices
      congr 1
      apply List.map_congr_left
      intro p _
      by_cases e : p.1 = c
      · by_cases m : c ∈ l <;> simp [e, m, hs]
      · by_cases m : p.1 ∈ l <;> simp [e, m]

/-- the loop that puts the per-slice dictionaries aside: the content with those dictionaries emptied, and a store that holds,
    for every per-slice classification among `l`, the dictionary the content had -/
theorem aside_loop : ∀ (l : List Cls) (content saved : Content κ α), l.Nodup → (∀ c ∈ l, c ∈ content.map (·.1)) →
    ∃ saved' : Content κ α,
      (forIn (m := Except PyErr) l (content, saved) fun (classes : Cls) (__s : Content κ α × Content κ α) =>
          if (classes.sub == "slices") = true then
            pure (ForInStep.yield (dictSet __s.fst classes [], dictSet __s.snd classes (dictGet __s.fst classes)))
          else pure (ForInStep.yield (__s.fst, __s.snd))) =
        .ok (setSlices l (fun _ => []) content, saved') ∧
      (∀ c, c ∈ l → c.sub = "slices" → dictGet saved' c = dictGet content c) ∧
      (∀ c, c ∉ l → dictGet saved' c = dictGet saved c)
  | [], content, saved, _, _ => by
    refine ⟨saved, ?_, by simp, fun _ _ => rfl⟩
    simp only [List.forIn_nil, setSlices]
    show Except.ok (content, saved) = _
    congr 2
    conv => lhs; rw [← List.map_id content]
    apply List.map_congr_left
    intro p _
    simp
  | c :: l, content, saved, hnd, hl => by
    rw [List.nodup_cons] at hnd
    have hc := hl c (List.mem_cons_self ..)
    by_cases hs : c.sub = "slices"
    · have hs' : (c.sub == "slices") = true := by simpa using hs
      have hkeys : (dictSet content c ([] : List (κ × List α))).map (·.1) = content.map (·.1) := by
        rw [dictSet_present content c hc, List.map_map]
        apply List.map_congr_left
        intro p _
        by_cases e : p.1 = c <;> simp [e]
      obtain ⟨s', h1, h2, h3⟩ := aside_loop l (dictSet content c []) (dictSet saved c (dictGet content c)) hnd.2
        (by rw [hkeys]; exact fun c' hc' => hl c' (List.mem_cons_of_mem _ hc'))
      refine ⟨s', ?_, ?_, ?_⟩
      · rw [List.forIn_cons, if_pos hs']
        simp only [pure_bind]
        rw [h1, dictSet_present content c hc]
        unfold setSlices
        rw [List.map_map]
        congr 2
        apply List.map_congr_left
        intro p _
        by_cases e : p.1 = c
        · by_cases m : c ∈ l <;> simp [e, m, hs]
        · by_cases m : p.1 ∈ l <;> simp [e, m]
      · intro c' hc' hs''
        rcases List.mem_cons.mp hc' with rfl | hm
        · rw [h3 _ hnd.1, dictGet_dictSet_self]
        · have hne : c' ≠ c := fun e => hnd.1 (e ▸ hm)
          rw [h2 c' hm hs'', dictGet_dictSet_other _ _ _ _ hne]
      · intro c' hc'
        have hne : c' ≠ c := fun e => hc' (e ▸ List.mem_cons_self ..)
        rw [h3 c' (fun hm => hc' (List.mem_cons_of_mem _ hm)), dictGet_dictSet_other _ _ _ _ hne]
    · have hs' : ¬ (c.sub == "slices") = true := by simpa using hs
      obtain ⟨s', h1, h2, h3⟩ := aside_loop l content saved hnd.2 (fun c' hc' => hl c' (List.mem_cons_of_mem _ hc'))
      refine ⟨s', ?_, ?_, ?_⟩
      · rw [List.forIn_cons, if_neg hs']
        simp only [pure_bind]
        rw [h1]
        unfold setSlices
        congr 2
        apply List.map_congr_left
        intro p _
        by_cases e : p.1 = c
        · by_cases m : c ∈ l <;> simp [e, m, hs]
        · by_cases m : p.1 ∈ l <;> simp [e, m]
      · intro c' hc' hs''
        rcases List.mem_cons.mp hc' with rfl | hm
        · exact absurd hs'' hs
        · exact h2 c' hm hs''
      · intro c' hc'
        exact h3 c' (fun hm => hc' (List.mem_cons_of_mem _ hm))

/-- putting back what was put aside gives the content there was -/
theorem back_after_aside (l : List Cls) (content saved' : Content κ α) (hn : (content.map (·.1)).Nodup)
    (h2 : ∀ c, c ∈ l → c.sub = "slices" → dictGet saved' c = dictGet content c) :
    setSlices l (fun c => dictGet saved' c) (setSlices l (fun _ => []) content) = content := by
  unfold setSlices
  rw [List.map_map]
  conv => rhs; rw [← List.map_id content]
  apply List.map_congr_left
  intro p hp
  by_cases e : p.1 ∈ l ∧ p.1.sub = "slices"
  · have : dictGet saved' p.1 = p.2 := by rw [h2 p.1 e.1 e.2]; exact dictGet_mem content hn p hp
    simp [e, this]
  · simp [e]

/-- **`_insert` as written in dcmmeta.py leaves `other` as it found it** — whether the slice meta data is used or put aside,
    and whether the `try` block ends normally or with an exception; what it does to `self` is the `try` block run against `other`
    with its per-slice dictionaries emptied when the slice normals differ -/
theorem insert_whole_eq [DecidableEq α] (null : α) (ss : List Nat) (sn sd : Option Nat) (bases : List String) (kc0 : KContent κ α)
    (os : List Nat) (on : Option Nat) (other0 : Content κ α) (use : Bool) (dim : Nat) (valid : List Cls)
    (hv : Py.get_valid_classes os = .ok valid) (hnd : valid.Nodup) (hn : (other0.map (·.1)).Nodup)
    (hp : ∀ c ∈ valid, c ∈ other0.map (·.1)) :
    Py.insert_whole null ss sn sd bases kc0 os on other0 use dim =
      .ok (Py.insert_try null ss sn sd bases kc0 os on
            (if use then other0 else setSlices valid (fun _ => []) other0) dim, other0) := by
  unfold Py.insert_whole
  cases use with
  | true =>
    simp only [Bool.not_true, Bool.false_eq_true, if_false, if_true]
    rfl
  | false =>
    simp only [hv, ok_bind', bind_pure_comp, Bool.not_false, if_true, Bool.false_eq_true, if_false]
    obtain ⟨s', h1, h2, _⟩ := aside_loop valid other0 [] hnd hp
    rw [h1]
    simp only [ok_bind']
    rw [set_loop (fun c => dictGet s' c) valid _ (by rw [setSlices_keys]; exact hp), back_after_aside valid other0 s' hn h2]
    rfl

theorem setSlices_toContent (o : DExt κ α) (h3 : 3 ≤ o.shape.length) (h5 : o.shape.length ≤ 5) :
    setSlices (validClasses o.shp) (fun _ => []) (toContent o) = toContent o.clearSliceMeta := by
  have h1 := clear_slice_meta_eq o.shape _ (get_valid_classes_eq o none h3 h5) (toContent o)
    (by rw [toContent_keys]; exact fun c hc => hc)
  have h2 := clear_slice_meta_model o h3 h5
  rw [h1] at h2
  exact Except.ok.inj h2

/-- **`_insert` on the dictionaries of a model extension**: `other` is left as it was, and `self` sees `other` without its
    per-slice entries (`clearSliceMeta`) when the slice normals differ — the `effKey` of the model's `mergeKey` -/
theorem insert_whole_on_ext [DecidableEq α] (null : α) (ss : List Nat) (sn sd : Option Nat) (bases : List String) (kc0 : KContent κ α)
    (o : DExt κ α) (h3 : 3 ≤ o.shape.length) (h5 : o.shape.length ≤ 5) (on : Option Nat) (use : Bool) (dim : Nat) :
    Py.insert_whole null ss sn sd bases kc0 o.shape on (toContent o) use dim =
      .ok (Py.insert_try null ss sn sd bases kc0 o.shape on (toContent (if use then o else o.clearSliceMeta)) dim,
           toContent o) := by
  rw [insert_whole_eq null ss sn sd bases kc0 o.shape on (toContent o) use dim _ (get_valid_classes_eq o none h3 h5)
    (validClasses_nodup _) (by rw [toContent_keys]; exact validClasses_nodup _) (by rw [toContent_keys]; exact fun c hc => hc)]
  cases use with
  | true => rfl
  | false => simp only [Bool.false_eq_true, if_false]; rw [setSlices_toContent o h3 h5]

end Src
