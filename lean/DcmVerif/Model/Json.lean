/-! JSON side of `DcmMetaExtension` (dcmmeta.py 503–513, 694–712): the value tree with *ordered*
objects, a token-level encoder / decoder (what `json.dumps` / `json.loads` with
`object_pairs_hook=OrderedDict` preserve), the character-level printer reproducing
`json.dumps(content, indent=4)` byte for byte, and the NUL padding of the NIfTI container.
Numbers travel as the lexeme Python printed (shortest-repr floats are CPython's). -/
set_option autoImplicit false

namespace Js

inductive Val
  | null
  | bool (b : Bool)
  | num (lexeme : String)
  | str (s : String)
  | arr (items : List Val)
  | obj (fields : List (String × Val))   -- ordered, as `OrderedDict` / insertion-ordered dict

inductive Tok
  | null | bool (b : Bool) | num (s : String) | str (s : String)
  | arr (n : Nat) | obj (n : Nat) | key (s : String)
deriving DecidableEq

mutual
  def encode : Val → List Tok
    | .null => [.null]
    | .bool b => [.bool b]
    | .num s => [.num s]
    | .str s => [.str s]
    | .arr items => .arr items.length :: encodeList items
    | .obj fields => .obj fields.length :: encodeFields fields
  def encodeList : List Val → List Tok
    | [] => []
    | v :: vs => encode v ++ encodeList vs
  def encodeFields : List (String × Val) → List Tok
    | [] => []
    | (k, v) :: fs => .key k :: (encode v ++ encodeFields fs)
end

mutual
  /-- decode one value; `fuel` bounds the recursion depth -/
  def decode : Nat → List Tok → Option (Val × List Tok)
    | 0, _ => none
    | _ + 1, [] => none
    | fuel + 1, t :: ts =>
      match t with
      | .null => some (.null, ts)
      | .bool b => some (.bool b, ts)
      | .num s => some (.num s, ts)
      | .str s => some (.str s, ts)
      | .arr n => (decodeList fuel n ts).map fun (vs, r) => (.arr vs, r)
      | .obj n => (decodeFields fuel n ts).map fun (fs, r) => (.obj fs, r)
      | .key _ => none
  def decodeList : Nat → Nat → List Tok → Option (List Val × List Tok)
    | _, 0, ts => some ([], ts)
    | 0, _ + 1, _ => none
    | fuel + 1, n + 1, ts =>
      match decode fuel ts with
      | none => none
      | some (v, r) => (decodeList fuel n r).map fun (vs, r') => (v :: vs, r')
  def decodeFields : Nat → Nat → List Tok → Option (List (String × Val) × List Tok)
    | _, 0, ts => some ([], ts)
    | 0, _ + 1, _ => none
    | fuel + 1, n + 1, ts =>
      match ts with
      | .key k :: ts' =>
        match decode fuel ts' with
        | none => none
        | some (v, r) => (decodeFields fuel n r).map fun (fs, r') => ((k, v) :: fs, r')
      | _ => none
end

mutual
  def vsize : Val → Nat
    | .null => 1 | .bool _ => 1 | .num _ => 1 | .str _ => 1
    | .arr items => 1 + lsize items
    | .obj fields => 1 + fsize fields
  def lsize : List Val → Nat
    | [] => 1
    | v :: vs => 1 + vsize v + lsize vs
  def fsize : List (String × Val) → Nat
    | [] => 1
    | (_, v) :: fs => 1 + vsize v + fsize fs
end

/-! ### `json.dumps(value, indent=4)` (ensure_ascii=True, default separators for indent) -/

def hexDigit (n : Nat) : Char := if n < 10 then Char.ofNat (48 + n) else Char.ofNat (87 + n)

def hex4 (n : Nat) : String :=
  String.ofList [hexDigit (n / 4096 % 16), hexDigit (n / 256 % 16), hexDigit (n / 16 % 16), hexDigit (n % 16)]

/-- `ensure_ascii` escape of one code point (astral code points become a surrogate pair) -/
def escChar (c : Char) : String :=
  if c = '"' then "\\\"" else if c = '\\' then "\\\\"
  else if c = '\n' then "\\n" else if c = '\r' then "\\r" else if c = '\t' then "\\t"
  else if c = '\x08' then "\\b" else if c = '\x0c' then "\\f"
  else if c.toNat < 32 ∨ c.toNat > 126 then
    if c.toNat < 65536 then "\\u" ++ hex4 c.toNat
    else
      let v := c.toNat - 65536
      "\\u" ++ hex4 (55296 + v / 1024) ++ "\\u" ++ hex4 (56320 + v % 1024)
  else String.singleton c

def quote (s : String) : String := "\"" ++ String.join (s.toList.map escChar) ++ "\""

def pad (level : Nat) : String := String.ofList (List.replicate (4 * level) ' ')

mutual
  def render (level : Nat) : Val → String
    | .null => "null"
    | .bool true => "true"
    | .bool false => "false"
    | .num s => s
    | .str s => quote s
    | .arr [] => "[]"
    | .arr (v :: vs) =>
      "[\n" ++ pad (level + 1) ++ render (level + 1) v ++ renderItems (level + 1) vs ++ "\n" ++ pad level ++ "]"
    | .obj [] => "{}"
    | .obj ((k, v) :: fs) =>
      "{\n" ++ pad (level + 1) ++ quote k ++ ": " ++ render (level + 1) v ++ renderFields (level + 1) fs
        ++ "\n" ++ pad level ++ "}"
  def renderItems (level : Nat) : List Val → String
    | [] => ""
    | v :: vs => ",\n" ++ pad level ++ render level v ++ renderItems level vs
  def renderFields (level : Nat) : List (String × Val) → String
    | [] => ""
    | (k, v) :: fs => ",\n" ++ pad level ++ quote k ++ ": " ++ render level v ++ renderFields level fs
end

/-- `to_json()` text -/
def dumps (v : Val) : String := render 0 v

/-! ### NIfTI container: content is padded with NUL bytes to a multiple of 16 and the padding is
stripped on load -/

def pad16 (bs : List UInt8) : List UInt8 :=
  bs ++ List.replicate ((16 - (bs.length + 8) % 16) % 16) 0

def rstripNul (bs : List UInt8) : List UInt8 := (bs.reverse.dropWhile (· == 0)).reverse

end Js
