import DcmVerif.Model.Stack
/-! `DicomStack.add_dcm` (dcmstack.py 486–566) as a state machine: which datasets are refused and
why, what an accepted one records, and that a refused one records nothing.  A dataset is abstracted
to what `add_dcm` looks at: has it pixels, matrix size, PixelSpacing ++ ImageOrientationPatient on
the harness's 1e-6 lattice, its sorting tuple, repetition time and phase-encoding direction. -/
set_option autoImplicit false

namespace Stk

structure Cand where
  isImage : Bool
  rows : Nat
  cols : Nat
  geom : List Int            -- PixelSpacing ++ ImageOrientationPatient, in units of 1e-6
  f : F                      -- sorting tuple (vector, time, slice position) and identity
  tr : Option Int
  pe : Option Nat
deriving DecidableEq, Repr

/-- the meta data `_chk_close` reads from a candidate (or from the reference input): PixelSpacing is the first two
    numbers of `geom`, ImageOrientationPatient the rest -/
def Cand.closeMeta (c : Cand) (key : String) : List Int :=
  if key == "PixelSpacing" then c.geom.take 2 else if key == "ImageOrientationPatient" then c.geom.drop 2 else []

/-- the meta data `_chk_equal` reads: Rows and Columns -/
def Cand.eqMeta (c : Cand) (key : String) : Nat :=
  if key == "Rows" then c.rows else if key == "Columns" then c.cols else 0

/-- the tuple `add_dcm` records in `_sorting_tuples` -/
def tupleOf (f : F) : Int × Int × Int := (f.v, f.t, f.p)

structure AddSt where
  ref : Option Cand                    -- `_ref_input`
  files : List F                       -- `_files_info`, in the order of adding
  tuples : List (Int × Int × Int)      -- `_sorting_tuples` (a set: only membership is used)
  trs : List (Option Int)              -- `_repetition_times` (a set)
  pes : List (Option Nat)              -- `_phase_enc_dirs` (a set)
  dirty : Bool
deriving DecidableEq, Repr

def AddSt.init : AddSt := { ref := none, files := [], tuples := [], trs := [], pes := [], dirty := true }

inductive AddOut
  | ok
  | nonImage
  | incongruent
  | collision
deriving DecidableEq, Repr

/-- `np.allclose(a, b, atol=5e-5)` (rtol 1e-5) for one pair of values in units of 1e-6:
    |a − b| ≤ 50 + 1e-5·|b| -/
def closeInt (a b : Int) : Bool := decide (100000 * (a - b).natAbs ≤ 5000000 + b.natAbs)

def closeList : List Int → List Int → Bool
  | [], [] => true
  | a :: as, b :: bs => closeInt a b && closeList as bs
  | _, _ => false

/-- `_chk_congruent`: spacing and orientation close to the reference input's, matrix size equal -/
def congruent (ref c : Cand) : Bool :=
  closeList c.geom ref.geom && c.rows == ref.rows && c.cols == ref.cols

def setInsert {β : Type} [DecidableEq β] (x : β) (l : List β) : List β := if x ∈ l then l else l ++ [x]

/-- does `_chk_congruent` raise? (no reference input yet: nothing to compare with) -/
def incongruentWith : Option Cand → Cand → Bool
  | some r, c => !congruent r c
  | none, _ => false

/-- `_ref_input` after an accepted dataset: the first accepted one stays -/
def refAfter : Option Cand → Cand → Option Cand
  | some r, _ => some r
  | none, c => some c

/-- one call of `add_dcm`; `explicit` = a time or vector ordering was given -/
def addDcm (explicit : Bool) (st : AddSt) (c : Cand) : AddSt × AddOut :=
  if !c.isImage then (st, .nonImage)
  else if incongruentWith st.ref c then (st, .incongruent)
  else if explicit && decide (tupleOf c.f ∈ st.tuples) then (st, .collision)
  else
    ({ ref := refAfter st.ref c,
       files := st.files ++ [c.f],
       tuples := setInsert (tupleOf c.f) st.tuples,
       trs := setInsert c.tr st.trs,
       pes := setInsert c.pe st.pes,
       dirty := true }, .ok)

/-- a sequence of calls: final state and the outcome of every call -/
def addAll (explicit : Bool) : AddSt → List Cand → AddSt × List AddOut
  | st, [] => (st, [])
  | st, c :: cs =>
    let r := addDcm explicit st c
    let rest := addAll explicit r.1 cs
    (rest.1, r.2 :: rest.2)

end Stk
