/-! Classifications and the shape digest read by the per-key model of `dcmmeta.py`. -/
set_option autoImplicit false

inductive Cls | gconst | gslices | tsamples | tslices | vsamples | vslices
deriving DecidableEq, Repr
/-- What per-key operations read from an extension. -/
structure Shp where
  nd : Nat            -- 3, 4 or 5
  S : Nat             -- n_slices = shape[slice_dim]
  T : Nat             -- shape[3] (1 when nd = 3)
  V : Nat             -- shape[4] (1 when nd < 5)
  hasSlice : Bool     -- slice_dim is not None
  hasTime : Bool      -- 'time' in _content
  hasVector : Bool    -- 'vector' in _content
deriving DecidableEq, Repr

