import DcmVerif.Model.StackAdd
/-! Header fields `DicomStack.to_nifti` derives from the files (dcmstack.py 896–942): repetition
time, frequency / phase / slice axes, slice timing.  Times are integers (microseconds); the
`np.allclose` comparisons of the code coincide with equality on the harness's lattice (multiples of
0.5 s, far below 1 s·1e5 where the relative tolerance would reach one lattice step). -/
set_option autoImplicit false

namespace Stk

/-- `pixdim[4]`: written only if `_repetition_times` holds exactly one value and it is not None -/
def trOf : List (Option Int) → Option Int
  | [some x] => some x
  | _ => none

/-- `dim_info`: slice axis always; phase / frequency axes only if `_phase_enc_dirs` holds exactly
    one value and it is not None (0 = 'ROW': phase on permutation[1]; anything else: on
    permutation[0]).  Result: (freq, phase, slice). -/
def dimInfoOf (pes : List (Option Nat)) (perm : List Nat) : Option Nat × Option Nat × Option Nat :=
  let slice := perm[2]?
  match pes with
  | [some d] => if d = 0 then (perm[0]?, perm[1]?, slice) else (perm[1]?, perm[0]?, slice)
  | _ => (none, none, slice)

def minOf : List Int → Int
  | [] => 0
  | x :: xs => xs.foldl min x

/-- `times -= np.min(times)` -/
def relTimes (l : List Int) : List Int := l.map (· - minOf l)

/-- the acquisition times of volume `vol` (files `vol·n … vol·n + n − 1` of the current file order) -/
def volTimes (n vol : Nat) (acq : List Int) : List Int := (acq.drop (vol * n)).take n

/-- the consistency loop over the volumes 1 … nVols − 1 (stops at the first deviating volume) -/
def consistentFrom (n : Nat) (first : List Int) (acq : List Int) : Nat → Nat → Bool
  | _, 0 => true
  | vol, k + 1 => relTimes (volTimes n vol acq) == first && consistentFrom n first acq (vol + 1) k

/-- the slice times `to_nifti` hands to `set_slice_times` (`none`: none are set) -/
def sliceTimesOf (filesPerVol nVols n : Nat) (acq : List (Option Int)) : Option (List Int) :=
  if 1 < filesPerVol ∧ acq.all Option.isSome then
    let times := acq.map fun x => x.getD 0
    let first := relTimes (volTimes n 0 times)
    if consistentFrom n first times 1 (nVols - 1) ∧ first.any (· ≠ 0) then some first else none
  else none

end Stk
