import DcmVerif.Model.Ext
import DcmVerif.Model.Filter
/-! Decision logic of the command-line tools: the filter lists `dcmstack_cli.main` builds from the
module defaults (with Python list aliasing made explicit), the uniqueness suffix of output names,
and `nitool inject`. -/
set_option autoImplicit false
open Cls

namespace Cli

/-- the module-level lists `dcmstack.default_key_excl_res` / `default_key_incl_res` -/
structure Globals where
  excl : List String
  incl : List String
deriving DecidableEq, Repr

structure Args where
  extraExcl : List String     -- `-e` options
  extraIncl : List String     -- `-i` options
deriving DecidableEq, Repr

/-- the lists one invocation filters with, and the module lists afterwards; `alias` = the code binds
    the module list object and extends it in place (`x = defaults; x += extra`) -/
def filterLists (alias : Bool) (g : Globals) (a : Args) : Globals × (List String × List String) :=
  let excl := g.excl ++ a.extraExcl
  let incl := g.incl ++ a.extraIncl
  (if alias then { excl := excl, incl := incl } else g, (excl, incl))

/-- the filter lists of every invocation of a sequence in one process -/
def runSeq (alias : Bool) : Globals → List Args → List (List String × List String)
  | _, [] => []
  | g, a :: as => (filterLists alias g a).2 :: runSeq alias (filterLists alias g a).1 as

/-- the code as it stands (flag extracted from the source by the translator) -/
def mainFilterLists (g : Globals) (a : Args) := filterLists Gen.cliAliasesDefaults g a

/-! output names -/

/-- `'%s-%03d' % (name, idx)` for an abstract, injective rendering of the index -/
def suffixed (fmt : Nat → String) (name : String) (idx : Nat) : String := name ++ "-" ++ fmt idx

/-- the `while` loop that advances the suffix index until the name is unused (fuel = number of
    names generated so far + 1 always suffices) -/
def pickFree (fmt : Nat → String) (gen : List String) (name : String) : Nat → Nat → Option String
  | 0, _ => none
  | fuel + 1, idx =>
    if gen.contains (suffixed fmt name idx) then pickFree fmt gen name fuel (idx + 1)
    else some (suffixed fmt name idx)

/-- names of the files written for the groups of one source directory, in group order -/
def outNames (fmt : Nat → String) : List String → List String → Nat → Option (List String)
  | [], _, _ => some []
  | n :: ns, gen, idx =>
    let chosen : Option String :=
      if gen.contains n then pickFree fmt gen n (gen.length + 1) idx else some n
    match chosen with
    | none => none
    | some c => (outNames fmt ns (c :: gen) (idx + 1)).map (c :: ·)

/-! `nitool inject` -/

inductive InjOut (κ α : Type)
  | rc (code : Nat)
  | ok (e : DExt κ α)

/-- `inject(args)`: classification must be valid, the number of values must equal the
    multiplicity, the key must be new unless `-f` -/
def inject {κ α : Type} [DecidableEq κ] [DecidableEq α] (e : DExt κ α) (cls : Cls) (key : κ)
    (vals : List α) (force : Bool) : InjOut κ α :=
  if cls ∉ validClasses e.shp then .rc 1
  else if vals.length ≠ mult e.shp cls then .rc 1
  else if e.ents.any (fun x => x.1 == key) then
    (if !force then .rc 1
     else .ok { e with ents := (e.ents.filter fun x => !(x.1 == key)) ++ [(key, cls, vals)] })
  else .ok { e with ents := e.ents ++ [(key, cls, vals)] }

end Cli
