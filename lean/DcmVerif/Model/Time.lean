import DcmVerif.Model.Phoenix
/-! `dcm_time_to_sec` (dcmstack.py 257–282) = `tm_to_seconds` (extract.py 276–301): DICOM TM string
to seconds past midnight, as an exact decimal `num / 10^scale`. -/
set_option autoImplicit false

namespace Tm
open Phx

/-- `str.replace(':', '')` -/
def dropColons (s : Str) : Str := s.filter (· != ':')

/-- `int(s)` including the whitespace stripping `int()` itself does -/
def pyIntWs (s : Str) : Option Int := pyInt (strip s)

/-- exact value of a decimal float lexeme `[sign] digits [. digits] [e [sign] digits]` (no
    underscores, no inf/nan): `(mantissa, scale)` meaning `mantissa / 10^scale`; the exponent part
    is folded into the pair -/
def digitsNat (acc : Nat) : Str → Option Nat
  | [] => some acc
  | c :: cs => if isDigit c then digitsNat (acc * 10 + digitVal c) cs else none

structure Dec where
  neg : Bool
  mant : Nat
  scale : Int      -- value = ±mant · 10^(−scale)
deriving DecidableEq, Repr

def pyFloatDec (s0 : Str) : Option Dec :=
  let s := strip s0
  let sg := splitSign s
  let me := splitAt (fun c => c == 'e' || c == 'E') sg.2
  let ifp := splitAt (· == '.') me.1
  let ip := ifp.1
  let fp := ifp.2.getD []
  if ip.isEmpty && fp.isEmpty then none
  else
    match digitsNat 0 (ip ++ fp) with
    | none => none
    | some m =>
      match me.2 with
      | none => some ⟨sg.1, m, fp.length⟩
      | some e =>
        let es := splitSign e
        if es.2.isEmpty then none else
        match digitsNat 0 es.2 with
        | none => none
        | some ev => some ⟨sg.1, m, (fp.length : Int) - (if es.1 then -(ev : Int) else ev)⟩

inductive Out
  | ok (secs : Int) (frac : Option Dec)     -- whole seconds from hh, mm ; optional float part
  | valueError
deriving DecidableEq, Repr

/-- `dcm_time_to_sec(time_str)` -/
def toSec (t : Str) : Out :=
  let s := dropColons t
  match pyIntWs (s.take 2) with
  | none => .valueError
  | some hh =>
    if s.length ≤ 2 then .ok (hh * 3600) none
    else
      match pyIntWs ((s.drop 2).take 2) with
      | none => .valueError
      | some mm =>
        if s.length ≤ 4 then .ok (hh * 3600 + mm * 60) none
        else
          match pyFloatDec (s.drop 4) with
          | none => .valueError
          | some d => .ok (hh * 3600 + mm * 60) (some d)

end Tm
