import DcmVerif.Generated.Tables
/-! Decision logic of `MetaExtractor.__call__` (extract.py 427–525) over an abstraction of the
dataset: which elements become entries, under which key.  pydicom (parsing, `decode()`, keyword
dictionary, value multiplicity), nibabel's CSA reader and the VR conversion callables are
parameters: the abstraction carries their outcomes. -/
set_option autoImplicit false

namespace Ex

structure Elem where
  group : Nat
  elem : Nat
  keyword : String          -- keyword_for_tag(tag); "" when the dictionary has none
  name : String             -- elem.name
  blankStr : Bool           -- the value is a str that is empty after strip()
  isSeq : Bool              -- the value is a pydicom Sequence
  seqEmpty : Bool           -- … with no items (then every item is "None" vacuously)
  valueNone : Bool          -- `_get_elem_value` gives None
  creator : Option String   -- `some value` when elem.name == "Private Creator"
  transKeys : Option (List String)  -- keys of the dict its translator returns (`none`: falsy / raised)
  customIgnored : Bool := false     -- a user-supplied ignore rule returns True for the element
deriving DecidableEq, Repr

structure Translator where
  name : String
  tagElem : Nat
  privCreator : String
deriving DecidableEq, Repr

/-- `tag_to_str`: `'%#X_%#X' % (group, elem)` -/
def hexUpper (n : Nat) : String := String.ofList ((Nat.toDigits 16 n).map Char.toUpper)
def tagToStr (g e : Nat) : String := "0X" ++ hexUpper g ++ "_0X" ++ hexUpper e

def capFirst (t : List Char) : List Char :=
  match t with
  | [] => []
  | c :: cs => c.toUpper :: cs

def isSpace (c : Char) : Bool := c = ' ' || c = '\t' || c = '\n' || c = '\r' || c = '\x0b' || c = '\x0c'

/-- `str.split()` : maximal runs of non-whitespace -/
def splitWs : List Char → List (List Char)
  | [] => []
  | c :: cs =>
    if isSpace c then splitWs cs
    else
      match splitWs cs with
      | [] => [[c]]
      | t :: ts =>
        match cs with
        | [] => [[c]]
        | d :: _ => if isSpace d then [c] :: t :: ts else (c :: t) :: ts

/-- `_get_elem_key`: the keyword, else the bracket-stripped, camel-cased name -/
def elemKey (e : Elem) : String :=
  if e.keyword ≠ "" then e.keyword
  else
    let n := e.name.toList
    let n := if n.head? = some '[' ∧ n.getLast? = some ']' then (n.drop 1).dropLast else n
    String.ofList ((splitWs n).map capFirst).flatten

/-! default ignore rules -/
def ignorePrivate (e : Elem) : Bool := e.group % 2 == 1
def ignorePixel (e : Elem) : Bool := e.group == 0x7fe0 && Gen.pixelDataElems.contains e.elem
def ignoreOverlay (e : Elem) : Bool := (e.group / 256 == 0x60) && e.elem == 0x3000
def ignoreLut (e : Elem) : Bool := e.group == 0x28 && Gen.colorLutElems.contains e.elem

def ruleByName : String → Elem → Bool
  | "ignore_private" => ignorePrivate
  | "ignore_pixel_data" => ignorePixel
  | "ignore_overlay_data" => ignoreOverlay
  | "ignore_color_lut_data" => ignoreLut
  | "custom" => fun e => e.customIgnored
  | _ => fun _ => false

def ignored (rules : List String) (e : Elem) : Bool := rules.any fun r => ruleByName r e

structure State where
  transMap : List ((Nat × Nat) × String)       -- tag ↦ translator name
  standard : List (String × Nat × Nat)         -- (name, group, elem), in dataset order
  trans : List (String × List String)          -- translator name ↦ keys (later result replaces)
deriving Repr

def setTrans (d : List (String × List String)) (k : String) (v : List String) :
    List (String × List String) :=
  match d with
  | [] => [(k, v)]
  | (k', v') :: rest => if k' = k then (k, v) :: rest else (k', v') :: setTrans rest k v

/-- registration of the translators of a private-creator element; `none` = ValueError (two
    translators for one tag) -/
def register (ts : List Translator) (e : Elem) (s : String)
    (m : List ((Nat × Nat) × String)) : Option (List ((Nat × Nat) × String)) :=
  ts.foldl (fun acc t =>
    acc.bind fun m =>
      if t.privCreator = s then
        let newTag := (e.group, (t.tagElem % 256) + e.elem * 256)
        if (m.map (·.1)).contains newTag then none else some (m ++ [(newTag, t.name)])
      else some m) (some m)

/-- the private-creator block of the loop -/
def regFor (ts : List Translator) (st : State) (e : Elem) : Option (List ((Nat × Nat) × String)) :=
  match e.creator with
  | some s => register ts e s st.transMap
  | none => some st.transMap

/-- outcome of a translated element -/
def transStep (st : State) (tname : String) (keys : Option (List String)) : State :=
  match keys with
  | some ks => if ks.isEmpty then st else { st with trans := setTrans st.trans tname ks }
  | none => st

/-- the untranslated branches: ignore rules, sequences, plain values -/
def plainStep (rules : List String) (st : State) (e : Elem) : State :=
  if ignored rules e then st
  else if e.isSeq then
    (if e.seqEmpty then st
     else { st with standard := st.standard ++ [(elemKey e, e.group, e.elem)] })
  else if e.valueNone then st
  else { st with standard := st.standard ++ [(elemKey e, e.group, e.elem)] }

def lookupTrans (tm : List ((Nat × Nat) × String)) (e : Elem) : Option String :=
  (tm.find? (fun p => p.1 == (e.group, e.elem))).map (·.2)

/-- one iteration of the loop over the dataset; `none` = ValueError -/
def stepElem (rules : List String) (ts : List Translator) (st : State) (e : Elem) : Option State :=
  if e.blankStr then some st
  else
    (regFor ts st e).map fun tm =>
      match lookupTrans tm e with
      | some tname => transStep { st with transMap := tm } tname e.transKeys
      | none => plainStep rules { st with transMap := tm } e

def runElems (rules : List String) (ts : List Translator) : State → List Elem → Option State
  | st, [] => some st
  | st, e :: es =>
    match stepElem rules ts st e with
    | none => none
    | some st' => runElems rules ts st' es

/-- name-collision handling: a name used more than once gets the tag appended -/
def finalName (std : List (String × Nat × Nat)) (x : String × Nat × Nat) : String :=
  if (std.filter fun y => y.1 == x.1).length > 1 then x.1 ++ "_" ++ tagToStr x.2.1 x.2.2 else x.1

/-- `OrderedDict` assignment of keys in order: a repeated key keeps its first position -/
def dedupKeys : List String → List String
  | [] => []
  | k :: ks => k :: (dedupKeys ks).filter (· != k)

/-- the keys of the result, in order (`none` = ValueError) -/
def extractKeys (rules : List String) (ts : List Translator) (ds : List Elem) : Option (List String) :=
  (runElems rules ts ⟨[], [], []⟩ ds).map fun st =>
    let std := st.standard.map (finalName st.standard)
    let tr := st.trans.flatMap fun p => p.2.map fun k => p.1 ++ "." ++ k
    dedupKeys (std ++ tr)

end Ex
