/-! Orientation logic of `dcmstack.reorder_voxels`, `ornt_transform`, `axcodes2ornt`
(dcmstack.py 110–254).  nibabel's `io_orientation`, `apply_orientation`, `inv_ornt_aff` are
external: they appear here as executable reference versions for axis-aligned affines, validated
against nibabel by the `orient` correspondence suite. -/
set_option autoImplicit false

namespace Orient

abbrev Ax := Nat × Bool                   -- (world axis 0..2, true = positive direction)
abbrev Ornt := List Ax                    -- one entry per array axis

def axes : List Nat := [0, 1, 2]
def allAx : List Ax := axes.flatMap fun a => [(a, true), (a, false)]
def isPerm (o : Ornt) : Bool := axes.all fun a => (o.filter (·.1 == a)).length == 1
def all48 : List Ornt :=
  (allAx.flatMap fun a => allAx.flatMap fun b => allAx.map fun c => [a, b, c]).filter isPerm

/-- Python `str.upper()` on ASCII letters -/
def upperC (c : Char) : Char := if 'a' ≤ c ∧ c ≤ 'z' then Char.ofNat (c.toNat - 32) else c

/-- the validation loop of `reorder_voxels`, literally: `dcm_axes = ['LR','AP','SI']`; for every
    character, error if not in 'LRAPSI'; then for idx, axis in enumerate(dcm_axes): delete the axis
    containing the character *while iterating* (the element after a deleted one is skipped).
    Returns the axes left over, or `none` for the "must be one of" error. -/
def delWhileIter (ch : Char) : List (List Char) → List (List Char)
  | [] => []
  | ax :: rest =>
    if ch ∈ ax then
      -- `del dcm_axes[idx]` : the list shifts left, the loop index moves on, so the next element
      -- is skipped
      match rest with
      | [] => []
      | nxt :: rest' => nxt :: delWhileIter ch rest'
    else ax :: delWhileIter ch rest

def checkLoop : List Char → List (List Char) → Option (List (List Char))
  | [], acc => some acc
  | ch :: cs, acc =>
    if ch ∈ ['L', 'R', 'A', 'P', 'S', 'I'] then checkLoop cs (delWhileIter ch acc) else none

/-- `len(dcm_axes) != 0` after the loop (or the loop raised) -/
def leftEmpty : Option (List (List Char)) → Bool
  | none => false
  | some left => left.isEmpty

/-- `true` iff `reorder_voxels` gets past its voxel_order checks -/
def checkCode (s : List Char) : Bool :=
  let u := s.map upperC
  if u.length ≠ 3 then false
  else leftEmpty (checkLoop u [['L', 'R'], ['A', 'P'], ['S', 'I']])

/-- `axcodes2ornt(code)` with the default labels (('L','R'),('P','A'),('I','S')) -/
def axOf (c : Char) : Option Ax :=
  if c = 'L' then some (0, false) else if c = 'R' then some (0, true)
  else if c = 'P' then some (1, false) else if c = 'A' then some (1, true)
  else if c = 'I' then some (2, false) else if c = 'S' then some (2, true) else none

def axcodes2ornt (s : List Char) : Option Ornt := s.mapM axOf

def codes48 : List (List Char) :=
  let ls := ['L', 'R', 'A', 'P', 'S', 'I']
  (ls.flatMap fun a => ls.flatMap fun b => ls.map fun c => [a, b, c]).filter fun s =>
    match axcodes2ornt s with
    | some o => isPerm o
    | none => false

/-- dcmstack.ornt_transform: result[start_in] = (end_in, keep-direction); `none` = ValueError -/
def findStart (start : Ornt) (a : Nat) : Option (Nat × Ax) :=
  (start.zipIdx.find? (fun p => p.1.1 == a)).map fun p => (p.2, p.1)

def orntStep (start : Ornt) (acc : Option (List (Option (Nat × Bool)))) (e : Nat × Ax) :
    Option (List (Option (Nat × Bool))) :=
  acc.bind fun res =>
    match findStart start e.2.1 with
    | none => none
    | some (si, s) => some (res.set si (some (e.1, s.2 == e.2.2)))

def orntTransform (start end_ : Ornt) : Option (List (Nat × Bool)) :=
  let init : List (Option (Nat × Bool)) := start.map fun _ => none
  ((end_.zipIdx.map fun p => (p.2, p.1)).foldl (orntStep start) (some init)).bind fun res =>
    res.mapM id

/-- orientation of the reordered array: output axis j shows the world axis / direction of the input
    axis that the transform sends to j -/
def applyTo (start : Ornt) (t : List (Nat × Bool)) : Ornt :=
  (List.range 3).map fun j =>
    match (start.zip t).find? (fun p => p.2.1 == j) with
    | some (s, (_, keep)) => (s.1, if keep then s.2 else !s.2)
    | none => (0, true)

/-- `apply_orientation` on indices: the input index that ends up at output index `out`.
    Input axis i goes to output axis t[i].1, reversed when the flag is false. -/
def srcIndex (t : List (Nat × Bool)) (shape : List Nat) (out : List Nat) : List Nat :=
  (t.zip shape).map fun p =>
    let o := out.getD p.1.1 0
    if p.1.2 then o else p.2 - 1 - o

/-- `inv_ornt_aff(ornt, shape)` as rows of a 3×4 integer matrix (last column = translation):
    row i reads `± out[t[i].1] (+ shape[i] − 1)` -/
def invOrntAffRow (p : (Nat × Bool) × Nat) : List Int :=
  let unit : List Int := (List.range 3).map fun j => if j = p.1.1 then (if p.1.2 then 1 else -1) else 0
  unit ++ [if p.1.2 then 0 else (p.2 : Int) - 1]

def invOrntAff (t : List (Nat × Bool)) (shape : List Nat) : List (List Int) :=
  (t.zip shape).map invOrntAffRow

def dot (row : List Int) (v : List Int) : Int := ((row.zip v).map fun p => p.1 * p.2).foldl (· + ·) 0

/-- `T · (out, 1)` -/
def matVec (m : List (List Int)) (out : List Nat) : List Int :=
  m.map fun row => dot row (out.map Int.ofNat ++ [1])

/-- shape after `apply_orientation`: output axis j has the length of the input axis sent to j -/
def outShape (t : List (Nat × Bool)) (shape : List Nat) : List Nat :=
  (List.range 3).map fun j =>
    match (t.zip shape).find? (fun p => p.1.1 == j) with
    | some p => p.2
    | none => 0

/-- reference `io_orientation` for an axis-aligned affine given by its columns
    `(world axis, positive?, zoom)` -/
structure Col where
  axis : Nat
  pos : Bool
  zoom : Nat
deriving DecidableEq, Repr

def ioOrientation (cols : List Col) : Ornt := cols.map fun c => (c.axis, c.pos)

/-- columns of `affine · inv_ornt_aff(t, shape)` : output axis j takes the column of the input axis
    sent to j, negated when reversed -/
def mulCols (cols : List Col) (t : List (Nat × Bool)) : List Col :=
  (List.range 3).map fun j =>
    match (cols.zip t).find? (fun p => p.2.1 == j) with
    | some (c, (_, keep)) => { c with pos := if keep then c.pos else !c.pos }
    | none => ⟨0, true, 0⟩

inductive ROut
  | ok (t : List (Nat × Bool))
  | valueError
deriving DecidableEq, Repr

/-- decision logic of `reorder_voxels(vox_array, affine, voxel_order)` for an axis-aligned affine
    with column description `cols`; `nd` = number of array dimensions, `affOk` = affine is 4×4 -/
def reorder (nd : Nat) (affOk : Bool) (cols : List Col) (code : List Char) : ROut :=
  if !checkCode code then .valueError
  else if nd < 3 then .valueError
  else if !affOk then .valueError
  else
    match axcodes2ornt (code.map upperC) with
    | none => .valueError
    | some newO =>
      match orntTransform (ioOrientation cols) newO with
      | none => .valueError
      | some t => .ok t

end Orient
