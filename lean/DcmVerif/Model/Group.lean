/-! `parse_and_group` / `stack_group` (dcmstack.py 1001–1127) as decision logic: first-fit grouping
on (exact key, close key), fault handling.  Reading files (pydicom), `is_image`, extraction and the
float comparison `np.allclose` are parameters. -/
set_option autoImplicit false

namespace Grp

/-- what became of one path: a readable image file with its exact key `E` and close key `C`, a
    readable dataset without pixels, or an unreadable file -/
inductive Item (E C : Type)
  | file (id : Nat) (exact : E) (close : C)
  | nonImage
  | unreadable

/-- sub-results of one exact key: (representative close key, file ids in input order) -/
abbrev Subs (C : Type) := List (C × List Nat)

section
variable {E C : Type} [DecidableEq E]

/-- the `for c_list, sub_res in results[key]` loop with `break` / `else` -/
def placeSub (closeB : C → C → Bool) (id : Nat) (c : C) : Subs C → Subs C
  | [] => [(c, [id])]
  | (rep, ids) :: rest =>
    if closeB rep c then (rep, ids ++ [id]) :: rest else (rep, ids) :: placeSub closeB id c rest

/-- `results` : exact key ↦ sub-results, in first-seen order -/
def place (closeB : C → C → Bool) (id : Nat) (e : E) (c : C) : List (E × Subs C) → List (E × Subs C)
  | [] => [(e, [(c, [id])])]
  | (e', subs) :: rest =>
    if e' = e then (e', placeSub closeB id c subs) :: rest else (e', subs) :: place closeB id e c rest

inductive Out (E C : Type)
  | ok (groups : List (E × Subs C))
  | raised

/-- the main loop; `warn` = `warn_on_except` -/
def groupLoop (closeB : C → C → Bool) (warn : Bool) : List (Item E C) → List (E × Subs C) → Out E C
  | [], acc => .ok acc
  | .file id e c :: rest, acc => groupLoop closeB warn rest (place closeB id e c acc)
  | .nonImage :: rest, acc => groupLoop closeB warn rest acc
  | .unreadable :: rest, acc => if warn then groupLoop closeB warn rest acc else .raised

def parseAndGroup (closeB : C → C → Bool) (warn : Bool) (items : List (Item E C)) : Out E C :=
  groupLoop closeB warn items []

/-- all file ids in the grouping -/
def allIds (g : List (E × Subs C)) : List Nat := g.flatMap fun p => p.2.flatMap fun s => s.2

def fileIds : List (Item E C) → List Nat
  | [] => []
  | .file id _ _ :: rest => id :: fileIds rest
  | _ :: rest => fileIds rest

end

/-- `stack_group`: files that raise when added are skipped (warn) or abort (strict); `joins` says
    whether adding file `id` to the files accepted so far succeeds -/
def stackGroup (joins : List Nat → Nat → Bool) (warn : Bool) : List Nat → List Nat → Option (List Nat)
  | [], acc => some acc
  | id :: rest, acc =>
    if joins acc id then stackGroup joins warn rest (acc ++ [id])
    else if warn then stackGroup joins warn rest acc else none

end Grp
