import DcmVerif.Model.Key
/-! Extension level of the DcmMeta model: shape bookkeeping of `make_empty`, `get_subset`,
`from_sequence` (dcmmeta.py) around the per-key operations of `Model/Key.lean`.

An extension is kept as a *flat* list of `(key, class, values)` entries (a constant is a
one-element list); the order of keys inside a classification dictionary is not part of this
model (it is compared by the correspondence where a property is about order).  By construction
what a result says about one key is the per-key operation applied to what the inputs say about
that key — the factorisation of C13 — and the tie of that construction to the two loops of
`_insert` is the correspondence check. -/
set_option autoImplicit false
open Cls

/-- outcome of a modelled API call: a value, a Python exception kind, or "outside the modelled
    region" (the harness then relies on the implementation-side oracle only) -/
inductive Res (β : Type)
  | ok (b : β)
  | valueError
  | indexError
  | otherError
  | skip (why : String)

namespace Res
def ofExcept {β : Type} : Except Err β → Res β
  | .ok b => .ok b
  | .error .valueError => .valueError
  | .error .other => .otherError
def bind {β γ : Type} (r : Res β) (f : β → Res γ) : Res γ :=
  match r with
  | .ok b => f b
  | .valueError => .valueError
  | .indexError => .indexError
  | .otherError => .otherError
  | .skip w => .skip w
instance : Monad Res where
  pure := .ok
  bind := Res.bind
end Res

structure DExt (κ α : Type) where
  shape : List Nat
  sliceDim : Option Nat
  hasTime : Bool              -- 'time' in _content
  hasVector : Bool            -- 'vector' in _content
  ents : List (κ × Cls × List α)

/-- `while result_shape[-1] == 1 and len(result_shape) > 3: result_shape = result_shape[:-1]`,
    on the reversed list -/
def trimRev : List Nat → List Nat
  | 1 :: rest => if 3 ≤ rest.length then trimRev rest else 1 :: rest
  | l => l
def trimTrailing (l : List Nat) : List Nat := (trimRev l.reverse).reverse

/-- decidable mirror of `Consistent` (proved equivalent in `Proofs/Ext.lean`) -/
def Shp.okB (sh : Shp) : Bool :=
  decide (0 < sh.S) && decide (0 < sh.T) && decide (0 < sh.V) &&
  (sh.nd == 3 || sh.nd == 4 || sh.nd == 5) &&
  (sh.nd != 3 || (sh.T == 1 && sh.V == 1)) && (sh.nd != 4 || sh.V == 1) &&
  sh.hasSlice &&
  (sh.hasTime == (decide (4 ≤ sh.nd) && sh.T != 1)) &&
  (sh.hasVector == (sh.nd == 5)) &&
  (sh.nd != 4 || sh.T != 1)

/-- run per-key computations in order: the first exception wins; keys whose result is "absent"
    are left out -/
def Res.collect {β : Type} : List (Res (Option β)) → Res (List β)
  | [] => .ok []
  | r :: rs =>
    match r with
    | .ok ob =>
      (match Res.collect rs with
       | .ok l => .ok (match ob with | some b => b :: l | none => l)
       | .valueError => .valueError
       | .indexError => .indexError
       | .otherError => .otherError
       | .skip w => .skip w)
    | .valueError => .valueError
    | .indexError => .indexError
    | .otherError => .otherError
    | .skip w => .skip w

namespace DExt
variable {κ α : Type} [DecidableEq κ] [DecidableEq α]

/-- the digest per-key operations read; `sdArg` is the `slice_dim` argument that
    `_get_changed_class` falls back to when the extension has no slice dimension itself -/
def shp (e : DExt κ α) (sdArg : Option Nat := none) : Shp :=
  { nd := e.shape.length
    S := match e.sliceDim with
      | some d => e.shape.getD d 1
      | none => (match sdArg with | some d => e.shape.getD d 1 | none => 1)
    T := e.shape.getD 3 1
    V := e.shape.getD 4 1
    hasSlice := e.sliceDim.isSome
    hasTime := e.hasTime
    hasVector := e.hasVector }

/-- `get_values_and_class(key)` -/
def key (e : DExt κ α) (k : κ) : KeyState α :=
  (e.ents.find? fun x => x.1 == k).map fun x => x.2

def keys (e : DExt κ α) : List κ := (e.ents.map (·.1)).eraseDups

/-- every entry sits in a valid class with the right number of values, each key once -/
def validB (e : DExt κ α) : Bool :=
  e.ents.all (fun x => decide (x.2.1 ∈ validClasses e.shp) &&
    (x.2.2.length == (if x.2.1 = gconst then 1 else mult e.shp x.2.1))) &&
  decide ((e.ents.map (·.1)).Nodup)

/-- `DcmMetaExtension.make_empty(shape, affine, None, slice_dim)` (with the F1 repair: a 4-D
    shape always gets its `time` dictionaries) -/
def makeEmpty (shape : List Nat) (sd : Option Nat) : Res (DExt κ α) :=
  if ¬ (3 ≤ shape.length ∧ shape.length < 6) then .valueError
  else if sd.any (fun d => decide (3 ≤ d)) then .valueError
  else .ok { shape := shape, sliceDim := sd
             hasTime := decide (3 < shape.length) && (shape.getD 3 1 != 1 || shape.length == 4)
             hasVector := decide (4 < shape.length)
             ents := [] }

def subsetShape (shape : List Nat) (dim : Nat) : List Nat := trimTrailing (shape.set dim 1)

/-- what `get_subset(dim, idx)` makes of one entry: per-key subset by axis, then
    `result.get_class_dict(cls)[key] = …` (KeyError when the trimmed result lacks the base) -/
def subsetEntry (null : α) (sh rsh : Shp) (sliceDim : Option Nat) (dim idx : Nat)
    (x : κ × Cls × List α) : Res (Option (κ × Cls × List α)) :=
  let out : Except Err (KeyState α) :=
    if sliceDim = some dim then subsetSliceK null sh (some x.2) idx
    else if dim < 3 then .ok (some x.2)
    else if dim = 3 then subsetTimeK null sh (some x.2) idx
    else subsetVecK null sh (some x.2) idx
  match Res.ofExcept out with
  | .ok (some v) => if basePresent rsh v.1 then .ok (some (x.1, v)) else .otherError
  | .ok none => .ok none
  | .valueError => .valueError
  | .indexError => .indexError
  | .otherError => .otherError
  | .skip w => .skip w

/-- `get_subset(dim, idx)` -/
def getSubset (null : α) (e : DExt κ α) (dim idx : Nat) : Res (DExt κ α) :=
  if 5 ≤ dim then .valueError
  else if e.shape.length ≤ dim then .indexError
  else if (e.shape.length == 4 && e.shape.getD 3 1 == 1) || (e.shape.length == 5 && e.shape.getD 4 1 == 1)
    then .skip "parent with a singleton trailing axis (finding F23 region)"
  else if !e.validB then .skip "invalid parent"
  else if e.shape.getD dim 0 ≤ idx then .skip "index out of range"
  else
    match makeEmpty (κ := κ) (α := α) (subsetShape e.shape dim) e.sliceDim with
    | .ok r0 =>
      (match Res.collect (e.ents.map (subsetEntry null e.shp r0.shp e.sliceDim dim idx)) with
       | .ok ents => .ok { r0 with ents := ents }
       | .valueError => .valueError
       | .indexError => .indexError
       | .otherError => .otherError
       | .skip w => .skip w)
    | .valueError => .valueError
    | .indexError => .indexError
    | .otherError => .otherError
    | .skip w => .skip w

/-- `filter_meta(filter_func)` for a filter that looks at the key only (as the regex filter does):
    every valid classification loses exactly the keys the filter returns true for -/
def filterMeta (e : DExt κ α) (drop : κ → Bool) : DExt κ α :=
  { e with ents := e.ents.filter fun x => !drop x.1 }

/-- `clear_slice_meta()` -/
def clearSliceMeta (e : DExt κ α) : DExt κ α :=
  { e with ents := e.ents.filter fun x => !perSlice x.2.1 }

/-- what input `i` contributes for one key: its per-slice data is ignored when its slice normal
    differs from the result's (`use_slices` false) -/
def effKey (e : DExt κ α) (useSlices : Bool) (k : κ) : KeyState α :=
  match e.key k with
  | some (c, v) => if perSlice c && !useSlices then none else some (c, v)
  | none => none

def sameGeom (a b : DExt κ α) : Bool :=
  a.shape == b.shape && a.sliceDim == b.sliceDim && a.hasTime == b.hasTime &&
  a.hasVector == b.hasVector

/-- `from_sequence` restricted to one key: the per-key merge for the axis, then the final simplify
    of a key that ended in global slices -/
def mergeKey (null : α) (sh1 osh : Shp) (sd : Option Nat) (dim : Nat) (es : List (DExt κ α))
    (use : List Bool) (k : κ) : Res (Option (κ × Cls × List α)) :=
  let inputs := (es.zip use).map fun p => effKey p.1 p.2 k
  let out : Except Err (KeyState α) :=
    if sd = some dim then mergeSliceK null sh1 inputs
    else if dim < 3 then
      match inputs with
      | [] => .error .other
      | a :: tl =>
        match foldNonSliceK null sh1 a tl with
        | .error err => .error err
        | .ok r => (match r with
            | some (gslices, _) => applySimplify null sh1 r
            | _ => .ok r)
    else if dim = 3 then mergeTimeK null sh1 osh inputs
    else mergeVecK null sh1 osh inputs
  match Res.ofExcept out with
  | .ok r => .ok (r.map fun v => (k, v))
  | .valueError => .valueError
  | .indexError => .indexError
  | .otherError => .otherError
  | .skip w => .skip w

/-- `if slice_dim is None: slice_dim = first_input.slice_dim` -/
def pickSd (sdArg : Option Nat) (first : DExt κ α) : Option Nat :=
  match sdArg with
  | some d => some d
  | none => first.sliceDim

def outShapeOf (first : DExt κ α) (dim n : Nat) : List Nat :=
  (first.shape ++ List.replicate (dim + 1 - first.shape.length) 1).set dim n

/-- `DcmMetaExtension.from_sequence(seq, dim, affine, slice_dim)`; `use[i]` is the outcome of the
    slice-normal comparison for input `i` (a float computation, supplied by the caller) -/
def fromSequence (null : α) (es : List (DExt κ α)) (dim : Nat) (sdArg : Option Nat)
    (use : List Bool) : Res (DExt κ α) :=
  if 5 ≤ dim then .valueError else
  match es with
  | [] => .indexError
  | first :: rest =>
    if dim < first.shape.length ∧ first.shape.getD dim 1 ≠ 1 then .valueError
    else
      let outShape := outShapeOf first dim es.length
      let sd := pickSd sdArg first
      match makeEmpty (κ := κ) (α := α) outShape sd with
      | .ok r0 =>
        if !(rest.all (sameGeom first)) then .skip "inputs of different geometry" else
        if !(es.all validB) then .skip "invalid input" else
        if use.length ≠ es.length then .skip "bad use-slices vector" else
        -- the result while it holds only the first input: merge axis has length 1
        let sh1 := ({ r0 with shape := outShape.set dim 1 } : DExt κ α).shp
        let osh := first.shp sd
        (match Res.collect (((es.flatMap keys).eraseDups).map (mergeKey null sh1 osh sd dim es use)) with
         | .ok ents => .ok { r0 with ents := ents }
         | .valueError => .valueError
         | .indexError => .indexError
         | .otherError => .otherError
         | .skip w => .skip w)
      | .valueError => .valueError
      | .indexError => .indexError
      | .otherError => .otherError
      | .skip w => .skip w

/-- the hypotheses of the merge theorems hold for this call: valid inputs of one geometry and
    `Consistent` result shape for slice / non-slice spatial merges (`mergeSlice_lookup`,
    `mergeNonSlice_spec`); 3-D inputs for time merges (`mergeTime_lookup`); 3-D or trimmed 4-D inputs
    for vector merges (`mergeVec_lookup`) -/
def fromSequenceInDomain (es : List (DExt κ α)) (dim : Nat) (sdArg : Option Nat) : Bool :=
  match es with
  | [] => false
  | first :: rest =>
    let outShape := outShapeOf first dim es.length
    let sd := pickSd sdArg first
    match makeEmpty (κ := κ) (α := α) outShape sd with
    | .ok r0 =>
      let sh1 := ({ r0 with shape := outShape.set dim 1 } : DExt κ α).shp
      let osh := first.shp sd
      rest.all (sameGeom first) && es.all validB && decide (2 ≤ es.length) && sd.isSome &&
        first.sliceDim.isSome &&
        (if sd = some dim then sh1.okB
         else if dim < 3 then sh1.okB
         else if dim = 3 then
           decide (0 < sh1.S) && sh1.nd == 4 && sh1.V == 1 && !sh1.hasVector &&
             osh.nd == 3 && osh.S == sh1.S && osh.T == 1 && osh.V == 1
         else
           decide (0 < sh1.S) && decide (0 < sh1.T) && sh1.nd == 5 && sh1.hasVector &&
             (!sh1.hasTime || sh1.T != 1) && osh.S == sh1.S && osh.T == sh1.T && osh.V == 1 &&
             ((osh.nd == 3 && sh1.T == 1) || (osh.nd == 4 && sh1.T != 1)))
    | _ => false

def getSubsetInDomain (e : DExt κ α) (dim idx : Nat) : Bool :=
  e.shp.okB && e.validB && decide (idx < e.shape.getD dim 0) &&
    (if e.sliceDim = some dim then true
     else if dim < 3 then true
     else if dim = 3 then e.shape.length == 4
     else e.shape.length == 5)

end DExt
