import DcmVerif.Model.Key
/-! `make_key_regex_filter` (dcmstack.py 32–61) for literal patterns: `re.search(p, key)` of a
pattern without metacharacters is substring search.  (For arbitrary regular expressions the
matching relation is a parameter of `regexFilter` in `Model/Key.lean`.) -/
set_option autoImplicit false

namespace Flt

/-- `sub in s` for lists of characters -/
def infixB (sub : List Char) : List Char → Bool
  | [] => sub.isEmpty
  | c :: cs => sub.isPrefixOf (c :: cs) || infixB sub cs

def matchLit (p k : String) : Bool := infixB p.toList k.toList

/-- a pattern in which every character stands for itself -/
def isLiteral (p : String) : Bool := p.toList.all fun c => c.isAlphanum || c == '_'

/-- the default meta filter of `DicomStack`, with the pattern lists extracted from the source -/
def defaultFilter (k : String) : Bool := regexFilter matchLit Gen.defaultExcl Gen.defaultIncl k

/-- `make_key_regex_filter(default + extra_excl, default + extra_incl)` as the CLI builds it -/
def cliFilter (extraExcl extraIncl : List String) (k : String) : Bool :=
  regexFilter matchLit (Gen.defaultExcl ++ extraExcl) (Gen.defaultIncl ++ extraIncl) k

end Flt
