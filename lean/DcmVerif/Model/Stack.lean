/-! `DicomStack` (dcmstack.py 393–992) as a state machine over sorting tuples: the grid check of
`get_shape` / `_chk_order`, the canonical file order, the per-volume reversal of `to_nifti`, the
file index arithmetic of `get_data`.  Ordinates are integers (the harness works on an integer
lattice of slice positions; the 4 % spacing test is a parameter with an exact integer version). -/
set_option autoImplicit false

namespace Stk

/-- a file in the stack: its sorting tuple `(vector, time, slice position)` and an identity -/
structure F where
  v : Int
  t : Int
  p : Int
  id : Nat
deriving DecidableEq, Repr

/-- Python tuple comparison `a[1] <= b[1]` on `(vector, time, position)` -/
def lexLE (a b : F) : Bool :=
  decide (a.v < b.v) || (a.v == b.v && (decide (a.t < b.t) || (a.t == b.t && decide (a.p ≤ b.p))))

def posLE (a b : F) : Bool := decide (a.p ≤ b.p)

/-- stable insertion sort (structural recursion so that the kernel can evaluate it; Python's
    `sort` is stable too, and every stable sort of a total preorder gives the same list) -/
def insertBy {α : Type} (le : α → α → Bool) (x : α) : List α → List α
  | [] => [x]
  | y :: ys => if le x y then x :: y :: ys else y :: insertBy le x ys

/-- inserting from the right keeps equal elements in their original order -/
def isort {α : Type} (le : α → α → Bool) : List α → List α
  | [] => []
  | x :: xs => insertBy le x (isort le xs)

def insertDistinct (x : Int) : List Int → List Int
  | [] => [x]
  | y :: ys => if x < y then x :: y :: ys else if x = y then y :: ys else y :: insertDistinct x ys

/-- `sorted(set(values))` -/
def distinctSorted : List Int → List Int
  | [] => []
  | x :: xs => insertDistinct x (distinctSorted xs)

def chunks {α : Type} (n : Nat) : Nat → List α → List (List α)
  | 0, _ => []
  | k + 1, l => l.take n :: chunks n k (l.drop n)

/-- `_chk_order`'s two sorts: by tuple, then every volume block by slice position -/
def chkSort (S vols : Nat) (files : List F) : List F :=
  ((chunks S vols (isort lexLE files)).map (isort posLE)).flatten

/-- the reversal of every volume's files when the slice axis is flipped (dcmstack.py 877–886) -/
def reverseBlocks {α : Type} (S vols : Nat) (l : List α) : List α :=
  ((chunks S vols l).map List.reverse).flatten

/-- exact integer version of `np.allclose(mean(spacings), spacings, rtol=num/den)` for integer
    positions (atol = 1e-8 is below the lattice resolution): ∀ g, |sum − k·g| · den ≤ num · k · |g| -/
def spacingOkInt (num den : Nat) (pos : List Int) : Bool :=
  let gaps := (pos.zip (pos.drop 1)).map fun q => q.2 - q.1
  let k : Int := gaps.length
  let sum := gaps.foldl (· + ·) 0
  gaps.all fun g => decide ((sum - k * g).natAbs * den ≤ num * (k * g).natAbs)

inductive ShapeOut
  | ok (S T V : Nat)
  | invalid
deriving DecidableEq, Repr

def allSameV : List F → Bool
  | [] => true
  | x :: xs => xs.all (·.v == x.v)

/-- the dimensions `get_shape` derives from counts: distinct positions, volumes per vector value,
    distinct vector values -/
def dimS (files : List F) : Nat := (distinctSorted (files.map (·.p))).length
def dimV (files : List F) : Nat := (distinctSorted (files.map (·.v))).length
def dimT (files : List F) : Nat := files.length / dimS files / dimV files

/-- every check of `get_shape` / `_chk_order` with explicit (or no) ordering keys; each failing
    conjunct is an `InvalidStackError` in the code (in this order) -/
def acceptB (spacingOk : List Int → Bool) (files : List F) : Bool :=
  decide (files.length ≠ 0) &&
  (!(decide (dimS files > 1)) || spacingOk (distinctSorted (files.map (·.p)))) &&
  decide (files.length % dimS files = 0) &&
  decide (dimV files ≤ files.length / dimS files) &&
  decide (files.length / dimS files % dimV files = 0) &&
  (chunks (dimT files * dimS files) (dimV files)
      (chkSort (dimS files) (files.length / dimS files) files)).all allSameV &&
  (chunks (dimS files) (files.length / dimS files)
      (chkSort (dimS files) (files.length / dimS files) files)).all
    (fun b => b.map (·.p) == distinctSorted (files.map (·.p)))

def getShape (spacingOk : List Int → Bool) (files : List F) : ShapeOut :=
  if acceptB spacingOk files then .ok (dimS files) (dimT files) (dimV files) else .invalid

/-- `get_data`'s `file_idx` for slice s, time t, vector v -/
def fileIdx (S T : Nat) (s t v : Nat) : Nat := v * (T * S) + t * S + s

/-! ### the mutable stack -/

structure St where
  files : List F
  dirty : Bool            -- `_shape_dirty`
deriving DecidableEq, Repr

inductive Op
  | shape
  | data
  | affine
  | nifti (flip : Bool)     -- does the requested voxel order flip the slice axis?
deriving DecidableEq, Repr

/-- a query re-sorts only when the dirty flag is set (dcmstack.py 634–636); S and vols are
    functions of the file multiset -/
def canon (S vols : Nat) (st : St) : St :=
  if st.dirty then { files := chkSort S vols st.files, dirty := false } else st

/-- one public call on an accepted stack: new state and the file order the call's output is built
    from (data fill and affine use the order after the re-sort; embedded metadata and slice times
    use the order after the reversal) -/
def step (S vols : Nat) (st : St) : Op → St × List F
  | .nifti true =>
    let st1 := canon S vols st
    if S > 1 then
      let r := reverseBlocks S vols st1.files
      ({ files := r, dirty := true }, r)
    else (st1, st1.files)
  | _ =>
    let st1 := canon S vols st
    (st1, st1.files)

def run (S vols : Nat) (st : St) : List Op → St
  | [] => st
  | op :: ops => run S vols (step S vols st op).1 ops

/-! ### `get_shape` without ordering keys: guessing the key of the fourth dimension -/

/-- a file of a stack built without ordering keys: its sorting tuple `(None, None, position)` and,
    for every key of `sort_guesses` (in that order), the value the file carries (`none` = absent) -/
structure GF where
  f : F
  cands : List (Option Int)
deriving DecidableEq, Repr

/-- number of distinct values -/
def nDistinct (l : List Int) : Nat := (distinctSorted l).length

/-- values of candidate `k` over all files, `none` if some file lacks it -/
def candVals (files : List GF) (k : Nat) : Option (List Int) :=
  files.mapM fun g => (g.cands[k]?).join

/-- the keys `get_shape` considers (dcmstack.py 676–685): present in every file, and with as many
    distinct values as there are volumes or files -/
def possibleOrders (files : List GF) (nCands vols : Nat) : List Nat :=
  (List.range nCands).filter fun k =>
    match candVals files k with
    | none => false
    | some vs => nDistinct vs == vols || nDistinct vs == files.length

/-- the sorting tuples with the time ordinate taken from candidate `k` -/
def retime (files : List GF) (k : Nat) : List F :=
  files.map fun g => { g.f with t := ((g.cands[k]?).join).getD 0 }

/-- `get_shape` without ordering keys: the count checks, then (more than one volume) the first
    candidate key under which the files pass `_chk_order`.  Returns the shape and the chosen key. -/
def guessShape (spacingOk : List Int → Bool) (nCands : Nat) (files : List GF) :
    ShapeOut × Option Nat :=
  let fs := files.map (·.f)
  let vols := fs.length / dimS fs
  if fs.length = 0 ∨ dimS fs = 0 ∨ vols ≤ 1 then (getShape spacingOk fs, none)
  else
    match (possibleOrders files nCands vols).find? fun k => acceptB spacingOk (retime files k) with
    | some k => (.ok (dimS fs) (dimT fs) (dimV fs), some k)
    | none => (.invalid, none)


end Stk
