/-! Voxel arrays and affines at wrapper level: `NiftiWrapper.split` (dcmmeta.py 1441–1520) and
`NiftiWrapper.from_sequence` (dcmmeta.py 1587–1830), and the fill of `DicomStack.get_data` /
`get_affine` (dcmstack.py 739–828).

An array is a shape and an element function on index lists (what numpy basic indexing, `squeeze`
and assignment to a view do to it is stated below as composition of index maps: that is the assumed
numpy semantics, validated by the `wrap_split` / `wrap_merge` / `stack_fill` correspondences; what
the *code* contributes — which index expression it builds per axis, the trimming loop, the result
shape, the per-input fill, the cumulative translation update, the acceptance tests — is modelled
literally).  Affines are exact: integer 3×4 matrices (the harness keeps to an integer lattice on
which the `np.allclose` tests of the code coincide with the exact tests used here). -/
set_option autoImplicit false

namespace Wrap

/-! ### arrays -/

structure Arr (α : Type) where
  shape : List Nat
  el : List Nat → α

/-- one entry of a numpy basic-indexing tuple: an integer, `slice(None)`, or `slice(lo, lo+1)` -/
inductive Spec
  | int (i : Nat)
  | full
  | one (lo : Nat)
deriving DecidableEq, Repr

/-- shape of `a[specs]` -/
def viewShape : List Spec → List Nat → List Nat
  | .int _ :: ss, _ :: ns => viewShape ss ns
  | .full :: ss, n :: ns => n :: viewShape ss ns
  | .one _ :: ss, _ :: ns => 1 :: viewShape ss ns
  | _, _ => []

/-- index of the base array an index of the view `a[specs]` refers to -/
def expand : List Spec → List Nat → List Nat
  | [], _ => []
  | .int i :: ss, idx => i :: expand ss idx
  | .full :: ss, idx => idx.headD 0 :: expand ss idx.tail
  | .one lo :: ss, idx => (lo + idx.headD 0) :: expand ss idx.tail

variable {α : Type}

/-- `a[specs]` (a view: the element function is composed with the index map) -/
def Arr.index (a : Arr α) (specs : List Spec) : Arr α :=
  ⟨viewShape specs a.shape, fun idx => a.el (expand specs idx)⟩

/-- `a[..., 0]` -/
def Arr.dropLast0 (a : Arr α) : Arr α :=
  ⟨a.shape.dropLast, fun idx => a.el (idx ++ [0])⟩

/-- `while a.ndim > 3 and a.shape[-1] == 1: a = a[..., 0]` (fuel = number of axes) -/
def trim : Nat → Arr α → Arr α
  | 0, a => a
  | f + 1, a =>
    if 3 < a.shape.length ∧ a.shape.getLast? = some 1 then trim f a.dropLast0 else a

/-- the shape after that loop -/
def trimShape : Nat → List Nat → List Nat
  | 0, s => s
  | f + 1, s => if 3 < s.length ∧ s.getLast? = some 1 then trimShape f s.dropLast else s

/-- index of a squeezed array → index of the array (0 on the axes of length one) -/
def unsqueeze : List Nat → List Nat → List Nat
  | [], _ => []
  | n :: ns, idx => if n = 1 then 0 :: unsqueeze ns idx else idx.headD 0 :: unsqueeze ns idx.tail

/-- `a.squeeze()` -/
def Arr.squeeze (a : Arr α) : Arr α :=
  ⟨a.shape.filter (· ≠ 1), fun idx => a.el (unsqueeze a.shape idx)⟩

/-- does a full index lie in the region `specs` selects? (integers equal, `one lo` equal to lo) -/
def selects : List Spec → List Nat → Bool
  | [], _ => true
  | .int i :: ss, j :: idx => i == j && selects ss idx
  | .full :: ss, _ :: idx => selects ss idx
  | .one lo :: ss, j :: idx => lo == j && selects ss idx
  | _ :: _, [] => false

/-- the view index of a full index inside the selected region -/
def project : List Spec → List Nat → List Nat
  | .int _ :: ss, _ :: idx => project ss idx
  | .full :: ss, j :: idx => j :: project ss idx
  | .one lo :: ss, j :: idx => (j - lo) :: project ss idx
  | _, _ => []

/-- `r[specs] = v` for a value whose shape is the view's shape (no broadcasting) -/
def Arr.assign (r : Arr α) (specs : List Spec) (v : Arr α) : Arr α :=
  ⟨r.shape, fun idx => if selects specs idx then v.el (project specs idx) else r.el idx⟩

/-! ### `NiftiWrapper.split`: data -/

/-- the default of `split(dim=None)`: last axis; for 3-D images the slice axis of the header, which
    must be known -/
def defaultSplitDim (nd : Nat) (sliceDim : Option Nat) : Option Nat :=
  if nd - 1 = 2 then sliceDim else some (nd - 1)

/-- the index expression `split` builds for axis `ax` (dcmmeta.py 1484–1488) -/
def splitSpec (nd dim idx ax : Nat) : Spec :=
  if ax = dim then (if 3 ≤ dim ∧ dim + 1 = nd then .int idx else .one idx) else .full

def splitSpecs (nd dim idx : Nat) : List Spec := (List.range nd).map (splitSpec nd dim idx)

/-- the data of piece `idx` of `split(dim)` -/
def splitData (a : Arr α) (dim idx : Nat) : Arr α :=
  trim a.shape.length (a.index (splitSpecs a.shape.length dim idx))

/-- all pieces, in the order the generator yields them -/
def splitAll (a : Arr α) (dim : Nat) : List (Arr α) :=
  (List.range (a.shape.getD dim 0)).map (splitData a dim)

/-! ### `NiftiWrapper.from_sequence`: data -/

/-- `result_shape`: the first input's shape, padded with ones up to axis `dim`, `n` inputs on it -/
def mergeShape : List Nat → Nat → Nat → List Nat
  | [], 0, n => [n]
  | [], d + 1, n => 1 :: mergeShape [] d n
  | _ :: s, 0, n => n :: s
  | a :: s, d + 1, n => a :: mergeShape s d n

/-- `data_slices` for input `i`: 0 on every axis of length one of the result, `i` on the merge axis,
    `slice(None)` elsewhere (dcmmeta.py 1684–1687, 1731) -/
def fillSpecs : List Nat → Nat → Nat → List Spec
  | [], _, _ => []
  | _ :: ns, 0, i => .int i :: fillSpecs' ns
  | n :: ns, d + 1, i => (if n = 1 then .int 0 else .full) :: fillSpecs ns d i
where
  fillSpecs' : List Nat → List Spec
  | [] => []
  | n :: ns => (if n = 1 then .int 0 else .full) :: fillSpecs' ns

inductive MergeErr
  | indexError          -- empty sequence (`seq[0]`)
  | valueError          -- dim out of range / axis present and not singular
  | shapeMismatch       -- numpy would broadcast or raise: outside the model
deriving DecidableEq, Repr

/-- the fill loop: `result_data[data_slices] = input.squeeze()` for every input in turn -/
def fillLoop (rshape : List Nat) (dim : Nat) : List (Arr α) → Nat → Arr α → Arr α
  | [], _, r => r
  | a :: rest, i, r => fillLoop rshape dim rest (i + 1) (r.assign (fillSpecs rshape dim i) a.squeeze)

/-- merged voxel data (`blank` stands for `np.empty`) -/
def mergeData (blank : α) (inputs : List (Arr α)) (dim : Nat) : Except MergeErr (Arr α) :=
  match inputs with
  | [] => .error .indexError
  | first :: _ =>
    if ¬ dim < 5 then .error .valueError
    else if dim < first.shape.length ∧ first.shape.getD dim 0 ≠ 1 then .error .valueError
    else
      let rshape := mergeShape first.shape dim inputs.length
      if inputs.all fun a => a.shape.filter (· ≠ 1) == viewShape (fillSpecs rshape dim 0) rshape then
        .ok (fillLoop rshape dim inputs 0 ⟨rshape, fun _ => blank⟩)
      else .error .shapeMismatch

/-- the default of `from_sequence(dim=None)` (dcmmeta.py 1626–1638): for 3-D inputs the last
    singular axis, else 3; for 4-D inputs 4 -/
def lastSingular : List Nat → Nat → Option Nat → Option Nat
  | [], _, acc => acc
  | n :: ns, i, acc => lastSingular ns (i + 1) (if n = 1 then some i else acc)

def defaultMergeDim (shape : List Nat) : Option Nat :=
  if shape.length = 3 then some ((lastSingular shape 0 none).getD 3)
  else if shape.length = 4 then some 4 else none

/-! ### affines -/

structure V3 where
  x : Int
  y : Int
  z : Int
deriving DecidableEq, Repr

namespace V3
def add (a b : V3) : V3 := ⟨a.x + b.x, a.y + b.y, a.z + b.z⟩
def sub (a b : V3) : V3 := ⟨a.x - b.x, a.y - b.y, a.z - b.z⟩
def smul (k : Int) (a : V3) : V3 := ⟨k * a.x, k * a.y, k * a.z⟩
def dot (a b : V3) : Int := a.x * b.x + a.y * b.y + a.z * b.z
def cross (a b : V3) : V3 := ⟨a.y * b.z - a.z * b.y, a.z * b.x - a.x * b.z, a.x * b.y - a.y * b.x⟩
def zero : V3 := ⟨0, 0, 0⟩
/-- same direction: parallel and pointing the same way (what the comparison of the two unit
    vectors tests, exactly) -/
def sameDir (a b : V3) : Bool := cross a b == zero && decide (0 < dot a b)
end V3

/-- the upper three rows of a 4×4 affine: the images of the three index axes and the translation -/
structure Aff where
  c0 : V3
  c1 : V3
  c2 : V3
  t : V3
deriving DecidableEq, Repr

def Aff.col (A : Aff) : Nat → V3
  | 0 => A.c0
  | 1 => A.c1
  | _ => A.c2

def Aff.setCol (A : Aff) (d : Nat) (v : V3) : Aff :=
  match d with
  | 0 => { A with c0 := v }
  | 1 => { A with c1 := v }
  | _ => { A with c2 := v }

def Aff.shift (A : Aff) (v : V3) : Aff := { A with t := A.t.add v }

/-- world position of voxel (i, j, k) -/
def Aff.apply (A : Aff) (i j k : Int) : V3 :=
  ((V3.smul i A.c0).add (V3.smul j A.c1)).add ((V3.smul k A.c2).add A.t)

/-- the affine part of a NIfTI header: the coded sform and qform (`none` = code 0) and the
    fallback affine nibabel derives from shape and zooms -/
structure Hdr where
  s : Option Aff
  q : Option Aff
  base : Aff
deriving DecidableEq, Repr

/-- `get_best_affine()`: sform if coded, else qform if coded, else the fallback -/
def Hdr.best (h : Hdr) : Aff := h.s.getD (h.q.getD h.base)

/-- loop state of `split`: the shared header copy and the running piece affine -/
structure SplitSt where
  hdr : Hdr
  aff : Aff
deriving DecidableEq, Repr

/-- one iteration's update for `idx != 0` along a spatial axis: the translation of every coded
    transform (and of the piece affine) moves by `trans_update` -/
def splitBump (u : V3) (st : SplitSt) : SplitSt :=
  { hdr := { st.hdr with s := st.hdr.s.map (·.shift u), q := st.hdr.q.map (·.shift u) },
    aff := st.aff.shift u }

/-- the affines of the pieces of `split(dim)`, in order: `n` iterations over one shared state -/
def splitAffLoop (u : Option V3) : Nat → Nat → SplitSt → List Aff
  | 0, _, _ => []
  | k + 1, idx, st =>
    let st' := match u with
      | some v => if idx = 0 then st else splitBump v st
      | none => st
    st'.aff :: splitAffLoop u k (idx + 1) st'

def splitAffs (h : Hdr) (dim n : Nat) : List Aff :=
  let u := if dim < 3 then some (h.best.col dim) else none
  splitAffLoop u n 0 ⟨h, h.best⟩

/-- the header a piece ends up with: `Nifti1Image(data, affine, header)` keeps the header's
    transforms when its best affine is the given one, and otherwise stores the affine as sform -/
def pieceHdr (h : Hdr) (a : Aff) : Hdr := if h.best = a then h else { h with s := some a }

/-! ### `NiftiWrapper.from_sequence`: acceptance tests and result affine -/

/-- the tests of one input against its predecessor and the first input (dcmmeta.py 1697–1727);
    `prevT` is `last_trans` -/
def acceptInput (first : Aff) (dim : Nat) (prevT : Option V3) (a : Aff) : Bool :=
  (List.range 3).all fun ax =>
    if ax = dim then
      (match prevT with
        | none => true
        | some p => let d := a.t.sub p; d != V3.zero && V3.sameDir d (a.col ax)) &&
      V3.sameDir (a.col ax) (first.col ax)
    else a.col ax == first.col ax

def acceptLoop (first : Aff) (dim : Nat) : Option V3 → List Aff → Bool
  | _, [] => true
  | prevT, a :: rest => acceptInput first dim prevT a && acceptLoop first dim (some a.t) rest

/-- `true` iff no "different orientations" / "must be translated along the normal" ValueError -/
def mergeAccept (affs : List Aff) (dim : Nat) : Bool :=
  match affs with
  | [] => false
  | first :: _ => acceptLoop first dim none affs

/-- the affine of the merged image: the first input's, with the merge axis rescaled to the step
    between the first two inputs for a spatial merge of at least two inputs -/
def mergeAff (affs : List Aff) (dim : Nat) : Option Aff :=
  match affs with
  | [] => none
  | [first] => some first
  | first :: second :: _ =>
    if dim < 3 then some (first.setCol dim (second.t.sub first.t)) else some first

/-! ### `DicomStack.get_data` / `get_affine` -/

/-- the 5-D fill: file `fileIdx` supplies the plane `[:, :, s, t, v]` (one file per slice) -/
def stackFill (files : List (Arr α)) (blank : α) (rows cols S T V : Nat) : Arr α :=
  ⟨[rows, cols, S, T, V], fun idx =>
    match idx with
    | [i, j, s, t, v] =>
      match files[v * (T * S) + t * S + s]? with
      | some f => f.el [i, j, 0]
      | none => blank
    | _ => blank⟩

/-- "Trim unused time/vector dimensions" (dcmstack.py 785–789) -/
def stackTrim (a : Arr α) (T V : Nat) : Arr α :=
  if V = 1 then (if T = 1 then a.dropLast0.dropLast0 else a.dropLast0) else a

def stackData (files : List (Arr α)) (blank : α) (rows cols S T V : Nat) : Arr α :=
  stackTrim (stackFill files blank rows cols S T V) T V

/-- `get_affine`: the first sorted file's affine; with more than one file per volume its slice
    column is the step from the first to the second file -/
def stackAff (affs : List Aff) (S : Nat) : Option Aff :=
  match affs with
  | [] => none
  | [a] => some a
  | a :: b :: _ => if 1 < S then some (a.setCol 2 (b.t.sub a.t)) else some a

/-! ### helpers for the driver: tabulation in C order -/

def allIdx : List Nat → List (List Nat)
  | [] => [[]]
  | n :: ns => (List.range n).flatMap fun i => (allIdx ns).map (i :: ·)

def flatC : List Nat → List Nat → Nat
  | [], _ => 0
  | _ :: ns, idx => idx.headD 0 * ns.foldl (· * ·) 1 + flatC ns idx.tail

def Arr.ofList (shape : List Nat) (data : List α) (dflt : α) : Arr α :=
  ⟨shape, fun idx => data.getD (flatC shape idx) dflt⟩

def Arr.toList (a : Arr α) : List α := (allIdx a.shape).map a.el

end Wrap
