import DcmVerif.Model.Key
/-! `DcmMetaExtension.check_valid` (dcmmeta.py) as decision logic over an abstraction of the
content dictionary, and the format rules written declaratively (C10). -/
set_option autoImplicit false
open Cls

namespace CV

/-- what `len(vals)` sees of a stored value -/
inductive EShape | scalar | sized (n : Nat)
deriving DecidableEq, Repr

/-- abstraction of `_content` : which top-level keys exist, the version (its `repr`), row lengths of
    the affine, slice dim, shape, and per classification the dictionary (`none` = base or sub
    dictionary missing) with the `len()` of every value -/
structure Content where
  topKeys : List String
  version : Option String
  affineRows : List Nat
  sliceDim : Option Int
  shape : List Nat
  dict : Cls → Option (List (String × EShape))

def Content.shp (c : Content) : Shp :=
  { nd := c.shape.length
    S := match c.sliceDim with | some d => c.shape.getD d.toNat 0 | none => 0
    T := c.shape.getD 3 1
    V := c.shape.getD 4 1
    hasSlice := c.sliceDim.isSome
    hasTime := (c.dict tsamples).isSome
    hasVector := (c.dict vsamples).isSome }

/-- `_req_base_keys_map[self.version] <= set(self._content)` (KeyError for an unknown or missing
    version counts as rejection) -/
def requiredOk (c : Content) : Bool :=
  match c.version with
  | none => false
  | some v =>
    match Gen.reqBaseKeys.lookup v with
    | none => false
    | some req => req.all fun k => c.topKeys.contains k

def geometryOk (c : Content) : Bool :=
  (c.affineRows == [4, 4, 4, 4]) &&
  (match c.sliceDim with | none => true | some d => decide (0 ≤ d ∧ d < 3)) &&
  decide (3 ≤ c.shape.length ∧ c.shape.length < 6)

/-- the per-class loop of `check_valid` (as the code does it: count only checked when mult > 1) -/
def classOk (c : Content) (cls : Cls) : Bool :=
  match c.dict cls with
  | none => false
  | some d =>
    let m := mult c.shp cls
    if m = 0 then d.isEmpty
    else if m > 1 then d.all fun p => p.2 == .sized m
    else true

def keysOf (c : Content) (cls : Cls) : List String := ((c.dict cls).getD []).map (·.1)

def uniqueOk (c : Content) : Bool :=
  let vc := validClasses c.shp
  vc.all fun a => vc.all fun b =>
    a == b || (keysOf c a).all fun k => !((keysOf c b).contains k)

/-- `check_valid` accepts -/
def checkValid (c : Content) : Bool :=
  requiredOk c && geometryOk c && (validClasses c.shp).all (classOk c) && uniqueOk c

/-- the format rules, written declaratively (full strength: exact count for every varying class) -/
def RulesClass (c : Content) (cls : Cls) : Prop :=
  ∃ d, c.dict cls = some d ∧
    (mult c.shp cls = 0 → d = []) ∧
    (cls ≠ gconst → mult c.shp cls ≠ 0 → ∀ k sh, (k, sh) ∈ d → sh = .sized (mult c.shp cls))

/-- no key in two classifications -/
def Unique (c : Content) : Prop :=
  ∀ a ∈ validClasses c.shp, ∀ b ∈ validClasses c.shp, a ≠ b →
    ∀ k, k ∈ keysOf c a → k ∉ keysOf c b

def Rules (c : Content) : Prop :=
  requiredOk c = true ∧ geometryOk c = true ∧
  (∀ cls ∈ validClasses c.shp, RulesClass c cls) ∧ Unique c

/-- the same rules with the count requirement dropped where the multiplicity is 1 -/
def RulesClassPartial (c : Content) (cls : Cls) : Prop :=
  ∃ d, c.dict cls = some d ∧
    (mult c.shp cls = 0 → d = []) ∧
    (1 < mult c.shp cls → ∀ k sh, (k, sh) ∈ d → sh = .sized (mult c.shp cls))

def RulesPartial (c : Content) : Prop :=
  requiredOk c = true ∧ geometryOk c = true ∧
  (∀ cls ∈ validClasses c.shp, RulesClassPartial c cls) ∧ Unique c

end CV
