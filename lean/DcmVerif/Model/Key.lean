import DcmVerif.Generated.Tables
set_option autoImplicit false
open Cls

/-! Scratch prototype (per-key model): shapes, multiplicity, list tests, simplify. -/
def validClasses (sh : Shp) : List Cls :=
  if sh.nd = 3 then [gconst, gslices]
  else if sh.nd = 4 then [gconst, gslices, tsamples, tslices]
  else if sh.T ≠ 1 then [gconst, gslices, tsamples, tslices, vsamples, vslices]
  else [gconst, gslices, vsamples, vslices]

/-- `get_multiplicity` for a valid class (0 for per-slice classes without slice dim). -/
def mult (sh : Shp) : Cls → Nat
  | gconst => 1
  | gslices => if sh.hasSlice then sh.S * sh.T * sh.V else 0
  | tsamples => sh.T * sh.V
  | tslices => if sh.hasSlice then sh.S else 0
  | vsamples => sh.V
  | vslices => if sh.hasSlice then sh.S * sh.T else 0

def proj (sh : Shp) (s t v : Nat) : Cls → Nat
  | gconst => 0
  | gslices => s + sh.S * (t + sh.T * v)
  | tsamples => t + sh.T * v
  | tslices => s
  | vsamples => v
  | vslices => s + sh.S * t

def basePresent (sh : Shp) : Cls → Bool
  | gconst | gslices => true
  | tsamples | tslices => sh.hasTime
  | vsamples | vslices => sh.hasVector

/-- `_get_const_period`; `none` = compare everything (dest is global const). -/
def constPeriod (sh : Shp) (src dest : Cls) : Option Nat :=
  match dest, src with
  | gconst, _ => none
  | _, gslices => some (mult sh gslices / mult sh dest)
  | _, vslices => some sh.S
  | _, tsamples => some sh.T
  | _, _ => some 0   -- `assert False` in the code; never reached for table entries

section lists
variable {α : Type} [DecidableEq α]

/-- `l[k::p]` by structural recursion (`k` = elements still to skip), so that the kernel can
    evaluate it -/
def strideAux (p : Nat) : Nat → List α → List α
  | _, [] => []
  | 0, x :: xs => x :: strideAux p (p - 1) xs
  | k + 1, _ :: xs => strideAux p k xs

/-- `l[::p]` -/
def stride (p : Nat) (l : List α) : List α := strideAux p 0 l

def isConstantAll : List α → Bool
  | [] => true
  | x :: xs => xs.all (· == x)

def isConstantP (p : Nat) (l : List α) : Bool :=
  (List.range (l.length / p)).all fun b =>
    ((l.drop (b * p)).take p).all fun x => some x == l[b * p]?

def isRepeatingP (p : Nat) (l : List α) : Bool :=
  (List.range (l.length / p)).all fun b => ((l.drop (b * p)).take p) == l.take p

inductive Err | valueError | other
deriving DecidableEq, Repr

/-- `is_constant(sequence, period)` with its guards. -/
def pyIsConstant (l : List α) : Option Nat → Except Err Bool
  | none => .ok (isConstantAll l)
  | some p =>
    if p ≤ 1 then .error .valueError
    else if l.length % p ≠ 0 then .error .valueError
    else .ok (isConstantP p l)

/-- `is_repeating(sequence, period)` with its guards. -/
def pyIsRepeating (l : List α) (p : Nat) : Except Err Bool :=
  if p ≤ 1 ∨ p ≥ l.length then .error .valueError
  else if l.length % p ≠ 0 then .error .valueError
  else .ok (isRepeatingP p l)
end lists

section simplify
variable {α : Type} [DecidableEq α]

/-- outcome of `_simplify` on one key -/
inductive SimpOut (α : Type)
  | unchanged
  | deleted
  | moved (c : Cls) (vals : List α)

/-- the `for dest_cls in dests` loop with `break`/`else` -/
def constLoop (sh : Shp) (src : Cls) (vals : List α) :
    List Cls → Except Err (Option (Cls × List α))
  | [] => .ok none
  | dest :: rest =>
    if basePresent sh dest then
      let period := constPeriod sh src dest
      let hit : Except Err Bool :=
        if period = some 1 then .ok true else pyIsConstant vals period
      match hit with
      | .error e => .error e
      | .ok true =>
        match period with
        | none => .ok (some (dest, (vals.head?).toList))   -- values[0]
        | some p => .ok (some (dest, stride p vals))        -- values[::period]
      | .ok false => constLoop sh src vals rest
    else constLoop sh src vals rest

/-- the repeat test of `_simplify` (F22 repaired): equal multiplicities are the degenerate case of a
    singular trailing dimension — the classification is simply changed; otherwise `is_repeating` -/
def repeatHit (vals : List α) (dm : Nat) : Except Err Bool :=
  if dm = vals.length then .ok true else pyIsRepeating vals dm

def repeatLoop (sh : Shp) (vals : List α) :
    List Cls → Except Err (Option (Cls × List α))
  | [] => .ok none
  | dest :: rest =>
    if basePresent sh dest then
      let dm := mult sh dest
      match repeatHit vals dm with
      | .error e => .error e
      | .ok true => .ok (some (dest, vals.take dm))
      | .ok false => repeatLoop sh vals rest
    else repeatLoop sh vals rest

def simplifyK (null : α) (sh : Shp) (c : Cls) (vals : List α) : Except Err (SimpOut α) :=
  if c = gconst then
    .ok (if vals = [null] then .deleted else .unchanged)
  else
    match constLoop sh c vals (constTests c) with
    | .error e => .error e
    | .ok (some (d, v)) => .ok (.moved d v)
    | .ok none =>
      match repeatLoop sh vals (repeatTests c) with
      | .error e => .error e
      | .ok (some (d, v)) => .ok (.moved d v)
      | .ok none => .ok .unchanged
end simplify

def lookupK {α : Type} (sh : Shp) (c : Cls) (vals : List α) (s t v : Nat) : Option α :=
  vals[proj sh s t v c]?

/-! ### specs of the two loops -/
section specs
variable {α : Type} [DecidableEq α]

/-- what a successful const test tells us -/
inductive ConstHit (sh : Shp) (src : Cls) (vals : List α) (d : Cls) (out : List α) : Prop
  | all (hp : constPeriod sh src d = none) (hc : isConstantAll vals = true)
        (ho : out = (vals.head?).toList)
  | one (hp : constPeriod sh src d = some 1) (ho : out = stride 1 vals)
  | per (p : Nat) (hp : constPeriod sh src d = some p) (h1 : 1 < p) (hdiv : vals.length % p = 0)
        (hc : isConstantP p vals = true) (ho : out = stride p vals)

end specs

/-! ### list characterisations -/
section listlemmas
variable {α : Type} [DecidableEq α]

end listlemmas

/-! ### simplify preserves lookups -/
section simp_lookup
variable {α : Type} [DecidableEq α]

structure WF (sh : Shp) : Prop where
  hS : 0 < sh.S
  hT : 0 < sh.T
  hV : 0 < sh.V

end simp_lookup

/-! ### `_copy_slice` : subset along the slice axis for per-slice classes -/
section copy_slice
variable {α : Type} [DecidableEq α]

def tile : Nat → List α → List α
  | 0, _ => []
  | k+1, l => l ++ tile k l

/-- destination class of `_copy_slice` given the classes valid in the *result* -/
def copySliceDest (rvalid : List Cls) : Cls → Cls
  | gslices => if tsamples ∈ rvalid then tsamples else if vsamples ∈ rvalid then vsamples else gconst
  | vslices => if tsamples ∈ rvalid then tsamples else gconst
  | _ => gconst

/-- `_copy_slice` before the final `_simplify`: values stored under the destination class. -/
def copySliceVals (nSlices destMult idx : Nat) (vals : List α) : List α :=
  let sub := stride nSlices (vals.drop idx)          -- vals[idx::stride]
  if sub.length < destMult then tile (destMult / sub.length) sub else sub

end copy_slice

section copy_slice_thm
variable {α : Type} [DecidableEq α]

structure WFnd (sh : Shp) : Prop extends WF sh where
  hnd : sh.nd = 3 ∨ sh.nd = 4 ∨ sh.nd = 5
  h3 : sh.nd = 3 → sh.T = 1 ∧ sh.V = 1
  h4 : sh.nd = 4 → sh.V = 1

def perSlice : Cls → Bool
  | gslices | tslices | vslices => true
  | _ => false

/-- result shape of a subset along the slice axis (parent shape trimmed, so `nd` is kept) -/
def sliceSubsetShp (sh : Shp) : Shp := { sh with S := 1 }

end copy_slice_thm

/-! ### `_get_changed_class`, `_change_class`, `_insert` (reclassification) and `_insert_slice` -/
section insert
variable {α : Type} [DecidableEq α]

def repeatEach (k : Nat) (l : List α) : List α := l.flatMap (List.replicate k)

abbrev KeyState (α : Type) := Option (Cls × List α)

/-- `_get_changed_class(key, new_class, slice_dim)` on one key (F4 repaired: only constants are
    wrapped; F29 repaired: full per-slice multiplicity when the extension has no slice dimension). -/
def getChangedK (null : α) (sh : Shp) (ks : KeyState α) (new : Cls) : Except Err (List α) :=
  let curr := ks.map (·.1)
  if curr = some new then .ok (ks.map (·.2) |>.getD [])
  else if new ∉ preserving curr then .error .valueError
  else
    let currMult := match curr with | none => 1 | some c => mult sh c
    let perSl := match curr with | none => false | some c => perSlice c
    let values := match ks with | none => [null] | some (_, v) => v
    let newMult0 := if new ∈ validClasses sh then mult sh new else 1
    -- multiplicity 0 means the extension has no slice dimension: the caller's is used (F29
    -- repaired: with the time / vector factors of the class, as in `get_multiplicity`)
    let newMult := if newMult0 = 0 then mult { sh with hasSlice := true } new else newMult0
    let fact := newMult / currMult
    let result := if perSl then tile fact values else repeatEach fact values
    .ok (if new = gconst then (result.head?).toList else result)

/-- `_change_class(key, new_class)` -/
def changeClassK (null : α) (sh : Shp) (ks : KeyState α) (new : Cls) : Except Err (KeyState α) :=
  if ks.map (·.1) = some new then .ok ks
  else match getChangedK null sh ks new with
    | .error e => .error e
    | .ok v => .ok (some (new, v))

/-- first loop of `_insert` for one key: bring `self` to a class `other` can be widened to -/
def reclassifyK (null : α) (sh : Shp) (self : KeyState α) (oc : Cls) : Except Err (KeyState α) :=
  let lc := self.map (·.1)
  if lc = some oc then .ok self
  else if oc ∈ preserving lc then changeClassK null sh self oc
  else if lc.any (· ∈ preserving (some oc)) then .ok self
  else
    match (preserving lc).find? (fun d => basePresent sh d && decide (d ∈ preserving (some oc))) with
    | none => .error .other            -- `_change_class(key, None)` : TypeError in the code
    | some d => changeClassK null sh self d

def interleave (n m : Nat) : Nat → List α → List α → List α
  | 0, _, _ => []
  | vols+1, a, b => a.take n ++ (b.take m ++ interleave n m vols (a.drop n) (b.drop m))

/-- `_insert_slice` for one key. `self` lives in `sh` (k slices so far), `other` in `osh`. -/
def insertSliceK (null : α) (sh osh : Shp) (self other : KeyState α) : Except Err (KeyState α) :=
  match self with
  | none => .error .other     -- cannot happen after reclassification
  | some (c, lv) =>
    match getChangedK null osh other c with
    | .error e => .error e
    | .ok ov =>
      if c = gconst then
        if lv = ov then .ok self
        else
          let dest := if sh.hasTime then tslices else if sh.hasVector then vslices else gslices
          match changeClassK null sh self dest, getChangedK null osh other dest with
          | .ok (some (_, lv')), .ok ov' => .ok (some (dest, lv' ++ ov'))
          | .error e, _ => .error e
          | _, .error e => .error e
          | _, _ => .error .other
      else if c = tslices then .ok (some (tslices, lv ++ ov))
      else
        let go (lv ov : List α) : KeyState α :=
          some (gslices, interleave sh.S osh.S (sh.T * sh.V) lv ov)
        if c = gslices then .ok (go lv ov)
        else
          match changeClassK null sh self gslices, getChangedK null osh other gslices with
          | .ok (some (_, lv')), .ok ov' => .ok (go lv' ov')
          | .error e, _ => .error e
          | _, .error e => .error e
          | _, _ => .error .other
end insert


section changed_lookup
variable {α : Type} [DecidableEq α]

/-- lookup on a key state: an absent key reads as `null` everywhere -/
def lookupKS (null : α) (sh : Shp) (ks : KeyState α) (s t v : Nat) : Option α :=
  match ks with
  | none => some null
  | some (c, vals) => vals[proj sh s t v c]?

/-- the key state is well-formed for the shape -/
def ValidK (sh : Shp) : KeyState α → Prop
  | none => True
  | some (c, vals) => c ∈ validClasses sh ∧ vals.length = mult sh c

end changed_lookup

section insert_slice_thm
variable {α : Type} [DecidableEq α]

/-- the bases present are the ones `make_empty` creates for this shape -/
structure Consistent (sh : Shp) : Prop extends WFnd sh where
  hsl : sh.hasSlice = true
  htime : sh.hasTime = true ↔ (4 ≤ sh.nd ∧ sh.T ≠ 1)
  hvec : sh.hasVector = true ↔ sh.nd = 5
  trimmed4 : sh.nd = 4 → sh.T ≠ 1

end insert_slice_thm

/-! ### `_insert_sample`, `_insert_non_slice`, `_copy_sample` (models only; proofs follow the slice case) -/
section rest
variable {α : Type} [DecidableEq α]

/-- `_insert_sample(key, other, base)`; `isTime` selects 'time' vs 'vector' -/
def insertSampleK (null : α) (isTime : Bool) (sh osh : Shp) (self other : KeyState α) :
    Except Err (KeyState α) :=
  match self with
  | none => .error .other
  | some (c, lv) =>
    match getChangedK null osh other c with
    | .error e => .error e
    | .ok ov =>
      let samp := if isTime then tsamples else vsamples
      if c = gconst then
        if lv = ov then .ok self
        else
          match changeClassK null sh self samp, getChangedK null osh other samp with
          | .ok (some (_, lv')), .ok ov' => .ok (some (samp, lv' ++ ov'))
          | .error e, _ => .error e
          | _, .error e => .error e
          | _, _ => .error .other
      else if c = samp then .ok (some (samp, lv ++ ov))
      else
        let go (lv ov : List α) : KeyState α :=
          if isTime && sh.nd == 5 then
            some (gslices, interleave (sh.S * sh.T) (sh.S * osh.T) sh.V lv ov)
          else some (gslices, lv ++ ov)
        if c = gslices then .ok (go lv ov)
        else
          match changeClassK null sh self gslices, getChangedK null osh other gslices with
          | .ok (some (_, lv')), .ok ov' => .ok (go lv' ov')
          | .error e, _ => .error e
          | _, .error e => .error e
          | _, _ => .error .other

/-- `_insert_non_slice`: keep the key only if both sides agree -/
def insertNonSliceK (null : α) (osh : Shp) (self other : KeyState α) : Except Err (KeyState α) :=
  match self with
  | none => .error .other
  | some (c, lv) =>
    match getChangedK null osh other c with
    | .error e => .error e
    | .ok ov => .ok (if lv = ov then self else none)

/-- `_global_slice_subset(key, base, idx)` -/
def globalSliceSubset (sh : Shp) (isTime : Bool) (idx : Nat) (vals : List α) : List α :=
  if !isTime then (vals.drop (idx * (sh.S * sh.T))).take (sh.S * sh.T)
  else if vsamples ∉ validClasses sh then (vals.drop (idx * sh.S)).take sh.S
  else (List.range sh.V).flatMap fun vec =>
    (vals.drop (vec * (sh.S * sh.T) + idx * sh.S)).take sh.S

/-- `_copy_sample(other, src_class, base, idx)` for one key, before the `_simplify` calls.
    Returns destination class, values and whether `_simplify` is called afterwards. -/
def copySampleK (sh rs : Shp) (isTime : Bool) (idx : Nat) (c : Cls) (vals : List α) :
    Cls × List α × Bool :=
  let base : Cls → Bool := fun c => if isTime then (c = tsamples ∨ c = tslices) else (c = vsamples ∨ c = vslices)
  if c = tsamples ∨ c = vsamples then
    if base c then
      -- indexing on the class's own dimension: time samples may become vector samples, else const
      let dest := if c ≠ vsamples ∧ vsamples ∈ validClasses rs then vsamples else gconst
      if mult rs dest = 1 then (dest, (vals[idx]?).toList, false)
      else (dest, stride sh.T (vals.drop idx), true)
    else if c = tsamples then
      let dm := mult rs tsamples
      (tsamples, (vals.drop (idx * dm)).take dm, true)
    else (c, vals, false)
  else
    if base c then
      let dest := ((preserving (some c)).find? (· ∈ validClasses rs)).getD gslices
      (dest, vals, false)
    else if c ≠ gslices then
      if isTime then (c, (vals.drop (idx * rs.S)).take rs.S, true)   -- subset of vector slices
      else (c, vals, false)                                           -- time slices unchanged
    else (gslices, globalSliceSubset sh isTime idx vals, true)
end rest

section insert_sample_thm
variable {α : Type} [DecidableEq α]

structure TimeSetup (sh osh : Shp) : Prop where
  wf : WF sh
  hsl : sh.hasSlice = true
  nd4 : sh.nd = 4
  v1 : sh.V = 1
  ond : osh.nd = 3
  oS : osh.S = sh.S
  oT : osh.T = 1
  oV : osh.V = 1
  ohsl : osh.hasSlice = true

structure VecSetup (sh osh : Shp) : Prop where
  wf : WF sh
  hsl : sh.hasSlice = true
  nd5 : sh.nd = 5
  ohsl : osh.hasSlice = true
  oS : osh.S = sh.S
  oT : osh.T = sh.T
  oV : osh.V = 1
  ond : (osh.nd = 3 ∧ sh.T = 1) ∨ (osh.nd = 4 ∧ sh.T ≠ 1)

end insert_sample_thm

section reclassify_thm
variable {α : Type} [DecidableEq α]

end reclassify_thm

section merge_slice
variable {α : Type} [DecidableEq α]

/-- one iteration of `from_sequence` along the slice axis, for one key (both loops of `_insert`) -/
def otherClass : KeyState α → Cls
  | none => gconst          -- a missing key is treated as a global constant `None`
  | some (c, _) => c

def stepSliceK (null : α) (sh : Shp) (self b : KeyState α) : Except Err (KeyState α) :=
  if self = none ∧ b = none then .ok none else
  match reclassifyK null sh self (otherClass b) with
  | .error e => .error e
  | .ok a1 => insertSliceK null sh { sh with S := 1 } a1 b

/-- the accumulation loop of `from_sequence` along the slice axis -/
def foldSliceK (null : α) (sh1 : Shp) : Nat → KeyState α → List (KeyState α) →
    Except Err (KeyState α)
  | _, acc, [] => .ok acc
  | k, acc, b :: rest =>
    match stepSliceK null { sh1 with S := k } acc b with
    | .error e => .error e
    | .ok acc' => foldSliceK null sh1 (k + 1) acc' rest

end merge_slice

section merge_slice_final
variable {α : Type} [DecidableEq α]

/-- result of applying `_simplify` to a key state -/
def applySimplify (null : α) (sh : Shp) (ks : KeyState α) : Except Err (KeyState α) :=
  match ks with
  | none => .ok none
  | some (c, v) =>
    match simplifyK null sh c v with
    | .error e => .error e
    | .ok .unchanged => .ok (some (c, v))
    | .ok .deleted => .ok none
    | .ok (.moved d o) => .ok (some (d, o))

/-- `DcmMetaExtension.from_sequence(seq, slice_dim)` restricted to one key: initialise from the
    first input, insert the rest, finally try to simplify a key that ended in global slices. -/
def mergeSliceK (null : α) (sh1 : Shp) (inputs : List (KeyState α)) : Except Err (KeyState α) :=
  match inputs with
  | [] => .error .other
  | a :: rest =>
    match foldSliceK null sh1 1 a rest with
    | .error e => .error e
    | .ok r =>
      match r with
      | some (gslices, _) => applySimplify null { sh1 with S := 1 + rest.length } r
      | _ => .ok r

end merge_slice_final


section copy_sample_thm
variable {α : Type} [DecidableEq α]

/-- result shape of `get_subset(3, idx)` (parent trimmed: 4-D, or 5-D with V ≥ 2) -/
def timeSubsetShp (sh : Shp) : Shp :=
  if sh.nd = 4 then { sh with nd := 3, T := 1, hasTime := false, hasVector := false }
  else { sh with T := 1, hasTime := false }

/-- result shape of `get_subset(4, idx)` of a 5-D parent -/
def vecSubsetShp (sh : Shp) : Shp :=
  if sh.T = 1 then { sh with nd := 3, V := 1, hasVector := false }
  else { sh with nd := 4, V := 1, hasVector := false }

end copy_sample_thm


section generic_fold
variable {α : Type} [DecidableEq α]

/-- accumulation loop of `from_sequence` for an arbitrary one-key step function -/
def foldK (step : Nat → KeyState α → KeyState α → Except Err (KeyState α)) :
    Nat → KeyState α → List (KeyState α) → Except Err (KeyState α)
  | _, acc, [] => .ok acc
  | k, acc, b :: rest =>
    match step k acc b with
    | .error e => .error e
    | .ok acc' => foldK step (k + 1) acc' rest

end generic_fold

section merge_samples
variable {α : Type} [DecidableEq α]

/-- one iteration of `from_sequence` along the time / vector axis, for one key -/
def stepSampleK (null : α) (isTime : Bool) (sh osh : Shp) (self b : KeyState α) :
    Except Err (KeyState α) :=
  if self = none ∧ b = none then .ok none else
  match reclassifyK null sh self (otherClass b) with
  | .error e => .error e
  | .ok a1 => insertSampleK null isTime sh osh a1 b

end merge_samples

section merge_samples_final
variable {α : Type} [DecidableEq α]

/-- `from_sequence(seq, 3)` on 3-D inputs, one key -/
def mergeTimeK (null : α) (sh1 osh : Shp) (inputs : List (KeyState α)) :
    Except Err (KeyState α) :=
  match inputs with
  | [] => .error .other
  | a :: rest =>
    match foldK (fun k acc b => stepSampleK null true { sh1 with T := k } osh acc b) 1 a rest with
    | .error e => .error e
    | .ok r =>
      match r with
      | some (gslices, _) => applySimplify null { sh1 with T := 1 + rest.length } r
      | _ => .ok r

/-- `from_sequence(seq, 4)` on 3-D / 4-D inputs, one key -/
def mergeVecK (null : α) (sh1 osh : Shp) (inputs : List (KeyState α)) :
    Except Err (KeyState α) :=
  match inputs with
  | [] => .error .other
  | a :: rest =>
    match foldK (fun k acc b => stepSampleK null false { sh1 with V := k } osh acc b) 1 a rest with
    | .error e => .error e
    | .ok r =>
      match r with
      | some (gslices, _) => applySimplify null { sh1 with V := 1 + rest.length } r
      | _ => .ok r

end merge_samples_final

section simplify_valid
variable {α : Type} [DecidableEq α]

end simplify_valid

/-! ### converses of the list tests (needed for minimality, C06) -/
section converses
variable {α : Type} [DecidableEq α]

end converses

section loop_misses
variable {α : Type} [DecidableEq α]

/-- a constant test that was tried and failed -/
def ConstMiss (sh : Shp) (src : Cls) (vals : List α) (d : Cls) : Prop :=
  basePresent sh d = true →
    constPeriod sh src d ≠ some 1 ∧ pyIsConstant vals (constPeriod sh src d) = .ok false

def RepeatMiss (sh : Shp) (vals : List α) (d : Cls) : Prop :=
  basePresent sh d = true → repeatHit vals (mult sh d) = .ok false

end loop_misses

section minimality
variable {α : Type} [DecidableEq α]

/-- the function a key denotes is constant on the fibres of class `e` -/
def RepOK (sh : Shp) (f : Nat → Nat → Nat → Option α) (e : Cls) : Prop :=
  ∀ s t v s' t' v', s < sh.S → t < sh.T → v < sh.V → s' < sh.S → t' < sh.T → v' < sh.V →
    proj sh s t v e = proj sh s' t' v' e → f s t v = f s' t' v'

def rank : Cls → Nat
  | gconst => 0 | vsamples => 1 | tsamples => 2 | tslices => 3 | vslices => 4 | gslices => 5

/-- class of a global-slices key after `_simplify` -/
def resultClass : SimpOut α → Cls
  | .moved d _ => d
  | _ => gslices

end minimality


/-! ### validity of merged results -/
section merge_valid
variable {α : Type} [DecidableEq α]

end merge_valid

/-! ### C01, per key: the three-level merge of `to_nifti(embed_meta=True)` is lossless -/
section convert
variable {α : Type} [DecidableEq α]

/-- the extension of a single file holds every extracted key as a global constant -/
def fileKS (x : Option α) : KeyState α := x.map fun a => (gconst, [a])

end convert


/-! ### `NiftiWrapper.get_meta` / `meta_valid` (C08), with the F2 and F16 repairs -/
section get_meta
variable {α : Type} [DecidableEq α]

/-- what `get_meta` reads from the image -/
structure Img where
  shape : List Nat            -- nii_img.shape
  sliceDim : Option Nat       -- header dim_info slice axis
  aligned : Bool              -- np.allclose(slice direction, extension slice normal, atol=1e-6)

/-- the extension side: shape, slice dim and per-key shape record -/
structure ExtGeom where
  shape : List Nat
  sliceDim : Option Nat

inductive GetOut (α : Type)
  | value (a : α)
  | dflt
  | indexError
deriving DecidableEq

/-- `values[j]` with Python's `IndexError` for an index past the end -/
def GetOut.ofIdx {α : Type} : Option α → GetOut α
  | some a => .value a
  | none => .indexError

/-- `meta_valid(classification)` -/
def metaValid (e : ExtGeom) (img : Img) (c : Cls) : Bool :=
  match c with
  | gconst => true
  | vsamples => e.shape.drop 4 == img.shape.drop 4
  | tsamples => e.shape.drop 3 == img.shape.drop 3
  | _ =>
    match img.sliceDim, e.sliceDim with
    | some isd, some esd =>
      -- n_slices of the extension vs the header, then direction
      (e.shape[esd]? == img.shape[isd]?) &&
      (match c with
       | tslices => img.aligned
       | vslices => (e.shape[3]? == img.shape[3]?) && img.aligned
       | _ => (e.shape.drop 3 == img.shape.drop 3) && img.aligned)
    | _, _ => false            -- F16 repair: no slice dim_info ⇒ not valid (code raised HeaderDataError)

/-- `get_meta(key, index, default)` for a key stored as `(c, vals)` (or absent) -/
def getMeta (e : ExtGeom) (img : Img) (ks : KeyState α) (index : Option (List Nat)) : GetOut α :=
  match ks with
  | none => .dflt
  | some (c, vals) =>
    if c = gconst then (match vals.head? with | some a => .value a | none => .dflt)
    else if !metaValid e img c then .dflt
    else match index with
      | none => .dflt
      | some idx =>
        if idx.length ≠ img.shape.length then .indexError
        else if !(List.zip idx img.shape).all (fun p => decide (p.1 < p.2)) then .indexError
        else
          let get := fun k => idx.getD k 0
          let sh3 := img.shape.getD 3 1
          let nSl := match img.sliceDim with | some d => img.shape.getD d 1 | none => 1
          let sIx := match img.sliceDim with | some d => get d | none => 0
          let j := match c with
            | tsamples => get 3 + sh3 * get 4              -- F2 repair (code: get 3)
            | vsamples => get 4
            | tslices => sIx
            | vslices => sIx + nSl * get 3
            | _ => sIx + nSl * (get 3 + sh3 * get 4)
          GetOut.ofIdx vals[j]?

/-- image and extension agree: same shape, same slice axis, aligned -/
structure Matched (e : ExtGeom) (img : Img) (sh : Shp) (sd : Nat) : Prop where
  hshape : img.shape = e.shape
  hsd : img.sliceDim = some sd
  hesd : e.sliceDim = some sd
  hal : img.aligned = true
  hsd3 : sd < 3
  hlen : 3 ≤ img.shape.length ∧ img.shape.length ≤ 5
  hS : img.shape.getD sd 1 = sh.S
  hT : img.shape.getD 3 1 = sh.T
  hV : img.shape.getD 4 1 = sh.V

end get_meta

/-! ### uniqueness of the canonical form (C05) -/
section canon_unique
variable {α : Type} [DecidableEq α]

end canon_unique


section convert_low
variable {α : Type} [DecidableEq α]

end convert_low


/-! ### dictionary level: six ordered dictionaries, and the read-out of one key -/
section dict
variable {α : Type} [DecidableEq α] {κ : Type} [DecidableEq κ]

/-- one classification dictionary, insertion-ordered; a constant is a one-element list -/
abbrev Dict (κ α : Type) := List (κ × List α)

def Dict.get? : Dict κ α → κ → Option (List α)
  | [], _ => none
  | (k', v') :: rest, k => if k' = k then some v' else Dict.get? rest k

/-- Python `d[k] = v` : replace in place or append -/
def Dict.set : Dict κ α → κ → List α → Dict κ α
  | [], k, v => [(k, v)]
  | (k', v') :: rest, k, v => if k' = k then (k, v) :: rest else (k', v') :: Dict.set rest k v

/-- Python `del d[k]` -/
def Dict.del : Dict κ α → κ → Dict κ α
  | [], _ => []
  | (k', v') :: rest, k => if k' = k then Dict.del rest k else (k', v') :: Dict.del rest k

structure Ext (κ α : Type) where
  sh : Shp
  dict : Cls → Dict κ α

/-- `get_values_and_class(key)` : first valid class whose dictionary has the key -/
def Ext.key (e : Ext κ α) (k : κ) : KeyState α :=
  (validClasses e.sh).findSome? fun c => ((e.dict c).get? k).map fun v => (c, v)

/-- write a whole key state: remove the key from every dictionary, then store it -/
def Ext.putKey (e : Ext κ α) (k : κ) (ks : KeyState α) : Ext κ α :=
  { e with dict := fun c =>
      match ks with
      | some (c', v) => if c = c' then ((e.dict c).del k).set k v else (e.dict c).del k
      | none => (e.dict c).del k }

end dict


/-! ### canonicity of slice merges (C06): classes that bypass the final simplify are minimal too -/
section merge_canonical
variable {α : Type} [DecidableEq α]

/-- two slices of the same volume read differently -/
def SliceVaries (null : α) (sh : Shp) (ks : KeyState α) : Prop :=
  ∃ s s' t v, s < sh.S ∧ s' < sh.S ∧ t < sh.T ∧ v < sh.V ∧
    lookupKS null sh ks s t v ≠ lookupKS null sh ks s' t v

def nonSliceClass (ks : KeyState α) : Prop :=
  match ks with
  | none => True
  | some (c, _) => c = gconst ∨ c = tsamples ∨ c = vsamples

/-- invariant of the accumulator after at least one `_insert` along the slice axis -/
def SliceInv (null : α) (sh : Shp) (ks : KeyState α) : Prop :=
  match ks with
  | none => True
  | some (c, _) => c = gconst ∨ c = gslices ∨
      ((c = tslices ∨ (c = vslices ∧ sh.hasTime = false)) ∧ SliceVaries null sh ks)

end merge_canonical


/-! ### canonicity of time / vector merges (C06) -/
section sample_canonical
variable {α : Type} [DecidableEq α]

/-- two time points of the same slice read differently (4-D, V = 1) -/
def TimeVaries (null : α) (sh : Shp) (ks : KeyState α) : Prop :=
  ∃ s t t', s < sh.S ∧ t < sh.T ∧ t' < sh.T ∧
    lookupKS null sh ks s t 0 ≠ lookupKS null sh ks s t' 0

def TimeInv (null : α) (sh : Shp) (ks : KeyState α) : Prop :=
  match ks with
  | none => True
  | some (c, _) => c = gconst ∨ c = gslices ∨ (c = tsamples ∧ TimeVaries null sh ks)

end sample_canonical


section vector_canonical
variable {α : Type} [DecidableEq α]

/-- two vector components read differently at the same slice and time -/
def VecVaries (null : α) (sh : Shp) (ks : KeyState α) : Prop :=
  ∃ s t v v', s < sh.S ∧ t < sh.T ∧ v < sh.V ∧ v' < sh.V ∧
    lookupKS null sh ks s t v ≠ lookupKS null sh ks s t v'

def VecInv (null : α) (sh : Shp) (ks : KeyState α) : Prop :=
  match ks with
  | none => True
  | some (c, _) => c = gconst ∨ c = gslices ∨ (c = vsamples ∧ VecVaries null sh ks)

def nonVectorClass (ks : KeyState α) : Prop :=
  match ks with
  | none => True
  | some (c, _) => c ≠ vsamples ∧ c ≠ vslices

end vector_canonical

section convert_canonical
variable {α : Type} [DecidableEq α]

end convert_canonical


/-! ### C05 (slice axis, per key): split then merge is the identity on canonical keys -/
section roundtrip
variable {α : Type} [DecidableEq α]

/-- `get_subset(slice_dim, idx)` for one key -/
def subsetSliceK (null : α) (sh : Shp) (ks : KeyState α) (idx : Nat) : Except Err (KeyState α) :=
  match ks with
  | none => .ok none
  | some (c, vals) =>
    if perSlice c then
      let rs := sliceSubsetShp sh
      let d := copySliceDest (validClasses rs) c
      applySimplify null rs (some (d, copySliceVals sh.S (mult rs d) idx vals))
    else .ok (some (c, vals))

/-- a key at its simplest classification, carrying information -/
def Canonical (null : α) (sh : Shp) (ks : KeyState α) : Prop :=
  match ks with
  | none => True
  | some (c, vals) =>
    (∀ e, basePresent sh e = true → rank e < rank c →
      ¬ RepOK sh (fun s t v => lookupKS null sh ks s t v) e) ∧ ¬ (c = gconst ∧ vals = [null])

end roundtrip


/-! ### dictionary level of `_insert` / `from_sequence` and its factorisation (C13) -/
section dict_insert
variable {α : Type} [DecidableEq α] {κ : Type} [DecidableEq κ]

/-- all keys of the valid classifications, in `get_keys()` order -/
def Ext.keys (e : Ext κ α) : List κ :=
  (validClasses e.sh).flatMap fun c => (e.dict c).map (·.1)

/-- `_insert(dim, other)` at dictionary level, abstracting the two per-class loops: every key of
    `other` and every key only `self` has is processed once, by the per-key step `step`. The
    per-key writes of the code (`d[key] = …`, `del d[key]`) are summarised by `putKey`; the order
    in which keys end up inside a dictionary is not part of this model (it is compared by the
    correspondence where a property is about order). -/
def Ext.insertWith (step : KeyState α → KeyState α → KeyState α) (self other : Ext κ α) :
    Ext κ α :=
  let ks := (other.keys ++ self.keys).eraseDups
  ks.foldl (fun e k => e.putKey k (step (e.key k) (other.key k))) self

end dict_insert

/-! ### merging along a non-slice spatial axis keeps exactly the agreeing keys (C03) -/
section merge_nonslice
variable {α : Type} [DecidableEq α]

def stepNonSliceK (null : α) (sh : Shp) (self b : KeyState α) : Except Err (KeyState α) :=
  if self = none ∧ b = none then .ok none else
  match reclassifyK null sh self (otherClass b) with
  | .error e => .error e
  | .ok a1 => insertNonSliceK null sh a1 b

/-- two key states read the same at every position -/
def Agree (null : α) (sh : Shp) (a b : KeyState α) : Prop :=
  ∀ s t v, s < sh.S → t < sh.T → v < sh.V → lookupKS null sh a s t v = lookupKS null sh b s t v

def foldNonSliceK (null : α) (sh : Shp) : KeyState α → List (KeyState α) → Except Err (KeyState α)
  | acc, [] => .ok acc
  | acc, b :: rest =>
    match stepNonSliceK null sh acc b with
    | .error e => .error e
    | .ok acc' => foldNonSliceK null sh acc' rest

end merge_nonslice


/-! ### C04 / C05 (time axis of a 4-D extension, per key) -/
section roundtrip_time
variable {α : Type} [DecidableEq α]

/-- `get_subset(3, idx)` for one key -/
def subsetTimeK (null : α) (sh : Shp) (ks : KeyState α) (idx : Nat) : Except Err (KeyState α) :=
  match ks with
  | none => .ok none
  | some (c, vals) =>
    if c = gconst then .ok (some (c, vals))
    else
      let rs := timeSubsetShp sh
      let out := copySampleK sh rs true idx c vals
      if out.2.2 then applySimplify null rs (some (out.1, out.2.1)) else .ok (some (out.1, out.2.1))

end roundtrip_time


/-! ### C04 / C05 (vector axis of a 5-D extension, per key) -/
section roundtrip_vec
variable {α : Type} [DecidableEq α]

/-- `get_subset(4, idx)` for one key -/
def subsetVecK (null : α) (sh : Shp) (ks : KeyState α) (idx : Nat) : Except Err (KeyState α) :=
  match ks with
  | none => .ok none
  | some (c, vals) =>
    if c = gconst then .ok (some (c, vals))
    else
      let rs := vecSubsetShp sh
      let out := copySampleK sh rs false idx c vals
      if out.2.2 then applySimplify null rs (some (out.1, out.2.1)) else .ok (some (out.1, out.2.1))

end roundtrip_vec


/-! ### `filter_meta` (C14) at dictionary level -/
section filter_meta
variable {α : Type} [DecidableEq α] {κ : Type} [DecidableEq κ]

def Dict.filterKeys (d : Dict κ α) (drop : κ → Bool) : Dict κ α := d.filter fun p => !drop p.1

/-- `filter_meta(filter_func)` (the filter looks at the key only, as the regex filter does) -/
def Ext.filterMeta (e : Ext κ α) (drop : κ → Bool) : Ext κ α :=
  { e with dict := fun c => (e.dict c).filterKeys drop }

/-- `make_key_regex_filter`: exclude unless force-included, for any matching relation -/
def regexFilter {ρ : Type} (mtch : ρ → κ → Bool) (excl incl : List ρ) (k : κ) : Bool :=
  excl.any (mtch · k) && !(incl.any (mtch · k))

end filter_meta

/-! ### non-vacuity: concrete runs of the model (the hypotheses of the theorems are met) -/
