/-! `_parse_phoenix_line` and `parse_phoenix_prot` (extract.py 133–226) on `List Char`.
`int(s)`, `int(s, 16)`, `float(s)` are modelled as recognisers of CPython's accepted syntax that
return the exact integer, or for floats the accepted lexeme (decimal → binary64 rounding is
CPython's and is trusted). -/
set_option autoImplicit false

namespace Phx

abbrev Str := List Char

def isWs (c : Char) : Bool :=
  c = ' ' || c = '\t' || c = '\n' || c = '\r' || c = '\x0b' || c = '\x0c'

def lstrip (l : Str) : Str := l.dropWhile isWs
def rstrip (l : Str) : Str := (l.reverse.dropWhile isWs).reverse
def strip (l : Str) : Str := rstrip (lstrip l)

/-- `str.find(sub)` : index of the first occurrence, `none` for -1 -/
def findSub (sub : Str) : Str → Option Nat
  | [] => if sub.isEmpty then some 0 else none
  | c :: cs => if sub.isPrefixOf (c :: cs) then some 0 else (findSub sub cs).map (· + 1)

/-- `str.count(sub)` : non-overlapping occurrences (sub non-empty) -/
def countGo (sub : Str) : Nat → Str → Nat
  | 0, _ => 0
  | _, [] => 0
  | fuel + 1, c :: cs =>
    if sub.isPrefixOf (c :: cs) then 1 + countGo sub fuel ((c :: cs).drop sub.length)
    else countGo sub fuel cs

def countSub (sub : Str) (l : Str) : Nat := countGo sub l.length l

inductive PVal
  | int (n : Int)
  | floatLex (s : Str)      -- the lexeme CPython's float() accepted
  | str (s : Str)
deriving DecidableEq, Repr

inductive POut
  | none                      -- blank / comment-only line
  | pair (key : Str) (v : PVal)
  | parseError
deriving DecidableEq, Repr

def isDigit (c : Char) : Bool := '0' ≤ c && c ≤ '9'
def digitVal (c : Char) : Nat := c.toNat - '0'.toNat
def hexVal (c : Char) : Option Nat :=
  if isDigit c then some (digitVal c)
  else if 'a' ≤ c && c ≤ 'f' then some (c.toNat - 'a'.toNat + 10)
  else if 'A' ≤ c && c ≤ 'F' then some (c.toNat - 'A'.toNat + 10)
  else none

/-- digits with optional single underscores between them (CPython `int()` syntax) -/
def digitsGo (base : Nat) (digit : Char → Option Nat) (acc : Nat) : Str → Option Nat
  | [] => some acc
  | '_' :: c :: cs =>
    match digit c with
    | some d => digitsGo base digit (acc * base + d) cs
    | none => none
  | c :: cs =>
    match digit c with
    | some d => digitsGo base digit (acc * base + d) cs
    | none => none

def parseDigits (base : Nat) (digit : Char → Option Nat) : Str → Option Nat
  | [] => none
  | c :: cs =>
    match digit c with
    | none => none
    | some d => digitsGo base digit d cs

def decDigit (c : Char) : Option Nat := if isDigit c then some (digitVal c) else none

def splitSign (s : Str) : Bool × Str :=
  match s with
  | '-' :: r => (true, r)
  | '+' :: r => (false, r)
  | r => (false, r)

def applySign (neg : Bool) (n : Nat) : Int := if neg then - (n : Int) else n

/-- `int(s)` on an already stripped string -/
def pyInt (s : Str) : Option Int :=
  (parseDigits 10 decDigit (splitSign s).2).map (applySign (splitSign s).1)

def dropHexPrefix (r : Str) : Str :=
  match r with
  | '0' :: 'x' :: '_' :: t => t
  | '0' :: 'X' :: '_' :: t => t
  | '0' :: 'x' :: t => t
  | '0' :: 'X' :: t => t
  | _ => r

/-- `int(s, 16)` -/
def pyIntHex (s : Str) : Option Int :=
  (parseDigits 16 hexVal (dropHexPrefix (splitSign s).2)).map (applySign (splitSign s).1)

def digitsOk (d : Str) : Bool := (parseDigits 10 decDigit d).isSome

def splitAt (p : Char → Bool) (s : Str) : Str × Option Str :=
  match s.span (fun c => !p c) with
  | (m, []) => (m, none)
  | (m, _ :: e) => (m, some e)

/-- recogniser for `float(s)` (decimal forms; `inf`/`nan` spelled out) -/
def pyFloatOk (s : Str) : Bool :=
  let r := (splitSign s).2
  let lower := r.map Char.toLower
  if lower = "inf".toList || lower = "infinity".toList || lower = "nan".toList then true
  else
    let me := splitAt (fun c => c == 'e' || c == 'E') r
    let ifp := splitAt (· == '.') me.1
    let mantOk := match ifp.2 with
      | none => digitsOk ifp.1
      | some f => (ifp.1.isEmpty && digitsOk f) || (digitsOk ifp.1 && (f.isEmpty || digitsOk f))
    let expOk := match me.2 with
      | none => true
      | some e => digitsOk (splitSign e).2
    mantOk && expOk

/-- comment handling (extract.py 136–143): `none` = PhoenixParseError -/
def stripComment (delim : Str) (line0 : Str) : Option Str :=
  match findSub ['#'] line0 with
  | none => some line0
  | some ci =>
    if countSub delim (line0.take ci) = 1 then
      (if (findSub delim (line0.drop ci)).isNone then none else some line0)
    else some (line0.take ci)

/-- the numeric fall-backs: int, then hex, then float -/
def parseNumber (key v : Str) : POut :=
  match pyInt v with
  | some n => .pair key (.int n)
  | none =>
    match pyIntHex v with
    | some n => .pair key (.int n)
    | none => if pyFloatOk v then .pair key (.floatLex v) else .parseError

/-- the quoted-string branch (extract.py 157–166, with the F7 repair: slice from `delim_len`) -/
def parseString (delim key v : Str) : POut :=
  let dl := delim.length
  -- end_quote = val_str[dl:].find(delim) + dl   (Python: -1 + dl when not found)
  let endQuote : Int := match findSub delim (v.drop dl) with
    | some i => (i : Int) + dl
    | none => -1 + dl
  if endQuote = -1 then .parseError
  else
    let bad :=
      if endQuote = (v.length : Int) - dl then false
      else !(['#'].isPrefixOf (strip (v.drop (endQuote + dl).toNat)))
    if bad then .parseError
    else
      -- Python slice v[dl:endQuote] with possibly negative endQuote
      let stop : Nat := if endQuote < 0 then (v.length - (-endQuote).toNat) else endQuote.toNat
      .pair key (.str ((v.take stop).drop dl))

/-- `_parse_phoenix_line(line, str_delim)` -/
def parseLine (delim : Str) (line0 : Str) : POut :=
  match stripComment delim line0 with
  | none => .parseError
  | some line =>
    if strip line = [] then .none
    else
      match findSub ['='] line with
      | none => .parseError
      | some ei =>
        let key := strip (line.take ei)
        let v := strip (line.drop (ei + 1))
        if delim.isPrefixOf v then parseString delim key v else parseNumber key v

/-! ### `parse_phoenix_prot` -/

/-- Python `s[a:b]` for possibly negative bounds -/
def pyBound (len : Nat) (i : Int) : Nat :=
  if i < 0 then (if (-i).toNat ≤ len then len - (-i).toNat else 0) else min i.toNat len
def pySlice (a b : Int) (l : Str) : Str :=
  let a' := pyBound l.length a
  let b' := pyBound l.length b
  (l.take b').drop a'

def findI (sub l : Str) : Int := match findSub sub l with | some i => i | none => -1

/-- `str.split('\n')` -/
def splitLines : Str → List Str
  | [] => [[]]
  | c :: cs =>
    match splitLines cs with
    | [] => [[]]           -- unreachable
    | l :: ls => if c = '\n' then [] :: l :: ls else (c :: l) :: ls

/-- `OrderedDict.__setitem__`: replace in place, or append -/
def setKey (d : List (Str × PVal)) (k : Str) (v : PVal) : List (Str × PVal) :=
  match d with
  | [] => [(k, v)]
  | (k', v') :: rest => if k' = k then (k, v) :: rest else (k', v') :: setKey rest k v

inductive ProtOut
  | ok (d : List (Str × PVal))
  | parseError
  | valueError
deriving DecidableEq, Repr

def protLoop (delim : Str) : List Str → List (Str × PVal) → ProtOut
  | [], acc => .ok acc
  | l :: ls, acc =>
    match parseLine delim l with
    | .parseError => .parseError
    | .none => protLoop delim ls acc
    | .pair k v => protLoop delim ls (setKey acc k v)

def dropLast {β : Type} (l : List β) : List β := l.take (l.length - 1)

/-- `parse_phoenix_prot(prot_key, prot_val)` -/
def parseProt (key text : Str) : ProtOut :=
  let delim : Option Str :=
    if key = "MrPhoenixProtocol".toList then some ['"', '"']
    else if key = "MrProtocol".toList then some ['"'] else none
  match delim with
  | none => .valueError
  | some d =>
    let s := findI "### ASCCONV BEGIN ".toList text
    let e := findI "### ASCCONV END ###".toList text
    let lines := dropLast ((splitLines (pySlice s e text)).drop 1)     -- .split('\n')[1:-1]
    protLoop d lines []

end Phx
