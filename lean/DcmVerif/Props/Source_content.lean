import DcmVerif.Proofs.Code_content
/-! The tie by proof (dcmmeta.py: filter_meta, clear_slice_meta, get_keys): functions translated from the Python source on every run
(`tools/gen_code.py` → `Generated/Code_content.lean`) are the model functions the property theorems speak about.
Statements only; proofs are by reference to `Proofs/Code_content.lean`. One file per function group, so that an edit
of one function only unsettles the properties that depend on it. -/
set_option autoImplicit false
set_option linter.unusedVariables false
open Cls

namespace Source
variable {α κ : Type}
open Src
variable [DecidableEq κ]

/-- **`filter_meta` as written in dcmmeta.py filters the dictionary of every valid classification** — the entries for which
    the filter function returns true are removed, every other entry and every other dictionary is left as it was -/
theorem filter_meta_filters_every_valid_dictionary (shape : List Nat) (valid : List Cls) (hv : Py.get_valid_classes shape = .ok valid)
    (content : Content κ α) (h : ContentOk valid content) (f : κ → List α → Bool) :
    Py.filter_meta shape content f =
      .ok (content.map fun p => if p.1 ∈ valid then (p.1, filt f p.2) else p) :=
  Src.filter_meta_eq shape valid hv content h f

/-- **`filter_meta` as written in dcmmeta.py is the model's `filterMeta`** for a filter that looks at the key (as the regular
    expression filter of C14 does): on the classification dictionaries of any extension with 3 to 5 axes whose keys are unique,
    the method leaves the dictionaries of the model's result -/
theorem filter_meta_is_model (e : DExt κ α) (h3 : 3 ≤ e.shape.length) (h5 : e.shape.length ≤ 5)
    (hn : (e.ents.map (·.1)).Nodup) (drop : κ → Bool) :
    Py.filter_meta e.shape (toContent e) (fun k _ => drop k) = .ok (toContent (e.filterMeta drop)) :=
  Src.filter_meta_model e h3 h5 hn drop

/-- **`clear_slice_meta` as written in dcmmeta.py is the model's `clearSliceMeta`** -/
theorem clear_slice_meta_is_model (e : DExt κ α) (h3 : 3 ≤ e.shape.length) (h5 : e.shape.length ≤ 5) :
    Py.clear_slice_meta e.shape (toContent e) = .ok (toContent e.clearSliceMeta) :=
  Src.clear_slice_meta_model e h3 h5

/-- **`get_keys` as written in dcmmeta.py lists exactly the model's `keys`** (classification by classification) for an
    extension whose entries sit in valid classifications -/
theorem get_keys_is_model (e : DExt κ α) (h3 : 3 ≤ e.shape.length) (h5 : e.shape.length ≤ 5)
    (hcls : ∀ x ∈ e.ents, x.2.1 ∈ validClasses e.shp) :
    ∃ ks, Py.get_keys e.shape (toContent e) = .ok ks ∧ ∀ k, k ∈ ks ↔ k ∈ e.keys :=
  Src.get_keys_model e h3 h5 hcls

/-- the translator translated every function of this group (dcmmeta.py: filter_meta, clear_slice_meta, get_keys) -/
theorem translator_complete_content : Gen.codeMissing_content = [] := rfl

end Source
