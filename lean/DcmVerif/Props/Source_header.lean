import DcmVerif.Proofs.Code_header
/-! The tie by proof (dcmstack.py: repetition time, dim_info and slice timing in DicomStack.to_nifti): functions translated from the Python source on every run
(`tools/gen_code.py` → `Generated/Code_header.lean`) are the model functions the property theorems speak about.
Statements only; proofs are by reference to `Proofs/Code_header.lean`. One file per function group, so that an edit
of one function only unsettles the properties that depend on it. -/
set_option autoImplicit false
set_option linter.unusedVariables false
open Cls

namespace Source
variable {α κ : Type}
open Src Stk

/-- **the slice-timing block of `to_nifti` as written in dcmstack.py is the model's `sliceTimesOf`**, for a file list that holds
    `nVols` volumes of `n > 0` slices -/
theorem header_slice_times_is_model (fpv nVols n : Nat) (files : List (Option Int))
    (hn : 0 < n) (hv : 0 < nVols) (hlen : files.length = nVols * n) :
    Py.header_slice_times fpv nVols n files = .ok (sliceTimesOf fpv nVols n files) :=
  Src.header_slice_times_eq fpv nVols n files hn hv hlen

/-- **the repetition time and `dim_info` that `to_nifti` writes, as in dcmstack.py, are the model's `trOf` / `dimInfoOf`** (for a
    permutation of the three spatial axes; the slice axis is `permutation[2]`) -/
theorem header_dim_info_is_model (trs : List (Option Int)) (pes : List (Option Nat)) (a b c : Nat) :
    Py.header_dim_info trs pes [a, b, c] c =
      .ok (trOf trs, (dimInfoOf pes [a, b, c]).1, (dimInfoOf pes [a, b, c]).2.1, (dimInfoOf pes [a, b, c]).2.2) :=
  Src.header_dim_info_eq trs pes a b c

/-- the translator translated every function of this group (dcmstack.py: repetition time, dim_info and slice timing in DicomStack.to_nifti) -/
theorem translator_complete_header : Gen.codeMissing_header = [] := rfl

end Source
