import DcmVerif.Proofs.Code_data
/-! The tie by proof (dcmstack.py: DicomStack.get_data): functions translated from the Python source on every run
(`tools/gen_code.py` → `Generated/Code_data.lean`) are the model functions the property theorems speak about.
Statements only; proofs are by reference to `Proofs/Code_data.lean`. One file per function group, so that an edit
of one function only unsettles the properties that depend on it. -/
set_option autoImplicit false
set_option linter.unusedVariables false
open Cls

namespace Source
variable {α κ : Type}
open Src Stk Wrap

/-- **the file index `get_data` computes is the model's `fileIdx`** -/
theorem file_idx_is_model (rows cols S T V v t s : Nat) :
    Py.file_idx_slice [rows, cols, S, T, V] v t s = Stk.fileIdx S T s t v :=
  Src.file_idx_eq rows cols S T V v t s

/-- one file per volume: the index is the volume number -/
theorem file_idx_volume_is_model (rows cols S T V v t : Nat) :
    Py.file_idx_volume [rows, cols, S, T, V] v t = v * T + t :=
  Src.file_idx_volume_eq rows cols S T V v t

/-- **the trimming block of `get_data` as written in dcmstack.py is the model's `stackTrim`** -/
theorem get_data_trim_is_model (a : Wrap.Arr α) (rows cols S T V : Nat) :
    Py.get_data_trim a [rows, cols, S, T, V] = .ok (Wrap.stackTrim a T V) :=
  Src.get_data_trim_eq a rows cols S T V

/-- the translator translated every function of this group (dcmstack.py: DicomStack.get_data) -/
theorem translator_complete_data : Gen.codeMissing_data = [] := rfl

end Source
