import DcmVerif.Proofs.ExtFactor
/-! Property theorems for C13_ext. Statements only; proofs are by reference to `Proofs/`. -/
set_option autoImplicit false
open Cls

namespace C13
variable {κ α : Type} [DecidableEq κ] [DecidableEq α]
open DExt

/-- **C13(b), merges:** after `from_sequence` the entry of key `k` in the result is what the per-key
    merge of the inputs' entries for `k` gives (and nothing else) — whatever other keys are
    present, in whatever order -/
theorem merge_factorises (null : α) (es : List (DExt κ α)) (dim : Nat) (sdArg : Option Nat)
    (use : List Bool) (r : DExt κ α) (h : fromSequence null es dim sdArg use = .ok r) :
    ∃ sh1 osh sd, ∀ k,
      (r.ents.find? fun x => x.1 == k) =
        if k ∈ (es.flatMap keys).eraseDups then (mergeKey null sh1 osh sd dim es use k).kept
        else none :=
  DExt.fromSequence_key null es dim sdArg use r h

/-- **C13(b), subsets:** the entry of key `k` in `get_subset(dim, idx)` is what the per-key subset
    makes of the parent's entry for `k` -/
theorem subset_factorises (null : α) (e : DExt κ α) (dim idx : Nat) (r : DExt κ α)
    (h : getSubset null e dim idx = .ok r) :
    ∃ rsh, ∀ k,
      (r.ents.find? fun x => x.1 == k) =
        (e.ents.find? fun x => x.1 == k).bind
          fun x => (subsetEntry null e.shp rsh e.sliceDim dim idx x).kept :=
  DExt.getSubset_key null e dim idx r h

end C13
