import DcmVerif.Props.Source_cli
import DcmVerif.Proofs.Cli
/-! Property theorems for C19. Statements only; proofs are by reference to `Proofs/`. -/
set_option autoImplicit false
open Cls

namespace C19
variable {κ α : Type} [DecidableEq κ] [DecidableEq α]
open Cli

/-- the current source does not alias the module default lists (translator flag) -/
theorem cli_no_alias : Gen.cliAliasesDefaults = false :=
  Cli.cli_no_alias 

/-- **no hidden state:** an invocation leaves the module defaults as they were -/
theorem cli_stateless (g : Globals) (a : Args) : (mainFilterLists g a).1 = g :=
  Cli.cli_stateless g a

/-- **the i-th output of any invocation sequence depends only on its own arguments** -/
theorem cli_seq_independent (g : Globals) (as : List Args) :
    runSeq Gen.cliAliasesDefaults g as =
      as.map fun a => (g.excl ++ a.extraExcl, g.incl ++ a.extraIncl) :=
  Cli.cli_seq_independent g as

/-- with aliasing the second invocation still filters with the first one's patterns (what the
    code did before the repair) -/
theorem alias_leaks :
    runSeq true ⟨["Patient"], []⟩ [⟨["Echo"], []⟩, ⟨[], []⟩] =
      [(["Patient", "Echo"], []), (["Patient", "Echo"], [])] :=
  Cli.alias_leaks 

/-- the filter of an invocation is exclude-unless-included over defaults plus extras -/
theorem cli_filter_is_exclude_unless_included (a : Args) (k : String) :
    Flt.cliFilter a.extraExcl a.extraIncl k = true ↔
      (∃ e ∈ Gen.defaultExcl ++ a.extraExcl, Flt.matchLit e k = true) ∧
        ¬ ∃ i ∈ Gen.defaultIncl ++ a.extraIncl, Flt.matchLit i k = true :=
  Cli.cli_filter_is_exclude_unless_included a k

/-- **output names are unique:** whatever the natural names of the groups are (also when one
    already ends in a suffix) no name is used twice -/
theorem names_unique (fmt : Nat → String) (ns : List String) :
    ∀ (gen : List String) (idx : Nat) (out : List String), outNames fmt ns gen idx = some out →
      out.Nodup ∧ ∀ c ∈ out, c ∉ gen :=
  Cli.names_unique fmt ns

/-- one name per group, in group order -/
theorem names_length (fmt : Nat → String) (ns : List String) :
    ∀ (gen : List String) (idx : Nat) (out : List String), outNames fmt ns gen idx = some out →
      out.length = ns.length :=
  Cli.names_length fmt ns

/-- **inject refuses** an invalid classification, a wrong number of values, and an existing key
    without `-f` (exit code 1, nothing written) -/
theorem inject_refuses (e : DExt κ α) (cls : Cls) (key : κ) (vals : List α) (force : Bool)
    (h : cls ∉ validClasses e.shp ∨ vals.length ≠ mult e.shp cls ∨
         (e.ents.any (fun x => x.1 == key) = true ∧ force = false)) :
    inject e cls key vals force = .rc 1 :=
  Cli.inject_refuses e cls key vals force h

/-- **inject adds exactly the given values under the given key and leaves every other key alone** -/
theorem inject_only_key (e r : DExt κ α) (cls : Cls) (key : κ) (vals : List α) (force : Bool)
    (h : inject e cls key vals force = .ok r) :
    (key, cls, vals) ∈ r.ents ∧
    (∀ x, x.1 ≠ key → (x ∈ r.ents ↔ x ∈ e.ents)) ∧
    (∀ x ∈ r.ents, x.1 = key → x = (key, cls, vals)) ∧
    r.shape = e.shape ∧ r.sliceDim = e.sliceDim :=
  Cli.inject_only_key e r cls key vals force h

/-- **inject keeps the extension valid**: the new entry sits in a valid class with the right count
    (a constant has one value; a varying class of multiplicity 1 holds a one-element list) -/
theorem inject_valid (e r : DExt κ α) (cls : Cls) (key : κ) (vals : List α) (force : Bool)
    (hv : e.validB = true) (h : inject e cls key vals force = .ok r) : r.validB = true :=
  Cli.inject_valid e r cls key vals force hv h

end C19
