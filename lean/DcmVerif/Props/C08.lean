import DcmVerif.Props.Source_classes
import DcmVerif.Props.Source_dicts
import DcmVerif.Props.Source_lookup
import DcmVerif.Proofs.Key
/-! Property theorems for C08. Statements only; proofs are by reference to `Proofs/`. -/
set_option autoImplicit false
open Cls

namespace C08
variable {α : Type} [DecidableEq α]

/-- **C08, matching image, in-bounds index:** `get_meta` returns the value at the asked position
    under the documented layout. -/
theorem getMeta_matched (e : ExtGeom) (img : Img) (sh : Shp) (sd : Nat)
    (hm : Matched e img sh sd) (c : Cls) (hcg : c ≠ gconst) (vals : List α)
    (idx : List Nat) (hil : idx.length = img.shape.length)
    (hib : (List.zip idx img.shape).all (fun p => decide (p.1 < p.2)) = true) :
    getMeta e img (some (c, vals)) (some idx) =
      GetOut.ofIdx (lookupK sh c vals (idx.getD sd 0) (idx.getD 3 0) (idx.getD 4 0)) :=
  _root_.getMeta_matched e img sh sd hm c hcg vals idx hil hib

/-- **C08, mismatch:** when the image no longer matches the extension for the key's class, the
    default is returned — whatever the index (never a value from another position, never an
    exception). -/
theorem getMeta_mismatch (e : ExtGeom) (img : Img) (c : Cls) (hcg : c ≠ gconst) (vals : List α)
    (h : metaValid e img c = false) (index : Option (List Nat)) :
    getMeta e img (some (c, vals)) index = .dflt :=
  _root_.getMeta_mismatch e img c hcg vals h index

/-- **C08, no index:** only global constants are returned without an index. -/
theorem getMeta_noindex (e : ExtGeom) (img : Img) (c : Cls) (hcg : c ≠ gconst) (vals : List α) :
    getMeta e img (some (c, vals)) none = .dflt :=
  _root_.getMeta_noindex e img c hcg vals

/-- **C08, bounds:** on a matching image a wrong-length or out-of-range index raises. -/
theorem getMeta_bounds (e : ExtGeom) (img : Img) (c : Cls) (hcg : c ≠ gconst) (vals : List α)
    (hv : metaValid e img c = true) (idx : List Nat)
    (hbad : idx.length ≠ img.shape.length ∨
      (List.zip idx img.shape).all (fun p => decide (p.1 < p.2)) = false) :
    getMeta e img (some (c, vals)) (some idx) = .indexError :=
  _root_.getMeta_bounds e img c hcg vals hv idx hbad

theorem metaValid_matched (e : ExtGeom) (img : Img) (sh : Shp) (sd : Nat)
    (hm : Matched e img sh sd) (c : Cls) : metaValid e img c = true :=
  _root_.metaValid_matched e img sh sd hm c

end C08
