import DcmVerif.Proofs.Code_subset
/-! The tie by proof (dcmmeta.py: get_subset for one key of the parent (class dispatch, _copy_slice, _copy_sample)): functions translated from the Python source on every run
(`tools/gen_code.py` → `Generated/Code_subset.lean`) are the model functions the property theorems speak about.
Statements only; proofs are by reference to `Proofs/Code_subset.lean`. One file per function group, so that an edit
of one function only unsettles the properties that depend on it. -/
set_option autoImplicit false
set_option linter.unusedVariables false
open Cls

namespace Source
variable {α κ : Type}
open Src
variable [DecidableEq α]

/-- **`_copy_slice` for one key, as written in dcmmeta.py, is the per-key model of a subset along the slice axis** (`subsetSliceK`):
    destination class `copySliceDest`, values `copySliceVals`, then `_simplify` — whenever the strided subset is not empty (or
    the destination holds no values), as for `copy_slice_vals_is_model` -/
theorem copy_slice_is_model (null : α) (r : DExt κ α) (h3 : 3 ≤ r.shape.length) (h5 : r.shape.length ≤ 5)
    (hsl : r.sliceDim.isSome = true) (hbase : ∀ d, basePresent r.shp d = true → d ∈ validClasses r.shp)
    (eS : Nat) (c : Cls) (hc : perSlice c = true) (vals : List α) (idx : Nat)
    (hne : (stride eS (vals.drop idx)).length ≠ 0 ∨ mult r.shp (copySliceDest (validClasses r.shp) c) = 0) :
    Py.copy_slice null r.shape (r.sliceDim.map fun d => r.shape.getD d 1) (contentOf r) [] (some eS) c vals idx =
      errOf ((applySimplify null r.shp
        (some (copySliceDest (validClasses r.shp) c,
          copySliceVals eS (mult r.shp (copySliceDest (validClasses r.shp) c)) idx vals))).map toDict) :=
  Src.copy_slice_eq null r h3 h5 hsl hbase eS c hc vals idx hne

/-- **`_copy_sample` for one key, as written in dcmmeta.py, is the per-key model of a subset along the time / vector axis**
    (`copySampleK`, followed by `_simplify` exactly where the model says so), for an index inside the values and a destination
    class the result extension has -/
theorem copy_sample_is_model (null : α) (e r : DExt κ α) (isTime : Bool)
    (he4 : 4 ≤ e.shape.length) (he5 : e.shape.length ≤ 5) (hev : isTime = false → e.shape.length = 5)
    (hesl : e.sliceDim.isSome = true)
    (h3 : 3 ≤ r.shape.length) (h5 : r.shape.length ≤ 5)
    (hsl : r.sliceDim.isSome = true) (hbase : ∀ d, basePresent r.shp d = true → d ∈ validClasses r.shp)
    (c : Cls) (hcne : c ≠ gconst) (vals : List α) (idx : Nat) (hidx : idx < vals.length)
    (hdest : (copySampleK e.shp r.shp isTime idx c vals).1 ∈ validClasses r.shp) :
    Py.copy_sample null r.shape (r.sliceDim.map fun d => r.shape.getD d 1) (contentOf r) [] e.shape
        (e.sliceDim.map fun d => e.shape.getD d 1) c vals (if isTime then "time" else "vector") idx =
      errOf ((sampleSubsetK null e.shp r.shp isTime idx c vals).map toDict) :=
  Src.copy_sample_eq null e r isTime he4 he5 hev hesl h3 h5 hsl hbase c hcne vals idx hidx hdest

/-- **a subset along the slice axis, as written in dcmmeta.py, is the model's `subsetSliceK`** for one key: non-slice classes are
    copied, per-slice classes go through `_copy_slice` -/
theorem get_subset_slice_axis_is_model (null : α) (e r : DExt κ α) (dim : Nat) (hed : e.sliceDim = some dim)
    (h3 : 3 ≤ r.shape.length) (h5 : r.shape.length ≤ 5)
    (hsl : r.sliceDim.isSome = true) (hbase : ∀ d, basePresent r.shp d = true → d ∈ validClasses r.shp)
    (hrs : r.shp = sliceSubsetShp e.shp)
    (c : Cls) (vals : List α) (idx : Nat)
    (hne : perSlice c = true → (stride e.shp.S (vals.drop idx)).length ≠ 0 ∨ mult r.shp (copySliceDest (validClasses r.shp) c) = 0) :
    Py.get_subset_key null e.shape (e.sliceDim.map fun d => e.shape.getD d 1) e.sliceDim r.shape
        (r.sliceDim.map fun d => r.shape.getD d 1) (contentOf r) [] c vals dim idx =
      errOf ((subsetSliceK null e.shp (some (c, vals)) idx).map toDict) :=
  Src.get_subset_key_slice_eq null e r dim hed h3 h5 hsl hbase hrs c vals idx hne

/-- **a subset along a spatial axis other than the slice axis copies every key** -/
theorem get_subset_spatial_axis_copies (null : α) (e r : DExt κ α) (dim : Nat) (hed : e.sliceDim ≠ some dim) (hd3 : dim < 3)
    (c : Cls) (vals : List α) (idx : Nat) :
    Py.get_subset_key null e.shape (e.sliceDim.map fun d => e.shape.getD d 1) e.sliceDim r.shape
        (r.sliceDim.map fun d => r.shape.getD d 1) (contentOf r) [] c vals dim idx = .ok [(c, vals)] :=
  Src.get_subset_key_spatial_eq null e r dim hed hd3 c vals idx

/-- **a subset along the time (`dim = 3`) or vector (`dim = 4`) axis, as written in dcmmeta.py, is the model's `subsetTimeK` /
    `subsetVecK`** for one key: constants are copied, everything else goes through `_copy_sample` -/
theorem get_subset_sample_axis_is_model (null : α) (e r : DExt κ α) (isTime : Bool) (dim : Nat)
    (hdim : dim = if isTime then 3 else 4) (hed : e.sliceDim ≠ some dim)
    (he4 : 4 ≤ e.shape.length) (he5 : e.shape.length ≤ 5) (hev : isTime = false → e.shape.length = 5)
    (hesl : e.sliceDim.isSome = true)
    (h3 : 3 ≤ r.shape.length) (h5 : r.shape.length ≤ 5)
    (hsl : r.sliceDim.isSome = true) (hbase : ∀ d, basePresent r.shp d = true → d ∈ validClasses r.shp)
    (hrs : r.shp = if isTime then timeSubsetShp e.shp else vecSubsetShp e.shp)
    (c : Cls) (vals : List α) (idx : Nat) (hidx : idx < vals.length)
    (hdest : c ≠ gconst → (copySampleK e.shp r.shp isTime idx c vals).1 ∈ validClasses r.shp) :
    Py.get_subset_key null e.shape (e.sliceDim.map fun d => e.shape.getD d 1) e.sliceDim r.shape
        (r.sliceDim.map fun d => r.shape.getD d 1) (contentOf r) [] c vals dim idx =
      errOf (((if isTime then subsetTimeK null e.shp (some (c, vals)) idx else subsetVecK null e.shp (some (c, vals)) idx)).map toDict) :=
  Src.get_subset_key_sample_eq null e r isTime dim hdim hed he4 he5 hev hesl h3 h5 hsl hbase hrs c vals idx hidx hdest

/-- the translator translated every function of this group (dcmmeta.py: get_subset for one key of the parent (class dispatch, _copy_slice, _copy_sample)) -/
theorem translator_complete_subset : Gen.codeMissing_subset = [] := rfl

end Source
