import DcmVerif.Proofs.Code_subset
/-! The tie by proof (dcmmeta.py: per-key dictionary edits of subsets (_copy_slice, _copy_sample)): functions translated from the Python source on every run
(`tools/gen_code.py` → `Generated/Code_subset.lean`) are the model functions the property theorems speak about.
Statements only; proofs are by reference to `Proofs/Code_subset.lean`. One file per function group, so that an edit
of one function only unsettles the properties that depend on it. -/
set_option autoImplicit false
set_option linter.unusedVariables false
open Cls

namespace Source
variable {α κ : Type}
open Src
variable [DecidableEq α]

/-- **`_copy_slice` for one key, as written in dcmmeta.py, is the per-key model of a subset along the slice axis** (`subsetSliceK`):
    destination class `copySliceDest`, values `copySliceVals`, then `_simplify` — whenever the strided subset is not empty (or
    the destination holds no values), as for `copy_slice_vals_is_model` -/
theorem copy_slice_is_model (null : α) (r : DExt κ α) (h3 : 3 ≤ r.shape.length) (h5 : r.shape.length ≤ 5)
    (hsl : r.sliceDim.isSome = true) (hbase : ∀ d, basePresent r.shp d = true → d ∈ validClasses r.shp)
    (eS : Nat) (c : Cls) (hc : perSlice c = true) (vals : List α) (idx : Nat)
    (hne : (stride eS (vals.drop idx)).length ≠ 0 ∨ mult r.shp (copySliceDest (validClasses r.shp) c) = 0) :
    Py.copy_slice null r.shape (r.sliceDim.map fun d => r.shape.getD d 1) (contentOf r) [] (some eS) c vals idx =
      errOf ((applySimplify null r.shp
        (some (copySliceDest (validClasses r.shp) c,
          copySliceVals eS (mult r.shp (copySliceDest (validClasses r.shp) c)) idx vals))).map toDict) :=
  Src.copy_slice_eq null r h3 h5 hsl hbase eS c hc vals idx hne

/-- **`_copy_sample` for one key, as written in dcmmeta.py, is the per-key model of a subset along the time / vector axis**
    (`copySampleK`, followed by `_simplify` exactly where the model says so), for an index inside the values and a destination
    class the result extension has -/
theorem copy_sample_is_model (null : α) (e r : DExt κ α) (isTime : Bool)
    (he4 : 4 ≤ e.shape.length) (he5 : e.shape.length ≤ 5) (hev : isTime = false → e.shape.length = 5)
    (hesl : e.sliceDim.isSome = true)
    (h3 : 3 ≤ r.shape.length) (h5 : r.shape.length ≤ 5)
    (hsl : r.sliceDim.isSome = true) (hbase : ∀ d, basePresent r.shp d = true → d ∈ validClasses r.shp)
    (c : Cls) (hcne : c ≠ gconst) (vals : List α) (idx : Nat) (hidx : idx < vals.length)
    (hdest : (copySampleK e.shp r.shp isTime idx c vals).1 ∈ validClasses r.shp) :
    Py.copy_sample null r.shape (r.sliceDim.map fun d => r.shape.getD d 1) (contentOf r) [] e.shape
        (e.sliceDim.map fun d => e.shape.getD d 1) c vals (if isTime then "time" else "vector") idx =
      errOf ((sampleSubsetK null e.shp r.shp isTime idx c vals).map toDict) :=
  Src.copy_sample_eq null e r isTime he4 he5 hev hesl h3 h5 hsl hbase c hcne vals idx hidx hdest

/-- the translator translated every function of this group (dcmmeta.py: per-key dictionary edits of subsets (_copy_slice, _copy_sample)) -/
theorem translator_complete_subset : Gen.codeMissing_subset = [] := rfl

end Source
