import DcmVerif.Proofs.Stack
/-! Property theorems for C20_stack. Statements only; proofs are by reference to `Proofs/`. -/
set_option autoImplicit false

namespace C20
variable {α : Type}
open Stk

/-- **metadata follows data (C01, C20):** the volume block `t + T·v`, position `k` of the order
    used for embedded metadata and slice times after a slice-flipping conversion is the file whose
    pixels `get_data` put at slice `S − 1 − k` — the slice that the flip moves to output slice `k`. -/
theorem slice_times_follow_data (S T V : Nat) (L : List F) (hlen : L.length = S * (T * V))
    (k t v : Nat) (hk : k < S) (ht : t < T) (hv : v < V) :
    (reverseBlocks S (T * V) L)[(t + T * v) * S + k]? = L[fileIdx S T (S - 1 - k) t v]? :=
  Stk.meta_follows_flipped_data S T V L hlen k t v hk ht hv

/-- **the reversed file list follows the flipped data:** in volume block `b`, position `s` of the
    reversed list holds the file that was at position `S − 1 − s` of that block -/
theorem reversal_index (S vols : Nat) (l : List α) (hlen : l.length = S * vols)
    (b s : Nat) (hb : b < vols) (hs : s < S) :
    (reverseBlocks S vols l)[b * S + s]? = l[b * S + (S - 1 - s)]? :=
  Stk.reverseBlocks_getElem? S vols l hlen b s hb hs

end C20
