import DcmVerif.Proofs.Header
/-! Property theorems for C20 (header fields derived from the files). Statements only; proofs are by
reference to `Proofs/Header.lean`. -/
set_option autoImplicit false

namespace C20
open Stk

/-- **when slice timing is recorded it is right for every volume**: the recorded time of slice `k`
    is the acquisition time of the file at position `k` of volume `vol` (in the file order the
    conversion uses, i.e. after the per-volume reversal) minus the earliest time of that volume -/
theorem slice_times_every_volume (filesPerVol nVols n : Nat) (acq : List (Option Int))
    (ts : List Int) (h : sliceTimesOf filesPerVol nVols n acq = some ts) (vol : Nat)
    (hvol : vol < nVols) :
    relTimes (volTimes n vol (acq.map fun x => x.getD 0)) = ts :=
  Stk.sliceTimes_every_volume filesPerVol nVols n acq ts h vol hvol

/-- slice timing is recorded only if every file carries an acquisition time and a volume has more
    than one file -/
theorem slice_times_need_all (filesPerVol nVols n : Nat) (acq : List (Option Int)) (ts : List Int)
    (h : sliceTimesOf filesPerVol nVols n acq = some ts) :
    1 < filesPerVol ∧ ∀ a, a ∈ acq → a.isSome = true :=
  Stk.sliceTimes_needs_all filesPerVol nVols n acq ts h

/-- a volume whose relative times differ from the first volume's prevents the recording, wherever
    in the series it lies -/
theorem slice_times_inconsistent_none (filesPerVol nVols n : Nat) (acq : List (Option Int))
    (vol : Nat) (hvol : vol < nVols)
    (hdiff : relTimes (volTimes n vol (acq.map fun x => x.getD 0)) ≠
      relTimes (volTimes n 0 (acq.map fun x => x.getD 0))) :
    sliceTimesOf filesPerVol nVols n acq = none :=
  Stk.sliceTimes_inconsistent_none filesPerVol nVols n acq vol hvol hdiff

/-- **the repetition time is recorded only when it is the same in all files**: `pixdim[4]` is set
    to `x` iff the stack holds at least one file and every file it holds carries repetition time
    `x` — whatever sequence of `add_dcm` calls built the stack -/
theorem tr_recorded_iff (explicit : Bool) (cs : List Cand) (x : Int) :
    trOf (addAll explicit AddSt.init cs).1.trs = some x ↔
      acceptedOf explicit AddSt.init cs ≠ [] ∧
      ∀ c, c ∈ acceptedOf explicit AddSt.init cs → c.tr = some x :=
  Stk.tr_recorded_iff explicit cs x

/-- the slice axis recorded is `permutation[2]`; phase and frequency are recorded only for a unique,
    known phase-encoding direction, and then they are the images of the in-plane axes -/
theorem dim_info_spec (pes : List (Option Nat)) (p0 p1 p2 : Nat) :
    (dimInfoOf pes [p0, p1, p2]).2.2 = some p2 ∧
    (∀ d, pes = [some d] →
      dimInfoOf pes [p0, p1, p2] = (if d = 0 then (some p0, some p1, some p2) else (some p1, some p0, some p2))) ∧
    ((∀ d, pes ≠ [some d]) → (dimInfoOf pes [p0, p1, p2]).1 = none ∧ (dimInfoOf pes [p0, p1, p2]).2.1 = none) :=
  Stk.dimInfo_spec pes p0 p1 p2

/-- instances: three volumes of three slices; recorded when all agree, not recorded when the middle
    volume runs the other way although the last agrees with the first -/
example :
    sliceTimesOf 3 3 3 ([0, 500000, 1000000, 100000000, 100500000, 101000000, 200000000, 200500000, 201000000].map some)
      = some [0, 500000, 1000000] ∧
    sliceTimesOf 3 3 3 ([0, 500000, 1000000, 101000000, 100500000, 100000000, 200000000, 200500000, 201000000].map some)
      = none := by decide

end C20
