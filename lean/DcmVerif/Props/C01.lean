import DcmVerif.Props.Source_dicts
import DcmVerif.Props.Source_insert
import DcmVerif.Props.Source_values
import DcmVerif.Props.Source_classes
import DcmVerif.Props.Source_simplify
import DcmVerif.Props.Source_shapes
import DcmVerif.Props.Source_lookup
import DcmVerif.Proofs.EndToEnd
import DcmVerif.Props.C01_stack
/-! Property theorems for C01. Statements only; proofs are by reference to `Proofs/`. -/
set_option autoImplicit false
open Cls

namespace C01
variable {α : Type} [DecidableEq α]

/-- **C01 (metadata, one key, 5-D result):** if the per-volume, per-vector and final merges of
    `to_nifti` succeed, then looking the key up at slice `s`, time `t`, vector `v` returns exactly
    what file `(s,t,v)` carried — `null` if that file lacked the key. -/
theorem convert_lookup_key (null : α) (S T V : Nat) (hS : 0 < S) (hT : 2 ≤ T) (hV : 0 < V)
    (val : Nat → Nat → Nat → Option α)
    (vol : Nat → Nat → KeyState α) (vec : Nat → KeyState α) (r : KeyState α)
    (hvol : ∀ t v, t < T → v < V →
      mergeSliceK null ⟨3, 1, 1, 1, true, false, false⟩
        ((List.range S).map fun s => fileKS (val s t v)) = .ok (vol t v))
    (hvec : ∀ v, v < V →
      mergeTimeK null ⟨4, S, 1, 1, true, true, false⟩ ⟨3, S, 1, 1, true, false, false⟩
        ((List.range T).map fun t => vol t v) = .ok (vec v))
    (hfin : mergeVecK null ⟨5, S, T, 1, true, true, true⟩ ⟨4, S, T, 1, true, true, false⟩
        ((List.range V).map vec) = .ok r) :
    ∀ s t v, s < S → t < T → v < V →
      lookupKS null ⟨5, S, T, V, true, true, true⟩ r s t v = some ((val s t v).getD null) :=
  _root_.convert_lookup_key null S T V hS hT hV val vol vec r hvol hvec hfin

/-- **C01 (metadata, one key, 4-D result):** volumes merged along time. -/
theorem convert_lookup_key_4d (null : α) (S T : Nat) (hS : 0 < S) (hT : 0 < T)
    (val : Nat → Nat → Option α) (vol : Nat → KeyState α) (r : KeyState α)
    (hvol : ∀ t, t < T →
      mergeSliceK null ⟨3, 1, 1, 1, true, false, false⟩
        ((List.range S).map fun s => fileKS (val s t)) = .ok (vol t))
    (hfin : mergeTimeK null ⟨4, S, 1, 1, true, true, false⟩ ⟨3, S, 1, 1, true, false, false⟩
        ((List.range T).map vol) = .ok r) :
    ∀ s t, s < S → t < T →
      lookupKS null ⟨4, S, T, 1, true, true, false⟩ r s t 0 = some ((val s t).getD null) :=
  _root_.convert_lookup_key_4d null S T hS hT val vol r hvol hfin

/-- **C01 (metadata, one key, 3-D result):** a single volume. -/
theorem convert_lookup_key_3d (null : α) (S : Nat) (hS : 0 < S) (val : Nat → Option α)
    (r : KeyState α)
    (h : mergeSliceK null ⟨3, 1, 1, 1, true, false, false⟩
        ((List.range S).map fun s => fileKS (val s)) = .ok r) :
    ∀ s, s < S →
      lookupKS null ⟨3, S, 1, 1, true, false, false⟩ r s 0 0 = some ((val s).getD null) :=
  _root_.convert_lookup_key_3d null S hS val r h

/-- **C06 for conversion (5-D result):** every key of the embedded extension sits at its simplest
    classification. -/
theorem convert_canonical_key (null : α) (S T V : Nat) (hS : 0 < S) (hT : 2 ≤ T) (hV : 2 ≤ V)
    (val : Nat → Nat → Nat → Option α)
    (vol : Nat → Nat → KeyState α) (vec : Nat → KeyState α) (r : KeyState α)
    (hvol : ∀ t v, t < T → v < V →
      mergeSliceK null ⟨3, 1, 1, 1, true, false, false⟩
        ((List.range S).map fun s => fileKS (val s t v)) = .ok (vol t v))
    (hvec : ∀ v, v < V →
      mergeTimeK null ⟨4, S, 1, 1, true, true, false⟩ ⟨3, S, 1, 1, true, false, false⟩
        ((List.range T).map fun t => vol t v) = .ok (vec v))
    (hfin : mergeVecK null ⟨5, S, T, 1, true, true, true⟩ ⟨4, S, T, 1, true, true, false⟩
        ((List.range V).map vec) = .ok r) :
    ∀ c vals, r = some (c, vals) →
      ∀ e, basePresent ⟨5, S, T, V, true, true, true⟩ e = true → rank e < rank c →
        ¬ RepOK ⟨5, S, T, V, true, true, true⟩
            (fun s t v => lookupKS null ⟨5, S, T, V, true, true, true⟩ r s t v) e :=
  _root_.convert_canonical_key null S T V hS hT hV val vol vec r hvol hvec hfin

/-- **C01 without the premise (5-D result):** for every assignment of values (or absence) to the
    files of a complete S × T × V stack (T, V ≥ 2) all three levels of merging succeed and the
    summary returns at every position exactly what that file carried. -/
theorem convert_total (null : α) (S T V : Nat) (hS : 0 < S) (hT : 2 ≤ T) (hV : 2 ≤ V)
    (val : Nat → Nat → Nat → Option α) :
    ∃ (vol : Nat → Nat → KeyState α) (vec : Nat → KeyState α) (r : KeyState α),
      (∀ t v, t < T → v < V →
        mergeSliceK null ⟨3, 1, 1, 1, true, false, false⟩
          ((List.range S).map fun s => fileKS (val s t v)) = .ok (vol t v)) ∧
      (∀ v, v < V →
        mergeTimeK null ⟨4, S, 1, 1, true, true, false⟩ ⟨3, S, 1, 1, true, false, false⟩
          ((List.range T).map fun t => vol t v) = .ok (vec v)) ∧
      mergeVecK null ⟨5, S, T, 1, true, true, true⟩ ⟨4, S, T, 1, true, true, false⟩
          ((List.range V).map vec) = .ok r ∧
      ∀ s t v, s < S → t < T → v < V →
        lookupKS null ⟨5, S, T, V, true, true, true⟩ r s t v = some ((val s t v).getD null) :=
  Total.convert_total null S T V hS hT hV val

/-- **C01 without the premise (4-D result)** -/
theorem convert_total_4d (null : α) (S T : Nat) (hS : 0 < S) (hT : 2 ≤ T)
    (val : Nat → Nat → Option α) :
    ∃ (vol : Nat → KeyState α) (r : KeyState α),
      (∀ t, t < T →
        mergeSliceK null ⟨3, 1, 1, 1, true, false, false⟩
          ((List.range S).map fun s => fileKS (val s t)) = .ok (vol t)) ∧
      mergeTimeK null ⟨4, S, 1, 1, true, true, false⟩ ⟨3, S, 1, 1, true, false, false⟩
          ((List.range T).map vol) = .ok r ∧
      ∀ s t, s < S → t < T →
        lookupKS null ⟨4, S, T, 1, true, true, false⟩ r s t 0 = some ((val s t).getD null) :=
  Total.convert_total_4d null S T hS hT val

/-- **C01 without the premise (3-D result)** -/
theorem convert_total_3d (null : α) (S : Nat) (hS : 0 < S) (val : Nat → Option α) :
    ∃ r : KeyState α,
      mergeSliceK null ⟨3, 1, 1, 1, true, false, false⟩
        ((List.range S).map fun s => fileKS (val s)) = .ok r ∧
      ∀ s, s < S →
        lookupKS null ⟨3, S, 1, 1, true, false, false⟩ r s 0 0 = some ((val s).getD null) :=
  Total.convert_total_3d null S hS val

/-- **C01 without the premise (5-D result with a single time point, shape (x,y,z,1,V)):** the
    volumes are merged directly along the vector axis -/
theorem convert_total_5d_t1 (null : α) (S V : Nat) (hS : 0 < S) (hV : 0 < V)
    (val : Nat → Nat → Option α) :
    ∃ (vol : Nat → KeyState α) (r : KeyState α),
      (∀ v, v < V →
        mergeSliceK null ⟨3, 1, 1, 1, true, false, false⟩
          ((List.range S).map fun s => fileKS (val s v)) = .ok (vol v)) ∧
      mergeVecK null ⟨5, S, 1, 1, true, false, true⟩ ⟨3, S, 1, 1, true, false, false⟩
          ((List.range V).map vol) = .ok r ∧
      ∀ s v, s < S → v < V →
        lookupKS null ⟨5, S, 1, V, true, false, true⟩ r s 0 v = some ((val s v).getD null) :=
  Total.convert_total_5d_t1 null S V hS hV val

/-- **C01, end to end (stack model ∘ per-key merges):** the files of a complete grid, added in any
    order, each carrying a value (or not) for a key; `to_nifti` sorts them, reverses every volume's
    files when the voxel order flips the slice axis, and merges volume by volume, along time, along
    the vector axis.  All of that succeeds and the summary returns at output slice `k`, time `t`,
    vector `v` the value of the file whose pixels are there: canonical slice `k`, or `S − 1 − k`
    when flipped. -/
theorem convert_end_to_end (null : α) (idOf : Int → Int → Int → Nat) (vs ts ps : List Int)
    (hv : vs.Pairwise (· < ·)) (ht : ts.Pairwise (· < ·)) (hp : ps.Pairwise (· < ·))
    (hS : 0 < ps.length) (hT : 2 ≤ ts.length) (hV : 2 ≤ vs.length)
    (files : List Stk.F) (hperm : files.Perm (Stk.grid idOf vs ts ps))
    (metaOf : Nat → Option α) (flip : Bool) :
    let S := ps.length
    let T := ts.length
    let V := vs.length
    let canon := Stk.chkSort S (V * T) files
    let order := if flip then Stk.reverseBlocks S (T * V) canon else canon
    let valAt := fun s t v => (order[(t + T * v) * S + s]?).bind fun f => metaOf f.id
    ∃ (vol : Nat → Nat → KeyState α) (vec : Nat → KeyState α) (r : KeyState α),
      (∀ t v, t < T → v < V →
        mergeSliceK null ⟨3, 1, 1, 1, true, false, false⟩
          ((List.range S).map fun s => fileKS (valAt s t v)) = .ok (vol t v)) ∧
      (∀ v, v < V →
        mergeTimeK null ⟨4, S, 1, 1, true, true, false⟩ ⟨3, S, 1, 1, true, false, false⟩
          ((List.range T).map fun t => vol t v) = .ok (vec v)) ∧
      mergeVecK null ⟨5, S, T, 1, true, true, true⟩ ⟨4, S, T, 1, true, true, false⟩
          ((List.range V).map vec) = .ok r ∧
      ∀ k t v, k < S → t < T → v < V →
        lookupKS null ⟨5, S, T, V, true, true, true⟩ r k t v =
          some ((metaOf (idOf (vs.getD v 0) (ts.getD t 0)
                  (ps.getD (if flip then S - 1 - k else k) 0))).getD null) :=
  Total.convert_end_to_end null idOf vs ts ps hv ht hp hS hT hV files hperm metaOf flip

end C01

/-! ### non-vacuity -/
namespace C01nv
def getOk {ε β : Type} [Inhabited β] : Except ε β → β | .ok b => b | _ => default
def val (s t v : Nat) : Option Nat := if (s + t + v) % 3 = 0 then none else some (s % 2 + 10 * t + 100 * (v % 2))
def vol (t v : Nat) : KeyState Nat := getOk (mergeSliceK 0 ⟨3, 1, 1, 1, true, false, false⟩ ((List.range 3).map fun s => fileKS (val s t v)))
def vec (v : Nat) : KeyState Nat := getOk (mergeTimeK 0 ⟨4, 3, 1, 1, true, true, false⟩ ⟨3, 3, 1, 1, true, false, false⟩ ((List.range 2).map fun t => vol t v))
def r : KeyState Nat := getOk (mergeVecK 0 ⟨5, 3, 2, 1, true, true, true⟩ ⟨4, 3, 2, 1, true, true, false⟩ ((List.range 3).map vec))

/-- non-vacuity of `C01.convert_lookup_key`: a 3×2×3 series in which a third of the files lack the
    key meets every hypothesis (all three levels of merging succeed) -/
example :
    (∀ t v, t < 2 → v < 3 →
      mergeSliceK 0 ⟨3, 1, 1, 1, true, false, false⟩ ((List.range 3).map fun s => fileKS (val s t v)) = .ok (vol t v)) ∧
    (∀ v, v < 3 →
      mergeTimeK 0 ⟨4, 3, 1, 1, true, true, false⟩ ⟨3, 3, 1, 1, true, false, false⟩ ((List.range 2).map fun t => vol t v) = .ok (vec v)) ∧
    mergeVecK 0 ⟨5, 3, 2, 1, true, true, true⟩ ⟨4, 3, 2, 1, true, true, false⟩ ((List.range 3).map vec) = .ok r := by
  refine ⟨?_, ?_, ?_⟩
  · intro t v ht hv
    have h1 : t = 0 ∨ t = 1 := by omega
    have h2 : v = 0 ∨ v = 1 ∨ v = 2 := by omega
    rcases h1 with rfl | rfl <;> rcases h2 with rfl | rfl | rfl <;> rfl
  · intro v hv
    have h2 : v = 0 ∨ v = 1 ∨ v = 2 := by omega
    rcases h2 with rfl | rfl | rfl <;> rfl
  · rfl
end C01nv
