import DcmVerif.Proofs.Key
import DcmVerif.Props.C01_stack
/-! Property theorems for C01. Statements only; proofs are by reference to `Proofs/`. -/
set_option autoImplicit false
open Cls

namespace C01
variable {α : Type} [DecidableEq α]

/-- **C01 (metadata, one key, 5-D result):** if the per-volume, per-vector and final merges of
    `to_nifti` succeed, then looking the key up at slice `s`, time `t`, vector `v` returns exactly
    what file `(s,t,v)` carried — `null` if that file lacked the key. -/
theorem convert_lookup_key (null : α) (S T V : Nat) (hS : 0 < S) (hT : 2 ≤ T) (hV : 0 < V)
    (val : Nat → Nat → Nat → Option α)
    (vol : Nat → Nat → KeyState α) (vec : Nat → KeyState α) (r : KeyState α)
    (hvol : ∀ t v, t < T → v < V →
      mergeSliceK null ⟨3, 1, 1, 1, true, false, false⟩
        ((List.range S).map fun s => fileKS (val s t v)) = .ok (vol t v))
    (hvec : ∀ v, v < V →
      mergeTimeK null ⟨4, S, 1, 1, true, true, false⟩ ⟨3, S, 1, 1, true, false, false⟩
        ((List.range T).map fun t => vol t v) = .ok (vec v))
    (hfin : mergeVecK null ⟨5, S, T, 1, true, true, true⟩ ⟨4, S, T, 1, true, true, false⟩
        ((List.range V).map vec) = .ok r) :
    ∀ s t v, s < S → t < T → v < V →
      lookupKS null ⟨5, S, T, V, true, true, true⟩ r s t v = some ((val s t v).getD null) :=
  _root_.convert_lookup_key null S T V hS hT hV val vol vec r hvol hvec hfin

/-- **C01 (metadata, one key, 4-D result):** volumes merged along time. -/
theorem convert_lookup_key_4d (null : α) (S T : Nat) (hS : 0 < S) (hT : 0 < T)
    (val : Nat → Nat → Option α) (vol : Nat → KeyState α) (r : KeyState α)
    (hvol : ∀ t, t < T →
      mergeSliceK null ⟨3, 1, 1, 1, true, false, false⟩
        ((List.range S).map fun s => fileKS (val s t)) = .ok (vol t))
    (hfin : mergeTimeK null ⟨4, S, 1, 1, true, true, false⟩ ⟨3, S, 1, 1, true, false, false⟩
        ((List.range T).map vol) = .ok r) :
    ∀ s t, s < S → t < T →
      lookupKS null ⟨4, S, T, 1, true, true, false⟩ r s t 0 = some ((val s t).getD null) :=
  _root_.convert_lookup_key_4d null S T hS hT val vol r hvol hfin

/-- **C01 (metadata, one key, 3-D result):** a single volume. -/
theorem convert_lookup_key_3d (null : α) (S : Nat) (hS : 0 < S) (val : Nat → Option α)
    (r : KeyState α)
    (h : mergeSliceK null ⟨3, 1, 1, 1, true, false, false⟩
        ((List.range S).map fun s => fileKS (val s)) = .ok r) :
    ∀ s, s < S →
      lookupKS null ⟨3, S, 1, 1, true, false, false⟩ r s 0 0 = some ((val s).getD null) :=
  _root_.convert_lookup_key_3d null S hS val r h

/-- **C06 for conversion (5-D result):** every key of the embedded extension sits at its simplest
    classification. -/
theorem convert_canonical_key (null : α) (S T V : Nat) (hS : 0 < S) (hT : 2 ≤ T) (hV : 2 ≤ V)
    (val : Nat → Nat → Nat → Option α)
    (vol : Nat → Nat → KeyState α) (vec : Nat → KeyState α) (r : KeyState α)
    (hvol : ∀ t v, t < T → v < V →
      mergeSliceK null ⟨3, 1, 1, 1, true, false, false⟩
        ((List.range S).map fun s => fileKS (val s t v)) = .ok (vol t v))
    (hvec : ∀ v, v < V →
      mergeTimeK null ⟨4, S, 1, 1, true, true, false⟩ ⟨3, S, 1, 1, true, false, false⟩
        ((List.range T).map fun t => vol t v) = .ok (vec v))
    (hfin : mergeVecK null ⟨5, S, T, 1, true, true, true⟩ ⟨4, S, T, 1, true, true, false⟩
        ((List.range V).map vec) = .ok r) :
    ∀ c vals, r = some (c, vals) →
      ∀ e, basePresent ⟨5, S, T, V, true, true, true⟩ e = true → rank e < rank c →
        ¬ RepOK ⟨5, S, T, V, true, true, true⟩
            (fun s t v => lookupKS null ⟨5, S, T, V, true, true, true⟩ r s t v) e :=
  _root_.convert_canonical_key null S T V hS hT hV val vol vec r hvol hvec hfin

end C01
