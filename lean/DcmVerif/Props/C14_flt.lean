import DcmVerif.Proofs.Filter
/-! Property theorems for C14_flt. Statements only; proofs are by reference to `Proofs/`. -/
set_option autoImplicit false

namespace C14
variable {α : Type} [DecidableEq α] {κ : Type} [DecidableEq κ]
open Flt

/-- the extracted default pattern lists contain no regular-expression metacharacter, so
    `re.search` on them is substring search -/
theorem default_lists_literal : (Gen.defaultExcl ++ Gen.defaultIncl).all isLiteral = true :=
  Flt.default_lists_literal 

theorem substring_iff (sub l : List Char) : infixB sub l = true ↔ ∃ pre post, l = pre ++ sub ++ post :=
  Flt.infixB_iff sub l

/-- **exclude unless included, for the default lists:** a key is removed iff it contains one of
    the exclude words and none of the include words -/
theorem default_filter_iff (k : String) :
    defaultFilter k = true ↔
      (∃ e ∈ Gen.defaultExcl, matchLit e k = true) ∧ ¬ ∃ i ∈ Gen.defaultIncl, matchLit i k = true :=
  Flt.defaultFilter_iff k

/-- no key matching an exclude pattern survives unless it also matches an include pattern -/
theorem default_excluded (k : String) (e : String) (he : e ∈ Gen.defaultExcl)
    (hm : matchLit e k = true) (hi : ∀ i ∈ Gen.defaultIncl, matchLit i k = false) :
    defaultFilter k = true :=
  Flt.default_excluded k e he hm hi

/-- image position and orientation are always kept -/
theorem default_keeps_included (k : String) (i : String) (hi : i ∈ Gen.defaultIncl)
    (hm : matchLit i k = true) : defaultFilter k = false :=
  Flt.default_keeps_included k i hi hm

/-- a key matching no exclude pattern is kept -/
theorem default_keeps_unmatched (k : String) (h : ∀ e ∈ Gen.defaultExcl, matchLit e k = false) :
    defaultFilter k = false :=
  Flt.default_keeps_unmatched k h

/-- concrete keys under the extracted default lists -/
theorem default_examples :
    defaultFilter "PatientName" = true ∧ defaultFilter "StudyDate" = true ∧
    defaultFilter "SeriesInstanceUID" = true ∧ defaultFilter "InstitutionName" = true ∧
    defaultFilter "ImagePositionPatient" = false ∧ defaultFilter "ImageOrientationPatient" = false ∧
    defaultFilter "EchoTime" = false ∧ defaultFilter "CsaImage.ImaPATModeText" = false ∧
    defaultFilter "ReferringPhysicianName" = true :=
  Flt.default_examples 

/-- extra exclude / include patterns compose as exclude-unless-included -/
theorem extra_lists_compose (extraExcl extraIncl : List String) (k : String) :
    cliFilter extraExcl extraIncl k = true ↔
      (∃ e ∈ Gen.defaultExcl ++ extraExcl, matchLit e k = true) ∧
        ¬ ∃ i ∈ Gen.defaultIncl ++ extraIncl, matchLit i k = true :=
  Flt.cliFilter_iff extraExcl extraIncl k

end C14
