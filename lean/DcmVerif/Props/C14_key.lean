import DcmVerif.Proofs.Key
/-! Property theorems for C14_key. Statements only; proofs are by reference to `Proofs/`. -/
set_option autoImplicit false

namespace C14
variable {α : Type} [DecidableEq α] {κ : Type} [DecidableEq κ]

theorem regex_filter {ρ : Type} (mtch : ρ → κ → Bool) (excl incl : List ρ) (k : κ) :
    regexFilter mtch excl incl k = true ↔
      (∃ e, e ∈ excl ∧ mtch e k = true) ∧ ¬ (∃ i, i ∈ incl ∧ mtch i k = true) :=
  _root_.regexFilter_iff mtch excl incl k

/-- extra lists compose by append -/
theorem regex_filter_append {ρ : Type} (mtch : ρ → κ → Bool) (e1 e2 i1 i2 : List ρ) (k : κ) :
    regexFilter mtch (e1 ++ e2) (i1 ++ i2) k =
      ((regexFilter mtch e1 [] k || regexFilter mtch e2 [] k) &&
        !(i1.any (mtch · k) || i2.any (mtch · k))) :=
  _root_.regexFilter_append mtch e1 e2 i1 i2 k

/-- **C14:** the filter removes exactly the keys it is told to — whatever their classification —
    and leaves every other key as it was. -/
theorem filter_key (e : Ext κ α) (drop : κ → Bool) (k : κ) :
    (e.filterMeta drop).key k = if drop k then none else e.key k :=
  _root_.Ext.key_filterMeta e drop k

end C14
