import DcmVerif.Props.Source_phoenix
import DcmVerif.Proofs.PhoenixRT
/-! Property theorems for C16. Statements only; proofs are by reference to `Proofs/`. -/
set_option autoImplicit false

namespace C16

open Phx

/-- **blank lines are ignored** (any whitespace, either dialect) -/
theorem parse_blank (delim line : Str) (h : ∀ c ∈ line, isWs c = true) :
    parseLine delim line = .none :=
  Phx.parse_blank delim line h

/-- **comment-only lines are ignored**: optional whitespace, `#`, anything (for a delimiter of
    at least one character) -/
theorem parse_comment_only (delim ws rest : Str) (hd : delim ≠ []) (h : ∀ c ∈ ws, isWs c = true)
    (hq : countSub delim ws ≠ 1) :
    parseLine delim (ws ++ '#' :: rest) = .none :=
  Phx.parse_comment_only delim ws rest hd h hq

/-- **a line without `=` (and without comment) that is not blank raises the parse error** -/
theorem parse_no_equals (delim line : Str) (hh : '#' ∉ line) (he : '=' ∉ line)
    (hne : strip line ≠ []) : parseLine delim line = .parseError :=
  Phx.parse_no_equals delim line hh he hne

/-- F8 (recorded finding): a float lexeme made only of hex digits and `e` is read as hex -/
theorem f8_hex_before_float :
    parseLine ['"', '"'] "a = 1e5".toList = .pair ['a'] (.int 485) :=
  Phx.f8_hex_before_float 

/-- F7 repaired: both dialects return the whole string -/
theorem string_both_dialects :
    parseLine ['"'] "b = \"str\"".toList = .pair ['b'] (.str "str".toList) ∧
    parseLine ['"', '"'] "b = \"\"str\"\"".toList = .pair ['b'] (.str "str".toList) :=
  Phx.string_both_dialects 

/-- `#` and `=` inside the quotes, trailing comment, both dialects (kernel-evaluated instances) -/
theorem string_with_hash_and_comment :
    parseLine ['"', '"'] "k = \"\"x#y=z\"\" # c".toList = .pair ['k'] (.str "x#y=z".toList) ∧
    parseLine ['"'] "k = \"x#y=z\" # c".toList = .pair ['k'] (.str "x#y=z".toList) ∧
    parseLine ['"', '"'] "k = 0x1F # c".toList = .pair ['k'] (.int 31) ∧
    parseLine ['"'] " k\t=  -12 ".toList = .pair ['k'] (.int (-12)) ∧
    parseLine ['"', '"'] "k = -1.5e-3".toList = .pair ['k'] (.floatLex "-1.5e-3".toList) :=
  Phx.string_with_hash_and_comment 

/-- malformed variants raise (kernel-evaluated instances): unterminated quote, trailing junk -/
theorem malformed_instances :
    parseLine ['"', '"'] "a = \"\"abc".toList = .parseError ∧
    parseLine ['"'] "a = \"abc".toList = .parseError ∧
    parseLine ['"', '"'] "a = \"\"abc\"\" junk".toList = .parseError ∧
    parseLine ['"'] "a = 12 junk".toList = .parseError ∧
    parseLine ['"'] "a = ".toList = .parseError :=
  Phx.malformed_instances 

theorem prot_unknown_key (key text : Str) (h1 : key ≠ "MrPhoenixProtocol".toList)
    (h2 : key ≠ "MrProtocol".toList) : parseProt key text = .valueError :=
  Phx.prot_unknown_key key text h1 h2

/-- later duplicates overwrite … -/
theorem setKey_overwrites (d : List (Str × PVal)) (k : Str) (v : PVal) :
    lookup (setKey d k v) k = some v :=
  Phx.setKey_overwrites d k v

/-- … and leave every other key alone -/
theorem setKey_other (d : List (Str × PVal)) (k k2 : Str) (v : PVal) (h : k2 ≠ k) :
    lookup (setKey d k v) k2 = lookup d k2 :=
  Phx.setKey_other d k k2 v h

/-- the protocol loop stops at the first malformed line -/
theorem protLoop_error (delim : Str) (pre : List Str) (bad : Str) (post : List Str)
    (acc : List (Str × PVal)) (hbad : parseLine delim bad = .parseError)
    (hpre : ∀ l ∈ pre, parseLine delim l ≠ .parseError) :
    protLoop delim (pre ++ bad :: post) acc = .parseError :=
  Phx.protLoop_error delim pre bad post acc hbad hpre

/-- `(ws1 + key + ws2).strip() == key` when `key` neither starts nor ends with whitespace -/
theorem strip_sandwich (ws1 key ws2 : Str)
    (h1 : ∀ c ∈ ws1, isWs c = true) (h2 : ∀ c ∈ ws2, isWs c = true)
    (hh : ∀ x xs, key = x :: xs → isWs x = false)
    (hl : ∀ x xs, key.reverse = x :: xs → isWs x = false) :
    strip (ws1 ++ key ++ ws2) = key :=
  Phx.strip_sandwich ws1 key ws2 h1 h2 hh hl

theorem find_first (c : Char) (pre post : Str) (h : c ∉ pre) :
    findSub [c] (pre ++ c :: post) = some pre.length :=
  Phx.findSub_single_append c pre post h

/-! ### unbounded round trip (`Proofs/PhoenixRT.lean`) -/

/-- **numbers, line level, both dialects**: for any whitespace `ws1..ws4`, any key without
    whitespace at its ends and without `=`, `#`, `"`, any value token without whitespace at its ends
    and without `#`, `"`, and an optional trailing comment `# …`, the line
    `ws1 key ws2 = ws3 val ws4 [# comment]` is handed to the numeric conversions as exactly
    `(key, val)` -/
theorem parse_render_number (d : Str) (hd : Dialect d) (ws1 key ws2 ws3 val ws4 cmt : Str)
    (h1 : ∀ c ∈ ws1, isWs c = true) (h2 : ∀ c ∈ ws2, isWs c = true)
    (h3 : ∀ c ∈ ws3, isWs c = true) (h4 : ∀ c ∈ ws4, isWs c = true)
    (hkey : NoWsEnds key) (hk1 : '=' ∉ key) (hk2 : '#' ∉ key) (hk3 : '"' ∉ key)
    (hval : NoWsEnds val) (hv2 : '#' ∉ val) (hv3 : '"' ∉ val)
    (hc : cmt = [] ∨ ∃ x, cmt = '#' :: x) :
    parseLine d (ws1 ++ key ++ ws2 ++ '=' :: (ws3 ++ val ++ ws4 ++ cmt)) = parseNumber key val :=
  Phx.parse_render_number d hd ws1 key ws2 ws3 val ws4 cmt h1 h2 h3 h4 hkey hk1 hk2 hk3 hval hv2 hv3 hc

/-- **quoted strings, line level, both dialects**: the content (any characters but `"`, so `#` and
    `=` included) comes back exactly, with or without a trailing comment -/
theorem parse_render_string (d : Str) (hd : Dialect d) (ws1 key ws2 ws3 content ws4 cmt : Str)
    (h1 : ∀ c ∈ ws1, isWs c = true) (h2 : ∀ c ∈ ws2, isWs c = true)
    (h3 : ∀ c ∈ ws3, isWs c = true) (h4 : ∀ c ∈ ws4, isWs c = true)
    (hkey : NoWsEnds key) (hk1 : '=' ∉ key) (hk2 : '#' ∉ key) (hk3 : '"' ∉ key)
    (hq : '"' ∉ content)
    (hc : cmt = [] ∨ ∃ x, cmt = '#' :: x) :
    parseLine d (ws1 ++ key ++ ws2 ++ '=' :: (ws3 ++ d ++ content ++ d ++ ws4 ++ cmt)) =
      .pair key (.str content) :=
  Phx.parse_render_string d hd ws1 key ws2 ws3 content ws4 cmt h1 h2 h3 h4 hkey hk1 hk2 hk3 hq hc

/-- **decimal integers** of any length (leading zeros allowed), optional `-` -/
theorem parseNumber_dec (key : Str) (neg : Bool) (cs : Str) (hne : cs ≠ [])
    (h : ∀ c ∈ cs, isDigit c = true) :
    parseNumber key (signStr neg ++ cs) = .pair key (.int (applySign neg (valOf 10 decDigit cs))) :=
  Phx.parseNumber_dec key neg cs hne h

/-- **`0x` / `0X` hexadecimal integers** of any length, digits of either case, optional `-` -/
theorem parseNumber_hex (key : Str) (neg : Bool) (x : Char) (cs : Str) (hx : x = 'x' ∨ x = 'X')
    (hne : cs ≠ []) (h : ∀ c ∈ cs, (hexVal c).isSome = true) :
    parseNumber key (signStr neg ++ '0' :: x :: cs) =
      .pair key (.int (applySign neg (valOf 16 hexVal cs))) :=
  Phx.parseNumber_hex key neg x cs hx hne h

/-- **floats**: a token containing a character no integer syntax admits (`.`, an exponent sign, …)
    comes back as that float lexeme iff CPython's `float()` accepts it, else the parse error —
    never a wrong integer (contrast F8: `1e5`, all hex digits) -/
theorem parseNumber_float (key v : Str) (c : Char) (hc : c ∈ (splitSign v).2)
    (hx : hexVal c = none) (h1 : c ≠ '_') (h2 : c ≠ 'x') (h3 : c ≠ 'X') :
    parseNumber key v = if pyFloatOk v then .pair key (.floatLex v) else .parseError :=
  Phx.parseNumber_float key v c hc hx h1 h2 h3

theorem parseNumber_point (key v : Str) (hp : '.' ∈ v) :
    parseNumber key v = if pyFloatOk v then .pair key (.floatLex v) else .parseError :=
  Phx.parseNumber_point key v hp

/-- **every well-formed line contributes its assignment, in order** -/
theorem protLoop_ok (d : Str) (ls : List Str) (acc : List (Str × PVal))
    (h : ∀ l ∈ ls, parseLine d l ≠ .parseError) :
    protLoop d ls acc = .ok (ls.foldl (applyLine d) acc) :=
  Phx.protLoop_ok d ls acc h

/-- **the whole protocol text**: `head ### ASCCONV BEGIN <rest>\n line\n … ### ASCCONV END ### trailer`
    parses to the dictionary of the lines between the markers, nothing before BEGIN or after END
    is looked at -/
theorem parseProt_render (key : Str) (d : Str)
    (hkey : (key = "MrPhoenixProtocol".toList ∧ d = ['"', '"']) ∨
            (key = "MrProtocol".toList ∧ d = ['"']))
    (head br trailer : Str) (lines : List Str)
    (hh : '#' ∉ head) (hbr : '\n' ∉ br) (hl : ∀ l ∈ lines, '\n' ∉ l)
    (hend : findSub END (BEGIN ++ br ++ '\n' :: joinNl lines) = none)
    (hok : ∀ l ∈ lines, parseLine d l ≠ .parseError) :
    parseProt key (head ++ (BEGIN ++ br ++ '\n' :: joinNl lines) ++ END ++ trailer) =
      .ok (lines.foldl (applyLine d) []) :=
  Phx.parseProt_render key d hkey head br trailer lines hh hbr hl hend hok

end C16
