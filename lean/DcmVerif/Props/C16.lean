import DcmVerif.Proofs.Phoenix
/-! Property theorems for C16. Statements only; proofs are by reference to `Proofs/`. -/
set_option autoImplicit false

namespace C16

open Phx

/-- **blank lines are ignored** (any whitespace, either dialect) -/
theorem parse_blank (delim line : Str) (h : ∀ c ∈ line, isWs c = true) :
    parseLine delim line = .none :=
  Phx.parse_blank delim line h

/-- **comment-only lines are ignored**: optional whitespace, `#`, anything (for a delimiter of
    at least one character) -/
theorem parse_comment_only (delim ws rest : Str) (hd : delim ≠ []) (h : ∀ c ∈ ws, isWs c = true)
    (hq : countSub delim ws ≠ 1) :
    parseLine delim (ws ++ '#' :: rest) = .none :=
  Phx.parse_comment_only delim ws rest hd h hq

/-- **a line without `=` (and without comment) that is not blank raises the parse error** -/
theorem parse_no_equals (delim line : Str) (hh : '#' ∉ line) (he : '=' ∉ line)
    (hne : strip line ≠ []) : parseLine delim line = .parseError :=
  Phx.parse_no_equals delim line hh he hne

/-- F8 (recorded finding): a float lexeme made only of hex digits and `e` is read as hex -/
theorem f8_hex_before_float :
    parseLine ['"', '"'] "a = 1e5".toList = .pair ['a'] (.int 485) :=
  Phx.f8_hex_before_float 

/-- F7 repaired: both dialects return the whole string -/
theorem string_both_dialects :
    parseLine ['"'] "b = \"str\"".toList = .pair ['b'] (.str "str".toList) ∧
    parseLine ['"', '"'] "b = \"\"str\"\"".toList = .pair ['b'] (.str "str".toList) :=
  Phx.string_both_dialects 

/-- `#` and `=` inside the quotes, trailing comment, both dialects (kernel-evaluated instances) -/
theorem string_with_hash_and_comment :
    parseLine ['"', '"'] "k = \"\"x#y=z\"\" # c".toList = .pair ['k'] (.str "x#y=z".toList) ∧
    parseLine ['"'] "k = \"x#y=z\" # c".toList = .pair ['k'] (.str "x#y=z".toList) ∧
    parseLine ['"', '"'] "k = 0x1F # c".toList = .pair ['k'] (.int 31) ∧
    parseLine ['"'] " k\t=  -12 ".toList = .pair ['k'] (.int (-12)) ∧
    parseLine ['"', '"'] "k = -1.5e-3".toList = .pair ['k'] (.floatLex "-1.5e-3".toList) :=
  Phx.string_with_hash_and_comment 

/-- malformed variants raise (kernel-evaluated instances): unterminated quote, trailing junk -/
theorem malformed_instances :
    parseLine ['"', '"'] "a = \"\"abc".toList = .parseError ∧
    parseLine ['"'] "a = \"abc".toList = .parseError ∧
    parseLine ['"', '"'] "a = \"\"abc\"\" junk".toList = .parseError ∧
    parseLine ['"'] "a = 12 junk".toList = .parseError ∧
    parseLine ['"'] "a = ".toList = .parseError :=
  Phx.malformed_instances 

theorem prot_unknown_key (key text : Str) (h1 : key ≠ "MrPhoenixProtocol".toList)
    (h2 : key ≠ "MrProtocol".toList) : parseProt key text = .valueError :=
  Phx.prot_unknown_key key text h1 h2

/-- later duplicates overwrite … -/
theorem setKey_overwrites (d : List (Str × PVal)) (k : Str) (v : PVal) :
    lookup (setKey d k v) k = some v :=
  Phx.setKey_overwrites d k v

/-- … and leave every other key alone -/
theorem setKey_other (d : List (Str × PVal)) (k k2 : Str) (v : PVal) (h : k2 ≠ k) :
    lookup (setKey d k v) k2 = lookup d k2 :=
  Phx.setKey_other d k k2 v h

/-- the protocol loop stops at the first malformed line -/
theorem protLoop_error (delim : Str) (pre : List Str) (bad : Str) (post : List Str)
    (acc : List (Str × PVal)) (hbad : parseLine delim bad = .parseError)
    (hpre : ∀ l ∈ pre, parseLine delim l ≠ .parseError) :
    protLoop delim (pre ++ bad :: post) acc = .parseError :=
  Phx.protLoop_error delim pre bad post acc hbad hpre

/-- `(ws1 + key + ws2).strip() == key` when `key` neither starts nor ends with whitespace -/
theorem strip_sandwich (ws1 key ws2 : Str)
    (h1 : ∀ c ∈ ws1, isWs c = true) (h2 : ∀ c ∈ ws2, isWs c = true)
    (hh : ∀ x xs, key = x :: xs → isWs x = false)
    (hl : ∀ x xs, key.reverse = x :: xs → isWs x = false) :
    strip (ws1 ++ key ++ ws2) = key :=
  Phx.strip_sandwich ws1 key ws2 h1 h2 hh hl

theorem find_first (c : Char) (pre post : Str) (h : c ∉ pre) :
    findSub [c] (pre ++ c :: post) = some pre.length :=
  Phx.findSub_single_append c pre post h

end C16
