import DcmVerif.Proofs.Orient
/-! Property theorems for C20_orient. Statements only; proofs are by reference to `Proofs/`. -/
set_option autoImplicit false

namespace C20
variable {α : Type}
open Orient

/-- **C20 / C02: the permutation returned by the reordering tells where every source axis went:**
    output axis `t[i].1` carries the affine column of input axis `i` (negated when flipped), so
    `permutation[2]` is the axis along which the source slices are stacked and `permutation[0/1]`
    keep pointing along the source row / column directions -/
theorem dim_info_axes (t : List (Nat × Bool)) (ht : t ∈ allT) (c0 c1 c2 : Col) (i : Nat) (hi : i < 3) :
    (mulCols [c0, c1, c2] t)[(t.getD i (0, true)).1]? =
      ([c0, c1, c2][i]?).map fun c => { c with pos := if (t.getD i (0, true)).2 then c.pos else !c.pos } :=
  Orient.mulCols_axis t ht c0 c1 c2 i hi

end C20
