import DcmVerif.Proofs.Code_filterchain
/-! Property theorems for C14 (the chain from the source text). Statements only; proofs are by reference to `Proofs/`. -/
set_option autoImplicit false
open Cls

namespace C14
variable {α κ ρ : Type} [DecidableEq κ]
open Src

/-- **C14 end to end, from the source text:** `filter_meta(make_key_regex_filter(exclude_res, force_include_res))` as written
    removes, in every valid classification, exactly the entries whose key matches an exclude pattern and no include pattern,
    and leaves every other entry and every other dictionary as it was -/
theorem filter_meta_regex_chain (mtch : ρ → κ → Bool) (excl incl : List ρ) (shape : List Nat) (valid : List Cls)
    (hv : Py.get_valid_classes shape = .ok valid) (content : Content κ α) (h : ContentOk valid content) :
    Py.filter_meta shape content
        (fun k _ => match Py.key_regex_filter mtch excl incl k with | .ok b => b | .error _ => false) =
      .ok (content.map fun p => if p.1 ∈ valid then (p.1, p.2.filter fun q => !regexFilter mtch excl incl q.1) else p) :=
  Src.filter_meta_regex_chain mtch excl incl shape valid hv content h

end C14
