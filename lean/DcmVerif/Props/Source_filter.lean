import DcmVerif.Proofs.Code_filter
/-! The tie by proof (dcmstack.py: make_key_regex_filter and its inner function): functions translated from the Python source on every run
(`tools/gen_code.py` → `Generated/Code_filter.lean`) are the model functions the property theorems speak about.
Statements only; proofs are by reference to `Proofs/Code_filter.lean`. One file per function group, so that an edit
of one function only unsettles the properties that depend on it. -/
set_option autoImplicit false
set_option linter.unusedVariables false
open Cls

namespace Source
variable {α κ : Type}
open Src
variable {ρ : Type}

/-- **the filter `make_key_regex_filter` builds, as written in dcmstack.py, is the model's `regexFilter`** for every pair of
    pattern lists, the empty ones included (an empty exclude list removes nothing — the repair of F36 —, an empty or absent include
    list rescues nothing): a key is dropped iff some exclude pattern matches it and no force-include pattern does -/
theorem key_regex_filter_is_model (mtch : ρ → κ → Bool) (excl incl : List ρ) (key : κ) :
    Py.key_regex_filter mtch excl incl key = .ok (regexFilter mtch excl incl key) :=
  Src.key_regex_filter_eq mtch excl incl key

/-- the translator translated every function of this group (dcmstack.py: make_key_regex_filter and its inner function) -/
theorem translator_complete_filter : Gen.codeMissing_filter = [] := rfl

end Source
