import DcmVerif.Proofs.StackAdd
/-! Property theorems for C11 (refusals at `add_dcm` time). Statements only; proofs are by reference
to `Proofs/StackAdd.lean`. -/
set_option autoImplicit false

namespace C11
open Stk

/-- **which datasets `add_dcm` accepts**: it has pixels, it is congruent (matrix size equal, pixel
    spacing and orientation close) with the reference input — the first accepted dataset — if there
    is one, and with explicit ordering its (vector, time, slice position) cell is free -/
theorem add_ok_iff (explicit : Bool) (st : AddSt) (c : Cand) :
    (addDcm explicit st c).2 = .ok ↔
      c.isImage = true ∧ (∀ r, st.ref = some r → congruent r c = true) ∧
      (explicit = true → tupleOf c.f ∉ st.tuples) :=
  Stk.addDcm_ok_iff explicit st c

/-- a dataset without pixels is refused -/
theorem add_refuses_nonimage (explicit : Bool) (st : AddSt) (c : Cand) (h : c.isImage = false) :
    (addDcm explicit st c).2 = .nonImage :=
  Stk.addDcm_nonImage explicit st c h

/-- a file of different matrix size, pixel spacing or orientation is refused -/
theorem add_refuses_incongruent (explicit : Bool) (st : AddSt) (c r : Cand) (h : c.isImage = true)
    (hr : st.ref = some r) (hc : congruent r c = false) :
    (addDcm explicit st c).2 = .incongruent :=
  Stk.addDcm_incongruent explicit st c r h hr hc

/-- with explicit ordering a second file for an occupied cell is refused -/
theorem add_refuses_collision (st : AddSt) (c : Cand) (h : c.isImage = true)
    (hr : ∀ r, st.ref = some r → congruent r c = true) (hm : tupleOf c.f ∈ st.tuples) :
    (addDcm true st c).2 = .collision :=
  Stk.addDcm_collision st c h hr hm

/-- **a refused dataset leaves the stack as it was**: files, ordinate sets, repetition-time and
    phase-encoding sets, reference input, dirty flag -/
theorem add_refused_unchanged (explicit : Bool) (st : AddSt) (c : Cand)
    (h : (addDcm explicit st c).2 ≠ .ok) : (addDcm explicit st c).1 = st :=
  Stk.addDcm_refused_unchanged explicit st c h

/-- after any sequence of calls the stack holds exactly the accepted datasets, in the order they
    were added … -/
theorem add_files_are_accepted (explicit : Bool) (cs : List Cand) (st : AddSt) :
    (addAll explicit st cs).1.files = st.files ++ (acceptedOf explicit st cs).map (·.f) :=
  Stk.addAll_files explicit cs st

/-- … each of which has pixels and is congruent with the reference input it met -/
theorem add_accepted_congruent (explicit : Bool) (cs : List Cand) (st : AddSt) (c : Cand)
    (h : c ∈ acceptedOf explicit st cs) :
    c.isImage = true ∧ ∀ r, st.ref = some r → congruent r c = true :=
  Stk.accepted_congruent explicit cs st c h

/-- … and, with explicit ordering, occupy pairwise different cells (the invariant `AddInv` holds
    in every reachable state) -/
theorem add_cells_distinct (cs : List Cand) : DistinctKeys (addAll true AddSt.init cs).1.files :=
  Stk.addAll_distinctKeys cs

/-- non-vacuity / instances: a 2 × 2 stack built with one intruder of each kind -/
example :
    let g : List Int := [1000000, 1000000, 1000000, 0, 0, 0, 1000000, 0]
    let c (img : Bool) (rows : Nat) (geom : List Int) (t p : Int) (id : Nat) : Cand :=
      { isImage := img, rows := rows, cols := 4, geom := geom, f := ⟨0, t, p, id⟩, tr := some 2000, pe := some 0 }
    (addAll true AddSt.init
      [c true 4 g 0 0 0, c false 4 g 0 1 1, c true 5 g 0 1 2, c true 4 (g.map (· + 100)) 0 1 3,
       c true 4 (g.map (· + 10)) 0 1 4, c true 4 g 0 1 5, c true 4 g 1 0 6, c true 4 g 1 1 7]).2 =
      [.ok, .nonImage, .incongruent, .incongruent, .ok, .collision, .ok, .ok] := by decide

end C11
