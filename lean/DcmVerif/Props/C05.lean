import DcmVerif.Props.Source_dicts
import DcmVerif.Props.Source_subset
import DcmVerif.Props.Source_insert
import DcmVerif.Props.Source_content
import DcmVerif.Props.Source_insertall
import DcmVerif.Props.Source_values
import DcmVerif.Props.Source_classes
import DcmVerif.Props.Source_simplify
import DcmVerif.Props.Source_shapes
import DcmVerif.Props.Source_wrapsplit
import DcmVerif.Props.Source_wrapmerge
import DcmVerif.Props.C05_wrap
import DcmVerif.Proofs.Total
/-! Property theorems for C05. Statements only; proofs are by reference to `Proofs/`. -/
set_option autoImplicit false
open Cls

namespace C05
variable {α : Type} [DecidableEq α]

/-- **C05 (slice axis, per key):** splitting a canonical key along the slice axis and merging the
    pieces back in order reproduces it exactly — same class, same values. -/
theorem split_merge_slice_id (null : α) (sh : Shp) (hc : Consistent sh) (hS2 : 2 ≤ sh.S)
    (ks : KeyState α) (hv : ValidK sh ks) (hcan : Canonical null sh ks)
    (pieces : Nat → KeyState α)
    (hp : ∀ i, i < sh.S → subsetSliceK null sh ks i = .ok (pieces i))
    (r : KeyState α)
    (hm : mergeSliceK null sh ((List.range sh.S).map pieces) = .ok r) : r = ks :=
  _root_.split_merge_slice_id null sh hc hS2 ks hv hcan pieces hp r hm

/-- **C05 (time axis of a 4-D extension, per key):** splitting a canonical key along time and
    merging the 3-D pieces back in order reproduces it exactly. -/
theorem split_merge_time_id (null : α) (sh : Shp) (hc : Consistent sh) (h4 : sh.nd = 4)
    (ks : KeyState α) (hv : ValidK sh ks) (hcan : Canonical null sh ks)
    (pieces : Nat → KeyState α)
    (hp : ∀ i, i < sh.T → subsetTimeK null sh ks i = .ok (pieces i))
    (r : KeyState α)
    (hm : mergeTimeK null sh (timeSubsetShp sh) ((List.range sh.T).map pieces) = .ok r) :
    r = ks :=
  _root_.split_merge_time_id null sh hc h4 ks hv hcan pieces hp r hm

/-- **C05 (vector axis of a 5-D extension, per key):** splitting a canonical key along the vector
    axis and merging the pieces back in order reproduces it exactly. -/
theorem split_merge_vector_id (null : α) (sh : Shp) (hc : Consistent sh) (h5 : sh.nd = 5)
    (hV2 : 2 ≤ sh.V)
    (ks : KeyState α) (hv : ValidK sh ks) (hcan : Canonical null sh ks)
    (pieces : Nat → KeyState α)
    (hp : ∀ i, i < sh.V → subsetVecK null sh ks i = .ok (pieces i))
    (r : KeyState α)
    (hm : mergeVecK null sh (vecSubsetShp sh) ((List.range sh.V).map pieces) = .ok r) :
    r = ks :=
  _root_.split_merge_vec_id null sh hc h5 hV2 ks hv hcan pieces hp r hm

/-- Two valid key states in the same class that read the same everywhere hold the same list. -/
theorem canon_class_unique (sh : Shp) (wf : WF sh) (hsl : sh.hasSlice = true) (c : Cls)
    (v1 v2 : List α) (h1 : v1.length = mult sh c) (h2 : v2.length = mult sh c)
    (heq : ∀ s t v, s < sh.S → t < sh.T → v < sh.V →
      lookupK sh c v1 s t v = lookupK sh c v2 s t v) : v1 = v2 :=
  _root_.same_class_unique sh wf hsl c v1 v2 h1 h2 heq

/-! ### without premises (`Proofs/Total.lean`): every split and the merge succeed, and the result is
the original key -/

theorem split_merge_slice_total (null : α) (sh : Shp) (hc : Consistent sh) (hS2 : 2 ≤ sh.S)
    (ks : KeyState α) (hv : ValidK sh ks) (hcan : Canonical null sh ks) :
    ∃ (pieces : Nat → KeyState α) (r : KeyState α),
      (∀ i, i < sh.S → subsetSliceK null sh ks i = .ok (pieces i)) ∧
      mergeSliceK null sh ((List.range sh.S).map pieces) = .ok r ∧ r = ks :=
  Total.split_merge_slice_total null sh hc hS2 ks hv hcan

theorem split_merge_time_total (null : α) (sh : Shp) (hc : Consistent sh) (h4 : sh.nd = 4)
    (ks : KeyState α) (hv : ValidK sh ks) (hcan : Canonical null sh ks) :
    ∃ (pieces : Nat → KeyState α) (r : KeyState α),
      (∀ i, i < sh.T → subsetTimeK null sh ks i = .ok (pieces i)) ∧
      mergeTimeK null sh (timeSubsetShp sh) ((List.range sh.T).map pieces) = .ok r ∧ r = ks :=
  Total.split_merge_time_total null sh hc h4 ks hv hcan

theorem split_merge_vector_total (null : α) (sh : Shp) (hc : Consistent sh) (h5 : sh.nd = 5)
    (hV2 : 2 ≤ sh.V)
    (ks : KeyState α) (hv : ValidK sh ks) (hcan : Canonical null sh ks) :
    ∃ (pieces : Nat → KeyState α) (r : KeyState α),
      (∀ i, i < sh.V → subsetVecK null sh ks i = .ok (pieces i)) ∧
      mergeVecK null sh (vecSubsetShp sh) ((List.range sh.V).map pieces) = .ok r ∧ r = ks :=
  Total.split_merge_vec_total null sh hc h5 hV2 ks hv hcan

end C05
