import DcmVerif.Props.Source_extract
import DcmVerif.Proofs.Extract
/-! Property theorems for C15. Statements only; proofs are by reference to `Proofs/`. -/
set_option autoImplicit false

namespace C15

open Ex

/-- one step appends at most one entry, and only for a non-blank, non-ignored element that has a
    value, under its key and tag -/
theorem step_appends_at_most_one (rules : List String) (ts : List Translator) (st st' : State) (e : Elem)
    (h : stepElem rules ts st e = some st') :
    st'.standard = st.standard ∨
      (st'.standard = st.standard ++ [(elemKey e, e.group, e.elem)] ∧
        e.blankStr = false ∧ ignored rules e = false ∧
        (if e.isSeq then e.seqEmpty = false else e.valueNone = false)) :=
  Ex.stepElem_standard rules ts st st' e h

/-- entries of the result, as (key, group, elem), all come from elements of the dataset that are
    neither blank nor ignored nor valueless, each element at most once, in dataset order -/
theorem entries_are_contributing_elements (rules : List String) (ts : List Translator) (ds : List Elem) :
    ∀ (st st' : State), runElems rules ts st ds = some st' →
      ∃ picked : List Elem, picked.Sublist ds ∧
        st'.standard = st.standard ++ picked.map (fun e => (elemKey e, e.group, e.elem)) ∧
        ∀ e ∈ picked, e.blankStr = false ∧ ignored rules e = false ∧
          (if e.isSeq then e.seqEmpty = false else e.valueNone = false) :=
  Ex.run_standard rules ts ds

/-- **never pixel, overlay or colour-table data; private elements only through a translator**
    (default ignore rules, any translators, any dataset): no standard entry has an odd group, the
    pixel-data tags (PixelData, FloatPixelData, DoubleFloatPixelData), an overlay-data tag or a colour LUT tag -/
theorem never_pixel_never_private (ts : List Translator) (ds : List Elem) (st : State)
    (h : runElems Gen.defaultIgnoreRules ts ⟨[], [], []⟩ ds = some st) :
    ∀ x ∈ st.standard,
      x.2.1 % 2 = 0 ∧ ¬ (x.2.1 = 0x7fe0 ∧ x.2.2 ∈ [0x10, 0x8, 0x9]) ∧
      ¬ (x.2.1 / 256 = 0x60 ∧ x.2.2 = 0x3000) ∧
      ¬ (x.2.1 = 0x28 ∧ x.2.2 ∈ [0x1201, 0x1202, 0x1203, 0x1221, 0x1222, 0x1223]) :=
  Ex.never_pixel_never_private ts ds st h

/-- each dataset element yields at most one standard entry (entries are a sub-sequence of the
    dataset, so distinct tags stay distinct and dataset order is kept) -/
theorem extract_once (rules : List String) (ts : List Translator) (ds : List Elem) (st : State)
    (h : runElems rules ts ⟨[], [], []⟩ ds = some st) :
    (st.standard.map fun x => (x.2.1, x.2.2)).Sublist (ds.map tagOf) :=
  Ex.extract_once rules ts ds st h

/-- key naming on concrete elements (kernel-evaluated): keyword, camel-cased private name with
    brackets stripped, tag suffix format -/
theorem key_examples :
    elemKey ⟨0x18, 0x81, "EchoTime", "Echo Time", false, false, false, false, none, none, false⟩ = "EchoTime" ∧
    elemKey ⟨0x19, 0x100a, "", "[Number Of Images In Mosaic]", false, false, false, false, none, none, false⟩ =
      "NumberOfImagesInMosaic" ∧
    elemKey ⟨0x19, 0x100b, "", "slice measurement  duration", false, false, false, false, none, none, false⟩ =
      "SliceMeasurementDuration" ∧
    elemKey ⟨0x19, 0x100c, "", "Private tag data", false, false, false, false, none, none, false⟩ = "PrivateTagData" ∧
    tagToStr 0x10 0x20 = "0X10_0X20" ∧ tagToStr 0x7fe0 0x10 = "0X7FE0_0X10" :=
  Ex.key_examples 

end C15
