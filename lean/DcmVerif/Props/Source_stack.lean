import DcmVerif.Proofs.Code_stack
/-! The tie by proof (dcmstack.py: DicomStack.get_shape / _chk_order): functions translated from the Python source on every run
(`tools/gen_code.py` → `Generated/Code_stack.lean`) are the model functions the property theorems speak about.
Statements only; proofs are by reference to `Proofs/Code_stack.lean`. One file per function group, so that an edit
of one function only unsettles the properties that depend on it. -/
set_option autoImplicit false
set_option linter.unusedVariables false
open Cls

namespace Source
variable {α κ : Type}
open Src Stk

/-- **the count checks of `get_shape` as written in dcmstack.py are the count conjuncts of the model's
    acceptance test**, and the dimensions they derive are the model's `dimS`, `dimT`, `dimV` -/
theorem get_shape_counts_is_model (n s v : Nat) (sp : Bool) :
    Py.get_shape_counts n s v sp =
      if countsOk n s v sp then .ok (s, n / s / v, v) else .error PyErr.invalidStack :=
  Src.get_shape_counts_eq n s v sp

/-- the model's acceptance test is those count conjuncts and the two order checks of `_chk_order` -/
theorem accept_is_counts_and_order (spacingOk : List Int → Bool) (files : List F) :
    acceptB spacingOk files =
      (countsOk files.length (dimS files) (dimV files) (spacingOk (distinctSorted (files.map (·.p)))) &&
       (chunks (dimT files * dimS files) (dimV files)
          (chkSort (dimS files) (files.length / dimS files) files)).all allSameV &&
       (chunks (dimS files) (files.length / dimS files)
          (chkSort (dimS files) (files.length / dimS files) files)).all
        (fun b => b.map (·.p) == distinctSorted (files.map (·.p)))) :=
  Src.acceptB_counts spacingOk files

/-- **the thorough check of `_chk_order` as written in dcmstack.py passes iff every cell of the grid
    holds the right file**: at (vector `v`, time `t`, slice `s`) of the sorted list the vector ordinate is
    that of the block's first file and the slice position is the `s`-th distinct position; otherwise
    it raises InvalidStackError — for every S, T, V -/
theorem chk_order_check_is_cellwise (files : List (Int × Int × Int)) (pos : List Int) (S T V : Nat) :
    Py.chk_order_check files pos S T V =
      if (List.range V).all (fun v => (List.range T).all fun t => (List.range S).all fun s =>
          cellOk files pos S T v t s)
      then .ok () else .error PyErr.invalidStack :=
  Src.chk_order_check_eq files pos S T V

/-- **the cell-wise condition of the translated `_chk_order` loop is the two order conjuncts of the
    model's acceptance test** (block-wise: every vector block constant, every volume lists the sorted
    distinct positions), for a sorted list of S·T·V files -/
theorem cells_are_model_blocks (sorted : List F) (pos : List Int) (S T V : Nat)
    (hlen : sorted.length = S * T * V) (hpos : pos.length = S) :
    ((List.range V).all fun v => (List.range T).all fun t => (List.range S).all fun s =>
        cellOk (sorted.map key) pos S T v t s) =
      ((chunks (T * S) V sorted).all allSameV &&
       (chunks S (T * V) sorted).all (fun b => b.map (·.p) == pos)) :=
  Src.cells_eq_chunks sorted pos S T V hlen hpos

/-- **the model's acceptance test is what the translated Python does**: `get_shape`'s count checks
    followed by `_chk_order`'s thorough check on the list the two sorts produce succeed exactly when
    the model's `acceptB` holds, with the model's dimensions — for every list of files -/
theorem get_shape_accepts_iff_model (spacingOk : List Int → Bool) (files : List F) :
    acceptB spacingOk files = true ↔
      Py.get_shape_counts files.length (dimS files) (dimV files)
          (spacingOk (distinctSorted (files.map (·.p)))) = .ok (dimS files, dimT files, dimV files) ∧
      Py.chk_order_check ((chkSort (dimS files) (files.length / dimS files) files).map key)
          (distinctSorted (files.map (·.p))) (dimS files) (dimT files) (dimV files) = .ok () :=
  Src.source_accepts_iff spacingOk files

/-- the translator translated every function of this group (dcmstack.py: DicomStack.get_shape / _chk_order) -/
theorem translator_complete_stack : Gen.codeMissing_stack = [] := rfl

end Source
