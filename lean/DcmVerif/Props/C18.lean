import DcmVerif.Props.Source_group
import DcmVerif.Proofs.GroupOrder
/-! Property theorems for C18. Statements only; proofs are by reference to `Proofs/`. -/
set_option autoImplicit false

namespace C18
variable {E C : Type} [DecidableEq E]
open Grp

/-- **partition:** every readable image file is in exactly one group (the ids in the groups are a
    permutation of the ids of the readable image files), nothing else is -/
theorem group_partition (closeB : C → C → Bool) (warn : Bool) (items : List (Item E C))
    (g : List (E × Subs C)) (h : parseAndGroup closeB warn items = .ok g) :
    (allIds g).Perm (fileIds items) :=
  Grp.group_partition closeB warn items g h

theorem group_skip_fault (closeB : C → C → Bool) (warn : Bool) (l₁ l₂ : List (Item E C))
    (bad : Item E C) (hbad : bad = .nonImage ∨ (bad = .unreadable ∧ warn = true)) :
    parseAndGroup closeB warn (l₁ ++ bad :: l₂) = parseAndGroup closeB warn (l₁ ++ l₂) :=
  Grp.group_skip_fault closeB warn l₁ l₂ bad hbad

/-- strict mode: an unreadable file raises -/
theorem group_strict_raises (closeB : C → C → Bool) (l₁ l₂ : List (Item E C))
    (h : ∀ it ∈ l₁, it ≠ Item.unreadable) (acc : List (E × Subs C)) :
    groupLoop closeB false (l₁ ++ .unreadable :: l₂) acc = .raised :=
  Grp.group_strict_raises closeB l₁ l₂ h acc

/-- a file joins the first sub-result whose representative it is close to; otherwise it opens a new
    one with itself as representative -/
theorem first_fit_joins (closeB : C → C → Bool) (id : Nat) (c : C) (pre : Subs C) (rep : C)
    (ids : List Nat) (post : Subs C) (hpre : ∀ s ∈ pre, closeB s.1 c = false) (h : closeB rep c = true) :
    placeSub closeB id c (pre ++ (rep, ids) :: post) = pre ++ (rep, ids ++ [id]) :: post :=
  Grp.placeSub_first_fit closeB id c pre rep ids post hpre h

theorem first_fit_new (closeB : C → C → Bool) (id : Nat) (c : C) (subs : Subs C)
    (h : ∀ s ∈ subs, closeB s.1 c = false) : placeSub closeB id c subs = subs ++ [(c, [id])] :=
  Grp.placeSub_new closeB id c subs h

/-- **stacking isolates faults:** in warn mode a file that cannot join (incongruent, colliding, no
    pixels) is equivalent to its absence, provided the remaining files' ability to join does not
    depend on it; in strict mode it aborts -/
theorem stack_group_skip (joins : List Nat → Nat → Bool) (pre : List Nat) (bad : Nat) (post : List Nat)
    (hb : ∀ a, joins a bad = false) (acc : List Nat) :
    stackGroup joins true (pre ++ bad :: post) acc = stackGroup joins true (pre ++ post) acc :=
  Grp.stackGroup_skip joins pre bad post hb acc

theorem stack_group_strict (joins : List Nat → Nat → Bool) (bad : Nat) (post acc : List Nat)
    (hb : joins acc bad = false) : stackGroup joins false (bad :: post) acc = none :=
  Grp.stackGroup_strict joins bad post acc hb

/-! ### independence of the path order (`Proofs/GroupOrder.lean`) -/

/-- the loop over readable image files is the fold of `place` -/
theorem loop_on_files (closeB : C → C → Bool) (warn : Bool) (eOf : Nat → E) (cOf : Nat → C)
    (ids : List Nat) (acc : List (E × Subs C)) :
    groupLoop closeB warn (ids.map fun id => Item.file id (eOf id) (cOf id)) acc =
      .ok (groupIds closeB eOf cOf ids acc) :=
  Grp.groupLoop_files closeB warn eOf cOf ids acc

/-- **who shares a group is decided by the keys alone**: when closeness of the tolerance-compared
    keys is reflexive, symmetric and transitive on the values at hand, two files share a group iff
    they agree on the exact keys and are close on the others -/
theorem together_iff (closeB : C → C → Bool) (eOf : Nat → E) (cOf : Nat → C)
    (hrefl : ∀ c, closeB c c = true)
    (hsymm : ∀ a b, closeB a b = true → closeB b a = true)
    (htrans : ∀ a b c, closeB a b = true → closeB b c = true → closeB a c = true)
    (ids : List Nat) (i j : Nat) (hi : i ∈ ids) (hj : j ∈ ids) :
    together (groupIds closeB eOf cOf ids []) i j ↔
      (eOf i = eOf j ∧ closeB (cOf i) (cOf j) = true) :=
  Grp.together_iff closeB eOf cOf hrefl hsymm htrans ids i j hi hj

/-- **independently of path order**: any permutation of the paths yields the same partition -/
theorem group_order_independent (closeB : C → C → Bool) (eOf : Nat → E) (cOf : Nat → C)
    (hrefl : ∀ c, closeB c c = true)
    (hsymm : ∀ a b, closeB a b = true → closeB b a = true)
    (htrans : ∀ a b c, closeB a b = true → closeB b c = true → closeB a c = true)
    (ids ids' : List Nat) (hperm : ids.Perm ids') (i j : Nat) (hi : i ∈ ids) (hj : j ∈ ids) :
    together (groupIds closeB eOf cOf ids []) i j ↔ together (groupIds closeB eOf cOf ids' []) i j :=
  Grp.group_order_independent closeB eOf cOf hrefl hsymm htrans ids ids' hperm i j hi hj

/-- F28 (recorded finding): the hypothesis cannot be dropped — with chained tolerances the
    first-fit grouping depends on the order -/
theorem order_matters_without_transitivity :
    let closeB : Nat → Nat → Bool := fun a b => decide (a ≤ b + 5 ∧ b ≤ a + 5)
    let cOf : Nat → Nat := fun id => 4 * id
    groupIds closeB (fun _ => ()) cOf [0, 1, 2] [] = [((), [(0, [0, 1]), (8, [2])])] ∧
    groupIds closeB (fun _ => ()) cOf [1, 0, 2] [] = [((), [(4, [1, 0, 2])])] :=
  Grp.order_matters_without_transitivity

end C18
