import DcmVerif.Proofs.Group
/-! Property theorems for C18. Statements only; proofs are by reference to `Proofs/`. -/
set_option autoImplicit false

namespace C18
variable {E C : Type} [DecidableEq E]
open Grp

/-- **partition:** every readable image file is in exactly one group (the ids in the groups are a
    permutation of the ids of the readable image files), nothing else is -/
theorem group_partition (closeB : C → C → Bool) (warn : Bool) (items : List (Item E C))
    (g : List (E × Subs C)) (h : parseAndGroup closeB warn items = .ok g) :
    (allIds g).Perm (fileIds items) :=
  Grp.group_partition closeB warn items g h

theorem group_skip_fault (closeB : C → C → Bool) (warn : Bool) (l₁ l₂ : List (Item E C))
    (bad : Item E C) (hbad : bad = .nonImage ∨ (bad = .unreadable ∧ warn = true)) :
    parseAndGroup closeB warn (l₁ ++ bad :: l₂) = parseAndGroup closeB warn (l₁ ++ l₂) :=
  Grp.group_skip_fault closeB warn l₁ l₂ bad hbad

/-- strict mode: an unreadable file raises -/
theorem group_strict_raises (closeB : C → C → Bool) (l₁ l₂ : List (Item E C))
    (h : ∀ it ∈ l₁, it ≠ Item.unreadable) (acc : List (E × Subs C)) :
    groupLoop closeB false (l₁ ++ .unreadable :: l₂) acc = .raised :=
  Grp.group_strict_raises closeB l₁ l₂ h acc

/-- a file joins the first sub-result whose representative it is close to; otherwise it opens a new
    one with itself as representative -/
theorem first_fit_joins (closeB : C → C → Bool) (id : Nat) (c : C) (pre : Subs C) (rep : C)
    (ids : List Nat) (post : Subs C) (hpre : ∀ s ∈ pre, closeB s.1 c = false) (h : closeB rep c = true) :
    placeSub closeB id c (pre ++ (rep, ids) :: post) = pre ++ (rep, ids ++ [id]) :: post :=
  Grp.placeSub_first_fit closeB id c pre rep ids post hpre h

theorem first_fit_new (closeB : C → C → Bool) (id : Nat) (c : C) (subs : Subs C)
    (h : ∀ s ∈ subs, closeB s.1 c = false) : placeSub closeB id c subs = subs ++ [(c, [id])] :=
  Grp.placeSub_new closeB id c subs h

/-- **stacking isolates faults:** in warn mode a file that cannot join (incongruent, colliding, no
    pixels) is equivalent to its absence, provided the remaining files' ability to join does not
    depend on it; in strict mode it aborts -/
theorem stack_group_skip (joins : List Nat → Nat → Bool) (pre : List Nat) (bad : Nat) (post : List Nat)
    (hb : ∀ a, joins a bad = false) (acc : List Nat) :
    stackGroup joins true (pre ++ bad :: post) acc = stackGroup joins true (pre ++ post) acc :=
  Grp.stackGroup_skip joins pre bad post hb acc

theorem stack_group_strict (joins : List Nat → Nat → Bool) (bad : Nat) (post acc : List Nat)
    (hb : joins acc bad = false) : stackGroup joins false (bad :: post) acc = none :=
  Grp.stackGroup_strict joins bad post acc hb

end C18
