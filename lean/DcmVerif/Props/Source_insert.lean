import DcmVerif.Proofs.Code_insert
/-! The tie by proof (dcmmeta.py: per-key dictionary edits of merges (_change_class, _insert_slice, _insert_non_slice, _insert_sample)): functions translated from the Python source on every run
(`tools/gen_code.py` → `Generated/Code_insert.lean`) are the model functions the property theorems speak about.
Statements only; proofs are by reference to `Proofs/Code_insert.lean`. One file per function group, so that an edit
of one function only unsettles the properties that depend on it. -/
set_option autoImplicit false
set_option linter.unusedVariables false
open Cls

namespace Source
variable {α κ : Type}
open Src

/-- **`_change_class` as written in dcmmeta.py is the model's `changeClassK`** on the dictionaries of one key (absent, or held by
    one class valid for the shape): the values are written under the new class and the key is deleted from the old one -/
theorem change_class_is_model [DecidableEq α] (null : α) (e : DExt κ α)
    (h3 : 3 ≤ e.shape.length) (h5 : e.shape.length ≤ 5) (hpos : ∀ x ∈ e.shape, 0 < x)
    (ks : KeyState α) (hks : ∀ c v, ks = some (c, v) → c ∈ validClasses e.shp ∧ mult e.shp c ≠ 0) (new : Cls)
    (hn : e.sliceDim.isSome = true ∨ perSlice new = false) :
    Py.change_class null e.shape (e.sliceDim.map fun d => e.shape.getD d 1) (toDict ks) new =
      errV ((changeClassK null (e.shp none) ks new).map toDict) :=
  Src.change_class_eq null e h3 h5 hpos ks hks new hn

/-- **the reclassification `_insert` applies to a key before inserting, as written in dcmmeta.py, is the model's `reclassifyK`** -/
theorem reclassify_is_model [DecidableEq α] (null : α) (e : DExt κ α)
    (h3 : 3 ≤ e.shape.length) (h5 : e.shape.length ≤ 5) (hpos : ∀ x ∈ e.shape, 0 < x) (hsl : e.sliceDim.isSome = true)
    (ks : KeyState α) (hks : ∀ c v, ks = some (c, v) → c ∈ validClasses e.shp ∧ mult e.shp c ≠ 0) (oc : Cls) :
    Py.reclassify null e.shape (e.sliceDim.map fun d => e.shape.getD d 1) (toDict ks) (contentOf' e) oc =
      errV ((reclassifyK null e.shp ks oc).map toDict) :=
  Src.reclassify_eq null e h3 h5 hpos hsl ks hks oc

/-- **the insertion `_insert(dim, other)` applies to a key, as written in dcmmeta.py**: `_insert_slice` along the slice axis of
    `self`, else `_insert_non_slice` for another spatial axis, `_insert_sample` for time (3) and vector (4), nothing otherwise —
    the case distinction of the model's `mergeKey` -/
theorem insert_dispatch_is_model [DecidableEq α] (null : α) (shape : List Nat) (nsl : Option Nat) (d : KeyDict α) (sd : Option Nat)
    (content : List String) (oshape : List Nat) (onsl : Option Nat) (ovals : List α) (ocls : Option Cls) (dim : Nat) :
    Py.insert_dispatch null shape nsl d sd content oshape onsl ovals ocls dim =
      if some dim = sd then Py.insert_slice null shape nsl d sd content oshape onsl ovals ocls
      else if dim < 3 then Py.insert_non_slice null shape nsl d sd content oshape onsl ovals ocls
      else if dim = 3 then Py.insert_sample null shape nsl d sd content oshape onsl ovals ocls "time"
      else if dim = 4 then Py.insert_sample null shape nsl d sd content oshape onsl ovals ocls "vector"
      else .ok d :=
  Src.insert_dispatch_eq null shape nsl d sd content oshape onsl ovals ocls dim

/-- **`_insert_slice` as written in dcmmeta.py is the model's `insertSliceK`** on the dictionaries of one key: constants that differ
    become per-slice values of the first base present (time, vector, global), time slices are appended, everything else goes
    through global slices with the new slice interleaved into every volume -/
theorem insert_slice_is_model [DecidableEq α] (null : α) (e o : DExt κ α) (sd : Nat)
    (h3 : 3 ≤ e.shape.length) (h5 : e.shape.length ≤ 5) (hpos : ∀ x ∈ e.shape, 0 < x)
    (hsl : e.sliceDim.isSome = true) (hosl : o.sliceDim.isSome = true)
    (hbase : ∀ d, basePresent e.shp d = true → d ∈ validClasses e.shp)
    (ho3 : 3 ≤ o.shape.length) (ho5 : o.shape.length ≤ 5) (hopos : ∀ x ∈ o.shape, 0 < x) (hsd : sd < o.shape.length)
    (c : Cls) (lv : List α) (hc : c ∈ validClasses e.shp) (hcm : mult e.shp c ≠ 0)
    (other : KeyState α) (hother : ∀ c v, other = some (c, v) → c ∈ validClasses o.shp ∧ mult o.shp c ≠ 0) :
    Py.insert_slice null e.shape (e.sliceDim.map fun d => e.shape.getD d 1) (toDict (some (c, lv))) (some sd) (contentOf' e)
        o.shape (o.sliceDim.map fun d => o.shape.getD d 1) (valuesOf null other) (other.map (·.1)) =
      errV ((insertSliceK null e.shp (o.shp (some sd)) (some (c, lv)) other).map toDict) :=
  Src.insert_slice_eq null e o sd h3 h5 hpos hsl hosl hbase ho3 ho5 hopos hsd c lv hc hcm other hother

/-- **`_insert_non_slice` as written in dcmmeta.py is the model's `insertNonSliceK`**: the key stays only if `other`, widened to
    the class `self` holds it under, has the same values -/
theorem insert_non_slice_is_model [DecidableEq α] (null : α) (e o : DExt κ α) (sd : Nat)
    (h3 : 3 ≤ e.shape.length) (h5 : e.shape.length ≤ 5)
    (ho3 : 3 ≤ o.shape.length) (ho5 : o.shape.length ≤ 5) (hopos : ∀ x ∈ o.shape, 0 < x) (hsd : sd < o.shape.length)
    (c : Cls) (lv : List α) (hc : c ∈ validClasses e.shp)
    (other : KeyState α) (hother : ∀ c v, other = some (c, v) → c ∈ validClasses o.shp ∧ mult o.shp c ≠ 0)
    (content : List String) :
    Py.insert_non_slice null e.shape (e.sliceDim.map fun d => e.shape.getD d 1) (toDict (some (c, lv))) (some sd) content
        o.shape (o.sliceDim.map fun d => o.shape.getD d 1) (valuesOf null other) (other.map (·.1)) =
      errV ((insertNonSliceK null (o.shp (some sd)) (some (c, lv)) other).map toDict) :=
  Src.insert_non_slice_eq null e o sd h3 h5 ho3 ho5 hopos hsd c lv hc other hother content

/-- **`_insert_sample` as written in dcmmeta.py is the model's `insertSampleK`** on the dictionaries of one key: constants that
    differ become samples of the merged axis, samples are appended, everything else goes through global slices — interleaved per
    vector component in a time merge of a five-axis extension, appended otherwise -/
theorem insert_sample_is_model [DecidableEq α] (null : α) (e o : DExt κ α) (sd : Nat) (isTime : Bool)
    (h3 : 3 ≤ e.shape.length) (h5 : e.shape.length ≤ 5) (hpos : ∀ x ∈ e.shape, 0 < x)
    (hsl : e.sliceDim.isSome = true)
    (ho3 : 3 ≤ o.shape.length) (ho5 : o.shape.length ≤ 5) (hopos : ∀ x ∈ o.shape, 0 < x) (hsd : sd < o.shape.length)
    (hoT : e.shape.length = 5 → 3 < o.shape.length)
    (hsamp : (if isTime then tsamples else vsamples) ∈ validClasses e.shp)
    (c : Cls) (lv : List α) (hc : c ∈ validClasses e.shp) (hcm : mult e.shp c ≠ 0)
    (other : KeyState α) (hother : ∀ c v, other = some (c, v) → c ∈ validClasses o.shp ∧ mult o.shp c ≠ 0)
    (content : List String) :
    Py.insert_sample null e.shape (e.sliceDim.map fun d => e.shape.getD d 1) (toDict (some (c, lv))) (some sd) content
        o.shape (o.sliceDim.map fun d => o.shape.getD d 1) (valuesOf null other) (other.map (·.1))
        (if isTime then "time" else "vector") =
      errV ((insertSampleK null isTime e.shp (o.shp (some sd)) (some (c, lv)) other).map toDict) :=
  Src.insert_sample_eq null e o sd isTime h3 h5 hpos hsl ho3 ho5 hopos hsd hoT hsamp c lv hc hcm other hother content

/-- the translator translated every function of this group (dcmmeta.py: per-key dictionary edits of merges (_change_class, _insert_slice, _insert_non_slice, _insert_sample)) -/
theorem translator_complete_insert : Gen.codeMissing_insert = [] := rfl

end Source
