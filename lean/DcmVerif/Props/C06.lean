import DcmVerif.Props.Source_classes
import DcmVerif.Props.Source_simplify
import DcmVerif.Proofs.Key
/-! Property theorems for C06. Statements only; proofs are by reference to `Proofs/`. -/
set_option autoImplicit false
open Cls

namespace C06
variable {α : Type} [DecidableEq α]

theorem simplify_lookup (null : α) (sh : Shp) (wf : WF sh) (c : Cls) (vals : List α)
    (hsl : sh.hasSlice = true) (hlen : vals.length = mult sh c) (d : Cls) (out : List α)
    (h : simplifyK null sh c vals = .ok (.moved d out))
    (hbug : ¬ (c = vslices ∧ d = tsamples ∧ 1 < sh.V))
    (s t v : Nat) (hs : s < sh.S) (ht : t < sh.T) (hv : v < sh.V) :
    lookupK sh d out s t v = lookupK sh c vals s t v :=
  _root_.simplify_lookup null sh wf c vals hsl hlen d out h hbug s t v hs ht hv

/-- `_simplify` stores the right number of values under a class that is valid for the shape -/
theorem simplify_valid (null : α) (sh : Shp) (wf : WF sh) (hsl : sh.hasSlice = true)
    (hbase : ∀ d, basePresent sh d = true → d ∈ validClasses sh)
    (c : Cls) (vals : List α) (hlen : vals.length = mult sh c) (d : Cls) (out : List α)
    (h : simplifyK null sh c vals = .ok (.moved d out))
    (hbug : ¬ (c = vslices ∧ d = tsamples ∧ 1 < sh.V)) :
    d ∈ validClasses sh ∧ out.length = mult sh d :=
  _root_.simplify_valid null sh wf hsl hbase c vals hlen d out h hbug

/-- **Minimality of `_simplify` from global slices (C06):** whatever class the key ends in, no
    class that comes earlier in the preference order (and whose dictionary exists) can represent
    the key's values. -/
theorem simplify_gslices_minimal (null : α) (sh : Shp) (wf : WF sh) (hsl : sh.hasSlice = true)
    (vals : List α) (hlen : vals.length = mult sh gslices) (o : SimpOut α)
    (h : simplifyK null sh gslices vals = .ok o) :
    ∀ e, basePresent sh e = true → rank e < rank (resultClass o) →
      ¬ RepOK sh (fun s t v => vals[proj sh s t v gslices]?) e :=
  _root_.simplify_gslices_minimal null sh wf hsl vals hlen o h

/-- **C06 for slice merges:** with at least two inputs, none of which stores the key per slice
    (true of every canonical single-slice input), the merged key sits in a class that no class
    earlier in the preference order (with an existing dictionary) can replace. -/
theorem merge_slice_minimal (null : α) (sh1 : Shp) (hc1 : Consistent sh1)
    (inputs : List (KeyState α)) (h2 : 2 ≤ inputs.length)
    (hin : ∀ b, b ∈ inputs → ValidK { sh1 with S := 1 } b ∧ nonSliceClass b)
    (r : KeyState α) (h : mergeSliceK null sh1 inputs = .ok r) :
    ∀ c vals, r = some (c, vals) →
      ∀ e, basePresent { sh1 with S := inputs.length } e = true → rank e < rank c →
        ¬ RepOK { sh1 with S := inputs.length }
            (fun s t v => lookupKS null { sh1 with S := inputs.length } r s t v) e :=
  _root_.mergeSlice_minimal null sh1 hc1 inputs h2 hin r h

/-- **C06 for time merges (3-D inputs → 4-D):** the merged key sits in a class that no earlier
    class with an existing dictionary can replace — for *any* valid inputs. -/
theorem merge_time_minimal (null : α) (sh1 osh : Shp)
    (hS : 0 < sh1.S) (hsl : sh1.hasSlice = true) (nd4 : sh1.nd = 4) (v1 : sh1.V = 1)
    (hvec : sh1.hasVector = false)
    (ond : osh.nd = 3) (oS : osh.S = sh1.S) (oT : osh.T = 1) (oV : osh.V = 1)
    (ohsl : osh.hasSlice = true)
    (inputs : List (KeyState α)) (hin : ∀ b, b ∈ inputs → ValidK osh b)
    (r : KeyState α) (h : mergeTimeK null sh1 osh inputs = .ok r) :
    ∀ c vals, r = some (c, vals) →
      ∀ e, basePresent { sh1 with T := inputs.length } e = true → rank e < rank c →
        ¬ RepOK { sh1 with T := inputs.length }
            (fun s t v => lookupKS null { sh1 with T := inputs.length } r s t v) e :=
  _root_.mergeTime_minimal null sh1 osh hS hsl nd4 v1 hvec ond oS oT oV ohsl inputs hin r h

/-- **C06 for vector merges (3-D / 4-D inputs → 5-D):** with at least two inputs the merged key
    sits in a class that no earlier class with an existing dictionary can replace. -/
theorem merge_vector_minimal (null : α) (sh1 osh : Shp)
    (hS : 0 < sh1.S) (hT : 0 < sh1.T) (hsl : sh1.hasSlice = true) (nd5 : sh1.nd = 5)
    (hvec : sh1.hasVector = true) (htime : sh1.hasTime = true → sh1.T ≠ 1)
    (ohsl : osh.hasSlice = true) (oS : osh.S = sh1.S) (oT : osh.T = sh1.T) (oV : osh.V = 1)
    (ond : (osh.nd = 3 ∧ sh1.T = 1) ∨ (osh.nd = 4 ∧ sh1.T ≠ 1))
    (inputs : List (KeyState α)) (h2 : 2 ≤ inputs.length) (hin : ∀ b, b ∈ inputs → ValidK osh b)
    (r : KeyState α) (h : mergeVecK null sh1 osh inputs = .ok r) :
    ∀ c vals, r = some (c, vals) →
      ∀ e, basePresent { sh1 with V := inputs.length } e = true → rank e < rank c →
        ¬ RepOK { sh1 with V := inputs.length }
            (fun s t v => lookupKS null { sh1 with V := inputs.length } r s t v) e :=
  _root_.mergeVec_minimal null sh1 osh hS hT hsl nd5 hvec htime ohsl oS oT oV ond inputs h2 hin r h

/-- **C06 for conversion (5-D result):** every key of the embedded extension sits at its simplest
    classification. -/
theorem convert_canonical (null : α) (S T V : Nat) (hS : 0 < S) (hT : 2 ≤ T) (hV : 2 ≤ V)
    (val : Nat → Nat → Nat → Option α)
    (vol : Nat → Nat → KeyState α) (vec : Nat → KeyState α) (r : KeyState α)
    (hvol : ∀ t v, t < T → v < V →
      mergeSliceK null ⟨3, 1, 1, 1, true, false, false⟩
        ((List.range S).map fun s => fileKS (val s t v)) = .ok (vol t v))
    (hvec : ∀ v, v < V →
      mergeTimeK null ⟨4, S, 1, 1, true, true, false⟩ ⟨3, S, 1, 1, true, false, false⟩
        ((List.range T).map fun t => vol t v) = .ok (vec v))
    (hfin : mergeVecK null ⟨5, S, T, 1, true, true, true⟩ ⟨4, S, T, 1, true, true, false⟩
        ((List.range V).map vec) = .ok r) :
    ∀ c vals, r = some (c, vals) →
      ∀ e, basePresent ⟨5, S, T, V, true, true, true⟩ e = true → rank e < rank c →
        ¬ RepOK ⟨5, S, T, V, true, true, true⟩
            (fun s t v => lookupKS null ⟨5, S, T, V, true, true, true⟩ r s t v) e :=
  _root_.convert_canonical_key null S T V hS hT hV val vol vec r hvol hvec hfin

end C06
