import DcmVerif.Props.Source_dicts
import DcmVerif.Props.Source_subset
import DcmVerif.Props.Source_values
import DcmVerif.Props.Source_classes
import DcmVerif.Props.Source_simplify
import DcmVerif.Props.Source_shapes
import DcmVerif.Props.Source_wrapsplit
import DcmVerif.Props.C04_wrap
import DcmVerif.Proofs.Total
/-! Property theorems for C04. Statements only; proofs are by reference to `Proofs/`. -/
set_option autoImplicit false
open Cls

namespace C04
variable {α : Type} [DecidableEq α]

theorem subset_lookup_slice_raw (sh : Shp) (wf : WFnd sh) (hsl : sh.hasSlice = true) (c : Cls)
    (hps : perSlice c = true) (hv : c ∈ validClasses sh) (vals : List α)
    (hlen : vals.length = mult sh c) (idx t v : Nat)
    (hidx : idx < sh.S) (ht : t < sh.T) (hvv : v < sh.V) :
    let rs := sliceSubsetShp sh
    let d := copySliceDest (validClasses rs) c
    lookupK rs d (copySliceVals sh.S (mult rs d) idx vals) 0 t v = lookupK sh c vals idx t v :=
  _root_.copySlice_lookup sh wf hsl c hps hv vals hlen idx t v hidx ht hvv

/-- `_copy_sample(…, 'time', idx)`: every non-constant class, before the `_simplify` calls -/
theorem subset_lookup_time_raw (sh : Shp) (hc : Consistent sh) (h45 : sh.nd = 4 ∨ sh.nd = 5)
    (hV2 : sh.nd = 5 → 2 ≤ sh.V)
    (c : Cls) (hcg : c ≠ gconst) (vals : List α) (hv : ValidK sh (some (c, vals)))
    (idx : Nat) (hidx : idx < sh.T) :
    let rs := timeSubsetShp sh
    let out := copySampleK sh rs true idx c vals
    ValidK rs (some (out.1, out.2.1)) ∧
    ∀ s v, s < sh.S → v < sh.V →
      lookupK rs out.1 out.2.1 s 0 v = lookupK sh c vals s idx v :=
  _root_.copySampleTime_lookup sh hc h45 hV2 c hcg vals hv idx hidx

/-- `_copy_sample(…, 'vector', idx)`: every non-constant class, before the `_simplify` calls -/
theorem subset_lookup_vector_raw (sh : Shp) (hc : Consistent sh) (h5 : sh.nd = 5)
    (c : Cls) (hcg : c ≠ gconst) (vals : List α) (hv : ValidK sh (some (c, vals)))
    (idx : Nat) (hidx : idx < sh.V) :
    let rs := vecSubsetShp sh
    let out := copySampleK sh rs false idx c vals
    ValidK rs (some (out.1, out.2.1)) ∧
    ∀ s t, s < sh.S → t < sh.T →
      lookupK rs out.1 out.2.1 s t 0 = lookupK sh c vals s t idx :=
  _root_.copySampleVec_lookup sh hc h5 c hcg vals hv idx hidx

/-- **C04 (slice axis, per key):** the piece is valid for the one-slice shape, reads the parent at
    the fixed slice, and never stores the key per slice. -/
theorem subset_slice (null : α) (sh : Shp) (hc : Consistent sh)
    (ks : KeyState α) (hv : ValidK sh ks) (idx : Nat) (hidx : idx < sh.S)
    (p : KeyState α) (h : subsetSliceK null sh ks idx = .ok p) :
    ValidK { sh with S := 1 } p ∧ nonSliceClass p ∧
    ∀ t v, t < sh.T → v < sh.V →
      lookupKS null { sh with S := 1 } p 0 t v = lookupKS null sh ks idx t v :=
  _root_.subsetSlice_spec null sh hc ks hv idx hidx p h

/-- **C04 (time axis, 4-D parent, per key):** the piece is a valid 3-D key state that reads the
    parent at the fixed time point. -/
theorem subset_time4 (null : α) (sh : Shp) (hc : Consistent sh) (h4 : sh.nd = 4)
    (ks : KeyState α) (hv : ValidK sh ks) (idx : Nat) (hidx : idx < sh.T)
    (p : KeyState α) (h : subsetTimeK null sh ks idx = .ok p) :
    ValidK (timeSubsetShp sh) p ∧
    ∀ s, s < sh.S → lookupKS null (timeSubsetShp sh) p s 0 0 = lookupKS null sh ks s idx 0 :=
  _root_.subsetTime_spec4 null sh hc h4 ks hv idx hidx p h

/-- **C04 (vector axis, 5-D parent, per key)** -/
theorem subset_vector (null : α) (sh : Shp) (hc : Consistent sh) (h5 : sh.nd = 5)
    (ks : KeyState α) (hv : ValidK sh ks) (idx : Nat) (hidx : idx < sh.V)
    (p : KeyState α) (h : subsetVecK null sh ks idx = .ok p) :
    ValidK (vecSubsetShp sh) p ∧
    ∀ s t, s < sh.S → t < sh.T →
      lookupKS null (vecSubsetShp sh) p s t 0 = lookupKS null sh ks s t idx :=
  _root_.subsetVec_spec null sh hc h5 ks hv idx hidx p h

theorem simplify_keeps_lookup (null : α) (sh : Shp) (wf : WF sh) (c : Cls) (vals : List α)
    (hsl : sh.hasSlice = true) (hlen : vals.length = mult sh c) (d : Cls) (out : List α)
    (h : simplifyK null sh c vals = .ok (.moved d out))
    (hbug : ¬ (c = vslices ∧ d = tsamples ∧ 1 < sh.V))
    (s t v : Nat) (hs : s < sh.S) (ht : t < sh.T) (hv : v < sh.V) :
    lookupK sh d out s t v = lookupK sh c vals s t v :=
  _root_.simplify_lookup null sh wf c vals hsl hlen d out h hbug s t v hs ht hv

/-! ### `get_subset` cannot fail in these regions (`Proofs/Total.lean`) -/

/-- `_simplify` never raises on a valid key (with the F22 repair: whatever the axis lengths) -/
theorem simplify_total (null : α) (sh : Shp) (wf : WF sh) (hsl : sh.hasSlice = true)
    (c : Cls) (vals : List α) (hl : vals.length = mult sh c) :
    ∃ o, simplifyK null sh c vals = .ok o :=
  Total.simplifyK_ok null sh wf hsl c vals hl

theorem subset_slice_total (null : α) (sh : Shp) (hc : Consistent sh)
    (ks : KeyState α) (hv : ValidK sh ks) (idx : Nat) (hidx : idx < sh.S) :
    ∃ p, subsetSliceK null sh ks idx = .ok p :=
  Total.subsetSliceK_ok null sh hc ks hv idx hidx

theorem subset_time_total (null : α) (sh : Shp) (hc : Consistent sh) (h45 : sh.nd = 4 ∨ sh.nd = 5)
    (hV2 : sh.nd = 5 → 2 ≤ sh.V)
    (ks : KeyState α) (hv : ValidK sh ks) (idx : Nat) (hidx : idx < sh.T) :
    ∃ p, subsetTimeK null sh ks idx = .ok p :=
  Total.subsetTimeK_ok null sh hc h45 hV2 ks hv idx hidx

theorem subset_vector_total (null : α) (sh : Shp) (hc : Consistent sh) (h5 : sh.nd = 5)
    (ks : KeyState α) (hv : ValidK sh ks) (idx : Nat) (hidx : idx < sh.V) :
    ∃ p, subsetVecK null sh ks idx = .ok p :=
  Total.subsetVecK_ok null sh hc h5 ks hv idx hidx

/-- **C04 (time axis, 5-D parent, per key), after the final `_simplify`:** the piece for time point
    `idx` is valid for the `(x,y,z,1,V)` shape and reads, at every slice and vector position, what the
    parent reads at that time point -/
theorem subset_time5 (null : α) (sh : Shp) (hc : Consistent sh) (h5 : sh.nd = 5) (hV2 : 2 ≤ sh.V)
    (ks : KeyState α) (hv : ValidK sh ks) (idx : Nat) (hidx : idx < sh.T)
    (p : KeyState α) (h : subsetTimeK null sh ks idx = .ok p) :
    ValidK (timeSubsetShp sh) p ∧
    ∀ s v, s < sh.S → v < sh.V →
      lookupKS null (timeSubsetShp sh) p s 0 v = lookupKS null sh ks s idx v :=
  Total.subsetTime_spec5 null sh hc h5 hV2 ks hv idx hidx p h

end C04
