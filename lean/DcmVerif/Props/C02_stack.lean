import DcmVerif.Proofs.Stack
/-! Property theorems for C02_stack. Statements only; proofs are by reference to `Proofs/`. -/
set_option autoImplicit false

namespace C02
variable {α : Type}
open Stk

/-- `get_data` places slice `s`, time `t`, vector `v` from file number `fileIdx`; the index is in
    range and distinct cells get distinct files (so every file fills exactly one cell) -/
theorem fill_index_in_range (S T V s t v : Nat) (hs : s < S) (ht : t < T) (hv : v < V) :
    fileIdx S T s t v < S * T * V :=
  Stk.fileIdx_lt S T V s t v hs ht hv

theorem fill_index_injective (S T s t v s' t' v' : Nat) (hs : s < S) (ht : t < T) (hs' : s' < S)
    (ht' : t' < T) (h : fileIdx S T s t v = fileIdx S T s' t' v') : s = s' ∧ t = t' ∧ v = v' :=
  Stk.fileIdx_inj S T s t v s' t' v' hs ht hs' ht' h

/-- **the reversed file list follows the flipped data:** in volume block `b`, position `s` of the
    reversed list holds the file that was at position `S − 1 − s` of that block -/
theorem flipped_data_same_files (S vols : Nat) (l : List α) (hlen : l.length = S * vols)
    (b s : Nat) (hb : b < vols) (hs : s < S) :
    (reverseBlocks S vols l)[b * S + s]? = l[b * S + (S - 1 - s)]? :=
  Stk.reverseBlocks_getElem? S vols l hlen b s hb hs

/-- **C12 core:** the canonical order `_chk_order` establishes depends only on the set of files,
    not on the order in which they were added or left by earlier calls -/
theorem canonical_order_unique (S vols : Nat) (l₁ l₂ : List F) (h : l₁.Perm l₂)
    (hd : DistinctKeys l₁) : chkSort S vols l₁ = chkSort S vols l₂ :=
  Stk.chkSort_perm_invariant S vols l₁ l₂ h hd

end C02
