import DcmVerif.Proofs.Code_lookup
/-! The tie by proof (dcmmeta.py: NiftiWrapper.get_meta, meta_valid): functions translated from the Python source on every run
(`tools/gen_code.py` → `Generated/Code_lookup.lean`) are the model functions the property theorems speak about.
Statements only; proofs are by reference to `Proofs/Code_lookup.lean`. One file per function group, so that an edit
of one function only unsettles the properties that depend on it. -/
set_option autoImplicit false
set_option linter.unusedVariables false
open Cls

namespace Source
variable {α κ : Type}
open Src

theorem get_meta_index_is_model (shape idx : List Nat) (sd : Nat) (al : Bool) (e : ExtGeom) (cl : Cls) (vals : List α)
    (h3 : 3 ≤ shape.length) (h5 : shape.length ≤ 5) (hsd3 : sd < 3) (hc : cl ≠ gconst)
    (hvalid : metaValid e ⟨shape, some sd, al⟩ cl = true) :
    toGetOut (Py.get_meta_index shape sd cl vals idx) =
      getMeta e ⟨shape, some sd, al⟩ (some (cl, vals)) (some idx) :=
  Src.get_meta_index_eq shape idx sd al e cl vals h3 h5 hsd3 hc hvalid

/-- **`meta_valid` as written in dcmmeta.py is the model's `metaValid`** (the header reads and the
    comparison of the slice directions are the same parameters on both sides); slice dims in range,
    and a fourth axis on both sides where `('vector', 'slices')` reads it -/
theorem meta_valid_is_model (e : ExtGeom) (img : Img) (c : Cls)
    (hisd : ∀ d, img.sliceDim = some d → d < img.shape.length)
    (hesd : ∀ d, e.sliceDim = some d → d < e.shape.length)
    (h4 : c = vslices → 3 < e.shape.length ∧ 3 < img.shape.length) :
    Py.meta_valid img.shape e.shape img.sliceDim (e.sliceDim.map fun d => e.shape[d]!) img.aligned c =
      .ok (metaValid e img c) :=
  Src.meta_valid_eq e img c hisd hesd h4

/-- **`get_meta` as written in dcmmeta.py is the model's `getMeta`**: an absent key and a classification that is not valid for the
    image give the default, a constant its value whatever the index, every other key the value at the position the index
    arithmetic of its classification computes — or IndexError for an index of the wrong length or out of bounds -/
theorem get_meta_is_model (e : ExtGeom) (shape : List Nat) (sd : Nat) (al : Bool) (ks : KeyState α) (index : Option (List Nat))
    (h3 : 3 ≤ shape.length) (h5 : shape.length ≤ 5) (hsd3 : sd < 3)
    (hesd : ∀ d, e.sliceDim = some d → d < e.shape.length)
    (h4 : ∀ c v, ks = some (c, v) → c = vslices → 3 < e.shape.length ∧ 3 < shape.length) :
    toGetOut (Py.get_meta shape e.shape (some sd) (e.sliceDim.map fun d => e.shape[d]!) al
        (match ks with | some (_, v) => v | none => []) (ks.map (·.1)) index) =
      getMeta e ⟨shape, some sd, al⟩ ks index :=
  Src.get_meta_eq e shape sd al ks index h3 h5 hsd3 hesd h4

/-- the translator translated every function of this group (dcmmeta.py: NiftiWrapper.get_meta, meta_valid) -/
theorem translator_complete_lookup : Gen.codeMissing_lookup = [] := rfl

end Source
