import DcmVerif.Proofs.Code_valid
/-! The tie by proof (dcmmeta.py: DcmMetaExtension.check_valid): functions translated from the Python source on every run
(`tools/gen_code.py` → `Generated/Code_valid.lean`) are the model functions the property theorems speak about.
Statements only; proofs are by reference to `Proofs/Code_valid.lean`. One file per function group, so that an edit
of one function only unsettles the properties that depend on it. -/
set_option autoImplicit false
set_option linter.unusedVariables false
open Cls

namespace Source
variable {α κ : Type}
open Src

/-- **`check_valid` as written in dcmmeta.py is the model's `checkValid`** over the abstraction
    `CV.Content` of the content dictionary: it returns iff the model accepts and raises
    InvalidExtensionError otherwise -/
theorem check_valid_is_model (c : CV.Content) :
    Py.check_valid c = if CV.checkValid c then .ok () else .error PyErr.invalidExtension :=
  Src.check_valid_eq c

/-- the translator translated every function of this group (dcmmeta.py: DcmMetaExtension.check_valid) -/
theorem translator_complete_valid : Gen.codeMissing_valid = [] := rfl

end Source
