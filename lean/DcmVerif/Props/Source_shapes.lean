import DcmVerif.Proofs.Code_shapes
/-! The tie by proof (dcmmeta.py: result shapes of get_subset / from_sequence): functions translated from the Python source on every run
(`tools/gen_code.py` → `Generated/Code_shapes.lean`) are the model functions the property theorems speak about.
Statements only; proofs are by reference to `Proofs/Code_shapes.lean`. One file per function group, so that an edit
of one function only unsettles the properties that depend on it. -/
set_option autoImplicit false
set_option linter.unusedVariables false
open Cls

namespace Source
variable {α κ : Type}
open Src

/-- **the result shape computed by `get_subset` as written in dcmmeta.py is the model's `subsetShape`**
    (split axis singular, trailing singular axes beyond the third removed) for every shape and axis; the
    bounded rendering of the `while` loop never runs out of rounds -/
theorem subset_shape_is_model (shape : List Nat) (dim : Nat) :
    Py.subset_shape shape dim = .ok (DExt.subsetShape shape dim) :=
  Src.subset_shape_eq shape dim

theorem merge_shape_is_model {κ α : Type} (first : DExt κ α) (dim n : Nat) :
    Py.merge_shape first.shape dim n = .ok (DExt.outShapeOf first dim n) :=
  Src.merge_shape_eq first dim n

/-- the translator translated every function of this group (dcmmeta.py: result shapes of get_subset / from_sequence) -/
theorem translator_complete_shapes : Gen.codeMissing_shapes = [] := rfl

end Source
