import DcmVerif.Proofs.Code_values
/-! The tie by proof (dcmmeta.py: value-list arithmetic of get_subset / from_sequence (_get_changed_class, _copy_slice, _global_slice_subset, the interleaving of _insert_slice / _insert_sample)): functions translated from the Python source on every run
(`tools/gen_code.py` → `Generated/Code_values.lean`) are the model functions the property theorems speak about.
Statements only; proofs are by reference to `Proofs/Code_values.lean`. One file per function group, so that an edit
of one function only unsettles the properties that depend on it. -/
set_option autoImplicit false
set_option linter.unusedVariables false
open Cls

namespace Source
variable {α κ : Type}
open Src

/-- **`_get_changed_class` as written in dcmmeta.py is the model's `getChangedK`** for extensions of three to five axes with
    positive sizes, a key that is absent or held under a class valid for the shape with non-zero multiplicity (a per-slice class in
    an extension without slice dimension makes Python divide by zero; `check_valid` rejects such content), any target class and
    any `slice_dim` argument inside the shape: same values, and `ValueError` exactly when the change would lose data -/
theorem get_changed_class_is_model [DecidableEq α] (null : α) (e : DExt κ α) (sd : Nat)
    (h3 : 3 ≤ e.shape.length) (h5 : e.shape.length ≤ 5) (hpos : ∀ x ∈ e.shape, 0 < x) (hsd : sd < e.shape.length)
    (ks : KeyState α) (hks : ∀ c v, ks = some (c, v) → c ∈ validClasses e.shp ∧ mult e.shp c ≠ 0) (new : Cls) :
    Py.get_changed_class e.shape (e.sliceDim.map fun d => e.shape.getD d 1) (valuesOf null ks) (ks.map (·.1)) new (some sd) =
      errV (getChangedK null (e.shp (some sd)) ks new) :=
  Src.get_changed_class_eq null e sd h3 h5 hpos hsd ks hks new

/-- **the destination class `_copy_slice` picks as written in dcmmeta.py is the model's `copySliceDest`**, for the per-slice
    classes it is called with and a result in which global constants are valid (they always are) -/
theorem copy_slice_dest_is_model (valid : List Cls) (c : Cls) (hc : perSlice c = true) (hg : gconst ∈ valid) :
    Py.copy_slice_dest valid c = .ok (copySliceDest valid c) :=
  Src.copy_slice_dest_eq valid c hc hg

/-- **the values `_copy_slice` stores as written in dcmmeta.py are the model's `copySliceVals`** whenever the strided subset is
    not empty (or nothing has to be repeated) … -/
theorem copy_slice_vals_is_model (vals : List α) (idx st destMult : Nat)
    (h : (stride st (vals.drop idx)).length ≠ 0 ∨ destMult = 0) :
    Py.copy_slice_vals vals idx st destMult = .ok (copySliceVals st destMult idx vals) :=
  Src.copy_slice_vals_eq vals idx st destMult h

/-- … and when it is empty while the destination needs values, Python divides by zero (`ZeroDivisionError`) -/
theorem copy_slice_vals_zero_div (vals : List α) (idx st destMult : Nat)
    (h0 : (stride st (vals.drop idx)).length = 0) (hd : 0 < destMult) :
    Py.copy_slice_vals vals idx st destMult = .error PyErr.zeroDivision :=
  Src.copy_slice_vals_zero_div vals idx st destMult h0 hd

/-- **`_global_slice_subset` as written in dcmmeta.py is the model's `globalSliceSubset`** (a vector sample of a five-axis
    extension, or a time sample of a four- or five-axis one) -/
theorem global_slice_subset_is_model [DecidableEq α] (e : DExt κ α) (isTime : Bool) (h4 : 4 ≤ e.shape.length) (h5 : e.shape.length ≤ 5)
    (hv : isTime = false → e.shape.length = 5) (idx : Nat) (vals : List α) :
    Py.global_slice_subset e.shape e.shp.S vals (if isTime then "time" else "vector") idx =
      .ok (globalSliceSubset e.shp isTime idx vals) :=
  Src.global_slice_subset_eq e isTime h4 h5 hv idx vals

/-- **the interleaving block of `_insert_slice` as written in dcmmeta.py is the model's `interleave`** over the `T·V` volumes -/
theorem insert_slice_interleave_is_model (e : DExt κ α) (sdArg : Option Nat) (h3 : 3 ≤ e.shape.length) (h5 : e.shape.length ≤ 5)
    (m : Nat) (lv ov : List α) :
    Py.insert_slice_interleave e.shape (e.shp sdArg).S m lv ov =
      .ok (interleave (e.shp sdArg).S m ((e.shp sdArg).T * (e.shp sdArg).V) lv ov) :=
  Src.insert_slice_interleave_eq e sdArg h3 h5 m lv ov

/-- **the interleaving block of `_insert_sample` as written in dcmmeta.py is the model's `interleave`** (five axes: per vector
    component, `S·T` held values then `S·T'` new ones) -/
theorem insert_sample_interleave_is_model (e : DExt κ α) (sdArg : Option Nat) (h5 : e.shape.length = 5)
    (t3 : Nat) (lv ov : List α) :
    Py.insert_sample_interleave e.shape (e.shp sdArg).S t3 lv ov =
      .ok (interleave ((e.shp sdArg).S * (e.shp sdArg).T) ((e.shp sdArg).S * t3) (e.shp sdArg).V lv ov) :=
  Src.insert_sample_interleave_eq e sdArg h5 t3 lv ov

/-- Python's `values[start::step]` is the model's `stride step (values.drop start)` -/
theorem slice_step_is_model (l : List α) (start p : Nat) : pyStep l start p = stride p (l.drop start) :=
  Src.pyStep_eq l start p

/-- … and without a `slice_dim` argument (as `_change_class` calls it), whenever the extension has a slice dimension of its own
    or the target class is not per slice (otherwise Python reads `shape[None]`: TypeError) -/
theorem get_changed_class_no_slice_dim_is_model [DecidableEq α] (null : α) (e : DExt κ α)
    (h3 : 3 ≤ e.shape.length) (h5 : e.shape.length ≤ 5) (hpos : ∀ x ∈ e.shape, 0 < x)
    (ks : KeyState α) (hks : ∀ c v, ks = some (c, v) → c ∈ validClasses e.shp ∧ mult e.shp c ≠ 0) (new : Cls)
    (hn : e.sliceDim.isSome = true ∨ perSlice new = false) :
    Py.get_changed_class e.shape (e.sliceDim.map fun d => e.shape.getD d 1) (valuesOf null ks) (ks.map (·.1)) new none =
      errV (getChangedK null (e.shp none) ks new) :=
  Src.get_changed_class_none_eq null e h3 h5 hpos ks hks new hn

/-- the translator translated every function of this group (dcmmeta.py: value-list arithmetic of get_subset / from_sequence (_get_changed_class, _copy_slice, _global_slice_subset, the interleaving of _insert_slice / _insert_sample)) -/
theorem translator_complete_values : Gen.codeMissing_values = [] := rfl

end Source
