import DcmVerif.Proofs.Code_wrapmerge
/-! The tie by proof (dcmmeta.py: NiftiWrapper.from_sequence index expressions): functions translated from the Python source on every run
(`tools/gen_code.py` → `Generated/Code_wrapmerge.lean`) are the model functions the property theorems speak about.
Statements only; proofs are by reference to `Proofs/Code_wrapmerge.lean`. One file per function group, so that an edit
of one function only unsettles the properties that depend on it. -/
set_option autoImplicit false
set_option linter.unusedVariables false
open Cls

namespace Source
variable {α κ : Type}
open Src Wrap

theorem wrap_merge_shape_is_model (shape : List Nat) (dim n : Nat) :
    Py.wrap_merge_shape shape dim n = .ok (mergeShape shape dim n) :=
  Src.wrap_merge_shape_eq shape dim n

/-- **the index expression the inputs of `from_sequence` are written through, as written in
    dcmmeta.py, is the model's `fillSpecs`** -/
theorem fill_specs_is_model (rshape : List Nat) (dim i : Nat) :
    Py.fill_specs rshape dim i = .ok (fillSpecs rshape dim i) :=
  Src.fill_specs_eq rshape dim i

/-- the translator translated every function of this group (dcmmeta.py: NiftiWrapper.from_sequence index expressions) -/
theorem translator_complete_wrapmerge : Gen.codeMissing_wrapmerge = [] := rfl

end Source
