import DcmVerif.Proofs.Ext
/-! Property theorems for C14_ext. Statements only; proofs are by reference to `Proofs/`. -/
set_option autoImplicit false

namespace C14
variable {α : Type} [DecidableEq α] {κ : Type} [DecidableEq κ]
open DExt Cls

/-- **C14, `filter_keys`:** after filtering the entries are exactly the old entries whose key the
    filter does not remove — in every classification, values untouched -/
theorem filter_entries (e : DExt κ α) (drop : κ → Bool) (x : κ × Cls × List α) :
    x ∈ (e.filterMeta drop).ents ↔ x ∈ e.ents ∧ drop x.1 = false :=
  DExt.filterMeta_ents e drop x

theorem filter_keys (e : DExt κ α) (drop : κ → Bool) (k : κ) :
    k ∈ (e.filterMeta drop).ents.map (·.1) ↔ k ∈ e.ents.map (·.1) ∧ drop k = false :=
  DExt.filterMeta_keys e drop k

theorem filter_geometry (e : DExt κ α) (drop : κ → Bool) :
    (e.filterMeta drop).shape = e.shape ∧ (e.filterMeta drop).sliceDim = e.sliceDim ∧
    (e.filterMeta drop).hasTime = e.hasTime ∧ (e.filterMeta drop).hasVector = e.hasVector :=
  DExt.filterMeta_geometry e drop

/-- filtering keeps a valid extension valid -/
theorem filter_valid (e : DExt κ α) (drop : κ → Bool) (h : e.validB = true) :
    (e.filterMeta drop).validB = true :=
  DExt.filterMeta_validB e drop h

end C14
