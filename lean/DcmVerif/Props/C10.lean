import DcmVerif.Props.Source_classes
import DcmVerif.Props.Source_valid
import DcmVerif.Model.Valid
/-! C10: the validity check accepts exactly the contents that meet the format rules.
The full-strength iff is false of the code (finding F6: the value count is not checked for a varying
classification of multiplicity 1); it is kept visible, refuted by a concrete witness, and the
`_partial` theorem states exactly what the check decides. -/
set_option autoImplicit false
open Cls

namespace C10
open CV

theorem classOk_iff_partial (c : Content) (cls : Cls) :
    classOk c cls = true ↔ RulesClassPartial c cls := by
  unfold classOk RulesClassPartial
  cases hd : c.dict cls with
  | none => simp
  | some d =>
    simp only [Option.some.injEq, exists_eq_left']
    by_cases h0 : mult c.shp cls = 0
    · simp [h0, List.isEmpty_iff]
    · by_cases h1 : 1 < mult c.shp cls
      · simp [h0, h1, List.all_eq_true]
      · simp [h0, h1]

theorem uniqueOk_iff (c : Content) : uniqueOk c = true ↔ Unique c := by
  unfold uniqueOk Unique
  simp only [List.all_eq_true, Bool.or_eq_true, beq_iff_eq, Bool.not_eq_true', List.contains_eq_mem,
    decide_eq_false_iff_not]
  constructor
  · intro h a ha b hb hab k hk
    rcases h a ha b hb with e | e
    · exact absurd e hab
    · exact e k hk
  · intro h a ha b hb
    by_cases e : a = b
    · exact Or.inl e
    · exact Or.inr (fun k hk => h a ha b hb e k hk)

/-- **C10 (what the check decides):** `check_valid` accepts a content iff it meets the rules, the
    count rule being imposed only on classifications of multiplicity > 1. -/
theorem checkValid_iff_rules_partial (c : Content) :
    checkValid c = true ↔ RulesPartial c := by
  unfold checkValid RulesPartial
  simp only [Bool.and_eq_true, List.all_eq_true, classOk_iff_partial, uniqueOk_iff]
  constructor
  · rintro ⟨⟨⟨h1, h2⟩, h3⟩, h4⟩; exact ⟨h1, h2, h3, h4⟩
  · rintro ⟨h1, h2, h3, h4⟩; exact ⟨⟨⟨h1, h2⟩, h3⟩, h4⟩

/-- the full rules imply the partial ones: every content the rules accept is accepted -/
theorem rules_accepted (c : Content) (h : Rules c) : checkValid c = true := by
  rw [checkValid_iff_rules_partial]
  obtain ⟨h1, h2, h3, h4⟩ := h
  refine ⟨h1, h2, ?_, h4⟩
  intro cls hc
  obtain ⟨d, hd, h0, hcount⟩ := h3 cls hc
  refine ⟨d, hd, h0, ?_⟩
  intro h1m k sh hk
  have hne : cls ≠ gconst := by
    intro e; subst e; simp [mult] at h1m
  exact hcount hne (by omega) k sh hk

/-- **every corruption that breaks a (partial) rule is rejected**, whatever else was changed -/
theorem corruption_rejected (c : Content) (h : ¬ RulesPartial c) : checkValid c = false := by
  cases hv : checkValid c with
  | false => rfl
  | true => exact absurd ((checkValid_iff_rules_partial c).mp hv) h

/-- rejected for each rule separately -/
theorem reject_missing_required (c : Content) (h : requiredOk c = false) : checkValid c = false := by
  simp [checkValid, h]
theorem reject_bad_geometry (c : Content) (h : geometryOk c = false) : checkValid c = false := by
  simp [checkValid, h]
theorem reject_missing_class_dict (c : Content) (cls : Cls) (hc : cls ∈ validClasses c.shp)
    (h : c.dict cls = none) : checkValid c = false := by
  apply corruption_rejected
  rintro ⟨_, _, h3, _⟩
  obtain ⟨d, hd, _⟩ := h3 cls hc
  rw [h] at hd; cases hd
theorem reject_wrong_count (c : Content) (cls : Cls) (hc : cls ∈ validClasses c.shp)
    (d : List (String × EShape)) (hd : c.dict cls = some d) (hm : 1 < mult c.shp cls)
    (k : String) (sh : EShape) (hk : (k, sh) ∈ d) (hsh : sh ≠ .sized (mult c.shp cls)) :
    checkValid c = false := by
  apply corruption_rejected
  rintro ⟨_, _, h3, _⟩
  obtain ⟨d', hd', _, hcount⟩ := h3 cls hc
  rw [hd] at hd'; injection hd' with e; subst e
  exact hsh (hcount hm k sh hk)
theorem reject_slice_meta_without_slice_dim (c : Content) (cls : Cls) (hc : cls ∈ validClasses c.shp)
    (d : List (String × EShape)) (hd : c.dict cls = some d) (hm : mult c.shp cls = 0) (hne : d ≠ []) :
    checkValid c = false := by
  apply corruption_rejected
  rintro ⟨_, _, h3, _⟩
  obtain ⟨d', hd', h0, _⟩ := h3 cls hc
  rw [hd] at hd'; injection hd' with e; subst e
  exact hne (h0 hm)
theorem reject_duplicate_key (c : Content) (a b : Cls) (ha : a ∈ validClasses c.shp)
    (hb : b ∈ validClasses c.shp) (hab : a ≠ b) (k : String) (hka : k ∈ keysOf c a)
    (hkb : k ∈ keysOf c b) : checkValid c = false := by
  apply corruption_rejected
  rintro ⟨_, _, _, h4⟩
  exact h4 a ha b hb hab k hka hkb

/-- the full-strength statement of the property -/
def checkValid_iff_rules_full : Prop := ∀ c, checkValid c = true ↔ Rules c

/-- F6: a one-slice 4-D extension whose time-slices key holds four values is accepted although
    the full-strength rules reject it -/
def f6 : Content :=
  { topKeys := ["dcmmeta_affine", "dcmmeta_reorient_transform", "dcmmeta_slice_dim",
                "dcmmeta_shape", "dcmmeta_version", "global", "time"]
    version := some "0.6", affineRows := [4, 4, 4, 4], sliceDim := some 2,
    shape := [2, 2, 1, 3],
    dict := fun cls => match cls with
      | tslices => some [("K", .sized 4)]
      | gconst | gslices | tsamples => some []
      | _ => none }

theorem f6_accepted : checkValid f6 = true := by decide
theorem f6_breaks_rules : ¬ Rules f6 := by
  intro h
  obtain ⟨_, _, hcls, _⟩ := h
  obtain ⟨d, hd, _, hcount⟩ := hcls tslices (by decide)
  have hd' : d = [("K", .sized 4)] := by
    have : f6.dict tslices = some [("K", .sized 4)] := rfl
    rw [this] at hd; injection hd with hd; exact hd.symm
  subst hd'
  have := hcount (by decide) (by decide) "K" (.sized 4) (by simp)
  have hm : mult f6.shp tslices = 1 := by decide
  rw [hm] at this
  exact absurd this (by decide)
/-- the full-strength iff is false of `check_valid` as it stands (finding F6) -/
theorem checkValid_not_iff_rules_full : ¬ checkValid_iff_rules_full :=
  fun h => f6_breaks_rules ((h f6).mp f6_accepted)

/-- outside multiplicity-1 varying classes the full iff holds -/
theorem checkValid_iff_rules_of_no_unit_class (c : Content)
    (hno : ∀ cls ∈ validClasses c.shp, cls ≠ gconst → mult c.shp cls ≠ 1) :
    checkValid c = true ↔ Rules c := by
  constructor
  · intro h
    obtain ⟨h1, h2, h3, h4⟩ := (checkValid_iff_rules_partial c).mp h
    refine ⟨h1, h2, ?_, h4⟩
    intro cls hc
    obtain ⟨d, hd, h0, hcount⟩ := h3 cls hc
    refine ⟨d, hd, h0, ?_⟩
    intro hne hm0 k sh hk
    have := hno cls hc hne
    exact hcount (by omega) k sh hk
  · exact rules_accepted c

/-- non-vacuity: a valid 5-D content with keys in three classifications meets the full rules -/
def good : Content :=
  { topKeys := ["dcmmeta_affine", "dcmmeta_reorient_transform", "dcmmeta_slice_dim",
                "dcmmeta_shape", "dcmmeta_version", "global", "time", "vector"]
    version := some "0.6", affineRows := [4, 4, 4, 4], sliceDim := some 2,
    shape := [2, 2, 3, 2, 2],
    dict := fun cls => match cls with
      | gconst => some [("A", .scalar)]
      | tslices => some [("K", .sized 3)]
      | vsamples => some [("V", .sized 2)]
      | _ => some [] }
example : checkValid good = true := by decide
example : ∀ cls ∈ validClasses good.shp, cls ≠ gconst → mult good.shp cls ≠ 1 := by decide

end C10
