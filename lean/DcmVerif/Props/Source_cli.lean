import DcmVerif.Proofs.Code_cli
/-! The tie by proof (dcmstack_cli.py: the naming of output files in main): functions translated from the Python source on every run
(`tools/gen_code.py` → `Generated/Code_cli.lean`) are the model functions the property theorems speak about.
Statements only; proofs are by reference to `Proofs/Code_cli.lean`. One file per function group, so that an edit
of one function only unsettles the properties that depend on it. -/
set_option autoImplicit false
set_option linter.unusedVariables false
open Cls

namespace Source
variable {α κ : Type}
open Src Cli

/-- **the naming of an output file in `dcmstack_cli.main`, as written, is the step of the model's `outNames`**: whenever the model
    yields a name the code yields that name, records it and advances the group counter -/
theorem cli_out_name_is_model (fmt : Nat → String) (gen : List String) (n : String) (idx : Nat) (c : String)
    (h : chosenName fmt gen n idx = some c) :
    Py.cli_out_name fmt gen n idx = .ok (c, c :: gen, idx + 1) :=
  Src.cli_out_name_eq fmt gen n idx c h

/-- the translator translated every function of this group (dcmstack_cli.py: the naming of output files in main) -/
theorem translator_complete_cli : Gen.codeMissing_cli = [] := rfl

end Source
