import DcmVerif.Proofs.Stack
/-! Property theorems for C01_stack. Statements only; proofs are by reference to `Proofs/`. -/
set_option autoImplicit false

namespace C01
variable {α : Type}
open Stk

/-- **metadata follows data (C01, C20):** the volume block `t + T·v`, position `k` of the order
    used for embedded metadata and slice times after a slice-flipping conversion is the file whose
    pixels `get_data` put at slice `S − 1 − k` — the slice that the flip moves to output slice `k`. -/
theorem meta_follows_flipped_data (S T V : Nat) (L : List F) (hlen : L.length = S * (T * V))
    (k t v : Nat) (hk : k < S) (ht : t < T) (hv : v < V) :
    (reverseBlocks S (T * V) L)[(t + T * v) * S + k]? = L[fileIdx S T (S - 1 - k) t v]? :=
  Stk.meta_follows_flipped_data S T V L hlen k t v hk ht hv

/-- `get_data` places slice `s`, time `t`, vector `v` from file number `fileIdx`; the index is in
    range and distinct cells get distinct files (so every file fills exactly one cell) -/
theorem fill_index_in_range (S T V s t v : Nat) (hs : s < S) (ht : t < T) (hv : v < V) :
    fileIdx S T s t v < S * T * V :=
  Stk.fileIdx_lt S T V s t v hs ht hv

theorem fill_index_injective (S T s t v s' t' v' : Nat) (hs : s < S) (ht : t < T) (hs' : s' < S)
    (ht' : t' < T) (h : fileIdx S T s t v = fileIdx S T s' t' v') : s = s' ∧ t = t' ∧ v = v' :=
  Stk.fileIdx_inj S T s t v s' t' v' hs ht hs' ht' h

end C01
