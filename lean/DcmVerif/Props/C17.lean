import DcmVerif.Props.Source_orient
import DcmVerif.Proofs.Orient
/-! Property theorems for C17. Statements only; proofs are by reference to `Proofs/`. -/
set_option autoImplicit false

namespace C17

open Orient

/-- **C17, code validity, for every string:** the voxel_order check passes iff the upper-cased
    string is one of the 48 codes (a permutation of one letter per anatomical axis) -/
theorem code_valid_iff (s : List Char) : checkCode s = true ↔ s.map upperC ∈ codes48 :=
  Orient.checkCode_iff s

theorem transform_reaches_code (s e : Ornt) (hs : s ∈ all48) (he : e ∈ all48) :
    ∃ t, orntTransform s e = some t ∧ applyTo s t = e :=
  Orient.transform_reaches_code s e hs he

/-- **C17, voxel / transform identity:** for each of the 48 transforms, every shape and every output
    index in range, the returned matrix maps the output index to the input index whose voxel
    `apply_orientation` put there, and that index is in range. -/
theorem reorder_voxel_transform (t : List (Nat × Bool)) (ht : t ∈ allT) (a b c x y z : Nat)
    (hx : x < (outShape t [a, b, c]).getD 0 0) (hy : y < (outShape t [a, b, c]).getD 1 0)
    (hz : z < (outShape t [a, b, c]).getD 2 0) :
    matVec (invOrntAff t [a, b, c]) [x, y, z] = (srcIndex t [a, b, c] [x, y, z]).map Int.ofNat ∧
    (srcIndex t [a, b, c] [x, y, z]).getD 0 0 < a ∧
    (srcIndex t [a, b, c] [x, y, z]).getD 1 0 < b ∧
    (srcIndex t [a, b, c] [x, y, z]).getD 2 0 < c :=
  Orient.matVec_eq_srcIndex t ht a b c x y z hx hy hz

/-- the output shape is the permuted input shape -/
theorem reorder_shape_perm (t : List (Nat × Bool)) (ht : t ∈ allT) (a b c : Nat) :
    (outShape t [a, b, c]).Perm [a, b, c] :=
  Orient.outShape_perm t ht a b c

/-- the orientation `io_orientation` reads from `affine · T` is the start orientation pushed
    through the transform -/
theorem reorder_affine_orientation (cols : List Col) (t : List (Nat × Bool)) :
    ioOrientation (mulCols cols t) = applyTo (ioOrientation cols) t :=
  Orient.ioOrientation_mulCols cols t

/-- **C17, decision logic:** a valid code, an array of ≥ 3 dimensions, a 4×4 axis-aligned affine ⇒
    `reorder_voxels` succeeds, and the closest anatomical directions of the output axes spell the
    requested code -/
theorem reorder_spells_code (nd : Nat) (cols : List Col) (code : List Char)
    (hnd : 3 ≤ nd) (hcols : ioOrientation cols ∈ all48) (hcode : checkCode code = true) :
    ∃ t newO, reorder nd true cols code = .ok t ∧
      axcodes2ornt (code.map upperC) = some newO ∧
      ioOrientation (mulCols cols t) = newO :=
  Orient.reorder_spells_code nd cols code hnd hcols hcode

/-- **C17, refusals:** an invalid code, an array under 3-D or a non-4×4 affine raise ValueError -/
theorem reorder_refuses (nd : Nat) (affOk : Bool) (cols : List Col) (code : List Char)
    (h : code.map upperC ∉ codes48 ∨ nd < 3 ∨ affOk = false) :
    reorder nd affOk cols code = .valueError :=
  Orient.reorder_refuses nd affOk cols code h

end C17
