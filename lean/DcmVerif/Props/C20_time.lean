import DcmVerif.Proofs.TimeGeneral
/-! Property theorems for C20_time. Statements only; proofs are by reference to `Proofs/`. -/
set_option autoImplicit false

namespace C20
variable {α : Type}
open Tm Phx

/-- **colons are ignored:** a TM string and the same string with its colons removed convert alike,
    wherever the colons are -/
theorem tm_colons_ignored (s : Str) : toSec s = toSec (dropColons s) :=
  Tm.toSec_colons s

theorem tm_same_digits (s₁ s₂ : Str) (h : dropColons s₁ = dropColons s₂) : toSec s₁ = toSec s₂ :=
  Tm.toSec_same_digits s₁ s₂ h

/-- kernel-evaluated instances over every TM shape of the property: 2, 4, 6 digits, fraction of
    1–6 digits, with and without colons: `hh·3600 + mm·60 + ss.ffffff` -/
theorem tm_instances :
    (toSec "07".toList).micros = some (7 * 3600 * 1000000) ∧
    (toSec "0730".toList).micros = some ((7 * 3600 + 30 * 60) * 1000000) ∧
    (toSec "073015".toList).micros = some ((7 * 3600 + 30 * 60 + 15) * 1000000) ∧
    (toSec "073015.5".toList).micros = some ((7 * 3600 + 30 * 60 + 15) * 1000000 + 500000) ∧
    (toSec "235959.999999".toList).micros = some ((23 * 3600 + 59 * 60 + 59) * 1000000 + 999999) ∧
    (toSec "07:30:15.250000".toList).micros = some ((7 * 3600 + 30 * 60 + 15) * 1000000 + 250000) ∧
    (toSec "07:30".toList).micros = some ((7 * 3600 + 30 * 60) * 1000000) ∧
    (toSec "000000.000001".toList).micros = some 1 ∧
    (toSec "120000".toList).micros = some (12 * 3600 * 1000000) :=
  Tm.tm_instances 

/-- malformed TM strings raise ValueError -/
theorem tm_malformed :
    toSec "".toList = .valueError ∧ toSec "ab".toList = .valueError ∧
    toSec "12x4".toList = .valueError ∧ toSec "1234yy".toList = .valueError :=
  Tm.tm_malformed 

/-- hours only: any two digits -/
theorem tm_two_digits (a b : Nat) (ha : a < 10) (hb : b < 10) :
    toSec [Char.ofNat (48 + a), Char.ofNat (48 + b)] = .ok ((10 * a + b : Nat) * 3600) none :=
  Tm.two_digits a b ha hb

/-- hours and minutes: any four digits -/
theorem tm_four_digits (a b c d : Nat) (ha : a < 10) (hb : b < 10) (hc : c < 10) (hd : d < 10) :
    toSec [Char.ofNat (48 + a), Char.ofNat (48 + b), Char.ofNat (48 + c), Char.ofNat (48 + d)] =
      .ok ((10 * a + b : Nat) * 3600 + (10 * c + d : Nat) * 60) none :=
  Tm.four_digits a b c d ha hb hc hd

/-- the two Python implementations are the same function: their ASTs are equal modulo docstring
    (computed from the current source by the translator) -/
theorem time_fns_identical : Gen.timeFnBodiesIdentical = true :=
  Tm.time_fns_identical 

/-- **`hhmmss` and `hhmmss.f…` for any number of second and fraction digits:** whole seconds from
    the two leading pairs of digits, the rest the exact decimal `digits(ss ++ ff) / 10^|ff|`
    (with `tm_colons_ignored`, also for the colon-separated spellings) -/
theorem tm_six_plus (h1 h2 m1 m2 : Char) (ss ff : Str)
    (d1 : isDigit h1 = true) (d2 : isDigit h2 = true) (d3 : isDigit m1 = true) (d4 : isDigit m2 = true)
    (hss : ∀ c ∈ ss, isDigit c = true) (hne : ss ≠ []) (hff : ∀ c ∈ ff, isDigit c = true) :
    toSec (h1 :: h2 :: m1 :: m2 :: (ss ++ '.' :: ff)) =
      .ok (((digitVal h1 * 10 + digitVal h2 : Nat) : Int) * 3600 +
           ((digitVal m1 * 10 + digitVal m2 : Nat) : Int) * 60)
          (some ⟨false, digitsVal 0 (ss ++ ff), ff.length⟩) ∧
    toSec (h1 :: h2 :: m1 :: m2 :: ss) =
      .ok (((digitVal h1 * 10 + digitVal h2 : Nat) : Int) * 3600 +
           ((digitVal m1 * 10 + digitVal m2 : Nat) : Int) * 60)
          (some ⟨false, digitsVal 0 ss, 0⟩) :=
  Tm.six_plus h1 h2 m1 m2 ss ff d1 d2 d3 d4 hss hne hff

end C20
