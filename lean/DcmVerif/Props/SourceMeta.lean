import DcmVerif.Proofs.CodeMeta
/-! The tie by proof (dcmmeta.py): functions translated from the Python source on every run
(`tools/gen_code.py` → `Generated/Code.lean`) are the model functions the property theorems speak about.
Statements only; proofs are by reference to `Proofs/CodeMeta.lean`. -/
set_option autoImplicit false
set_option linter.unusedVariables false
open Cls

namespace Source
variable {α κ : Type}
open Src Stk

/-- **`get_valid_classes` as written in dcmmeta.py is the model's `validClasses`** (3 to 5 axes) … -/
theorem get_valid_classes_is_model (e : DExt κ α) (sdArg : Option Nat) (h3 : 3 ≤ e.shape.length)
    (h5 : e.shape.length ≤ 5) :
    Py.get_valid_classes e.shape = .ok (validClasses (e.shp sdArg)) :=
  Src.get_valid_classes_eq e sdArg h3 h5

/-- … and raises ValueError for any other number of axes -/
theorem get_valid_classes_refuses (shape : List Nat) (h : ¬ (3 ≤ shape.length ∧ shape.length ≤ 5)) :
    Py.get_valid_classes shape = .error PyErr.valueError :=
  Src.get_valid_classes_refuses shape h

/-- **`get_multiplicity` as written in dcmmeta.py is the model's `mult`** for every classification
    valid for the shape (`n_slices` is `shape[slice_dim]`, or None without slice dimension) … -/
theorem get_multiplicity_is_model (e : DExt κ α) (h3 : 3 ≤ e.shape.length) (h5 : e.shape.length ≤ 5)
    (c : Cls) (hv : c ∈ validClasses e.shp) :
    Py.get_multiplicity e.shape (e.sliceDim.map fun d => e.shape.getD d 1) c = .ok (mult e.shp c) :=
  Src.get_multiplicity_eq e h3 h5 c hv

theorem get_meta_index_is_model (shape idx : List Nat) (sd : Nat) (al : Bool) (e : ExtGeom) (cl : Cls) (vals : List α)
    (h3 : 3 ≤ shape.length) (h5 : shape.length ≤ 5) (hsd3 : sd < 3) (hc : cl ≠ gconst)
    (hvalid : metaValid e ⟨shape, some sd, al⟩ cl = true) :
    toGetOut (Py.get_meta_index shape sd cl vals idx) =
      getMeta e ⟨shape, some sd, al⟩ (some (cl, vals)) (some idx) :=
  Src.get_meta_index_eq shape idx sd al e cl vals h3 h5 hsd3 hc hvalid

/-- **`is_constant` as written in dcmmeta.py is the model's `pyIsConstant`** (guards and result), for
    every list and period -/
theorem is_constant_is_model [DecidableEq α] (l : List α) (p : Option Nat) :
    Py.is_constant l p = errOf (pyIsConstant l p) :=
  Src.is_constant_eq l p

/-- **`is_repeating` as written in dcmmeta.py is the model's `pyIsRepeating`** -/
theorem is_repeating_is_model [DecidableEq α] (l : List α) (p : Nat) :
    Py.is_repeating l p = errOf (pyIsRepeating l p) :=
  Src.is_repeating_eq l p

/-- **`_get_const_period` as written in dcmmeta.py is the model's `constPeriod`** on every entry of
    the `_const_tests` table whose classes are valid for the shape -/
theorem get_const_period_is_model (e : DExt κ α) (h3 : 3 ≤ e.shape.length) (h5 : e.shape.length ≤ 5)
    (hsl : e.sliceDim.isSome = true) (src dest : Cls) (hs : src ∈ validClasses e.shp)
    (hd : dest ∈ validClasses e.shp) (htab : dest ∈ constTests src) :
    Py.get_const_period e.shape (e.sliceDim.map fun d => e.shape.getD d 1) src dest =
      .ok (constPeriod e.shp src dest) :=
  Src.get_const_period_eq e h3 h5 hsl src dest hs hd htab

/-- **`meta_valid` as written in dcmmeta.py is the model's `metaValid`** (the header reads and the
    comparison of the slice directions are the same parameters on both sides); slice dims in range,
    and a fourth axis on both sides where `('vector', 'slices')` reads it -/
theorem meta_valid_is_model (e : ExtGeom) (img : Img) (c : Cls)
    (hisd : ∀ d, img.sliceDim = some d → d < img.shape.length)
    (hesd : ∀ d, e.sliceDim = some d → d < e.shape.length)
    (h4 : c = vslices → 3 < e.shape.length ∧ 3 < img.shape.length) :
    Py.meta_valid img.shape e.shape img.sliceDim (e.sliceDim.map fun d => e.shape[d]!) img.aligned c =
      .ok (metaValid e img c) :=
  Src.meta_valid_eq e img c hisd hesd h4

/-- **`check_valid` as written in dcmmeta.py is the model's `checkValid`** over the abstraction
    `CV.Content` of the content dictionary: it returns iff the model accepts and raises
    InvalidExtensionError otherwise -/
theorem check_valid_is_model (c : CV.Content) :
    Py.check_valid c = if CV.checkValid c then .ok () else .error PyErr.invalidExtension :=
  Src.check_valid_eq c

/-- **the result shape computed by `get_subset` as written in dcmmeta.py is the model's `subsetShape`**
    (split axis singular, trailing singular axes beyond the third removed) for every shape and axis; the
    bounded rendering of the `while` loop never runs out of rounds -/
theorem subset_shape_is_model (shape : List Nat) (dim : Nat) :
    Py.subset_shape shape dim = .ok (DExt.subsetShape shape dim) :=
  Src.subset_shape_eq shape dim

/-- **the result shape computed by `from_sequence` as written in dcmmeta.py is the model's `outShapeOf`** -/
theorem merge_shape_is_model {κ α : Type} (first : DExt κ α) (dim n : Nat) :
    Py.merge_shape first.shape dim n = .ok (DExt.outShapeOf first dim n) :=
  Src.merge_shape_eq first dim n

/-- the translator translated every function of dcmmeta.py it is asked for -/
theorem translator_complete_meta : Gen.codeMissingMeta = [] := rfl

end Source
