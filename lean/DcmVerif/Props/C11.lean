import DcmVerif.Props.Source_stackadd
import DcmVerif.Props.Source_stack
import DcmVerif.Props.C11_add
import DcmVerif.Proofs.Grid
import DcmVerif.Proofs.Guess
import DcmVerif.Props.C11_complete
/-! Property theorems for C11. Statements only; proofs are by reference to `Proofs/`. -/
set_option autoImplicit false

namespace C11

open Stk

theorem getShape_ok_iff (spacingOk : List Int → Bool) (files : List F) (S T V : Nat) :
    getShape spacingOk files = .ok S T V ↔ Accepts spacingOk files S T V :=
  Stk.getShape_ok_iff spacingOk files S T V

/-- **C11 (count):** an accepted stack has exactly S·T·V files -/
theorem accept_count (spacingOk : List Int → Bool) (files : List F) (S T V : Nat)
    (h : getShape spacingOk files = .ok S T V) : files.length = S * T * V :=
  Stk.accept_count spacingOk files S T V h

/-- **C11 (every volume holds each distinct slice position exactly once, in spatial order):**
    each consecutive block of S files of the accepted order lists exactly the sorted distinct
    positions -/
theorem accept_positions (spacingOk : List Int → Bool) (files : List F) (S T V : Nat)
    (h : getShape spacingOk files = .ok S T V) :
    ∀ b ∈ chunks S (files.length / S) (chkSort S (files.length / S) files),
      b.map (·.p) = distinctSorted (files.map (·.p)) :=
  Stk.accept_positions spacingOk files S T V h

/-- **C11 (each vector value occupies whole blocks of T·S files)** -/
theorem accept_vector_blocks (spacingOk : List Int → Bool) (files : List F) (S T V : Nat)
    (h : getShape spacingOk files = .ok S T V) :
    ∀ b ∈ chunks (T * S) V (chkSort S (files.length / S) files), allSameV b = true :=
  Stk.accept_vector_blocks spacingOk files S T V h

/-- **C11 (evenly spaced):** with more than one position the spacing test passed -/
theorem accept_spacing (spacingOk : List Int → Bool) (files : List F) (S T V : Nat)
    (h : getShape spacingOk files = .ok S T V) (hS : S > 1) :
    spacingOk (distinctSorted (files.map (·.p))) = true :=
  Stk.accept_spacing spacingOk files S T V h hS

theorem refuse_empty (spacingOk : List Int → Bool) : getShape spacingOk [] = .invalid :=
  Stk.refuse_empty spacingOk

/-- the file count does not factor by the number of distinct positions ⇒ InvalidStackError -/
theorem refuse_not_factoring (spacingOk : List Int → Bool) (files : List F)
    (h : files.length % (distinctSorted (files.map (·.p))).length ≠ 0) :
    getShape spacingOk files = .invalid :=
  Stk.refuse_not_factoring spacingOk files h

/-- unevenly spaced positions ⇒ InvalidStackError -/
theorem refuse_spacing (spacingOk : List Int → Bool) (files : List F)
    (h1 : (distinctSorted (files.map (·.p))).length > 1)
    (h : spacingOk (distinctSorted (files.map (·.p))) = false) :
    getShape spacingOk files = .invalid :=
  Stk.refuse_spacing spacingOk files h1 h

/-- vector values unevenly represented (volume count not a multiple of the number of vector
    values, or more vector values than volumes) ⇒ InvalidStackError -/
theorem refuse_vector_count (spacingOk : List Int → Bool) (files : List F)
    (h : files.length / (distinctSorted (files.map (·.p))).length %
           (distinctSorted (files.map (·.v))).length ≠ 0 ∨
         (distinctSorted (files.map (·.v))).length >
           files.length / (distinctSorted (files.map (·.p))).length) :
    getShape spacingOk files = .invalid :=
  Stk.refuse_vector_count spacingOk files h

/-- a volume that lacks a position or holds one twice ⇒ InvalidStackError -/
theorem refuse_bad_volume (spacingOk : List Int → Bool) (files : List F)
    (b : List F)
    (hb : b ∈ chunks (distinctSorted (files.map (·.p))).length
            (files.length / (distinctSorted (files.map (·.p))).length)
            (chkSort (distinctSorted (files.map (·.p))).length
              (files.length / (distinctSorted (files.map (·.p))).length) files))
    (hbad : b.map (·.p) ≠ distinctSorted (files.map (·.p))) :
    getShape spacingOk files = .invalid :=
  Stk.refuse_bad_volume spacingOk files b hb hbad

theorem f13_accepted : getShape (fun _ => true) f13 = .ok 2 2 1 :=
  Stk.f13_accepted 

theorem f13_mixes_time : ¬ VolumesHaveOneTime f13 2 :=
  Stk.f13_mixes_time 

theorem accept_does_not_imply_one_time :
    ¬ (∀ files S T V, getShape (fun _ => true) files = .ok S T V → VolumesHaveOneTime files S) :=
  Stk.accept_does_not_imply_one_time 

/-! ### guessed ordering (`Proofs/Guess.lean`) -/

/-- **a guessed ordering is a real one:** when `get_shape` succeeds without ordering keys, the key
    it picked is present in every file, has as many distinct values as there are volumes or files,
    and with it as time ordinate the files pass every check of the explicit case -/
theorem guess_ok_accepts (spacingOk : List Int → Bool) (nCands : Nat) (files : List GF)
    (S T V k : Nat) (h : guessShape spacingOk nCands files = (.ok S T V, some k)) :
    k ∈ possibleOrders files nCands ((files.map (·.f)).length / dimS (files.map (·.f))) ∧
    getShape spacingOk (retime files k) = .ok S T V :=
  Stk.guess_ok_accepts spacingOk nCands files S T V k h

/-- … and it is the first key of `sort_guesses` under which the stack is a complete grid -/
theorem guess_first (spacingOk : List Int → Bool) (nCands : Nat) (files : List GF)
    (S T V k : Nat) (h : guessShape spacingOk nCands files = (.ok S T V, some k)) :
    ∃ pre post, possibleOrders files nCands ((files.map (·.f)).length / dimS (files.map (·.f))) =
        pre ++ k :: post ∧
      ∀ k' ∈ pre, acceptB spacingOk (retime files k') = false :=
  Stk.guess_first spacingOk nCands files S T V k h

/-- more than one volume and no candidate key makes the files a complete grid: refused -/
theorem guess_refuses (spacingOk : List Int → Bool) (nCands : Nat) (files : List GF)
    (hn : (files.map (·.f)).length ≠ 0) (hs : dimS (files.map (·.f)) ≠ 0)
    (hv : 1 < (files.map (·.f)).length / dimS (files.map (·.f)))
    (hnone : ∀ k ∈ possibleOrders files nCands ((files.map (·.f)).length / dimS (files.map (·.f))),
      acceptB spacingOk (retime files k) = false) :
    guessShape spacingOk nCands files = (.invalid, none) :=
  Stk.guess_refuses spacingOk nCands files hn hs hv hnone

/-- a single volume needs no key -/
theorem guess_single_volume (spacingOk : List Int → Bool) (nCands : Nat) (files : List GF)
    (h : (files.map (·.f)).length / dimS (files.map (·.f)) ≤ 1) :
    guessShape spacingOk nCands files = (getShape spacingOk (files.map (·.f)), none) :=
  Stk.guess_single_volume spacingOk nCands files h

end C11
