import DcmVerif.Props.Source_classes
import DcmVerif.Props.Source_simplify
import DcmVerif.Props.Source_shapes
import DcmVerif.Props.Source_dicts
import DcmVerif.Props.Source_values
import DcmVerif.Props.Source_insert
import DcmVerif.Props.Source_content
import DcmVerif.Props.Source_insertall
import DcmVerif.Proofs.Key
import DcmVerif.Props.C13_ext
/-! Property theorems for C13. Statements only; proofs are by reference to `Proofs/`. -/
set_option autoImplicit false
open Cls

namespace C13
variable {α : Type} [DecidableEq α] {κ : Type} [DecidableEq κ]

/-- frame: writing key `k` does not change what any other key reads -/
theorem putKey_other (e : Ext κ α) (k k' : κ) (ks : KeyState α) (hne : k' ≠ k) :
    (e.putKey k ks).key k' = e.key k' :=
  _root_.Ext.key_putKey_other e k k' ks hne

/-- writing a key state in a valid class and reading it back -/
theorem putKey_self (e : Ext κ α) (k : κ) (ks : KeyState α)
    (hv : ∀ c v, ks = some (c, v) → c ∈ validClasses e.sh) :
    (e.putKey k ks).key k = ks :=
  _root_.Ext.key_putKey_self e k ks hv

/-- **Keys are independent (C13):** running a per-key update over a duplicate-free list of keys
    changes exactly those keys, each by its own update applied to its own old state. -/
theorem foldl_putKey_key (f : κ → KeyState α → KeyState α) (ks : List κ) (hnd : ks.Nodup) :
    ∀ (e : Ext κ α),
      (∀ k st c v, f k st = some (c, v) → c ∈ validClasses e.sh) →
      ∀ k, ((ks.foldl (fun e k => e.putKey k (f k (e.key k))) e).key k)
        = if k ∈ ks then f k (e.key k) else e.key k :=
  _root_.Ext.foldl_putKey_key f ks hnd

/-- **C13 for merges:** what the result says about a key depends only on that key's entries in
    the two inputs (and on the shape), not on any other key. -/
theorem insertWith_key (step : KeyState α → KeyState α → KeyState α) (self other : Ext κ α)
    (hstep : ∀ a b c v, step a b = some (c, v) → c ∈ validClasses self.sh) (k : κ) :
    (Ext.insertWith step self other).key k =
      if k ∈ (other.keys ++ self.keys).eraseDups then step (self.key k) (other.key k)
      else self.key k :=
  _root_.Ext.insertWith_key step self other hstep k

/-- **C14:** the filter removes exactly the keys it is told to — whatever their classification —
    and leaves every other key as it was. -/
theorem filterMeta_key (e : Ext κ α) (drop : κ → Bool) (k : κ) :
    (e.filterMeta drop).key k = if drop k then none else e.key k :=
  _root_.Ext.key_filterMeta e drop k

end C13
