import DcmVerif.Props.Source_stackadd
import DcmVerif.Props.Source_stack
import DcmVerif.Props.C12_add
import DcmVerif.Proofs.Stack
/-! Property theorems for C12. Statements only; proofs are by reference to `Proofs/`. -/
set_option autoImplicit false

namespace C12
variable {α : Type}
open Stk

theorem sort_perm_invariant (l₁ l₂ : List F) (h : l₁.Perm l₂) (hd : DistinctKeys l₁) :
    isort lexLE l₁ = isort lexLE l₂ :=
  Stk.isort_lex_perm_invariant l₁ l₂ h hd

/-- **C12 core:** the canonical order `_chk_order` establishes depends only on the set of files,
    not on the order in which they were added or left by earlier calls -/
theorem chkSort_perm_invariant (S vols : Nat) (l₁ l₂ : List F) (h : l₁.Perm l₂)
    (hd : DistinctKeys l₁) : chkSort S vols l₁ = chkSort S vols l₂ :=
  Stk.chkSort_perm_invariant S vols l₁ l₂ h hd

theorem step_spec (S vols : Nat) (M : List F) (hd : DistinctKeys M) (hlen : M.length = S * vols)
    (st : St) (h : Inv S vols M st) (op : Op) :
    (step S vols st op).2 = outOf S vols M op ∧ Inv S vols M (step S vols st op).1 :=
  Stk.step_spec S vols M hd hlen st h op

theorem run_inv (S vols : Nat) (M : List F) (hd : DistinctKeys M) (hlen : M.length = S * vols)
    (ops : List Op) (st : St) (h : Inv S vols M st) : Inv S vols M (run S vols st ops) :=
  Stk.run_inv S vols M hd hlen ops st h

/-- **C12:** after any history of queries and conversions, on a stack whose files were added in
    any order, a call's output is built from a file order that depends only on the file set and
    the call's arguments. -/
theorem history_independent (S vols : Nat) (M : List F) (hd : DistinctKeys M)
    (hlen : M.length = S * vols) (added : List F) (hperm : added.Perm M)
    (history : List Op) (op : Op) :
    (step S vols (run S vols { files := added, dirty := true } history) op).2 = outOf S vols M op :=
  Stk.history_independent S vols M hd hlen added hperm history op

/-- reversing twice restores the order -/
theorem reverse_involutive (S vols : Nat) (l : List α) (hlen : l.length = S * vols) :
    reverseBlocks S vols (reverseBlocks S vols l) = l :=
  Stk.reverseBlocks_involutive S vols l hlen

end C12
