import DcmVerif.Proofs.Wrap
/-! Property theorems for C02 at wrapper level (voxel data, affines). Statements only; proofs are by reference to `Proofs/Wrap.lean`. -/
set_option autoImplicit false

namespace C02
variable {α : Type}
open Wrap

/-- **every output voxel holds the pixel of the file `get_data` assigns to its slice / time /
    vector position** (5-D fill, before trimming) -/
theorem stack_fill (files : List (Arr α)) (blank : α) (rows cols S T V : Nat)
    (i j s t v : Nat) (f : Arr α) (hf : files[v * (T * S) + t * S + s]? = some f) :
    (stackFill files blank rows cols S T V).el [i, j, s, t, v] = f.el [i, j, 0] :=
  Wrap.stackFill_el files blank rows cols S T V i j s t v f hf

/-- trimming unused time / vector axes keeps every voxel -/
theorem stack_data_trim (files : List (Arr α)) (blank : α) (rows cols S T V : Nat)
    (i j s t v : Nat) (f : Arr α) (hf : files[v * (T * S) + t * S + s]? = some f)
    (ht : t < T) (hv : v < V) :
    ((stackData files blank rows cols S T V).shape =
      if V = 1 then (if T = 1 then [rows, cols, S] else [rows, cols, S, T])
      else [rows, cols, S, T, V]) ∧
    (stackData files blank rows cols S T V).el
        (if V = 1 then (if T = 1 then [i, j, s] else [i, j, s, t]) else [i, j, s, t, v]) =
      f.el [i, j, 0] :=
  Wrap.stackData_el files blank rows cols S T V i j s t v f hf ht hv

/-- **the stack affine sends slice index `s` to where file `s` of the first volume lies**: files
    of the first volume at positions `p0 + s·step`, all with the first file's in-plane axes -/
theorem stack_affine (a b : Aff) (rest : List Aff) (S : Nat) (hS : 1 < S)
    (s : Nat) (f : Aff) (_hf : (a :: b :: rest)[s]? = some f)
    (hc0 : f.c0 = a.c0) (hc1 : f.c1 = a.c1)
    (ht : f.t = a.t.add (V3.smul (s : Int) (b.t.sub a.t))) (x y : Int) :
    ∃ R, stackAff (a :: b :: rest) S = some R ∧ R.apply x y (s : Int) = f.apply x y 0 :=
  Wrap.stackAff_consistent a b rest S hS s f _hf hc0 hc1 ht x y

end C02
