import DcmVerif.Props.Source_dicts
import DcmVerif.Props.Source_classes
import DcmVerif.Props.Source_simplify
import DcmVerif.Props.Source_shapes
import DcmVerif.Props.Source_valid
import DcmVerif.Proofs.Chains
import DcmVerif.Proofs.Produced
import DcmVerif.Proofs.Ext
/-! Property theorems for C07. Statements only; proofs are by reference to `Proofs/`. -/
set_option autoImplicit false
open Cls

namespace C07
variable {α : Type} [DecidableEq α]

theorem merge_valid_slice (null : α) (sh1 : Shp) (hc1 : Consistent sh1)
    (inputs : List (KeyState α)) (hin : ∀ b, b ∈ inputs → ValidK { sh1 with S := 1 } b)
    (r : KeyState α) (h : mergeSliceK null sh1 inputs = .ok r) :
    ValidK { sh1 with S := inputs.length } r :=
  _root_.mergeSlice_valid null sh1 hc1 inputs hin r h

theorem merge_valid_time (null : α) (sh1 osh : Shp)
    (hS : 0 < sh1.S) (hsl : sh1.hasSlice = true) (nd4 : sh1.nd = 4) (v1 : sh1.V = 1)
    (hvec : sh1.hasVector = false)
    (ond : osh.nd = 3) (oS : osh.S = sh1.S) (oT : osh.T = 1) (oV : osh.V = 1)
    (ohsl : osh.hasSlice = true)
    (inputs : List (KeyState α)) (hin : ∀ b, b ∈ inputs → ValidK osh b)
    (r : KeyState α) (h : mergeTimeK null sh1 osh inputs = .ok r) :
    ValidK { sh1 with T := inputs.length } r :=
  _root_.mergeTime_valid null sh1 osh hS hsl nd4 v1 hvec ond oS oT oV ohsl inputs hin r h

/-- `_simplify` stores the right number of values under a class that is valid for the shape -/
theorem simplify_valid (null : α) (sh : Shp) (wf : WF sh) (hsl : sh.hasSlice = true)
    (hbase : ∀ d, basePresent sh d = true → d ∈ validClasses sh)
    (c : Cls) (vals : List α) (hlen : vals.length = mult sh c) (d : Cls) (out : List α)
    (h : simplifyK null sh c vals = .ok (.moved d out))
    (hbug : ¬ (c = vslices ∧ d = tsamples ∧ 1 < sh.V)) :
    d ∈ validClasses sh ∧ out.length = mult sh d :=
  _root_.simplify_valid null sh wf hsl hbase c vals hlen d out h hbug

/-- **C04 (slice axis, per key):** the piece is valid for the one-slice shape, reads the parent at
    the fixed slice, and never stores the key per slice. -/
theorem subset_slice_valid (null : α) (sh : Shp) (hc : Consistent sh)
    (ks : KeyState α) (hv : ValidK sh ks) (idx : Nat) (hidx : idx < sh.S)
    (p : KeyState α) (h : subsetSliceK null sh ks idx = .ok p) :
    ValidK { sh with S := 1 } p ∧ nonSliceClass p ∧
    ∀ t v, t < sh.T → v < sh.V →
      lookupKS null { sh with S := 1 } p 0 t v = lookupKS null sh ks idx t v :=
  _root_.subsetSlice_spec null sh hc ks hv idx hidx p h

/-- **C04 (time axis, 4-D parent, per key):** the piece is a valid 3-D key state that reads the
    parent at the fixed time point. -/
theorem subset_time_valid (null : α) (sh : Shp) (hc : Consistent sh) (h4 : sh.nd = 4)
    (ks : KeyState α) (hv : ValidK sh ks) (idx : Nat) (hidx : idx < sh.T)
    (p : KeyState α) (h : subsetTimeK null sh ks idx = .ok p) :
    ValidK (timeSubsetShp sh) p ∧
    ∀ s, s < sh.S → lookupKS null (timeSubsetShp sh) p s 0 0 = lookupKS null sh ks s idx 0 :=
  _root_.subsetTime_spec4 null sh hc h4 ks hv idx hidx p h

/-- **C04 (vector axis, 5-D parent, per key)** -/
theorem subset_vector_valid (null : α) (sh : Shp) (hc : Consistent sh) (h5 : sh.nd = 5)
    (ks : KeyState α) (hv : ValidK sh ks) (idx : Nat) (hidx : idx < sh.V)
    (p : KeyState α) (h : subsetVecK null sh ks idx = .ok p) :
    ValidK (vecSubsetShp sh) p ∧
    ∀ s t, s < sh.S → t < sh.T →
      lookupKS null (vecSubsetShp sh) p s t 0 = lookupKS null sh ks s t idx :=
  _root_.subsetVec_spec null sh hc h5 ks hv idx hidx p h

/-- the list `_copy_slice` stores has the multiplicity of its destination class -/
theorem subset_slice_raw_valid (sh : Shp) (wf : WFnd sh) (hsl : sh.hasSlice = true) (c : Cls)
    (hps : perSlice c = true) (hv : c ∈ validClasses sh) (vals : List α)
    (hlen : vals.length = mult sh c) (idx : Nat) (hidx : idx < sh.S) :
    let rs := sliceSubsetShp sh
    let d := copySliceDest (validClasses rs) c
    d ∈ validClasses rs ∧ (copySliceVals sh.S (mult rs d) idx vals).length = mult rs d ∧
      (d = gconst ∨ d = tsamples ∨ d = vsamples) :=
  _root_.copySlice_valid sh wf hsl c hps hv vals hlen idx hidx

/-- `make_empty` yields an extension in which every classification valid for the shape has its
    base dictionary (what `check_valid` demands) … -/
theorem makeEmpty_bases {κ : Type} [DecidableEq κ] (shape : List Nat) (sd : Option Nat) (e : DExt κ α)
    (h : DExt.makeEmpty shape sd = .ok e) :
    ∀ c, c ∈ validClasses e.shp → basePresent e.shp c = true :=
  DExt.makeEmpty_bases shape sd e h

/-- … and which is valid; shapes outside 3–5 dimensions and slice dims outside 0..2 are refused. -/
theorem makeEmpty_valid {κ : Type} [DecidableEq κ] (shape : List Nat) (sd : Option Nat) (e : DExt κ α)
    (h : DExt.makeEmpty shape sd = .ok e) : e.validB = true :=
  DExt.makeEmpty_validB shape sd e h

theorem makeEmpty_refuses {κ : Type} [DecidableEq κ] (shape : List Nat) (sd : Option Nat)
    (h : ¬ (3 ≤ shape.length ∧ shape.length < 6) ∨ ∃ d, sd = some d ∧ 3 ≤ d) :
    DExt.makeEmpty (κ := κ) (α := α) shape sd = .valueError :=
  DExt.makeEmpty_refuses shape sd h

/-- the result of a vector merge is valid for the merged shape -/
theorem merge_valid_vector (null : α) (sh1 osh : Shp)
    (hS : 0 < sh1.S) (hT : 0 < sh1.T) (hsl : sh1.hasSlice = true) (nd5 : sh1.nd = 5)
    (hvec : sh1.hasVector = true) (htime : sh1.hasTime = true ↔ sh1.T ≠ 1)
    (ohsl : osh.hasSlice = true) (oS : osh.S = sh1.S) (oT : osh.T = sh1.T) (oV : osh.V = 1)
    (ond : (osh.nd = 3 ∧ sh1.T = 1) ∨ (osh.nd = 4 ∧ sh1.T ≠ 1))
    (inputs : List (KeyState α)) (hin : ∀ b, b ∈ inputs → ValidK osh b)
    (r : KeyState α) (h : mergeVecK null sh1 osh inputs = .ok r) :
    ValidK { sh1 with V := inputs.length } r :=
  Total.mergeVec_valid null sh1 osh hS hT hsl nd5 hvec htime ohsl oS oT oV ond inputs hin r h

/-- **conversion produces a valid summary:** the key state embedded by `to_nifti` for a complete
    S × T × V stack is valid for the shape of the image -/
theorem convert_valid (null : α) (S T V : Nat) (hS : 0 < S) (hT : 2 ≤ T)
    (val : Nat → Nat → Nat → Option α)
    (vol : Nat → Nat → KeyState α) (vec : Nat → KeyState α) (r : KeyState α)
    (hvol : ∀ t v, t < T → v < V →
      mergeSliceK null ⟨3, 1, 1, 1, true, false, false⟩
        ((List.range S).map fun s => fileKS (val s t v)) = .ok (vol t v))
    (hvec : ∀ v, v < V →
      mergeTimeK null ⟨4, S, 1, 1, true, true, false⟩ ⟨3, S, 1, 1, true, false, false⟩
        ((List.range T).map fun t => vol t v) = .ok (vec v))
    (hfin : mergeVecK null ⟨5, S, T, 1, true, true, true⟩ ⟨4, S, T, 1, true, true, false⟩
        ((List.range V).map vec) = .ok r) :
    ValidK ⟨5, S, T, V, true, true, true⟩ r :=
  Total.convert_valid null S T V hS hT val vol vec r hvol hvec hfin

/-- **closure under chains of splits (one key):** from a valid key of a consistent shape (vector
    axis, if any, with ≥ 2 components), every applicable sequence of slice / time / vector subsets
    of any length runs through without an error and ends in a valid key of a consistent shape.
    `runOps` returns `none` only when a step does not apply (axis absent, index out of range). -/
theorem split_chain_valid (null : α) (ops : List Chain.SubOp) (sh : Shp) (ks : KeyState α)
    (hg : Chain.Good sh) (hv : ValidK sh ks) (sh' : Shp) (res : Except Err (KeyState α))
    (h : Chain.runOps null sh ks ops = some (sh', res)) :
    Chain.Good sh' ∧ ∃ ks', res = .ok ks' ∧ ValidK sh' ks' :=
  Chain.chain_valid null ops sh ks hg hv sh' res h

/-- **closure under every combination of splits and merges (one key):** whatever is obtained from
    valid key states by pieces of slice / time / vector splits and by slice / time / vector merges,
    nested in any way and with any number of inputs (`Chain.Produced`), is valid for a consistent
    shape -/
theorem produced_valid (null : α) (sh : Shp) (ks : KeyState α) (h : Chain.Produced null sh ks) :
    Chain.Good sh ∧ ValidK sh ks :=
  Chain.produced_valid null sh ks h

/-- … and the operations cannot fail on such states, so the set is closed under the operations
    themselves: slice split, -/
theorem produced_slice_split_total (null : α) (sh : Shp) (ks : KeyState α)
    (h : Chain.Produced null sh ks) (i : Nat) (hi : i < sh.S) :
    ∃ p, subsetSliceK null sh ks i = .ok p ∧ Chain.Produced null (sliceSubsetShp sh) p :=
  Chain.produced_slice_ok null sh ks h i hi

/-- time split, -/
theorem produced_time_split_total (null : α) (sh : Shp) (ks : KeyState α)
    (h : Chain.Produced null sh ks) (h45 : sh.nd = 4 ∨ sh.nd = 5) (i : Nat) (hi : i < sh.T) :
    ∃ p, subsetTimeK null sh ks i = .ok p ∧ Chain.Produced null (timeSubsetShp sh) p :=
  Chain.produced_time_ok null sh ks h h45 i hi

/-- vector split, -/
theorem produced_vector_split_total (null : α) (sh : Shp) (ks : KeyState α)
    (h : Chain.Produced null sh ks) (h5 : sh.nd = 5) (i : Nat) (hi : i < sh.V) :
    ∃ p, subsetVecK null sh ks i = .ok p ∧ Chain.Produced null (vecSubsetShp sh) p :=
  Chain.produced_vec_ok null sh ks h h5 i hi

/-- slice merge of any number of produced pieces -/
theorem produced_slice_merge_total (null : α) (sh1 : Shp) (hg : Chain.Good sh1)
    (a : KeyState α) (rest : List (KeyState α))
    (hin : ∀ b, b ∈ a :: rest → Chain.Produced null { sh1 with S := 1 } b) :
    ∃ r, mergeSliceK null sh1 (a :: rest) = .ok r ∧
      Chain.Produced null { sh1 with S := (a :: rest).length } r :=
  Chain.produced_mergeSlice_ok null sh1 hg a rest hin

end C07
