import DcmVerif.Proofs.Wrap
/-! Property theorems for C03 at wrapper level (voxel data, affines). Statements only; proofs are by reference to `Proofs/Wrap.lean`. -/
set_option autoImplicit false

namespace C03
variable {α : Type}
open Wrap

theorem merge_data_stacked (blank : α) (inputs : List (Arr α)) (dim : Nat) (s : List Nat)
    (hne : inputs ≠ []) (hsh : ∀ a ∈ inputs, a.shape = s) (hdim : dim < 5) (hs : Singular s dim) :
    ∃ r, mergeData blank inputs dim = .ok r ∧ r.shape = mergeShape s dim inputs.length ∧
      ∀ (i : Nat) (a : Arr α), inputs[i]? = some a → ∀ x, InRange s x →
        r.el (embed x dim i) = a.el x :=
  Wrap.mergeData_spec' blank inputs dim s hne hsh hdim hs

/-- `from_sequence` refuses a merge axis that is present and not singular -/
theorem merge_data_refuses (blank : α) (first : Arr α) (rest : List (Arr α)) (dim : Nat)
    (h : ¬ dim < 5 ∨ (dim < first.shape.length ∧ first.shape.getD dim 0 ≠ 1)) :
    mergeData blank (first :: rest) dim = .error .valueError :=
  Wrap.mergeData_refuses blank first rest dim h

/-- **which sequences `from_sequence` accepts** (every other sequence is refused with ValueError):
    every input has the first input's axis directions, and along a spatial merge axis every input
    lies strictly ahead of its predecessor -/
theorem merge_accept_iff (first : Aff) (rest : List Aff) (dim : Nat) :
    mergeAccept (first :: rest) dim = true ↔
      ∀ (i : Nat) (a : Aff), (first :: rest)[i]? = some a →
        (∀ ax, ax < 3 → ax ≠ dim → a.col ax = first.col ax) ∧
        (dim < 3 → V3.sameDir (a.col dim) (first.col dim) = true ∧
          ∀ p, prevOf none (first :: rest) i = some p →
            a.t.sub p ≠ V3.zero ∧ V3.sameDir (a.t.sub p) (a.col dim) = true) :=
  Wrap.mergeAccept_iff first rest dim

/-- an input whose non-merged axis differs from the first input's is refused -/
theorem merge_refuses_orientation (first : Aff) (rest : List Aff) (dim i ax : Nat) (a : Aff)
    (hi : (first :: rest)[i]? = some a) (hax : ax < 3) (hne : ax ≠ dim)
    (hdiff : a.col ax ≠ first.col ax) :
    mergeAccept (first :: rest) dim = false :=
  Wrap.merge_refuses_orientation first rest dim i ax a hi hax hne hdiff

/-- an input that does not lie strictly ahead of its predecessor along the merge axis is refused -/
theorem merge_refuses_position (first : Aff) (rest : List Aff) (dim i : Nat) (a b : Aff)
    (hd : dim < 3) (ha : (first :: rest)[i]? = some a) (hb : (first :: rest)[i + 1]? = some b)
    (hbad : b.t.sub a.t = V3.zero ∨ V3.sameDir (b.t.sub a.t) (b.col dim) = false) :
    mergeAccept (first :: rest) dim = false :=
  Wrap.merge_refuses_position first rest dim i a b hd ha hb hbad

/-- **the merged affine extends the inputs consistently**: for an accepted spatial merge of at
    least two inputs whose positions advance by the step between the first two, position `i` of the
    merge axis of the result lies where voxel 0 of input `i` lies (the axes that are not merged are
    the first input's, which acceptance has shown every input shares) -/
theorem merge_affine_consistent (first second : Aff) (rest : List Aff) (dim : Nat) (hd : dim < 3)
    (hacc : mergeAccept (first :: second :: rest) dim = true)
    (i : Nat) (a : Aff) (hi : (first :: second :: rest)[i]? = some a)
    (ht : a.t = first.t.add (V3.smul (i : Int) (second.t.sub first.t))) (x y z : Int) :
    ∃ R, mergeAff (first :: second :: rest) dim = some R ∧
      (match dim with
        | 0 => R.apply (i : Int) y z = a.apply 0 y z
        | 1 => R.apply x (i : Int) z = a.apply x 0 z
        | _ => R.apply x y (i : Int) = a.apply x y 0) :=
  Wrap.mergeAff_consistent first second rest dim hd hacc i a hi ht x y z

/-- non-vacuity: three axial slices 4 mm apart are accepted along axis 2, the same slices with the
    last two swapped are refused, and the merged affine has the 4 mm step as its slice column -/
example :
    let A (z : Int) : Aff := ⟨⟨2, 0, 0⟩, ⟨0, 3, 0⟩, ⟨0, 0, 4⟩, ⟨10, 20, z⟩⟩
    mergeAccept [A 30, A 34, A 38] 2 = true ∧ mergeAccept [A 30, A 38, A 34] 2 = false ∧
    mergeAccept [A 30, A 30] 2 = false ∧
    mergeAff [A 30, A 34, A 38] 2 = some ⟨⟨2, 0, 0⟩, ⟨0, 3, 0⟩, ⟨0, 0, 4⟩, ⟨10, 20, 30⟩⟩ := by decide

end C03
