import DcmVerif.Proofs.GridComplete
/-! Property theorems for C11_complete. Statements only; proofs are by reference to `Proofs/`. -/
set_option autoImplicit false

namespace C11

open Stk

/-- **C11, completeness:** the files of a complete regular grid — every combination of strictly
    increasing vector ordinates, time ordinates and evenly spaced slice positions exactly once —
    are accepted with shape S × T × V, in whatever order they were added. -/
theorem accept_complete (spacingOk : List Int → Bool) (idOf : Int → Int → Int → Nat)
    (vs ts ps : List Int)
    (hv : vs.Pairwise (· < ·)) (ht : ts.Pairwise (· < ·)) (hp : ps.Pairwise (· < ·))
    (hvne : vs ≠ []) (htne : ts ≠ []) (hpne : ps ≠ [])
    (hsp : ps.length > 1 → spacingOk ps = true)
    (files : List F) (hperm : files.Perm (grid idOf vs ts ps)) :
    getShape spacingOk files = .ok ps.length ts.length vs.length :=
  Stk.accept_complete spacingOk idOf vs ts ps hv ht hp hvne htne hpne hsp files hperm

/-- and the order it is converted in is the canonical grid order -/
theorem accept_complete_order (idOf : Int → Int → Int → Nat) (vs ts ps : List Int)
    (hv : vs.Pairwise (· < ·)) (ht : ts.Pairwise (· < ·)) (hp : ps.Pairwise (· < ·))
    (files : List F) (hperm : files.Perm (grid idOf vs ts ps)) :
    chkSort ps.length (vs.length * ts.length) files = grid idOf vs ts ps :=
  Stk.accept_complete_order idOf vs ts ps hv ht hp files hperm

end C11
