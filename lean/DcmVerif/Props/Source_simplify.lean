import DcmVerif.Proofs.Code_simplify
/-! The tie by proof (dcmmeta.py: _simplify, _get_const_period, is_constant, is_repeating): functions translated from the Python source on every run
(`tools/gen_code.py` → `Generated/Code_simplify.lean`) are the model functions the property theorems speak about.
Statements only; proofs are by reference to `Proofs/Code_simplify.lean`. One file per function group, so that an edit
of one function only unsettles the properties that depend on it. -/
set_option autoImplicit false
set_option linter.unusedVariables false
open Cls

namespace Source
variable {α κ : Type}
open Src

/-- **`is_constant` as written in dcmmeta.py is the model's `pyIsConstant`** (guards and result), for
    every list and period -/
theorem is_constant_is_model [DecidableEq α] (l : List α) (p : Option Nat) :
    Py.is_constant l p = errOf (pyIsConstant l p) :=
  Src.is_constant_eq l p

/-- **`is_repeating` as written in dcmmeta.py is the model's `pyIsRepeating`** -/
theorem is_repeating_is_model [DecidableEq α] (l : List α) (p : Nat) :
    Py.is_repeating l p = errOf (pyIsRepeating l p) :=
  Src.is_repeating_eq l p

/-- **`_get_const_period` as written in dcmmeta.py is the model's `constPeriod`** on every entry of
    the `_const_tests` table whose classes are valid for the shape -/
theorem get_const_period_is_model (e : DExt κ α) (h3 : 3 ≤ e.shape.length) (h5 : e.shape.length ≤ 5)
    (hsl : e.sliceDim.isSome = true) (src dest : Cls) (hs : src ∈ validClasses e.shp)
    (hd : dest ∈ validClasses e.shp) (htab : dest ∈ constTests src) :
    Py.get_const_period e.shape (e.sliceDim.map fun d => e.shape.getD d 1) src dest =
      .ok (constPeriod e.shp src dest) :=
  Src.get_const_period_eq e h3 h5 hsl src dest hs hd htab

/-- **`_simplify` as written in dcmmeta.py is the model's `simplifyK`** for one key of an extension with three to five axes and a
    slice dimension whose base dictionaries are the ones valid for its shape: the same Boolean, the same single write (class and
    values) followed by the deletion from the old class — or only the deletion of a constant `None` — and `ValueError` exactly when
    the model's list tests reject their arguments -/
theorem simplify_is_model [DecidableEq α] (null : α) (e : DExt κ α) (h3 : 3 ≤ e.shape.length) (h5 : e.shape.length ≤ 5)
    (hsl : e.sliceDim.isSome = true) (hbase : ∀ d, basePresent e.shp d = true → d ∈ validClasses e.shp)
    (c : Cls) (hc : c ∈ validClasses e.shp) (vals : List α) :
    Py.simplify null e.shape (e.sliceDim.map fun d => e.shape.getD d 1) (contentOf e) vals c =
      errOf ((simplifyK null e.shp c vals).map (fxOf c)) :=
  Src.simplify_eq null e h3 h5 hsl hbase c hc vals

/-- the translator translated every function of this group (dcmmeta.py: _simplify, _get_const_period, is_constant, is_repeating) -/
theorem translator_complete_simplify : Gen.codeMissing_simplify = [] := rfl

end Source
