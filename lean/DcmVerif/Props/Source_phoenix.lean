import DcmVerif.Proofs.Code_phoenix
/-! The tie by proof (extract.py: _parse_phoenix_line, parse_phoenix_prot): functions translated from the Python source on every run
(`tools/gen_code.py` → `Generated/Code_phoenix.lean`) are the model functions the property theorems speak about.
Statements only; proofs are by reference to `Proofs/Code_phoenix.lean`. One file per function group, so that an edit
of one function only unsettles the properties that depend on it. -/
set_option autoImplicit false
set_option linter.unusedVariables false
open Cls

namespace Source
variable {α κ : Type}
open Src Phx

/-- **`_parse_phoenix_line` as written in extract.py is the model's `parseLine`**, for every line and every non-empty string
    delimiter (both dialects: `"` and `""`) -/
theorem parse_phoenix_line_is_model (delim line : Str) (hd : delim ≠ []) :
    Py.parse_phoenix_line line delim = parseLine delim line :=
  Src.parse_phoenix_line_eq delim line hd

/-- **`parse_phoenix_prot` as written in extract.py is the model's `parseProt`** -/
theorem parse_phoenix_prot_is_model (key text : Str) : Py.parse_phoenix_prot key text = parseProt key text :=
  Src.parse_phoenix_prot_eq key text

/-- the translator translated every function of this group (extract.py: _parse_phoenix_line, parse_phoenix_prot) -/
theorem translator_complete_phoenix : Gen.codeMissing_phoenix = [] := rfl

end Source
