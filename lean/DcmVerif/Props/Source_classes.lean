import DcmVerif.Proofs.Code_classes
/-! The tie by proof (dcmmeta.py: get_valid_classes, get_multiplicity): functions translated from the Python source on every run
(`tools/gen_code.py` → `Generated/Code_classes.lean`) are the model functions the property theorems speak about.
Statements only; proofs are by reference to `Proofs/Code_classes.lean`. One file per function group, so that an edit
of one function only unsettles the properties that depend on it. -/
set_option autoImplicit false
set_option linter.unusedVariables false
open Cls

namespace Source
variable {α κ : Type}
open Src

/-- **`get_valid_classes` as written in dcmmeta.py is the model's `validClasses`** (3 to 5 axes) … -/
theorem get_valid_classes_is_model (e : DExt κ α) (sdArg : Option Nat) (h3 : 3 ≤ e.shape.length)
    (h5 : e.shape.length ≤ 5) :
    Py.get_valid_classes e.shape = .ok (validClasses (e.shp sdArg)) :=
  Src.get_valid_classes_eq e sdArg h3 h5

/-- … and raises ValueError for any other number of axes -/
theorem get_valid_classes_refuses (shape : List Nat) (h : ¬ (3 ≤ shape.length ∧ shape.length ≤ 5)) :
    Py.get_valid_classes shape = .error PyErr.valueError :=
  Src.get_valid_classes_refuses shape h

/-- **`get_multiplicity` as written in dcmmeta.py is the model's `mult`** for every classification
    valid for the shape (`n_slices` is `shape[slice_dim]`, or None without slice dimension) … -/
theorem get_multiplicity_is_model (e : DExt κ α) (h3 : 3 ≤ e.shape.length) (h5 : e.shape.length ≤ 5)
    (c : Cls) (hv : c ∈ validClasses e.shp) :
    Py.get_multiplicity e.shape (e.sliceDim.map fun d => e.shape.getD d 1) c = .ok (mult e.shp c) :=
  Src.get_multiplicity_eq e h3 h5 c hv

/-- the translator translated every function of this group (dcmmeta.py: get_valid_classes, get_multiplicity) -/
theorem translator_complete_classes : Gen.codeMissing_classes = [] := rfl

end Source
