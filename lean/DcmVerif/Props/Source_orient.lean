import DcmVerif.Proofs.Code_orient
/-! The tie by proof (dcmstack.py: the voxel_order checks of reorder_voxels): functions translated from the Python source on every run
(`tools/gen_code.py` → `Generated/Code_orient.lean`) are the model functions the property theorems speak about.
Statements only; proofs are by reference to `Proofs/Code_orient.lean`. One file per function group, so that an edit
of one function only unsettles the properties that depend on it. -/
set_option autoImplicit false
set_option linter.unusedVariables false
open Cls

namespace Source
variable {α κ : Type}
open Src Orient

/-- **the `voxel_order` checks of `reorder_voxels` as written in dcmstack.py pass exactly when the model's `checkCode` holds**
    (ValueError otherwise), for every string -/
theorem check_voxel_order_is_model (s : List Char) :
    Py.check_voxel_order s = if checkCode s then .ok () else .error PyErr.valueError :=
  Src.check_voxel_order_eq s

/-- the translator translated every function of this group (dcmstack.py: the voxel_order checks of reorder_voxels) -/
theorem translator_complete_orient : Gen.codeMissing_orient = [] := rfl

end Source
