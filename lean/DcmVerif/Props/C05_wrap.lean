import DcmVerif.Proofs.Wrap
/-! Property theorems for C05 at wrapper level (voxel data, affines). Statements only; proofs are by reference to `Proofs/Wrap.lean`. -/
set_option autoImplicit false

namespace C05
variable {α : Type}
open Wrap

/-- **splitting an image and merging the pieces back reproduces its voxel data**: any 3- to 5-D
    array without trailing singular axes beyond the third, any axis of non-zero length -/
theorem merge_split_data (blank : α) (a : Arr α) (dim : Nat) (h3 : 3 ≤ a.shape.length)
    (h5 : a.shape.length ≤ 5) (hd : dim < a.shape.length)
    (htrim : trimShape a.shape.length a.shape = a.shape) (hn : 0 < a.shape.getD dim 0) :
    ∃ r, mergeData blank (splitAll a dim) dim = .ok r ∧ r.shape = a.shape ∧
      ∀ x, InRange a.shape x → r.el x = a.el x :=
  Wrap.merge_split_data blank a dim h3 h5 hd htrim hn

/-- **the pieces of a split are accepted by the merge and give the parent's affine back**: any
    number of pieces; for a spatial axis the axis must not be degenerate (zero column) -/
theorem merge_split_affine (h : Hdr) (dim n : Nat) (hn : 0 < n)
    (hu : dim < 3 → h.best.col dim ≠ V3.zero) :
    mergeAccept (splitAffs h dim n) dim = true ∧ mergeAff (splitAffs h dim n) dim = some h.best :=
  Wrap.merge_split_affs h dim n hn hu

/-- non-vacuity: the hypotheses of `merge_split_affine` hold for a qform-only header -/
example : let h : Hdr := ⟨none, some ⟨⟨2, 0, 0⟩, ⟨0, 3, 0⟩, ⟨0, 0, 4⟩, ⟨10, 20, 30⟩⟩, ⟨⟨1, 0, 0⟩, ⟨0, 1, 0⟩, ⟨0, 0, 1⟩, ⟨0, 0, 0⟩⟩⟩
    (2 < 3 → h.best.col 2 ≠ V3.zero) ∧
    splitAffs h 2 3 = [⟨⟨2, 0, 0⟩, ⟨0, 3, 0⟩, ⟨0, 0, 4⟩, ⟨10, 20, 30⟩⟩, ⟨⟨2, 0, 0⟩, ⟨0, 3, 0⟩, ⟨0, 0, 4⟩, ⟨10, 20, 34⟩⟩,
      ⟨⟨2, 0, 0⟩, ⟨0, 3, 0⟩, ⟨0, 0, 4⟩, ⟨10, 20, 38⟩⟩] := by decide

end C05
