import DcmVerif.Proofs.StackAdd
/-! C12: the premise of the history-independence theorem (pairwise different sorting tuples) is
established by `add_dcm` itself, so the statement holds for every stack built through the API with
explicit ordering. -/
set_option autoImplicit false

namespace C12
open Stk

/-- **conversion results depend only on the set of accepted files**: two stacks with explicit
    ordering, built from any two sequences of `add_dcm` calls (refused datasets included) that end
    up holding the same files, and queried / converted by any two histories, build the output of a
    further call from the same file order -/
theorem add_order_and_history_independent (cs₁ cs₂ : List Cand)
    (hperm : (addAll true AddSt.init cs₁).1.files.Perm (addAll true AddSt.init cs₂).1.files)
    (S vols : Nat) (hlen : (addAll true AddSt.init cs₂).1.files.length = S * vols)
    (h₁ h₂ : List Op) (op : Op) :
    (step S vols (run S vols { files := (addAll true AddSt.init cs₁).1.files, dirty := true } h₁) op).2 =
    (step S vols (run S vols { files := (addAll true AddSt.init cs₂).1.files, dirty := true } h₂) op).2 := by
  have hd := addAll_distinctKeys cs₂
  rw [Stk.history_independent S vols _ hd hlen _ hperm h₁ op,
    Stk.history_independent S vols _ hd hlen _ (List.Perm.refl _) h₂ op]

end C12
