import DcmVerif.Proofs.Code_group
/-! The tie by proof (dcmstack.py: the placement step of parse_and_group): functions translated from the Python source on every run
(`tools/gen_code.py` → `Generated/Code_group.lean`) are the model functions the property theorems speak about.
Statements only; proofs are by reference to `Proofs/Code_group.lean`. One file per function group, so that an edit
of one function only unsettles the properties that depend on it. -/
set_option autoImplicit false
set_option linter.unusedVariables false
open Cls

namespace Source
variable {α κ : Type}
open Src Grp
variable {E V : Type} [DecidableEq E]

/-- **the placement step of `parse_and_group` as written in dcmstack.py is the model's `Grp.place`** (closeness of two close keys
    being the element-wise comparison the inner loop makes), for a `results` dictionary — an association list with pairwise
    different keys: a new exact key gets a new entry, otherwise the file joins the first sub-result whose close key agrees, or
    opens a new one -/
theorem group_place_is_model (closeV : V → V → Bool) (results : List (E × Subs (List (Option V)))) (key : E)
    (c : List (Option V)) (id : Nat) (hnd : (results.map (·.1)).Nodup) :
    Py.group_place closeV results key c id = .ok (place (closeAll closeV) id key c results) :=
  Src.group_place_eq closeV results key c id hnd

theorem group_place_keeps_keys_distinct {C : Type} (closeB : C → C → Bool) (id : Nat) (e : E) (c : C) (results : List (E × Subs C))
    (h : (results.map (·.1)).Nodup) : ((place closeB id e c results).map (·.1)).Nodup :=
  Src.place_nodup closeB id e c results h

/-- the translator translated every function of this group (dcmstack.py: the placement step of parse_and_group) -/
theorem translator_complete_group : Gen.codeMissing_group = [] := rfl

end Source
