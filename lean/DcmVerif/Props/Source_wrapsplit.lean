import DcmVerif.Proofs.Code_wrapsplit
/-! The tie by proof (dcmmeta.py: NiftiWrapper.split index expressions): functions translated from the Python source on every run
(`tools/gen_code.py` → `Generated/Code_wrapsplit.lean`) are the model functions the property theorems speak about.
Statements only; proofs are by reference to `Proofs/Code_wrapsplit.lean`. One file per function group, so that an edit
of one function only unsettles the properties that depend on it. -/
set_option autoImplicit false
set_option linter.unusedVariables false
open Cls

namespace Source
variable {α κ : Type}
open Src Wrap

/-- **the index expression `split` builds, as written in dcmmeta.py, is the model's `splitSpecs`** -/
theorem split_specs_is_model (shape : List Nat) (dim idx : Nat) :
    Py.split_specs shape dim idx = .ok (splitSpecs shape.length dim idx) :=
  Src.split_specs_eq shape dim idx

/-- **the trimming loop of `split`, as written in dcmmeta.py, is the model's `trim`** -/
theorem split_trim_is_model (a : Arr α) : Py.split_trim a = .ok (trim a.shape.length a) :=
  Src.split_trim_eq a

/-- the translator translated every function of this group (dcmmeta.py: NiftiWrapper.split index expressions) -/
theorem translator_complete_wrapsplit : Gen.codeMissing_wrapsplit = [] := rfl

end Source
