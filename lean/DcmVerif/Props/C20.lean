import DcmVerif.Props.Source_header
import DcmVerif.Props.C20_time
import DcmVerif.Props.C20_orient
import DcmVerif.Props.C20_stack
import DcmVerif.Props.C20_header
/-! C20: header timing and axis info (parts: TM strings, axis permutation, slice-time order). -/
