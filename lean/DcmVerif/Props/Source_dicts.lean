import DcmVerif.Proofs.Code_dicts
/-! The tie by proof (dcmmeta.py: make_empty (base dictionaries), get_classification, get_values_and_class, get_values): functions translated from the Python source on every run
(`tools/gen_code.py` → `Generated/Code_dicts.lean`) are the model functions the property theorems speak about.
Statements only; proofs are by reference to `Proofs/Code_dicts.lean`. One file per function group, so that an edit
of one function only unsettles the properties that depend on it. -/
set_option autoImplicit false
set_option linter.unusedVariables false
open Cls

namespace Source
variable {α κ : Type}
open Src

/-- **the base dictionaries `make_empty` creates as written in dcmmeta.py are the ones the model's `makeEmpty` records** -/
theorem make_empty_bases_is_model [DecidableEq κ] [DecidableEq α] (shape : List Nat) (sd : Option Nat) (r : DExt κ α)
    (h : DExt.makeEmpty shape sd = Res.ok r) :
    Py.make_empty_bases shape =
      .ok (["global"] ++ (if r.hasTime then ["time"] else []) ++ (if r.hasVector then ["vector"] else [])) :=
  Src.make_empty_bases_eq shape sd r h

/-- **`get_values_and_class` (with `get_classification`) as written in dcmmeta.py is the lookup `KeyDict.valuesAndClass` the
    whole-method translations use**: the first valid class, in the order of `get_valid_classes`, whose dictionary holds the key -/
theorem get_values_and_class_is_lookup (shape : List Nat) (valid : List Cls) (hv : Py.get_valid_classes shape = .ok valid)
    (d : KeyDict α) :
    Py.get_values_and_class shape d = .ok (KeyDict.valuesAndClass valid d) :=
  Src.get_values_and_class_eq shape valid hv d

/-- **`get_values` as written in dcmmeta.py is the value half of that lookup**: the values under the first valid class, in the
    order of `get_valid_classes`, whose dictionary holds the key; None for a key no valid class holds -/
theorem get_values_is_lookup (shape : List Nat) (valid : List Cls) (hv : Py.get_valid_classes shape = .ok valid)
    (d : KeyDict α) :
    Py.get_values shape d = .ok ((KeyDict.valuesAndClass valid d).map (·.2)) :=
  Src.get_values_eq shape valid hv d

/-- the translator translated every function of this group (dcmmeta.py: make_empty (base dictionaries), get_classification, get_values_and_class, get_values) -/
theorem translator_complete_dicts : Gen.codeMissing_dicts = [] := rfl

end Source
