import DcmVerif.Proofs.Code_extract
/-! The tie by proof (extract.py: the default ignore rules of MetaExtractor): functions translated from the Python source on every run
(`tools/gen_code.py` → `Generated/Code_extract.lean`) are the model functions the property theorems speak about.
Statements only; proofs are by reference to `Proofs/Code_extract.lean`. One file per function group, so that an edit
of one function only unsettles the properties that depend on it. -/
set_option autoImplicit false
set_option linter.unusedVariables false
open Cls

namespace Source
variable {α κ : Type}
open Src Ex

/-- **`ignore_private` as written in extract.py is the model's `ignorePrivate`** -/
theorem ignore_private_is_model (e : Elem) : Py.ignore_private e = .ok (ignorePrivate e) :=
  Src.ignore_private_eq e

/-- **`ignore_pixel_data` as written in extract.py is the model's `ignorePixel`** (the element numbers are the extracted table) -/
theorem ignore_pixel_data_is_model (e : Elem) : Py.ignore_pixel_data e = .ok (ignorePixel e) :=
  Src.ignore_pixel_data_eq e

/-- **`ignore_overlay_data` as written in extract.py is the model's `ignoreOverlay`**, for every 16-bit group number -/
theorem ignore_overlay_data_is_model (e : Elem) (hg : e.group < 65536) : Py.ignore_overlay_data e = .ok (ignoreOverlay e) :=
  Src.ignore_overlay_data_eq e hg

/-- **`ignore_color_lut_data` as written in extract.py is the model's `ignoreLut`** -/
theorem ignore_color_lut_data_is_model (e : Elem) : Py.ignore_color_lut_data e = .ok (ignoreLut e) :=
  Src.ignore_color_lut_data_eq e

/-- the translator translated every function of this group (extract.py: the default ignore rules of MetaExtractor) -/
theorem translator_complete_extract : Gen.codeMissing_extract = [] := rfl

end Source
