import DcmVerif.Props.Source_data
import DcmVerif.Props.C02_stack
import DcmVerif.Props.C02_orient
import DcmVerif.Props.C02_wrap
/-! C02: voxel values and geometry (parts: fill index arithmetic, reorientation). -/
