import DcmVerif.Proofs.Code_stackadd
/-! The tie by proof (dcmstack.py: DicomStack.add_dcm, _chk_congruent, _chk_close, _chk_equal): functions translated from the Python source on every run
(`tools/gen_code.py` → `Generated/Code_stackadd.lean`) are the model functions the property theorems speak about.
Statements only; proofs are by reference to `Proofs/Code_stackadd.lean`. One file per function group, so that an edit
of one function only unsettles the properties that depend on it. -/
set_option autoImplicit false
set_option linter.unusedVariables false
open Cls

namespace Source
variable {α κ : Type}
open Src Stk

/-- **`_chk_congruent` as written in dcmstack.py raises `IncongruentImageError` exactly when the model's `incongruentWith` says so** -/
theorem chk_congruent_is_model (ref : Option Cand) (c : Cand) :
    Py.chk_congruent ref c = if incongruentWith ref c then .error PyErr.incongruentImage else .ok () :=
  Src.chk_congruent_eq ref c

/-- **`add_dcm` as written in dcmstack.py is the model's `addDcm`**: same refusals (in the same order of precedence), the
    attributes untouched by a refused dataset, the same recorded state for an accepted one — for a candidate whose sorting tuple
    holds the ordinates the orderings compute (None without an ordering) -/
theorem add_dcm_is_model (tO vO : Bool) (noneCode tOrd vOrd : Int) (st : AddSt) (c : Cand)
    (ht : c.f.t = if tO then tOrd else noneCode) (hv : c.f.v = if vO then vOrd else noneCode) :
    Py.add_dcm tO vO noneCode tOrd vOrd st c = addResult (addDcm (tO || vO) st c) :=
  Src.add_dcm_eq tO vO noneCode tOrd vOrd st c ht hv

/-- the translator translated every function of this group (dcmstack.py: DicomStack.add_dcm, _chk_congruent, _chk_close, _chk_equal) -/
theorem translator_complete_stackadd : Gen.codeMissing_stackadd = [] := rfl

end Source
