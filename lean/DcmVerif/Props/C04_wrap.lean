import DcmVerif.Proofs.Wrap
/-! Property theorems for C04 at wrapper level (voxel data, affines). Statements only; proofs are by reference to `Proofs/Wrap.lean`. -/
set_option autoImplicit false

namespace C04
variable {α : Type}
open Wrap

/-- **piece `idx` of `split(dim)` is the `idx`-th hyperplane**: for every 3- to 5-D array and every
    axis, the piece's shape is the parent's with the split axis singular and trailing singular axes
    beyond the third trimmed, and its voxel `x` is the parent's voxel `x` with the split axis fixed to
    `idx` -/
theorem split_data_hyperplane (a : Arr α) (dim idx : Nat) (h3 : 3 ≤ a.shape.length)
    (h5 : a.shape.length ≤ 5) (hd : dim < a.shape.length) :
    (splitData a dim idx).shape = trimShape a.shape.length (a.shape.set dim 1) ∧
    ∀ x, InRange (splitData a dim idx).shape x →
      (splitData a dim idx).el x = a.el ((pad a.shape.length x).set dim idx) :=
  Wrap.splitData_spec a dim idx h3 h5 hd

/-- as many pieces as the axis is long, in index order -/
theorem split_piece_count (a : Arr α) (dim : Nat) : (splitAll a dim).length = a.shape.getD dim 0 :=
  Wrap.splitAll_length a dim

theorem split_piece_order (a : Arr α) (dim i : Nat) (hi : i < (splitAll a dim).length) :
    (splitAll a dim)[i] = splitData a dim i :=
  Wrap.splitAll_get a dim i hi

/-- **the affine of piece `i`**: the parent's best affine, moved by `i` steps of the split axis for
    a spatial split and unchanged otherwise — for any number of pieces -/
theorem split_affine (h : Hdr) (dim n i : Nat) (hi : i < n) :
    (splitAffs h dim n)[i]? =
      some (if dim < 3 then h.best.shift (V3.smul (i : Int) (h.best.col dim)) else h.best) :=
  Wrap.splitAffs_get h dim n i hi

/-- voxel `(x, y, z)` of piece `i` lies where the parent's voxel with `i` added on the split axis
    lies; in particular voxel 0 of the piece is sent to where voxel `i` of the parent was sent -/
theorem split_affine_voxel (A : Aff) (dim : Nat) (i x y z : Int) :
    (A.shift (V3.smul i (A.col dim))).apply x y z =
      match dim with
      | 0 => A.apply (x + i) y z
      | 1 => A.apply x (y + i) z
      | _ => A.apply x y (z + i) :=
  Wrap.shift_apply A dim i x y z

/-- the header a piece is built with reports the piece affine, whatever transforms were coded -/
theorem split_piece_header (h : Hdr) (a : Aff) : (pieceHdr h a).best = a :=
  Wrap.pieceHdr_best h a

end C04
