import DcmVerif.Proofs.Orient
/-! Property theorems for C02_orient. Statements only; proofs are by reference to `Proofs/`. -/
set_option autoImplicit false

namespace C02
variable {α : Type}
open Orient

/-- **C17, voxel / transform identity:** for each of the 48 transforms, every shape and every output
    index in range, the returned matrix maps the output index to the input index whose voxel
    `apply_orientation` put there, and that index is in range. -/
theorem reorient_transform_maps_back (t : List (Nat × Bool)) (ht : t ∈ allT) (a b c x y z : Nat)
    (hx : x < (outShape t [a, b, c]).getD 0 0) (hy : y < (outShape t [a, b, c]).getD 1 0)
    (hz : z < (outShape t [a, b, c]).getD 2 0) :
    matVec (invOrntAff t [a, b, c]) [x, y, z] = (srcIndex t [a, b, c] [x, y, z]).map Int.ofNat ∧
    (srcIndex t [a, b, c] [x, y, z]).getD 0 0 < a ∧
    (srcIndex t [a, b, c] [x, y, z]).getD 1 0 < b ∧
    (srcIndex t [a, b, c] [x, y, z]).getD 2 0 < c :=
  Orient.matVec_eq_srcIndex t ht a b c x y z hx hy hz

theorem order_change_is_signed_perm (s e : Ornt) (hs : s ∈ all48) (he : e ∈ all48) :
    ∃ t, orntTransform s e = some t ∧ applyTo s t = e :=
  Orient.transform_reaches_code s e hs he

/-- the output shape is the permuted input shape -/
theorem reorder_shape_perm (t : List (Nat × Bool)) (ht : t ∈ allT) (a b c : Nat) :
    (outShape t [a, b, c]).Perm [a, b, c] :=
  Orient.outShape_perm t ht a b c

/-- **C20 / C02: the permutation returned by the reordering tells where every source axis went:**
    output axis `t[i].1` carries the affine column of input axis `i` (negated when flipped), so
    `permutation[2]` is the axis along which the source slices are stacked and `permutation[0/1]`
    keep pointing along the source row / column directions -/
theorem axes_follow_permutation (t : List (Nat × Bool)) (ht : t ∈ allT) (c0 c1 c2 : Col) (i : Nat) (hi : i < 3) :
    (mulCols [c0, c1, c2] t)[(t.getD i (0, true)).1]? =
      ([c0, c1, c2][i]?).map fun c => { c with pos := if (t.getD i (0, true)).2 then c.pos else !c.pos } :=
  Orient.mulCols_axis t ht c0 c1 c2 i hi

/-- the orientation `io_orientation` reads from `affine · T` is the start orientation pushed
    through the transform -/
theorem reordered_affine_orientation (cols : List Col) (t : List (Nat × Bool)) :
    ioOrientation (mulCols cols t) = applyTo (ioOrientation cols) t :=
  Orient.ioOrientation_mulCols cols t

end C02
