import DcmVerif.Proofs.Code_insertall
/-! The tie by proof (dcmmeta.py: _insert as a whole): functions translated from the Python source on every run
(`tools/gen_code.py` → `Generated/Code_insertall.lean`) are the model functions the property theorems speak about.
Statements only; proofs are by reference to `Proofs/Code_insertall.lean`. One file per function group, so that an edit
of one function only unsettles the properties that depend on it. -/
set_option autoImplicit false
set_option linter.unusedVariables false
open Cls

namespace Source
variable {α κ : Type}
open Src
variable [DecidableEq κ] [DecidableEq α]

/-- **`_insert` as written in dcmmeta.py leaves `other` as it found it** — whether the slice meta data is used or put aside,
    and whether the `try` block ends normally or with an exception; what it does to `self` is the `try` block run against `other`
    with its per-slice dictionaries emptied when the slice normals differ -/
theorem insert_leaves_other_unchanged [DecidableEq α] (null : α) (ss : List Nat) (sn sd : Option Nat) (bases : List String) (kc0 : KContent κ α)
    (os : List Nat) (on : Option Nat) (other0 : Content κ α) (use : Bool) (dim : Nat) (valid : List Cls)
    (hv : Py.get_valid_classes os = .ok valid) (hnd : valid.Nodup) (hn : (other0.map (·.1)).Nodup)
    (hp : ∀ c ∈ valid, c ∈ other0.map (·.1)) :
    Py.insert_whole null ss sn sd bases kc0 os on other0 use dim =
      .ok (Py.insert_try null ss sn sd bases kc0 os on
            (if use then other0 else setSlices valid (fun _ => []) other0) dim, other0) :=
  Src.insert_whole_eq null ss sn sd bases kc0 os on other0 use dim valid hv hnd hn hp

/-- **`_insert` on the dictionaries of a model extension**: `other` is left as it was, and `self` sees `other` without its
    per-slice entries (`clearSliceMeta`) when the slice normals differ — the `effKey` of the model's `mergeKey` -/
theorem insert_on_model_extension [DecidableEq α] (null : α) (ss : List Nat) (sn sd : Option Nat) (bases : List String) (kc0 : KContent κ α)
    (o : DExt κ α) (h3 : 3 ≤ o.shape.length) (h5 : o.shape.length ≤ 5) (on : Option Nat) (use : Bool) (dim : Nat) :
    Py.insert_whole null ss sn sd bases kc0 o.shape on (toContent o) use dim =
      .ok (Py.insert_try null ss sn sd bases kc0 o.shape on (toContent (if use then o else o.clearSliceMeta)) dim,
           toContent o) :=
  Src.insert_whole_on_ext null ss sn sd bases kc0 o h3 h5 on use dim

/-- **the `try` block of `_insert` as written in dcmmeta.py treats keys independently**: when it ends normally, every key of a
    classification dictionary of `other` — and, in the round of the global constants, every key only `self` has — holds what
    the reclassification followed by the insertion make of *its own* entry in `self` and *its own* values in `other`, and every
    other key of `self` holds what it held; provided no key is listed twice (keys are unique in `other` and in `self`) -/
theorem insert_treats_keys_independently (null : α) (ss : List Nat) (sn sd : Option Nat) (bases : List String) (kc0 kc' : KContent κ α)
    (os : List Nat) (on : Option Nat) (oc : Content κ α) (dim : Nat) (valid sv : List Cls) (oks : List κ)
    (hv : Py.get_valid_classes os = .ok valid) (hsv : Py.get_valid_classes ss = .ok sv) (hk : Py.get_keys os oc = .ok oks)
    (hnd : (valid.flatMap (roundKeys oc ((KContent.keys sv kc0).filter fun key => !oks.contains key))).Nodup)
    (h : Py.insert_try null ss sn sd bases kc0 os on oc dim = .ok kc') :
    (∀ c k, c ∈ valid → k ∈ roundKeys oc ((KContent.keys sv kc0).filter fun key => !oks.contains key) c →
        keyStep null ss sn sd bases os on valid oc dim c k (kc0.get k) = .ok (kc'.get k)) ∧
    (∀ k, (∀ c ∈ valid, k ∉ roundKeys oc ((KContent.keys sv kc0).filter fun key => !oks.contains key) c) →
        kc'.get k = kc0.get k) :=
  Src.insert_try_per_key null ss sn sd bases kc0 kc' os on oc dim valid sv oks hv hsv hk hnd h

/-- **the `try` block of `_insert` on the dictionaries of a model extension treats keys independently** — `insert_try_per_key`
    with its premises discharged: `other` any model extension with 3 to 5 axes and unique keys, `self` any per-key view with
    unique keys -/
theorem insert_treats_keys_independently_on_model_extension [DecidableEq α] (null : α) (ss : List Nat) (sn sd : Option Nat) (bases : List String)
    (kc0 kc' : KContent κ α) (hk : (kc0.map (·.1)).Nodup) (sv : List Cls) (hsv : Py.get_valid_classes ss = .ok sv)
    (o : DExt κ α) (h3 : 3 ≤ o.shape.length) (h5 : o.shape.length ≤ 5) (hn : (o.ents.map (·.1)).Nodup)
    (on : Option Nat) (dim : Nat)
    (h : Py.insert_try null ss sn sd bases kc0 o.shape on (toContent o) dim = .ok kc') :
    (∀ c k, c ∈ validClasses o.shp → k ∈ roundKeys (toContent o) (missingOn sv kc0 o) c →
        keyStep null ss sn sd bases o.shape on (validClasses o.shp) (toContent o) dim c k (kc0.get k) = .ok (kc'.get k)) ∧
    (∀ k, (∀ c ∈ validClasses o.shp, k ∉ roundKeys (toContent o) (missingOn sv kc0 o) c) → kc'.get k = kc0.get k) :=
  Src.insert_try_per_key_on_ext null ss sn sd bases kc0 kc' hk sv hsv o h3 h5 hn on dim h

/-- **what `_insert` does to one key along a spatial axis that is not the slice axis is the model's `stepNonSliceK`**: the
    translated reclassification followed by the translated insertion, on the dictionaries of a key held as the model holds it,
    give the dictionaries of the model's result (or `ValueError` where the model has its error) — for a key at least one side
    has, when `self` and `other` have the same slices, time points and vector components (a merge along a non-slice spatial
    axis changes none of them) -/
theorem insert_key_step_non_slice_is_model (null : α) (e o : DExt κ α) (sd dim : Nat)
    (h3 : 3 ≤ e.shape.length) (h5 : e.shape.length ≤ 5) (hpos : ∀ x ∈ e.shape, 0 < x) (hsl : e.sliceDim = some sd)
    (ho3 : 3 ≤ o.shape.length) (ho5 : o.shape.length ≤ 5) (hopos : ∀ x ∈ o.shape, 0 < x) (hsd : sd < o.shape.length)
    (hsh : o.shp (some sd) = e.shp) (hvo : validClasses o.shp = validClasses e.shp)
    (hbase : ∀ d, basePresent e.shp d = true → d ∈ validClasses e.shp)
    (hdim : dim < 3) (hds : dim ≠ sd)
    (ks other : KeyState α) (hks : ∀ c v, ks = some (c, v) → c ∈ validClasses e.shp ∧ mult e.shp c ≠ 0)
    (hother : ∀ c v, other = some (c, v) → c ∈ validClasses o.shp ∧ mult o.shp c ≠ 0)
    (hnn : ¬ (ks = none ∧ other = none))
    (valid : List Cls) (oc : Content κ α) (k : κ) (hov : Content.valuesAndClass valid oc k = other) :
    keyStep null e.shape (e.sliceDim.map fun d => e.shape.getD d 1) (some sd) (contentOf' e) o.shape
        (o.sliceDim.map fun d => o.shape.getD d 1) valid oc dim (otherClass other) k (toDict ks) =
      errV ((stepNonSliceK null e.shp ks other).map toDict) :=
  Src.keyStep_non_slice_eq null e o sd dim h3 h5 hpos hsl ho3 ho5 hopos hsd hsh hvo hbase hdim hds ks other hks hother hnn valid oc k hov

/-- **what `_insert` does to one key along the slice axis is the model's `stepSliceK`** -/
theorem insert_key_step_slice_is_model (null : α) (e o : DExt κ α) (sd : Nat)
    (h3 : 3 ≤ e.shape.length) (h5 : e.shape.length ≤ 5) (hpos : ∀ x ∈ e.shape, 0 < x) (hsl : e.sliceDim = some sd)
    (hosl : o.sliceDim.isSome = true)
    (ho3 : 3 ≤ o.shape.length) (ho5 : o.shape.length ≤ 5) (hopos : ∀ x ∈ o.shape, 0 < x) (hsd : sd < o.shape.length)
    (hsh : o.shp (some sd) = { e.shp with S := 1 }) (hvo : ∀ c ∈ validClasses o.shp, c ∈ validClasses e.shp)
    (hbase : ∀ d, basePresent e.shp d = true → d ∈ validClasses e.shp)
    (ks other : KeyState α) (hks : ∀ c v, ks = some (c, v) → c ∈ validClasses e.shp ∧ mult e.shp c ≠ 0)
    (hother : ∀ c v, other = some (c, v) → c ∈ validClasses o.shp ∧ mult o.shp c ≠ 0)
    (hnn : ¬ (ks = none ∧ other = none))
    (valid : List Cls) (oc : Content κ α) (k : κ) (hov : Content.valuesAndClass valid oc k = other) :
    keyStep null e.shape (e.sliceDim.map fun d => e.shape.getD d 1) (some sd) (contentOf' e) o.shape
        (o.sliceDim.map fun d => o.shape.getD d 1) valid oc sd (otherClass other) k (toDict ks) =
      errV ((stepSliceK null e.shp ks other).map toDict) :=
  Src.keyStep_slice_eq null e o sd h3 h5 hpos hsl hosl ho3 ho5 hopos hsd hsh hvo hbase ks other hks hother hnn valid oc k hov

/-- **what `_insert` does to one key along the time (3) or vector (4) axis is the model's `stepSampleK`** -/
theorem insert_key_step_sample_is_model (null : α) (e o : DExt κ α) (sd : Nat) (isTime : Bool)
    (h3 : 3 ≤ e.shape.length) (h5 : e.shape.length ≤ 5) (hpos : ∀ x ∈ e.shape, 0 < x) (hsl : e.sliceDim = some sd) (hsd3 : sd < 3)
    (ho3 : 3 ≤ o.shape.length) (ho5 : o.shape.length ≤ 5) (hopos : ∀ x ∈ o.shape, 0 < x) (hsd : sd < o.shape.length)
    (hoT : e.shape.length = 5 → 3 < o.shape.length)
    (hsamp : (if isTime then tsamples else vsamples) ∈ validClasses e.shp)
    (hvo : ∀ c ∈ validClasses o.shp, c ∈ validClasses e.shp)
    (hbase : ∀ d, basePresent e.shp d = true → d ∈ validClasses e.shp)
    (ks other : KeyState α) (hks : ∀ c v, ks = some (c, v) → c ∈ validClasses e.shp ∧ mult e.shp c ≠ 0)
    (hother : ∀ c v, other = some (c, v) → c ∈ validClasses o.shp ∧ mult o.shp c ≠ 0)
    (hnn : ¬ (ks = none ∧ other = none))
    (valid : List Cls) (oc : Content κ α) (k : κ) (hov : Content.valuesAndClass valid oc k = other) :
    keyStep null e.shape (e.sliceDim.map fun d => e.shape.getD d 1) (some sd) (contentOf' e) o.shape
        (o.sliceDim.map fun d => o.shape.getD d 1) valid oc (if isTime then 3 else 4) (otherClass other) k (toDict ks) =
      errV ((stepSampleK null isTime e.shp (o.shp (some sd)) ks other).map toDict) :=
  Src.keyStep_sample_eq null e o sd isTime h3 h5 hpos hsl hsd3 ho3 ho5 hopos hsd hoT hsamp hvo hbase ks other hks hother hnn valid oc k hov

/-- **the `try` block of `_insert` ends normally when every visited key can be reclassified and inserted** — it raises only if
    `keyStep` raises for some visited key on the entry that key has at the start -/
theorem insert_try_ends_normally_when_steps_do (null : α) (ss : List Nat) (sn sd : Option Nat) (bases : List String) (kc0 : KContent κ α)
    (os : List Nat) (on : Option Nat) (oc : Content κ α) (dim : Nat) (valid sv : List Cls) (oks : List κ)
    (hv : Py.get_valid_classes os = .ok valid) (hsv : Py.get_valid_classes ss = .ok sv) (hk : Py.get_keys os oc = .ok oks)
    (hnd : (valid.flatMap (roundKeys oc ((KContent.keys sv kc0).filter fun key => !oks.contains key))).Nodup)
    (hstep : ∀ c k, c ∈ valid → k ∈ roundKeys oc ((KContent.keys sv kc0).filter fun key => !oks.contains key) c →
        ∃ a, keyStep null ss sn sd bases os on valid oc dim c k (kc0.get k) = .ok a) :
    ∃ kc', Py.insert_try null ss sn sd bases kc0 os on oc dim = .ok kc' :=
  Src.insert_try_ok null ss sn sd bases kc0 os on oc dim valid sv oks hv hsv hk hnd hstep

/-- the translator translated every function of this group (dcmmeta.py: _insert as a whole) -/
theorem translator_complete_insertall : Gen.codeMissing_insertall = [] := rfl

end Source
