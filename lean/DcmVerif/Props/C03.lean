import DcmVerif.Props.Source_dicts
import DcmVerif.Props.Source_insert
import DcmVerif.Props.Source_content
import DcmVerif.Props.Source_insertall
import DcmVerif.Props.Source_values
import DcmVerif.Props.Source_classes
import DcmVerif.Props.Source_simplify
import DcmVerif.Props.Source_shapes
import DcmVerif.Props.Source_wrapmerge
import DcmVerif.Props.C03_wrap
import DcmVerif.Proofs.Total
/-! Property theorems for C03. Statements only; proofs are by reference to `Proofs/`. -/
set_option autoImplicit false
open Cls

namespace C03
variable {α : Type} [DecidableEq α]

/-- **C03, slice axis, per key:** position `i` of the merged result reads input `i`
    (`null` where the input lacks the key) — any number of inputs, any consistent shape. -/
theorem merge_lookup_slice (null : α) (sh1 : Shp) (hc1 : Consistent sh1)
    (inputs : List (KeyState α)) (hin : ∀ b, b ∈ inputs → ValidK { sh1 with S := 1 } b)
    (r : KeyState α) (h : mergeSliceK null sh1 inputs = .ok r) :
    ∀ i t v, i < inputs.length → t < sh1.T → v < sh1.V →
      lookupKS null { sh1 with S := inputs.length } r i t v =
        lookupKS null { sh1 with S := 1 } (inputs[i]?.getD none) 0 t v :=
  _root_.mergeSlice_lookup null sh1 hc1 inputs hin r h

/-- **C03, time axis (3-D inputs → 4-D), per key:** time point `i` of the result reads input `i`. -/
theorem merge_lookup_time (null : α) (sh1 osh : Shp)
    (hS : 0 < sh1.S) (hsl : sh1.hasSlice = true) (nd4 : sh1.nd = 4) (v1 : sh1.V = 1)
    (hvec : sh1.hasVector = false)
    (ond : osh.nd = 3) (oS : osh.S = sh1.S) (oT : osh.T = 1) (oV : osh.V = 1)
    (ohsl : osh.hasSlice = true)
    (inputs : List (KeyState α)) (hin : ∀ b, b ∈ inputs → ValidK osh b)
    (r : KeyState α) (h : mergeTimeK null sh1 osh inputs = .ok r) :
    ∀ i s, i < inputs.length → s < sh1.S →
      lookupKS null { sh1 with T := inputs.length } r s i 0 =
        lookupKS null osh (inputs[i]?.getD none) s 0 0 :=
  _root_.mergeTime_lookup null sh1 osh hS hsl nd4 v1 hvec ond oS oT oV ohsl inputs hin r h

/-- **C03, vector axis (3-D / 4-D inputs → 5-D), per key:** component `i` of the result reads
    input `i`. -/
theorem merge_lookup_vector (null : α) (sh1 osh : Shp)
    (hS : 0 < sh1.S) (hT : 0 < sh1.T) (hsl : sh1.hasSlice = true) (nd5 : sh1.nd = 5)
    (hvec : sh1.hasVector = true) (htime : sh1.hasTime = true → sh1.T ≠ 1)
    (ohsl : osh.hasSlice = true) (oS : osh.S = sh1.S) (oT : osh.T = sh1.T) (oV : osh.V = 1)
    (ond : (osh.nd = 3 ∧ sh1.T = 1) ∨ (osh.nd = 4 ∧ sh1.T ≠ 1))
    (inputs : List (KeyState α)) (hin : ∀ b, b ∈ inputs → ValidK osh b)
    (r : KeyState α) (h : mergeVecK null sh1 osh inputs = .ok r) :
    ∀ i s t, i < inputs.length → s < sh1.S → t < sh1.T →
      lookupKS null { sh1 with V := inputs.length } r s t i =
        lookupKS null osh (inputs[i]?.getD none) s t 0 :=
  _root_.mergeVec_lookup null sh1 osh hS hT hsl nd5 hvec htime ohsl oS oT oV ond inputs hin r h

/-- **C03, non-slice spatial axis, per key:** if every input agrees with the first one at every
    position the key is kept with those values; as soon as one disagrees the key reads `null`
    everywhere (it is dropped, or survives only as a `null` constant). -/
theorem merge_nonslice (null : α) (sh : Shp) (hc : Consistent sh) (rest : List (KeyState α)) :
    ∀ (a acc r : KeyState α), ValidK sh acc → (∀ b, b ∈ rest → ValidK sh b) →
      (Agree null sh acc a ∨ Agree null sh acc none) →
      foldNonSliceK null sh acc rest = .ok r →
      ValidK sh r ∧
      ((Agree null sh acc a ∧ ∀ b, b ∈ rest → Agree null sh a b) → Agree null sh r a) ∧
      ((Agree null sh acc none ∨ ∃ b, b ∈ rest ∧ ¬ Agree null sh a b) → Agree null sh r none ∨
        Agree null sh r a ∧ Agree null sh a none) :=
  _root_.mergeNonSlice_spec null sh hc rest

theorem merge_valid_slice (null : α) (sh1 : Shp) (hc1 : Consistent sh1)
    (inputs : List (KeyState α)) (hin : ∀ b, b ∈ inputs → ValidK { sh1 with S := 1 } b)
    (r : KeyState α) (h : mergeSliceK null sh1 inputs = .ok r) :
    ValidK { sh1 with S := inputs.length } r :=
  _root_.mergeSlice_valid null sh1 hc1 inputs hin r h

theorem merge_valid_time (null : α) (sh1 osh : Shp)
    (hS : 0 < sh1.S) (hsl : sh1.hasSlice = true) (nd4 : sh1.nd = 4) (v1 : sh1.V = 1)
    (hvec : sh1.hasVector = false)
    (ond : osh.nd = 3) (oS : osh.S = sh1.S) (oT : osh.T = 1) (oV : osh.V = 1)
    (ohsl : osh.hasSlice = true)
    (inputs : List (KeyState α)) (hin : ∀ b, b ∈ inputs → ValidK osh b)
    (r : KeyState α) (h : mergeTimeK null sh1 osh inputs = .ok r) :
    ValidK { sh1 with T := inputs.length } r :=
  _root_.mergeTime_valid null sh1 osh hS hsl nd4 v1 hvec ond oS oT oV ohsl inputs hin r h

/-- first loop of `_insert`: the key ends up present, valid, with unchanged lookups -/
theorem reclassify_lossless (null : α) (sh : Shp) (wf : WF sh) (hsl : sh.hasSlice = true)
    (hbase : ∀ d, basePresent sh d = true → d ∈ validClasses sh)
    (self : KeyState α) (hself : ValidK sh self) (oc : Cls) (hoc : oc ∈ validClasses sh)
    (self' : KeyState α) (h : reclassifyK null sh self oc = .ok self') :
    (∃ c lv, self' = some (c, lv)) ∧ ValidK sh self' ∧
    ∀ s t v, s < sh.S → t < sh.T → v < sh.V →
      lookupKS null sh self' s t v = lookupKS null sh self s t v :=
  _root_.reclassify_spec null sh wf hsl hbase self hself oc hoc self' h

/-- `_get_changed_class` never changes what a lookup returns, and yields the right count. -/
theorem changed_class_lossless (null : α) (sh : Shp) (wf : WF sh) (hsl : sh.hasSlice = true)
    (ks : KeyState α) (hval : ValidK sh ks) (new : Cls) (hnew : new ∈ validClasses sh)
    (out : List α) (h : getChangedK null sh ks new = .ok out) :
    out.length = mult sh new ∧
    ∀ s t v, s < sh.S → t < sh.T → v < sh.V →
      out[proj sh s t v new]? = lookupKS null sh ks s t v :=
  _root_.getChanged_lookup null sh wf hsl ks hval new hnew out h

/-! ### the merges cannot fail in these regions (`Proofs/Total.lean`) -/

/-- the loops of `from_sequence` (reclassification and insertion of every input) never raise,
    whatever classes meet -/
theorem insert_loops_total (null : α) (sh1 : Shp) (rest : List (KeyState α)) (k : Nat)
    (acc : KeyState α) : ∃ r, foldSliceK null sh1 k acc rest = .ok r :=
  Total.foldSliceK_ok null sh1 rest k acc

/-- merging valid inputs along the slice axis succeeds (any consistent shape; with the F22 repair
    also when the vector axis has a single component) -/
theorem merge_slice_total (null : α) (sh1 : Shp) (hc1 : Consistent sh1)
    (a : KeyState α) (rest : List (KeyState α))
    (hin : ∀ b, b ∈ a :: rest → ValidK { sh1 with S := 1 } b) :
    ∃ r, mergeSliceK null sh1 (a :: rest) = .ok r :=
  Total.mergeSliceK_ok null sh1 hc1 a rest hin

/-- merging valid 3-D extensions along time succeeds -/
theorem merge_time_total (null : α) (sh1 osh : Shp)
    (hS : 0 < sh1.S) (hsl : sh1.hasSlice = true) (nd4 : sh1.nd = 4) (v1 : sh1.V = 1)
    (hvec : sh1.hasVector = false)
    (ond : osh.nd = 3) (oS : osh.S = sh1.S) (oT : osh.T = 1) (oV : osh.V = 1)
    (ohsl : osh.hasSlice = true)
    (a : KeyState α) (rest : List (KeyState α))
    (hin : ∀ b, b ∈ a :: rest → ValidK osh b) :
    ∃ r, mergeTimeK null sh1 osh (a :: rest) = .ok r :=
  Total.mergeTimeK_ok null sh1 osh hS hsl nd4 v1 hvec ond oS oT oV ohsl a rest hin

/-- merging valid 3-D / 4-D extensions along the vector axis succeeds -/
theorem merge_vector_total (null : α) (sh1 osh : Shp)
    (hS : 0 < sh1.S) (hT : 0 < sh1.T) (hsl : sh1.hasSlice = true) (nd5 : sh1.nd = 5)
    (hvec : sh1.hasVector = true) (htime : sh1.hasTime = true → sh1.T ≠ 1)
    (ohsl : osh.hasSlice = true) (oS : osh.S = sh1.S) (oT : osh.T = sh1.T) (oV : osh.V = 1)
    (ond : (osh.nd = 3 ∧ sh1.T = 1) ∨ (osh.nd = 4 ∧ sh1.T ≠ 1))
    (a : KeyState α) (rest : List (KeyState α))
    (hin : ∀ b, b ∈ a :: rest → ValidK osh b) :
    ∃ r, mergeVecK null sh1 osh (a :: rest) = .ok r :=
  Total.mergeVecK_ok null sh1 osh hS hT hsl nd5 hvec htime ohsl oS oT oV ond a rest hin

end C03
