import DcmVerif.Props.Source_filter
import DcmVerif.Props.Source_classes
import DcmVerif.Props.Source_content
import DcmVerif.Props.C14_flt
import DcmVerif.Props.C14_key
import DcmVerif.Props.C14_ext
import DcmVerif.Props.C14_chain
/-! C14: the metadata filter removes exactly the keys it is told to. -/
