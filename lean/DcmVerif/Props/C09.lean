import DcmVerif.Proofs.Json
/-! Property theorems for C09. Statements only; proofs are by reference to `Proofs/`. -/
set_option autoImplicit false

namespace C09
open Js

/-- **round trip, any depth and width:** decoding the token stream of a value (followed by anything)
    gives back exactly that value — same nesting, same key order, same number lexemes — and the
    rest of the stream -/
theorem decode_encode (v : Val) (fuel : Nat) (rest : List Tok) (h : vsize v ≤ fuel) :
    decode fuel (encode v ++ rest) = some (v, rest) :=
  Js.decode_encode v fuel rest h

theorem loads_dumps (v : Val) : decode (vsize v) (encode v) = some (v, []) :=
  Js.loads_dumps v

/-- **the encoder is injective**: two values with the same serialisation are equal, so
    re-serialising a loaded extension gives the identical text and nothing is conflated -/
theorem encode_injective (v w : Val) (h : encode v = encode w) : v = w :=
  Js.encode_injective v w h

theorem order_matters :
    encode (.obj [("a", .null), ("b", .null)]) ≠ encode (.obj [("b", .null), ("a", .null)]) :=
  Js.order_matters

/-- **NIfTI container:** stripping the NUL padding gives back the content, whenever the content
    does not itself end in a NUL byte (JSON text ends in `}`) -/
theorem strip_pad (bs : List UInt8) (h : ∀ x, bs.getLast? = some x → x ≠ 0) :
    rstripNul (pad16 bs) = bs :=
  Js.strip_pad bs h

theorem dumps_examples :
    dumps (.obj [("a", .num "1"), ("b", .arr [.null, .str "x"]), ("c", .obj []), ("d", .arr [])]) =
      "{\n    \"a\": 1,\n    \"b\": [\n        null,\n        \"x\"\n    ],\n    \"c\": {},\n    \"d\": []\n}" ∧
    dumps (.str "a\"b\\c\n\tü") = "\"a\\\"b\\\\c\\n\\t\\u00fc\"" ∧
    dumps (.str (String.singleton (Char.ofNat 128512))) = "\"\\ud83d\\ude00\"" ∧
    dumps (.arr [.bool true, .bool false, .num "1e+20", .num "0.1"]) =
      "[\n    true,\n    false,\n    1e+20,\n    0.1\n]" :=
  Js.dumps_examples

end C09
