import Lean.Data.Json
import DcmVerif.Model.Ext
import DcmVerif.Model.Valid
import DcmVerif.Model.Orient
import DcmVerif.Model.Time
import DcmVerif.Model.Stack
import DcmVerif.Model.Filter
import DcmVerif.Model.Json
import DcmVerif.Model.Extract
import DcmVerif.Model.Group
import DcmVerif.Model.Cli
import DcmVerif.Model.Wrap
import DcmVerif.Model.StackAdd
import DcmVerif.Model.Header
/-! `dcmdriver`: one JSON object per input line, one JSON answer per line.  Values of metadata
are opaque strings (the harness sends the canonical JSON text of each value), so equality in the
model is string equality. -/
open Lean Cls

abbrev V := String
abbrev K := String
def nullV : V := "null"

def clsName : Cls → String
  | gconst => "gconst" | gslices => "gslices" | tsamples => "tsamples"
  | tslices => "tslices" | vsamples => "vsamples" | vslices => "vslices"

def clsOf : String → Except String Cls
  | "gconst" => .ok gconst | "gslices" => .ok gslices | "tsamples" => .ok tsamples
  | "tslices" => .ok tslices | "vsamples" => .ok vsamples | "vslices" => .ok vslices
  | s => .error s!"bad class {s}"

def getNatList (j : Json) : Except String (List Nat) := do
  let a ← j.getArr?
  a.toList.mapM fun x => x.getNat?

def getStrList (j : Json) : Except String (List String) := do
  let a ← j.getArr?
  a.toList.mapM fun x => x.getStr?

def getOptNat (j : Json) : Except String (Option Nat) :=
  if j.isNull then .ok none else (j.getNat?).map some

def getShp (j : Json) : Except String Shp := do
  let a ← j.getArr?
  match a.toList with
  | [nd, s, t, v, hs, ht, hv] =>
    pure { nd := ← nd.getNat?, S := ← s.getNat?, T := ← t.getNat?, V := ← v.getNat?,
           hasSlice := ← hs.getBool?, hasTime := ← ht.getBool?, hasVector := ← hv.getBool? }
  | _ => .error "bad shp"

def getKS (j : Json) : Except String (KeyState V) :=
  if j.isNull then .ok none else do
    let a ← j.getArr?
    match a.toList with
    | [c, vals] => pure (some (← clsOf (← c.getStr?), ← getStrList vals))
    | _ => .error "bad key state"

def ksJson : KeyState V → Json
  | none => Json.null
  | some (c, vals) => Json.arr #[Json.str (clsName c), Json.arr (vals.map Json.str).toArray]

def getExt (j : Json) : Except String (DExt K V) := do
  let shape ← getNatList (← j.getObjVal? "shape")
  let sd ← getOptNat (← j.getObjVal? "sd")
  let t ← (← j.getObjVal? "t").getBool?
  let v ← (← j.getObjVal? "v").getBool?
  let ents ← (← (← j.getObjVal? "ents").getArr?).toList.mapM fun e => do
    let a ← e.getArr?
    match a.toList with
    | [k, c, vals] => pure (← k.getStr?, ← clsOf (← c.getStr?), ← getStrList vals)
    | _ => .error "bad entry"
  pure { shape := shape, sliceDim := sd, hasTime := t, hasVector := v, ents := ents }

def extJson (e : DExt K V) : Json :=
  Json.mkObj [("shape", Json.arr (e.shape.map fun (n : Nat) => (n : Json)).toArray),
    ("sd", match e.sliceDim with | some d => (d : Json) | none => Json.null),
    ("t", Json.bool e.hasTime), ("v", Json.bool e.hasVector),
    ("ents", Json.arr (e.ents.map fun x =>
      Json.arr #[Json.str x.1, Json.str (clsName x.2.1),
                 Json.arr (x.2.2.map Json.str).toArray]).toArray)]

def getOrnt (j : Json) : Except String (List (Nat × Bool)) := do
  (← j.getArr?).toList.mapM fun e => do
    let a ← e.getArr?
    match a.toList with
    | [x, b] => pure (← x.getNat?, ← b.getBool?)
    | _ => .error "bad ornt entry"

def orntJson (o : List (Nat × Bool)) : Json :=
  Json.arr (o.map fun p => Json.arr #[(p.1 : Json), Json.bool p.2]).toArray

def getVal : Nat → Json → Except String Js.Val
  | 0, _ => .error "value too deep"
  | fuel + 1, j => do
    let a ← j.getArr?
    match a.toList with
    | [t] => if (← t.getStr?) == "n" then pure .null else .error "bad val"
    | [t, x] =>
      match (← t.getStr?) with
      | "b" => pure (.bool (← x.getBool?))
      | "num" => pure (.num (← x.getStr?))
      | "s" => pure (.str (← x.getStr?))
      | "a" => do
        let items ← (← x.getArr?).toList.mapM (getVal fuel)
        pure (.arr items)
      | "o" => do
        let fs ← (← x.getArr?).toList.mapM fun kv => do
          let p ← kv.getArr?
          match p.toList with
          | [k, v] => pure (← k.getStr?, ← getVal fuel v)
          | _ => .error "bad field"
        pure (.obj fs)
      | _ => .error "bad val tag"
    | _ => .error "bad val"

def getFiles (j : Json) : Except String (List Stk.F) := do
  (← j.getArr?).toList.mapM fun e => do
    let a ← e.getArr?
    match a.toList with
    | [v, t, p, i] => pure { v := ← v.getInt?, t := ← t.getInt?, p := ← p.getInt?, id := ← i.getNat? }
    | _ => .error "bad file tuple"

def idsJson (l : List Stk.F) : Json := Json.arr (l.map fun f => (f.id : Json)).toArray

def pvalJson : Phx.PVal → Json
  | .int n => Json.mkObj [("int", Json.str (toString n))]
  | .floatLex l => Json.mkObj [("float", Json.str (String.ofList l))]
  | .str l => Json.mkObj [("str", Json.str (String.ofList l))]

def resJson {β : Type} (f : β → Json) : Res β → Json
  | .ok b => Json.mkObj [("ok", f b)]
  | .valueError => Json.mkObj [("err", "ValueError")]
  | .indexError => Json.mkObj [("err", "IndexError")]
  | .otherError => Json.mkObj [("err", "Other")]
  | .skip w => Json.mkObj [("skip", w)]

def exceptJson {β : Type} (f : β → Json) : Except Err β → Json
  | .ok b => Json.mkObj [("ok", f b)]
  | .error .valueError => Json.mkObj [("err", "ValueError")]
  | .error .other => Json.mkObj [("err", "Other")]

/-! wrapper level (voxel arrays, affines) -/
def getIntList (j : Json) : Except String (List Int) := do
  (← j.getArr?).toList.mapM fun x => x.getInt?

def getV3 (j : Json) : Except String Wrap.V3 := do
  match ← getIntList j with
  | [x, y, z] => pure ⟨x, y, z⟩
  | _ => .error "bad vector"

def getAff (j : Json) : Except String Wrap.Aff := do
  match (← j.getArr?).toList with
  | [a, b, c, t] => pure ⟨← getV3 a, ← getV3 b, ← getV3 c, ← getV3 t⟩
  | _ => .error "bad affine"

def getOptAff (j : Json) : Except String (Option Wrap.Aff) :=
  if j.isNull then .ok none else (getAff j).map some

def v3Json (v : Wrap.V3) : Json := Json.arr #[(v.x : Json), (v.y : Json), (v.z : Json)]
def affJson (a : Wrap.Aff) : Json := Json.arr #[v3Json a.c0, v3Json a.c1, v3Json a.c2, v3Json a.t]

def blankV : Int := -999999

def getArr (j : Json) : Except String (Wrap.Arr Int) := do
  let shape ← getNatList (← j.getObjVal? "shape")
  let data ← getIntList (← j.getObjVal? "data")
  pure (Wrap.Arr.ofList shape data blankV)

def arrJson (a : Wrap.Arr Int) : Json :=
  Json.mkObj [("shape", Json.arr (a.shape.map fun (n : Nat) => (n : Json)).toArray),
    ("data", Json.arr (a.toList.map fun (n : Int) => (n : Json)).toArray)]

def withDom (j : Json) (d : Bool) : Json := j.setObjVal! "dom" (Json.bool d)

def handle (j : Json) : Except String Json := do
  let op ← (← j.getObjVal? "op").getStr?
  match op with
  | "valid_classes" =>
    let sh ← getShp (← j.getObjVal? "sh")
    pure (Json.arr ((validClasses sh).map fun c => Json.str (clsName c)).toArray)
  | "mult" =>
    let sh ← getShp (← j.getObjVal? "sh")
    let c ← clsOf (← (← j.getObjVal? "cls").getStr?)
    pure ((mult sh c : Nat) : Json)
  | "make_empty" =>
    let shape ← getNatList (← j.getObjVal? "shape")
    let sd ← getOptNat (← j.getObjVal? "sd")
    pure (resJson extJson (DExt.makeEmpty (κ := K) (α := V) shape sd))
  | "simplify" =>
    let sh ← getShp (← j.getObjVal? "sh")
    let ks ← getKS (← j.getObjVal? "ks")
    pure (exceptJson ksJson (applySimplify nullV sh ks))
  | "get_subset" =>
    let e ← getExt (← j.getObjVal? "ext")
    let dim ← (← j.getObjVal? "dim").getNat?
    let idx ← (← j.getObjVal? "idx").getNat?
    pure (withDom (resJson extJson (DExt.getSubset nullV e dim idx)) (DExt.getSubsetInDomain e dim idx))
  | "from_sequence" =>
    let es ← (← (← j.getObjVal? "exts").getArr?).toList.mapM getExt
    let dim ← (← j.getObjVal? "dim").getNat?
    let sd ← getOptNat (← j.getObjVal? "sd")
    let use ← (← (← j.getObjVal? "use").getArr?).toList.mapM fun b => b.getBool?
    pure (withDom (resJson extJson (DExt.fromSequence nullV es dim sd use))
      (DExt.fromSequenceInDomain es dim sd))
  | "get_meta" =>
    let eshape ← getNatList (← j.getObjVal? "eshape")
    let esd ← getOptNat (← j.getObjVal? "esd")
    let ishape ← getNatList (← j.getObjVal? "ishape")
    let isd ← getOptNat (← j.getObjVal? "isd")
    let aligned ← (← j.getObjVal? "aligned").getBool?
    let ks ← getKS (← j.getObjVal? "ks")
    let ij ← j.getObjVal? "index"
    let index ← if ij.isNull then pure none else (getNatList ij).map some
    let out := getMeta (α := V) ⟨eshape, esd⟩ ⟨ishape, isd, aligned⟩ ks index
    pure (match out with
      | .value a => Json.mkObj [("value", Json.str a)]
      | .dflt => Json.str "default"
      | .indexError => Json.str "IndexError")
  | "meta_valid" =>
    let eshape ← getNatList (← j.getObjVal? "eshape")
    let esd ← getOptNat (← j.getObjVal? "esd")
    let ishape ← getNatList (← j.getObjVal? "ishape")
    let isd ← getOptNat (← j.getObjVal? "isd")
    let aligned ← (← j.getObjVal? "aligned").getBool?
    let c ← clsOf (← (← j.getObjVal? "cls").getStr?)
    pure (Json.bool (metaValid ⟨eshape, esd⟩ ⟨ishape, isd, aligned⟩ c))
  | "check_valid" =>
    let top ← getStrList (← j.getObjVal? "top")
    let vj ← j.getObjVal? "version"
    let version ← if vj.isNull then pure none else (vj.getStr?).map some
    let arows ← getNatList (← j.getObjVal? "arows")
    let sdj ← j.getObjVal? "sd"
    let sd ← if sdj.isNull then pure none else (sdj.getInt?).map some
    let shape ← getNatList (← j.getObjVal? "shape")
    let dj ← j.getObjVal? "dict"
    let getD (c : Cls) : Except String (Option (List (String × CV.EShape))) := do
      let v ← dj.getObjVal? (clsName c)
      if v.isNull then pure none else
        let l ← (← v.getArr?).toList.mapM fun e => do
          let a ← e.getArr?
          match a.toList with
          | [k, n] =>
            let ks ← k.getStr?
            if n.isNull then pure (ks, CV.EShape.scalar) else pure (ks, CV.EShape.sized (← n.getNat?))
          | _ => .error "bad dict entry"
        pure (some l)
    let d0 ← getD gconst; let d1 ← getD gslices; let d2 ← getD tsamples
    let d3 ← getD tslices; let d4 ← getD vsamples; let d5 ← getD vslices
    let dictF : Cls → Option (List (String × CV.EShape)) := fun cls =>
      match cls with
      | gconst => d0 | gslices => d1 | tsamples => d2 | tslices => d3 | vsamples => d4 | vslices => d5
    let c : CV.Content := { topKeys := top, version := version, affineRows := arows, sliceDim := sd,
                            shape := shape, dict := dictF }
    pure (Json.bool (CV.checkValid c))
  | "check_code" =>
    let sv ← (← j.getObjVal? "s").getStr?
    pure (Json.bool (Orient.checkCode sv.toList))
  | "axcodes2ornt" =>
    let sv ← (← j.getObjVal? "s").getStr?
    pure (match Orient.axcodes2ornt sv.toList with
      | none => Json.null
      | some o => orntJson o)
  | "ornt_transform" =>
    let st ← getOrnt (← j.getObjVal? "start")
    let en ← getOrnt (← j.getObjVal? "end")
    pure (match Orient.orntTransform st en with
      | none => Json.null
      | some t => orntJson t)
  | "reorder" =>
    let nd ← (← j.getObjVal? "nd").getNat?
    let affOk ← (← j.getObjVal? "aff_ok").getBool?
    let cols ← (← (← j.getObjVal? "cols").getArr?).toList.mapM fun c => do
      let a ← c.getArr?
      match a.toList with
      | [ax, pos, z] => pure ({ axis := ← ax.getNat?, pos := ← pos.getBool?, zoom := ← z.getNat? } : Orient.Col)
      | _ => .error "bad col"
    let code ← (← j.getObjVal? "code").getStr?
    let shape ← getNatList (← j.getObjVal? "shape")
    pure (match Orient.reorder nd affOk cols code.toList with
      | .valueError => Json.str "ValueError"
      | .ok t => Json.mkObj [("t", orntJson t),
          ("ornt", orntJson (Orient.ioOrientation (Orient.mulCols cols t))),
          ("shape", Json.arr ((Orient.outShape t shape).map fun (n : Nat) => (n : Json)).toArray),
          ("T", Json.arr ((Orient.invOrntAff t shape).map fun row =>
              Json.arr (row.map fun (x : Int) => (x : Json)).toArray).toArray)])
  | "src_index" =>
    let t ← getOrnt (← j.getObjVal? "t")
    let shape ← getNatList (← j.getObjVal? "shape")
    let out ← getNatList (← j.getObjVal? "out")
    pure (Json.arr ((Orient.srcIndex t shape out).map fun (n : Nat) => (n : Json)).toArray)
  | "phx_line" =>
    let line ← (← j.getObjVal? "line").getStr?
    let delim ← (← j.getObjVal? "delim").getStr?
    pure (match Phx.parseLine delim.toList line.toList with
      | .none => Json.null
      | .parseError => Json.str "PARSE-ERROR"
      | .pair k v => Json.arr #[Json.str (String.ofList k), pvalJson v])
  | "phx_prot" =>
    let key ← (← j.getObjVal? "key").getStr?
    let text ← (← j.getObjVal? "text").getStr?
    pure (match Phx.parseProt key.toList text.toList with
      | .parseError => Json.str "PARSE-ERROR"
      | .valueError => Json.str "ValueError"
      | .ok d => Json.arr (d.map fun p => Json.arr #[Json.str (String.ofList p.1), pvalJson p.2]).toArray)
  | "tm" =>
    let sv ← (← j.getObjVal? "s").getStr?
    pure (match Tm.toSec sv.toList with
      | .valueError => Json.str "ValueError"
      | .ok secs none => Json.mkObj [("secs", Json.str (toString secs))]
      | .ok secs (some d) => Json.mkObj [("secs", Json.str (toString secs)), ("neg", Json.bool d.neg),
          ("mant", Json.str (toString d.mant)), ("scale", Json.str (toString d.scale))])
  | "stack_shape" =>
    let files ← getFiles (← j.getObjVal? "files")
    let num ← (← j.getObjVal? "num").getNat?
    let den ← (← j.getObjVal? "den").getNat?
    pure (match Stk.getShape (Stk.spacingOkInt num den) files with
      | .invalid => Json.str "invalid"
      | .ok sS sT sV => Json.mkObj [("ok", Json.arr #[(sS : Json), (sT : Json), (sV : Json)]),
          ("order", idsJson (Stk.chkSort sS (files.length / sS) files))])
  | "stack_guess" =>
    -- files: [[v, t, p, id, [cand values or null, ...]], ...]
    let ncands ← (← j.getObjVal? "ncands").getNat?
    let num ← (← j.getObjVal? "num").getNat?
    let den ← (← j.getObjVal? "den").getNat?
    let gfs ← (← (← j.getObjVal? "files").getArr?).toList.mapM fun e => do
      let a ← e.getArr?
      match a.toList with
      | [v, t, p, i, cs] =>
        let cands ← (← cs.getArr?).toList.mapM fun c =>
          if c.isNull then pure (none : Option Int) else do pure (some (← c.getInt?))
        pure ({ f := { v := ← v.getInt?, t := ← t.getInt?, p := ← p.getInt?, id := ← i.getNat? },
                cands := cands } : Stk.GF)
      | _ => .error "bad guess file tuple"
    pure (match Stk.guessShape (Stk.spacingOkInt num den) ncands gfs with
      | (.invalid, _) => Json.str "invalid"
      | (.ok sS sT sV, k) => Json.mkObj [("ok", Json.arr #[(sS : Json), (sT : Json), (sV : Json)]),
          ("key", match k with | some k => (k : Json) | none => Json.null)])
  | "stack_run" =>
    let files ← getFiles (← j.getObjVal? "files")
    let sS ← (← j.getObjVal? "S").getNat?
    let vols ← (← j.getObjVal? "vols").getNat?
    let ops ← (← (← j.getObjVal? "ops").getArr?).toList.mapM fun o => do
      let sv ← o.getStr?
      match sv with
      | "shape" => pure Stk.Op.shape
      | "data" => pure Stk.Op.data
      | "affine" => pure Stk.Op.affine
      | "nifti_flip" => pure (Stk.Op.nifti true)
      | "nifti" => pure (Stk.Op.nifti false)
      | _ => .error "bad stack op"
    let rec go (st : Stk.St) (ops : List Stk.Op) (acc : List Json) : Stk.St × List Json :=
      match ops with
      | [] => (st, acc.reverse)
      | o :: os =>
        let r := Stk.step sS vols st o
        go r.1 os (idsJson r.2 :: acc)
    let res := go { files := files, dirty := true } ops []
    pure (Json.mkObj [("outs", Json.arr res.2.toArray), ("final", idsJson res.1.files),
      ("dirty", Json.bool res.1.dirty)])
  | "wrap_split" =>
    let a ← getArr (← j.getObjVal? "arr")
    let dimArg ← getOptNat (← j.getObjVal? "dim")
    let sd ← getOptNat (← j.getObjVal? "sd")
    let hj ← j.getObjVal? "hdr"
    let h : Wrap.Hdr := { s := ← getOptAff (← hj.getObjVal? "s"), q := ← getOptAff (← hj.getObjVal? "q"),
                          base := ← getAff (← hj.getObjVal? "base") }
    let dim? := match dimArg with
      | some d => some d
      | none => Wrap.defaultSplitDim a.shape.length sd
    match dim? with
    | none => pure (Json.mkObj [("err", "ValueError")])
    | some dim =>
      let pieces := Wrap.splitAll a dim
      let affs := Wrap.splitAffs h dim pieces.length
      pure (Json.mkObj [("dim", (dim : Json)), ("pieces", Json.arr (pieces.map arrJson).toArray),
        ("affs", Json.arr (affs.map affJson).toArray),
        ("best", Json.arr (affs.map fun a => affJson (Wrap.pieceHdr h a).best).toArray)])
  | "wrap_merge" =>
    let inputs ← (← (← j.getObjVal? "inputs").getArr?).toList.mapM getArr
    let affs ← (← (← j.getObjVal? "affs").getArr?).toList.mapM getAff
    let dimArg ← getOptNat (← j.getObjVal? "dim")
    match inputs with
    | [] => pure (Json.mkObj [("err", "IndexError")])
    | first :: _ =>
      let dim? := match dimArg with
        | some d => some d
        | none => Wrap.defaultMergeDim first.shape
      match dim? with
      | none => pure (Json.mkObj [("skip", "no default dim")])
      | some dim =>
        match Wrap.mergeData blankV inputs dim with
        | .error .indexError => pure (Json.mkObj [("err", "IndexError")])
        | .error .valueError => pure (Json.mkObj [("err", "ValueError")])
        | .error .shapeMismatch => pure (Json.mkObj [("skip", "shape mismatch")])
        | .ok r =>
          if Wrap.mergeAccept affs dim then
            match Wrap.mergeAff affs dim with
            | some A => pure (Json.mkObj [("dim", (dim : Json)), ("arr", arrJson r), ("aff", affJson A)])
            | none => pure (Json.mkObj [("err", "IndexError")])
          else pure (Json.mkObj [("err", "ValueError")])
  | "stack_fill" =>
    let files ← (← (← j.getObjVal? "files").getArr?).toList.mapM getArr
    let affs ← (← (← j.getObjVal? "affs").getArr?).toList.mapM getAff
    let rows ← (← j.getObjVal? "rows").getNat?
    let cols ← (← j.getObjVal? "cols").getNat?
    let S ← (← j.getObjVal? "S").getNat?
    let T ← (← j.getObjVal? "T").getNat?
    let V ← (← j.getObjVal? "V").getNat?
    let a := Wrap.stackData files blankV rows cols S T V
    match Wrap.stackAff affs S with
    | some A => pure (Json.mkObj [("arr", arrJson a), ("aff", affJson A)])
    | none => pure (Json.mkObj [("err", "IndexError")])
  | "stack_add" =>
    let explicit ← (← j.getObjVal? "explicit").getBool?
    let cands ← (← (← j.getObjVal? "cands").getArr?).toList.mapM fun c => do
      let optInt (x : Json) : Except String (Option Int) := if x.isNull then pure none else (x.getInt?).map some
      pure ({ isImage := ← (← c.getObjVal? "img").getBool?, rows := ← (← c.getObjVal? "rows").getNat?,
              cols := ← (← c.getObjVal? "cols").getNat?, geom := ← getIntList (← c.getObjVal? "geom"),
              f := { v := ← (← c.getObjVal? "v").getInt?, t := ← (← c.getObjVal? "t").getInt?,
                     p := ← (← c.getObjVal? "p").getInt?, id := ← (← c.getObjVal? "id").getNat? },
              tr := ← optInt (← c.getObjVal? "tr"), pe := ← getOptNat (← c.getObjVal? "pe") } : Stk.Cand)
    let r := Stk.addAll explicit Stk.AddSt.init cands
    let outName : Stk.AddOut → String
      | .ok => "ok" | .nonImage => "NonImageDataSetError" | .incongruent => "IncongruentImageError"
      | .collision => "ImageCollisionError"
    pure (Json.mkObj [("outs", Json.arr (r.2.map fun o => Json.str (outName o)).toArray),
      ("files", idsJson r.1.files), ("ntr", (r.1.trs.length : Json)), ("npe", (r.1.pes.length : Json)),
      ("ntuples", (r.1.tuples.length : Json)),
      ("ref", match r.1.ref with | some c => (c.f.id : Json) | none => Json.null)])
  | "header_info" =>
    let optInt (x : Json) : Except String (Option Int) := if x.isNull then pure none else (x.getInt?).map some
    let trs ← (← (← j.getObjVal? "trs").getArr?).toList.mapM optInt
    let pes ← (← (← j.getObjVal? "pes").getArr?).toList.mapM getOptNat
    let perm ← getNatList (← j.getObjVal? "perm")
    let acq ← (← (← j.getObjVal? "acq").getArr?).toList.mapM optInt
    let fpv ← (← j.getObjVal? "fpv").getNat?
    let nvols ← (← j.getObjVal? "nvols").getNat?
    let n ← (← j.getObjVal? "n").getNat?
    let trSet := trs.foldl (fun acc x => Stk.setInsert x acc) []
    let peSet := pes.foldl (fun acc x => Stk.setInsert x acc) []
    let optNatJ : Option Nat → Json
      | some k => (k : Json) | none => Json.null
    let di := Stk.dimInfoOf peSet perm
    pure (Json.mkObj [("tr", match Stk.trOf trSet with | some x => (x : Json) | none => Json.null),
      ("freq", optNatJ di.1), ("phase", optNatJ di.2.1), ("slice", optNatJ di.2.2),
      ("times", match Stk.sliceTimesOf fpv nvols n acq with
                | some ts => Json.arr (ts.map fun (t : Int) => (t : Json)).toArray
                | none => Json.null)])
  | "regex_filter" =>
    let excl ← getStrList (← j.getObjVal? "excl")
    let incl ← getStrList (← j.getObjVal? "incl")
    let keys ← getStrList (← j.getObjVal? "keys")
    pure (Json.arr (keys.map fun k => Json.bool (regexFilter Flt.matchLit excl incl k)).toArray)
  | "default_filter" =>
    let keys ← getStrList (← j.getObjVal? "keys")
    let ee ← getStrList (← j.getObjVal? "extra_excl")
    let ei ← getStrList (← j.getObjVal? "extra_incl")
    pure (Json.arr (keys.map fun k => Json.bool (Flt.cliFilter ee ei k)).toArray)
  | "filter_meta" =>
    let e ← getExt (← j.getObjVal? "ext")
    let drop ← getStrList (← j.getObjVal? "drop")
    pure (extJson (e.filterMeta fun k => drop.contains k))
  | "clear_slice_meta" =>
    let e ← getExt (← j.getObjVal? "ext")
    pure (extJson e.clearSliceMeta)
  | "dumps" =>
    let v ← getVal 200 (← j.getObjVal? "val")
    pure (Json.str (Js.dumps v))
  | "tokens" =>
    let v ← getVal 200 (← j.getObjVal? "val")
    pure (Json.bool (match Js.decode (Js.vsize v) (Js.encode v) with
      | some (w, []) => Js.encode w == Js.encode v
      | _ => false))
  | "extract_keys" =>
    let rules ← getStrList (← j.getObjVal? "rules")
    let ts ← (← (← j.getObjVal? "translators").getArr?).toList.mapM fun t => do
      let a ← t.getArr?
      match a.toList with
      | [n, e, c] => pure ({ name := ← n.getStr?, tagElem := ← e.getNat?, privCreator := ← c.getStr? } : Ex.Translator)
      | _ => .error "bad translator"
    let es ← (← (← j.getObjVal? "elems").getArr?).toList.mapM fun e => do
      let cj ← e.getObjVal? "creator"
      let creator ← if cj.isNull then pure none else (cj.getStr?).map some
      let tj ← e.getObjVal? "trans_keys"
      let tk ← if tj.isNull then pure none else (getStrList tj).map some
      pure ({ group := ← (← e.getObjVal? "g").getNat?, elem := ← (← e.getObjVal? "e").getNat?,
              keyword := ← (← e.getObjVal? "kw").getStr?, name := ← (← e.getObjVal? "name").getStr?,
              blankStr := ← (← e.getObjVal? "blank").getBool?, isSeq := ← (← e.getObjVal? "seq").getBool?,
              seqEmpty := ← (← e.getObjVal? "seq_empty").getBool?,
              valueNone := ← (← e.getObjVal? "none").getBool?, creator := creator, transKeys := tk,
              customIgnored := (e.getObjValAs? Bool "custom").toOption.getD false } : Ex.Elem)
    pure (match Ex.extractKeys rules ts es with
      | none => Json.str "ValueError"
      | some ks => Json.arr (ks.map Json.str).toArray)
  | "group" =>
    let warn ← (← j.getObjVal? "warn").getBool?
    let items ← (← (← j.getObjVal? "items").getArr?).toList.mapM fun it => do
      match it with
      | Json.str "n" => pure (Grp.Item.nonImage : Grp.Item String (List (Option (List Int))))
      | Json.str "u" => pure Grp.Item.unreadable
      | _ =>
        let a ← it.getArr?
        match a.toList with
        | [i, e, c] =>
          let cs ← (← c.getArr?).toList.mapM fun comp =>
            if comp.isNull then pure none
            else do
              let xs ← (← comp.getArr?).toList.mapM fun x => x.getInt?
              pure (some xs)
          pure (Grp.Item.file (← i.getNat?) (← e.getStr?) cs)
        | _ => .error "bad item"
    -- np.allclose(c_val, new, atol=5e-5) on a 1e6 lattice: |a − b| ≤ 50 + 1e-5·|b|
    let closeOne (a b : Option (List Int)) : Bool :=
      match a, b with
      | none, none => true
      | some x, some y => x.length == y.length &&
          (x.zip y).all fun p => decide ((p.1 - p.2).natAbs * 100000 ≤ 50 * 100000 + p.2.natAbs)
      | _, _ => false
    let closeB (a b : List (Option (List Int))) : Bool :=
      a.length == b.length && (a.zip b).all fun p => closeOne p.1 p.2
    pure (match Grp.parseAndGroup closeB warn items with
      | .raised => Json.str "raised"
      | .ok g => Json.arr (g.flatMap fun p => p.2.map fun sub =>
          Json.arr (sub.2.map fun (n : Nat) => (n : Json)).toArray).toArray)
  | "inject" =>
    let e ← getExt (← j.getObjVal? "ext")
    let c ← clsOf (← (← j.getObjVal? "cls").getStr?)
    let key ← (← j.getObjVal? "key").getStr?
    let vals ← getStrList (← j.getObjVal? "values")
    let force ← (← j.getObjVal? "force").getBool?
    pure (match Cli.inject e c key vals force with
      | .rc n => Json.mkObj [("rc", (n : Json))]
      | .ok r => Json.mkObj [("ok", extJson r)])
  | "cli_seq" =>
    let alias ← (← j.getObjVal? "alias").getBool?
    let g : Cli.Globals := { excl := ← getStrList (← j.getObjVal? "excl"), incl := ← getStrList (← j.getObjVal? "incl") }
    let as ← (← (← j.getObjVal? "args").getArr?).toList.mapM fun a => do
      pure ({ extraExcl := ← getStrList (← a.getObjVal? "e"), extraIncl := ← getStrList (← a.getObjVal? "i") } : Cli.Args)
    pure (Json.arr ((Cli.runSeq alias g as).map fun p =>
      Json.arr #[Json.arr (p.1.map Json.str).toArray, Json.arr (p.2.map Json.str).toArray]).toArray)
  | _ => .error s!"unknown op {op}"

partial def loop (hin hout : IO.FS.Stream) : IO Unit := do
  let line ← hin.getLine
  if line.isEmpty then return ()
  let out := match Json.parse line with
    | .error e => Json.mkObj [("bad", Json.str e)]
    | .ok j => match handle j with
      | .ok r => r
      | .error e => Json.mkObj [("bad", Json.str e)]
  hout.putStrLn out.compress
  loop hin hout

def main : IO Unit := do
  let hin ← IO.getStdin
  let hout ← IO.getStdout
  loop hin hout
  hout.flush
