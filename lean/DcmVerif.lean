import DcmVerif.Model.Cls
import DcmVerif.Generated.Tables
import DcmVerif.Model.Key
import DcmVerif.Proofs.Key
